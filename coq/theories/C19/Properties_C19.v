(** Property C19 -- No external resource is touched unless permitted; entity expansion is bounded.
    Only the property theorems: each is closed by [exact] of a lemma proved in Proofs19*.v / ProofsUri19.v (or by
    [vm_compute] on a concrete witness) and followed by [Print Assumptions].
    Models: Model19.v (gates, entity expansion), Uri19.v (URI resolution); Spec: Spec19.v, Uri19.rfc_resolve. *)
From XV Require Import Base.XDefs C19.Uri19 C19.Spec19 C19.Model19 C19.Proofs19a C19.Proofs19g C19.Proofs19b
  C19.Proofs19c C19.Proofs19d C19.Proofs19e C19.Proofs19f C19.Proofs19h C19.ProofsUri19 Gen.GenGates C19.Gates19 Gen.GenOpens C19.Opens19.
Local Open Scope N_scope.

(** ** T19_no_fetch (full on the model): for every configuration, resolver, file system and document, every
    default stream the parse opens is of a kind the configuration permits. *)
Theorem T19_no_fetch : forall c rs fs x k t id,
  In (EvOpen k t id) (trace (run c rs fs x)) -> permitted c (has_subset x) k = true.
Proof. exact no_fetch. Qed.
Print Assumptions T19_no_fetch.

(** ... hence, under each of the four ways the property names to forbid a kind (default resolution disabled;
    external-DTD loading off and validation off; schema loading off; a scanner that ignores DTDs resp. schemas),
    the trace contains no Open event of that kind. *)
Theorem T19_no_fetch_forbidden : forall c rs fs x k t id,
  forbidden c (has_subset x) k -> ~ In (EvOpen k t id) (trace (run c rs fs x)).
Proof.
  intros c rs fs x k t id F H. pose proof (forbidden_not_permitted _ _ _ F) as N.
  rewrite (no_fetch _ _ _ _ _ _ _ H) in N. discriminate.
Qed.
Print Assumptions T19_no_fetch_forbidden.

(** ... and the same on a parser with useCachedGrammarInParse, for every content of the grammar pool: the pool lookup
    (resolveSystemId in scanDocTypeDecl / checkInternalDTD) consults the resolver and builds a source but opens
    nothing; the external subset is opened only under the same gate.  [run_c c rs fs None = run c rs fs]. *)
Theorem T19_no_fetch_cached : forall c rs fs uc x k t id,
  In (EvOpen k t id) (trace (run_c c rs fs uc x)) -> permitted c (has_subset x) k = true.
Proof. exact no_fetch_cached. Qed.
Print Assumptions T19_no_fetch_cached.

(** ** T19_resolver_first: with a resolver installed, every default open is immediately preceded by the resolver
    being offered exactly that identifier (with the declaration's base URI) and declining it, and the source
    opened is the default source for that identifier resolved against that base (or, when the declaration has
    no base URI, against the last external entity); a source returned by the resolver is the one used. *)
Theorem T19_resolver_first : forall c rs fs x pre k t id post,
  trace (run c rs fs x) = pre ++ EvOpen k t id :: post ->
  match rs with
  | None => True
  | Some f => exists pre' sys base pub b,
      pre = pre' ++ [EvResolve k sys base pub] /\ f sys base pub = None /\ (b = base \/ base = []) /\
      default_source (c_stdUri c) b sys = Some {| ds_sysid := id; ds_open := t |}
  end.
Proof. exact resolver_first. Qed.
Print Assumptions T19_resolver_first.

Theorem T19_resolver_source_used : forall c rs fs x pre k id post,
  trace (run c rs fs x) = pre ++ EvUse k id :: post ->
  exists f pre' sys base pub ct, rs = Some f /\ pre = pre' ++ [EvResolve k sys base pub] /\ f sys base pub = Some (id, ct).
Proof. exact resolver_source_used. Qed.
Print Assumptions T19_resolver_source_used.

(** ** T19_limit (full, for the expansions the scanners count: general entities in content and attribute values):
    with a SecurityManager limit L, in every run at most L expansions are accepted (startEntityReference /
    attribute-value expansion) and at most L+1 entity readers are pushed: the (L+1)-th is pushed, the counter
    exceeds the limit, EntityExpansionLimitExceeded ends the parse before anything is read from it. *)
Theorem T19_limit : forall c rs fs L x, c_limit c = Some L ->
  (cntE (trace (run c rs fs x)) <= L)%nat /\ (cntPc (c_countDtd c) (trace (run c rs fs x)) <= S L)%nat.
Proof. intros c rs fs L x H. exact (limit_bound c rs fs L H x). Qed.
Print Assumptions T19_limit.

(** ** T19_limit_per_parse (full on the parser-state model): on a parser object that is reused, whatever was parsed
    before, whatever the scanner's cached limit and counter are, and however the manager was installed / changed /
    the scanner switched, parse k returns exactly what a fresh run of document k returns under the
    SecurityManager limit in force when that parse starts (scanReset refreshes the limit and zeroes the counter);
    the verdicts of a whole history depend only on (scanner, manager installed?, manager's limit) at each parse. *)
Theorem T19_limit_per_parse : forall c rs fs p x,
  fst (parse_step c rs fs p x) = run (with_limit c (if ps_installed p then Some (ps_mgr p) else None)) rs fs x.
Proof. exact parse_step_verdict. Qed.
Print Assumptions T19_limit_per_parse.
Theorem T19_limit_per_parse_history : forall ops c rs fs p,
  run_hist c rs fs p ops = hist_spec c rs fs (ps_installed p) (ps_mgr p) ops.
Proof. exact hist_per_parse. Qed.
Print Assumptions T19_limit_per_parse_history.
(** ... hence T19_limit holds for every parse of every history, with the limit then in force *)
Theorem T19_limit_every_parse : forall c rs fs p x,
  ps_installed p = true ->
  (cntE (trace (fst (parse_step c rs fs p x))) <= ps_mgr p)%nat /\ (cntPc (c_countDtd c) (trace (fst (parse_step c rs fs p x))) <= S (ps_mgr p))%nat.
Proof.
  intros c rs fs p x I. rewrite parse_step_verdict, I.
  exact (limit_bound (with_limit c (Some (ps_mgr p))) rs fs (ps_mgr p) eq_refl x).
Qed.
Print Assumptions T19_limit_every_parse.

(* ---- concrete documents for the witnesses below -------------------------------------------------------- *)
Definition cfgIG (lim : option nat) : cfg :=
  {| c_scanner := IG; c_val := VNever; c_doSchema := false; c_loadSchema := false; c_loadDTD := true;
     c_disableDefault := false; c_stdUri := false; c_limit := lim; c_countDtd := false |}.
Definition nofs : filesys := fun _ => None.
Definition nm (i : nat) : str := [99; 48 + N.of_nat i].                     (* "c0", "c1", ... *)
Definition docsys0 : str := [47; 100; 46; 120; 109; 108].                    (* /d.xml *)
Definition mkdoc (decls : list ditem) (atts : list (list piece)) (body : list piece) : doc :=
  {| d_sys := docsys0; d_doctype := Some {| dt_ext := None; dt_int := Some decls |}; d_atts := atts; d_hints := [];
     d_body := body |}.
(** a cycle c0 -> c1 -> ... -> c(k-1) -> c0, entered from content *)
Definition cycle_doc (k : nat) : doc :=
  mkdoc (map (fun i => DGE (nm i) (EInt [PTxt; PRef (nm (Nat.modulo (S i) k))])) (seq 0 k)) [] [PTxt; PRef (nm 0)].
Definition is_recursive (o : option fatal) : bool := match o with Some FRecursive => true | _ => false end.
Definition is_fuel (o : option fatal) : bool := match o with Some FFuel => true | _ => false end.

(** ** T19_limit, the uncounted side (known finding C19-F1): expansions performed by the DTD scanner are not
    counted -- limit 2, six parameter-entity references, accepted. *)
Definition pe_doc (n : nat) : doc :=
  mkdoc (DPE [112] (PInt [SGE [102] (EInt [PTxt])]) :: repeat (DPERef [112]) n) [] [PTxt].
Theorem T19_limit_dtd_side_refuted : exists c x,
  c_limit c = Some 2%nat /\ first_fatal (trace (run c None nofs x)) = None /\
  length (filter (fun e => match e with EvPushDtd _ => true | _ => false end) (trace (run c None nofs x))) = 6%nat.
Proof. exists (cfgIG (Some 2%nat)), (pe_doc 6). vm_compute. repeat split; reflexivity. Qed.
Print Assumptions T19_limit_dtd_side_refuted.

(** with the repair (fixes/C19-dtd-scanner-expansion-count.patch, [c_countDtd c = true]) T19_limit above bounds ALL
    entity readers, those pushed by the DTD scanner included, and the witness is rejected *)
Theorem T19_limit_repaired : forall c rs fs L x, c_limit c = Some L -> c_countDtd c = true ->
  (cntPc true (trace (run c rs fs x)) <= S L)%nat.
Proof. intros c rs fs L x H D. rewrite <- D. exact (proj2 (limit_bound c rs fs L H x)). Qed.
Print Assumptions T19_limit_repaired.
Example T19_limit_dtd_side_repaired :
  first_fatal (trace (run {| c_scanner := IG; c_val := VNever; c_doSchema := false; c_loadSchema := false;
                             c_loadDTD := true; c_disableDefault := false; c_stdUri := false;
                             c_limit := Some 2%nat; c_countDtd := true |} None nofs (pe_doc 6))) = Some FLimit.
Proof. vm_compute. reflexivity. Qed.

(** ** T19_limit_unaffected (full): documents within the limit are unaffected.  For EVERY configuration, resolver,
    file system and document: if the parse without a SecurityManager pushes at most L counted entity readers
    (content and attribute-value expansions; with the C19-F1 repair also the DTD scanner's), then the parse with
    limit L is the same run -- same events in the same order, same entity tables, same final state, hence no
    EntityExpansionLimitExceeded.  (Proofs19h.v: the counter never decreases + a two-run simulation through the
    nested fixpoints.)  Together with T19_limit: the limit changes a parse only by ending it at the (L+1)-th push. *)
Theorem T19_limit_unaffected : forall c rs fs L x,
  (cntPc (c_countDtd c) (trace (run (with_limit c None) rs fs x)) <= L)%nat ->
  run (with_limit c (Some L)) rs fs x = run (with_limit c None) rs fs x.
Proof. exact limit_unaffected_trace. Qed.
Print Assumptions T19_limit_unaffected.
(** non-vacuity and tightness on entity-table families (flat, chain, binary tree): N expansions with limit N:
    identical run; limit N-1: rejected with EntityExpansionLimitExceeded *)
Definition e0 : str := [101; 48].
Definition flat_doc (n : nat) : doc := mkdoc [DGE e0 (EInt [PTxt])] [] (repeat (PRef e0) n).
Definition chain_doc (n : nat) : doc :=
  mkdoc (DGE (nm 0) (EInt [PTxt]) :: map (fun i => DGE (nm (S i)) (EInt [PTxt; PRef (nm i)])) (seq 0 n)) [] [PRef (nm n)].
Definition tree_doc (n : nat) : doc :=
  mkdoc (DGE (nm 0) (EInt [PTxt]) :: map (fun i => DGE (nm (S i)) (EInt [PRef (nm i); PRef (nm i)])) (seq 0 n)) []
        [PRef (nm n)].
Definition same_run (a b : st) : bool :=
  Nat.eqb (length (s_tr a)) (length (s_tr b)) && Bool.eqb (s_halt a) (s_halt b) && Nat.eqb (s_cnt a) (s_cnt b).
Definition unaffected_at (x : doc) (needed : nat) : bool :=
  same_run (run (cfgIG (Some needed)) None nofs x) (run (cfgIG None) None nofs x) &&
  negb (s_halt (run (cfgIG None) None nofs x)) &&
  Nat.eqb (cntE (trace (run (cfgIG None) None nofs x))) needed &&
  match needed with
  | O => true
  | S m => match first_fatal (trace (run (cfgIG (Some m)) None nofs x)) with Some FLimit => true | _ => false end
  end.
Example T19_limit_unaffected_examples :
  forallb (fun n => unaffected_at (flat_doc n) n) (seq 0 12) &&
  forallb (fun n => unaffected_at (chain_doc n) (S n)) (seq 0 8) &&
  forallb (fun n => unaffected_at (tree_doc n) (Nat.pow 2 (S n) - 1)) (seq 0 5) = true.
Proof. vm_compute. reflexivity. Qed.

(** the per-parse theorem is about scanReset: a parser whose scanReset does not refresh the limit / zero the counter
    (the same history run with [reset := id]) rejects an in-limit second document and accepts an over-limit one
    after the limit was lowered *)
Definition verdicts (l : list st) : list (option fatal) := map (fun s => first_fatal (trace s)) l.
Example T19_limit_per_parse_nonvacuous :
  verdicts (run_hist (cfgIG None) None nofs ps0 [HSetLimit 3; HInstall true; HParse (flat_doc 2); HParse (flat_doc 2);
                                                  HSetLimit 1; HParse (flat_doc 2)]) = [None; None; Some FLimit] /\
  verdicts (run_hist_with (fun p => p) (cfgIG None) None nofs ps0
              [HSetLimit 3; HInstall true; HParse (flat_doc 2); HParse (flat_doc 2); HSetLimit 1; HParse (flat_doc 2)])
    = [None; Some FLimit; Some FLimit].
Proof. vm_compute. split; reflexivity. Qed.

(** ** T19_recursion: a reference to an entity that is already on the reader stack is reported as
    RecursiveEntity (pushReaderAdoptEntity compares with the readers below the current one) ... *)
Theorem T19_recursion_detect : forall rec c rs fs nd ia ext cur stack n s g v,
  dtd_scanner c = true -> lookup n (s_ge s) = Some g -> g_def g = EInt v -> Model19.mem n stack = true ->
  expand_ref rec c rs fs nd ia ext cur stack n s = halt FRecursive s.
Proof.
  intros rec c rs fs nd ia ext cur stack n s g v D L G M. unfold expand_ref, push_ok. rewrite D, L, G, M. reflexivity.
Qed.
Print Assumptions T19_recursion_detect.

(** ... so every cycle is reported after at most |entities|+1 pushes and expansion terminates -- PARTIAL: shown by
    computation for cycles of every length 1..24 (RecursiveEntity after exactly max(k,2) pushes <= k+1; the
    direct self-reference is detected one level late because the current reader is not compared) and for the
    acyclic families above (no fuel error); the universal depth bound / fuel-unreachability is not proved. *)
Example T19_recursion_cycles_partial :
  forallb (fun k => is_recursive (first_fatal (trace (run (cfgIG None) None nofs (cycle_doc k)))) &&
                    Nat.eqb (cntP (trace (run (cfgIG None) None nofs (cycle_doc k)))) (Nat.max k 2) &&
                    Nat.leb (cntP (trace (run (cfgIG None) None nofs (cycle_doc k)))) (S k))
          (seq 1 24) = true.
Proof. vm_compute. reflexivity. Qed.
Print Assumptions T19_recursion_cycles_partial.
Example T19_no_fuel_error_partial :
  forallb (fun n => negb (is_fuel (first_fatal (trace (run (cfgIG None) None nofs (chain_doc n)))))) (seq 0 40) &&
  forallb (fun n => negb (is_fuel (first_fatal (trace (run (cfgIG None) None nofs (tree_doc n)))))) (seq 0 8) = true.
Proof. vm_compute. reflexivity. Qed.

(** non-vacuity of the gate theorems: a document with an external subset, opened by default resolution, and the
    same document with default resolution disabled *)
Definition dtdsys : str := [109; 46; 100; 116; 100].                          (* m.dtd *)
Definition ext_doc : doc :=
  {| d_sys := docsys0; d_doctype := Some {| dt_ext := Some ([], dtdsys); dt_int := None |}; d_atts := []; d_hints := [];
     d_body := [PTxt] |}.
Definition fs1 : filesys := fun p => if str_eqb p [47; 109; 46; 100; 116; 100] then Some (CDtd []) else None.
Example T19_no_fetch_nonvacuous :
  trace (run (cfgIG None) None fs1 ext_doc) = [EvOpen KDtd (TFile [47; 109; 46; 100; 116; 100]) [47; 109; 46; 100; 116; 100]] /\
  trace (run {| c_scanner := IG; c_val := VNever; c_doSchema := false; c_loadSchema := false; c_loadDTD := true;
                c_disableDefault := true; c_stdUri := false; c_limit := None; c_countDtd := false |} None fs1 ext_doc) = [EvFatal FOpenFailed] /\
  trace (run {| c_scanner := IG; c_val := VNever; c_doSchema := false; c_loadSchema := false; c_loadDTD := false;
                c_disableDefault := false; c_stdUri := false; c_limit := None; c_countDtd := false |} None fs1 ext_doc) = [] /\
  trace (run (cfgIG None) (Some (fun _ _ _ => None)) fs1 ext_doc) =
    [EvResolve KDtd dtdsys docsys0 []; EvOpen KDtd (TFile [47; 109; 46; 100; 116; 100]) [47; 109; 46; 100; 116; 100]].
Proof. vm_compute. repeat split; reflexivity. Qed.

(** ** T19_resolve_rfc: URI resolution against RFC 2396 section 5.2 (details, all Appendix C examples and the
    [_rfc_refuted_] deviation lemmas: ProofsUri19.v) *)
Theorem T19_resolve_absolute : forall base ref sc rest,
  scheme_split ref = Some (sc, rest) -> rfc_resolve base ref = ref.
Proof. exact rfc_resolve_absolute. Qed.
Print Assumptions T19_resolve_absolute.
Theorem T19_resolve_no_dot_segments : forall l, dots_ok (rm_dots [] l) = true.
Proof. exact rm_dots_no_dot_segments. Qed.
Print Assumptions T19_resolve_no_dot_segments.
Theorem T19_resolve_idempotent : forall l, rm_dots [] (rm_dots [] l) = rm_dots [] l.
Proof. exact rm_dots_idempotent. Qed.
Print Assumptions T19_resolve_idempotent.
(** XMLPlatformUtils::weavePaths (LocalFileInputSource) = RFC 2396 5.2 step 6 on plain segments *)
Theorem T19_resolve_weave_rfc : forall bs k ps,
  forallb plain_seg bs = true -> plain_segs ps = true -> (k <= length bs)%nat ->
  rm_dotdot [] (rm_dot_slash_segs ([] :: bs ++ repeat dd k ++ ps)) = [] :: rm_dots [] (bs ++ repeat dd k ++ ps).
Proof. exact weave_rfc_segments. Qed.
Print Assumptions T19_resolve_weave_rfc.
(** PARTIAL (finite sweeps on texts): agreement of the three resolvers with rfc_resolve on plain relative references *)
Theorem T19_resolve_rfc_localfile_partial :
  forallb (fun base => forallb (fun r =>
      implb (plain_rel r && Nat.leb (updepth r) (depth base)) (str_eqb (localfile_resolve base r) (rfc_resolve base r)))
    (refs_over alpha_plain 5)) bases_path = true.
Proof. exact localfile_rfc_agree_partial. Qed.
Theorem T19_resolve_rfc_xmlurl_partial :
  forallb (fun base => forallb (fun r =>
      implb (plain_rel r) (match xmlurl_resolve base r with Some t => str_eqb t (rfc_resolve base r) | None => false end))
    (refs_over alpha_plain 5)) bases_uri = true.
Proof. exact xmlurl_rfc_agree_partial. Qed.
Theorem T19_resolve_rfc_xmluri_partial :
  forallb (fun base => forallb (fun r =>
      implb (plain_rel r) (match xmluri_resolve base r with Some t => str_eqb t (rfc_resolve base r) | None => false end))
    (refs_over alpha_plain 5)) bases_uri = true.
Proof. exact xmluri_rfc_agree_partial. Qed.
(** ** T19_resolve_inherits_authority (full): a relative reference without protocol and host resolved by the model of
    XMLURL::conglomerateWithBase against a base that has a host takes protocol, user, password, host AND port from
    the base; in the specification (RFC 2396 5.2 step 4) scheme and authority (userinfo@host:port as one unit) of
    the result are those of the base whenever the reference has neither. *)
Theorem T19_resolve_inherits_authority : forall u b r,
  conglomerate u b = Some r -> u_proto u = None -> u_host u = None -> opt_is_some (u_host b) = true ->
  u_proto r = u_proto b /\ u_user r = u_user b /\ u_pass r = u_pass b /\ u_host r = u_host b /\ u_port r = u_port b.
Proof. exact conglomerate_inherits_authority. Qed.
Print Assumptions T19_resolve_inherits_authority.
Theorem T19_resolve_rfc_inherits_authority : forall b r,
  r_scheme r = None -> r_auth r = None ->
  r_scheme (rfc_resolve_parts b r) = r_scheme b /\ r_auth (rfc_resolve_parts b r) = r_auth b.
Proof. exact rfc_inherits_authority. Qed.
Print Assumptions T19_resolve_rfc_inherits_authority.
Example T19_resolve_inherits_authority_nonvacuous :     (* http://usr:pw@h:8080/d/doc.xml + ../e.dtd *)
  xmlurl_resolve [104;116;116;112;58;47;47;117;115;114;58;112;119;64;104;58;56;48;56;48;47;100;47;100;111;99;46;120;109;108]
                 [46;46;47;101;46;100;116;100]
  = Some [104;116;116;112;58;47;47;117;115;114;58;112;119;64;104;58;56;48;56;48;47;101;46;100;116;100].
Proof. vm_compute. reflexivity. Qed.

(** ** T19_unescape_once (full): the unescape loop of XMLURL::makeNewStream (find '%', check two hex digits, write
    the value, shift, resume the search AFTER the decoded character) equals the single-pass specification
    [pct_decode] on every input: every %hh is decoded exactly once, a malformed escape is an error in both, and
    what was already decoded never influences what happens to the rest. *)
Theorem T19_unescape_once : forall s, unescape_once s = pct_decode s.
Proof. exact unescape_once_spec. Qed.
Print Assumptions T19_unescape_once.
Theorem T19_unescape_independent : forall f d1 d2 rest, (length rest < f)%nat ->
  option_map (fun x => skipn (length d1) x) (unesc_loop f d1 rest) =
  option_map (fun x => skipn (length d2) x) (unesc_loop f d2 rest).
Proof. exact unescape_independent. Qed.
Print Assumptions T19_unescape_independent.
(** the variant that restarts the search ON the decoded character is refuted: "ent/a%2541.ent" must give
    "ent/a%41.ent", the variant gives "ent/aA.ent"; "%20", "%2B" and text without escapes do not tell the
    two apart *)
Definition pctA : str := [101;110;116;47;97;37;50;53;52;49;46;101;110;116].       (* ent/a%2541.ent *)
Example T19_unescape_restart_refuted :
  unescape_once pctA = Some [101;110;116;47;97;37;52;49;46;101;110;116] /\               (* ent/a%41.ent *)
  unescape_restart pctA = Some [101;110;116;47;97;65;46;101;110;116] /\                  (* ent/aA.ent *)
  unescape_restart pctA <> pct_decode pctA /\
  unescape_restart [97;37;50;48;98] = unescape_once [97;37;50;48;98] /\                   (* a%20b *)
  unescape_restart [97;37;50;66;98] = unescape_once [97;37;50;66;98] /\                   (* a%2Bb *)
  unescape_once [97;37;50;53;98] = Some [97;37;98] /\                                     (* a%25b -> a%b *)
  unescape_once [97;37;52] = None /\ unescape_once [37;52;71;49] = None.                  (* a%4 , %4G1 *)
Proof. vm_compute. repeat split; try reflexivity; try (intro H; inversion H). Qed.

(** deviation of the real code (known finding C19-F2), one witness per resolver *)
Theorem T19_resolve_rfc_refuted :
  localfile_resolve baseF [97; 47; 47; 46; 46; 47; 98] <> rfc_resolve baseF [97; 47; 47; 46; 46; 47; 98] /\
  xmlurl_resolve baseU [97; 47; 47; 46; 46; 47; 98] <> Some (rfc_resolve baseU [97; 47; 47; 46; 46; 47; 98]) /\
  xmluri_resolve baseU [97; 47; 47; 46; 46; 47; 98] <> Some (rfc_resolve baseU [97; 47; 47; 46; 46; 47; 98]).
Proof.
  exact (conj localfile_rfc_refuted_empty_segment (conj xmlurl_rfc_refuted_empty_segment xmluri_rfc_refuted_empty_segment)).
Qed.
Print Assumptions T19_resolve_rfc_refuted.

(** ** T-gate obligation (tie to the source, regenerated on every run): every stream-opening call site found in
    /repo is classified in the committed table Gates19.gate_table and carries the guards the table requires;
    no classified site has vanished. *)
Theorem T19_gate_inventory :
  forallb site_ok gate_sites = true /\
  forallb (fun e => match assoc (fst e) gate_sites with Some _ => true | None => false end) gate_table = true.
Proof. exact (conj gate_inventory_classified gate_inventory_complete). Qed.
Print Assumptions T19_gate_inventory.

(** ** T-open obligation (tie to the source, regenerated on every run): the WHOLE source tree (800 files, all
    platforms) is searched for the primitives that can open a file, socket or URL (makeStream, BinFileInputStream,
    makeNewStream / makeNew, net-accessor streams, XMLPlatformUtils::openFile*, the file managers' fopen /
    CreateFile, socket / connect / curl) and for constructions of file / URL / stdin input sources; every occurrence
    is classified in the committed table Opens19.open_table with its exact count, none has vanished, and every file
    that constructs such a source is one whose call sites T19_gate_inventory classifies with their guards. *)
Theorem T19_open_inventory :
  forallb open_site_ok open_sites = true /\ forallb open_entry_present open_table = true /\
  forallb (fun s => match is_source_key (fst s) with
                    | Some f => existsb (String.eqb f) gated_files
                    | None => true
                    end) open_sites = true.
Proof. exact (conj open_inventory_classified (conj open_inventory_complete open_sources_gated)). Qed.
Print Assumptions T19_open_inventory.
