(** C19 -- a generic induction principle over the model: any state invariant that is preserved by the
    primitive steps (event blocks, halt, table updates, one accepted general-entity expansion) holds at
    the end of every run.  Instantiated for the expansion limit and for resolver-first. *)
From XV Require Import Base.XDefs C19.Uri19 C19.Spec19 C19.Model19 C19.Proofs19a.
Local Open Scope N_scope.

Section Generic.
Variables (c : cfg) (rs : option resolver) (fs : filesys).
Variable Inv : st -> Prop.
Hypothesis Inv_halt : forall f s, Inv s -> Inv (halt f s).
Hypothesis Inv_add_ge : forall n g s, Inv s -> Inv (add_ge n g s).
Hypothesis Inv_add_pe : forall n g s, Inv s -> Inv (add_pe n g s).
Hypothesis Inv_add_ns : forall n s, Inv s -> Inv (add_ns n s).
Hypothesis Inv_add_seen : forall n s, Inv s -> Inv (add_seen n s).
Hypothesis Inv_pushdtd : forall n s, s_halt s = false -> Inv s -> Inv (push_dtd c n s).
Hypothesis Inv_cr : forall k rb b sys pub ev r s,
  (b = rb \/ rb = []) -> create_reader c rs fs k rb b sys pub = (ev, r) -> Inv s -> Inv (emit ev s).
Hypothesis Inv_ss1 : forall base loc ns ev src s,
  schema_source c rs base loc ns = (ev, src) -> Inv s -> Inv (emit ev s).
Hypothesis Inv_ss2 : forall base loc ns ev src ev2 ct s,
  schema_source c rs base loc ns = (ev, src) -> schema_open fs src = (ev2, ct) -> Inv s -> Inv (emit ev2 (emit ev s)).
(** one general-entity expansion step in content / attribute values, given the recursive call preserves Inv *)
Hypothesis Inv_expand : forall (rec : rec_content) nd ia ext cur st n,
  (forall ia ext cur st ps s, Inv s -> Inv (rec ia ext cur st ps s)) ->
  forall s, s_halt s = false -> Inv s -> Inv (expand_ref rec c rs fs nd ia ext cur st n s).

Lemma g_content : forall d nd ia ext cur st ps s, Inv s -> Inv (content d c rs fs nd ia ext cur st ps s).
Proof.
  induction d as [|d IHd]; intros nd ia ext cur st ps s Hs.
  - rewrite content_O. destruct (s_halt s); [exact Hs|apply Inv_halt; auto].
  - revert s Hs. induction ps as [|p r IHr]; intros s Hs.
    + rewrite content_nil. exact Hs.
    + destruct p as [|n].
      * rewrite content_txt. apply IHr. exact Hs.
      * rewrite content_cons_ref. apply IHr. destruct (s_halt s) eqn:Hh; [exact Hs|].
        apply Inv_expand; [|exact Hh|exact Hs]. intros. apply IHd. assumption.
Qed.

Lemma g_dtd_att_ref : forall (rec : rec_att) nd ext cur st n,
  (forall ext cur st ps s, Inv s -> Inv (rec ext cur st ps s)) ->
  forall s, s_halt s = false -> Inv s -> Inv (dtd_att_ref rec c nd ext cur st n s).
Proof.
  intros rec nd ext cur st n IH s Hh Hs. unfold dtd_att_ref.
  destruct (lookup n (s_ge s)) as [g|]; [|destruct nd; [apply Inv_halt|]; auto].
  destruct (g_def g); [|apply Inv_halt; auto].
  destruct (negb (push_ok n st)); [apply Inv_halt; auto|].
  apply IH. apply Inv_pushdtd; assumption.
Qed.

Lemma g_dtd_att : forall d nd ext cur st ps s, Inv s -> Inv (dtd_att d c nd ext cur st ps s).
Proof.
  induction d as [|d IHd]; intros nd ext cur st ps s Hs.
  - rewrite dtd_att_O. destruct (s_halt s); [exact Hs|apply Inv_halt; auto].
  - revert s Hs. induction ps as [|p r IHr]; intros s Hs.
    + rewrite dtd_att_nil. exact Hs.
    + destruct p as [|n].
      * rewrite dtd_att_txt. apply IHr. exact Hs.
      * rewrite dtd_att_cons_ref. apply IHr. destruct (s_halt s) eqn:Hh; [exact Hs|].
        apply g_dtd_att_ref; [|exact Hh|exact Hs]. intros. apply IHd. assumption.
Qed.

Lemma g_dtd_item : forall (rec : rec_dtd) (datt : rec_att) ext cur st it,
  (forall ext cur st l s, Inv s -> Inv (rec ext cur st l s)) ->
  (forall ext cur st l s, Inv s -> Inv (datt ext cur st l s)) ->
  forall s, s_halt s = false -> Inv s -> Inv (dtd_item rec datt c rs fs ext cur st it s).
Proof.
  intros rec datt ext cur st it IH IHa s Hh Hs. unfold dtd_item.
  destruct it as [n def|n def|n|vv].
  - destruct (lookup n (s_ge s)); [exact Hs|apply Inv_add_ge; exact Hs].
  - destruct (lookup n (s_pe s)); [exact Hs|apply Inv_add_pe; exact Hs].
  - destruct (lookup n (s_pe s)) as [p|]; [|exact Hs].
    destruct (p_def p) as [vv|pub sys].
    + destruct (negb (push_ok n st)); [apply Inv_halt; auto|].
      apply IH. apply Inv_pushdtd; assumption.
    + destruct (create_reader c rs fs KPE (p_base p) _ sys pub) as [ev r] eqn:E.
      assert (H1 : Inv (emit ev s)).
      { eapply Inv_cr; [|exact E|exact Hs]. destruct (p_base p); [right; reflexivity|left; reflexivity]. }
      destruct r as [id ct| |f]; [|apply Inv_halt; auto|apply Inv_halt; auto].
      destruct (negb (push_ok n st)); [apply Inv_halt; auto|].
      assert (H2 : Inv (push_dtd c n (emit ev s))) by (apply Inv_pushdtd; [exact Hh|exact H1]).
      destruct ct as [[items|ps|refs]|]; auto.
  - apply IHa. exact Hs.
Qed.

Lemma g_dtd_items : forall d nd ext cur st l s, Inv s -> Inv (dtd_items d c rs fs nd ext cur st l s).
Proof.
  induction d as [|d IHd]; intros nd ext cur st l s Hs.
  - rewrite dtd_items_O. destruct (s_halt s); [exact Hs|apply Inv_halt; auto].
  - revert s Hs. induction l as [|it r IHr]; intros s Hs.
    + rewrite dtd_items_nil. exact Hs.
    + rewrite dtd_items_cons. apply IHr. destruct (s_halt s) eqn:Hh; [exact Hs|].
      apply g_dtd_item; [| |exact Hh|exact Hs].
      * intros. apply IHd. assumption.
      * intros. apply g_dtd_att. assumption.
Qed.

Lemma g_schema_ref : forall (rec : rec_schema) url tns r,
  (forall url tns refs s, Inv s -> Inv (rec url tns refs s)) ->
  forall s, Inv s -> Inv (schema_ref rec c rs fs url tns r s).
Proof.
  intros rec url tns r IH s Hs. unfold schema_ref.
  destruct (schema_source c rs url (sr_loc r) _) as [ev src] eqn:E.
  assert (H1 : Inv (emit ev s)) by (eapply Inv_ss1; eauto).
  assert (K : Inv (let id := ssrc_id src in
           if mem id (s_seen (emit ev s)) then emit ev s
           else if (match sr_kind r with SImport => mem (sr_ns r) (s_ns (emit ev s)) | SInclude => false end) then emit ev s
           else let '(ev2, ct) := schema_open fs src in
                let s2 := emit ev2 (emit ev s) in
                match ct with
                | SoGot (CSchema refs) =>
                  let tns' := match sr_kind r with SInclude => tns | SImport => sr_ns r end in
                  rec id tns' refs (add_seen id (match sr_kind r with SImport => add_ns (sr_ns r) s2 | SInclude => s2 end))
                | SoThrow f => halt f s2
                | _ => s2
                end)).
  { cbv zeta. destruct (mem (ssrc_id src) (s_seen (emit ev s))); [exact H1|].
    destruct (match sr_kind r with SImport => mem (sr_ns r) (s_ns (emit ev s)) | SInclude => false end); [exact H1|].
    destruct (schema_open fs src) as [ev2 ct] eqn:E2.
    assert (H2 : Inv (emit ev2 (emit ev s))) by (eapply Inv_ss2; eauto).
    destruct ct as [[items|ps|refs]| |f]; try exact H2; try (apply Inv_halt; exact H2).
    apply IH. apply Inv_add_seen. destruct (sr_kind r); [exact H2|apply Inv_add_ns; exact H2]. }
  destruct src; [exact H1|apply Inv_halt; auto|exact K|exact K].
Qed.

Lemma g_schema_refs : forall d url tns l s, Inv s -> Inv (schema_refs d c rs fs url tns l s).
Proof.
  induction d as [|d IHd]; intros url tns l s Hs.
  - rewrite schema_refs_O. destruct (s_halt s); [exact Hs|apply Inv_halt; auto].
  - revert s Hs. induction l as [|r rest IHr]; intros s Hs.
    + rewrite schema_refs_nil. exact Hs.
    + rewrite schema_refs_cons. apply IHr. destruct (s_halt s); [exact Hs|].
      apply g_schema_ref; [|exact Hs]. intros. apply IHd. assumption.
Qed.

Lemma g_schema_hint : forall d docsys h s, Inv s -> Inv (schema_hint d c rs fs docsys h s).
Proof.
  intros d docsys h s Hs. unfold schema_hint.
  destruct (s_halt s); [exact Hs|]. destruct (mem (h_ns h) (s_ns s)); [exact Hs|].
  destruct (negb (c_loadSchema c)); [exact Hs|].
  destruct (schema_source c rs docsys (h_loc h) (h_ns h)) as [ev src] eqn:E.
  assert (H1 : Inv (emit ev s)) by (eapply Inv_ss1; eauto).
  assert (K : Inv (let id := ssrc_id src in
      if mem id (s_seen (emit ev s)) then emit ev s
      else let '(ev2, ct) := schema_open fs src in
           let s2 := emit ev2 (emit ev s) in
           match ct with
           | SoGot (CSchema refs) => schema_refs d c rs fs id (h_ns h) refs (add_seen id (add_ns (h_ns h) s2))
           | SoThrow f => halt f s2
           | _ => s2
           end)).
  { cbv zeta. destruct (mem (ssrc_id src) (s_seen (emit ev s))); [exact H1|].
    destruct (schema_open fs src) as [ev2 ct] eqn:E2.
    assert (H2 : Inv (emit ev2 (emit ev s))) by (eapply Inv_ss2; eauto).
    destruct ct as [[items|ps|refs]| |f]; try exact H2; try (apply Inv_halt; exact H2).
    apply g_schema_refs. apply Inv_add_seen. apply Inv_add_ns. exact H2. }
  destruct src; [exact H1|apply Inv_halt; auto|exact K|exact K].
Qed.

Lemma g_scan_hints : forall d docsys hs s, Inv s -> Inv (scan_hints d c rs fs docsys hs s).
Proof.
  intros d docsys hs. induction hs as [|h r IH]; intros s Hs; cbn [scan_hints]; [exact Hs|].
  apply IH. apply g_schema_hint; assumption.
Qed.

Lemma g_scan_atts : forall d nd docsys atts s, Inv s -> Inv (scan_atts d c rs fs nd docsys atts s).
Proof.
  intros d nd docsys atts. induction atts as [|a r IH]; intros s Hs; cbn [scan_atts]; [exact Hs|].
  apply IH. apply g_content. exact Hs.
Qed.

Lemma g_scan_doctype : forall d nd docsys dt s, Inv s -> Inv (scan_doctype d c rs fs nd docsys dt s).
Proof.
  intros d nd docsys dt s Hs. unfold scan_doctype.
  destruct (negb (dtd_scanner c)); [exact Hs|].
  assert (H1 : Inv (match dt_int dt with Some items => dtd_items d c rs fs nd docsys None [] items s | None => s end)).
  { destruct (dt_int dt); [apply g_dtd_items; assumption|exact Hs]. }
  destruct (s_halt _); [exact H1|].
  destruct (dt_ext dt) as [[pub sys]|]; [|exact H1].
  destruct (c_loadDTD c || validating c dt); [|exact H1].
  destruct (create_reader c rs fs KDtd docsys docsys sys pub) as [ev r] eqn:E.
  assert (H2 : Inv (emit ev
     (match dt_int dt with Some items => dtd_items d c rs fs nd docsys None [] items s | None => s end)))
    by (eapply Inv_cr; [left; reflexivity|exact E|exact H1]).
  destruct r as [id ct| |f]; [|apply Inv_halt; auto|apply Inv_halt; auto].
  destruct ct as [[items|ps|refs]|]; auto. apply g_dtd_items; assumption.
Qed.

Hypothesis Inv_st0 : Inv st0.

Lemma g_run_fuel : forall d x, Inv (run_fuel d c rs fs x).
Proof.
  intros d x. unfold run_fuel.
  assert (H1 : Inv (match d_doctype x with Some dt => scan_doctype d c rs fs (no_dtd x) (d_sys x) dt st0 | None => st0 end)).
  { destruct (d_doctype x) as [dt|]; [|exact Inv_st0]. apply g_scan_doctype. exact Inv_st0. }
  apply g_content.
  destruct (schema_scanner c).
  - apply g_scan_hints. apply g_scan_atts. exact H1.
  - apply g_scan_atts. exact H1.
Qed.

End Generic.
