(** Extraction of the executable C19 models and of the specification functions used as oracle.
    Only ExtrOcamlBasic is used.  The path is relative to the directory coqc runs in (coq/). *)
From Coq Require Import Extraction ExtrOcamlBasic.
From XV Require Import C19.Uri19 C19.Spec19 C19.Model19.
Extraction Language OCaml.
Extraction "../ocaml/C19/gen_c19.ml"
  run run_fuel run_c pool_of primed_pool with_limit run_hist run_hist_with ps0 ps_scan_reset trace count_starts first_fatal permitted within_budget
  rfc_resolve localfile_resolve xmlurl_resolve xmluri_resolve default_source file_url_path
  xmlurl_set url_is_relative pct_decode unescape_once normalize_uri default_bad_escape no_dot_segments plain_rel
  str_eqb split_slash join_slash scheme_split.
