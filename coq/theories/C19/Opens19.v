(** C19 -- T-open: the committed classification of EVERY textual occurrence, anywhere under src/xercesc (all
    platforms, headers included), of a primitive that can open a file, a socket or a URL, and of every construction
    of a file / URL / stdin input source.  translator/c19_opens.py regenerates the occurrences actually present in
    /repo into Gen/GenOpens.v on every run; the obligations below demand that the two tables agree entry by entry
    and count by count.  A new `new BinFileInputStream`, an fopen in a validator, a makeStream call in a new parser
    entry point, a new net-accessor stream ... fails them (the check then searches for a concrete unpermitted open
    with the canary matrix).

    Reading of the table (reviewed by hand against the source):
    - the ONLY places that reach the operating system are  util/FileManagers/*FileMgr.cpp (fopen / CreateFile),
      the net-accessor streams (socket/connect/getaddrinfo, curl_*, URLAccess) and three developer-only table
      dumpers under `#if defined(NEED_TO_GEN_*TABLE)` (XMLChar.cpp x2, GeneralAttributeCheck.cpp);
    - XMLPlatformUtils::openFile* / openStdInHandle (PlatformUtils.cpp) delegate to the file manager; their callers
      are BinFileInputStream.cpp (reading), BinFileOutputStream.cpp and LocalFileFormatTarget.cpp (writing, only
      on behalf of a serializer target the application supplies: not a parse) and StdInInputSource.cpp;
    - BinFileInputStream is constructed by LocalFileInputSource::makeStream and by XMLURL::makeNewStream (file:
      URLs with no / localhost host) only; net streams only by the accessors' makeNew, called from
      XMLURL::makeNewStream only; URLInputSource::makeStream is the only caller of makeNewStream;
    - InputSource::makeStream is called by ReaderMgr::createReader(const InputSource&, ...) (the choke point of
      T19_gate_inventory), by XIncludeUtils::doXIncludeTEXTFileDOM (C20) and by Wrapper4DOMLSInput::makeStream
      (delegation to the application's DOMLSInput / its own LocalFile/URL source built from the systemId the
      application passed to DOMLSParser::parse); every other occurrence is a declaration or a definition;
    - file / URL / stdin input sources are constructed in ReaderMgr.cpp, the four scanners' resolveSchemaGrammar /
      resolveSystemId, XMLScanner.cpp (the document itself and loadGrammar), TraverseSchema::resolveSchemaLocation
      and XIncludeUtils.cpp -- exactly the files whose sites T19_gate_inventory classifies with their guards;
    - `makeNew (` in util/Trans* is ENameMap::makeNew (a transcoder factory), not a stream. *)
From Coq Require Import String List Bool Arith.
From XV Require Import Gen.GenOpens.
Import ListNotations.
Local Open Scope string_scope.

Definition open_table : list (string * nat) := [
  ("framework/LocalFileFormatTarget.cpp|platform", 2);
  ("framework/LocalFileInputSource.cpp|makeStream", 1);
  ("framework/LocalFileInputSource.cpp|binfile", 1);
  ("framework/LocalFileInputSource.hpp|makeStream", 1);
  ("framework/MemBufInputSource.cpp|makeStream", 1);
  ("framework/MemBufInputSource.hpp|makeStream", 1);
  ("framework/StdInInputSource.cpp|makeStream", 1);
  ("framework/StdInInputSource.cpp|binfile", 1);
  ("framework/StdInInputSource.cpp|platform", 1);
  ("framework/StdInInputSource.hpp|makeStream", 1);
  ("framework/URLInputSource.cpp|makeStream", 1);
  ("framework/URLInputSource.cpp|urlstream", 1);
  ("framework/URLInputSource.hpp|makeStream", 1);
  ("framework/Wrapper4DOMLSInput.cpp|makeStream", 6);
  ("framework/Wrapper4DOMLSInput.hpp|makeStream", 1);
  ("internal/BinFileOutputStream.cpp|platform", 2);
  ("internal/DGXMLScanner.cpp|source", 2);
  ("internal/IGXMLScanner2.cpp|source", 4);
  ("internal/ReaderMgr.cpp|makeStream", 1);
  ("internal/ReaderMgr.cpp|source", 4);
  ("internal/SGXMLScanner.cpp|source", 4);
  ("internal/XMLScanner.cpp|source", 9);
  ("sax/InputSource.hpp|makeStream", 1);
  ("util/BinFileInputStream.cpp|platform", 2);
  ("util/PlatformUtils.cpp|platform", 10);
  ("util/PlatformUtils.hpp|platform", 5);
  ("util/TransENameMap.c|urlstream", 2);
  ("util/TransENameMap.hpp|urlstream", 3);
  ("util/TransService.cpp|urlstream", 2);
  ("util/XMLChar.cpp|libc", 2);
  ("util/XMLFileMgr.hpp|platform", 3);
  ("util/XMLNetAccessor.hpp|urlstream", 1);
  ("util/XMLURL.cpp|binfile", 1);
  ("util/XMLURL.cpp|urlstream", 2);
  ("util/XMLURL.hpp|urlstream", 1);
  ("util/FileManagers/PosixFileMgr.cpp|platform", 4);
  ("util/FileManagers/PosixFileMgr.cpp|libc", 1);
  ("util/FileManagers/PosixFileMgr.hpp|platform", 3);
  ("util/FileManagers/WindowsFileMgr.cpp|platform", 4);
  ("util/FileManagers/WindowsFileMgr.cpp|libc", 2);
  ("util/FileManagers/WindowsFileMgr.hpp|platform", 3);
  ("util/NetAccessors/Curl/CurlNetAccessor.cpp|urlstream", 1);
  ("util/NetAccessors/Curl/CurlNetAccessor.cpp|netstream", 1);
  ("util/NetAccessors/Curl/CurlNetAccessor.hpp|urlstream", 1);
  ("util/NetAccessors/Curl/CurlURLInputStream.cpp|libc", 2);
  ("util/NetAccessors/MacOSURLAccessCF/MacOSURLAccessCF.cpp|urlstream", 1);
  ("util/NetAccessors/MacOSURLAccessCF/MacOSURLAccessCF.cpp|libc", 1);
  ("util/NetAccessors/MacOSURLAccessCF/MacOSURLAccessCF.hpp|urlstream", 1);
  ("util/NetAccessors/MacOSURLAccessCF/URLAccessCFBinInputStream.cpp|libc", 2);
  ("util/NetAccessors/MacOSURLAccessCF/URLAccessCFBinInputStream.hpp|libc", 2);
  ("util/NetAccessors/Socket/SocketNetAccessor.cpp|urlstream", 1);
  ("util/NetAccessors/Socket/SocketNetAccessor.cpp|netstream", 1);
  ("util/NetAccessors/Socket/SocketNetAccessor.hpp|urlstream", 1);
  ("util/NetAccessors/Socket/UnixHTTPURLInputStream.cpp|libc", 7);
  ("util/NetAccessors/WinSock/WinSockNetAccessor.cpp|urlstream", 1);
  ("util/NetAccessors/WinSock/WinSockNetAccessor.cpp|netstream", 1);
  ("util/NetAccessors/WinSock/WinSockNetAccessor.hpp|urlstream", 1);
  ("validators/schema/GeneralAttributeCheck.cpp|libc", 1);
  ("validators/schema/TraverseSchema.cpp|source", 2);
  ("xinclude/XIncludeUtils.cpp|makeStream", 1);
  ("xinclude/XIncludeUtils.cpp|source", 1)
].

Fixpoint oassoc (k : string) (l : list (string * nat)) : option nat :=
  match l with
  | [] => None
  | (k', v) :: r => if String.eqb k k' then Some v else oassoc k r
  end.

(** every occurrence found in /repo is classified, with exactly the committed count ... *)
Definition open_site_ok (s : string * nat) : bool :=
  match oassoc (fst s) open_table with Some n => Nat.eqb n (snd s) | None => false end.
(** ... and no classified occurrence has vanished *)
Definition open_entry_present (e : string * nat) : bool :=
  match oassoc (fst e) open_sites with Some n => Nat.eqb n (snd e) | None => false end.

Lemma open_inventory_classified : forallb open_site_ok open_sites = true.
Proof. vm_compute. reflexivity. Qed.
Lemma open_inventory_complete : forallb open_entry_present open_table = true.
Proof. vm_compute. reflexivity. Qed.

(** the files that construct file / URL / stdin sources or call makeStream on a source they did not build from
    application input are among the files T-gate reads (so each such site also carries its guard obligation) *)
Definition gated_files : list string :=
  ["internal/ReaderMgr.cpp"; "internal/XMLScanner.cpp"; "internal/IGXMLScanner2.cpp"; "internal/DGXMLScanner.cpp";
   "internal/SGXMLScanner.cpp"; "validators/schema/TraverseSchema.cpp"; "xinclude/XIncludeUtils.cpp"].
Definition is_source_key (k : string) : option string :=
  match index 0 "|source" k with
  | Some i => Some (substring 0 i k)
  | None => None
  end.
Lemma open_sources_gated :
  forallb (fun s => match is_source_key (fst s) with
                    | Some f => existsb (String.eqb f) gated_files
                    | None => true
                    end) open_sites = true.
Proof. vm_compute. reflexivity. Qed.
