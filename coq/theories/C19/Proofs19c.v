(** C19 -- resolver first: when an entity resolver is installed every default open is immediately preceded
    by the resolver being asked for the same identifier (and having declined), the opened source is the
    default source computed from that identifier and base, and a source supplied by the resolver is the one
    used (T19_resolver_first). *)
From XV Require Import Base.XDefs C19.Uri19 C19.Spec19 C19.Model19 C19.Proofs19a C19.Proofs19g.
Local Open Scope N_scope.

Section RF.
Variables (c : cfg) (rs : option resolver) (fs : filesys).

(** [tr] is newest first *)
Fixpoint rf_ok (tr : list event) : Prop :=
  match tr with
  | [] => True
  | EvOpen k t id :: rest =>
    match rs with
    | None => True
    | Some f =>
      match rest with
      | EvResolve k' sys base pub :: _ =>
        k' = k /\ f sys base pub = None /\
        exists b, (b = base \/ base = []) /\ default_source (c_stdUri c) b sys = Some {| ds_sysid := id; ds_open := t |}
      | _ => False
      end
    end /\ rf_ok rest
  | EvUse k id :: rest =>
    match rs, rest with
    | Some f, EvResolve k' sys base pub :: _ => k' = k /\ exists ct, f sys base pub = Some (id, ct)
    | _, _ => False
    end /\ rf_ok rest
  | _ :: rest => rf_ok rest
  end.

Definition quiet (e : event) : Prop := match e with EvOpen _ _ _ | EvUse _ _ => False | _ => True end.

Lemma rf_quiet1 : forall e tr, quiet e -> rf_ok tr -> rf_ok (e :: tr).
Proof. intros e tr Q H. destruct e; cbn [rf_ok]; try exact H; destruct Q. Qed.

Definition RInv (s : st) : Prop := rf_ok (s_tr s).

Lemma RInv_halt : forall f s, RInv s -> RInv (halt f s).
Proof. intros f s H. exact H. Qed.
Lemma RInv_quiet : forall e s, quiet e -> RInv s -> RInv (emit [e] s).
Proof. intros e s Q H. unfold RInv, emit. cbn [s_tr rev app]. apply rf_quiet1; assumption. Qed.

Lemma RInv_cr : forall k rb b sys pub ev r s,
  (b = rb \/ rb = []) -> create_reader c rs fs k rb b sys pub = (ev, r) -> RInv s -> RInv (emit ev s).
Proof.
  intros k rb b sys pub ev r s Hb E Hs. unfold create_reader in E. unfold RInv, emit. cbn [s_tr].
  destruct rs as [f|] eqn:R.
  - destruct (f sys rb pub) as [[id ct]|] eqn:F.
    + inversion E; subst. cbn [rev app rf_ok]. rewrite R. repeat split; auto. exists ct. exact F.
    + destruct (c_disableDefault c); [inversion E; subst; exact Hs|].
      destruct (default_source (c_stdUri c) b sys) as [d|] eqn:D; [|inversion E; subst; exact Hs].
      destruct d as [did dop]. cbn [ds_open ds_sysid] in E.
      destruct dop as [p|u].
      * destruct (fs p); inversion E; subst; cbn [rev app rf_ok]; rewrite R; repeat split; auto; exists b; split; auto.
      * destruct (fs u); inversion E; subst; cbn [rev app rf_ok]; rewrite R; repeat split; auto; exists b; split; auto.
  - destruct (c_disableDefault c); [inversion E; subst; exact Hs|].
    destruct (default_source (c_stdUri c) b sys) as [d|]; [|inversion E; subst; exact Hs].
    destruct (ds_open d) as [p|u].
    + destruct (fs p); inversion E; subst; cbn [rev app rf_ok]; rewrite R; split; auto.
    + destruct (fs u); inversion E; subst; cbn [rev app rf_ok]; rewrite R; split; auto.
Qed.

Lemma RInv_ss1 : forall base loc ns ev src s, schema_source c rs base loc ns = (ev, src) -> RInv s -> RInv (emit ev s).
Proof.
  intros base loc ns ev src s E Hs. unfold schema_source in E. unfold RInv, emit. cbn [s_tr].
  destruct rs as [f|] eqn:R.
  - destruct (f loc base ns) as [[id ct]|] eqn:F.
    + inversion E; subst. cbn [rev app rf_ok]. rewrite R. repeat split; auto. exists ct. exact F.
    + destruct (c_disableDefault c); [inversion E; subst; exact Hs|].
      destruct (default_source (c_stdUri c) base loc); inversion E; subst; exact Hs.
  - destruct (c_disableDefault c); [inversion E; subst; exact Hs|].
    destruct (default_source (c_stdUri c) base loc); inversion E; subst; exact Hs.
Qed.

Lemma RInv_ss2 : forall base loc ns ev src ev2 ct s,
  schema_source c rs base loc ns = (ev, src) -> schema_open fs src = (ev2, ct) -> RInv s -> RInv (emit ev2 (emit ev s)).
Proof.
  intros base loc ns ev src ev2 ct s E E2 Hs.
  pose proof (RInv_ss1 _ _ _ _ _ _ E Hs) as H1.
  unfold schema_open in E2. destruct src as [| |id ct'|d]; try (inversion E2; subst; exact H1).
  inversion E2; subst. clear E2. unfold schema_source in E. unfold RInv, emit in *. cbn [s_tr] in *.
  destruct rs as [f|] eqn:R.
  - destruct (f loc base ns) as [[id ct]|] eqn:F; [inversion E|].
    destruct (c_disableDefault c); [inversion E|].
    destruct (default_source (c_stdUri c) base loc) as [d'|] eqn:D; inversion E; subst.
    cbn [rev app rf_ok]. rewrite R. repeat split; auto. exists base. split; auto. destruct d; exact D.
  - cbn [rev app rf_ok]. rewrite R. split; auto.
Qed.

Lemma RInv_expand : forall (rec : rec_content) nd ia ext cur st n,
  (forall ia ext cur st ps s, RInv s -> RInv (rec ia ext cur st ps s)) ->
  forall s, s_halt s = false -> RInv s -> RInv (expand_ref rec c rs fs nd ia ext cur st n s).
Proof.
  intros rec nd ia ext cur st n IH s Hh Hs. unfold expand_ref.
  destruct (negb (dtd_scanner c)); [exact Hs|].
  destruct (lookup n (s_ge s)) as [g|]; [|destruct nd; exact Hs].
  assert (Q : forall s1, RInv s1 -> RInv (emit [EvExpand ia n] (incr (emit [EvPush n] s1)))).
  { intros s1 H1. apply RInv_quiet; [exact I|]. apply (RInv_quiet (EvPush n) s1 I H1). }
  assert (Q2 : forall s1, RInv s1 -> RInv (incr (emit [EvPush n] s1))).
  { intros s1 H1. apply (RInv_quiet (EvPush n) s1 I H1). }
  destruct (g_def g) as [vv|pub sys].
  - destruct (negb (push_ok n st)); [exact Hs|].
    destruct (over_limit c _); [apply RInv_halt; apply Q2; exact Hs|]. apply IH. apply Q. exact Hs.
  - destruct ia; [exact Hs|].
    destruct (create_reader c rs fs KEnt (g_base g) _ sys pub) as [ev r] eqn:E.
    assert (H1 : RInv (emit ev s)).
    { eapply RInv_cr; [|exact E|exact Hs]. destruct (g_base g); [right; reflexivity|left; reflexivity]. }
    destruct r as [id ct| |f]; [|exact H1|exact H1].
    destruct (negb (push_ok n st)); [exact H1|].
    destruct (over_limit c _); [apply RInv_halt; apply Q2; exact H1|].
    destruct ct as [[items|ps|refs]|]; try (apply (Q _ H1)). apply IH. apply (Q _ H1).
Qed.

Lemma RInv_run : forall d x, RInv (run_fuel d c rs fs x).
Proof.
  intros d x. apply (g_run_fuel c rs fs RInv).
  - exact RInv_halt.
  - intros n g s H. exact H.
  - intros n g s H. exact H.
  - intros n s H. exact H.
  - intros n s H. exact H.
  - intros n s _ H. unfold push_dtd.
    assert (H1 : RInv (emit [EvPushDtd n] s)) by (apply RInv_quiet; [exact I|exact H]).
    destruct (c_countDtd c); [|exact H1]. cbv zeta. destruct (over_limit c _); exact H1.
  - exact RInv_cr.
  - exact RInv_ss1.
  - exact RInv_ss2.
  - exact RInv_expand.
  - exact I.
Qed.

(** reading the invariant: position-wise statement over the chronological trace *)
Lemma resolver_first : forall x pre k t id post,
  trace (run c rs fs x) = pre ++ EvOpen k t id :: post ->
  match rs with
  | None => True
  | Some f => exists pre' sys base pub b,
      pre = pre' ++ [EvResolve k sys base pub] /\ f sys base pub = None /\ (b = base \/ base = []) /\
      default_source (c_stdUri c) b sys = Some {| ds_sysid := id; ds_open := t |}
  end.
Proof.
  intros x pre k t id post H.
  pose proof (RInv_run default_fuel x) as A. unfold RInv in A. unfold trace, run in H.
  assert (E : s_tr (run_fuel default_fuel c rs fs x) = rev post ++ EvOpen k t id :: rev pre).
  { rewrite <- (rev_involutive (s_tr _)). rewrite H. rewrite rev_app_distr. cbn [rev].
    rewrite <- app_assoc. reflexivity. }
  rewrite E in A. clear E H.
  induction (rev post) as [|e l IH].
  - cbn [app rf_ok] in A. destruct A as [A _]. destruct rs as [f|]; [|exact I].
    destruct (rev pre) as [|e0 l0] eqn:P; [destruct A|].
    destruct e0; try destruct A. destruct H0 as (F & b & Hb & D). subst k0.
    exists (rev l0), sys, base, pub, b. repeat split; auto.
    rewrite <- (rev_involutive pre). rewrite P. reflexivity.
  - apply IH. cbn [app rf_ok] in A. destruct e; try exact A; destruct A as [_ A]; exact A.
Qed.

Lemma resolver_source_used : forall x pre k id post,
  trace (run c rs fs x) = pre ++ EvUse k id :: post ->
  exists f pre' sys base pub ct, rs = Some f /\ pre = pre' ++ [EvResolve k sys base pub] /\ f sys base pub = Some (id, ct).
Proof.
  intros x pre k id post H.
  pose proof (RInv_run default_fuel x) as A. unfold RInv in A. unfold trace, run in H.
  assert (E : s_tr (run_fuel default_fuel c rs fs x) = rev post ++ EvUse k id :: rev pre).
  { rewrite <- (rev_involutive (s_tr _)). rewrite H. rewrite rev_app_distr. cbn [rev].
    rewrite <- app_assoc. reflexivity. }
  rewrite E in A. clear E H.
  induction (rev post) as [|e l IH].
  - cbn [app rf_ok] in A. destruct A as [A _]. destruct rs as [f|]; [|destruct A].
    destruct (rev pre) as [|e0 l0] eqn:P; [destruct A|].
    destruct e0; try destruct A. destruct H0 as [ct F]. subst k0.
    exists f, (rev l0), sys, base, pub, ct. repeat split; auto.
    rewrite <- (rev_involutive pre). rewrite P. reflexivity.
  - apply IH. cbn [app rf_ok] in A. destruct e; try exact A; destruct A as [_ A]; exact A.
Qed.

End RF.
