(** C07 -- the reference oracle is exact:  dmatch c w = true <-> L c w. *)
From Coq Require Import List Bool Arith Lia.
From XV Require Import C07.Spec07.
Import ListNotations.

Lemma app_nil_inv : forall (A : Type) (u v : list A), [] = u ++ v -> u = [] /\ v = [].
Proof. intros A u v H. symmetry in H. apply app_eq_nil in H. exact H. Qed.

Lemma nullable_correct : forall c, nullable c = true <-> L c [].
Proof.
  induction c as [a|r IHr s IHs|r IHr s IHs|r IHr|r IHr|r IHr]; cbn [nullable L].
  - split; [discriminate|]. intros H. discriminate H.
  - rewrite andb_true_iff, IHr, IHs. split.
    + intros [H1 H2]. exists [], []. auto.
    + intros (u & v & E & H1 & H2). apply app_nil_inv in E. destruct E; subst. auto.
  - rewrite orb_true_iff, IHr, IHs. tauto.
  - split; auto.
  - split; [intros _; constructor|auto].
  - rewrite IHr. split.
    + intros H. exists [], []. repeat split; auto. constructor.
    + intros (u & v & E & H1 & H2). apply app_nil_inv in E. destruct E; subst. auto.
Qed.

Lemma star_cons_inv : forall (P : list name -> Prop) a w,
  star P (a :: w) -> exists u v, w = u ++ v /\ P (a :: u) /\ star P v.
Proof.
  intros P a w H. remember (a :: w) as x eqn:E. revert a w E.
  induction H as [|u v Hu Hv IH]; intros a w E; [discriminate|].
  destruct u as [|b u].
  - cbn in E. apply IH. exact E.
  - cbn in E. injection E as E1 E2. subst. exists u, v. auto.
Qed.

Lemma star_one : forall (P : list name -> Prop) u, P u -> star P u.
Proof. intros P u H. rewrite <- (app_nil_r u). apply star_app; [exact H|constructor]. Qed.

(** a word of (c . k) that starts with [a] inside [c] *)
Definition headin (c : cm) (k : stack) (a : name) (w : list name) : Prop :=
  exists u v, w = u ++ v /\ L c (a :: u) /\ Lk k v.

Lemma star_headin : forall r a u, (star (L r) (a :: u)) <-> exists x y, u = x ++ y /\ L r (a :: x) /\ star (L r) y.
Proof.
  intros r a u. split.
  - apply star_cons_inv.
  - intros (x & y & E & H1 & H2). subst. change (a :: x ++ y) with ((a :: x) ++ y). apply star_app; assumption.
Qed.

Lemma plus_headin : forall r a u, L (Plus r) (a :: u) <-> exists x y, u = x ++ y /\ L r (a :: x) /\ star (L r) y.
Proof.
  intros r a u. cbn [L]. split.
  - intros (u1 & v1 & E & H1 & H2). destruct u1 as [|b u1].
    + cbn in E. subst v1. apply star_cons_inv in H2. exact H2.
    + cbn in E. injection E as E1 E2. subst. exists u1, v1. auto.
  - intros (x & y & E & H1 & H2). subst. exists (a :: x), y. auto.
Qed.

Lemma pd_correct : forall c a k w, headin c k a w <-> exists t, In t (pd a c k) /\ Lk t w.
Proof.
  unfold headin.
  induction c as [b|r IHr s IHs|r IHr s IHs|r IHr|r IHr|r IHr]; intros a k w; cbn [pd].
  - (* Leaf *) cbn [L]. split.
    + intros (u & v & E & H1 & H2). injection H1 as E1 E2. subst. rewrite Nat.eqb_refl.
      exists k. split; [left; reflexivity|exact H2].
    + intros (t & Hin & Ht). destruct (Nat.eqb_spec a b) as [E|E]; [|destruct Hin].
      destruct Hin as [E2|[]]. subst. exists [], w. auto.
  - (* Seq *) split.
    + intros (u & v & E & H1 & H2). cbn [L] in H1. destruct H1 as (u1 & u2 & E1 & Hr & Hs).
      destruct u1 as [|x u1].
      * cbn in E1. subst u2. apply nullable_correct in Hr. rewrite Hr.
        destruct (proj1 (IHs a k w)) as (t & Hin & Ht).
        { exists u, v. auto. }
        exists t. split; [apply in_or_app; right; exact Hin|exact Ht].
      * cbn in E1. injection E1 as E1 E2. subst x u.
        destruct (proj1 (IHr a (s :: k) w)) as (t & Hin & Ht).
        { exists u1, (u2 ++ v). split; [subst w; rewrite app_assoc; reflexivity|]. split; [exact Hr|].
          cbn [Lk]. exists u2, v. auto. }
        exists t. split; [apply in_or_app; left; exact Hin|exact Ht].
    + intros (t & Hin & Ht). apply in_app_or in Hin. destruct Hin as [Hin|Hin].
      * destruct (proj2 (IHr a (s :: k) w)) as (u & v' & E & Hr & Hk).
        { exists t. auto. }
        cbn [Lk] in Hk. destruct Hk as (u2 & v & E2 & Hs & Hk). subst.
        exists (u ++ u2), v. split; [rewrite app_assoc; reflexivity|]. split; [|exact Hk].
        cbn [L]. exists (a :: u), u2. auto.
      * destruct (nullable r) eqn:En; [|destruct Hin].
        destruct (proj2 (IHs a k w)) as (u & v & E & Hs & Hk).
        { exists t. auto. }
        exists u, v. split; [exact E|]. split; [|exact Hk].
        cbn [L]. exists [], (a :: u). split; [reflexivity|]. split; [apply nullable_correct; exact En|exact Hs].
  - (* Choice *) split.
    + intros (u & v & E & H1 & H2). cbn [L] in H1. destruct H1 as [H1|H1].
      * destruct (proj1 (IHr a k w)) as (t & Hin & Ht). { exists u, v. auto. }
        exists t. split; [apply in_or_app; left; exact Hin|exact Ht].
      * destruct (proj1 (IHs a k w)) as (t & Hin & Ht). { exists u, v. auto. }
        exists t. split; [apply in_or_app; right; exact Hin|exact Ht].
    + intros (t & Hin & Ht). apply in_app_or in Hin. destruct Hin as [Hin|Hin].
      * destruct (proj2 (IHr a k w)) as (u & v & E & H1 & H2). { exists t. auto. }
        exists u, v. cbn [L]. auto.
      * destruct (proj2 (IHs a k w)) as (u & v & E & H1 & H2). { exists t. auto. }
        exists u, v. cbn [L]. auto.
  - (* Opt *) rewrite <- IHr. split.
    + intros (u & v & E & H1 & H2). cbn [L] in H1. destruct H1 as [H1|H1]; [discriminate|]. exists u, v. auto.
    + intros (u & v & E & H1 & H2). exists u, v. cbn [L]. auto.
  - (* Star *) rewrite <- IHr. split.
    + intros (u & v & E & H1 & H2). cbn [L] in H1. apply star_headin in H1. destruct H1 as (x & y & E1 & Hx & Hy).
      subst. exists x, (y ++ v). split; [rewrite app_assoc; reflexivity|]. split; [exact Hx|].
      cbn [Lk L]. exists y, v. auto.
    + intros (x & v' & E & Hx & Hk). cbn [Lk L] in Hk. destruct Hk as (y & v & E2 & Hy & Hk). subst.
      exists (x ++ y), v. split; [rewrite app_assoc; reflexivity|]. split; [|exact Hk].
      cbn [L]. apply star_headin. exists x, y. auto.
  - (* Plus *) rewrite <- IHr. split.
    + intros (u & v & E & H1 & H2). apply plus_headin in H1. destruct H1 as (x & y & E1 & Hx & Hy).
      subst. exists x, (y ++ v). split; [rewrite app_assoc; reflexivity|]. split; [exact Hx|].
      cbn [Lk L]. exists y, v. auto.
    + intros (x & v' & E & Hx & Hk). cbn [Lk L] in Hk. destruct Hk as (y & v & E2 & Hy & Hk). subst.
      exists (x ++ y), v. split; [rewrite app_assoc; reflexivity|]. split; [|exact Hk].
      apply plus_headin. exists x, y. auto.
Qed.

Lemma pds_correct : forall k a w, Lk k (a :: w) <-> exists t, In t (pds a k) /\ Lk t w.
Proof.
  induction k as [|c k IH]; intros a w; cbn [pds Lk].
  - split; [discriminate|]. intros (t & [] & _).
  - split.
    + intros (u & v & E & Hc & Hk). destruct u as [|x u].
      * cbn in E. subst v. apply nullable_correct in Hc. rewrite Hc.
        apply IH in Hk. destruct Hk as (t & Hin & Ht). exists t. split; [apply in_or_app; right; exact Hin|exact Ht].
      * cbn in E. injection E as E1 E2. subst x.
        destruct (proj1 (pd_correct c a k w)) as (t & Hin & Ht). { exists u, v. auto. }
        exists t. split; [apply in_or_app; left; exact Hin|exact Ht].
    + intros (t & Hin & Ht). apply in_app_or in Hin. destruct Hin as [Hin|Hin].
      * destruct (proj2 (pd_correct c a k w)) as (u & v & E & Hc & Hk). { exists t. auto. }
        exists (a :: u), v. subst. auto.
      * destruct (nullable c) eqn:En; [|destruct Hin].
        exists [], (a :: w). split; [reflexivity|]. split; [apply nullable_correct; exact En|].
        apply IH. exists t. auto.
Qed.

Lemma knullable_correct : forall k, knullable k = true <-> Lk k [].
Proof.
  unfold knullable. induction k as [|c k IH]; cbn [forallb Lk].
  - split; auto.
  - rewrite andb_true_iff, nullable_correct, IH. split.
    + intros [H1 H2]. exists [], []. auto.
    + intros (u & v & E & H1 & H2). apply app_nil_inv in E. destruct E; subst. auto.
Qed.

Lemma cm_eqb_sound : forall x y, cm_eqb x y = true -> x = y.
Proof.
  induction x; destruct y; cbn [cm_eqb]; intros H; try discriminate.
  - apply Nat.eqb_eq in H. subst. reflexivity.
  - apply andb_true_iff in H. destruct H as [H1 H2]. f_equal; auto.
  - apply andb_true_iff in H. destruct H as [H1 H2]. f_equal; auto.
  - f_equal; auto.
  - f_equal; auto.
  - f_equal; auto.
Qed.

Lemma stack_eqb_sound : forall x y, stack_eqb x y = true -> x = y.
Proof.
  induction x as [|a x IH]; destruct y as [|b y]; cbn [stack_eqb]; intros H; try discriminate; [reflexivity|].
  apply andb_true_iff in H. destruct H as [H1 H2]. apply cm_eqb_sound in H1. apply IH in H2. subst. reflexivity.
Qed.

Lemma snodup_in : forall l x, In x (snodup l) <-> In x l.
Proof.
  induction l as [|y l IH]; intros x; cbn [snodup]; [tauto|].
  destruct (existsb (stack_eqb y) l) eqn:E.
  - rewrite IH. split; [intros H; right; exact H|].
    intros [H|H]; [|exact H]. subst. apply existsb_exists in E. destruct E as (z & Hz & Ez).
    apply stack_eqb_sound in Ez. subst. exact Hz.
  - cbn [In]. rewrite IH. tauto.
Qed.

(** language of a set of summands *)
Definition LS (S : list stack) (w : list name) : Prop := exists t, In t S /\ Lk t w.

Lemma dstep_correct : forall S a w, LS (dstep S a) w <-> LS S (a :: w).
Proof.
  intros S a w. unfold LS, dstep. split.
  - intros (t & Hin & Ht). apply (proj1 (snodup_in _ _)) in Hin. apply (proj1 (in_flat_map _ _ _)) in Hin. destruct Hin as (k & Hk & Hin).
    exists k. split; [exact Hk|]. apply pds_correct. exists t. auto.
  - intros (k & Hk & Hw). apply pds_correct in Hw. destruct Hw as (t & Hin & Ht).
    exists t. split; [|exact Ht]. apply (proj2 (snodup_in _ _)). apply (proj2 (in_flat_map _ _ _)). exists k. auto.
Qed.

Lemma dfold_correct : forall w S, existsb knullable (fold_left dstep w S) = true <-> LS S w.
Proof.
  induction w as [|a w IH]; intros S; cbn [fold_left].
  - rewrite existsb_exists. unfold LS. split.
    + intros (t & Hin & Hn). exists t. split; [exact Hin|]. apply knullable_correct. exact Hn.
    + intros (t & Hin & Hn). exists t. split; [exact Hin|]. apply knullable_correct. exact Hn.
  - rewrite IH. apply dstep_correct.
Qed.

Lemma Lk_single : forall c w, Lk [c] w <-> L c w.
Proof.
  intros c w. cbn [Lk]. split.
  - intros (u & v & E & H1 & H2). subst. rewrite app_nil_r. exact H1.
  - intros H. exists w, []. rewrite app_nil_r. auto.
Qed.

Theorem dmatch_correct : forall c w, dmatch c w = true <-> L c w.
Proof.
  intros c w. unfold dmatch, dstate. rewrite dfold_correct. unfold LS. split.
  - intros (t & [E|[]] & Ht). subst. apply Lk_single. exact Ht.
  - intros H. exists [c]. split; [left; reflexivity|apply Lk_single; exact H].
Qed.

Lemma memb_in : forall a l, memb a l = true <-> In a l.
Proof.
  intros a l. unfold memb. rewrite existsb_exists. split.
  - intros (x & Hx & E). apply Nat.eqb_eq in E. subst. exact Hx.
  - intros H. exists a. split; [exact H|apply Nat.eqb_refl].
Qed.

Theorem mmatch_correct : forall m w, mmatch m w = true <-> Lm m w.
Proof.
  intros [| |ns|c] w; cbn [mmatch Lm].
  - destruct w; split; intros H; try reflexivity; discriminate.
  - tauto.
  - rewrite forallb_forall, Forall_forall. split; intros H x Hx; apply memb_in; apply H; exact Hx.
  - apply dmatch_correct.
Qed.

Theorem elem_validb_correct : forall decl m w, elem_validb decl m w = true <-> elem_valid decl m w.
Proof.
  intros decl m w. unfold elem_validb, elem_valid. rewrite andb_true_iff, mmatch_correct.
  rewrite forallb_forall, Forall_forall. split; intros [H1 H2]; (split; [|exact H2]); intros x Hx.
  - apply memb_in. apply H1. exact Hx.
  - apply memb_in. apply H1. exact Hx.
Qed.

Lemma nodupb_correct : forall l, nodupb l = true <-> NoDup l.
Proof.
  induction l as [|x l IH]; cbn [nodupb].
  - split; [constructor|reflexivity].
  - rewrite andb_true_iff, negb_true_iff, IH, NoDup_cons_iff. split.
    + intros [H1 H2]. split; [|exact H2]. intros Hin. apply memb_in in Hin. congruence.
    + intros [H1 H2]. split; [|exact H2]. destruct (memb x l) eqn:E; [|reflexivity].
      exfalso. apply H1. apply memb_in. exact E.
Qed.

Theorem doc_validb_correct : forall decl m w, doc_validb decl m w = true <-> doc_valid decl m w.
Proof.
  intros decl m w. unfold doc_validb, doc_valid. rewrite andb_true_iff, elem_validb_correct.
  assert (D : decl_validb m = true <-> decl_valid m).
  { destruct m; cbn [decl_validb decl_valid]; try tauto. apply nodupb_correct. }
  rewrite D. tauto.
Qed.
