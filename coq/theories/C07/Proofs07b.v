(** C07 -- SimpleContentModel, MixedContentModel and createChildModel against the specification. *)
From Coq Require Import List Bool Arith Lia.
From XV Require Import C07.Spec07 C07.Model07 C07.Proofs07a.
Import ListNotations.

Lemma all_same_ok : forall a w i, all_same a w i = VOk <-> (forall x, In x w -> x = a).
Proof.
  intros a. induction w as [|y w IH]; intros i; cbn [all_same].
  - split; [intros _ x []|reflexivity].
  - destruct (Nat.eqb_spec y a) as [E|E].
    + rewrite IH. split.
      * intros H x [Hx|Hx]; [subst; reflexivity|apply H; exact Hx].
      * intros H x Hx. apply H. right. exact Hx.
    + split; [discriminate|]. intros H. exfalso. apply E. apply H. left. reflexivity.
Qed.

Lemma star_leaf : forall a w, star (L (Leaf a)) w <-> (forall x, In x w -> x = a).
Proof.
  intros a w. split.
  - intros H. induction H as [|u v Hu Hv IH]; [intros x []|].
    cbn [L] in Hu. subst u. intros x [Hx|Hx]; [subst; reflexivity|apply IH; exact Hx].
  - induction w as [|y w IH]; intros H; [constructor|].
    change (y :: w) with ([y] ++ w). apply star_app.
    + cbn [L]. f_equal. apply H. left. reflexivity.
    + apply IH. intros x Hx. apply H. right. exact Hx.
Qed.

Lemma simple_leaf : forall a w, simple_validate OpLeaf a None w = VOk <-> L (Leaf a) w.
Proof.
  intros a w. cbn [simple_validate L]. destruct w as [|x r]; [split; discriminate|].
  destruct (Nat.eqb_spec x a) as [E|E]; cbn [negb].
  - subst. destruct r; split; intros H; try reflexivity; discriminate.
  - split; [discriminate|]. intros H. injection H as H1 H2. contradiction.
Qed.

Lemma simple_opt : forall a w, simple_validate OpOpt a None w = VOk <-> L (Opt (Leaf a)) w.
Proof.
  intros a w. cbn [simple_validate L]. destruct w as [|x [|y r]].
  - split; auto.
  - destruct (Nat.eqb_spec x a) as [E|E]; cbn [negb].
    + subst. split; auto.
    + split; [discriminate|]. intros [H|H]; [discriminate|]. injection H as H. contradiction.
  - split; [discriminate|]. intros [H|H]; discriminate.
Qed.

Lemma simple_star : forall a w, simple_validate OpStar a None w = VOk <-> L (Star (Leaf a)) w.
Proof. intros a w. cbn [simple_validate]. change (L (Star (Leaf a)) w) with (star (L (Leaf a)) w).
  rewrite all_same_ok, star_leaf. tauto. Qed.

Lemma simple_plus : forall a w, simple_validate OpPlus a None w = VOk <-> L (Plus (Leaf a)) w.
Proof.
  intros a w. cbn [simple_validate]. destruct w as [|x r].
  - split; [discriminate|]. cbn [L]. intros (u & v & E & H1 & H2). subst u. discriminate.
  - rewrite all_same_ok. split.
    + intros H. cbn [L]. exists [x], r. split; [reflexivity|]. split.
      * f_equal. apply H. left. reflexivity.
      * apply (proj2 (star_leaf a r)). intros y Hy. apply H. right. exact Hy.
    + cbn [L]. intros (u & v & E & H1 & H2). subst u. cbn in E. injection E as E1 E2. subst.
      intros y [Hy|Hy]; [subst; reflexivity|]. apply (proj1 (star_leaf a v) H2). exact Hy.
Qed.

Lemma simple_choice : forall a b w, simple_validate OpChoice a (Some b) w = VOk <-> L (Choice (Leaf a) (Leaf b)) w.
Proof.
  intros a b w. cbn [simple_validate L]. destruct w as [|x r].
  - split; [discriminate|]. intros [H|H]; discriminate.
  - destruct (Nat.eqb_spec x a) as [E|E]; destruct (Nat.eqb_spec x b) as [F|F]; cbn [negb andb].
    + subst. destruct r; split; intros H; auto; try discriminate. destruct H; discriminate.
    + subst. destruct r; split; intros H; auto; try discriminate. destruct H; discriminate.
    + subst. destruct r; split; intros H; auto; try discriminate. destruct H; discriminate.
    + split; [discriminate|]. intros [H|H]; injection H as H1 H2; contradiction.
Qed.

Lemma simple_seq : forall a b w, simple_validate OpSeq a (Some b) w = VOk <-> L (Seq (Leaf a) (Leaf b)) w.
Proof.
  intros a b w. cbn [simple_validate L].
  assert (S : (exists u v, w = u ++ v /\ u = [a] /\ v = [b]) <-> w = [a; b]).
  { split; [intros (u & v & E & H1 & H2); subst; reflexivity|]. intros H. exists [a], [b]. auto. }
  rewrite S. clear S. destruct w as [|x [|y r]].
  - split; discriminate.
  - destruct (Nat.eqb_spec x a); cbn [negb]; split; discriminate.
  - destruct (Nat.eqb_spec x a) as [E|E]; cbn [negb].
    + destruct (Nat.eqb_spec y b) as [F|F]; cbn [negb].
      * subst. destruct r; split; intros H; auto; discriminate.
      * split; [discriminate|]. intros H. injection H as H1 H2 H3. contradiction.
    + split; [discriminate|]. intros H. injection H as H1 H2 H3. contradiction.
Qed.

Theorem simple_correct : forall c op a b, createChildModel c = UseSimple op a b ->
  forall w, simple_validate op a b w = VOk <-> L c w.
Proof.
  intros c op a b H w.
  destruct c as [x|r s|r s|r|r|r]; cbn [createChildModel] in H.
  - injection H as H1 H2 H3. subst. apply simple_leaf.
  - destruct r; try discriminate. destruct s; try discriminate. injection H as H1 H2 H3. subst. apply simple_seq.
  - destruct r; try discriminate. destruct s; try discriminate. injection H as H1 H2 H3. subst. apply simple_choice.
  - destruct r; try discriminate. injection H as H1 H2 H3. subst. apply simple_opt.
  - destruct r; try discriminate. injection H as H1 H2 H3. subst. apply simple_star.
  - destruct r; try discriminate. injection H as H1 H2 H3. subst. apply simple_plus.
Qed.

(** createChildModel never builds a SimpleContentModel that lacks an operand its operation reads *)
Theorem select_wellformed : forall c op a b, createChildModel c = UseSimple op a b ->
  (op = OpSeq \/ op = OpChoice -> b <> None) /\ forall w, simple_validate op a b w <> VModelErr.
Proof.
  intros c op a b H.
  assert (Hb : op = OpSeq \/ op = OpChoice -> b <> None).
  { destruct c as [x|r s|r s|r|r|r]; cbn [createChildModel] in H.
    - injection H as H1 H2 H3. subst. intros [E|E]; discriminate.
    - destruct r; try discriminate. destruct s; try discriminate. injection H as H1 H2 H3. subst. intros _; discriminate.
    - destruct r; try discriminate. destruct s; try discriminate. injection H as H1 H2 H3. subst. intros _; discriminate.
    - destruct r; try discriminate. injection H as H1 H2 H3. subst. intros [E|E]; discriminate.
    - destruct r; try discriminate. injection H as H1 H2 H3. subst. intros [E|E]; discriminate.
    - destruct r; try discriminate. injection H as H1 H2 H3. subst. intros [E|E]; discriminate. }
  split; [exact Hb|]. intros w.
  assert (AS : forall a w i, all_same a w i <> VModelErr).
  { intros a0. induction w0 as [|y w0 IH]; intros i; cbn [all_same]; [discriminate|].
    destruct (Nat.eqb y a0); [apply IH|discriminate]. }
  destruct op; cbn [simple_validate].
  - destruct w as [|x [|y r]]; try discriminate; destruct (negb (Nat.eqb x a)); discriminate.
  - destruct b as [b|]; [|exfalso; apply Hb; auto].
    destruct w as [|x [|y [|z r]]]; try discriminate;
      destruct (negb (Nat.eqb x a)); try discriminate; destruct (negb (Nat.eqb y b)); discriminate.
  - destruct b as [b|]; [|exfalso; apply Hb; auto].
    destruct w as [|x [|y r]]; try discriminate; destruct (negb (Nat.eqb x a) && negb (Nat.eqb x b)); discriminate.
  - destruct w as [|x [|y r]]; try discriminate. destruct (negb (Nat.eqb x a)); discriminate.
  - apply AS.
  - destruct w; [discriminate|apply AS].
Qed.

(** the DFA is chosen exactly for the shapes no simple model covers, and gets the whole expression *)
Theorem select_dfa : forall c c', createChildModel c = UseDFA c' -> c' = c.
Proof.
  intros c c' H. destruct c as [x|r s|r s|r|r|r]; cbn [createChildModel] in H; try discriminate;
    repeat match type of H with
           | match ?x with _ => _ end = _ => destruct x; try discriminate
           end; injection H as H; subst; reflexivity.
Qed.

Lemma mixed_kid : forall ns x, existsb (fun k => oname_eqb k (Some x)) (mixed_children ns) = memb x ns.
Proof.
  intros ns x. unfold mixed_children. cbn [existsb oname_eqb orb]. unfold memb.
  induction ns as [|n ns IH]; cbn [map existsb oname_eqb]; [reflexivity|].
  rewrite IH. rewrite (Nat.eqb_sym n x). reflexivity.
Qed.

Theorem mixed_correct : forall ns w i, mixed_validate (mixed_children ns) w i = VOk <-> Lm (MMixed ns) w.
Proof.
  intros ns. cbn [Lm]. induction w as [|x w IH]; intros i; cbn [mixed_validate].
  - split; [constructor|reflexivity].
  - rewrite mixed_kid. destruct (memb x ns) eqn:E.
    + rewrite IH. split.
      * intros H. constructor; [apply memb_in; exact E|exact H].
      * intros H. inversion H; subst. assumption.
    + split; [discriminate|]. intros H. inversion H; subst. apply memb_in in H2. congruence.
Qed.

(** indexFailingChild never exceeds the child count (the scanner indexes the child array with it) *)
Lemma all_same_idx : forall a w i k, all_same a w i = VFail k -> i <= k < i + length w.
Proof.
  intros a. induction w as [|y w IH]; intros i k; cbn [all_same length]; [discriminate|].
  destruct (Nat.eqb y a).
  - intros H. apply IH in H. lia.
  - intros H. injection H as H. lia.
Qed.

Lemma mixed_idx : forall kids w i k, mixed_validate kids w i = VFail k -> i <= k < i + length w.
Proof.
  intros kids. induction w as [|y w IH]; intros i k; cbn [mixed_validate length]; [discriminate|].
  destruct (existsb _ kids).
  - intros H. apply IH in H. lia.
  - intros H. injection H as H. lia.
Qed.
