(** C07 -- executable model of xerces-c's DTD attribute validation, following the C++.  NO proofs here.

    DTDValidator::validateAttrValue                         -> [validate_attr_value] / [val_loop]
    IGXMLScanner::scanStartTag / DGXMLScanner::scanStartTag (attribute part: undeclared attributes, then the
      attribute definitions that did not occur: #REQUIRED, defaults faulted in and validated)  -> [scan_attrs]
    XMLScanner::checkIDRefs (end of document)               -> [check_idrefs]
    the ID/IDREF table (ValidationContextImpl::fIdRefList: name -> declared/used flags) -> [idtbl], two lists.

    Values are token lists (Spec07a.tok: lexical class + identifier); whitespace normalisation is C03's subject
    and values are generated in normalised form.  [sw] is the defect switch of finding F25: [true] = the code as
    written (NOTATION and enumeration values are treated as multi-valued), [false] = the repaired behaviour of
    fixes/C07-enum-single-token.patch. *)
From Coq Require Import List Bool Arith.
From XV Require Import C07.Spec07 C07.Model07 C07.Spec07a.
Import ListNotations.

Record idtbl : Type := mkTbl { declared : list tok; used : list tok }.

(* XMLReader::isFirstNameChar on the first character of the token's text *)
Definition first_is_namestart (t : tok) : bool := match t with TNmtok _ => false | _ => true end.
(* all characters are name characters *)
Definition all_namechars (t : tok) : bool := match t with TBad _ => false | _ => true end.

Definition is_multiple (sw : bool) (ty : atype) : bool :=
  match ty with
  | AIdRefs | AEntities | ANmtokens => true
  | ANotation _ | AEnum _ => sw
  | _ => false
  end.

Definition needs_first_namechar (ty : atype) : bool :=
  match ty with
  | AId | AIdRef | AIdRefs | AEntity | AEntities | ANotation _ => true
  | _ => false
  end.

(* the per-token part after the token has been capped off *)
Definition token_refs (e : env) (ty : atype) (t : tok) (tbl : idtbl) : list verr * idtbl :=
  match ty with
  | AId => ((if tmem t (declared tbl) then [ReusedIDValue] else []), mkTbl (declared tbl ++ [t]) (used tbl))
  | AIdRef | AIdRefs => ([], mkTbl (declared tbl) (used tbl ++ [t]))
  | AEntity | AEntities =>
      (match t with
       | TName k => if memb k (unparsed e) then [] else if memb k (parsed e) then [BadEntityRefAttr]
                    else [UnknownEntityRefAttr]
       | _ => [UnknownEntityRefAttr]
       end, tbl)
  | ANotation l | AEnum l => ((if tmem t l then [] else [DoesNotMatchEnumList]), tbl)
  | _ => ([], tbl)
  end.

(* the while(true) loop of validateAttrValue over the tokens of a non-empty value *)
Fixpoint val_loop (e : env) (ty : atype) (multiple : bool) (v : list tok) (tbl : idtbl) : list verr * idtbl :=
  match v with
  | [] => ([], tbl)
  | t :: rest =>
      let e1 := if needs_first_namechar ty && negb (first_is_namestart t) then [AttrValNotName] else [] in
      if negb (all_namechars t) then (e1 ++ [AttrValNotName], tbl)                 (* return *)
      else if negb multiple && nonempty rest then (e1 ++ [NoMultipleValues], tbl)    (* a space, single-valued: return *)
      else
        let '(e2, tbl1) := token_refs e ty t tbl in
        if negb multiple then (e1 ++ e2, tbl1)                                       (* break *)
        else let '(e3, tbl2) := val_loop e ty multiple rest tbl1 in (e1 ++ e2 ++ e3, tbl2)
  end.

Definition validate_attr_value (sw : bool) (e : env) (d : attdef) (v : value) (tbl : idtbl) : list verr * idtbl :=
  let e0 := match ad_def d with
            | DFixed dv => if value_eqb v dv then [] else [NotSameAsFixedValue]
            | _ => []
            end in
  match ad_type d with
  | ACData => (e0, tbl)
  | ty =>
      match v with
      | [] => (e0 ++ [InvalidEmptyAttValue], tbl)
      | _ => let '(e1, tbl1) := val_loop e ty (is_multiple sw ty) v tbl in (e0 ++ e1, tbl1)
      end
  end.

(* one effective attribute *)
Definition validate_eff (sw : bool) (e : env) (x : option attdef * value) (tbl : idtbl) : list verr * idtbl :=
  match x with
  | (None, _) => ([AttNotDefinedForElement], tbl)
  | (Some d, v) => validate_attr_value sw e d v tbl
  end.

Fixpoint validate_effs (sw : bool) (e : env) (xs : list (option attdef * value)) (tbl : idtbl)
  : list verr * idtbl :=
  match xs with
  | [] => ([], tbl)
  | x :: r =>
      let '(e1, t1) := validate_eff sw e x tbl in
      let '(e2, t2) := validate_effs sw e r t1 in
      (e1 ++ e2, t2)
  end.

Definition required_errs (defs : list attdef) (el : elem) : list verr :=
  flat_map (fun d => match ad_def d with
                     | DRequired => if provided (ad_name d) el then [] else [RequiredAttrNotProvided]
                     | _ => []
                     end) defs.

(* attribute part of scanStartTag for one element (errors are compared as multisets: the order in which the
   unspecified definitions are visited is the hash order of the attribute-definition table) *)
Definition scan_attrs (sw : bool) (e : env) (defs : list attdef) (el : elem) (tbl : idtbl) : list verr * idtbl :=
  let '(e1, t1) := validate_effs sw e (effective defs el) tbl in
  (e1 ++ required_errs defs el, t1).

Fixpoint scan_doc (sw : bool) (e : env) (defs : list attdef) (doc : adoc) (tbl : idtbl) : list verr * idtbl :=
  match doc with
  | [] => ([], tbl)
  | el :: r =>
      let '(e1, t1) := scan_attrs sw e defs el tbl in
      let '(e2, t2) := scan_doc sw e defs r t1 in
      (e1 ++ e2, t2)
  end.

(* remove duplicates (one table entry per name) *)
Fixpoint tdedup (l : list tok) : list tok :=
  match l with [] => [] | x :: r => if tmem x r then tdedup r else x :: tdedup r end.

(* XMLScanner::checkIDRefs: every entry that was used but never declared *)
Definition check_idrefs (tbl : idtbl) : list verr :=
  map (fun _ => IDNotDeclared) (filter (fun t => negb (tmem t (declared tbl))) (tdedup (used tbl))).

Definition attr_errors (sw : bool) (e : env) (defs : list attdef) (doc : adoc) : list verr :=
  let '(e1, tbl) := scan_doc sw e defs doc (mkTbl [] []) in e1 ++ check_idrefs tbl.

(* the attributes handed to the application for one element: specified ones, then faulted-in defaults;
   [validate] is the parser's validation switch: it decides about errors only *)
Definition delivered (validate : bool) (defs : list attdef) (el : elem) : list (nat * value) :=
  el ++ flat_map (fun x => match x with (Some d, v) => [(ad_name d, v)] | _ => [] end) (defaulted defs el).

(** ---- several element types: the same start-tag code runs for every element with the attribute definitions
    of its own declaration; the ID table is the scanner's, shared by the whole document *)
Fixpoint scan_tdoc (sw : bool) (e : env) (dm : nat -> list attdef) (doc : tdoc) (tbl : idtbl)
  : list verr * idtbl :=
  match doc with
  | [] => ([], tbl)
  | x :: r =>
      let '(e1, t1) := scan_attrs sw e (dm (fst x)) (snd x) tbl in
      let '(e2, t2) := scan_tdoc sw e dm r t1 in
      (e1 ++ e2, t2)
  end.

Definition attr_errors_t (sw : bool) (e : env) (dm : nat -> list attdef) (doc : tdoc) : list verr :=
  let '(e1, tbl) := scan_tdoc sw e dm doc (mkTbl [] []) in e1 ++ check_idrefs tbl.
