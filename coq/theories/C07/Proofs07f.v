(** C07 -- checkContent as a whole, the scanner's error selection, and the error codes. *)
From Coq Require Import List Bool Arith NArith Lia.
From XV Require Import Gen.GenValid07 C07.Spec07 C07.Model07 C07.Proofs07a C07.Proofs07b C07.Proofs07e.
Import ListNotations.

Lemma dfa_run_noerr : forall d w s idx, dfa_run d s idx w <> VModelErr.
Proof.
  intros d. induction w as [|a w IH]; intros s idx; cbn [dfa_run].
  - destruct (nth s (d_final d) false); discriminate.
  - destruct (find_trans a (d_elems d) (nth s (d_trans d) [])); [apply IH|discriminate].
Qed.

Lemma dfa_validate_complete : forall d w, dfa_validate d w <> VModelErr -> d_complete d = true.
Proof. intros d w H. unfold dfa_validate in H. destruct (d_complete d); [reflexivity|]. exfalso. apply H. reflexivity. Qed.

Theorem check_content_correct : forall fuel m w,
  check_content fuel m w <> VModelErr -> (check_content fuel m w = VOk <-> Lm m w).
Proof.
  intros fuel m w. unfold check_content. destruct m as [| |ns|c]; cbn [makeContentModel validate_obj Lm]; intros Hne.
  - destruct w; split; intros H; try reflexivity; discriminate.
  - tauto.
  - apply (mixed_correct ns w 0).
  - destruct (createChildModel c) as [op a b|c'] eqn:E; cbn [validate_obj] in *.
    + apply (simple_correct c op a b E).
    + apply select_dfa in E. subst c'. apply dfa_correct. apply (dfa_validate_complete _ w). exact Hne.
Qed.

Lemma simple_idx : forall op a b w k, simple_validate op a b w = VFail k -> k <= length w.
Proof.
  intros op a b w k. destruct op; cbn [simple_validate].
  - destruct w as [|x [|y r]]; try (intros H; injection H as H; cbn [length]; lia);
      destruct (negb (Nat.eqb x a)); intros H; try discriminate; injection H as H; cbn [length]; lia.
  - destruct b as [b|]; [|discriminate]. destruct w as [|x [|y [|z r]]]; cbn [length];
      try (intros H; injection H as H; lia);
      destruct (negb (Nat.eqb x a)); try (intros H; injection H as H; lia);
      destruct (negb (Nat.eqb y b)); intros H; try discriminate; injection H as H; lia.
  - destruct b as [b|]; [|discriminate]. destruct w as [|x [|y r]]; cbn [length];
      try (intros H; injection H as H; lia);
      destruct (negb (Nat.eqb x a) && negb (Nat.eqb x b)); intros H; try discriminate; injection H as H; lia.
  - destruct w as [|x [|y r]]; cbn [length]; try discriminate; try (intros H; injection H as H; lia).
    destruct (negb (Nat.eqb x a)); intros H; try discriminate; injection H as H; lia.
  - intros H. apply all_same_idx in H. lia.
  - destruct w as [|x r]; [intros H; injection H as H; cbn; lia|]. intros H. apply all_same_idx in H. lia.
Qed.

(** *indexFailingChild <= childCount: the scanner's fChildren[failure] is only read when failure < count *)
Theorem check_content_idx : forall fuel m w k, check_content fuel m w = VFail k -> k <= length w.
Proof.
  intros fuel m w k. unfold check_content. destruct m as [| |ns|c]; cbn [makeContentModel validate_obj].
  - destruct w; intros H; [discriminate|]. injection H as H. lia.
  - discriminate.
  - intros H. apply mixed_idx in H. lia.
  - destruct (createChildModel c) as [op a b|c'] eqn:E; cbn [validate_obj].
    + apply simple_idx.
    + unfold dfa_validate. destruct (negb (d_complete (buildDFA fuel c'))); [discriminate|].
      destruct w as [|x r].
      * destruct (d_emptyok (buildDFA fuel c')); intros H; [discriminate|]. injection H as H. lia.
      * intros H. apply dfa_run_idx in H. lia.
Qed.

Lemma has_dups_correct : forall l, has_dups l = false <-> NoDup l.
Proof.
  induction l as [|x l IH]; cbn [has_dups].
  - split; [constructor|reflexivity].
  - rewrite orb_false_iff, IH, NoDup_cons_iff. split.
    + intros [H1 H2]. split; [|exact H2]. intros Hin. apply memb_in in Hin. congruence.
    + intros [H1 H2]. split; [|exact H2]. destruct (memb x l) eqn:E; [|reflexivity].
      exfalso. apply H1. apply memb_in. exact E.
Qed.

Lemma decl_check_correct : forall m, decl_check m = [] <-> decl_valid m.
Proof.
  intros [| |ns|c]; cbn [decl_check decl_valid]; try tauto.
  rewrite <- has_dups_correct. destruct (has_dups ns); split; intros H; try reflexivity; discriminate.
Qed.

Lemma undeclared_none : forall decl w,
  map (fun _ : name => ElementNotDefined) (filter (fun a => negb (memb a decl)) w) = [] <->
  Forall (fun a => In a decl) w.
Proof.
  intros decl. induction w as [|x w IH]; cbn [filter map].
  - split; [constructor|reflexivity].
  - destruct (memb x decl) eqn:E; cbn [negb map].
    + rewrite IH. split; [intros H; constructor; [apply memb_in; exact E|exact H]|intros H; inversion H; assumption].
    + split; [discriminate|]. intros H. inversion H as [|y l Hin Hrest]. subst. apply memb_in in Hin. congruence.
Qed.

Lemma content_error_none : forall e n r, content_error e n r = [] <-> r = VOk.
Proof.
  intros e n [|i|]; cbn [content_error]; split; intros H; try reflexivity; try discriminate.
  destruct e; [discriminate|]. destruct (Nat.eqb n 0); [discriminate|]. destruct (Nat.leb n i); discriminate.
Qed.

(** the model reports no validity error for (declaration, instance) iff the pair is valid *)
Theorem errors_iff_invalid : forall fuel decl m e w,
  check_content fuel m w <> VModelErr ->
  (decl_check m ++ elem_check fuel decl m e w = [] <-> doc_valid decl m w).
Proof.
  intros fuel decl m e w Hne. unfold doc_valid, elem_valid, elem_check, elem_check_obj.
  fold (check_content fuel m w).
  rewrite <- decl_check_correct, <- (check_content_correct fuel m w Hne), <- (undeclared_none decl w).
  rewrite <- (content_error_none e (length w) (check_content fuel m w)). split.
  - intros H. apply app_eq_nil in H. destruct H as [H1 H2]. apply app_eq_nil in H2. tauto.
  - intros (H1 & H2 & H3). rewrite H1, H2, H3. reflexivity.
Qed.

(** every code the model emits lies in XMLValid's error range: a validity (recoverable) error, never fatal *)
Theorem codes_nonfatal : forall e, e <> ModelGaveUp ->
  XMLValid_isError (verr_code e) = true /\ XMLValid_isFatal (verr_code e) = false /\
  XMLValid_isWarning (verr_code e) = false.
Proof. intros [] H; try (exfalso; apply H; reflexivity); vm_compute; auto. Qed.
