(** C07 -- DFAContentModel: the worklist subset construction builds a deterministic automaton whose states are
    sets of positions closed under [step]; validateContent runs it; together with Proofs07c/d:
    dfa_validate (buildDFA c) w = VOk <-> L c w. *)
From Coq Require Import List Bool Arith Lia.
From XV Require Import C07.Spec07 C07.Model07 C07.Proofs07a C07.Proofs07c C07.Proofs07d.
Import ListNotations.

(** ---- small facts --------------------------------------------------------------------------- *)
Lemma pset_eqb_eq : forall a b, pset_eqb a b = true -> a = b.
Proof.
  induction a as [|x a IH]; destruct b as [|y b]; cbn [pset_eqb]; intros H; try discriminate; [reflexivity|].
  apply andb_true_iff in H. destruct H as [H1 H2]. apply Nat.eqb_eq in H1. apply IH in H2. subst. reflexivity.
Qed.

Lemma oname_eqb_eq : forall x y, oname_eqb x y = true <-> x = y.
Proof.
  intros [a|] [b|]; cbn [oname_eqb]; split; intros H; try discriminate; try reflexivity.
  - apply Nat.eqb_eq in H. subst. reflexivity.
  - injection H as H. subst. apply Nat.eqb_refl.
Qed.

Lemma existsb_oname : forall x acc, existsb (oname_eqb x) acc = true <-> In x acc.
Proof.
  intros x acc. rewrite existsb_exists. split.
  - intros (y & Hy & E). apply oname_eqb_eq in E. subst. exact Hy.
  - intros H. exists x. split; [exact H|apply oname_eqb_eq; reflexivity].
Qed.

Lemma find_state_some : forall s sts i j, find_state s sts i = Some j -> exists k, j = i + k /\ nth_error sts k = Some s.
Proof.
  intros s. induction sts as [|t sts IH]; intros i j H; cbn [find_state] in H; [discriminate|].
  destruct (pset_eqb s t) eqn:E.
  - injection H as H. subst. apply pset_eqb_eq in E. subst. exists 0. split; [lia|reflexivity].
  - apply IH in H. destruct H as (k & Hj & Hk). exists (S k). split; [lia|exact Hk].
Qed.

Lemma lookup_state_some : forall s states j, lookup_state s states = Some j -> nth_error states j = Some s.
Proof.
  intros s [|x r] j H; cbn [lookup_state] in H; [discriminate|].
  apply find_state_some in H. destruct H as (k & Hj & Hk). subst j. exact Hk.
Qed.

(** ---- transition-table entries ------------------------------------------------------------------ *)
Definition tok (FL : list pset) (T : pset) (states : list pset) (poss : list nat) (t : option nat) : Prop :=
  match t with
  | None => step FL T poss = []
  | Some j => nth_error states j = Some (step FL T poss)
  end.

Lemma tok_mono : forall FL T states ext poss t, tok FL T states poss t -> tok FL T (states ++ ext) poss t.
Proof.
  intros FL T states ext poss [j|] H; cbn [tok] in *; [|exact H].
  rewrite nth_error_app1; [exact H|]. apply nth_error_Some. congruence.
Qed.

Definition row_ok (FL : list pset) (T : pset) (states : list pset) (sorter : list (list nat)) (row : list (option nat)) :=
  Forall2 (tok FL T states) sorter row.

Lemma row_ok_mono : forall FL T states ext sorter row,
  row_ok FL T states sorter row -> row_ok FL T (states ++ ext) sorter row.
Proof.
  unfold row_ok. intros FL T states ext sorter row H. induction H; constructor; [apply tok_mono; assumption|assumption].
Qed.

Lemma do_elem_ok : forall FL T states poss st' t,
  do_elem FL T states poss = (st', t) -> exists ext, st' = states ++ ext /\ tok FL T st' poss t.
Proof.
  intros FL T states poss st' t H. unfold do_elem in H. destruct (step FL T poss) as [|x ns] eqn:E.
  - injection H as H1 H2. subst. exists []. rewrite app_nil_r. split; [reflexivity|exact E].
  - destruct (lookup_state (x :: ns) states) as [i|] eqn:El.
    + injection H as H1 H2. subst. exists []. rewrite app_nil_r. split; [reflexivity|].
      cbn [tok]. rewrite E. apply lookup_state_some. exact El.
    + injection H as H1 H2. subst. exists [x :: ns]. split; [reflexivity|].
      cbn [tok]. rewrite E. rewrite nth_error_app2 by lia. rewrite Nat.sub_diag. reflexivity.
Qed.

Lemma do_row_ok : forall FL T sorter states st' row,
  do_row FL T states sorter = (st', row) -> exists ext, st' = states ++ ext /\ row_ok FL T st' sorter row.
Proof.
  intros FL T. induction sorter as [|poss rest IH]; intros states st' row H; cbn [do_row] in H.
  - injection H as H1 H2. subst. exists []. rewrite app_nil_r. split; [reflexivity|constructor].
  - destruct (do_elem FL T states poss) as [st1 t] eqn:E1. destruct (do_row FL T st1 rest) as [st2 row2] eqn:E2.
    injection H as H1 H2. subst. apply do_elem_ok in E1. destruct E1 as (ext1 & Hs1 & Ht).
    apply IH in E2. destruct E2 as (ext2 & Hs2 & Hr). subst.
    exists (ext1 ++ ext2). split; [rewrite app_assoc; reflexivity|].
    constructor; [apply tok_mono; exact Ht|exact Hr].
Qed.

(** ---- the worklist ---------------------------------------------------------------------------------- *)
Definition inv (FL : list pset) (sorter : list (list nat)) (eoc unmarked : nat) (states : list pset)
           (trans : list (list (option nat))) (finals : list bool) : Prop :=
  length trans = unmarked /\ length finals = unmarked /\
  forall s T, s < unmarked -> nth_error states s = Some T ->
    exists row, nth_error trans s = Some row /\ row_ok FL T states sorter row /\ nth s finals false = memp eoc T.

Lemma explore_ok : forall FL sorter eoc fuel unmarked states trans finals st' tr' fi',
  inv FL sorter eoc unmarked states trans finals -> unmarked <= length states ->
  explore fuel FL sorter eoc unmarked states trans finals = (st', tr', fi', true) ->
  exists ext, st' = states ++ ext /\ inv FL sorter eoc (length st') st' tr' fi'.
Proof.
  intros FL sorter eoc. induction fuel as [|f IH]; intros unmarked states trans finals st' tr' fi' Hinv Hle H;
    cbn [explore] in H; [discriminate|].
  destruct (nth_error states unmarked) as [T|] eqn:En.
  - destruct (do_row FL T states sorter) as [st1 row] eqn:Er.
    apply do_row_ok in Er. destruct Er as (ext1 & Hs1 & Hrow).
    assert (Hlt : unmarked < length states) by (apply nth_error_Some; congruence).
    destruct Hinv as (Hlt1 & Hlf & Hall).
    apply IH in H.
    + destruct H as (ext2 & Hs2 & Hinv2). exists (ext1 ++ ext2). subst. split; [rewrite app_assoc; reflexivity|exact Hinv2].
    + split; [rewrite app_length; cbn; lia|]. split; [rewrite app_length; cbn; lia|].
      intros s T' Hs HT'. destruct (Nat.eq_dec s unmarked) as [Es|Es].
      * subst s. assert (T' = T).
        { subst st1. rewrite nth_error_app1 in HT' by lia. congruence. }
        subst T'. exists row. split; [rewrite nth_error_app2 by lia; rewrite Hlt1, Nat.sub_diag; reflexivity|].
        split; [exact Hrow|]. rewrite app_nth2 by lia. rewrite Hlf, Nat.sub_diag. reflexivity.
      * assert (Hs' : s < unmarked) by lia.
        assert (HT : nth_error states s = Some T').
        { subst st1. rewrite nth_error_app1 in HT' by lia. exact HT'. }
        destruct (Hall s T' Hs' HT) as (row' & Hr1 & Hr2 & Hr3).
        exists row'. split; [rewrite nth_error_app1 by lia; exact Hr1|].
        split; [subst st1; apply row_ok_mono; exact Hr2|]. rewrite app_nth1 by lia. exact Hr3.
    + subst st1. rewrite app_length. lia.
  - injection H as H1 H2 H3. subst. exists []. rewrite app_nil_r. split; [reflexivity|].
    apply nth_error_None in En. assert (unmarked = length st') by lia. subst unmarked. exact Hinv.
Qed.

(** ---- fElemMap -------------------------------------------------------------------------------------- *)
Lemma elem_map_acc : forall ls acc x, In x acc -> In x (elem_map ls acc).
Proof.
  induction ls as [|y ls IH]; intros acc x H; cbn [elem_map]; [exact H|].
  destruct (existsb (oname_eqb y) acc); apply IH; [exact H|apply in_or_app; left; exact H].
Qed.

Lemma elem_map_in : forall ls acc x, In x ls -> In x (elem_map ls acc).
Proof.
  induction ls as [|y ls IH]; intros acc x H; [destruct H|]. cbn [elem_map]. destruct H as [H|H].
  - subst y. destruct (existsb (oname_eqb x) acc) eqn:E.
    + apply elem_map_acc. apply existsb_oname. exact E.
    + apply elem_map_acc. apply in_or_app. right. left. reflexivity.
  - destruct (existsb (oname_eqb y) acc); apply IH; exact H.
Qed.

Lemma nodup_snoc : forall (A : Type) (l : list A) y, NoDup l -> ~ In y l -> NoDup (l ++ [y]).
Proof.
  intros A. induction l as [|x l IH]; intros y Hnd Hy; cbn [app].
  - constructor; [intros []|constructor].
  - inversion Hnd as [|x' l' Hx Hl]. subst. constructor.
    + intros Hin. apply in_app_or in Hin. destruct Hin as [Hin|[Hin|[]]]; [contradiction|].
      subst. apply Hy. left. reflexivity.
    + apply IH; [exact Hl|]. intros Hin. apply Hy. right. exact Hin.
Qed.

Lemma elem_map_nodup : forall ls acc, NoDup acc -> NoDup (elem_map ls acc).
Proof.
  induction ls as [|y ls IH]; intros acc H; cbn [elem_map]; [exact H|].
  destruct (existsb (oname_eqb y) acc) eqn:E; apply IH; [exact H|].
  apply nodup_snoc; [exact H|]. intros Hin. apply existsb_oname in Hin. congruence.
Qed.

Lemma positions_of_in : forall e ls i p,
  In p (positions_of e ls i) <-> i <= p /\ nth_error ls (p - i) = Some e.
Proof.
  intros e. induction ls as [|x ls IH]; intros i p; cbn [positions_of].
  - split; [intros []|]. intros [_ H]. destruct (p - i); discriminate.
  - assert (R : (S i <= p /\ nth_error ls (p - S i) = Some e) <-> (i < p /\ nth_error (x :: ls) (p - i) = Some e)).
    { split; intros [H1 H2]; (split; [lia|]).
      - replace (p - i) with (S (p - S i)) by lia. exact H2.
      - replace (p - i) with (S (p - S i)) in H2 by lia. exact H2. }
    destruct (oname_eqb x e) eqn:E.
    + apply oname_eqb_eq in E. subst x. cbn [In]. rewrite IH, R. split.
      * intros [H|[H1 H2]]; [subst; rewrite Nat.sub_diag; split; [lia|reflexivity]|split; [lia|exact H2]].
      * intros [H1 H2]. destruct (Nat.eq_dec i p); [left; assumption|right; split; [lia|exact H2]].
    + rewrite IH, R. split.
      * intros [H1 H2]. split; [lia|exact H2].
      * intros [H1 H2]. destruct (Nat.eq_dec i p) as [Ei|Ei]; [|split; [lia|exact H2]].
        subst. rewrite Nat.sub_diag in H2. cbn in H2. injection H2 as H2. subst.
        assert (oname_eqb e e = true) by (apply oname_eqb_eq; reflexivity). congruence.
Qed.

Lemma leaf_names_lab : forall c p a, nth_error (leaf_names c) p = Some (Some a) <-> lab c 0 p = Some a.
Proof.
  intros c p a. unfold leaf_names, lab. cbn [Nat.leb]. rewrite Nat.sub_0_r.
  destruct (Nat.lt_ge_cases p (length (leaves c))) as [H|H].
  - rewrite nth_error_app1 by (rewrite map_length; exact H). rewrite nth_error_map.
    destruct (nth_error (leaves c) p); cbn [option_map]; split; intros E; congruence.
  - rewrite nth_error_app2 by (rewrite map_length; exact H). rewrite map_length.
    assert (N : nth_error (leaves c) p = None) by (apply nth_error_None; exact H). rewrite N.
    destruct (p - length (leaves c)) as [|k]; cbn; [split; discriminate|]. destruct k; cbn; split; discriminate.
Qed.

Lemma step_in : forall fl T poss q,
  In q (step fl T poss) <-> exists p, In p poss /\ In p T /\ In q (nth p fl []).
Proof.
  intros fl T. induction poss as [|p0 poss IH]; intros q; cbn [step].
  - split; [intros []|intros (p & [] & _)].
  - destruct (memp p0 T) eqn:E.
    + rewrite punion_in, IH. apply memp_in in E. split.
      * intros [H|(p & H1 & H2 & H3)]; [exists p0; cbn [In]; auto|exists p; cbn [In]; auto].
      * intros (p & [H1|H1] & H2 & H3); [subst; left; exact H3|right; exists p; auto].
    + rewrite IH. split.
      * intros (p & H1 & H2 & H3). exists p. cbn [In]. auto.
      * intros (p & [H1|H1] & H2 & H3); [|exists p; auto]. subst. apply memp_in in H2. congruence.
Qed.

(** ---- the abstract run on position sets --------------------------------------------------------------- *)
Definition astep (c : cm) (T : pset) (a : name) : pset :=
  step (follow_of c) T (positions_of (Some a) (leaf_names c) 0).

Fixpoint acc (c : cm) (T : pset) (w : list name) : Prop :=
  match w with
  | [] => memp (size c) T = true
  | a :: w' => acc c (astep c T a) w'
  end.

Lemma astep_in : forall c T a q,
  In q (astep c T a) <-> exists p, In p T /\ lab c 0 p = Some a /\ In q (nth p (follow_of c) []).
Proof.
  intros c T a q. unfold astep. rewrite step_in. split.
  - intros (p & H1 & H2 & H3). apply positions_of_in in H1. destruct H1 as [_ H1]. rewrite Nat.sub_0_r in H1.
    apply leaf_names_lab in H1. exists p. auto.
  - intros (p & H1 & H2 & H3). exists p. split; [|auto]. apply positions_of_in. split; [lia|].
    rewrite Nat.sub_0_r. apply leaf_names_lab. exact H2.
Qed.

Lemma acc_char : forall c w T,
  acc c T w <-> (w = [] /\ In (size c) T) \/
                (exists a w' p, w = a :: w' /\ In p T /\ lab c 0 p = Some a /\ K c 0 p w').
Proof.
  intros c. induction w as [|a w IH]; intros T; cbn [acc].
  - rewrite memp_in. split; [auto|]. intros [[_ H]|(a & w' & p & H & _)]; [exact H|discriminate].
  - rewrite IH. split.
    + intros [[Hw Hin]|(b & w'' & q & Hw & Hq & Hlq & Hkq)]; right; exists a, w.
      * apply astep_in in Hin. destruct Hin as (p & Hp & Hlp & Hf). exists p. split; [reflexivity|]. split; [exact Hp|].
        split; [exact Hlp|]. subst w. apply follow_of_spec in Hf. destruct Hf as [[Hr Hf]|[Hl _]].
        -- apply (fol_range c 0 p _ Hr) in Hf. unfold inr in Hf. lia.
        -- apply last_K; [apply (lab_inr c 0 p a Hlp)|exact Hl].
      * apply astep_in in Hq. destruct Hq as (p & Hp & Hlp & Hf). exists p. split; [reflexivity|]. split; [exact Hp|].
        split; [exact Hlp|]. subst w. apply follow_of_spec in Hf. destruct Hf as [[Hr Hf]|[Hl Hq]].
        -- apply follow_K; [exact Hr|]. exists q. auto.
        -- subst q. apply lab_inr in Hlq. unfold inr in Hlq. lia.
    + intros [[H _]|(a' & w' & p & E & Hp & Hlp & Hk)]; [discriminate|]. injection E as E1 E2. subst a' w'.
      pose proof (lab_inr c 0 p a Hlp) as Hr. destruct w as [|b w''].
      * left. split; [reflexivity|]. apply astep_in. exists p. split; [exact Hp|]. split; [exact Hlp|].
        apply follow_of_spec. right. split; [|reflexivity]. apply last_K; assumption.
      * right. apply (follow_K c 0 p b w'' Hr) in Hk. destruct Hk as (q & Hq & Hlq & Hkq).
        exists b, w'', q. split; [reflexivity|]. split; [|auto]. apply astep_in. exists p. split; [exact Hp|].
        split; [exact Hlp|]. apply follow_of_spec. left. auto.
Qed.

Lemma acc_nil : forall c w, ~ acc c [] w.
Proof.
  intros c w H. apply acc_char in H. destruct H as [[_ []]|(a & w' & p & _ & [] & _)].
Qed.

(** ---- validateContent ------------------------------------------------------------------------------------ *)
Lemma find_trans_notin : forall a es ts, ~ In (Some a) es -> find_trans a es ts = None.
Proof.
  intros a. induction es as [|e es IH]; intros ts H; cbn [find_trans]; [reflexivity|].
  destruct ts as [|t ts]; [reflexivity|]. destruct (oname_eqb e (Some a)) eqn:E.
  - apply oname_eqb_eq in E. subst. exfalso. apply H. left. reflexivity.
  - apply IH. intros Hin. apply H. right. exact Hin.
Qed.

Lemma find_trans_spec : forall c T states a elems row,
  Forall2 (tok (follow_of c) T states) (map (fun e => positions_of e (leaf_names c) 0) elems) row ->
  NoDup elems ->
  match find_trans a elems row with
  | Some j => nth_error states j = Some (astep c T a)
  | None => astep c T a = [] \/ ~ In (Some a) elems
  end.
Proof.
  intros c T states a. induction elems as [|e es IH]; intros row HF Hnd; cbn [find_trans].
  - right. intros [].
  - cbn [map] in HF. inversion HF as [|poss t sorter' row' Ht HF' E1 E2]. subst.
    inversion Hnd as [|x l Hnot Hnd']. subst.
    destruct (oname_eqb e (Some a)) eqn:E.
    + apply oname_eqb_eq in E. subst e. destruct t as [j|].
      * exact Ht.
      * rewrite (find_trans_notin a es row' Hnot). left. exact Ht.
    + specialize (IH row' HF' Hnd'). destruct (find_trans a es row') as [j|]; [exact IH|].
      destruct IH as [IH|IH]; [left; exact IH|]. right. intros [Hin|Hin]; [|exact (IH Hin)].
      subst e. assert (oname_eqb (Some a) (Some a) = true) by (apply oname_eqb_eq; reflexivity). congruence.
Qed.

Lemma astep_unknown : forall c T a, ~ In (Some a) (elem_map (leaf_names c) []) -> astep c T a = [].
Proof.
  intros c T a H. unfold astep.
  assert (P : positions_of (Some a) (leaf_names c) 0 = []).
  { destruct (positions_of (Some a) (leaf_names c) 0) as [|p l] eqn:E; [reflexivity|].
    assert (Hin : In p (positions_of (Some a) (leaf_names c) 0)) by (rewrite E; left; reflexivity).
    apply positions_of_in in Hin. destruct Hin as [_ Hin]. apply nth_error_In in Hin.
    exfalso. apply H. apply elem_map_in. exact Hin. }
  rewrite P. reflexivity.
Qed.

Section Run.
  Variable c : cm.
  Variable d : dfa.
  Variable states : list pset.
  Hypothesis Helems : d_elems d = elem_map (leaf_names c) [].
  Hypothesis Hinv : inv (follow_of c) (map (fun e => positions_of e (leaf_names c) 0) (d_elems d)) (size c)
                        (length states) states (d_trans d) (d_final d).

  Lemma run_ok : forall w s idx T, nth_error states s = Some T -> (dfa_run d s idx w = VOk <-> acc c T w).
  Proof.
    induction w as [|a w IH]; intros s idx T HT; cbn [dfa_run acc].
    - destruct Hinv as (_ & _ & Hall).
      assert (Hs : s < length states) by (apply nth_error_Some; congruence).
      destruct (Hall s T Hs HT) as (row & _ & _ & Hf). rewrite Hf.
      destruct (memp (size c) T); split; intros H; try reflexivity; discriminate.
    - destruct Hinv as (_ & _ & Hall).
      assert (Hs : s < length states) by (apply nth_error_Some; congruence).
      destruct (Hall s T Hs HT) as (row & Hrow & Hok & _).
      rewrite (nth_error_nth _ _ [] Hrow).
      assert (Hnd : NoDup (d_elems d)) by (rewrite Helems; apply elem_map_nodup; constructor).
      pose proof (find_trans_spec c T states a (d_elems d) row Hok Hnd) as Hft.
      destruct (find_trans a (d_elems d) row) as [j|].
      + apply IH. exact Hft.
      + split; [discriminate|]. intros Hacc. exfalso.
        assert (E : astep c T a = []).
        { destruct Hft as [E|E]; [exact E|]. apply astep_unknown. rewrite <- Helems. exact E. }
        rewrite E in Hacc. exact (acc_nil c w Hacc).
  Qed.
End Run.

Lemma buildDFA_unfold : forall fuel c, exists st tr fi co,
  explore fuel (follow_of c) (map (fun e => positions_of e (leaf_names c) 0) (elem_map (leaf_names c) []))
          (size c) 0 [start_of c] [] [] = (st, tr, fi, co) /\
  buildDFA fuel c = mkDFA (elem_map (leaf_names c) []) tr fi (nullable c) co.
Proof.
  intros fuel c. destruct (build_top c) as (info & fl1 & E & Hi & Hn & _).
  unfold buildDFA. fold (size c). rewrite E.
  destruct (explore fuel (follow_of c) (map (fun e => positions_of e (leaf_names c) 0) (elem_map (leaf_names c) []))
                    (size c) 0 [start_of c] [] []) as [[[st tr] fi] co] eqn:Ex.
  exists st, tr, fi, co. split; [reflexivity|]. rewrite Hn. reflexivity.
Qed.

Theorem dfa_correct : forall fuel c w,
  d_complete (buildDFA fuel c) = true -> (dfa_validate (buildDFA fuel c) w = VOk <-> L c w).
Proof.
  intros fuel c w Hc. destruct (buildDFA_unfold fuel c) as (st & tr & fi & co & Ex & Ed).
  rewrite Ed in *. cbn [d_complete] in Hc. subst co.
  unfold dfa_validate. cbn [d_complete negb d_emptyok].
  destruct w as [|a w].
  - rewrite <- nullable_correct. destruct (nullable c); split; intros H; try reflexivity; discriminate.
  - apply explore_ok in Ex.
    + destruct Ex as (ext & Hst & Hinv).
      assert (H0 : nth_error st 0 = Some (start_of c)) by (subst st; reflexivity).
      rewrite (run_ok c (mkDFA (elem_map (leaf_names c) []) tr fi (nullable c) true) st eq_refl Hinv (a :: w) 0 0 (start_of c) H0).
      rewrite acc_char. rewrite (first_K c 0 a w). split.
      * intros [[H _]|(a' & w' & p & E & Hp & Hl & Hk)]; [discriminate|]. injection E as E1 E2. subst a' w'.
        apply start_of_spec in Hp. destruct Hp as [Hp|[_ Hp]].
        -- exists p. auto.
        -- subst p. apply lab_inr in Hl. unfold inr in Hl. lia.
      * intros (p & Hp & Hl & Hk). right. exists a, w, p. split; [reflexivity|]. split; [|auto].
        apply start_of_spec. left. exact Hp.
    + split; [reflexivity|]. split; [reflexivity|]. intros s T Hs. lia.
    + cbn. lia.
Qed.

(** the failing index reported by the DFA never exceeds the child count *)
Lemma dfa_run_idx : forall d w s idx k, dfa_run d s idx w = VFail k -> idx <= k <= idx + length w.
Proof.
  intros d. induction w as [|a w IH]; intros s idx k H; cbn [dfa_run length] in *.
  - destruct (nth s (d_final d) false); [discriminate|]. injection H as H. lia.
  - destruct (find_trans a (d_elems d) (nth s (d_trans d) [])) as [j|].
    + apply IH in H. lia.
    + injection H as H. lia.
Qed.
