(** C07 -- specification of DTD content-model validity (XML 1.0 section 3.2, VC "Element Valid").
    Nothing here mentions the C++.  Element names are natural numbers (identifiers handed out by the
    check; the harness renders them as XML names).

    [cm] is the "children" content particle grammar  cp ::= Name | (cp , cp) | (cp | cp) | cp? | cp* | cp+ ,
    [cmodel] a declared content type: EMPTY, ANY, Mixed (#PCDATA | n1 | ... )*, or children.
    [L c w] is the regular language of [c] (denotational); [Lm] the one of a content type (character data is
    not part of the child sequence [w]).

    [dmatch] is the reference oracle: a derivative matcher.  Derivatives are kept in linear form (a set of
    summands, each summand a continuation stack [c1; c2; ...] denoting the concatenation c1 c2 ...), i.e.
    Brzozowski's derivative as the finite set of Antimirov's partial derivatives, which keeps the reachable
    set finite without a normaliser.  Proofs07a.dmatch_correct proves  dmatch c w = true <-> L c w. *)
From Coq Require Import List Bool Arith.
Import ListNotations.

Definition name := nat.

Inductive cm : Type :=
| Leaf (a : name)
| Seq (r s : cm)
| Choice (r s : cm)
| Opt (r : cm)
| Star (r : cm)
| Plus (r : cm).

Inductive cmodel : Type :=
| MEmpty
| MAny
| MMixed (ns : list name)
| MChildren (c : cm).

Inductive star (P : list name -> Prop) : list name -> Prop :=
| star_nil : star P []
| star_app : forall u v, P u -> star P v -> star P (u ++ v).

Fixpoint L (c : cm) (w : list name) : Prop :=
  match c with
  | Leaf a => w = [a]
  | Seq r s => exists u v, w = u ++ v /\ L r u /\ L s v
  | Choice r s => L r w \/ L s w
  | Opt r => w = [] \/ L r w
  | Star r => star (L r) w
  | Plus r => exists u v, w = u ++ v /\ L r u /\ star (L r) v
  end.

Definition Lm (m : cmodel) (w : list name) : Prop :=
  match m with
  | MEmpty => w = []
  | MAny => True
  | MMixed ns => Forall (fun a => In a ns) w
  | MChildren c => L c w
  end.

(** the document-level constraint for one element: every child is a declared element type (VC Element Valid,
    also for ANY) and the child sequence is in the language of the content type. *)
Definition elem_valid (declared : list name) (m : cmodel) (w : list name) : Prop :=
  Forall (fun a => In a declared) w /\ Lm m w.

(** VC "No Duplicate Types": a name appears at most once in a mixed-content declaration *)
Definition decl_valid (m : cmodel) : Prop :=
  match m with MMixed ns => NoDup ns | _ => True end.

(** one element declaration with one instance of it *)
Definition doc_valid (declared : list name) (m : cmodel) (w : list name) : Prop :=
  decl_valid m /\ elem_valid declared m w.

(** ---- reference oracle ---------------------------------------------------------------------- *)
Fixpoint nullable (c : cm) : bool :=
  match c with
  | Leaf _ => false
  | Seq r s => nullable r && nullable s
  | Choice r s => nullable r || nullable s
  | Opt _ => true
  | Star _ => true
  | Plus r => nullable r
  end.

(** a summand: the concatenation of the listed expressions ([] is the empty word) *)
Definition stack := list cm.

Fixpoint Lk (k : stack) (w : list name) : Prop :=
  match k with
  | [] => w = []
  | c :: k' => exists u v, w = u ++ v /\ L c u /\ Lk k' v
  end.

(** summands of the derivative of (c . k) by [a] in which [a] is consumed inside [c] *)
Fixpoint pd (a : name) (c : cm) (k : stack) : list stack :=
  match c with
  | Leaf b => if Nat.eqb a b then [k] else []
  | Seq r s => pd a r (s :: k) ++ (if nullable r then pd a s k else [])
  | Choice r s => pd a r k ++ pd a s k
  | Opt r => pd a r k
  | Star r => pd a r (Star r :: k)
  | Plus r => pd a r (Star r :: k)
  end.

Fixpoint pds (a : name) (k : stack) : list stack :=
  match k with
  | [] => []
  | c :: k' => pd a c k' ++ (if nullable c then pds a k' else [])
  end.

Definition knullable (k : stack) : bool := forallb nullable k.

Fixpoint cm_eqb (x y : cm) : bool :=
  match x, y with
  | Leaf a, Leaf b => Nat.eqb a b
  | Seq a b, Seq c d => cm_eqb a c && cm_eqb b d
  | Choice a b, Choice c d => cm_eqb a c && cm_eqb b d
  | Opt a, Opt c => cm_eqb a c
  | Star a, Star c => cm_eqb a c
  | Plus a, Plus c => cm_eqb a c
  | _, _ => false
  end.

Fixpoint stack_eqb (x y : stack) : bool :=
  match x, y with
  | [], [] => true
  | a :: x', b :: y' => cm_eqb a b && stack_eqb x' y'
  | _, _ => false
  end.

(** remove duplicates (keeps the set of summands small; any sub-multiset with the same members would do) *)
Fixpoint snodup (l : list stack) : list stack :=
  match l with
  | [] => []
  | x :: r => if existsb (stack_eqb x) r then snodup r else x :: snodup r
  end.

Definition dstep (S : list stack) (a : name) : list stack := snodup (flat_map (pds a) S).

Definition dstate (c : cm) (w : list name) : list stack := fold_left dstep w [[c]].

Definition dmatch (c : cm) (w : list name) : bool := existsb knullable (dstate c w).

Definition memb (a : name) (l : list name) : bool := existsb (Nat.eqb a) l.

Definition mmatch (m : cmodel) (w : list name) : bool :=
  match m with
  | MEmpty => match w with [] => true | _ => false end
  | MAny => true
  | MMixed ns => forallb (fun a => memb a ns) w
  | MChildren c => dmatch c w
  end.

Definition elem_validb (declared : list name) (m : cmodel) (w : list name) : bool :=
  forallb (fun a => memb a declared) w && mmatch m w.

Fixpoint nodupb (l : list name) : bool :=
  match l with [] => true | x :: r => negb (memb x r) && nodupb r end.

Definition decl_validb (m : cmodel) : bool :=
  match m with MMixed ns => nodupb ns | _ => true end.

Definition doc_validb (declared : list name) (m : cmodel) (w : list name) : bool :=
  decl_validb m && elem_validb declared m w.
