(** C07 -- attribute validation: the repaired model ([sw = false]) reports no error iff the attribute validity
    constraints hold; the model of the code as written ([sw = true]) does not (finding F25). *)
From Coq Require Import List Bool Arith Lia Permutation.
From XV Require Import C07.Spec07 C07.Model07 C07.Spec07a C07.Model07a C07.Proofs07a.
Import ListNotations.

Definition isnil {A : Type} (l : list A) : bool := match l with [] => true | _ => false end.

Lemma isnil_app : forall (A : Type) (a b : list A), isnil (a ++ b) = isnil a && isnil b.
Proof. intros A [|x a] b; reflexivity. Qed.

Lemma isnil_true : forall (A : Type) (l : list A), isnil l = true <-> l = [].
Proof. intros A [|x l]; cbn; split; intros H; try reflexivity; discriminate. Qed.

Lemma tok_eqb_eq : forall x y, tok_eqb x y = true <-> x = y.
Proof.
  intros [a|a|a] [b|b|b]; cbn [tok_eqb]; split; intros H; try discriminate;
    try (apply Nat.eqb_eq in H; subst; reflexivity); injection H as H; subst; apply Nat.eqb_refl.
Qed.

Lemma tmem_in : forall t l, tmem t l = true <-> In t l.
Proof.
  intros t l. unfold tmem. rewrite existsb_exists. split.
  - intros (x & Hx & E). apply tok_eqb_eq in E. subst. exact Hx.
  - intros H. exists t. split; [exact H|apply tok_eqb_eq; reflexivity].
Qed.

Lemma value_eqb_eq : forall x y, value_eqb x y = true <-> x = y.
Proof.
  induction x as [|a x IH]; destruct y as [|b y]; cbn [value_eqb]; split; intros H; try discriminate; try reflexivity.
  - apply andb_true_iff in H. destruct H as [H1 H2]. apply tok_eqb_eq in H1. apply IH in H2. subst. reflexivity.
  - injection H as H1 H2. subst. apply andb_true_iff. split; [apply tok_eqb_eq; reflexivity|apply IH; reflexivity].
Qed.

(** ---- one attribute value --------------------------------------------------------------------- *)
Definition idfresh (dcl : list tok) (ids : list tok) : bool := forallb (fun t => negb (tmem t dcl)) ids.

(* the multi-valued types *)
Lemma val_loop_refs : forall e v tbl,
  isnil (fst (val_loop e AIdRefs true v tbl)) = forallb is_name v /\
  snd (val_loop e AIdRefs true v tbl) = mkTbl (declared tbl) (used tbl ++ filter all_namechars v)
  \/ isnil (fst (val_loop e AIdRefs true v tbl)) = false /\ forallb is_name v = false.
Proof.
  intros e. induction v as [|t v IH]; intros tbl.
  - left. cbn. rewrite app_nil_r. destruct tbl; auto.
  - cbn [val_loop needs_first_namechar andb]. destruct t as [k|k|k]; cbn [first_is_namestart all_namechars negb forallb is_name andb].
    + cbn [token_refs]. destruct (IH (mkTbl (declared tbl) (used tbl ++ [TName k]))) as [[H1 H2]|[H1 H2]].
      * left. destruct (val_loop e AIdRefs true v _) as [e3 t3]. cbn [fst snd] in *. cbn [app isnil].
        split; [exact H1|]. rewrite H2. cbn [declared used filter all_namechars]. rewrite <- app_assoc. reflexivity.
      * right. destruct (val_loop e AIdRefs true v _) as [e3 t3]. cbn [fst snd] in *. cbn [app]. auto.
    + right. cbn [token_refs]. destruct (val_loop e AIdRefs true v _) as [e3 t3]. cbn. auto.
    + right. cbn. auto.
Qed.

Lemma val_loop_refs_ok : forall e v tbl,
  isnil (fst (val_loop e AIdRefs true v tbl)) = forallb is_name v /\
  (forallb is_name v = true -> snd (val_loop e AIdRefs true v tbl) = mkTbl (declared tbl) (used tbl ++ v)).
Proof.
  intros e v tbl. destruct (val_loop_refs e v tbl) as [[H1 H2]|[H1 H2]].
  - split; [exact H1|]. intros Hn. rewrite H2. f_equal. f_equal.
    clear - Hn. induction v as [|t v IH]; [reflexivity|]. cbn [forallb] in Hn. apply andb_true_iff in Hn.
    destruct Hn as [Ht Hv]. destruct t; try discriminate. cbn [filter all_namechars]. rewrite (IH Hv). reflexivity.
  - split; [congruence|]. intros Hn. congruence.
Qed.

Lemma val_loop_entities : forall e v tbl,
  isnil (fst (val_loop e AEntities true v tbl)) = forallb (is_unparsed e) v /\
  snd (val_loop e AEntities true v tbl) = tbl.
Proof.
  intros e. induction v as [|t v IH]; intros tbl; [cbn; auto|].
  cbn [val_loop needs_first_namechar andb]. destruct t as [k|k|k];
    cbn [first_is_namestart all_namechars negb forallb is_unparsed andb token_refs].
  - destruct (IH tbl) as [H1 H2]. destruct (val_loop e AEntities true v tbl) as [e3 t3]. cbn [fst snd] in *.
    split; [|exact H2]. destruct (memb k (unparsed e)); cbn [app isnil andb]; [exact H1|].
    destruct (memb k (parsed e)); reflexivity.
  - destruct (IH tbl) as [H1 H2]. destruct (val_loop e AEntities true v tbl) as [e3 t3]. cbn [fst snd] in *. auto.
  - cbn. auto.
Qed.

Lemma val_loop_nmtokens : forall e v tbl,
  isnil (fst (val_loop e ANmtokens true v tbl)) = forallb is_nmtoken v /\
  snd (val_loop e ANmtokens true v tbl) = tbl.
Proof.
  intros e. induction v as [|t v IH]; intros tbl; [cbn; auto|].
  cbn [val_loop needs_first_namechar andb]. destruct t as [k|k|k];
    cbn [first_is_namestart all_namechars negb forallb is_nmtoken andb token_refs].
  - destruct (IH tbl) as [H1 H2]. destruct (val_loop e ANmtokens true v tbl) as [e3 t3]. cbn [fst snd] in *. auto.
  - destruct (IH tbl) as [H1 H2]. destruct (val_loop e ANmtokens true v tbl) as [e3 t3]. cbn [fst snd] in *. auto.
  - cbn. auto.
Qed.

Definition ids_of (ty : atype) (v : value) : list tok := match ty with AId => v | _ => [] end.
Definition refs_of (ty : atype) (v : value) : list tok := match ty with AIdRef | AIdRefs => v | _ => [] end.

(* validateAttrValue without the #FIXED comparison, repaired behaviour *)
Ltac fin tbl :=
  cbn; rewrite ?app_nil_r, ?andb_true_r;
  repeat match goal with
         | |- context [tmem ?a ?b] => destruct (tmem a b)
         | |- context [memb ?a ?b] => destruct (memb a b)
         end;
  cbn; (split; [reflexivity|intros Hfin; try discriminate Hfin; try reflexivity; destruct tbl; reflexivity]).

Lemma val_loop_ok : forall e ty v tbl, ty <> ACData -> v <> [] ->
  isnil (fst (val_loop e ty (is_multiple false ty) v tbl)) = value_ok e ty v && idfresh (declared tbl) (ids_of ty v) /\
  (value_ok e ty v = true ->
   snd (val_loop e ty (is_multiple false ty) v tbl) = mkTbl (declared tbl ++ ids_of ty v) (used tbl ++ refs_of ty v)).
Proof.
  intros e ty v tbl Hty Hv. destruct ty; try (exfalso; apply Hty; reflexivity); cbn [is_multiple ids_of refs_of].
  - (* ID *) destruct v as [|t [|t2 r]]; [exfalso; apply Hv; reflexivity| |]; destruct t as [k|k|k]; fin tbl.
  - (* IDREF *) destruct v as [|t [|t2 r]]; [exfalso; apply Hv; reflexivity| |]; destruct t as [k|k|k]; fin tbl.
  - (* IDREFS *) cbn [idfresh forallb]. rewrite andb_true_r, app_nil_r.
    destruct (val_loop_refs_ok e v tbl) as [H1 H2]. cbn [value_ok]. destruct v as [|t r]; [exfalso; apply Hv; reflexivity|].
    cbn [nonempty andb]. split; [exact H1|exact H2].
  - (* ENTITY *) destruct v as [|t [|t2 r]]; [exfalso; apply Hv; reflexivity| |]; destruct t as [k|k|k]; fin tbl.
  - (* ENTITIES *) cbn [idfresh forallb]. rewrite andb_true_r, !app_nil_r.
    destruct (val_loop_entities e v tbl) as [H1 H2]. cbn [value_ok]. destruct v as [|t r]; [exfalso; apply Hv; reflexivity|].
    cbn [nonempty andb]. split; [exact H1|]. intros _. rewrite H2. destruct tbl; reflexivity.
  - (* NMTOKEN *) destruct v as [|t [|t2 r]]; [exfalso; apply Hv; reflexivity| |]; destruct t as [k|k|k]; fin tbl.
  - (* NMTOKENS *) cbn [idfresh forallb]. rewrite andb_true_r, !app_nil_r.
    destruct (val_loop_nmtokens e v tbl) as [H1 H2]. cbn [value_ok]. destruct v as [|t r]; [exfalso; apply Hv; reflexivity|].
    cbn [nonempty andb]. split; [exact H1|]. intros _. rewrite H2. destruct tbl; reflexivity.
  - (* NOTATION *) destruct v as [|t [|t2 r]]; [exfalso; apply Hv; reflexivity| |]; destruct t as [k|k|k]; fin tbl.
  - (* enumeration *) destruct v as [|t [|t2 r]]; [exfalso; apply Hv; reflexivity| |]; destruct t as [k|k|k]; fin tbl.
Qed.

Lemma value_ok_nil : forall e ty, ty <> ACData -> value_ok e ty [] = false.
Proof. intros e ty H. destruct ty; try reflexivity. exfalso. apply H. reflexivity. Qed.

Lemma validate_eff_ok : forall e x tbl,
  isnil (fst (validate_eff false e x tbl)) = eff_ok e x && idfresh (declared tbl) (id_toks x) /\
  (eff_ok e x = true ->
   snd (validate_eff false e x tbl) = mkTbl (declared tbl ++ id_toks x) (used tbl ++ ref_toks x)).
Proof.
  intros e [[d|] v] tbl; cbn [validate_eff eff_ok id_toks ref_toks]; [|cbn; split; [reflexivity|discriminate]].
  unfold validate_attr_value.
  set (e0 := match ad_def d with DFixed dv => if value_eqb v dv then [] else [NotSameAsFixedValue] | _ => [] end).
  assert (He0 : isnil e0 = fixed_ok d v).
  { unfold e0, fixed_ok. destruct (ad_def d); try reflexivity. destruct (value_eqb v v0); reflexivity. }
  change (match ad_type d with AId => v | _ => [] end) with (ids_of (ad_type d) v).
  change (match ad_type d with AIdRef | AIdRefs => v | _ => [] end) with (refs_of (ad_type d) v).
  destruct (ad_type d) eqn:Ety.
  1: { cbn [fst snd value_ok ids_of refs_of idfresh forallb andb]. rewrite He0, andb_true_r, !app_nil_r.
       split; [reflexivity|]. intros _. destruct tbl; reflexivity. }
  all: rewrite <- Ety; assert (Hne : ad_type d <> ACData) by (rewrite Ety; discriminate).
  all: destruct v as [|t r]; [cbn [fst snd]; rewrite isnil_app, (value_ok_nil e _ Hne); cbn;
       rewrite andb_false_r; split; [reflexivity|discriminate]|].
  all: assert (Hv : t :: r <> []) by discriminate.
  all: destruct (val_loop_ok e (ad_type d) (t :: r) tbl Hne Hv) as [H1 H2].
  all: replace (match ad_type d with ACData => (e0, tbl) | _ =>
         let '(e1, tbl1) := val_loop e (ad_type d) (is_multiple false (ad_type d)) (t :: r) tbl in (e0 ++ e1, tbl1) end)
       with (let '(e1, tbl1) := val_loop e (ad_type d) (is_multiple false (ad_type d)) (t :: r) tbl in (e0 ++ e1, tbl1))
       by (rewrite Ety; reflexivity).
  all: destruct (val_loop e (ad_type d) (is_multiple false (ad_type d)) (t :: r) tbl) as [e1 t1]; cbn [fst snd] in *.
  all: rewrite isnil_app, He0, H1; split;
       [destruct (fixed_ok d (t :: r)); destruct (value_ok e (ad_type d) (t :: r)); destruct (idfresh _ _); reflexivity|].
  all: intros Hok; apply andb_true_iff in Hok; apply H2; tauto.
Qed.

(** ---- a run over a list of effective attributes ------------------------------------------------ *)
Fixpoint idcheck (dcl : list tok) (ids : list tok) : bool :=
  match ids with
  | [] => true
  | t :: r => negb (tmem t dcl) && idcheck (dcl ++ [t]) r
  end.

Lemma eff_ok_ids : forall e x, eff_ok e x = true -> id_toks x = [] \/ exists t, id_toks x = [t].
Proof.
  intros e [[d|] v] H; cbn [eff_ok id_toks] in *; [|discriminate].
  apply andb_true_iff in H. destruct H as [H _]. destruct (ad_type d); auto.
  cbn [value_ok] in H. destruct v as [|t [|t2 r]]; try discriminate. right. exists t. reflexivity.
Qed.

Lemma validate_effs_ok : forall e xs tbl,
  isnil (fst (validate_effs false e xs tbl)) = forallb (eff_ok e) xs && idcheck (declared tbl) (flat_map id_toks xs) /\
  (isnil (fst (validate_effs false e xs tbl)) = true ->
   snd (validate_effs false e xs tbl) =
   mkTbl (declared tbl ++ flat_map id_toks xs) (used tbl ++ flat_map ref_toks xs)).
Proof.
  intros e. induction xs as [|x xs IH]; intros tbl.
  - cbn. rewrite !app_nil_r. destruct tbl; auto.
  - cbn [validate_effs forallb flat_map].
    destruct (validate_eff_ok e x tbl) as [H1 H2].
    destruct (validate_eff false e x tbl) as [e1 t1]. cbn [fst snd] in *.
    destruct (eff_ok e x) eqn:Eok.
    + specialize (H2 eq_refl). subst t1.
      destruct (IH (mkTbl (declared tbl ++ id_toks x) (used tbl ++ ref_toks x))) as [I1 I2].
      destruct (validate_effs false e xs _) as [e2 t2]. cbn [fst snd declared used] in *.
      rewrite isnil_app, H1, I1. cbn [andb].
      assert (Hid : idcheck (declared tbl) (id_toks x ++ flat_map id_toks xs) =
                    idfresh (declared tbl) (id_toks x) && idcheck (declared tbl ++ id_toks x) (flat_map id_toks xs)).
      { destruct (eff_ok_ids e x Eok) as [E|[t E]]; rewrite E; cbn [app idcheck idfresh forallb].
        - rewrite app_nil_r. reflexivity.
        - rewrite andb_true_r. reflexivity. }
      rewrite Hid. split.
      * destruct (idfresh (declared tbl) (id_toks x)); destruct (forallb (eff_ok e) xs);
          destruct (idcheck (declared tbl ++ id_toks x) (flat_map id_toks xs)); reflexivity.
      * intros Hn. apply andb_true_iff in Hn. destruct Hn as [_ Hn]. rewrite <- I1 in Hn. rewrite (I2 Hn).
        rewrite <- !app_assoc. reflexivity.
    + cbn [andb] in *. destruct (validate_effs false e xs t1) as [e2 t2]. cbn [fst snd].
      rewrite isnil_app, H1. cbn [andb]. split; [reflexivity|discriminate].
Qed.

Lemma validate_effs_app : forall sw e a b tbl,
  validate_effs sw e (a ++ b) tbl =
  let '(e1, t1) := validate_effs sw e a tbl in let '(e2, t2) := validate_effs sw e b t1 in (e1 ++ e2, t2).
Proof.
  intros sw e. induction a as [|x a IH]; intros b tbl; cbn [app validate_effs].
  - destruct (validate_effs sw e b tbl); reflexivity.
  - destruct (validate_eff sw e x tbl) as [e1 t1]. rewrite IH.
    destruct (validate_effs sw e a t1) as [e2 t2]. destruct (validate_effs sw e b t2) as [e3 t3].
    rewrite app_assoc. reflexivity.
Qed.

Lemma required_errs_nil : forall defs el, isnil (required_errs defs el) = required_ok defs el.
Proof.
  intros defs el. unfold required_errs, required_ok. induction defs as [|d defs IH]; [reflexivity|].
  cbn [flat_map forallb]. rewrite isnil_app, IH. destruct (ad_def d); try reflexivity.
  destruct (provided (ad_name d) el); reflexivity.
Qed.

(* the scan of the whole document against the flat run over all effective attributes *)
Lemma scan_doc_flat : forall e defs doc tbl,
  snd (scan_doc false e defs doc tbl) = snd (validate_effs false e (all_effective defs doc) tbl) /\
  isnil (fst (scan_doc false e defs doc tbl)) =
  isnil (fst (validate_effs false e (all_effective defs doc) tbl)) && forallb (required_ok defs) doc.
Proof.
  intros e defs. unfold all_effective. induction doc as [|el doc IH]; intros tbl.
  - cbn. auto.
  - cbn [scan_doc flat_map forallb]. unfold scan_attrs. rewrite validate_effs_app.
    destruct (validate_effs false e (effective defs el) tbl) as [e1 t1].
    destruct (IH t1) as [I1 I2].
    destruct (scan_doc false e defs doc t1) as [e2 t2].
    destruct (validate_effs false e (flat_map (effective defs) doc) t1) as [e3 t3]. cbn [fst snd] in *.
    split; [exact I1|]. rewrite !isnil_app, I2, required_errs_nil.
    destruct (isnil e1); destruct (isnil e3); destruct (required_ok defs el); destruct (forallb (required_ok defs) doc); reflexivity.
Qed.

Lemma idcheck_spec : forall ids dcl,
  idcheck dcl ids = true <-> NoDup ids /\ (forall t, In t ids -> ~ In t dcl).
Proof.
  induction ids as [|t ids IH]; intros dcl; cbn [idcheck].
  - split; [intros _; split; [constructor|intros t []]|reflexivity].
  - rewrite andb_true_iff, negb_true_iff, IH. split.
    + intros (H1 & H2 & H3). split.
      * constructor; [|exact H2]. intros Hin. apply (H3 t Hin). apply in_or_app. right. left. reflexivity.
      * intros t' [E|Hin]; [subst; intros Hd; apply tmem_in in Hd; congruence|].
        intros Hd. apply (H3 t' Hin). apply in_or_app. left. exact Hd.
    + intros (H1 & H2). inversion H1 as [|x l Hnot Hnd]. subst. split; [|split; [exact Hnd|]].
      * destruct (tmem t dcl) eqn:E; [|reflexivity]. exfalso. apply tmem_in in E. exact (H2 t (or_introl eq_refl) E).
      * intros t' Hin Hd. apply in_app_or in Hd. destruct Hd as [Hd|[Hd|[]]].
        -- exact (H2 t' (or_intror Hin) Hd).
        -- subst. contradiction.
Qed.

Lemma tdedup_in : forall l t, In t (tdedup l) <-> In t l.
Proof.
  induction l as [|x l IH]; intros t; cbn [tdedup]; [tauto|].
  destruct (tmem x l) eqn:E.
  - rewrite IH. split; [intros H; right; exact H|]. intros [H|H]; [subst; apply tmem_in; exact E|exact H].
  - cbn [In]. rewrite IH. tauto.
Qed.

Lemma check_idrefs_nil : forall tbl,
  check_idrefs tbl = [] <-> (forall t, In t (used tbl) -> In t (declared tbl)).
Proof.
  intros tbl. unfold check_idrefs. split.
  - intros H t Hin. apply map_eq_nil in H.
    destruct (tmem t (declared tbl)) eqn:E; [apply tmem_in; exact E|]. exfalso.
    assert (Hf : In t (filter (fun t0 => negb (tmem t0 (declared tbl))) (tdedup (used tbl)))).
    { apply filter_In. split; [apply tdedup_in; exact Hin|rewrite E; reflexivity]. }
    rewrite H in Hf. destruct Hf.
  - intros H. destruct (filter _ (tdedup (used tbl))) as [|t l] eqn:E; [reflexivity|]. exfalso.
    assert (Hf : In t (filter (fun t0 => negb (tmem t0 (declared tbl))) (tdedup (used tbl)))) by (rewrite E; left; reflexivity).
    apply filter_In in Hf. destruct Hf as [Hin Hn]. apply (proj1 (tdedup_in _ _)) in Hin. apply H in Hin. apply (proj2 (tmem_in _ _)) in Hin.
    rewrite Hin in Hn. discriminate.
Qed.

(** T07_attrs: the repaired model reports no validity error iff the attribute constraints hold *)
Theorem attrs_correct : forall e defs doc, attr_errors false e defs doc = [] <-> attrs_valid e defs doc.
Proof.
  intros e defs doc. unfold attr_errors, attrs_valid.
  destruct (scan_doc_flat e defs doc (mkTbl [] [])) as [S1 S2].
  destruct (validate_effs_ok e (all_effective defs doc) (mkTbl [] [])) as [V1 V2].
  destruct (scan_doc false e defs doc (mkTbl [] [])) as [e1 tbl]. cbn [fst snd] in *.
  rewrite <- isnil_true, isnil_app, andb_true_iff, S2, V1. cbn [declared used] in *.
  rewrite !andb_true_iff, idcheck_spec, !forallb_forall, !Forall_forall.
  rewrite isnil_true. split.
  - intros [[[H1 [H2 _]] H3] H4]. split; [exact H3|]. split; [exact H1|]. split; [exact H2|].
    assert (Hn : isnil (fst (validate_effs false e (all_effective defs doc) (mkTbl [] []))) = true).
    { rewrite V1. apply andb_true_iff. split; [apply forallb_forall; exact H1|].
      apply idcheck_spec. split; [exact H2|intros t _ []]. }
    rewrite S1, (V2 Hn) in H4. exact (proj1 (check_idrefs_nil _) H4).
  - intros (H3 & H1 & H2 & H4).
    assert (Hn : isnil (fst (validate_effs false e (all_effective defs doc) (mkTbl [] []))) = true).
    { rewrite V1. apply andb_true_iff. split; [apply forallb_forall; exact H1|].
      apply idcheck_spec. split; [exact H2|intros t _ []]. }
    split; [split; [split; [exact H1|split; [exact H2|intros t _ []]]|exact H3]|].
    rewrite S1, (V2 Hn). apply (proj2 (check_idrefs_nil _)). exact H4.
Qed.

(** the executable oracle decides the specification *)
Lemma tnodup_correct : forall l, tnodup l = true <-> NoDup l.
Proof.
  induction l as [|x l IH]; cbn [tnodup].
  - split; [constructor|reflexivity].
  - rewrite andb_true_iff, negb_true_iff, IH, NoDup_cons_iff. split.
    + intros [H1 H2]. split; [|exact H2]. intros Hin. apply tmem_in in Hin. congruence.
    + intros [H1 H2]. split; [|exact H2]. destruct (tmem x l) eqn:E; [|reflexivity].
      exfalso. apply H1. apply tmem_in. exact E.
Qed.

Theorem attrs_validb_correct : forall e defs doc, attrs_validb e defs doc = true <-> attrs_valid e defs doc.
Proof.
  intros e defs doc. unfold attrs_validb, attrs_valid.
  rewrite !andb_true_iff, tnodup_correct, !forallb_forall, !Forall_forall. split.
  - intros [[[H1 H2] H3] H4]. repeat split; auto. intros t Ht. apply tmem_in. apply H4. exact Ht.
  - intros (H1 & H2 & H3 & H4). repeat split; auto. intros t Ht. apply tmem_in. apply H4. exact Ht.
Qed.

(** T07_ids: ID uniqueness and IDREF resolution do not depend on the order of the elements *)
Theorem attrs_valid_perm : forall e defs doc doc', Permutation doc doc' ->
  attrs_valid e defs doc -> attrs_valid e defs doc'.
Proof.
  intros e defs doc doc' P (H1 & H2 & H3 & H4). unfold attrs_valid.
  assert (PE : Permutation (all_effective defs doc) (all_effective defs doc')).
  { unfold all_effective. apply Permutation_flat_map. exact P. }
  assert (PI : Permutation (flat_map id_toks (all_effective defs doc)) (flat_map id_toks (all_effective defs doc')))
    by (apply Permutation_flat_map; exact PE).
  assert (PR : Permutation (flat_map ref_toks (all_effective defs doc)) (flat_map ref_toks (all_effective defs doc')))
    by (apply Permutation_flat_map; exact PE).
  split; [apply (Permutation_Forall P); exact H1|]. split; [apply (Permutation_Forall PE); exact H2|].
  split; [apply (Permutation_NoDup PI); exact H3|].
  intros t Ht. apply (Permutation_in _ PI). apply H4. apply (Permutation_in _ (Permutation_sym PR)). exact Ht.
Qed.

Theorem ids_order_independent : forall e defs doc doc', Permutation doc doc' ->
  (attr_errors false e defs doc = [] <-> attr_errors false e defs doc' = []).
Proof.
  intros e defs doc doc' P. rewrite !attrs_correct. split; apply attrs_valid_perm; [exact P|apply Permutation_sym; exact P].
Qed.

(** attribute defaults are delivered identically whether or not validation is on *)
Theorem defaults_independent : forall defs el, delivered true defs el = delivered false defs el.
Proof. reflexivity. Qed.

(** F25: the code as written accepts an enumeration value made of several listed tokens *)
Definition f25_defs : list attdef := [mkAD 1 (AEnum [TName 1; TName 2]) DImplied].
Definition f25_doc : adoc := [[(1, [TName 1; TName 2])]].

Theorem enum_multi_refuted :
  attr_errors true (mkEnv [] []) f25_defs f25_doc = [] /\ ~ attrs_valid (mkEnv [] []) f25_defs f25_doc.
Proof.
  split; [vm_compute; reflexivity|]. rewrite <- attrs_validb_correct. vm_compute. discriminate.
Qed.

(** ... and only that: where no specified or defaulted NOTATION / enumeration value has more than one token the
    code as written and the repaired code report the same errors *)
Definition single_enum (x : option attdef * value) : bool :=
  match x with
  | (Some d, v) => match ad_type d with ANotation _ | AEnum _ => Nat.leb (length v) 1 | _ => true end
  | _ => true
  end.

Lemma val_loop_single_tok : forall e ty t tbl m,
  match ty with ANotation _ | AEnum _ => True | _ => m = is_multiple false ty end ->
  val_loop e ty m [t] tbl = val_loop e ty (is_multiple false ty) [t] tbl.
Proof.
  intros e ty t tbl m H. destruct ty; try (rewrite H; reflexivity).
  - cbn [is_multiple val_loop nonempty andb]. destruct m; [|reflexivity].
    destruct (negb (all_namechars t)); [reflexivity|]. cbn [negb andb]. destruct (token_refs e (ANotation l) t tbl) as [e2 t2].
    cbn. rewrite app_nil_r. reflexivity.
  - cbn [is_multiple val_loop nonempty andb]. destruct m; [|reflexivity].
    destruct (negb (all_namechars t)); [reflexivity|]. cbn [negb andb]. destruct (token_refs e (AEnum l) t tbl) as [e2 t2].
    cbn. rewrite app_nil_r. reflexivity.
Qed.

Lemma validate_eff_switch : forall e x tbl, single_enum x = true ->
  validate_eff true e x tbl = validate_eff false e x tbl.
Proof.
  intros e [[d|] v] tbl H; cbn [validate_eff]; [|reflexivity]. unfold validate_attr_value.
  cbn [single_enum] in H. destruct (ad_type d) eqn:Ety; try reflexivity.
  - destruct v as [|t [|t2 r]]; [reflexivity| |cbn in H; discriminate].
    rewrite (val_loop_single_tok e (ANotation l) t tbl (is_multiple true (ANotation l))); [reflexivity|exact I].
  - destruct v as [|t [|t2 r]]; [reflexivity| |cbn in H; discriminate].
    rewrite (val_loop_single_tok e (AEnum l) t tbl (is_multiple true (AEnum l))); [reflexivity|exact I].
Qed.

Lemma validate_effs_switch : forall e xs tbl, forallb single_enum xs = true ->
  validate_effs true e xs tbl = validate_effs false e xs tbl.
Proof.
  intros e. induction xs as [|x xs IH]; intros tbl H; [reflexivity|]. cbn [forallb] in H.
  apply andb_true_iff in H. destruct H as [H1 H2]. cbn [validate_effs]. rewrite (validate_eff_switch e x tbl H1).
  destruct (validate_eff false e x tbl) as [e1 t1]. rewrite (IH t1 H2). reflexivity.
Qed.

Theorem attrs_guarded : forall e defs doc,
  forallb (fun el => forallb single_enum (effective defs el)) doc = true ->
  attr_errors true e defs doc = attr_errors false e defs doc.
Proof.
  intros e defs doc H. unfold attr_errors.
  assert (S : forall tbl, scan_doc true e defs doc tbl = scan_doc false e defs doc tbl).
  { induction doc as [|el doc IH]; intros tbl; [reflexivity|]. cbn [forallb] in H.
    apply andb_true_iff in H. destruct H as [H1 H2]. cbn [scan_doc]. unfold scan_attrs.
    rewrite (validate_effs_switch e _ tbl H1). destruct (validate_effs false e (effective defs el) tbl) as [e1 t1].
    rewrite (IH H2 t1). reflexivity. }
  rewrite S. reflexivity.
Qed.

Definition no_multi_enum (defs : list attdef) (doc : adoc) : bool :=
  forallb (fun el => forallb single_enum (effective defs el)) doc.

Theorem attrs_faithful_guarded : forall e defs doc, no_multi_enum defs doc = true ->
  (attr_errors true e defs doc = [] <-> attrs_valid e defs doc).
Proof. intros e defs doc H. rewrite (attrs_guarded e defs doc H). apply attrs_correct. Qed.

(** ---- several element types ---------------------------------------------------------------------- *)
Lemma scan_tdoc_flat : forall e dm doc tbl,
  snd (scan_tdoc false e dm doc tbl) = snd (validate_effs false e (all_effective_t dm doc) tbl) /\
  isnil (fst (scan_tdoc false e dm doc tbl)) =
  isnil (fst (validate_effs false e (all_effective_t dm doc) tbl)) &&
  forallb (fun x => required_ok (dm (fst x)) (snd x)) doc.
Proof.
  intros e dm. unfold all_effective_t. induction doc as [|x doc IH]; intros tbl.
  - cbn. auto.
  - cbn [scan_tdoc flat_map forallb]. unfold scan_attrs. rewrite validate_effs_app.
    destruct (validate_effs false e (effective (dm (fst x)) (snd x)) tbl) as [e1 t1].
    destruct (IH t1) as [I1 I2].
    destruct (scan_tdoc false e dm doc t1) as [e2 t2].
    destruct (validate_effs false e (flat_map (fun x0 => effective (dm (fst x0)) (snd x0)) doc) t1) as [e3 t3].
    cbn [fst snd] in *.
    split; [exact I1|]. rewrite !isnil_app, I2, required_errs_nil.
    destruct (isnil e1); destruct (isnil e3); destruct (required_ok (dm (fst x)) (snd x));
      destruct (forallb (fun x0 => required_ok (dm (fst x0)) (snd x0)) doc); reflexivity.
Qed.

Theorem attrs_t_correct : forall e dm doc, attr_errors_t false e dm doc = [] <-> attrs_valid_t e dm doc.
Proof.
  intros e dm doc. unfold attr_errors_t, attrs_valid_t.
  destruct (scan_tdoc_flat e dm doc (mkTbl [] [])) as [S1 S2].
  destruct (validate_effs_ok e (all_effective_t dm doc) (mkTbl [] [])) as [V1 V2].
  destruct (scan_tdoc false e dm doc (mkTbl [] [])) as [e1 tbl]. cbn [fst snd] in *.
  rewrite <- isnil_true, isnil_app, andb_true_iff, S2, V1. cbn [declared used] in *.
  rewrite !andb_true_iff, idcheck_spec, !forallb_forall, !Forall_forall.
  rewrite isnil_true. split.
  - intros [[[H1 [H2 _]] H3] H4]. split; [exact H3|]. split; [exact H1|]. split; [exact H2|].
    assert (Hn : isnil (fst (validate_effs false e (all_effective_t dm doc) (mkTbl [] []))) = true).
    { rewrite V1. apply andb_true_iff. split; [apply forallb_forall; exact H1|].
      apply idcheck_spec. split; [exact H2|intros t _ []]. }
    rewrite S1, (V2 Hn) in H4. exact (proj1 (check_idrefs_nil _) H4).
  - intros (H3 & H1 & H2 & H4).
    assert (Hn : isnil (fst (validate_effs false e (all_effective_t dm doc) (mkTbl [] []))) = true).
    { rewrite V1. apply andb_true_iff. split; [apply forallb_forall; exact H1|].
      apply idcheck_spec. split; [exact H2|intros t _ []]. }
    split; [split; [split; [exact H1|split; [exact H2|intros t _ []]]|exact H3]|].
    rewrite S1, (V2 Hn). apply (proj2 (check_idrefs_nil _)). exact H4.
Qed.

Theorem attrs_validb_t_correct : forall e dm doc, attrs_validb_t e dm doc = true <-> attrs_valid_t e dm doc.
Proof.
  intros e dm doc. unfold attrs_validb_t, attrs_valid_t.
  rewrite !andb_true_iff, tnodup_correct, !forallb_forall, !Forall_forall. split.
  - intros [[[H1 H2] H3] H4]. repeat split; auto. intros t Ht. apply tmem_in. apply H4. exact Ht.
  - intros (H1 & H2 & H3 & H4). repeat split; auto. intros t Ht. apply tmem_in. apply H4. exact Ht.
Qed.

Theorem attrs_valid_t_perm : forall e dm doc doc', Permutation doc doc' ->
  attrs_valid_t e dm doc -> attrs_valid_t e dm doc'.
Proof.
  intros e dm doc doc' P (H1 & H2 & H3 & H4). unfold attrs_valid_t.
  assert (PE : Permutation (all_effective_t dm doc) (all_effective_t dm doc')).
  { unfold all_effective_t. apply Permutation_flat_map. exact P. }
  assert (PI : Permutation (flat_map id_toks (all_effective_t dm doc)) (flat_map id_toks (all_effective_t dm doc')))
    by (apply Permutation_flat_map; exact PE).
  assert (PR : Permutation (flat_map ref_toks (all_effective_t dm doc)) (flat_map ref_toks (all_effective_t dm doc')))
    by (apply Permutation_flat_map; exact PE).
  split; [apply (Permutation_Forall P); exact H1|]. split; [apply (Permutation_Forall PE); exact H2|].
  split; [apply (Permutation_NoDup PI); exact H3|].
  intros t Ht. apply (Permutation_in _ PI). apply H4. apply (Permutation_in _ (Permutation_sym PR)). exact Ht.
Qed.

Theorem ids_order_independent_t : forall e dm doc doc', Permutation doc doc' ->
  (attr_errors_t false e dm doc = [] <-> attr_errors_t false e dm doc' = []).
Proof.
  intros e dm doc doc' P. rewrite !attrs_t_correct.
  split; apply attrs_valid_t_perm; [exact P|apply Permutation_sym; exact P].
Qed.

(** ---- name spaces of the DTD ------------------------------------------------------------------------ *)
Lemma first_general_other : forall n a k m b, is_general k = false ->
  first_general n (a ++ (k, m) :: b) = first_general n (a ++ b).
Proof.
  intros n a k m b H. induction a as [|[k1 m1] a IH]; cbn [app first_general].
  - rewrite H. reflexivity.
  - destruct (is_general k1 && Nat.eqb m1 n); [reflexivity|exact IH].
Qed.

Lemma gnames_other : forall a k m b, is_general k = false -> gnames (a ++ (k, m) :: b) = gnames (a ++ b).
Proof.
  intros a k m b H. unfold gnames. rewrite !filter_app. cbn [filter fst]. rewrite H. reflexivity.
Qed.

(** a parameter entity, notation or element type of any name, anywhere, does not change the general entities *)
Theorem decl_kinds_separate : forall a k m b, is_general k = false ->
  env_of_decls (a ++ (k, m) :: b) = env_of_decls (a ++ b).
Proof.
  intros a k m b H. unfold env_of_decls. rewrite (gnames_other a k m b H). f_equal.
  - apply filter_ext. intros n. rewrite (first_general_other n a k m b H). reflexivity.
  - apply filter_ext. intros n. rewrite (first_general_other n a k m b H). reflexivity.
Qed.

(** within the general entities the first declaration of a name is binding *)
Theorem first_general_wins : forall n a b k0, first_general n a = Some k0 -> first_general n (a ++ b) = Some k0.
Proof.
  intros n a b k0. induction a as [|[k1 m1] a IH]; cbn [app first_general]; [discriminate|].
  destruct (is_general k1 && Nat.eqb m1 n); [auto|exact IH].
Qed.

Lemma first_general_in : forall n ds k, first_general n ds = Some k -> In n (gnames ds).
Proof.
  intros n. induction ds as [|[k1 m1] ds IH]; intros k H; cbn [first_general] in H; [discriminate|].
  unfold gnames. cbn [filter fst]. destruct (is_general k1) eqn:Eg; cbn [andb] in H.
  - cbn [map snd In]. destruct (Nat.eqb_spec m1 n) as [E|E]; [left; exact E|right; apply (IH k H)].
  - apply (IH k H).
Qed.

Theorem env_unparsed_iff : forall ds n,
  memb n (unparsed (env_of_decls ds)) = true <-> first_general n ds = Some KUnparsed.
Proof.
  intros ds n. rewrite memb_in. unfold env_of_decls. cbn [unparsed]. rewrite filter_In. split.
  - intros [_ H]. destruct (first_general n ds) as [[| | | |]|]; try discriminate. reflexivity.
  - intros H. split; [apply (first_general_in n ds _ H)|rewrite H; reflexivity].
Qed.

Theorem env_parsed_iff : forall ds n,
  memb n (parsed (env_of_decls ds)) = true <-> first_general n ds = Some KParsed.
Proof.
  intros ds n. rewrite memb_in. unfold env_of_decls. cbn [parsed]. rewrite filter_In. split.
  - intros [_ H]. destruct (first_general n ds) as [[| | | |]|]; try discriminate. reflexivity.
  - intros H. split; [apply (first_general_in n ds _ H)|rewrite H; reflexivity].
Qed.

(** hence the attribute verdicts: declarations of the other kinds are invisible to them *)
Theorem attrs_ignore_other_kinds : forall sw a k m b dm doc, is_general k = false ->
  attr_errors_t sw (env_of_decls (a ++ (k, m) :: b)) dm doc = attr_errors_t sw (env_of_decls (a ++ b)) dm doc.
Proof. intros. rewrite decl_kinds_separate by assumption. reflexivity. Qed.
