(** C07 -- executable model of xerces-c's DTD content-model machinery, following the C++.  NO proofs here.

    DTDValidator::checkContent            -> [check_content]
    DTDElementDecl::createChildModel      -> [createChildModel]
    SimpleContentModel::validateContent   -> [simple_validate]      (fDTD = true: names compared by raw name)
    MixedContentModel::validateContent    -> [mixed_validate]       (fOrdered = false)
    DFAContentModel::buildDFA / buildSyntaxTree / validateContent -> [buildDFA] / [build] / [dfa_validate]
    IGXMLScanner::scanEndTag / scanStartTag (error selection)     -> [content_error], [elem_check]

    The ContentSpecNode tree built by DTDScanner::scanChildren has exactly the shape of [Spec07.cm]
    (n-ary groups are right-nested binary nodes; redundant parentheses leave no node), so the model works on
    [cm] values.  CMStateSet (a bit set) is abstracted to a sorted duplicate-free [list nat]; the two code paths
    the C++ uses to union follow sets (bit test per leaf / enumerator + binary search) compute the same set and
    are one function here.  The schema-only parts (fIsMixed, wildcards, CMRepeatingLeaf/fCountingStates,
    the shared-right-node loop of buildSyntaxTree) do not occur for DTD grammars and are not modelled. *)
From Coq Require Import List Bool Arith.
From Coq Require Import NArith.
From XV Require Import Gen.GenValid07 C07.Spec07.
Import ListNotations.

(** result of validateContent: true, or false with *indexFailingChild; [VModelErr] = the model gave up
    (fuel exhausted, or a simple model without the operand it needs -- both proved unreachable/guarded) *)
Inductive vres : Type := VOk | VFail (idx : nat) | VModelErr.

(** ---- DTDElementDecl::createChildModel -------------------------------------------------------- *)
Inductive sop : Type := OpLeaf | OpSeq | OpChoice | OpOpt | OpStar | OpPlus.

Inductive chosen : Type :=
| UseSimple (op : sop) (first : name) (second : option name)
| UseDFA (c : cm).

Definition createChildModel (c : cm) : chosen :=
  match c with
  | Leaf a => UseSimple OpLeaf a None
  | Seq (Leaf a) (Leaf b) => UseSimple OpSeq a (Some b)
  | Choice (Leaf a) (Leaf b) => UseSimple OpChoice a (Some b)
  | Opt (Leaf a) => UseSimple OpOpt a None
  | Star (Leaf a) => UseSimple OpStar a None
  | Plus (Leaf a) => UseSimple OpPlus a None
  | _ => UseDFA c
  end.

(** ---- SimpleContentModel::validateContent ----------------------------------------------------- *)
(* index of the first child different from [a], counting from [i] *)
Fixpoint all_same (a : name) (w : list name) (i : nat) : vres :=
  match w with
  | [] => VOk
  | x :: r => if Nat.eqb x a then all_same a r (S i) else VFail i
  end.

Definition simple_validate (op : sop) (a : name) (b : option name) (w : list name) : vres :=
  match op with
  | OpLeaf =>
      match w with
      | [] => VFail 0
      | x :: r => if negb (Nat.eqb x a) then VFail 0 else match r with [] => VOk | _ => VFail 1 end
      end
  | OpOpt =>
      match w with
      | [] => VOk
      | [x] => if negb (Nat.eqb x a) then VFail 0 else VOk
      | _ => VFail 1
      end
  | OpStar => all_same a w 0
  | OpPlus => match w with [] => VFail 0 | _ => all_same a w 0 end
  | OpChoice =>
      match b with
      | None => VModelErr
      | Some b =>
          match w with
          | [] => VFail 0
          | x :: r => if negb (Nat.eqb x a) && negb (Nat.eqb x b) then VFail 0
                      else match r with [] => VOk | _ => VFail 1 end
          end
      end
  | OpSeq =>
      match b with
      | None => VModelErr
      | Some b =>
          match w with
          | [] => VFail 0
          | x :: r =>
              if negb (Nat.eqb x a) then VFail 0
              else match r with
                   | [] => VFail 1
                   | y :: r' => if negb (Nat.eqb y b) then VFail 1
                                else match r' with [] => VOk | _ => VFail 2 end
                   end
          end
      end
  end.

(** ---- MixedContentModel -------------------------------------------------------------------------
    fChildren = the leaves of (#PCDATA | n1 | ...)* in order; the #PCDATA leaf has the empty raw name
    ([None] here), which no child element can carry. *)
Definition oname_eqb (x y : option name) : bool :=
  match x, y with
  | Some a, Some b => Nat.eqb a b
  | None, None => true
  | _, _ => false
  end.

Definition mixed_children (ns : list name) : list (option name) := None :: map Some ns.

Fixpoint mixed_validate (kids : list (option name)) (w : list name) (i : nat) : vres :=
  match w with
  | [] => VOk
  | x :: r => if existsb (fun k => oname_eqb k (Some x)) kids then mixed_validate kids r (S i) else VFail i
  end.

(* MixedContentModel::hasDups *)
Fixpoint has_dups (l : list name) : bool :=
  match l with
  | [] => false
  | x :: r => memb x r || has_dups r
  end.

(** ---- CMStateSet as sorted lists ------------------------------------------------------------------ *)
Definition pset := list nat.

Fixpoint memp (x : nat) (s : pset) : bool :=
  match s with
  | [] => false
  | y :: r => Nat.eqb x y || memp x r
  end.

(* operator|= : merge of two sorted lists *)
Fixpoint punion (a : pset) : pset -> pset :=
  match a with
  | [] => fun b => b
  | x :: a' =>
      fix inner (b : pset) : pset :=
        match b with
        | [] => x :: a'
        | y :: b' =>
            if Nat.ltb x y then x :: punion a' (y :: b')
            else if Nat.ltb y x then y :: inner b'
            else x :: punion a' b'
        end
  end.

Fixpoint pset_eqb (a b : pset) : bool :=
  match a, b with
  | [], [] => true
  | x :: a', y :: b' => Nat.eqb x y && pset_eqb a' b'
  | _, _ => false
  end.

(** ---- buildSyntaxTree: CMNode info (isNullable, firstPos, lastPos) + follow list ---------------- *)
Record ninfo : Type := mkN { n_null : bool; n_first : pset; n_last : pset }.

(* "for every position in [lasts]: *fFollowList[index] |= firsts"; [i] = index of the head of [fl] *)
Fixpoint fl_add (fl : list pset) (i : nat) (lasts firsts : pset) : list pset :=
  match fl with
  | [] => []
  | s :: r => (if memp i lasts then punion s firsts else s) :: fl_add r (S i) lasts firsts
  end.

(* returns (node info, next free position (curIndex), follow list) *)
Fixpoint build (c : cm) (idx : nat) (fl : list pset) : ninfo * nat * list pset :=
  match c with
  | Leaf _ => (mkN false [idx] [idx], S idx, fl)
  | Seq r s =>
      let '(nr, i1, fl1) := build r idx fl in
      let '(ns, i2, fl2) := build s i1 fl1 in
      let fl3 := fl_add fl2 0 (n_last nr) (n_first ns) in
      (mkN (n_null nr && n_null ns)
           (if n_null nr then punion (n_first nr) (n_first ns) else n_first nr)
           (if n_null ns then punion (n_last ns) (n_last nr) else n_last ns), i2, fl3)
  | Choice r s =>
      let '(nr, i1, fl1) := build r idx fl in
      let '(ns, i2, fl2) := build s i1 fl1 in
      (mkN (n_null nr || n_null ns) (punion (n_first nr) (n_first ns)) (punion (n_last nr) (n_last ns)), i2, fl2)
  | Opt r =>
      let '(nr, i1, fl1) := build r idx fl in
      (mkN true (n_first nr) (n_last nr), i1, fl1)
  | Star r =>
      let '(nr, i1, fl1) := build r idx fl in
      (mkN true (n_first nr) (n_last nr), i1, fl_add fl1 0 (n_last nr) (n_first nr))
  | Plus r =>
      let '(nr, i1, fl1) := build r idx fl in
      (mkN (n_null nr) (n_first nr) (n_last nr), i1, fl_add fl1 0 (n_last nr) (n_first nr))
  end.

(* fLeafList names in position order (countLeafNodes = its length) *)
Fixpoint leaves (c : cm) : list name :=
  match c with
  | Leaf a => [a]
  | Seq r s | Choice r s => leaves r ++ leaves s
  | Opt r | Star r | Plus r => leaves r
  end.

(* fElemMap: distinct raw names in order of first occurrence ([acc] is the map built so far) *)
Fixpoint elem_map (ls : list (option name)) (acc : list (option name)) : list (option name) :=
  match ls with
  | [] => acc
  | x :: r => if existsb (oname_eqb x) acc then elem_map r acc else elem_map r (acc ++ [x])
  end.

(* leafSorter[elemIndex]: the positions carrying that name, ascending; [i] = position of the head of [ls] *)
Fixpoint positions_of (e : option name) (ls : list (option name)) (i : nat) : list nat :=
  match ls with
  | [] => []
  | x :: r => if oname_eqb x e then i :: positions_of e r (S i) else positions_of e r (S i)
  end.

(* newSet = union of fFollowList[p] for the positions p of the input symbol that are in the state setT *)
Fixpoint step (follow : list pset) (T : pset) (poss : list nat) : pset :=
  match poss with
  | [] => []
  | p :: r => if memp p T then punion (nth p follow []) (step follow T r) else step follow T r
  end.

(** ---- the worklist subset construction --------------------------------------------------------- *)
Record dfa : Type := mkDFA {
  d_elems : list (option name);          (* fElemMap *)
  d_trans : list (list (option nat));    (* fTransTable, None = gInvalidTrans *)
  d_final : list bool;                   (* fFinalStateFlags *)
  d_emptyok : bool;                      (* fEmptyOk *)
  d_complete : bool                      (* model only: the worklist emptied within the fuel *)
}.

Fixpoint find_state (s : pset) (sts : list pset) (i : nat) : option nat :=
  match sts with
  | [] => None
  | t :: r => if pset_eqb s t then Some i else find_state s r (S i)
  end.

(* stateTable->get(newSet): every state but the initial one is registered in the hash table *)
Definition lookup_state (s : pset) (states : list pset) : option nat :=
  match states with
  | [] => None
  | _ :: r => find_state s r 1
  end.

Definition do_elem (follow : list pset) (T : pset) (states : list pset) (poss : list nat)
  : list pset * option nat :=
  match step follow T poss with
  | [] => (states, None)
  | ns =>
      match lookup_state ns states with
      | Some i => (states, Some i)
      | None => (states ++ [ns], Some (length states))
      end
  end.

Fixpoint do_row (follow : list pset) (T : pset) (states : list pset) (sorter : list (list nat))
  : list pset * list (option nat) :=
  match sorter with
  | [] => (states, [])
  | poss :: rest =>
      let '(st1, t) := do_elem follow T states poss in
      let '(st2, row) := do_row follow T st1 rest in
      (st2, t :: row)
  end.

Fixpoint explore (fuel : nat) (follow : list pset) (sorter : list (list nat)) (eoc : nat)
         (unmarked : nat) (states : list pset) (trans : list (list (option nat))) (finals : list bool)
  : list pset * list (list (option nat)) * list bool * bool :=
  match fuel with
  | O => (states, trans, finals, false)
  | S f =>
      match nth_error states unmarked with
      | None => (states, trans, finals, true)
      | Some T =>
          let '(st1, row) := do_row follow T states sorter in
          explore f follow sorter eoc (S unmarked) st1 (trans ++ [row]) (finals ++ [memp eoc T])
      end
  end.

Definition leaf_names (c : cm) : list (option name) := map Some (leaves c) ++ [None].

(* the follow list and initial state after buildSyntaxTree and the EOC sequence node *)
Definition follow_of (c : cm) : list pset :=
  let eoc := length (leaves c) in
  let '(info, _, fl1) := build c 0 (repeat [] (S eoc)) in
  fl_add fl1 0 (n_last info) [eoc].

Definition start_of (c : cm) : pset :=
  let eoc := length (leaves c) in
  let '(info, _, _) := build c 0 (repeat [] (S eoc)) in
  if n_null info then punion (n_first info) [eoc] else n_first info.

Definition buildDFA (fuel : nat) (c : cm) : dfa :=
  let eoc := length (leaves c) in
  let '(info, _, _) := build c 0 (repeat [] (S eoc)) in
  let elems := elem_map (leaf_names c) [] in
  let sorter := map (fun e => positions_of e (leaf_names c) 0) elems in
  let '(states, trans, finals, complete) :=
    explore fuel (follow_of c) sorter eoc 0 [start_of c] [] [] in
  mkDFA elems trans finals (n_null info) complete.

(** ---- DFAContentModel::validateContent ----------------------------------------------------------- *)
(* the elemIndex loop: first map entry with the child's raw name whose transition is valid *)
Fixpoint find_trans (a : name) (elems : list (option name)) (row : list (option nat)) : option nat :=
  match elems, row with
  | e :: es, t :: ts =>
      if oname_eqb e (Some a)
      then match t with Some n => Some n | None => find_trans a es ts end
      else find_trans a es ts
  | _, _ => None
  end.

Fixpoint dfa_run (d : dfa) (cur idx : nat) (w : list name) : vres :=
  match w with
  | [] => if nth cur (d_final d) false then VOk else VFail idx
  | a :: r =>
      match find_trans a (d_elems d) (nth cur (d_trans d) []) with
      | None => VFail idx
      | Some n => dfa_run d n (S idx) r
      end
  end.

Definition dfa_validate (d : dfa) (w : list name) : vres :=
  if negb (d_complete d) then VModelErr
  else match w with
       | [] => if d_emptyok d then VOk else VFail 0
       | _ => dfa_run d 0 0 w
       end.

(** ---- DTDElementDecl::makeContentModel / DTDValidator::checkContent ----------------------------
    the XMLContentModel object is built once per element declaration (getContentModel caches it) *)
Inductive cmobj : Type :=
| CMO_Empty | CMO_Any
| CMO_Mixed (kids : list (option name))
| CMO_Simple (op : sop) (a : name) (b : option name)
| CMO_DFA (d : dfa).

Definition makeContentModel (fuel : nat) (m : cmodel) : cmobj :=
  match m with
  | MEmpty => CMO_Empty
  | MAny => CMO_Any
  | MMixed ns => CMO_Mixed (mixed_children ns)
  | MChildren c =>
      match createChildModel c with
      | UseSimple op a b => CMO_Simple op a b
      | UseDFA c' => CMO_DFA (buildDFA fuel c')
      end
  end.

Definition validate_obj (o : cmobj) (w : list name) : vres :=
  match o with
  | CMO_Empty => match w with [] => VOk | _ => VFail 0 end
  | CMO_Any => VOk
  | CMO_Mixed kids => mixed_validate kids w 0
  | CMO_Simple op a b => simple_validate op a b w
  | CMO_DFA d => dfa_validate d w
  end.

Definition check_content (fuel : nat) (m : cmodel) (w : list name) : vres :=
  validate_obj (makeContentModel fuel m) w.

(** ---- the scanner's choice of validity error (XMLValid codes) ------------------------------------- *)
Inductive verr : Type :=
| ElementNotDefined | ElementNotValidForContent | EmptyNotValidForContent | NotEnoughElemsForCM | RepElemInMixed
| AttNotDefinedForElement | RequiredAttrNotProvided | InvalidEmptyAttValue | ReusedIDValue | IDNotDeclared
| BadEntityRefAttr | UnknownEntityRefAttr | DoesNotMatchEnumList | AttrValNotName | NoMultipleValues
| NotSameAsFixedValue
| ModelGaveUp.

(* [emptytag]: the element was written <r/> (scanStartTag's isEmpty branch) *)
Definition content_error (emptytag : bool) (count : nat) (r : vres) : list verr :=
  match r with
  | VOk => []
  | VModelErr => [ModelGaveUp]
  | VFail i =>
      if emptytag then [ElementNotValidForContent]
      else if Nat.eqb count 0 then [EmptyNotValidForContent]
      else if Nat.leb count i then [NotEnoughElemsForCM]
      else [ElementNotValidForContent]
  end.

(* validity errors of one element instance, in document order: one ElementNotDefined per undeclared child
   (raised at the child's start tag), then the content error at the end tag *)
Definition elem_check_obj (declared : list name) (o : cmobj) (emptytag : bool) (w : list name) : list verr :=
  map (fun _ => ElementNotDefined) (filter (fun a => negb (memb a declared)) w)
  ++ content_error emptytag (length w) (validate_obj o w).

Definition elem_check (fuel : nat) (declared : list name) (m : cmodel) (emptytag : bool) (w : list name)
  : list verr := elem_check_obj declared (makeContentModel fuel m) emptytag w.

(* errors raised while the declaration itself is scanned (DTDScanner::scanContentSpec) *)
Definition decl_check (m : cmodel) : list verr :=
  match m with
  | MMixed ns => if has_dups ns then [RepElemInMixed] else []
  | _ => []
  end.

(* the XMLValid::Codes value of each error, from the enum regenerated out of XMLValidityCodes.hpp *)
Definition verr_code (e : verr) : N :=
  match e with
  | ElementNotDefined => XMLValid_ElementNotDefined
  | ElementNotValidForContent => XMLValid_ElementNotValidForContent
  | EmptyNotValidForContent => XMLValid_EmptyNotValidForContent
  | NotEnoughElemsForCM => XMLValid_NotEnoughElemsForCM
  | RepElemInMixed => XMLValid_RepElemInMixed
  | AttNotDefinedForElement => XMLValid_AttNotDefinedForElement
  | RequiredAttrNotProvided => XMLValid_RequiredAttrNotProvided
  | InvalidEmptyAttValue => XMLValid_InvalidEmptyAttValue
  | ReusedIDValue => XMLValid_ReusedIDValue
  | IDNotDeclared => XMLValid_IDNotDeclared
  | BadEntityRefAttr => XMLValid_BadEntityRefAttr
  | UnknownEntityRefAttr => XMLValid_UnknownEntityRefAttr
  | DoesNotMatchEnumList => XMLValid_DoesNotMatchEnumList
  | AttrValNotName => XMLValid_AttrValNotName
  | NoMultipleValues => XMLValid_NoMultipleValues
  | NotSameAsFixedValue => XMLValid_NotSameAsFixedValue
  | ModelGaveUp => 0%N
  end.
