(** C07 -- the grammar of content specs, XML 1.0 productions [46]-[51], as relations between a token list and the
    content model it denotes (nothing of the C++ here; the token type is shared with the scanner model).

      [47] children ::= (choice | seq) ('?' | '*' | '+')?
      [48] cp       ::= (Name | choice | seq) ('?' | '*' | '+')?
      [49] choice   ::= '(' S? cp ( S? '|' S? cp )+ S? ')'
      [50] seq      ::= '(' S? cp ( S? ',' S? cp )* S? ')'
      [51] Mixed    ::= '(' S? '#PCDATA' (S? '|' S? Name)* S? ')*' | '(' S? '#PCDATA' S? ')'

    A group (c1 sep c2 sep ... cn) denotes the right-nested binary tree sep(c1, sep(c2, ... cn)); parentheses around
    a single cp denote that cp.  The index [d] of the relations is the nesting depth of groups counted the way the
    limit of the scanner counts it: a group that is the FIRST item of its parent is free, any other nested group
    costs one. *)
From Coq Require Import List Bool Arith.
From XV Require Import C07.Spec07 C07.Model07s.
Import ListNotations.

Definition ws (l : list tk) : Prop := Forall (fun t => t = KSp) l.

Inductive rep : Type := RNone | RQ | RStar | RPlus.
Definition rep_toks (r : rep) : list tk :=
  match r with RNone => [] | RQ => [KQ] | RStar => [KStar] | RPlus => [KPlus] end.
Definition app_rep (r : rep) (c : cm) : cm :=
  match r with RNone => c | RQ => Opt c | RStar => Star c | RPlus => Plus c end.

Inductive grpR : nat -> list tk -> cm -> Prop :=            (* choice | seq, without the repetition suffix *)
| grp_intro : forall d ty w1 ts c tl cs,
    ws w1 -> firstR d ts c -> tailR d ty tl cs ->
    grpR d (KOpen :: w1 ++ ts ++ tl ++ [KClose]) (nest ty (c :: cs))
with firstR : nat -> list tk -> cm -> Prop :=               (* the first cp of a group *)
| first_leaf : forall d a r, firstR d (KName a :: rep_toks r) (app_rep r (Leaf a))
| first_grp : forall d g c r, grpR d g c -> firstR d (g ++ rep_toks r) (app_rep r c)
with tailR : nat -> gty -> list tk -> list cm -> Prop :=    (* ( S? sep S? cp )* S? *)
| tail_end : forall d ty w, ws w -> tailR d ty w []
| tail_leaf : forall d ty w1 w2 a r tl cs,
    ws w1 -> ws w2 -> tailR d ty tl cs ->
    tailR d ty (w1 ++ sep ty :: w2 ++ KName a :: rep_toks r ++ tl) (app_rep r (Leaf a) :: cs)
| tail_grp : forall d ty w1 w2 g c r tl cs,
    ws w1 -> ws w2 -> grpR d g c -> tailR (S d) ty tl cs ->
    tailR (S d) ty (w1 ++ sep ty :: w2 ++ g ++ rep_toks r ++ tl) (app_rep r c :: cs).

Scheme grpR_mind := Induction for grpR Sort Prop
  with firstR_mind := Induction for firstR Sort Prop
  with tailR_mind := Induction for tailR Sort Prop.
Combined Scheme cs_mutind from grpR_mind, firstR_mind, tailR_mind.

(* [47] with what may follow in the element declaration: S? '>' *)
Inductive childrenR : nat -> list tk -> cm -> Prop :=
| children_intro : forall d g c r w, grpR d g c -> ws w -> childrenR d (g ++ rep_toks r ++ w) (app_rep r c).

(* [51] *)
Inductive mtailR : list tk -> list name -> Prop :=
| mt_end : forall w, ws w -> mtailR (w ++ [KClose]) []
| mt_more : forall w1 w2 a tl ns, ws w1 -> ws w2 -> mtailR tl ns -> mtailR (w1 ++ KPipe :: w2 ++ KName a :: tl) (a :: ns).

Inductive mixedR : list tk -> list name -> Prop :=
| mixed_star : forall w0 tl ns w, ws w0 -> mtailR tl ns -> ws w -> mixedR (KOpen :: w0 ++ KPcdata :: tl ++ KStar :: w) ns
| mixed_plain : forall w0 tl w, ws w0 -> mtailR tl [] -> ws w -> mixedR (KOpen :: w0 ++ KPcdata :: tl ++ w) [].

