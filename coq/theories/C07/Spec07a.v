(** C07 -- specification of the attribute validity constraints of XML 1.0 section 3.3 (nothing of the C++ here).

    An attribute value (after normalisation, which is C03's subject) is a list of space-separated tokens; a
    token is abstracted to its lexical class and an identifier:
      TName k  : matches Name            (rendered t<k>)
      TNmtok k : matches Nmtoken, not Name (rendered <k>t -- starts with a digit)
      TBad k   : not even an Nmtoken     (rendered t#<k>)
    [] is the empty string.  A document here is the list of instances of ONE element type with its ATTLIST.

    VC Attribute Value Type / Required Attribute / Fixed Attribute Default / ID / IDREF / Entity Name /
    Name Token / Notation Attributes / Enumeration, applied to the *effective* attributes (specified ones plus
    the defaults of unspecified ones, VC Attribute Default Value Syntactically Correct). *)
From Coq Require Import List Bool Arith.
From XV Require Import C07.Spec07.
Import ListNotations.

Inductive tok : Type := TName (k : nat) | TNmtok (k : nat) | TBad (k : nat).
Definition value := list tok.

Inductive atype : Type :=
| ACData | AId | AIdRef | AIdRefs | AEntity | AEntities | ANmtoken | ANmtokens
| ANotation (l : list tok) | AEnum (l : list tok).

Inductive adefault : Type := DRequired | DImplied | DFixed (v : value) | DDefault (v : value).

Record attdef : Type := mkAD { ad_name : nat; ad_type : atype; ad_def : adefault }.

(* declared general entities: names of unparsed ones (with NDATA) and of parsed ones *)
Record env : Type := mkEnv { unparsed : list nat; parsed : list nat }.

Definition attr : Type := (nat * value)%type.     (* attribute name, value as written *)
Definition elem : Type := list attr.
Definition adoc : Type := list elem.

Definition tok_eqb (x y : tok) : bool :=
  match x, y with
  | TName a, TName b | TNmtok a, TNmtok b | TBad a, TBad b => Nat.eqb a b
  | _, _ => false
  end.

Fixpoint value_eqb (x y : value) : bool :=
  match x, y with
  | [], [] => true
  | a :: x', b :: y' => tok_eqb a b && value_eqb x' y'
  | _, _ => false
  end.

Definition tmem (t : tok) (l : list tok) : bool := existsb (tok_eqb t) l.

Definition is_name (t : tok) : bool := match t with TName _ => true | _ => false end.
Definition is_nmtoken (t : tok) : bool := match t with TBad _ => false | _ => true end.
Definition is_unparsed (e : env) (t : tok) : bool := match t with TName k => memb k (unparsed e) | _ => false end.

Definition nonempty (v : value) : bool := match v with [] => false | _ => true end.

(** the lexical / enumeration / entity part of "the value is valid for the declared type" *)
Definition value_ok (e : env) (ty : atype) (v : value) : bool :=
  match ty with
  | ACData => true
  | AId | AIdRef => match v with [t] => is_name t | _ => false end
  | AIdRefs => nonempty v && forallb is_name v
  | AEntity => match v with [t] => is_unparsed e t | _ => false end
  | AEntities => nonempty v && forallb (is_unparsed e) v
  | ANmtoken => match v with [t] => is_nmtoken t | _ => false end
  | ANmtokens => nonempty v && forallb is_nmtoken v
  | ANotation l => match v with [t] => is_name t && tmem t l | _ => false end
  | AEnum l => match v with [t] => is_nmtoken t && tmem t l | _ => false end
  end.

Definition fixed_ok (d : attdef) (v : value) : bool :=
  match ad_def d with DFixed dv => value_eqb v dv | _ => true end.

Fixpoint find_def (n : nat) (defs : list attdef) : option attdef :=
  match defs with
  | [] => None
  | d :: r => if Nat.eqb (ad_name d) n then Some d else find_def n r
  end.

Definition provided (n : nat) (el : elem) : bool := existsb (fun a => Nat.eqb (fst a) n) el.

(** the effective attributes of an element instance: each specified attribute with its declaration (None if
    undeclared), then the default of every unspecified attribute that has one *)
Definition defaulted (defs : list attdef) (el : elem) : list (option attdef * value) :=
  flat_map (fun d => if provided (ad_name d) el then []
                     else match ad_def d with DFixed v | DDefault v => [(Some d, v)] | _ => [] end) defs.

Definition effective (defs : list attdef) (el : elem) : list (option attdef * value) :=
  map (fun a => (find_def (fst a) defs, snd a)) el ++ defaulted defs el.

Definition eff_ok (e : env) (x : option attdef * value) : bool :=
  match x with
  | (None, _) => false                                      (* VC Attribute Value Type: must be declared *)
  | (Some d, v) => value_ok e (ad_type d) v && fixed_ok d v
  end.

Definition required_ok (defs : list attdef) (el : elem) : bool :=
  forallb (fun d => match ad_def d with DRequired => provided (ad_name d) el | _ => true end) defs.

Definition id_toks (x : option attdef * value) : list tok :=
  match x with (Some d, v) => match ad_type d with AId => v | _ => [] end | _ => [] end.

Definition ref_toks (x : option attdef * value) : list tok :=
  match x with (Some d, v) => match ad_type d with AIdRef | AIdRefs => v | _ => [] end | _ => [] end.

Definition all_effective (defs : list attdef) (doc : adoc) : list (option attdef * value) :=
  flat_map (effective defs) doc.

(** the document satisfies the attribute validity constraints *)
Definition attrs_valid (e : env) (defs : list attdef) (doc : adoc) : Prop :=
  Forall (fun el => required_ok defs el = true) doc /\
  Forall (fun x => eff_ok e x = true) (all_effective defs doc) /\
  NoDup (flat_map id_toks (all_effective defs doc)) /\                                   (* VC ID *)
  (forall t, In t (flat_map ref_toks (all_effective defs doc)) ->
             In t (flat_map id_toks (all_effective defs doc))).                          (* VC IDREF *)

(* executable form, used as the oracle *)
Fixpoint tnodup (l : list tok) : bool :=
  match l with [] => true | x :: r => negb (tmem x r) && tnodup r end.

Definition attrs_validb (e : env) (defs : list attdef) (doc : adoc) : bool :=
  forallb (required_ok defs) doc &&
  forallb (eff_ok e) (all_effective defs doc) &&
  tnodup (flat_map id_toks (all_effective defs doc)) &&
  forallb (fun t => tmem t (flat_map id_toks (all_effective defs doc)))
          (flat_map ref_toks (all_effective defs doc)).

(** ---- several element types ------------------------------------------------------------------------
    a document is a list of (element type, attributes); [dm ty] is the ATTLIST of type [ty].  IDs are unique
    over the whole document and IDREFs resolve against all of them, whatever the element types. *)
Definition tdoc : Type := list (nat * elem).

Fixpoint lookup_defs (l : list (nat * list attdef)) (ty : nat) : list attdef :=
  match l with
  | [] => []
  | (k, d) :: r => if Nat.eqb k ty then d else lookup_defs r ty
  end.

Definition all_effective_t (dm : nat -> list attdef) (doc : tdoc) : list (option attdef * value) :=
  flat_map (fun x => effective (dm (fst x)) (snd x)) doc.

Definition attrs_valid_t (e : env) (dm : nat -> list attdef) (doc : tdoc) : Prop :=
  Forall (fun x => required_ok (dm (fst x)) (snd x) = true) doc /\
  Forall (fun x => eff_ok e x = true) (all_effective_t dm doc) /\
  NoDup (flat_map id_toks (all_effective_t dm doc)) /\
  (forall t, In t (flat_map ref_toks (all_effective_t dm doc)) ->
             In t (flat_map id_toks (all_effective_t dm doc))).

Definition attrs_validb_t (e : env) (dm : nat -> list attdef) (doc : tdoc) : bool :=
  forallb (fun x => required_ok (dm (fst x)) (snd x)) doc &&
  forallb (eff_ok e) (all_effective_t dm doc) &&
  tnodup (flat_map id_toks (all_effective_t dm doc)) &&
  forallb (fun t => tmem t (flat_map id_toks (all_effective_t dm doc)))
          (flat_map ref_toks (all_effective_t dm doc)).

(** ---- the declarations of a DTD and its separate name spaces (XML 1.0 section 4.2) -----------------
    General entities, parameter entities, notations and element types are four name spaces; within one kind the
    FIRST declaration of a name is binding.  [env_of_decls] is the entity environment the attribute constraints
    see: a name is an unparsed (parsed) general entity iff its first GENERAL-entity declaration says so, whatever
    parameter entities, notations or element types carry the same name and wherever they stand. *)
Inductive dkind : Type := KUnparsed | KParsed | KParam | KNotation | KElement.
Definition decl : Type := (dkind * nat)%type.

Definition is_general (k : dkind) : bool := match k with KUnparsed | KParsed => true | _ => false end.

Fixpoint first_general (n : nat) (ds : list decl) : option dkind :=
  match ds with
  | [] => None
  | (k, m) :: r => if is_general k && Nat.eqb m n then Some k else first_general n r
  end.

Definition gnames (ds : list decl) : list nat := map snd (filter (fun d => is_general (fst d)) ds).

Definition env_of_decls (ds : list decl) : env :=
  mkEnv (filter (fun n => match first_general n ds with Some KUnparsed => true | _ => false end) (gnames ds))
        (filter (fun n => match first_general n ds with Some KParsed => true | _ => false end) (gnames ds)).
