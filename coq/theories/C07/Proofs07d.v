(** C07 -- buildSyntaxTree as modelled ([build], accumulating into the follow list) computes nullable / firstpos /
    lastpos / followpos of Proofs07c (as sets). *)
From Coq Require Import List Bool Arith Lia.
From XV Require Import C07.Spec07 C07.Model07 C07.Proofs07a C07.Proofs07c.
Import ListNotations.

Lemma punion_in : forall a b x, In x (punion a b) <-> In x a \/ In x b.
Proof.
  induction a as [|y a IHa]; intros b x.
  - cbn [punion In]. tauto.
  - induction b as [|z b IHb].
    + cbn [punion In]. tauto.
    + cbn [punion]. cbn [punion] in IHb.
      destruct (Nat.ltb_spec y z) as [H1|H1].
      * cbn [In]. rewrite IHa. cbn [In]. tauto.
      * destruct (Nat.ltb_spec z y) as [H2|H2].
        -- cbn [In]. rewrite IHb. cbn [In]. tauto.
        -- assert (y = z) by lia. subst z. cbn [In]. rewrite IHa. tauto.
Qed.

Lemma fl_add_length : forall fl i ls fs, length (fl_add fl i ls fs) = length fl.
Proof. induction fl as [|s fl IH]; intros; cbn [fl_add length]; [reflexivity|]. rewrite IH. reflexivity. Qed.

Lemma fl_add_nth : forall fl i ls fs p q,
  In q (nth p (fl_add fl i ls fs) []) <-> In q (nth p fl []) \/ (p < length fl /\ In (i + p) ls /\ In q fs).
Proof.
  induction fl as [|s fl IH]; intros i ls fs p q; cbn [fl_add length].
  - destruct p; cbn [nth In]; split; try tauto; intros [[]|[H _]]; lia.
  - destruct p as [|p]; cbn [nth].
    + rewrite Nat.add_0_r. destruct (memp i ls) eqn:E.
      * rewrite punion_in. apply memp_in in E. split; [intros [H|H]; auto|].
        -- right. split; [lia|]. auto.
        -- intros [H|(_ & _ & H)]; auto.
      * split; [auto|]. intros [H|(_ & H & _)]; [exact H|]. apply memp_in in H. congruence.
    + rewrite IH. replace (S i + p) with (i + S p) by lia. split; intros [H|(H1 & H2)]; auto; right; split; auto; lia.
Qed.

Lemma folp_seq_in : forall r s i p q,
  (inr (Seq r s) i p /\ In q (folp (Seq r s) i p)) <->
  (inr r i p /\ In q (folp r i p)) \/ (inr s (i + size r) p /\ In q (folp s (i + size r) p)) \/
  (In p (lastp r i) /\ In q (firstp s (i + size r))).
Proof.
  intros r s i p q. unfold inr. rewrite size_seq. cbn [folp].
  destruct (Nat.ltb_spec p (i + size r)) as [Hl|Hl].
  - rewrite in_app_iff. split.
    + intros (Hp & [H|H]); [left; split; [lia|exact H]|].
      destruct (memp p (lastp r i)) eqn:E; [|destruct H]. apply memp_in in E. right; right. auto.
    + intros [(Hp & H)|[(Hp & H)|(H1 & H2)]]; [split; [lia|left; exact H]|lia|].
      pose proof (last_range _ _ _ H1) as Hr. unfold inr in Hr. split; [lia|]. right.
      apply memp_in in H1. rewrite H1. exact H2.
  - split.
    + intros (Hp & H). right; left. split; [lia|exact H].
    + intros [(Hp & H)|[(Hp & H)|(H1 & H2)]]; [lia|split; [lia|exact H]|].
      apply last_range in H1. unfold inr in H1. lia.
Qed.

Lemma folp_choice_in : forall r s i p q,
  (inr (Choice r s) i p /\ In q (folp (Choice r s) i p)) <->
  (inr r i p /\ In q (folp r i p)) \/ (inr s (i + size r) p /\ In q (folp s (i + size r) p)).
Proof.
  intros r s i p q. unfold inr. rewrite size_choice. cbn [folp].
  destruct (Nat.ltb_spec p (i + size r)) as [Hl|Hl].
  - split; [intros (Hp & H); left; split; [lia|exact H]|]. intros [(Hp & H)|(Hp & H)]; [split; [lia|exact H]|lia].
  - split; [intros (Hp & H); right; split; [lia|exact H]|]. intros [(Hp & H)|(Hp & H)]; [lia|split; [lia|exact H]].
Qed.

Lemma folp_iter_in : forall r i p q,
  (inr r i p /\ In q (folp r i p ++ (if memp p (lastp r i) then firstp r i else []))) <->
  (inr r i p /\ In q (folp r i p)) \/ (In p (lastp r i) /\ In q (firstp r i)).
Proof.
  intros r i p q. rewrite in_app_iff. split.
  - intros (Hp & [H|H]); [left; auto|]. destruct (memp p (lastp r i)) eqn:E; [|destruct H].
    apply memp_in in E. right. auto.
  - intros [(Hp & H)|(H1 & H2)]; [auto|]. split; [apply last_range; exact H1|]. right.
    apply memp_in in H1. rewrite H1. exact H2.
Qed.

Definition build_ok (c : cm) (idx : nat) (fl : list pset) (info : ninfo) (i' : nat) (fl' : list pset) : Prop :=
  i' = idx + size c /\ n_null info = nullable c /\
  (forall p, In p (n_first info) <-> In p (firstp c idx)) /\
  (forall p, In p (n_last info) <-> In p (lastp c idx)) /\
  length fl' = length fl /\
  (forall p q, In q (nth p fl' []) <-> In q (nth p fl []) \/ (inr c idx p /\ In q (folp c idx p))).

Lemma build_spec : forall c idx fl info i' fl',
  build c idx fl = (info, i', fl') -> idx + size c <= length fl -> build_ok c idx fl info i' fl'.
Proof.
  unfold build_ok.
  induction c as [a|r IHr s IHs|r IHr s IHs|r IHr|r IHr|r IHr]; intros idx fl info i' fl' H Hlen; cbn [build] in H.
  - injection H as H1 H2 H3. subst. cbn [n_null n_first n_last nullable firstp lastp folp]. rewrite size_leaf.
    repeat split; try tauto; try lia. intros [H|[_ []]]; exact H.
  - destruct (build r idx fl) as [[nr i1] fl1] eqn:E1. destruct (build s i1 fl1) as [[ns i2] fl2] eqn:E2.
    injection H as H1 H2 H3. subst info i' fl'. rewrite size_seq in *.
    destruct (IHr _ _ _ _ _ E1) as (Hi1 & Hn1 & Hf1 & Hl1 & Hlen1 & Hfl1); [lia|]. subst i1.
    destruct (IHs _ _ _ _ _ E2) as (Hi2 & Hn2 & Hf2 & Hl2 & Hlen2 & Hfl2); [lia|].
    cbn [n_null n_first n_last nullable firstp lastp].
    split; [lia|]. split; [rewrite Hn1, Hn2; reflexivity|]. split; [|split; [|split]].
    + intros p. rewrite Hn1. destruct (nullable r).
      * rewrite punion_in, in_app_iff, Hf1, Hf2. tauto.
      * rewrite in_app_iff, Hf1. cbn [In]. tauto.
    + intros p. rewrite Hn2. destruct (nullable s).
      * rewrite punion_in, in_app_iff, Hl1, Hl2. tauto.
      * rewrite in_app_iff, Hl2. cbn [In]. tauto.
    + rewrite fl_add_length. lia.
    + intros p q. rewrite fl_add_nth, Hfl2, Hfl1, folp_seq_in. cbn [Nat.add]. rewrite Hl1, Hf2. split.
      * intros [[[H|H]|H]|(H1 & H2 & H3)]; tauto.
      * intros [H|[H|[H|(H2 & H3)]]]; try tauto. right. split; [|tauto].
        apply last_range in H2. unfold inr in H2. lia.
  - destruct (build r idx fl) as [[nr i1] fl1] eqn:E1. destruct (build s i1 fl1) as [[ns i2] fl2] eqn:E2.
    injection H as H1 H2 H3. subst info i' fl'. rewrite size_choice in *.
    destruct (IHr _ _ _ _ _ E1) as (Hi1 & Hn1 & Hf1 & Hl1 & Hlen1 & Hfl1); [lia|]. subst i1.
    destruct (IHs _ _ _ _ _ E2) as (Hi2 & Hn2 & Hf2 & Hl2 & Hlen2 & Hfl2); [lia|].
    cbn [n_null n_first n_last nullable firstp lastp].
    split; [lia|]. split; [rewrite Hn1, Hn2; reflexivity|]. split; [|split; [|split]].
    + intros p. rewrite punion_in, in_app_iff, Hf1, Hf2. tauto.
    + intros p. rewrite punion_in, in_app_iff, Hl1, Hl2. tauto.
    + lia.
    + intros p q. rewrite Hfl2, Hfl1, folp_choice_in. tauto.
  - destruct (build r idx fl) as [[nr i1] fl1] eqn:E1. injection H as H1 H2 H3. subst info i' fl'.
    rewrite size_opt in *. destruct (IHr _ _ _ _ _ E1) as (Hi1 & Hn1 & Hf1 & Hl1 & Hlen1 & Hfl1); [lia|].
    cbn [n_null n_first n_last nullable firstp lastp folp]. unfold inr. rewrite size_opt.
    repeat split; auto; try apply Hf1; try apply Hl1; apply Hfl1.
  - destruct (build r idx fl) as [[nr i1] fl1] eqn:E1. injection H as H1 H2 H3. subst info i' fl'.
    rewrite size_star in *. destruct (IHr _ _ _ _ _ E1) as (Hi1 & Hn1 & Hf1 & Hl1 & Hlen1 & Hfl1); [lia|].
    cbn [n_null n_first n_last nullable firstp lastp folp].
    split; [exact Hi1|]. split; [reflexivity|]. split; [exact Hf1|]. split; [exact Hl1|].
    split; [rewrite fl_add_length; exact Hlen1|].
    intros p q. rewrite fl_add_nth, Hfl1. cbn [Nat.add]. rewrite Hl1, Hf1.
    change (inr (Star r) idx p) with (inr r idx p). rewrite folp_iter_in. split.
    + intros [[H|H]|(H1 & H2 & H3)]; tauto.
    + intros [H|[H|(H2 & H3)]]; try tauto. right. split; [|tauto]. apply last_range in H2. unfold inr in H2. lia.
  - destruct (build r idx fl) as [[nr i1] fl1] eqn:E1. injection H as H1 H2 H3. subst info i' fl'.
    rewrite size_plus in *. destruct (IHr _ _ _ _ _ E1) as (Hi1 & Hn1 & Hf1 & Hl1 & Hlen1 & Hfl1); [lia|].
    cbn [n_null n_first n_last nullable firstp lastp folp].
    split; [exact Hi1|]. split; [exact Hn1|]. split; [exact Hf1|]. split; [exact Hl1|].
    split; [rewrite fl_add_length; exact Hlen1|].
    intros p q. rewrite fl_add_nth, Hfl1. cbn [Nat.add]. rewrite Hl1, Hf1.
    change (inr (Plus r) idx p) with (inr r idx p). rewrite folp_iter_in. split.
    + intros [[H|H]|(H1 & H2 & H3)]; tauto.
    + intros [H|[H|(H2 & H3)]]; try tauto. right. split; [|tauto]. apply last_range in H2. unfold inr in H2. lia.
Qed.

Lemma nth_repeat_nil : forall n p, nth p (repeat (@nil nat) n) [] = [].
Proof. induction n; destruct p; cbn [repeat nth]; auto. Qed.

Lemma build_top : forall c, exists info fl1,
  build c 0 (repeat [] (S (size c))) = (info, size c, fl1) /\
  build_ok c 0 (repeat [] (S (size c))) info (size c) fl1.
Proof.
  intros c. destruct (build c 0 (repeat [] (S (size c)))) as [[info i'] fl1] eqn:E.
  pose proof (build_spec c 0 _ _ _ _ E) as H. rewrite repeat_length in H.
  assert (Hok : build_ok c 0 (repeat [] (S (size c))) info i' fl1) by (apply H; lia).
  assert (i' = size c) by (destruct Hok as (Hi & _); lia). subst i'.
  exists info, fl1. auto.
Qed.

(** the follow list the DFA is built from: followpos inside c, plus EOC (= size c) after every last position *)
Lemma follow_of_spec : forall c p q,
  In q (nth p (follow_of c) []) <-> (inr c 0 p /\ In q (folp c 0 p)) \/ (In p (lastp c 0) /\ q = size c).
Proof.
  intros c p q. destruct (build_top c) as (info & fl1 & E & Hi & Hn & Hf & Hl & Hlen & Hfl).
  unfold follow_of. fold (size c). rewrite E. rewrite fl_add_nth, Hfl, nth_repeat_nil, Hl. cbn [Nat.add In].
  rewrite Hlen, repeat_length. split.
  - intros [[[]|H]|(H1 & H2 & [H3|[]])]; auto.
  - intros [H|(H1 & H2)]; auto. right. split; [|auto]. apply last_range in H1. unfold inr in H1. lia.
Qed.

Lemma start_of_spec : forall c p,
  In p (start_of c) <-> In p (firstp c 0) \/ (nullable c = true /\ p = size c).
Proof.
  intros c p. destruct (build_top c) as (info & fl1 & E & Hi & Hn & Hf & Hl & Hlen & Hfl).
  unfold start_of. fold (size c). rewrite E, Hn. destruct (nullable c).
  - rewrite punion_in, Hf. cbn [In]. split; intros [H|H]; auto.
    + destruct H as [H|[]]. auto.
    + destruct H as [_ H]. auto.
  - rewrite Hf. split; [auto|]. intros [H|[H _]]; [exact H|discriminate].
Qed.
