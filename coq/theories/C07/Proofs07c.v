(** C07 -- the position (Glushkov / followpos) automaton of a content model, as pure functions, and its
    language: first / last / follow positions characterise L.
    [K c i p w]: w is a word that may follow once position p of c (numbered from i) has been matched. *)
From Coq Require Import List Bool Arith Lia.
From XV Require Import C07.Spec07 C07.Model07 C07.Proofs07a.
Import ListNotations.

Definition size (c : cm) : nat := length (leaves c).

Lemma size_leaf : forall a, size (Leaf a) = 1. Proof. reflexivity. Qed.
Lemma size_seq : forall r s, size (Seq r s) = size r + size s.
Proof. intros. unfold size. cbn [leaves]. apply app_length. Qed.
Lemma size_choice : forall r s, size (Choice r s) = size r + size s.
Proof. intros. unfold size. cbn [leaves]. apply app_length. Qed.
Lemma size_opt : forall r, size (Opt r) = size r. Proof. reflexivity. Qed.
Lemma size_star : forall r, size (Star r) = size r. Proof. reflexivity. Qed.
Lemma size_plus : forall r, size (Plus r) = size r. Proof. reflexivity. Qed.

(** label of position p when the leaves of c are numbered from i *)
Definition lab (c : cm) (i p : nat) : option name :=
  if Nat.leb i p then nth_error (leaves c) (p - i) else None.

Definition inr (c : cm) (i p : nat) : Prop := i <= p < i + size c.

Lemma lab_inr : forall c i p a, lab c i p = Some a -> inr c i p.
Proof.
  unfold lab, inr, size. intros c i p a H. destruct (Nat.leb_spec i p) as [Hl|Hl]; [|discriminate].
  assert (p - i < length (leaves c)) by (apply nth_error_Some; congruence). lia.
Qed.

Lemma lab_leaf : forall a i p b, lab (Leaf a) i p = Some b <-> p = i /\ b = a.
Proof.
  intros a i p b. unfold lab. cbn [leaves]. destruct (Nat.leb_spec i p) as [Hl|Hl].
  - destruct (p - i) as [|k] eqn:E.
    + cbn. split; [intros H; injection H as H; split; [lia|auto]|intros [_ H]; subst; reflexivity].
    + cbn. destruct k; cbn; split; try discriminate; intros [H _]; lia.
  - split; [discriminate|]. intros [H _]. lia.
Qed.

Lemma lab_bin_l : forall r s i p, p < i + size r -> nth_error (leaves r ++ leaves s) (p - i) = nth_error (leaves r) (p - i) \/ p < i.
Proof. intros r s i p H. unfold size in H. destruct (Nat.lt_ge_cases p i); [right; assumption|left]. apply nth_error_app1. lia. Qed.

Lemma lab_seq_l : forall r s i p, p < i + size r -> lab (Seq r s) i p = lab r i p.
Proof.
  intros r s i p H. unfold lab. cbn [leaves]. destruct (Nat.leb_spec i p) as [Hl|Hl]; [|reflexivity].
  apply nth_error_app1. unfold size in H. lia.
Qed.

Lemma lab_seq_r : forall r s i p, i + size r <= p -> lab (Seq r s) i p = lab s (i + size r) p.
Proof.
  intros r s i p H. unfold lab. cbn [leaves]. unfold size in *.
  destruct (Nat.leb_spec i p) as [Hl|Hl]; [|lia].
  destruct (Nat.leb_spec (i + length (leaves r)) p) as [Hl2|Hl2]; [|lia].
  rewrite nth_error_app2 by lia. f_equal. lia.
Qed.

Lemma lab_choice_l : forall r s i p, p < i + size r -> lab (Choice r s) i p = lab r i p.
Proof. intros r s i p H. exact (lab_seq_l r s i p H). Qed.
Lemma lab_choice_r : forall r s i p, i + size r <= p -> lab (Choice r s) i p = lab s (i + size r) p.
Proof. intros r s i p H. exact (lab_seq_r r s i p H). Qed.

Fixpoint firstp (c : cm) (i : nat) : list nat :=
  match c with
  | Leaf _ => [i]
  | Seq r s => firstp r i ++ (if nullable r then firstp s (i + size r) else [])
  | Choice r s => firstp r i ++ firstp s (i + size r)
  | Opt r | Star r | Plus r => firstp r i
  end.

Fixpoint lastp (c : cm) (i : nat) : list nat :=
  match c with
  | Leaf _ => [i]
  | Seq r s => lastp s (i + size r) ++ (if nullable s then lastp r i else [])
  | Choice r s => lastp r i ++ lastp s (i + size r)
  | Opt r | Star r | Plus r => lastp r i
  end.

Fixpoint folp (c : cm) (i p : nat) : list nat :=
  match c with
  | Leaf _ => []
  | Seq r s =>
      if Nat.ltb p (i + size r)
      then folp r i p ++ (if memp p (lastp r i) then firstp s (i + size r) else [])
      else folp s (i + size r) p
  | Choice r s => if Nat.ltb p (i + size r) then folp r i p else folp s (i + size r) p
  | Opt r => folp r i p
  | Star r | Plus r => folp r i p ++ (if memp p (lastp r i) then firstp r i else [])
  end.

Fixpoint K (c : cm) (i p : nat) (w : list name) : Prop :=
  match c with
  | Leaf _ => p = i /\ w = []
  | Seq r s =>
      if Nat.ltb p (i + size r)
      then exists u v, w = u ++ v /\ K r i p u /\ L s v
      else K s (i + size r) p w
  | Choice r s => if Nat.ltb p (i + size r) then K r i p w else K s (i + size r) p w
  | Opt r => K r i p w
  | Star r | Plus r => exists u v, w = u ++ v /\ K r i p u /\ star (L r) v
  end.

Lemma memp_in : forall x s, memp x s = true <-> In x s.
Proof.
  intros x. induction s as [|y s IH]; cbn [memp In]; [split; [discriminate|tauto]|].
  rewrite orb_true_iff, IH, Nat.eqb_eq. split; intros [H|H]; auto.
Qed.

Lemma first_range : forall c i p, In p (firstp c i) -> inr c i p.
Proof.
  unfold inr. induction c as [a|r IHr s IHs|r IHr s IHs|r IHr|r IHr|r IHr]; intros i p H; cbn [firstp] in H.
  - destruct H as [H|[]]. subst. rewrite size_leaf. lia.
  - rewrite size_seq. apply in_app_or in H. destruct H as [H|H].
    + apply IHr in H. lia.
    + destruct (nullable r); [|destruct H]. apply IHs in H. lia.
  - rewrite size_choice. apply in_app_or in H. destruct H as [H|H]; [apply IHr in H|apply IHs in H]; lia.
  - rewrite size_opt. auto.
  - rewrite size_star. auto.
  - rewrite size_plus. auto.
Qed.

Lemma last_range : forall c i p, In p (lastp c i) -> inr c i p.
Proof.
  unfold inr. induction c as [a|r IHr s IHs|r IHr s IHs|r IHr|r IHr|r IHr]; intros i p H; cbn [lastp] in H.
  - destruct H as [H|[]]. subst. rewrite size_leaf. lia.
  - rewrite size_seq. apply in_app_or in H. destruct H as [H|H].
    + apply IHs in H. lia.
    + destruct (nullable s); [|destruct H]. apply IHr in H. lia.
  - rewrite size_choice. apply in_app_or in H. destruct H as [H|H]; [apply IHr in H|apply IHs in H]; lia.
  - rewrite size_opt. auto.
  - rewrite size_star. auto.
  - rewrite size_plus. auto.
Qed.

Lemma fol_range : forall c i p q, inr c i p -> In q (folp c i p) -> inr c i q.
Proof.
  unfold inr. induction c as [a|r IHr s IHs|r IHr s IHs|r IHr|r IHr|r IHr]; intros i p q Hp H; cbn [folp] in H.
  - destruct H.
  - rewrite size_seq in *. destruct (Nat.ltb_spec p (i + size r)) as [Hl|Hl].
    + apply in_app_or in H. destruct H as [H|H].
      * apply IHr in H; lia.
      * destruct (memp p (lastp r i)); [|destruct H]. apply first_range in H. unfold inr in H. lia.
    + apply IHs in H; lia.
  - rewrite size_choice in *. destruct (Nat.ltb_spec p (i + size r)) as [Hl|Hl].
    + apply IHr in H; lia.
    + apply IHs in H; lia.
  - rewrite size_opt in *. eauto.
  - rewrite size_star in *. apply in_app_or in H. destruct H as [H|H]; [eauto|].
    destruct (memp p (lastp r i)); [|destruct H]. apply first_range in H. exact H.
  - rewrite size_plus in *. apply in_app_or in H. destruct H as [H|H]; [eauto|].
    destruct (memp p (lastp r i)); [|destruct H]. apply first_range in H. exact H.
Qed.

(** I1: a non-empty word of L c starts at a first position and continues with K *)
Lemma first_K : forall c i a w,
  L c (a :: w) <-> exists p, In p (firstp c i) /\ lab c i p = Some a /\ K c i p w.
Proof.
  induction c as [b|r IHr s IHs|r IHr s IHs|r IHr|r IHr|r IHr]; intros i a w.
  - cbn [L firstp K]. split.
    + intros H. injection H as H1 H2. subst. exists i. split; [left; reflexivity|]. split; [apply lab_leaf; auto|auto].
    + intros (p & [Hp|[]] & Hl & Hk1 & Hk2). subst. apply lab_leaf in Hl. destruct Hl as [_ Hl]. subst. reflexivity.
  - cbn [L firstp]. split.
    + intros (u & v & E & Hu & Hv). destruct u as [|x u].
      * cbn in E. subst v. apply nullable_correct in Hu. rewrite Hu.
        apply (IHs (i + size r)) in Hv. destruct Hv as (p & Hp & Hl & Hk).
        pose proof (first_range _ _ _ Hp) as Hr. unfold inr in Hr.
        exists p. split; [apply in_or_app; right; exact Hp|]. split.
        -- rewrite lab_seq_r by lia. exact Hl.
        -- cbn [K]. destruct (Nat.ltb_spec p (i + size r)); [lia|exact Hk].
      * cbn in E. injection E as E1 E2. subst x w.
        apply (IHr i) in Hu. destruct Hu as (p & Hp & Hl & Hk).
        pose proof (first_range _ _ _ Hp) as Hr. unfold inr in Hr.
        exists p. split; [apply in_or_app; left; exact Hp|]. split.
        -- rewrite lab_seq_l by lia. exact Hl.
        -- cbn [K]. destruct (Nat.ltb_spec p (i + size r)); [|lia]. exists u, v. auto.
    + intros (p & Hp & Hl & Hk). apply in_app_or in Hp. destruct Hp as [Hp|Hp].
      * pose proof (first_range _ _ _ Hp) as Hr. unfold inr in Hr.
        rewrite lab_seq_l in Hl by lia. cbn [K] in Hk. destruct (Nat.ltb_spec p (i + size r)); [|lia].
        destruct Hk as (u & v & E & Hk & Hv). subst w.
        exists (a :: u), v. split; [reflexivity|]. split; [|exact Hv].
        apply (IHr i). exists p. auto.
      * destruct (nullable r) eqn:En; [|destruct Hp].
        pose proof (first_range _ _ _ Hp) as Hr. unfold inr in Hr.
        rewrite lab_seq_r in Hl by lia. cbn [K] in Hk. destruct (Nat.ltb_spec p (i + size r)); [lia|].
        exists [], (a :: w). split; [reflexivity|]. split; [apply nullable_correct; exact En|].
        apply (IHs (i + size r)). exists p. auto.
  - cbn [L firstp]. split.
    + intros [H|H].
      * apply (IHr i) in H. destruct H as (p & Hp & Hl & Hk).
        pose proof (first_range _ _ _ Hp) as Hr. unfold inr in Hr.
        exists p. split; [apply in_or_app; left; exact Hp|]. split.
        -- rewrite lab_choice_l by lia. exact Hl.
        -- cbn [K]. destruct (Nat.ltb_spec p (i + size r)); [exact Hk|lia].
      * apply (IHs (i + size r)) in H. destruct H as (p & Hp & Hl & Hk).
        pose proof (first_range _ _ _ Hp) as Hr. unfold inr in Hr.
        exists p. split; [apply in_or_app; right; exact Hp|]. split.
        -- rewrite lab_choice_r by lia. exact Hl.
        -- cbn [K]. destruct (Nat.ltb_spec p (i + size r)); [lia|exact Hk].
    + intros (p & Hp & Hl & Hk). apply in_app_or in Hp. destruct Hp as [Hp|Hp].
      * pose proof (first_range _ _ _ Hp) as Hr. unfold inr in Hr.
        rewrite lab_choice_l in Hl by lia. cbn [K] in Hk. destruct (Nat.ltb_spec p (i + size r)); [|lia].
        left. apply (IHr i). exists p. auto.
      * pose proof (first_range _ _ _ Hp) as Hr. unfold inr in Hr.
        rewrite lab_choice_r in Hl by lia. cbn [K] in Hk. destruct (Nat.ltb_spec p (i + size r)); [lia|].
        right. apply (IHs (i + size r)). exists p. auto.
  - cbn [L firstp K]. change (lab (Opt r) i) with (lab r i). rewrite <- IHr. split.
    + intros [H|H]; [discriminate|exact H].
    + auto.
  - cbn [L firstp K]. change (lab (Star r) i) with (lab r i). rewrite star_headin. split.
    + intros (x & y & E & Hx & Hy). apply (IHr i) in Hx. destruct Hx as (p & Hp & Hl & Hk).
      exists p. split; [exact Hp|]. split; [exact Hl|]. exists x, y. auto.
    + intros (p & Hp & Hl & x & y & E & Hk & Hy). exists x, y. split; [exact E|]. split; [|exact Hy].
      apply (IHr i). exists p. auto.
  - change (lab (Plus r) i) with (lab r i). rewrite plus_headin. cbn [firstp K]. split.
    + intros (x & y & E & Hx & Hy). apply (IHr i) in Hx. destruct Hx as (p & Hp & Hl & Hk).
      exists p. split; [exact Hp|]. split; [exact Hl|]. exists x, y. auto.
    + intros (p & Hp & Hl & x & y & E & Hk & Hy). exists x, y. split; [exact E|]. split; [|exact Hy].
      apply (IHr i). exists p. auto.
Qed.

(** I3: the continuation of p contains the empty word iff p is a last position *)
Lemma last_K : forall c i p, inr c i p -> (K c i p [] <-> In p (lastp c i)).
Proof.
  unfold inr. induction c as [b|r IHr s IHs|r IHr s IHs|r IHr|r IHr|r IHr]; intros i p Hp.
  - cbn [K lastp In]. split; [intros [H _]; left; auto|intros [H|[]]; auto].
  - rewrite size_seq in Hp. cbn [K lastp]. destruct (Nat.ltb_spec p (i + size r)) as [Hl|Hl].
    + split.
      * intros (u & v & E & Hk & Hv). apply app_nil_inv in E. destruct E; subst.
        apply in_or_app. right. apply nullable_correct in Hv. rewrite Hv. apply IHr; [lia|exact Hk].
      * intros H. apply in_app_or in H. destruct H as [H|H].
        -- apply last_range in H. unfold inr in H. lia.
        -- destruct (nullable s) eqn:En; [|destruct H]. exists [], []. split; [reflexivity|].
           split; [apply IHr; [lia|exact H]|apply nullable_correct; exact En].
    + rewrite IHs by lia. split.
      * intros H. apply in_or_app. left. exact H.
      * intros H. apply in_app_or in H. destruct H as [H|H]; [exact H|].
        destruct (nullable s); [|destruct H]. apply last_range in H. unfold inr in H. lia.
  - rewrite size_choice in Hp. cbn [K lastp]. destruct (Nat.ltb_spec p (i + size r)) as [Hl|Hl].
    + rewrite IHr by lia. split.
      * intros H. apply in_or_app. left. exact H.
      * intros H. apply in_app_or in H. destruct H as [H|H]; [exact H|].
        apply last_range in H. unfold inr in H. lia.
    + rewrite IHs by lia. split.
      * intros H. apply in_or_app. right. exact H.
      * intros H. apply in_app_or in H. destruct H as [H|H]; [|exact H].
        apply last_range in H. unfold inr in H. lia.
  - cbn [K lastp]. apply IHr. exact Hp.
  - cbn [K lastp]. rewrite <- (IHr i p Hp). split.
    + intros (u & v & E & Hk & Hv). apply app_nil_inv in E. destruct E; subst. exact Hk.
    + intros H. exists [], []. split; [reflexivity|]. split; [exact H|constructor].
  - cbn [K lastp]. rewrite <- (IHr i p Hp). split.
    + intros (u & v & E & Hk & Hv). apply app_nil_inv in E. destruct E; subst. exact Hk.
    + intros H. exists [], []. split; [reflexivity|]. split; [exact H|constructor].
Qed.

(** the iteration case of I2, shared by Star and Plus *)
Lemma follow_K_iter : forall r i p b w,
  inr r i p ->
  (forall b w, K r i p (b :: w) <-> exists q, In q (folp r i p) /\ lab r i q = Some b /\ K r i q w) ->
  ((exists u v, b :: w = u ++ v /\ K r i p u /\ star (L r) v) <->
   exists q, In q (folp r i p ++ (if memp p (lastp r i) then firstp r i else [])) /\ lab r i q = Some b /\
             exists u v, w = u ++ v /\ K r i q u /\ star (L r) v).
Proof.
  intros r i p b w Hp IH. split.
  - intros (u & v & E & Hk & Hv). destruct u as [|x u].
    + cbn in E. subst v. apply star_headin in Hv. destruct Hv as (x & y & E & Hx & Hy).
      apply (first_K r i) in Hx. destruct Hx as (q & Hq & Hl & Hkq).
      exists q. split.
      * apply in_or_app. right. apply (last_K r i p Hp) in Hk. apply memp_in in Hk. rewrite Hk. exact Hq.
      * split; [exact Hl|]. exists x, y. auto.
    + cbn in E. injection E as E1 E2. subst x w. apply IH in Hk. destruct Hk as (q & Hq & Hl & Hkq).
      exists q. split; [apply in_or_app; left; exact Hq|]. split; [exact Hl|]. exists u, v. auto.
  - intros (q & Hq & Hl & u & v & E & Hkq & Hv). apply in_app_or in Hq. destruct Hq as [Hq|Hq].
    + exists (b :: u), v. subst w. split; [reflexivity|]. split; [|exact Hv]. apply IH. exists q. auto.
    + destruct (memp p (lastp r i)) eqn:Em; [|destruct Hq]. apply memp_in in Em.
      exists [], (b :: w). split; [reflexivity|]. split; [apply (last_K r i p Hp); exact Em|].
      subst w. apply star_headin. exists u, v. split; [reflexivity|]. split; [|exact Hv].
      apply (first_K r i). exists q. auto.
Qed.

(** I2: the continuation of p, by its first letter *)
Lemma follow_K : forall c i p b w, inr c i p ->
  (K c i p (b :: w) <-> exists q, In q (folp c i p) /\ lab c i q = Some b /\ K c i q w).
Proof.
  unfold inr. induction c as [a|r IHr s IHs|r IHr s IHs|r IHr|r IHr|r IHr]; intros i p b w Hp.
  - cbn [K folp]. split; [intros [_ H]; discriminate|intros (q & [] & _)].
  - rewrite size_seq in Hp. cbn [K folp]. destruct (Nat.ltb_spec p (i + size r)) as [Hl|Hl].
    + split.
      * intros (u & v & E & Hk & Hv). destruct u as [|x u].
        -- cbn in E. subst v. apply (first_K s (i + size r)) in Hv. destruct Hv as (q & Hq & Hlq & Hkq).
           pose proof (first_range _ _ _ Hq) as Hr. unfold inr in Hr.
           exists q. split.
           ++ apply in_or_app. right. apply (last_K r i p) in Hk; [|unfold inr; lia].
              apply memp_in in Hk. rewrite Hk. exact Hq.
           ++ split; [rewrite lab_seq_r by lia; exact Hlq|].
              cbn [K]. destruct (Nat.ltb_spec q (i + size r)); [lia|exact Hkq].
        -- cbn in E. injection E as E1 E2. subst x w. apply IHr in Hk; [|lia].
           destruct Hk as (q & Hq & Hlq & Hkq).
           assert (Hr : inr r i q) by (apply (fol_range r i p q); [unfold inr; lia|exact Hq]). unfold inr in Hr.
           exists q. split; [apply in_or_app; left; exact Hq|]. split; [rewrite lab_seq_l by lia; exact Hlq|].
           cbn [K]. destruct (Nat.ltb_spec q (i + size r)); [|lia]. exists u, v. auto.
      * intros (q & Hq & Hlq & Hkq). apply in_app_or in Hq. destruct Hq as [Hq|Hq].
        -- assert (Hr : inr r i q) by (apply (fol_range r i p q); [unfold inr; lia|exact Hq]). unfold inr in Hr.
           rewrite lab_seq_l in Hlq by lia. cbn [K] in Hkq. destruct (Nat.ltb_spec q (i + size r)); [|lia].
           destruct Hkq as (u & v & E & Hkq & Hv). subst w.
           exists (b :: u), v. split; [reflexivity|]. split; [|exact Hv]. apply IHr; [lia|]. exists q. auto.
        -- destruct (memp p (lastp r i)) eqn:Em; [|destruct Hq]. apply memp_in in Em.
           pose proof (first_range _ _ _ Hq) as Hr. unfold inr in Hr.
           rewrite lab_seq_r in Hlq by lia. cbn [K] in Hkq. destruct (Nat.ltb_spec q (i + size r)); [lia|].
           exists [], (b :: w). split; [reflexivity|]. split; [apply last_K; [unfold inr; lia|exact Em]|].
           apply (first_K s (i + size r)). exists q. auto.
    + rewrite IHs by lia. split.
      * intros (q & Hq & Hlq & Hkq).
        assert (Hr : inr s (i + size r) q) by (apply (fol_range s _ p q); [unfold inr; lia|exact Hq]). unfold inr in Hr.
        exists q. split; [exact Hq|]. split; [rewrite lab_seq_r by lia; exact Hlq|].
        cbn [K]. destruct (Nat.ltb_spec q (i + size r)); [lia|exact Hkq].
      * intros (q & Hq & Hlq & Hkq).
        assert (Hr : inr s (i + size r) q) by (apply (fol_range s _ p q); [unfold inr; lia|exact Hq]). unfold inr in Hr.
        rewrite lab_seq_r in Hlq by lia. cbn [K] in Hkq. destruct (Nat.ltb_spec q (i + size r)); [lia|].
        exists q. auto.
  - rewrite size_choice in Hp. cbn [K folp]. destruct (Nat.ltb_spec p (i + size r)) as [Hl|Hl].
    + rewrite IHr by lia. split.
      * intros (q & Hq & Hlq & Hkq).
        assert (Hr : inr r i q) by (apply (fol_range r i p q); [unfold inr; lia|exact Hq]). unfold inr in Hr.
        exists q. split; [exact Hq|]. split; [rewrite lab_choice_l by lia; exact Hlq|].
        cbn [K]. destruct (Nat.ltb_spec q (i + size r)); [exact Hkq|lia].
      * intros (q & Hq & Hlq & Hkq).
        assert (Hr : inr r i q) by (apply (fol_range r i p q); [unfold inr; lia|exact Hq]). unfold inr in Hr.
        rewrite lab_choice_l in Hlq by lia. cbn [K] in Hkq. destruct (Nat.ltb_spec q (i + size r)); [|lia].
        exists q. auto.
    + rewrite IHs by lia. split.
      * intros (q & Hq & Hlq & Hkq).
        assert (Hr : inr s (i + size r) q) by (apply (fol_range s _ p q); [unfold inr; lia|exact Hq]). unfold inr in Hr.
        exists q. split; [exact Hq|]. split; [rewrite lab_choice_r by lia; exact Hlq|].
        cbn [K]. destruct (Nat.ltb_spec q (i + size r)); [lia|exact Hkq].
      * intros (q & Hq & Hlq & Hkq).
        assert (Hr : inr s (i + size r) q) by (apply (fol_range s _ p q); [unfold inr; lia|exact Hq]). unfold inr in Hr.
        rewrite lab_choice_r in Hlq by lia. cbn [K] in Hkq. destruct (Nat.ltb_spec q (i + size r)); [lia|].
        exists q. auto.
  - cbn [K folp]. change (lab (Opt r) i) with (lab r i). apply IHr. exact Hp.
  - cbn [K folp]. change (lab (Star r) i) with (lab r i). rewrite size_star in Hp.
    apply follow_K_iter; [exact Hp|]. intros b0 w0. apply IHr. exact Hp.
  - cbn [K folp]. change (lab (Plus r) i) with (lab r i). rewrite size_plus in Hp.
    apply follow_K_iter; [exact Hp|]. intros b0 w0. apply IHr. exact Hp.
Qed.
