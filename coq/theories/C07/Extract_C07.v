(** Extraction of the executable C07 models and of the specification oracle to OCaml (ExtrOcamlBasic only;
    nat/N stay the extracted inductive types).  The path is relative to the directory coqc runs in (coq/). *)
From Coq Require Import Extraction ExtrOcamlBasic.
From XV Require Import C07.Spec07 C07.Model07 C07.Spec07a C07.Model07a C07.Model07s.
Extraction Language OCaml.
Extraction "../ocaml/C07/gen_c07.ml"
  dmatch mmatch elem_validb doc_validb dstate knullable
  createChildModel simple_validate mixed_validate buildDFA dfa_validate check_content
  makeContentModel validate_obj elem_check_obj elem_check decl_check verr_code follow_of start_of
  attrs_validb attr_errors attrs_validb_t attr_errors_t lookup_defs env_of_decls delivered validate_attr_value check_idrefs scan_element_decl.
