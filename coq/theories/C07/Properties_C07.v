(** C07 -- the theorems the check counts.  Only statements + [exact lemma]; proofs live in Proofs07*.v. *)
From Coq Require Import List Bool Arith NArith Permutation.
From XV Require Import Gen.GenValid07 C07.Spec07 C07.Model07 C07.Proofs07a C07.Proofs07b C07.Proofs07e C07.Proofs07f C07.Spec07a C07.Model07a C07.Proofs07g C07.Model07s C07.Spec07s C07.Proofs07s.
Import ListNotations.

(** the reference oracle decides the regular language of a content model *)
Theorem T07_oracle : forall c w, dmatch c w = true <-> L c w.
Proof. exact dmatch_correct. Qed.
Print Assumptions T07_oracle.

Theorem T07_oracle_doc : forall decl m w, doc_validb decl m w = true <-> doc_valid decl m w.
Proof. exact doc_validb_correct. Qed.
Print Assumptions T07_oracle_doc.

(** SimpleContentModel accepts exactly the language of the expression it was chosen for *)
Theorem T07_simple : forall c op a b, createChildModel c = UseSimple op a b ->
  forall w, simple_validate op a b w = VOk <-> L c w.
Proof. exact simple_correct. Qed.
Print Assumptions T07_simple.

Example T07_simple_nonvacuous : createChildModel (Seq (Leaf 0) (Leaf 1)) = UseSimple OpSeq 0 (Some 1).
Proof. reflexivity. Qed.

(** MixedContentModel (unordered) accepts exactly the sequences over the listed names *)
Theorem T07_mixed : forall ns w, mixed_validate (mixed_children ns) w 0 = VOk <-> Lm (MMixed ns) w.
Proof. intros ns w. exact (mixed_correct ns w 0). Qed.
Print Assumptions T07_mixed.

(** createChildModel never hands SimpleContentModel a shape it does not implement, and the DFA gets the whole
    expression in every other case *)
Theorem T07_select : forall c op a b, createChildModel c = UseSimple op a b ->
  (op = OpSeq \/ op = OpChoice -> b <> None) /\ forall w, simple_validate op a b w <> VModelErr.
Proof. exact select_wellformed. Qed.
Print Assumptions T07_select.

Theorem T07_select_dfa : forall c c', createChildModel c = UseDFA c' -> c' = c.
Proof. exact select_dfa. Qed.
Print Assumptions T07_select_dfa.

(** THE MAIN THEOREM.  DFAContentModel (buildSyntaxTree's nullable/firstpos/lastpos/followpos with the EOC leaf,
    the element map, the worklist subset construction with its hash table, and the validateContent loop) accepts
    exactly the regular language of the content model -- for every content model, deterministic or not, and every
    child sequence.  The only hypothesis is the model's own: the worklist emptied within [fuel] created states
    (the C++ loop has no bound; the check feeds fuel = 3000 and reports a run that exhausts it). *)
Theorem T07_dfa : forall fuel c w,
  d_complete (buildDFA fuel c) = true -> (dfa_validate (buildDFA fuel c) w = VOk <-> L c w).
Proof. exact dfa_correct. Qed.
Print Assumptions T07_dfa.

(* non-vacuity: a non-deterministic model, (n0|n1)*,n0,(n0|n1),(n0|n1), completes well within the fuel *)
Definition nd_example : cm :=
  Seq (Star (Choice (Leaf 0) (Leaf 1))) (Seq (Leaf 0) (Seq (Choice (Leaf 0) (Leaf 1)) (Choice (Leaf 0) (Leaf 1)))).
Example T07_dfa_nonvacuous :
  d_complete (buildDFA 64 nd_example) = true /\ length (d_trans (buildDFA 64 nd_example)) = 9 /\
  dfa_validate (buildDFA 64 nd_example) [1; 0; 0; 1; 0] = VOk /\
  dfa_validate (buildDFA 64 nd_example) [1; 0; 1] = VFail 3.
Proof. vm_compute. auto. Qed.

(** DTDValidator::checkContent as a whole (EMPTY, ANY, mixed, simple and DFA models behind createChildModel) *)
Theorem T07_content : forall fuel m w,
  check_content fuel m w <> VModelErr -> (check_content fuel m w = VOk <-> Lm m w).
Proof. exact check_content_correct. Qed.
Print Assumptions T07_content.

(** *indexFailingChild never exceeds the child count (the scanner indexes fChildren with it when smaller) *)
Theorem T07_fail_index : forall fuel m w k, check_content fuel m w = VFail k -> k <= length w.
Proof. exact check_content_idx. Qed.
Print Assumptions T07_fail_index.

(** validity errors are reported for (declaration, instance) iff a validity constraint of the content-model
    part of XML 1.0 is violated: VC Element Valid (declared children, children in the language), VC No Duplicate
    Types *)
Theorem T07_errors_iff_invalid : forall fuel decl m e w,
  check_content fuel m w <> VModelErr ->
  (decl_check m ++ elem_check fuel decl m e w = [] <-> doc_valid decl m w).
Proof. exact errors_iff_invalid. Qed.
Print Assumptions T07_errors_iff_invalid.

(** ... and every code reported is a validity *error* of XMLValid (regenerated enum): never fatal, never a warning *)
Theorem T07_codes_nonfatal : forall e, e <> ModelGaveUp ->
  XMLValid_isError (verr_code e) = true /\ XMLValid_isFatal (verr_code e) = false /\
  XMLValid_isWarning (verr_code e) = false.
Proof. exact codes_nonfatal. Qed.
Print Assumptions T07_codes_nonfatal.

(** ---- attributes (XML 1.0 section 3.3) ------------------------------------------------------------------
    [attr_errors sw]: validateAttrValue + the attribute part of scanStartTag + checkIDRefs over all instances of
    an element type; sw = false is the behaviour repaired by fixes/C07-enum-single-token.patch, sw = true the code
    as written (finding F25). *)
Theorem T07_oracle_attrs : forall e defs doc, attrs_validb e defs doc = true <-> attrs_valid e defs doc.
Proof. exact attrs_validb_correct. Qed.
Print Assumptions T07_oracle_attrs.

(** repaired code: a validity error is reported iff an attribute constraint is violated (declared, #REQUIRED,
    #FIXED, value of the declared type, unique IDs, resolved IDREF(S), declared unparsed entities, enumerations),
    defaults included *)
Theorem T07_attrs : forall e defs doc, attr_errors false e defs doc = [] <-> attrs_valid e defs doc.
Proof. exact attrs_correct. Qed.
Print Assumptions T07_attrs.

Example T07_attrs_nonvacuous :
  let defs := [mkAD 1 AId DRequired; mkAD 2 AIdRefs DImplied; mkAD 3 (AEnum [TName 1; TNmtok 2]) (DDefault [TNmtok 2])] in
  attr_errors false (mkEnv [] []) defs [[(2, [TName 8; TName 7]); (1, [TName 7])]; [(1, [TName 8]); (3, [TName 1])]] = [] /\
  attr_errors false (mkEnv [] []) defs [[(2, [TName 9]); (1, [TName 7])]; [(1, [TName 7])]] = [ReusedIDValue; IDNotDeclared].
Proof. vm_compute. auto. Qed.

(** code as written: the same, outside the class of F25 (some NOTATION / enumeration value with several tokens) *)
Theorem T07_attrs_as_written_guarded : forall e defs doc, no_multi_enum defs doc = true ->
  (attr_errors true e defs doc = [] <-> attrs_valid e defs doc).
Proof. exact attrs_faithful_guarded. Qed.
Print Assumptions T07_attrs_as_written_guarded.

(** ... and inside that class the code as written misses a violated constraint:  <!ATTLIST e a1 (t1|t2) #IMPLIED>
    with a1="t1 t2" is reported valid (VC Enumeration) *)
Theorem T07_attrs_as_written_refuted :
  attr_errors true (mkEnv [] []) f25_defs f25_doc = [] /\ ~ attrs_valid (mkEnv [] []) f25_defs f25_doc.
Proof. exact enum_multi_refuted. Qed.
Print Assumptions T07_attrs_as_written_refuted.

(** ID uniqueness and IDREF resolution do not depend on the order in which the elements occur (forward
    references are resolved at the end of the document) *)
Theorem T07_ids : forall e defs doc doc', Permutation doc doc' ->
  (attr_errors false e defs doc = [] <-> attr_errors false e defs doc' = []).
Proof. exact ids_order_independent. Qed.
Print Assumptions T07_ids.

(** the attributes delivered (specified + defaulted) are the same function of declaration and instance with
    validation on and off; the implementation side of this is checked on every attribute case of the run *)
Theorem T07_defaults_independent : forall defs el, delivered true defs el = delivered false defs el.
Proof. exact defaults_independent. Qed.
Print Assumptions T07_defaults_independent.

(** the same for documents with several element types, each with its own ATTLIST (the ID table is shared) *)
Theorem T07_attrs_typed : forall e dm doc, attr_errors_t false e dm doc = [] <-> attrs_valid_t e dm doc.
Proof. exact attrs_t_correct. Qed.
Print Assumptions T07_attrs_typed.

Theorem T07_oracle_attrs_typed : forall e dm doc, attrs_validb_t e dm doc = true <-> attrs_valid_t e dm doc.
Proof. exact attrs_validb_t_correct. Qed.
Print Assumptions T07_oracle_attrs_typed.

Theorem T07_ids_typed : forall e dm doc doc', Permutation doc doc' ->
  (attr_errors_t false e dm doc = [] <-> attr_errors_t false e dm doc' = []).
Proof. exact ids_order_independent_t. Qed.
Print Assumptions T07_ids_typed.

(** ---- the name spaces of a DTD: general entities, parameter entities, notations and element types do not see
    each other, and the first declaration within a kind is binding *)
Theorem T07_decl_kinds_separate : forall a k m b, is_general k = false ->
  env_of_decls (a ++ (k, m) :: b) = env_of_decls (a ++ b).
Proof. exact decl_kinds_separate. Qed.
Print Assumptions T07_decl_kinds_separate.

Theorem T07_decl_first_wins : forall n a b k0, first_general n a = Some k0 -> first_general n (a ++ b) = Some k0.
Proof. exact first_general_wins. Qed.
Print Assumptions T07_decl_first_wins.

Theorem T07_decl_env : forall ds n,
  (memb n (unparsed (env_of_decls ds)) = true <-> first_general n ds = Some KUnparsed) /\
  (memb n (parsed (env_of_decls ds)) = true <-> first_general n ds = Some KParsed).
Proof. intros ds n. split; [apply env_unparsed_iff|apply env_parsed_iff]. Qed.
Print Assumptions T07_decl_env.

Theorem T07_attrs_ignore_other_kinds : forall sw a k m b dm doc, is_general k = false ->
  attr_errors_t sw (env_of_decls (a ++ (k, m) :: b)) dm doc = attr_errors_t sw (env_of_decls (a ++ b)) dm doc.
Proof. exact attrs_ignore_other_kinds. Qed.
Print Assumptions T07_attrs_ignore_other_kinds.

Example T07_decl_kinds_nonvacuous :
  let ds := [(KParam, 50); (KUnparsed, 50); (KParsed, 50); (KNotation, 50); (KParsed, 60); (KParam, 60)] in
  memb 50 (unparsed (env_of_decls ds)) = true /\ memb 50 (parsed (env_of_decls ds)) = false /\
  memb 60 (parsed (env_of_decls ds)) = true /\ memb 60 (unparsed (env_of_decls ds)) = false.
Proof. vm_compute. auto. Qed.

(** ---- the declaration side: DTDScanner::scanContentSpec / scanChildren / scanMixed -------------------------
    every token text of the XML grammar [47]-[50] (white space at every place the grammar allows it), whose groups
    nest at most [lim - 1] deep the way CONTENTSPEC_DEPTH_LIMIT counts, is accepted and yields exactly the tree the
    text denotes -- so T07_dfa / T07_content / T07_errors_iff_invalid start at the declaration TEXT.
    _partial: the converse (a text outside the grammar is rejected with a fatal error) is not proved; the error
    paths are covered by the correspondence (model = implementation on mutated texts, first fatal code compared). *)
Theorem T07_parse_contentspec_partial : forall lim d ts c, childrenR d ts c -> d < lim ->
  scan_element_decl lim ts = DOk (MChildren c).
Proof. exact scan_decl_children. Qed.
Print Assumptions T07_parse_contentspec_partial.

(** the recursive call itself: a group in non-first position, followed by anything that is not a repetition
    character, is consumed exactly and the rest is handed back *)
Theorem T07_parse_group : forall lim d g g' c r rest,
  grpR d g c -> d < lim -> g = KOpen :: g' -> is_rep rest = false ->
  scan_children lim (g' ++ rep_toks r ++ rest) = SOk (app_rep r c) rest.
Proof. exact scan_children_grammar. Qed.
Print Assumptions T07_parse_group.

(** Mixed [51]: the listed names in order (duplicates are then reported by decl_check: T07_errors_iff_invalid) *)
Theorem T07_parse_mixed : forall lim ts ns, mixedR ts ns -> scan_element_decl lim ts = DOk (MMixed ns).
Proof. exact scan_decl_mixed. Qed.
Print Assumptions T07_parse_mixed.

(* non-vacuity: ( n0 , (n1|n2)* ,n3? )+ with white space is in the grammar at depth 1; beyond the limit the
   scanner gives the depth error; a repetition character after white space is refused *)
Example T07_parse_nonvacuous :
  scan_element_decl 2 [KOpen; KSp; KName 0; KSp; KComma; KSp; KOpen; KName 1; KPipe; KName 2; KClose; KStar; KSp;
                       KComma; KName 3; KQ; KSp; KClose; KPlus; KSp]
  = DOk (MChildren (Plus (Seq (Leaf 0) (Seq (Star (Choice (Leaf 1) (Leaf 2))) (Opt (Leaf 3)))))) /\
  scan_element_decl 1 [KOpen; KName 0; KComma; KOpen; KName 1; KPipe; KName 2; KClose; KClose] = DErr UnterminatedDOCTYPE /\
  scan_element_decl 5 [KOpen; KName 0; KSp; KStar; KClose] = DErr UnexpectedWhitespace /\
  scan_element_decl 5 [KOpen; KOpen; KOpen; KName 0; KClose; KStar; KClose; KPlus; KClose] = DOk (MChildren (Plus (Star (Leaf 0)))).
Proof. vm_compute. auto. Qed.

Example T07_parse_grammar_nonvacuous :
  childrenR 1 [KOpen; KName 0; KComma; KSp; KOpen; KName 1; KClose; KStar; KClose; KPlus]
              (Plus (Seq (Leaf 0) (Star (Leaf 1)))).
Proof.
  apply (children_intro 1 [KOpen; KName 0; KComma; KSp; KOpen; KName 1; KClose; KStar; KClose] _ RPlus []);
    [|constructor].
  apply (grp_intro 1 GSeq [] [KName 0] (Leaf 0) [KComma; KSp; KOpen; KName 1; KClose; KStar] [Star (Leaf 1)]).
  - constructor.
  - apply (first_leaf 1 0 RNone).
  - apply (tail_grp 0 GSeq [] [KSp] [KOpen; KName 1; KClose] (Leaf 1) RStar [] []).
    + constructor.
    + repeat constructor.
    + apply (grp_intro 0 GSeq [] [KName 1] (Leaf 1) [] []); [constructor|apply (first_leaf 0 1 RNone)|repeat constructor].
    + repeat constructor.
Qed.
