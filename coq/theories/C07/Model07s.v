(** C07 -- executable model of the declaration side: DTDScanner::scanContentSpec / scanChildren / scanMixed and the
    tail of scanElementDecl, following the C++.  NO proofs here.

    The text of an element declaration's content spec is a list of tokens (names are identifiers, a maximal run of
    white space is any number of [KSp] tokens; parameter-entity references are not modelled -- checkForPERef(false,
    true) is [skip_sp]).  All errors of this code are FATAL XMLErrs codes: the first one ends the parse.

    scanChildren is entered after the caller has consumed one '('.  It counts the further '(' that open the group
    (arrNestedDecl), reads the first leaf, and then closes the counted groups one after the other ([groups]); only a
    group that is NOT the first item of its parent is scanned by a recursive call with depth + 1.  The recursion
    depth is bounded by CONTENTSPEC_DEPTH_LIMIT (error UnterminatedDOCTYPE): that bound IS the structural argument
    [lim] of [scan_children] (lim = limit + 1 - depth), so the model has no fuel of its own for the recursion.  The
    while(true) item loop gets the length of the text as its iteration budget ([SFuel] if exhausted: unreachable,
    every iteration consumes a token). *)
From Coq Require Import List Bool Arith.
From XV Require Import C07.Spec07.
Import ListNotations.

Inductive tk : Type :=
| KOpen | KClose | KComma | KPipe | KQ | KStar | KPlus | KName (a : name) | KSp | KPcdata | KEmptyKw | KAnyKw.

Inductive serr : Type :=
| ExpectedContentSpecExpr | ExpectedElementName | ExpectedSeqChoiceLeaf | ExpectedChoiceOrCloseParen
| ExpectedSeqOrCloseParen | UnexpectedWhitespace | UnterminatedContentModel | NoRepInMixed | ExpectedAsterisk
| UnterminatedElementDecl | UnterminatedDOCTYPE | SFuel.

Inductive sres (A : Type) : Type := SOk (a : A) (rest : list tk) | SErr (e : serr).
Arguments SOk {A} _ _.
Arguments SErr {A} _.

Inductive gty : Type := GSeq | GChoice.

Definition sep (ty : gty) : tk := match ty with GSeq => KComma | GChoice => KPipe end.
Definition mk (ty : gty) (a b : cm) : cm := match ty with GSeq => Seq a b | GChoice => Choice a b end.

(* the chain  ty(c1, ty(c2, ... ty(c_{n-1}, c_n)))  the item loop builds (the dangling last node is folded into its
   predecessor when ')' is seen); a single item is the item itself *)
Fixpoint nest (ty : gty) (cs : list cm) : cm :=
  match cs with
  | [] => Leaf 0
  | [c] => c
  | c :: r => mk ty c (nest ty r)
  end.

Fixpoint skip_sp (ts : list tk) : list tk := match ts with KSp :: r => skip_sp r | _ => ts end.
Definition got_sp (ts : list tk) : bool := match ts with KSp :: _ => true | _ => false end.
Definition is_rep (ts : list tk) : bool := match ts with KQ :: _ | KStar :: _ | KPlus :: _ => true | _ => false end.

(* makeRepNode on the peeked character + getNextChar when a node was made *)
Definition make_rep (ts : list tk) (c : cm) : cm * list tk :=
  match ts with
  | KQ :: r => (Opt c, r)
  | KStar :: r => (Star c, r)
  | KPlus :: r => (Plus c, r)
  | _ => (c, ts)
  end.

(* checkForPERef; while (skippedChar('(')) { push; checkForPERef }  -- [n] counts the groups to close *)
Fixpoint opens (n : nat) (ts : list tk) : nat * list tk :=
  match ts with
  | KOpen :: r => opens (S n) r
  | KSp :: r => opens n r
  | _ => (n, ts)
  end.

Definition tk_is_sep (ty : gty) (t : tk) : bool :=
  match ty, t with GSeq, KComma | GChoice, KPipe => true | _, _ => false end.

Definition items_err (ty : gty) : serr :=
  match ty with GSeq => ExpectedChoiceOrCloseParen | GChoice => ExpectedSeqOrCloseParen end.

(* the inner while(true) of scanChildren; [rec] scans a nested group (recursive call, depth + 1); [acc] = the items
   so far, last first *)
Fixpoint items (rec : list tk -> sres cm) (g : nat) (ty : gty) (acc : list cm) (ts : list tk) : sres (list cm) :=
  match g with
  | O => SErr SFuel
  | S g' =>
      match ts with
      | KSp :: r => items rec g' ty acc r
      | KClose :: r => SOk (rev acc) r
      | t :: r =>
          if tk_is_sep ty t then
            match skip_sp r with
            | KOpen :: r1 =>
                match rec r1 with
                | SOk sub r2 => items rec g' ty (sub :: acc) r2
                | SErr e => SErr e
                end
            | KName a :: r1 => let '(c, r2) := make_rep r1 (Leaf a) in items rec g' ty (c :: acc) r2
            | _ => SErr ExpectedElementName
            end
          else SErr (items_err ty)
      | [] => SErr (items_err ty)
      end
  end.

(* the outer while of scanChildren: close [k] groups, [cur] being the first item of the innermost one *)
Fixpoint groups (rec : list tk -> sres cm) (g : nat) (k : nat) (cur : cm) (ts : list tk) : sres cm :=
  match k with
  | O => SOk cur ts
  | S k' =>
      let ts' := skip_sp ts in
      match ts' with
      | KClose :: r => let '(c, r2) := make_rep r cur in groups rec g k' c r2
      | KComma :: _ =>
          match items rec g GSeq [cur] ts' with
          | SOk cs r => let '(c, r2) := make_rep r (nest GSeq cs) in groups rec g k' c r2
          | SErr e => SErr e
          end
      | KPipe :: _ =>
          match items rec g GChoice [cur] ts' with
          | SOk cs r => let '(c, r2) := make_rep r (nest GChoice cs) in groups rec g k' c r2
          | SErr e => SErr e
          end
      | _ => SErr ExpectedSeqChoiceLeaf
      end
  end.

(* the first leaf of the innermost group, its repetition character, then the groups *)
Definition after_opens (rec : list tk -> sres cm) (g : nat) (n : nat) (ts : list tk) : sres cm :=
  match ts with
  | KName a :: ts2 =>
      let ts3 := skip_sp ts2 in
      if is_rep ts3 && got_sp ts2 then SErr UnexpectedWhitespace
      else let '(cur, ts4) := make_rep ts3 (Leaf a) in groups rec g n cur ts4
  | _ => SErr ExpectedElementName
  end.

Definition descend (rec : list tk -> sres cm) (g : nat) (n : nat) (ts : list tk) : sres cm :=
  let '(n', ts1) := opens n ts in after_opens rec g n' ts1.

Fixpoint scan_children (lim : nat) (ts : list tk) : sres cm :=
  match lim with
  | O => SErr UnterminatedDOCTYPE                         (* depth > CONTENTSPEC_DEPTH_LIMIT *)
  | S l => descend (scan_children l) (length ts) 1 ts
  end.

(* scanMixed, entered after "(#PCDATA"; [after_pipe]: a '|' was consumed and a name must follow *)
Fixpoint scan_mixed (names : list name) (star_required after_pipe : bool) (ts : list tk) : sres cmodel :=
  match ts with
  | KSp :: r => scan_mixed names star_required after_pipe r
  | t :: r =>
      if after_pipe then
        match t with
        | KName a => scan_mixed (names ++ [a]) true false r
        | _ => SErr ExpectedElementName
        end
      else
        match t with
        | KStar => SErr NoRepInMixed
        | KPipe => scan_mixed names true true r
        | KClose =>
            match r with
            | KStar :: r' => SOk (MMixed names) r'
            | _ => if star_required then SErr ExpectedAsterisk else SOk (MMixed names) r
            end
        | _ => SErr UnterminatedContentModel
        end
  | [] => SErr (if after_pipe then ExpectedElementName else UnterminatedContentModel)
  end.

Definition scan_contentspec (lim : nat) (ts : list tk) : sres cmodel :=
  match ts with
  | KEmptyKw :: r => SOk MEmpty r
  | KAnyKw :: r => SOk MAny r
  | KOpen :: r =>
      match skip_sp r with
      | KPcdata :: r1 => scan_mixed [] false false r1
      | _ => match scan_children lim r with        (* its own checkForPERef skips the same white space *)
             | SOk c r2 => SOk (MChildren c) r2
             | SErr e => SErr e
             end
      end
  | _ => SErr ExpectedContentSpecExpr
  end.

(* scanElementDecl after the name: the content spec, optional white space, '>' (= the end of the token list) *)
Inductive dres : Type := DOk (m : cmodel) | DErr (e : serr).

Definition scan_element_decl (lim : nat) (ts : list tk) : dres :=
  match scan_contentspec lim ts with
  | SOk m r => match skip_sp r with [] => DOk m | _ => DErr UnterminatedElementDecl end
  | SErr e => DErr e
  end.
