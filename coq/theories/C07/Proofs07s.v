(** C07 -- DTDScanner::scanChildren / scanMixed / scanContentSpec accept every text of the XML grammar [46]-[51]
    and build the tree the text denotes (within the depth limit). *)
From Coq Require Import List Bool Arith Lia.
From XV Require Import C07.Spec07 C07.Model07s C07.Spec07s.
Import ListNotations.

Lemma skip_ws : forall w r, ws w -> skip_sp (w ++ r) = skip_sp r.
Proof. induction w; intros r H; [reflexivity|]. inversion H; subst. simpl. apply IHw; assumption. Qed.

Lemma skip_idem : forall r, skip_sp (skip_sp r) = skip_sp r.
Proof. induction r as [|t r IH]; [reflexivity|]. destruct t; try reflexivity. simpl. exact IH. Qed.

Lemma skip_len : forall r, length (skip_sp r) <= length r.
Proof. induction r as [|t r IH]; [simpl; lia|]. destruct t; simpl; try lia. Qed.

Lemma opens_ws : forall w n r, ws w -> opens n (w ++ r) = opens n r.
Proof. induction w; intros n r H; [reflexivity|]. inversion H; subst. simpl. apply IHw; assumption. Qed.

Lemma descend_ws : forall rec g n w r, ws w -> descend rec g n (w ++ r) = descend rec g n r.
Proof. intros. unfold descend. rewrite opens_ws by assumption. reflexivity. Qed.

Lemma descend_open : forall rec g n r, descend rec g n (KOpen :: r) = descend rec g (S n) r.
Proof. reflexivity. Qed.

Lemma is_rep_skip : forall r, is_rep (skip_sp r) = false -> is_rep r = false.
Proof. intros r H. destruct r as [|t r]; [reflexivity|]. destruct t; try reflexivity; simpl in H; discriminate. Qed.

Lemma make_rep_toks : forall r rest c, is_rep rest = false -> make_rep (rep_toks r ++ rest) c = (app_rep r c, rest).
Proof.
  intros r rest c H. destruct r; simpl; try reflexivity.
  destruct rest as [|t rest]; [reflexivity|]. destruct t; try reflexivity; simpl in H; discriminate.
Qed.

Lemma groups_skip : forall rec g k c r, groups rec g (S k) c (skip_sp r) = groups rec g (S k) c r.
Proof. intros. simpl. rewrite skip_idem. reflexivity. Qed.

(* what follows a cp inside a group: S? then a separator or ')' -- never a repetition character *)
Lemma tail_follow : forall d ty tl cs, tailR d ty tl cs -> forall x, is_rep (skip_sp (tl ++ KClose :: x)) = false.
Proof.
  intros d ty tl cs H x. destruct H.
  - rewrite skip_ws by assumption. reflexivity.
  - rewrite <- app_assoc. rewrite skip_ws by assumption. destruct ty; reflexivity.
  - rewrite <- app_assoc. rewrite skip_ws by assumption. destruct ty; reflexivity.
Qed.

Lemma items_ws : forall rec w g ty acc r, ws w ->
  items rec (length w + g) ty acc (w ++ r) = items rec g ty acc r.
Proof. induction w; intros g ty acc r H; [reflexivity|]. inversion H; subst. simpl. apply IHw; assumption. Qed.

Lemma items_ws_le : forall rec w g ty acc r, ws w -> length w <= g ->
  items rec g ty acc (w ++ r) = items rec (g - length w) ty acc r.
Proof.
  intros. replace g with (length w + (g - length w)) at 1 by lia. apply items_ws. assumption.
Qed.

Lemma sep_is_sep : forall ty, tk_is_sep ty (sep ty) = true.
Proof. destruct ty; reflexivity. Qed.

Lemma items_sep : forall rec g ty acc r,
  items rec (S g) ty acc (sep ty :: r) =
  match skip_sp r with
  | KOpen :: r1 => match rec r1 with SOk sub r2 => items rec g ty (sub :: acc) r2 | SErr e => SErr e end
  | KName a :: r1 => let '(c, r2) := make_rep r1 (Leaf a) in items rec g ty (c :: acc) r2
  | _ => SErr ExpectedElementName
  end.
Proof. intros. destruct ty; reflexivity. Qed.

(* fuel of the item loop: more is as good (only needed as: the loop result does not depend on the budget once it
   succeeded) *)
Lemma items_mono : forall rec g ty acc ts cs r, items rec g ty acc ts = SOk cs r ->
  forall g', g <= g' -> items rec g' ty acc ts = SOk cs r.
Proof.
  induction g; intros ty acc ts cs r H g' Hle; [discriminate|].
  destruct g' as [|g']; [lia|]. assert (Hg : g <= g') by lia.
  destruct ts as [|t ts]; [simpl in H; discriminate|].
  destruct t; simpl in H |- *; try discriminate; try (destruct ty; simpl in H |- *; try discriminate);
    try (eapply IHg; eassumption); try exact H;
    try (destruct (skip_sp ts) as [|u us]; [discriminate|]; destruct u; try discriminate;
         [destruct (rec us) as [sub r2|e]; [eapply IHg; eassumption|discriminate]
         |destruct (make_rep us (Leaf a)) as [c r2]; eapply IHg; eassumption]).
Qed.


(* the three statements proved together by induction on the derivation *)
Definition P_grp (l : nat) (d : nat) (g : list tk) (c : cm) : Prop :=
  d <= l -> forall g', g = KOpen :: g' -> forall G N r rest,
    is_rep rest = false -> length (g' ++ rep_toks r ++ rest) <= G ->
    descend (scan_children l) G (S N) (g' ++ rep_toks r ++ rest) = groups (scan_children l) G N (app_rep r c) rest.

Definition P_first (l : nat) (d : nat) (ts : list tk) (c : cm) : Prop :=
  d <= l -> forall G n rest,
    is_rep (skip_sp rest) = false -> length (ts ++ rest) <= G ->
    descend (scan_children l) G (S n) (ts ++ rest) = groups (scan_children l) G (S n) c rest.

Definition P_tail (l : nat) (d : nat) (ty : gty) (tl : list tk) (cs : list cm) : Prop :=
  d <= l -> forall G acc x, length (tl ++ KClose :: x) <= G ->
    items (scan_children l) G ty acc (tl ++ KClose :: x) = SOk (rev acc ++ cs) x.

Lemma groups_sep : forall rec g k cur w ty q, ws w ->
  groups rec g (S k) cur (w ++ sep ty :: q) =
  match items rec g ty [cur] (sep ty :: q) with
  | SOk cs r => let '(c, r2) := make_rep r (nest ty cs) in groups rec g k c r2
  | SErr e => SErr e
  end.
Proof. intros. cbn [groups]. rewrite skip_ws by assumption. destruct ty; reflexivity. Qed.

(* closing one group: from the tail statement *)
Lemma close_group : forall l d ty tl cs, tailR d ty tl cs -> P_tail l d ty tl cs -> d <= l ->
  forall G k cur x, length (tl ++ KClose :: x) <= G ->
  groups (scan_children l) G (S k) cur (tl ++ KClose :: x) =
  let '(c2, x2) := make_rep x (nest ty (cur :: cs)) in groups (scan_children l) G k c2 x2.
Proof.
  intros l d ty tl cs H PT Hd G k cur x HG.
  pose proof (PT Hd G [cur] x HG) as HI. simpl in HI.
  destruct H.
  - (* no further item *)
    simpl. rewrite skip_ws by assumption. simpl. reflexivity.
  - rewrite <- app_assoc in *. cbn [app] in *. rewrite groups_sep by assumption.
    rewrite items_ws_le in HI by (try assumption; rewrite app_length in HG; lia).
    rewrite (items_mono _ _ _ _ _ _ _ HI G ltac:(lia)). reflexivity.
  - rewrite <- app_assoc in *. cbn [app] in *. rewrite groups_sep by assumption.
    rewrite items_ws_le in HI by (try assumption; rewrite app_length in HG; lia).
    rewrite (items_mono _ _ _ _ _ _ _ HI G ltac:(lia)). reflexivity.
Qed.

Ltac len H := repeat (rewrite app_length in H); cbn [length] in H; repeat (rewrite app_length in H); cbn [length] in H;
  repeat (rewrite app_length in H); cbn [length] in H.

Lemma scan_all : forall l,
  (forall d g c, grpR d g c -> P_grp l d g c) /\
  (forall d ts c, firstR d ts c -> P_first l d ts c) /\
  (forall d ty tl cs, tailR d ty tl cs -> P_tail l d ty tl cs).
Proof.
  induction l as [l IHl] using lt_wf_ind.
  apply cs_mutind.
  - (* grp_intro *)
    intros d ty w1 ts c tl cs Hw1 Hf IHf Ht IHt Hd g' Eg G N r rest Hrest HG.
    injection Eg as Eg. subst g'.
    repeat rewrite <- app_assoc in *. rewrite descend_ws by assumption.
    assert (HG2 : length (ts ++ tl ++ KClose :: rep_toks r ++ rest) <= G).
    { rewrite app_length in HG. simpl in HG |- *. lia. }
    simpl app in *.
    rewrite (IHf Hd G N (tl ++ KClose :: rep_toks r ++ rest)).
    + rewrite (close_group l d ty tl cs Ht IHt Hd).
      * rewrite make_rep_toks by assumption. reflexivity.
      * rewrite app_length in HG2. lia.
    + eapply tail_follow; eassumption.
    + exact HG2.
  - (* first_leaf *)
    intros d a r Hd G n rest Hrest HG.
    unfold descend. cbn [app opens after_opens].
    destruct r; cbn [rep_toks app].
    + (* no repetition character: the peeked character is the first one after optional white space *)
      rewrite Hrest. cbn [andb].
      assert (E : make_rep (skip_sp rest) (Leaf a) = (Leaf a, skip_sp rest)).
      { destruct (skip_sp rest) as [|t q]; [reflexivity|]. destruct t; try reflexivity; discriminate. }
      rewrite E. cbn [app_rep]. apply groups_skip.
    + reflexivity.
    + reflexivity.
    + reflexivity.
  - (* first_grp *)
    intros d g c r Hg IHg Hd G n rest Hrest HG.
    destruct Hg as [d ty w1 ts c tl cs Hw1 Hf Ht].
    rewrite <- app_assoc. cbn [app]. rewrite descend_open.
    rewrite <- app_assoc in HG. cbn [app] in HG.
    apply (IHg Hd _ eq_refl G (S n) r rest).
    + apply is_rep_skip. exact Hrest.
    + simpl in HG. lia.
  - (* tail_end *)
    intros d ty w Hw Hd G acc x HG.
    rewrite items_ws_le by (try assumption; rewrite app_length in HG; lia).
    rewrite app_length in HG. simpl in HG.
    destruct (G - length w) as [|g0] eqn:E; [lia|].
    simpl. rewrite app_nil_r. reflexivity.
  - (* tail_leaf *)
    intros d ty w1 w2 a r tl cs Hw1 Hw2 Ht IHt Hd G acc x HG.
    repeat rewrite <- app_assoc in *. cbn [app] in *.
    rewrite items_ws_le by (try assumption; rewrite app_length in HG; lia).
    len HG.
    destruct (G - length w1) as [|g0] eqn:E; [lia|].
    repeat rewrite <- app_assoc. cbn [app]. repeat rewrite <- app_assoc.
    rewrite items_sep. rewrite skip_ws by assumption. cbn [skip_sp].
    rewrite make_rep_toks by (apply is_rep_skip; eapply tail_follow; eassumption).
    rewrite (IHt Hd g0 (app_rep r (Leaf a) :: acc) x).
    + cbn [rev]. rewrite <- app_assoc. reflexivity.
    + rewrite app_length. cbn [length]. lia.
  - (* tail_grp *)
    intros d ty w1 w2 g c r tl cs Hw1 Hw2 Hg IHg Ht IHt Hd G acc x HG.
    repeat rewrite <- app_assoc in *. cbn [app] in *.
    rewrite items_ws_le by (try assumption; rewrite app_length in HG; lia).
    len HG.
    destruct (G - length w1) as [|g0] eqn:E; [lia|].
    repeat rewrite <- app_assoc. cbn [app]. repeat rewrite <- app_assoc.
    rewrite items_sep. rewrite skip_ws by assumption.
    destruct Hg as [d ty' w1' ts' c' tl' cs' Hw1' Hf' Ht'].
    cbn [app skip_sp].
    (* the recursive call, one level deeper: the induction hypothesis on the limit *)
    destruct l as [|l']; [lia|].
    assert (Hrec : scan_children (S l') ((w1' ++ ts' ++ tl' ++ [KClose]) ++ rep_toks r ++ tl ++ KClose :: x) =
                   SOk (app_rep r (nest ty' (c' :: cs'))) (tl ++ KClose :: x)).
    { cbn [scan_children].
      destruct (IHl l' (Nat.lt_succ_diag_r l')) as [IHG _].
      assert (Hgr : grpR d (KOpen :: w1' ++ ts' ++ tl' ++ [KClose]) (nest ty' (c' :: cs'))) by (constructor; assumption).
      rewrite (IHG _ _ _ Hgr ltac:(lia) _ eq_refl _ 0 r (tl ++ KClose :: x)).
      - reflexivity.
      - apply is_rep_skip. eapply tail_follow; eassumption.
      - lia. }
    repeat rewrite <- app_assoc in Hrec. cbn [app] in Hrec.
    repeat rewrite <- app_assoc. cbn [app].
    rewrite Hrec.
    rewrite (IHt Hd g0 (app_rep r (nest ty' (c' :: cs')) :: acc) x).
    + cbn [rev]. rewrite <- app_assoc. reflexivity.
    + rewrite app_length. cbn [length]. repeat rewrite app_length in HG. cbn [length] in HG. lia.
Qed.

(** scanChildren on a grammatical `children` text (entered after its first '(') *)
Theorem scan_children_grammar : forall lim d g g' c r rest,
  grpR d g c -> d < lim -> g = KOpen :: g' -> is_rep rest = false ->
  scan_children lim (g' ++ rep_toks r ++ rest) = SOk (app_rep r c) rest.
Proof.
  intros lim d g g' c r rest Hg Hd Eg Hrest.
  destruct lim as [|l]; [lia|]. cbn [scan_children].
  destruct (scan_all l) as [HG _].
  rewrite (HG _ _ _ Hg ltac:(lia) _ Eg _ 0 r rest Hrest (le_n _)). reflexivity.
Qed.

Lemma skip_ws_nil : forall w, ws w -> skip_sp w = [].
Proof. intros w H. rewrite <- (app_nil_r w). rewrite skip_ws by assumption. reflexivity. Qed.

Lemma ws_not_rep : forall w, ws w -> is_rep w = false.
Proof. intros w H. destruct H; [reflexivity|]. subst. reflexivity. Qed.

Lemma first_head : forall d ts c, firstR d ts c -> forall y,
  match skip_sp (ts ++ y) with KPcdata :: _ => False | _ => True end.
Proof.
  intros d ts c H y. destruct H; [exact I|]. destruct H. exact I.
Qed.

Lemma grp_not_pcdata : forall d g c, grpR d g c -> forall g', g = KOpen :: g' ->
  match skip_sp g' with KPcdata :: _ => False | _ => True end.
Proof.
  intros d g c H g' E. destruct H. injection E as E. subst g'. rewrite skip_ws by assumption.
  eapply first_head. eassumption.
Qed.

(** scanElementDecl's content-spec part on every `children` text of the grammar *)
Theorem scan_decl_children : forall lim d ts c, childrenR d ts c -> d < lim ->
  scan_element_decl lim ts = DOk (MChildren c).
Proof.
  intros lim d ts c H Hd. destruct H as [d g c r w Hg Hw].
  pose proof Hg as Hg0.
  destruct Hg as [d ty w1 ts c tl cs Hw1 Hf Ht].
  unfold scan_element_decl, scan_contentspec. cbn [app].
  pose proof (grp_not_pcdata _ _ _ Hg0 _ eq_refl) as NP.
  pose proof (scan_children_grammar lim d _ _ _ r w Hg0 Hd eq_refl (ws_not_rep w Hw)) as HS.
  assert (NP2 : match skip_sp ((w1 ++ ts ++ tl ++ [KClose]) ++ rep_toks r ++ w) with KPcdata :: _ => False | _ => True end).
  { rewrite <- app_assoc. rewrite skip_ws by assumption.
    destruct Hf as [d a r0|d g c r0 Hg]; [exact I|]. destruct Hg. exact I. }
  destruct (skip_sp ((w1 ++ ts ++ tl ++ [KClose]) ++ rep_toks r ++ w)) as [|t q] eqn:E;
    [rewrite HS; rewrite skip_ws_nil by assumption; reflexivity|].
  destruct t; try (rewrite HS; rewrite skip_ws_nil by assumption; reflexivity). exfalso. exact NP2.
Qed.

(** scanMixed *)
Lemma scan_mixed_ws : forall w names sr ap r, ws w -> scan_mixed names sr ap (w ++ r) = scan_mixed names sr ap r.
Proof. induction w; intros names sr ap r H; [reflexivity|]. inversion H; subst. simpl. apply IHw; assumption. Qed.

Lemma scan_mixed_tail : forall tl ns, mtailR tl ns -> forall names sr y,
  scan_mixed names sr false (tl ++ y) =
  match y with
  | KStar :: y' => SOk (MMixed (names ++ ns)) y'
  | _ => if sr || (match ns with [] => false | _ => true end) then SErr ExpectedAsterisk else SOk (MMixed (names ++ ns)) y
  end.
Proof.
  induction 1; intros names sr y.
  - rewrite <- app_assoc. rewrite scan_mixed_ws by assumption. cbn [app scan_mixed]. rewrite app_nil_r.
    rewrite orb_false_r. destruct y as [|t y]; [reflexivity|]. destruct t; reflexivity.
  - rewrite <- app_assoc. rewrite scan_mixed_ws by assumption. cbn [app scan_mixed].
    rewrite <- app_assoc. rewrite scan_mixed_ws by assumption. cbn [app scan_mixed].
    rewrite IHmtailR. rewrite <- app_assoc. cbn [app orb]. rewrite ?orb_true_r.
    destruct y as [|t y]; [destruct ns; reflexivity|]. destruct t; destruct ns; reflexivity.
Qed.

Theorem scan_decl_mixed : forall lim ts ns, mixedR ts ns -> scan_element_decl lim ts = DOk (MMixed ns).
Proof.
  intros lim ts ns H. destruct H as [w0 tl ns w Hw0 Ht Hw|w0 tl w Hw0 Ht Hw].
  - unfold scan_element_decl, scan_contentspec. rewrite skip_ws by assumption. cbn [skip_sp].
    rewrite (scan_mixed_tail tl ns Ht). cbn [app]. rewrite skip_ws_nil by assumption. reflexivity.
  - unfold scan_element_decl, scan_contentspec. rewrite skip_ws by assumption. cbn [skip_sp].
    rewrite (scan_mixed_tail tl [] Ht). cbn [app orb].
    destruct Hw; [reflexivity|]. subst. cbn [skip_sp]. rewrite skip_ws_nil by assumption. reflexivity.
Qed.
