(** C15 -- the settings that are derived from SEVERAL features.
    SAX2XMLReaderImpl keeps two booleans (fValidation, fAutoValidation: features "validation" and "validation/dynamic") and
    derives the scanner's ValSchemes from the pair in BOTH setFeature branches; DOMLSParserImpl keeps only the scheme and
    answers getParameter("validate") / ("validate-if-schema") from it.  Model: the setFeature / setParameter branches as
    they are in parsers/SAX2XMLReaderImpl.cpp and parsers/DOMLSParserImpl.cpp; theorems: after ANY sequence of calls the
    scheme is the function [scheme_of] of the values getFeature reports, so it depends on the final feature values only. *)
From Coq Require Import List Bool.
Import ListNotations.

Inductive scheme := Val_Never | Val_Always | Val_Auto.

(** ---- SAX2 ---- *)
Record sax2 := { fValidation : bool; fAutoValidation : bool; sch : scheme }.
Definition sax2_init : sax2 := {| fValidation := false; fAutoValidation := false; sch := Val_Never |}.
Inductive s2op := SetValidation (b : bool) | SetDynamic (b : bool) | OtherFeature.

Definition scheme_of (validation dynamic : bool) : scheme :=
  if validation then (if dynamic then Val_Auto else Val_Always) else Val_Never.

Definition s2step (s : sax2) (o : s2op) : sax2 :=
  match o with
  | SetValidation b => {| fValidation := b; fAutoValidation := fAutoValidation s;
                          sch := if b then (if fAutoValidation s then Val_Auto else Val_Always) else Val_Never |}
  | SetDynamic b => {| fValidation := fValidation s; fAutoValidation := b;
                       sch := if fValidation s then (if b then Val_Auto else Val_Always) else Val_Never |}
  | OtherFeature => s
  end.
Definition s2run (ops : list s2op) (s : sax2) : sax2 := fold_left s2step ops s.

(** getFeature(validation) = fValidation, getFeature(validation/dynamic) = fAutoValidation *)
Definition s2inv (s : sax2) : Prop := sch s = scheme_of (fValidation s) (fAutoValidation s).

Lemma s2inv_step : forall o s, s2inv s -> s2inv (s2step s o).
Proof. intros o s I. destruct o; unfold s2inv, scheme_of in *; cbn; try exact I; reflexivity. Qed.

Theorem sax2_scheme_final : forall ops, s2inv (s2run ops sax2_init).
Proof.
  intros ops. assert (G : forall l s, s2inv s -> s2inv (s2run l s)).
  { induction l as [|o l IH]; intros s I; [exact I|]. apply IH. apply s2inv_step; exact I. }
  apply G. reflexivity.
Qed.

(** two call sequences that end with the same feature values leave the same scheme *)
Theorem sax2_scheme_history_free : forall ops1 ops2,
  fValidation (s2run ops1 sax2_init) = fValidation (s2run ops2 sax2_init) ->
  fAutoValidation (s2run ops1 sax2_init) = fAutoValidation (s2run ops2 sax2_init) ->
  sch (s2run ops1 sax2_init) = sch (s2run ops2 sax2_init).
Proof. intros a b H1 H2. rewrite (sax2_scheme_final a), (sax2_scheme_final b), H1, H2. reflexivity. Qed.

(** the seeded-change class: a "dynamic" branch that leaves the scheme alone when validation is on and dynamic goes off *)
Definition s2step_bad (s : sax2) (o : s2op) : sax2 :=
  match o with
  | SetDynamic b => {| fValidation := fValidation s; fAutoValidation := b;
                       sch := if fValidation s then (if b then Val_Auto else sch s) else Val_Never |}
  | _ => s2step s o
  end.
Example sax2_bad_branch_refuted :
  let s := fold_left s2step_bad [SetValidation true; SetDynamic true; SetDynamic false] sax2_init in
  fValidation s = true /\ fAutoValidation s = false /\ sch s = Val_Auto /\ scheme_of true false = Val_Always.
Proof. cbn. repeat split. Qed.

(** ---- DOMLSParser: the scheme is the only state; the two parameters are read back from it ---- *)
Inductive lsop := SetValidate (b : bool) | SetValidateIfSchema (b : bool).
Definition lsstep (s : scheme) (o : lsop) : scheme :=
  match o with
  | SetValidate true => match s with Val_Never => Val_Always | _ => s end
  | SetValidate false => Val_Never
  | SetValidateIfSchema true => Val_Auto
  | SetValidateIfSchema false => Val_Never
  end.
Definition get_validate (s : scheme) : bool := match s with Val_Never => false | _ => true end.
Definition get_validate_if_schema (s : scheme) : bool := match s with Val_Auto => true | _ => false end.

(** the scheme is determined by what getParameter reports, whatever the call history was *)
Theorem ls_scheme_from_readback : forall ops1 ops2,
  get_validate (fold_left lsstep ops1 Val_Never) = get_validate (fold_left lsstep ops2 Val_Never) ->
  get_validate_if_schema (fold_left lsstep ops1 Val_Never) = get_validate_if_schema (fold_left lsstep ops2 Val_Never) ->
  fold_left lsstep ops1 Val_Never = fold_left lsstep ops2 Val_Never.
Proof.
  intros a b. generalize (fold_left lsstep a Val_Never) (fold_left lsstep b Val_Never).
  intros x y; destruct x, y; cbn; intros; try reflexivity; discriminate.
Qed.

(** a fresh parser given the read-back values, validate-if-schema first, reaches the same scheme *)
Theorem ls_replay_readback : forall s,
  fold_left lsstep [SetValidateIfSchema (get_validate_if_schema s); SetValidate (get_validate s)] Val_Never = s.
Proof. destruct s; reflexivity. Qed.
