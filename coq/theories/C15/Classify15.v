(** C15 -- committed classification of every data member of the scanner classes (hand-written after reading
    the code; the inventory itself is regenerated from /repo on every run: Gen/GenScannerFields.v).

    Config    user-set feature/property (or fixed at construction).  Must NOT be written by the per-parse reset.
    PerParse  observable state of one parse.  Must be reset (assigned a value that depends on configuration only,
              or the object is reset by a call) at the start of every parse.
    Cache     pools whose ids are not observable, reusable objects, generation counters.
    Infra     pointers to handlers/managers; buffers and tables that are cleared at each use; members a
              particular scanner never reads.

    [exceptions] lists the members for which the unchanged tree is known to violate the rule (each one is a
    recorded finding with a witness replayed by checks/C15.py); the theorems are stated modulo these members,
    so with an empty list they are unconditional. *)
From Coq Require Import String List.
Import ListNotations.
Local Open Scope string_scope.

Inductive mclass : Type := Config | PerParse | Cache | Infra.

(** (declaring class, member, class) *)
Definition base_class : list (string * string * mclass) := [
  (* ---- XMLScanner ---------------------------------------------------------------------------- *)
  ("XMLScanner", "fBufferSize", Config);               (* setInputBufferSize *)
  ("XMLScanner", "fLowWaterMark", Config);             (* setLowWaterMark *)
  ("XMLScanner", "fStandardUriConformant", Config);
  ("XMLScanner", "fCalculateSrcOfs", Config);
  ("XMLScanner", "fDoNamespaces", Config);
  ("XMLScanner", "fExitOnFirstFatal", Config);
  ("XMLScanner", "fValidationConstraintFatal", Config);
  ("XMLScanner", "fInException", PerParse);
  ("XMLScanner", "fStandalone", PerParse);
  ("XMLScanner", "fHasNoDTD", PerParse);
  ("XMLScanner", "fValidate", PerParse);               (* derived from fValScheme at reset, changed while parsing *)
  ("XMLScanner", "fValidatorFromUser", Config);        (* fixed at construction *)
  ("XMLScanner", "fDoSchema", Config);
  ("XMLScanner", "fSchemaFullChecking", Config);
  ("XMLScanner", "fIdentityConstraintChecking", Config);
  ("XMLScanner", "fToCacheGrammar", Config);
  ("XMLScanner", "fUseCachedGrammar", Config);
  ("XMLScanner", "fDisallowDTD", Config);
  ("XMLScanner", "fLoadExternalDTD", Config);
  ("XMLScanner", "fLoadSchema", Config);
  ("XMLScanner", "fNormalizeData", Config);
  ("XMLScanner", "fGenerateSyntheticAnnotations", Config);
  ("XMLScanner", "fValidateAnnotations", Config);
  ("XMLScanner", "fIgnoreCachedDTD", Config);
  ("XMLScanner", "fIgnoreAnnotations", Config);
  ("XMLScanner", "fDisableDefaultEntityResolution", Config);
  ("XMLScanner", "fSkipDTDValidation", Config);
  ("XMLScanner", "fHandleMultipleImports", Config);
  ("XMLScanner", "fErrorCount", PerParse);
  ("XMLScanner", "fEntityExpansionLimit", PerParse);   (* re-read from the security manager at reset *)
  ("XMLScanner", "fEntityExpansionCount", PerParse);
  ("XMLScanner", "fEmptyNamespaceId", Cache);          (* ids in fURIStringPool: never observable *)
  ("XMLScanner", "fUnknownNamespaceId", Cache);
  ("XMLScanner", "fXMLNamespaceId", Cache);
  ("XMLScanner", "fXMLNSNamespaceId", Cache);
  ("XMLScanner", "fSchemaNamespaceId", Cache);
  ("XMLScanner", "fUIntPool", PerParse);               (* values of the attribute-seen registries *)
  ("XMLScanner", "fUIntPoolRow", PerParse);
  ("XMLScanner", "fUIntPoolCol", PerParse);
  ("XMLScanner", "fUIntPoolRowTotal", Cache);          (* capacity only *)
  ("XMLScanner", "fScannerId", Cache);
  ("XMLScanner", "fSequenceId", Cache);                (* progressive-scan token generation counter *)
  ("XMLScanner", "fAttrList", Cache);                  (* reusable XMLAttr objects, count passed explicitly *)
  ("XMLScanner", "fAttrDupChkRegistry", Infra);        (* cleared at use (per start tag) *)
  ("XMLScanner", "fDocHandler", Infra);
  ("XMLScanner", "fDocTypeHandler", Infra);
  ("XMLScanner", "fEntityHandler", Infra);
  ("XMLScanner", "fErrorReporter", Infra);
  ("XMLScanner", "fErrorHandler", Infra);
  ("XMLScanner", "fPSVIHandler", Infra);
  ("XMLScanner", "fValidationContext", PerParse);      (* ID/IDREF table, entity decl pool *)
  ("XMLScanner", "fEntityDeclPoolRetrieved", PerParse);
  ("XMLScanner", "fReaderMgr", PerParse);              (* reader stack *)
  ("XMLScanner", "fValidator", PerParse);
  ("XMLScanner", "fValScheme", Config);
  ("XMLScanner", "fGrammarResolver", Infra);           (* modelled separately: Pool15.v *)
  ("XMLScanner", "fGrammarPoolMemoryManager", Infra);
  ("XMLScanner", "fGrammar", PerParse);
  ("XMLScanner", "fRootGrammar", PerParse);
  ("XMLScanner", "fURIStringPool", Cache);
  ("XMLScanner", "fRootElemName", PerParse);
  ("XMLScanner", "fExternalSchemaLocation", Config);
  ("XMLScanner", "fExternalNoNamespaceSchemaLocation", Config);
  ("XMLScanner", "fSecurityManager", Config);
  ("XMLScanner", "fXMLVersion", PerParse);             (* version of the document being parsed *)
  ("XMLScanner", "fMemoryManager", Infra);
  ("XMLScanner", "fBufMgr", Infra);
  ("XMLScanner", "fAttNameBuf", Infra);
  ("XMLScanner", "fAttValueBuf", Infra);
  ("XMLScanner", "fCDataBuf", Infra);
  ("XMLScanner", "fQNameBuf", Infra);
  ("XMLScanner", "fPrefixBuf", Infra);
  ("XMLScanner", "fURIBuf", Infra);
  ("XMLScanner", "fWSNormalizeBuf", Infra);
  ("XMLScanner", "fElemStack", PerParse);
  (* ---- IGXMLScanner --------------------------------------------------------------------------- *)
  ("IGXMLScanner", "fSeeXsi", PerParse);
  ("IGXMLScanner", "fGrammarType", PerParse);
  ("IGXMLScanner", "fElemStateSize", Infra);           (* depth-indexed, written before read *)
  ("IGXMLScanner", "fElemState", Infra);
  ("IGXMLScanner", "fElemLoopState", Infra);
  ("IGXMLScanner", "fContent", Infra);                 (* reset at each start tag *)
  ("IGXMLScanner", "fRawAttrList", Infra);
  ("IGXMLScanner", "fRawAttrColonListSize", Infra);
  ("IGXMLScanner", "fRawAttrColonList", Infra);
  ("IGXMLScanner", "fDTDValidator", PerParse);
  ("IGXMLScanner", "fSchemaValidator", PerParse);
  ("IGXMLScanner", "fDTDGrammar", PerParse);
  ("IGXMLScanner", "fICHandler", PerParse);
  ("IGXMLScanner", "fLocationPairs", Infra);           (* cleared at use (parseSchemaLocation) *)
  ("IGXMLScanner", "fDTDElemNonDeclPool", PerParse);
  ("IGXMLScanner", "fSchemaElemNonDeclPool", PerParse);   (* fault-in decls: a decl found here changes lax/xsi:type validation (F15u) *)
  ("IGXMLScanner", "fElemCount", PerParse);
  ("IGXMLScanner", "fAttDefRegistry", PerParse);
  ("IGXMLScanner", "fUndeclaredAttrRegistry", PerParse);
  ("IGXMLScanner", "fPSVIAttrList", Cache);
  ("IGXMLScanner", "fModel", Cache);
  ("IGXMLScanner", "fPSVIElement", Cache);
  ("IGXMLScanner", "fErrorStack", PerParse);
  ("IGXMLScanner", "fPSVIElemContext", PerParse);
  ("IGXMLScanner", "fSchemaInfoList", PerParse);
  ("IGXMLScanner", "fCachedSchemaInfoList", Cache);    (* follows the grammar pool (resetCachedGrammar) *)
  (* ---- WFXMLScanner --------------------------------------------------------------------------- *)
  ("WFXMLScanner", "fElementIndex", PerParse);
  ("WFXMLScanner", "fElements", Cache);
  ("WFXMLScanner", "fEntityTable", Infra);             (* the five predefined entities, filled once *)
  ("WFXMLScanner", "fAttrNameHashList", Infra);        (* cleared at use *)
  ("WFXMLScanner", "fAttrNSList", Infra);              (* cleared at use *)
  ("WFXMLScanner", "fElementLookup", PerParse);
  (* ---- DGXMLScanner --------------------------------------------------------------------------- *)
  ("DGXMLScanner", "fAttrNSList", PerParse);
  ("DGXMLScanner", "fDTDValidator", PerParse);
  ("DGXMLScanner", "fDTDGrammar", PerParse);
  ("DGXMLScanner", "fDTDElemNonDeclPool", Cache);      (* fault-in decls keyed by name; attacked by the correspondence *)
  ("DGXMLScanner", "fElemCount", Cache);               (* generation counter compared with registry values that are wiped *)
  ("DGXMLScanner", "fAttDefRegistry", PerParse);
  ("DGXMLScanner", "fUndeclaredAttrRegistry", PerParse);
  (* ---- SGXMLScanner --------------------------------------------------------------------------- *)
  ("SGXMLScanner", "fSeeXsi", PerParse);
  ("SGXMLScanner", "fGrammarType", PerParse);
  ("SGXMLScanner", "fElemStateSize", Infra);
  ("SGXMLScanner", "fElemState", Infra);
  ("SGXMLScanner", "fElemLoopState", Infra);
  ("SGXMLScanner", "fContent", Infra);
  ("SGXMLScanner", "fEntityTable", Infra);
  ("SGXMLScanner", "fRawAttrList", Infra);
  ("SGXMLScanner", "fRawAttrColonListSize", Infra);
  ("SGXMLScanner", "fRawAttrColonList", Infra);
  ("SGXMLScanner", "fSchemaGrammar", Cache);           (* dummy grammar object, created once *)
  ("SGXMLScanner", "fSchemaValidator", PerParse);
  ("SGXMLScanner", "fICHandler", PerParse);
  ("SGXMLScanner", "fElemNonDeclPool", PerParse);        (* as IG fSchemaElemNonDeclPool (F15u) *)
  ("SGXMLScanner", "fElemCount", PerParse);
  ("SGXMLScanner", "fAttDefRegistry", PerParse);
  ("SGXMLScanner", "fUndeclaredAttrRegistry", PerParse);
  ("SGXMLScanner", "fPSVIAttrList", Cache);
  ("SGXMLScanner", "fModel", Cache);
  ("SGXMLScanner", "fPSVIElement", Cache);
  ("SGXMLScanner", "fErrorStack", PerParse);
  ("SGXMLScanner", "fPSVIElemContext", PerParse);
  ("SGXMLScanner", "fSchemaInfoList", PerParse);
  ("SGXMLScanner", "fCachedSchemaInfoList", Cache);
  (* ---- ReaderMgr (ReaderMgr::reset) ------------------------------------------------------------ *)
  ("ReaderMgr", "fCurReaderData", PerParse);
  ("ReaderMgr", "fCurReader", PerParse);
  ("ReaderMgr", "fEntityHandler", Infra);
  ("ReaderMgr", "fEntityStack", Infra);                (* created on demand, emptied as readers pop *)
  ("ReaderMgr", "fNextReaderNum", Cache);              (* reader numbers are only compared for equality *)
  ("ReaderMgr", "fReaderStack", PerParse);
  ("ReaderMgr", "fThrowEOE", PerParse);
  ("ReaderMgr", "fXMLVersion", PerParse);
  ("ReaderMgr", "fStandardUriConformant", Config);
  ("ReaderMgr", "fMemoryManager", Infra);
  (* ---- ElemStack (ElemStack::reset) ------------------------------------------------------------ *)
  ("ElemStack", "fEmptyNamespaceId", PerParse);        (* handed in again at every reset *)
  ("ElemStack", "fGlobalPoolId", Cache);
  ("ElemStack", "fPrefixPool", Cache);
  ("ElemStack", "fGlobalNamespaces", PerParse);
  ("ElemStack", "fStack", Cache);                      (* reusable stack elements; contents below fStackTop only *)
  ("ElemStack", "fStackCapacity", Cache);
  ("ElemStack", "fStackTop", PerParse);
  ("ElemStack", "fUnknownNamespaceId", PerParse);
  ("ElemStack", "fXMLNamespaceId", PerParse);
  ("ElemStack", "fXMLPoolId", Cache);
  ("ElemStack", "fXMLNSNamespaceId", PerParse);
  ("ElemStack", "fXMLNSPoolId", Cache);
  ("ElemStack", "fNamespaceMap", Infra);               (* rebuilt at use (getNamespaceMap) *)
  ("ElemStack", "fMemoryManager", Infra);
  (* ---- ValidationContextImpl (clearIdRefList, setEntityDeclPool) ------------------------------- *)
  ("ValidationContextImpl", "fIdRefList", PerParse);
  ("ValidationContextImpl", "fEntityDeclPool", PerParse);
  ("ValidationContextImpl", "fToCheckIdRefList", Infra);     (* set at each use (SchemaValidator::validateAttrValue) *)
  ("ValidationContextImpl", "fValidatingMemberType", Infra); (* set at each use (union validation) *)
  ("ValidationContextImpl", "fElemStack", Infra);
  ("ValidationContextImpl", "fScanner", Infra);
  ("ValidationContextImpl", "fNamespaceScope", Infra);       (* set at use (SchemaInfo) *)
  (* ---- AbstractDOMParser (parse(const InputSource&) prologue, reset() = the resetDocument callback) ------ *)
  ("AbstractDOMParser", "fCreateEntityReferenceNodes", Config);
  ("AbstractDOMParser", "fIncludeIgnorableWhitespace", Config);
  ("AbstractDOMParser", "fWithinElement", PerParse);
  ("AbstractDOMParser", "fParseInProgress", PerParse);       (* busy flag: false whenever a parse may start (LS15.v) *)
  ("AbstractDOMParser", "fCreateCommentNodes", Config);
  ("AbstractDOMParser", "fDocumentAdoptedByUser", PerParse); (* ownership of the CURRENT document (DocPool15.v) *)
  ("AbstractDOMParser", "fCreateSchemaInfo", Config);
  ("AbstractDOMParser", "fDoXInclude", Config);
  ("AbstractDOMParser", "fScanner", Infra);
  ("AbstractDOMParser", "fImplementationFeatures", Config);
  ("AbstractDOMParser", "fCurrentParent", PerParse);
  ("AbstractDOMParser", "fCurrentNode", PerParse);
  ("AbstractDOMParser", "fCurrentEntity", PerParse);
  ("AbstractDOMParser", "fDocument", PerParse);
  ("AbstractDOMParser", "fDocumentType", PerParse);
  ("AbstractDOMParser", "fDocumentVector", Cache);           (* documents of earlier parses, owned by the parser (DocPool15.v) *)
  ("AbstractDOMParser", "fGrammarResolver", Infra);
  ("AbstractDOMParser", "fURIStringPool", Cache);
  ("AbstractDOMParser", "fValidator", Infra);                (* fixed at construction *)
  ("AbstractDOMParser", "fMemoryManager", Infra);
  ("AbstractDOMParser", "fGrammarPool", Infra);
  ("AbstractDOMParser", "fBufMgr", Infra);
  ("AbstractDOMParser", "fInternalSubset", PerParse);
  ("AbstractDOMParser", "fPSVIHandler", Infra);
  (* ---- DOMLSParserImpl (parse(const DOMLSInput* ) prologue) ------------------------------------------------ *)
  ("DOMLSParserImpl", "fEntityResolver", Infra);
  ("DOMLSParserImpl", "fXMLEntityResolver", Infra);
  ("DOMLSParserImpl", "fErrorHandler", Infra);
  ("DOMLSParserImpl", "fFilter", Config);                    (* setFilter; ALSO overwritten by abort() and the prologue: F15a *)
  ("DOMLSParserImpl", "fCharsetOverridesXMLEncoding", Config);
  ("DOMLSParserImpl", "fUserAdoptsDocument", Config);
  ("DOMLSParserImpl", "fSupportedParameters", Infra);
  ("DOMLSParserImpl", "fFilterAction", PerParse);
  ("DOMLSParserImpl", "fFilterDelayedTextNodes", PerParse);
  ("DOMLSParserImpl", "fWrapNodesInDocumentFragment", Infra);  (* written and cleared by parseWithContext around the parse (LS15.v) *)
  ("DOMLSParserImpl", "fWrapNodesContext", Infra);
  ("DOMLSParserImpl", "fWrapNodesAction", Infra);
  (* ---- SAXParser (parse(const InputSource&) prologue, resetDocument) -------------------------------------- *)
  ("SAXParser", "fParseInProgress", PerParse);
  ("SAXParser", "fElemDepth", PerParse);
  ("SAXParser", "fAdvDHCount", Config);                      (* installed advanced handlers *)
  ("SAXParser", "fAdvDHListSize", Cache);
  ("SAXParser", "fAttrList", Infra);                         (* set at each start tag *)
  ("SAXParser", "fDocHandler", Infra);
  ("SAXParser", "fDTDHandler", Infra);
  ("SAXParser", "fEntityResolver", Infra);
  ("SAXParser", "fXMLEntityResolver", Infra);
  ("SAXParser", "fErrorHandler", Infra);
  ("SAXParser", "fPSVIHandler", Infra);
  ("SAXParser", "fAdvDHList", Infra);
  ("SAXParser", "fScanner", Infra);
  ("SAXParser", "fGrammarResolver", Infra);
  ("SAXParser", "fURIStringPool", Cache);
  ("SAXParser", "fValidator", Infra);
  ("SAXParser", "fMemoryManager", Infra);
  ("SAXParser", "fGrammarPool", Infra);
  ("SAXParser", "fElemQNameBuf", Infra);
  (* ---- SAX2XMLReaderImpl (parse(const InputSource&) prologue, resetDocument) ------------------------------ *)
  ("SAX2XMLReaderImpl", "fNamespacePrefix", Config);
  ("SAX2XMLReaderImpl", "fAutoValidation", Config);          (* FeatSeq15.v *)
  ("SAX2XMLReaderImpl", "fValidation", Config);
  ("SAX2XMLReaderImpl", "fParseInProgress", PerParse);
  ("SAX2XMLReaderImpl", "fHasExternalSubset", Infra);        (* written by doctypeDecl before it is read *)
  ("SAX2XMLReaderImpl", "fElemDepth", PerParse);
  ("SAX2XMLReaderImpl", "fAdvDHCount", Config);
  ("SAX2XMLReaderImpl", "fAdvDHListSize", Cache);
  ("SAX2XMLReaderImpl", "fAttrList", Infra);
  ("SAX2XMLReaderImpl", "fDocHandler", Infra);
  ("SAX2XMLReaderImpl", "fTempAttrVec", Infra);
  ("SAX2XMLReaderImpl", "fPrefixesStorage", PerParse);       (* prefix strings whose ids are on fPrefixes *)
  ("SAX2XMLReaderImpl", "fPrefixes", PerParse);              (* stack of prefix ids of the open elements *)
  ("SAX2XMLReaderImpl", "fPrefixCounts", PerParse);          (* prefixes declared per open element *)
  ("SAX2XMLReaderImpl", "fTempQName", Infra);
  ("SAX2XMLReaderImpl", "fDTDHandler", Infra);
  ("SAX2XMLReaderImpl", "fEntityResolver", Infra);
  ("SAX2XMLReaderImpl", "fXMLEntityResolver", Infra);
  ("SAX2XMLReaderImpl", "fErrorHandler", Infra);
  ("SAX2XMLReaderImpl", "fPSVIHandler", Infra);
  ("SAX2XMLReaderImpl", "fLexicalHandler", Infra);
  ("SAX2XMLReaderImpl", "fDeclHandler", Infra);
  ("SAX2XMLReaderImpl", "fAdvDHList", Infra);
  ("SAX2XMLReaderImpl", "fScanner", Infra);
  ("SAX2XMLReaderImpl", "fGrammarResolver", Infra);
  ("SAX2XMLReaderImpl", "fURIStringPool", Cache);
  ("SAX2XMLReaderImpl", "fValidator", Infra);
  ("SAX2XMLReaderImpl", "fMemoryManager", Infra);
  ("SAX2XMLReaderImpl", "fGrammarPool", Infra);
  (* ---- GrammarResolver (cacheGrammarFromParse + useCachedGrammarInParse, called by every scanReset) -------- *)
  ("GrammarResolver", "fCacheGrammar", PerParse);            (* copy of the scanner's setting, handed in at every reset *)
  ("GrammarResolver", "fUseCachedGrammar", PerParse);
  ("GrammarResolver", "fGrammarPoolFromExternalApplication", Config);   (* fixed at construction *)
  ("GrammarResolver", "fStringPool", Cache);
  ("GrammarResolver", "fGrammarBucket", PerParse);           (* the per-parse grammars *)
  ("GrammarResolver", "fGrammarFromPool", Cache);            (* never changes an answer: T15_cache_transparent *)
  ("GrammarResolver", "fDataTypeReg", Infra);
  ("GrammarResolver", "fMemoryManager", Infra);
  ("GrammarResolver", "fGrammarPool", Infra);                (* modelled separately: Pool15.v / GramUse15.v *)
  ("GrammarResolver", "fXSModel", Cache);                    (* rebuilt on demand from bucket + pool *)
  ("GrammarResolver", "fGrammarPoolXSModel", Cache);
  ("GrammarResolver", "fGrammarsToAddToXSModel", PerParse);
  (* ---- IdentityConstraintHandler::reset, ValueStoreCache::startDocument ----------------------------------- *)
  ("IdentityConstraintHandler", "fScanner", Infra);
  ("IdentityConstraintHandler", "fMemoryManager", Infra);
  ("IdentityConstraintHandler", "fMatcherStack", PerParse);
  ("IdentityConstraintHandler", "fValueStoreCache", PerParse);
  ("IdentityConstraintHandler", "fFieldActivator", Infra);
  ("ValueStoreCache", "fValueStores", PerParse);
  ("ValueStoreCache", "fGlobalICMap", PerParse);
  ("ValueStoreCache", "fIC2ValueStoreMap", PerParse);
  ("ValueStoreCache", "fGlobalMapStack", PerParse);
  ("ValueStoreCache", "fScanner", Infra);
  ("ValueStoreCache", "fMemoryManager", Infra);
  (* ---- SchemaValidator::reset ------------------------------------------------------------------------------ *)
  ("SchemaValidator", "fMemoryManager", Infra);
  ("SchemaValidator", "fSchemaGrammar", Infra);              (* setGrammar at use *)
  ("SchemaValidator", "fGrammarResolver", Infra);
  ("SchemaValidator", "fXsiType", PerParse);
  ("SchemaValidator", "fNil", PerParse);
  ("SchemaValidator", "fNilFound", PerParse);
  ("SchemaValidator", "fCurrentDatatypeValidator", PerParse);
  ("SchemaValidator", "fNotationBuf", Infra);
  ("SchemaValidator", "fDatatypeBuffer", PerParse);
  ("SchemaValidator", "fTrailing", PerParse);
  ("SchemaValidator", "fSeenNonWhiteSpace", PerParse);
  ("SchemaValidator", "fSeenId", PerParse);
  ("SchemaValidator", "fSchemaErrorReporter", Infra);
  ("SchemaValidator", "fTypeStack", PerParse);
  ("SchemaValidator", "fNilStack", PerParse);
  ("SchemaValidator", "fMostRecentAttrValidator", Infra);    (* set by every validateAttrValue before it is read *)
  ("SchemaValidator", "fErrorOccurred", PerParse);
  ("SchemaValidator", "fElemIsSpecified", Infra)             (* set at each checkContent *)
].

(** (inventory, member, class): XMLScanner members that a given scanner never reads or writes *)
Definition overrides : list (string * string * mclass) := [
  ("WFXMLScanner", "fValidate", Infra);
  ("WFXMLScanner", "fUIntPool", Infra);
  ("WFXMLScanner", "fUIntPoolRow", Infra);
  ("WFXMLScanner", "fUIntPoolCol", Infra);
  ("WFXMLScanner", "fValidationContext", Infra);
  ("WFXMLScanner", "fEntityDeclPoolRetrieved", Infra);
  ("WFXMLScanner", "fValidator", Infra);
  ("WFXMLScanner", "fGrammar", Infra);
  ("WFXMLScanner", "fRootGrammar", Infra);
  ("WFXMLScanner", "fRootElemName", Infra)
].

(** (inventory, member, finding id): known offenders of the unchanged tree (known-findings.d/C15.json) *)
Definition exceptions : list (string * string * string) := [
  ("SGXMLScanner", "fDoNamespaces", "F21b");       (* fDoNamespaces = true  (schema-only scanner forces it) *)
  ("SGXMLScanner", "fDoSchema", "F21b");           (* fDoSchema = true *)
  ("DOMLSParserImpl", "fFilter", "F15a")           (* the parse prologue executes fFilter = 0 after abort(): the application's
                                                      filter (setFilter) is lost.  fixes/C15-ls-abort-filter.patch keeps it in a
                                                      member of its own and restores fFilter from it. *)
].
(* history: F21 (fSkipDTDValidation written by IGXMLScanner::scanReset), F15v (fXMLVersion never reset) and F15u
   (schema undeclared-element pools never cleared) were exceptions until the fix: commits ff70eac, b5f9279, 5e37b52. *)
