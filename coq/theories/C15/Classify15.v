(** C15 -- committed classification of every data member of the scanner classes (hand-written after reading
    the code; the inventory itself is regenerated from /repo on every run: Gen/GenScannerFields.v).

    Config    user-set feature/property (or fixed at construction).  Must NOT be written by the per-parse reset.
    PerParse  observable state of one parse.  Must be reset (assigned a value that depends on configuration only,
              or the object is reset by a call) at the start of every parse.
    Cache     pools whose ids are not observable, reusable objects, generation counters.
    Infra     pointers to handlers/managers; buffers and tables that are cleared at each use; members a
              particular scanner never reads.

    [exceptions] lists the members for which the unchanged tree is known to violate the rule (each one is a
    recorded finding with a witness replayed by checks/C15.py); the theorems are stated modulo these members,
    so with an empty list they are unconditional. *)
From Coq Require Import String List.
Import ListNotations.
Local Open Scope string_scope.

Inductive mclass : Type := Config | PerParse | Cache | Infra.

(** (declaring class, member, class) *)
Definition base_class : list (string * string * mclass) := [
  (* ---- XMLScanner ---------------------------------------------------------------------------- *)
  ("XMLScanner", "fBufferSize", Config);               (* setInputBufferSize *)
  ("XMLScanner", "fLowWaterMark", Config);             (* setLowWaterMark *)
  ("XMLScanner", "fStandardUriConformant", Config);
  ("XMLScanner", "fCalculateSrcOfs", Config);
  ("XMLScanner", "fDoNamespaces", Config);
  ("XMLScanner", "fExitOnFirstFatal", Config);
  ("XMLScanner", "fValidationConstraintFatal", Config);
  ("XMLScanner", "fInException", PerParse);
  ("XMLScanner", "fStandalone", PerParse);
  ("XMLScanner", "fHasNoDTD", PerParse);
  ("XMLScanner", "fValidate", PerParse);               (* derived from fValScheme at reset, changed while parsing *)
  ("XMLScanner", "fValidatorFromUser", Config);        (* fixed at construction *)
  ("XMLScanner", "fDoSchema", Config);
  ("XMLScanner", "fSchemaFullChecking", Config);
  ("XMLScanner", "fIdentityConstraintChecking", Config);
  ("XMLScanner", "fToCacheGrammar", Config);
  ("XMLScanner", "fUseCachedGrammar", Config);
  ("XMLScanner", "fDisallowDTD", Config);
  ("XMLScanner", "fLoadExternalDTD", Config);
  ("XMLScanner", "fLoadSchema", Config);
  ("XMLScanner", "fNormalizeData", Config);
  ("XMLScanner", "fGenerateSyntheticAnnotations", Config);
  ("XMLScanner", "fValidateAnnotations", Config);
  ("XMLScanner", "fIgnoreCachedDTD", Config);
  ("XMLScanner", "fIgnoreAnnotations", Config);
  ("XMLScanner", "fDisableDefaultEntityResolution", Config);
  ("XMLScanner", "fSkipDTDValidation", Config);
  ("XMLScanner", "fHandleMultipleImports", Config);
  ("XMLScanner", "fErrorCount", PerParse);
  ("XMLScanner", "fEntityExpansionLimit", PerParse);   (* re-read from the security manager at reset *)
  ("XMLScanner", "fEntityExpansionCount", PerParse);
  ("XMLScanner", "fEmptyNamespaceId", Cache);          (* ids in fURIStringPool: never observable *)
  ("XMLScanner", "fUnknownNamespaceId", Cache);
  ("XMLScanner", "fXMLNamespaceId", Cache);
  ("XMLScanner", "fXMLNSNamespaceId", Cache);
  ("XMLScanner", "fSchemaNamespaceId", Cache);
  ("XMLScanner", "fUIntPool", PerParse);               (* values of the attribute-seen registries *)
  ("XMLScanner", "fUIntPoolRow", PerParse);
  ("XMLScanner", "fUIntPoolCol", PerParse);
  ("XMLScanner", "fUIntPoolRowTotal", Cache);          (* capacity only *)
  ("XMLScanner", "fScannerId", Cache);
  ("XMLScanner", "fSequenceId", Cache);                (* progressive-scan token generation counter *)
  ("XMLScanner", "fAttrList", Cache);                  (* reusable XMLAttr objects, count passed explicitly *)
  ("XMLScanner", "fAttrDupChkRegistry", Infra);        (* cleared at use (per start tag) *)
  ("XMLScanner", "fDocHandler", Infra);
  ("XMLScanner", "fDocTypeHandler", Infra);
  ("XMLScanner", "fEntityHandler", Infra);
  ("XMLScanner", "fErrorReporter", Infra);
  ("XMLScanner", "fErrorHandler", Infra);
  ("XMLScanner", "fPSVIHandler", Infra);
  ("XMLScanner", "fValidationContext", PerParse);      (* ID/IDREF table, entity decl pool *)
  ("XMLScanner", "fEntityDeclPoolRetrieved", PerParse);
  ("XMLScanner", "fReaderMgr", PerParse);              (* reader stack *)
  ("XMLScanner", "fValidator", PerParse);
  ("XMLScanner", "fValScheme", Config);
  ("XMLScanner", "fGrammarResolver", Infra);           (* modelled separately: Pool15.v *)
  ("XMLScanner", "fGrammarPoolMemoryManager", Infra);
  ("XMLScanner", "fGrammar", PerParse);
  ("XMLScanner", "fRootGrammar", PerParse);
  ("XMLScanner", "fURIStringPool", Cache);
  ("XMLScanner", "fRootElemName", PerParse);
  ("XMLScanner", "fExternalSchemaLocation", Config);
  ("XMLScanner", "fExternalNoNamespaceSchemaLocation", Config);
  ("XMLScanner", "fSecurityManager", Config);
  ("XMLScanner", "fXMLVersion", PerParse);             (* version of the document being parsed *)
  ("XMLScanner", "fMemoryManager", Infra);
  ("XMLScanner", "fBufMgr", Infra);
  ("XMLScanner", "fAttNameBuf", Infra);
  ("XMLScanner", "fAttValueBuf", Infra);
  ("XMLScanner", "fCDataBuf", Infra);
  ("XMLScanner", "fQNameBuf", Infra);
  ("XMLScanner", "fPrefixBuf", Infra);
  ("XMLScanner", "fURIBuf", Infra);
  ("XMLScanner", "fWSNormalizeBuf", Infra);
  ("XMLScanner", "fElemStack", PerParse);
  (* ---- IGXMLScanner --------------------------------------------------------------------------- *)
  ("IGXMLScanner", "fSeeXsi", PerParse);
  ("IGXMLScanner", "fGrammarType", PerParse);
  ("IGXMLScanner", "fElemStateSize", Infra);           (* depth-indexed, written before read *)
  ("IGXMLScanner", "fElemState", Infra);
  ("IGXMLScanner", "fElemLoopState", Infra);
  ("IGXMLScanner", "fContent", Infra);                 (* reset at each start tag *)
  ("IGXMLScanner", "fRawAttrList", Infra);
  ("IGXMLScanner", "fRawAttrColonListSize", Infra);
  ("IGXMLScanner", "fRawAttrColonList", Infra);
  ("IGXMLScanner", "fDTDValidator", PerParse);
  ("IGXMLScanner", "fSchemaValidator", PerParse);
  ("IGXMLScanner", "fDTDGrammar", PerParse);
  ("IGXMLScanner", "fICHandler", PerParse);
  ("IGXMLScanner", "fLocationPairs", Infra);           (* cleared at use (parseSchemaLocation) *)
  ("IGXMLScanner", "fDTDElemNonDeclPool", PerParse);
  ("IGXMLScanner", "fSchemaElemNonDeclPool", PerParse);   (* fault-in decls: a decl found here changes lax/xsi:type validation (F15u) *)
  ("IGXMLScanner", "fElemCount", PerParse);
  ("IGXMLScanner", "fAttDefRegistry", PerParse);
  ("IGXMLScanner", "fUndeclaredAttrRegistry", PerParse);
  ("IGXMLScanner", "fPSVIAttrList", Cache);
  ("IGXMLScanner", "fModel", Cache);
  ("IGXMLScanner", "fPSVIElement", Cache);
  ("IGXMLScanner", "fErrorStack", PerParse);
  ("IGXMLScanner", "fPSVIElemContext", PerParse);
  ("IGXMLScanner", "fSchemaInfoList", PerParse);
  ("IGXMLScanner", "fCachedSchemaInfoList", Cache);    (* follows the grammar pool (resetCachedGrammar) *)
  (* ---- WFXMLScanner --------------------------------------------------------------------------- *)
  ("WFXMLScanner", "fElementIndex", PerParse);
  ("WFXMLScanner", "fElements", Cache);
  ("WFXMLScanner", "fEntityTable", Infra);             (* the five predefined entities, filled once *)
  ("WFXMLScanner", "fAttrNameHashList", Infra);        (* cleared at use *)
  ("WFXMLScanner", "fAttrNSList", Infra);              (* cleared at use *)
  ("WFXMLScanner", "fElementLookup", PerParse);
  (* ---- DGXMLScanner --------------------------------------------------------------------------- *)
  ("DGXMLScanner", "fAttrNSList", PerParse);
  ("DGXMLScanner", "fDTDValidator", PerParse);
  ("DGXMLScanner", "fDTDGrammar", PerParse);
  ("DGXMLScanner", "fDTDElemNonDeclPool", Cache);      (* fault-in decls keyed by name; attacked by the correspondence *)
  ("DGXMLScanner", "fElemCount", Cache);               (* generation counter compared with registry values that are wiped *)
  ("DGXMLScanner", "fAttDefRegistry", PerParse);
  ("DGXMLScanner", "fUndeclaredAttrRegistry", PerParse);
  (* ---- SGXMLScanner --------------------------------------------------------------------------- *)
  ("SGXMLScanner", "fSeeXsi", PerParse);
  ("SGXMLScanner", "fGrammarType", PerParse);
  ("SGXMLScanner", "fElemStateSize", Infra);
  ("SGXMLScanner", "fElemState", Infra);
  ("SGXMLScanner", "fElemLoopState", Infra);
  ("SGXMLScanner", "fContent", Infra);
  ("SGXMLScanner", "fEntityTable", Infra);
  ("SGXMLScanner", "fRawAttrList", Infra);
  ("SGXMLScanner", "fRawAttrColonListSize", Infra);
  ("SGXMLScanner", "fRawAttrColonList", Infra);
  ("SGXMLScanner", "fSchemaGrammar", Cache);           (* dummy grammar object, created once *)
  ("SGXMLScanner", "fSchemaValidator", PerParse);
  ("SGXMLScanner", "fICHandler", PerParse);
  ("SGXMLScanner", "fElemNonDeclPool", PerParse);        (* as IG fSchemaElemNonDeclPool (F15u) *)
  ("SGXMLScanner", "fElemCount", PerParse);
  ("SGXMLScanner", "fAttDefRegistry", PerParse);
  ("SGXMLScanner", "fUndeclaredAttrRegistry", PerParse);
  ("SGXMLScanner", "fPSVIAttrList", Cache);
  ("SGXMLScanner", "fModel", Cache);
  ("SGXMLScanner", "fPSVIElement", Cache);
  ("SGXMLScanner", "fErrorStack", PerParse);
  ("SGXMLScanner", "fPSVIElemContext", PerParse);
  ("SGXMLScanner", "fSchemaInfoList", PerParse);
  ("SGXMLScanner", "fCachedSchemaInfoList", Cache);
  (* ---- ReaderMgr (ReaderMgr::reset) ------------------------------------------------------------ *)
  ("ReaderMgr", "fCurReaderData", PerParse);
  ("ReaderMgr", "fCurReader", PerParse);
  ("ReaderMgr", "fEntityHandler", Infra);
  ("ReaderMgr", "fEntityStack", Infra);                (* created on demand, emptied as readers pop *)
  ("ReaderMgr", "fNextReaderNum", Cache);              (* reader numbers are only compared for equality *)
  ("ReaderMgr", "fReaderStack", PerParse);
  ("ReaderMgr", "fThrowEOE", PerParse);
  ("ReaderMgr", "fXMLVersion", PerParse);
  ("ReaderMgr", "fStandardUriConformant", Config);
  ("ReaderMgr", "fMemoryManager", Infra);
  (* ---- ElemStack (ElemStack::reset) ------------------------------------------------------------ *)
  ("ElemStack", "fEmptyNamespaceId", PerParse);        (* handed in again at every reset *)
  ("ElemStack", "fGlobalPoolId", Cache);
  ("ElemStack", "fPrefixPool", Cache);
  ("ElemStack", "fGlobalNamespaces", PerParse);
  ("ElemStack", "fStack", Cache);                      (* reusable stack elements; contents below fStackTop only *)
  ("ElemStack", "fStackCapacity", Cache);
  ("ElemStack", "fStackTop", PerParse);
  ("ElemStack", "fUnknownNamespaceId", PerParse);
  ("ElemStack", "fXMLNamespaceId", PerParse);
  ("ElemStack", "fXMLPoolId", Cache);
  ("ElemStack", "fXMLNSNamespaceId", PerParse);
  ("ElemStack", "fXMLNSPoolId", Cache);
  ("ElemStack", "fNamespaceMap", Infra);               (* rebuilt at use (getNamespaceMap) *)
  ("ElemStack", "fMemoryManager", Infra);
  (* ---- ValidationContextImpl (clearIdRefList, setEntityDeclPool) ------------------------------- *)
  ("ValidationContextImpl", "fIdRefList", PerParse);
  ("ValidationContextImpl", "fEntityDeclPool", PerParse);
  ("ValidationContextImpl", "fToCheckIdRefList", Infra);     (* set at each use (SchemaValidator::validateAttrValue) *)
  ("ValidationContextImpl", "fValidatingMemberType", Infra); (* set at each use (union validation) *)
  ("ValidationContextImpl", "fElemStack", Infra);
  ("ValidationContextImpl", "fScanner", Infra);
  ("ValidationContextImpl", "fNamespaceScope", Infra)        (* set at use (SchemaInfo) *)
].

(** (inventory, member, class): XMLScanner members that a given scanner never reads or writes *)
Definition overrides : list (string * string * mclass) := [
  ("WFXMLScanner", "fValidate", Infra);
  ("WFXMLScanner", "fUIntPool", Infra);
  ("WFXMLScanner", "fUIntPoolRow", Infra);
  ("WFXMLScanner", "fUIntPoolCol", Infra);
  ("WFXMLScanner", "fValidationContext", Infra);
  ("WFXMLScanner", "fEntityDeclPoolRetrieved", Infra);
  ("WFXMLScanner", "fValidator", Infra);
  ("WFXMLScanner", "fGrammar", Infra);
  ("WFXMLScanner", "fRootGrammar", Infra);
  ("WFXMLScanner", "fRootElemName", Infra)
].

(** (inventory, member, finding id): known offenders of the unchanged tree (known-findings.d/C15.json) *)
Definition exceptions : list (string * string * string) := [
  ("SGXMLScanner", "fDoNamespaces", "F21b");       (* fDoNamespaces = true  (schema-only scanner forces it) *)
  ("SGXMLScanner", "fDoSchema", "F21b")            (* fDoSchema = true *)
].
(* history: F21 (fSkipDTDValidation written by IGXMLScanner::scanReset), F15v (fXMLVersion never reset) and F15u
   (schema undeclared-element pools never cleared) were exceptions until the fix: commits ff70eac, b5f9279, 5e37b52. *)
