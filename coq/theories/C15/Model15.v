(** C15 -- executable model of the parser object's state and of the per-parse reset.
    The state is a valuation of the data members named in the generated inventory
    (Gen/GenScannerFields.v); [reset_model] writes exactly the members the generated rows say the
    scanner's scanReset / scanDocument prologue / ReaderMgr::reset / ElemStack::reset write.
    No proofs in this file. *)
From Coq Require Import String List NArith Bool.
From XV Require Import Gen.GenScannerFields C15.Classify15.
Import ListNotations.
Local Open Scope string_scope.

Definition state := string -> N.
Definition upd (s : state) (m : string) (v : N) : state := fun x => if String.eqb x m then v else s x.

Definition row_name (r : string * string * rkind) : string := snd (fst r).
Definition row_decl (r : string * string * rkind) : string := fst (fst r).
Definition row_kind (r : string * string * rkind) : rkind := snd r.

Fixpoint find_row (inv : inventory) (m : string) : option (string * string * rkind) :=
  match inv with
  | [] => None
  | r :: rest => if String.eqb (row_name r) m then Some r else find_row rest m
  end.

(** enum constants that occur in reset expressions (XMLScanner::ValSchemes) *)
Definition sym_value (x : string) : option N :=
  if String.eqb x "Val_Never" then Some 0%N
  else if String.eqb x "Val_Always" then Some 1%N
  else if String.eqb x "Val_Auto" then Some 2%N
  else None.

Definition truth (v : N) : bool := negb (N.eqb v 0).
Definition ofb (b : bool) : N := if b then 1%N else 0%N.

(** value of a reset expression in the state before the reset; None = not a function of members *)
Fixpoint eval (e : rexpr) (s : state) : option N :=
  match e with
  | EOpaque => None
  | EIncr => None
  | EConst n => Some (N.of_nat n)
  | EVar m => Some (s m)
  | ESym x => sym_value x
  | ENot a => option_map (fun v => ofb (negb (truth v))) (eval a s)
  | EAnd a b => match eval a s, eval b s with
                | Some x, Some y => Some (ofb (truth x && truth y))
                | _, _ => None end
  | EOr a b => match eval a s, eval b s with
               | Some x, Some y => Some (ofb (truth x || truth y))
               | _, _ => None end
  | EEq a b => match eval a s, eval b s with
               | Some x, Some y => Some (ofb (N.eqb x y))
               | _, _ => None end
  | EIf c a b => match eval c s, eval a s, eval b s with
                 | Some x, Some y, Some z => Some (if truth x then y else z)
                 | _, _, _ => None end
  end.

(** the per-parse reset: [init] is the construction-time valuation *)
Definition reset_member (init s : state) (m : string) (k : rkind) : N :=
  match k with
  | RNo => s m
  | RCall => init m
  | RAssign EIncr => N.succ (s m)
  | RAssign e => match eval e s with Some v => v | None => init m end
  end.

Definition reset_model (inv : inventory) (init s : state) : state :=
  fun m => match find_row inv m with
           | Some r => reset_member init s m (row_kind r)
           | None => s m
           end.

(** ------------------------------------------------------------------------------------------------
    classification lookup and the generated obligation *)
Fixpoint lookup2 {A} (a b : string) (l : list (string * string * A)) : option A :=
  match l with
  | [] => None
  | (x, y, v) :: rest => if String.eqb x a && String.eqb y b then Some v else lookup2 a b rest
  end.

(** class of member [m] (declared in [decl]) in the inventory of scanner/class [sc] *)
Definition class_of (sc decl m : string) : option mclass :=
  match lookup2 sc m overrides with
  | Some c => Some c
  | None => lookup2 decl m base_class
  end.

Definition excepted (sc m : string) : bool :=
  match lookup2 sc m exceptions with Some _ => true | None => false end.

Definition class_in (sc : string) (inv : inventory) (m : string) : option mclass :=
  match find_row inv m with
  | Some r => class_of sc (row_decl r) m
  | None => None
  end.

Definition is_config (sc : string) (inv : inventory) (m : string) : bool :=
  match class_in sc inv m with Some Config => negb (excepted sc m) | _ => false end.

Definition is_cfg_class (sc : string) (inv : inventory) (m : string) : bool :=
  match class_in sc inv m with Some Config => true | _ => false end.

(** a reset expression is admissible for per-parse state when it reads configuration only *)
Fixpoint expr_ok (sc : string) (inv : inventory) (e : rexpr) : bool :=
  match e with
  | EOpaque => true            (* reads no member (constructor call, handed-in parameter, manager query) *)
  | EIncr => false             (* depends on its own previous value *)
  | EConst _ => true
  | ESym _ => true
  | EVar m => is_config sc inv m
  | ENot a => expr_ok sc inv a
  | EAnd a b | EOr a b | EEq a b => expr_ok sc inv a && expr_ok sc inv b
  | EIf c a b => expr_ok sc inv c && expr_ok sc inv a && expr_ok sc inv b
  end.

Inductive verdict : Type := VOk | VUnclassified | VConfigWritten | VNotReset | VResetReadsState.

Definition row_verdict (sc : string) (inv : inventory) (r : string * string * rkind) : verdict :=
  if excepted sc (row_name r) then VOk else
  match class_of sc (row_decl r) (row_name r) with
  | None => VUnclassified
  | Some Config => match row_kind r with RNo => VOk | _ => VConfigWritten end
  | Some PerParse => match row_kind r with
                     | RNo => VNotReset
                     | RCall => VOk
                     | RAssign e => if expr_ok sc inv e then VOk else VResetReadsState
                     end
  | Some Cache | Some Infra => VOk
  end.

Definition verdict_ok (v : verdict) : bool := match v with VOk => true | _ => false end.

Fixpoint nodup_names (l : list string) : bool :=
  match l with
  | [] => true
  | x :: rest => negb (existsb (String.eqb x) rest) && nodup_names rest
  end.

Definition reset_check (sc : string) (inv : inventory) : bool :=
  nodup_names (map row_name inv) && forallb (fun r => verdict_ok (row_verdict sc inv r)) inv.

(** the offenders, for diagnostics and for the strict (exception-free) variant *)
Definition offenders (sc : string) (inv : inventory) : list (string * verdict) :=
  flat_map (fun r => match row_verdict sc inv r with VOk => [] | v => [(row_name r, v)] end) inv.

(** every exception entry names a member that exists (stale entries are rejected) *)
Definition exceptions_live : bool :=
  forallb (fun e => match e with (sc, m, _) =>
     existsb (fun p => String.eqb (fst p) sc && existsb (fun r => String.eqb (row_name r) m) (snd p)) all_inventories end)
   exceptions.

(** ------------------------------------------------------------------------------------------------
    histories of operations on one parser object *)
Definition observable (sc : string) (inv : inventory) (m : string) : bool :=
  match class_in sc inv m with
  | Some Config | Some PerParse => negb (excepted sc m)
  | _ => false
  end.

Section History.
  Variable sc : string.
  Variable inv : inventory.
  Variable init : state.
  Variable D : Type.                       (* documents / grammar sources *)
  (** what running the body of a parse of [d] that ends with exit kind [k] does to the members: arbitrary *)
  Variable body : D -> nat -> state -> state.

  Inductive op : Type :=
  | OSet (m : string) (v : N)              (* setFeature / setProperty: writes one configuration member *)
  | OParse (d : D) (k : nat)               (* parse / parseFirst..parseNext / loadGrammar, any exit kind *)
  | ONop.                                  (* resetDocumentPool, adoptDocument, pool lock/unlock ... : no scanner member *)

  Definition step (s : state) (o : op) : state :=
    match o with
    | OSet m v => if is_cfg_class sc inv m then upd s m v else s
    | OParse d k => body d k (reset_model inv init s)
    | ONop => s
    end.

  Definition run (h : list op) (s : state) : state := fold_left step h s.

  Definition is_set (o : op) : bool := match o with OSet _ _ => true | _ => false end.

  (** the parser's state at the moment the body of the next parse starts *)
  Definition at_parse (h : list op) : state := reset_model inv init (run h init).
  (** the same for a freshly constructed parser given the same configuration calls *)
  Definition at_parse_fresh (h : list op) : state := reset_model inv init (run (filter is_set h) init).
End History.

(** ------------------------------------------------------------------------------------------------
    faithful execution for the correspondence driver: the members whose value at the start of the final
    parse differs between the history and the fresh parser.  The body of a parse is modelled as:
    every non-configuration member gets a value derived from the document (dirt), except fXMLVersion,
    which is written only when the document carries an XML declaration. *)
Record docinfo := { d_id : N; d_version : N (* 0 = no XMLDecl, 1 = "1.0", 2 = "1.1" *);
                    d_undecl : bool (* contains elements that are not declared in its schema *) }.

Definition faithful_body (sc : string) (inv : inventory) (d : docinfo) (k : nat) (s : state) : state :=
  fun m =>
    match class_in sc inv m with
    | Some Config => s m
    | Some _ => if String.eqb m "fXMLVersion"
                then (match d_version d with 0%N => s m | 1%N => 0%N | _ => 1%N end)
                else if String.eqb m "fSchemaElemNonDeclPool" || String.eqb m "fElemNonDeclPool"
                then (if d_undecl d then (100 + d_id d)%N else s m)    (* filled only by undeclared schema elements *)
                else (100 + d_id d + N.of_nat k)%N
    | None => s m
    end.

Definition diff_row (sc : string) (inv : inventory) (a b : state) (r : string * string * rkind) : list string :=
  match class_in sc inv (row_name r) with
  | Some Config | Some PerParse => if N.eqb (a (row_name r)) (b (row_name r)) then [] else [row_name r]
  | _ => []
  end.

Definition diff_members (sc : string) (inv : inventory) (init : state) (h : list (op docinfo)) : list string :=
  flat_map (diff_row sc inv (at_parse sc inv init docinfo (faithful_body sc inv) h)
                            (at_parse_fresh sc inv init docinfo (faithful_body sc inv) h)) inv.

Definition inv_of (sc : string) : inventory :=
  match find (fun p => String.eqb (fst p) sc) all_inventories with Some p => snd p | None => [] end.

(** construction-time values that matter to the reset expressions: everything 0 except the defaults below *)
Definition init0 : state := fun m =>
  if String.eqb m "fHasNoDTD" then 1%N
  else if String.eqb m "fLoadExternalDTD" then 1%N
  else if String.eqb m "fLoadSchema" then 1%N
  else if String.eqb m "fIdentityConstraintChecking" then 1%N
  else if String.eqb m "fExitOnFirstFatal" then 1%N
  else 0%N.

(** ------------------------------------------------------------------------------------------------
    histories that also switch the scanner implementation (SAXParser::useScanner & co.): the new scanner is
    freshly constructed and then receives XMLScanner::setParseSettings(old scanner), i.e. a copy of the
    members listed in [copied_settings] (read off XMLScanner::setParseSettings). *)
Definition copied_settings : list string :=
  ["fDoNamespaces"; "fDoSchema"; "fCalculateSrcOfs"; "fStandardUriConformant"; "fExitOnFirstFatal";
   "fValidationConstraintFatal"; "fIdentityConstraintChecking"; "fSchemaFullChecking"; "fToCacheGrammar";
   "fUseCachedGrammar"; "fDisallowDTD"; "fLoadExternalDTD"; "fLoadSchema"; "fNormalizeData";
   "fExternalSchemaLocation"; "fExternalNoNamespaceSchemaLocation"; "fValScheme"; "fSecurityManager"].

Inductive xop : Type :=
| XSet (m : string) (v : N) | XParse (d : docinfo) (k : nat) | XUse (sc : string) | XNop.

Definition xstep (init : state) (cs : string * state) (o : xop) : string * state :=
  let (sc, s) := cs in
  match o with
  | XSet m v => (sc, if is_cfg_class sc (inv_of sc) m then upd s m v else s)
  | XParse d k => (sc, faithful_body sc (inv_of sc) d k (reset_model (inv_of sc) init s))
  | XUse sc' => (sc', fun m => if existsb (String.eqb m) copied_settings then s m else init m)
  | XNop => cs
  end.

Definition xis_parse (o : xop) : bool := match o with XParse _ _ => true | _ => false end.

(** members (of the final scanner's inventory) whose value when the body of the final parse starts differs
    between the parser with history [h] and a fresh parser that received the non-parse operations of [h] *)
Definition xdiff (init : state) (sc0 : string) (h : list xop) : list string :=
  let (sc, s) := fold_left (xstep init) h (sc0, init) in
  let (sc', s') := fold_left (xstep init) (filter (fun o => negb (xis_parse o)) h) (sc0, init) in
  flat_map (diff_row sc (inv_of sc) (reset_model (inv_of sc) init s) (reset_model (inv_of sc) init s')) (inv_of sc).
