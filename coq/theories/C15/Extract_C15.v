(** Extraction of the executable C15 model for the correspondence driver (ExtrOcamlBasic only). *)
From Coq Require Import Extraction ExtrOcamlBasic.
From XV Require Import Gen.GenScannerFields C15.Classify15 C15.Model15 C15.Pool15 C15.SInfo15.
Extraction Language OCaml.
Extraction "../ocaml/C15/gen_c15.ml" xdiff init0 inv_of all_inventories offenders reset_check exceptions ptrace pinit spec_get prun cache_list_offenders.
