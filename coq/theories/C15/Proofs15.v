(** C15 -- lemmas about the reset model: if the generated obligation [reset_check] holds for an inventory,
    the state at the start of a parse is, on every observable member, a function of the configuration alone;
    hence it is the same after any history as on a fresh parser with the same configuration calls. *)
From Coq Require Import String List NArith Bool.
From XV Require Import Gen.GenScannerFields C15.Classify15 C15.Model15.
Import ListNotations.
Local Open Scope string_scope.

Lemma find_row_some : forall inv m r, find_row inv m = Some r -> In r inv /\ row_name r = m.
Proof.
  induction inv as [|a rest IH]; intros m r H; [discriminate|].
  cbn [find_row] in H. destruct (String.eqb (row_name a) m) eqn:E.
  - inversion H; subst. split; [left; reflexivity|]. apply String.eqb_eq; exact E.
  - destruct (IH _ _ H) as [Hin Hn]. split; [right; exact Hin|exact Hn].
Qed.

Lemma reset_check_row : forall sc inv r, reset_check sc inv = true -> In r inv ->
  verdict_ok (row_verdict sc inv r) = true.
Proof.
  intros sc inv r H Hin. unfold reset_check in H. apply andb_true_iff in H. destruct H as [_ H].
  rewrite forallb_forall in H. exact (H r Hin).
Qed.

Section Agree.
  Variable sc : string.
  Variable inv : inventory.

  Definition cfg_agree (s1 s2 : state) : Prop := forall m, is_config sc inv m = true -> s1 m = s2 m.

  Lemma eval_agree : forall e s1 s2, cfg_agree s1 s2 -> expr_ok sc inv e = true -> eval e s1 = eval e s2.
  Proof.
    induction e; intros s1 s2 A H; cbn [eval expr_ok] in *; try reflexivity; try discriminate.
    - f_equal. apply A; exact H.
    - rewrite (IHe s1 s2 A H); reflexivity.
    - apply andb_true_iff in H; destruct H as [H1 H2]. rewrite (IHe1 s1 s2 A H1), (IHe2 s1 s2 A H2); reflexivity.
    - apply andb_true_iff in H; destruct H as [H1 H2]. rewrite (IHe1 s1 s2 A H1), (IHe2 s1 s2 A H2); reflexivity.
    - apply andb_true_iff in H; destruct H as [H1 H2]. rewrite (IHe1 s1 s2 A H1), (IHe2 s1 s2 A H2); reflexivity.
    - apply andb_true_iff in H; destruct H as [H H3]. apply andb_true_iff in H; destruct H as [H1 H2].
      rewrite (IHe1 s1 s2 A H1), (IHe2 s1 s2 A H2), (IHe3 s1 s2 A H3); reflexivity.
  Qed.

  Hypothesis Hcheck : reset_check sc inv = true.

  (** configuration members are not touched by the reset *)
  Lemma reset_keeps_config : forall init s m, is_config sc inv m = true -> reset_model inv init s m = s m.
  Proof.
    intros init s m H. unfold reset_model. unfold is_config, class_in in H.
    destruct (find_row inv m) as [r|] eqn:F; [|reflexivity].
    destruct (find_row_some _ _ _ F) as [Hin Hn].
    pose proof (reset_check_row sc inv r Hcheck Hin) as V. unfold row_verdict in V. rewrite Hn in V.
    destruct (class_of sc (row_decl r) m) as [c|]; [|discriminate]. destruct c; try discriminate.
    apply negb_true_iff in H. rewrite H in V.
    destruct (row_kind r); [reflexivity|discriminate|discriminate].
  Qed.

  (** on observable members, the state after the reset depends on the configuration only *)
  Lemma reset_obs : forall init s1 s2, cfg_agree s1 s2 -> forall m, observable sc inv m = true ->
    reset_model inv init s1 m = reset_model inv init s2 m.
  Proof.
    intros init s1 s2 A m O. unfold reset_model. unfold observable, class_in in O.
    destruct (find_row inv m) as [r|] eqn:F; [|discriminate].
    destruct (find_row_some _ _ _ F) as [Hin Hn].
    pose proof (reset_check_row sc inv r Hcheck Hin) as V. unfold row_verdict in V. rewrite Hn in V.
    destruct (class_of sc (row_decl r) m) as [c|] eqn:C; [|discriminate].
    assert (Ex : excepted sc m = false) by (destruct c; try discriminate; apply negb_true_iff; exact O).
    rewrite Ex in V.
    destruct c; try discriminate.
    - (* Config *) destruct (row_kind r); try discriminate. cbn [reset_member].
      apply A. unfold is_config, class_in. rewrite F, C, Ex. reflexivity.
    - (* PerParse *) destruct (row_kind r) as [|e|]; try discriminate.
      + destruct (expr_ok sc inv e) eqn:K; [|discriminate].
        pose proof (eval_agree e s1 s2 A K) as EA.
        destruct e; cbn [reset_member]; try reflexivity; try discriminate; try (rewrite EA; reflexivity).
      + reflexivity.
  Qed.

  (** ---- histories ---- *)
  Variable init : state.
  Variable D : Type.
  Variable body : D -> nat -> state -> state.
  Hypothesis body_cfg : forall d k s m, is_config sc inv m = true -> body d k s m = s m.

  Lemma upd_agree : forall s1 s2 m v, cfg_agree s1 s2 -> cfg_agree (upd s1 m v) (upd s2 m v).
  Proof. intros s1 s2 m v A x Hx. unfold upd. destruct (String.eqb x m); [reflexivity|apply A; exact Hx]. Qed.

  Lemma run_agree : forall h s1 s2, cfg_agree s1 s2 ->
    cfg_agree (run sc inv init D body h s1) (run sc inv init D body (filter (is_set D) h) s2).
  Proof.
    induction h as [|o h IH]; intros s1 s2 A; [exact A|].
    destruct o as [m v|d k|]; cbn [run fold_left filter is_set step].
    - apply IH. destruct (is_cfg_class sc inv m); [apply upd_agree; exact A|exact A].
    - apply IH. intros x Hx. rewrite body_cfg by exact Hx. rewrite reset_keeps_config by exact Hx. apply A; exact Hx.
    - apply IH; exact A.
  Qed.

  Theorem history_at_parse : forall h m, observable sc inv m = true ->
    at_parse sc inv init D body h m = at_parse_fresh sc inv init D body h m.
  Proof.
    intros h m O. unfold at_parse, at_parse_fresh. apply reset_obs; [|exact O].
    apply run_agree. intros x _; reflexivity.
  Qed.

  (** any result computed from the observable members only is history independent *)
  Theorem history_result : forall (R : Type) (result : state -> R),
    (forall s1 s2, (forall m, observable sc inv m = true -> s1 m = s2 m) -> result s1 = result s2) ->
    forall h, result (at_parse sc inv init D body h) = result (at_parse_fresh sc inv init D body h).
  Proof. intros R result Hext h. apply Hext. intros m O. apply history_at_parse; exact O. Qed.
End Agree.

(** the faithful body used by the correspondence driver does not write configuration members *)
Lemma faithful_body_cfg : forall sc inv d k s m, is_config sc inv m = true -> faithful_body sc inv d k s m = s m.
Proof.
  intros sc inv d k s m H. unfold faithful_body. unfold is_config in H.
  destruct (class_in sc inv m) as [c|]; [|reflexivity]. destruct c; try discriminate. reflexivity.
Qed.

(** with an exception-free inventory the model driver predicts "no difference" for every history *)
Lemma diff_members_nil_aux : forall sc inv a b l,
  (forall m, observable sc inv m = true -> a m = b m) ->
  (forall r, In r l -> excepted sc (row_name r) = false) ->
  flat_map (diff_row sc inv a b) l = [].
Proof.
  intros sc inv a b l Hobs. induction l as [|r l IH]; intros Hex; [reflexivity|].
  cbn [flat_map]. rewrite IH by (intros r' Hr'; apply Hex; right; exact Hr').
  rewrite app_nil_r. unfold diff_row.
  assert (Er : excepted sc (row_name r) = false) by (apply Hex; left; reflexivity).
  destruct (class_in sc inv (row_name r)) as [c|] eqn:C; [|reflexivity].
  destruct c; try reflexivity.
  - rewrite Hobs; [rewrite N.eqb_refl; reflexivity|]. unfold observable. rewrite C, Er. reflexivity.
  - rewrite Hobs; [rewrite N.eqb_refl; reflexivity|]. unfold observable. rewrite C, Er. reflexivity.
Qed.

Theorem diff_members_nil : forall sc inv init h, reset_check sc inv = true ->
  (forall r, In r inv -> excepted sc (row_name r) = false) ->
  diff_members sc inv init h = [].
Proof.
  intros sc inv init h Hc Hex. unfold diff_members. apply diff_members_nil_aux; [|exact Hex].
  intros m O. apply (history_at_parse sc inv Hc init docinfo (faithful_body sc inv)); [|exact O].
  intros d k s x Hx. apply faithful_body_cfg; exact Hx.
Qed.

(** ------------------------------------------------------------------------------------------------
    F21 as a general fact: ANY inventory whose reset executes
       fSkipDTDValidation = fSkipDTDValidation && fDoSchema
    (and does not write fDoSchema) has a history after which the member differs from a fresh parser *)
Definition f21_row : string * string * rkind :=
  ("XMLScanner", "fSkipDTDValidation", RAssign (EAnd (EVar "fSkipDTDValidation") (EVar "fDoSchema"))).

Definition f21_history (D : Type) (d : D) : list (op D) :=
  [OSet D "fSkipDTDValidation" 1%N; OSet D "fDoSchema" 0%N; OParse D d 0; OSet D "fDoSchema" 1%N].
