(** C15 -- model of the DOM parsers' document ownership pool (parsers/AbstractDOMParser.cpp: reset, resetPool,
    adoptDocument) and of the progressive-scan token check (internal/XMLScanner.cpp: scanFirst, scanNext,
    scanReset(token), isLegalToken).  Documents are numbers; [freed] collects the documents the parser destroyed. *)
From Coq Require Import List Arith Bool Lia.
Import ListNotations.

Record dstate := {
  cur : option nat;        (* fDocument *)
  flag : bool;             (* fDocumentAdoptedByUser *)
  vec : list nat;          (* fDocumentVector: documents of earlier parses, owned by the parser *)
  freed : list nat;        (* documents released by the parser so far *)
  adopted : list nat;      (* documents handed to the user by adoptDocument *)
  next : nat               (* next fresh document *)
}.
Definition dinit : dstate := {| cur := None; flag := false; vec := []; freed := []; adopted := []; next := 0 |}.

Inductive dop := DParse | DResetPool | DAdopt.

(** AbstractDOMParser::reset (called at the start of every parse) *)
Definition d_reset (s : dstate) : dstate :=
  {| cur := None; flag := false;
     vec := match cur s with Some d => if flag s then vec s else d :: vec s | None => vec s end;
     freed := freed s; adopted := adopted s; next := next s |}.

Definition dstep (s : dstate) (o : dop) : dstate :=
  match o with
  | DParse => let s1 := d_reset s in
              {| cur := Some (next s1); flag := false; vec := vec s1; freed := freed s1; adopted := adopted s1; next := S (next s1) |}
  | DResetPool =>   (* resetPool: the vector's documents are deleted, the current one released unless adopted *)
      {| cur := None; flag := flag s; vec := [];
         freed := vec s ++ (match cur s with Some d => if flag s then [] else [d] | None => [] end) ++ freed s;
         adopted := adopted s; next := next s |}
  | DAdopt => {| cur := cur s; flag := true; vec := vec s; freed := freed s;
                 adopted := match cur s with Some d => d :: adopted s | None => adopted s end; next := next s |}
  end.
Definition drun (ops : list dop) (s : dstate) : dstate := fold_left dstep ops s.

Definition dinv (s : dstate) : Prop :=
  (forall d, In d (adopted s) -> ~ In d (vec s)) /\
  (forall d, In d (adopted s) -> ~ In d (freed s)) /\
  (forall d, cur s = Some d -> In d (adopted s) -> flag s = true) /\
  (forall d, In d (adopted s) \/ In d (vec s) \/ In d (freed s) -> d < next s) /\
  (forall d, cur s = Some d -> d < next s /\ ~ In d (vec s) /\ ~ In d (freed s)).

Lemma dinv_init : dinv dinit.
Proof. unfold dinv, dinit; cbn. repeat split; intros; try contradiction; try discriminate; intuition. Qed.

Lemma dinv_step : forall o s, dinv s -> dinv (dstep s o).
Proof.
  intros o s (I1 & I2 & I3 & I4 & I5). destruct o; unfold dinv, dstep, d_reset; cbn [cur flag vec freed adopted next].
  - (* parse *)
    assert (V : forall d, In d (match cur s with Some c => if flag s then vec s else c :: vec s | None => vec s end) ->
                          d < next s /\ (In d (vec s) \/ (cur s = Some d /\ flag s = false))).
    { intros d H. destruct (cur s) as [c|] eqn:C.
      - destruct (flag s) eqn:F.
        + split; [apply I4; right; left; exact H|left; exact H].
        + destruct H as [E|H].
          * subst c. split; [apply (I5 d eq_refl)|right; split; reflexivity].
          * split; [apply I4; right; left; exact H|left; exact H].
      - split; [apply I4; right; left; exact H|left; exact H]. }
    repeat split.
    + intros d A H. destruct (V d H) as [_ [Hv|[Hc Hf]]]; [exact (I1 d A Hv)|].
      pose proof (I3 d Hc A). congruence.
    + exact I2.
    + intros d E A. inversion E; subst d. pose proof (I4 (next s) (or_introl A)). lia.
    + intros d [A|[H|H]].
      * pose proof (I4 d (or_introl A)). lia.
      * destruct (V d H) as [L _]. lia.
      * pose proof (I4 d (or_intror (or_intror H))). lia.
    + inversion H; lia.
    + inversion H; subst d. intro K. destruct (V _ K) as [L _]. lia.
    + inversion H; subst d. intro K. pose proof (I4 _ (or_intror (or_intror K))). lia.
  - (* resetPool *) repeat split.
    + intros d A H; exact H.
    + intros d A H. apply in_app_or in H. destruct H as [H|H]; [exact (I1 d A H)|].
      apply in_app_or in H. destruct H as [H|H]; [|exact (I2 d A H)].
      destruct (cur s) as [c|] eqn:C; [|contradiction]. destruct (flag s) eqn:F; [contradiction|].
      destruct H as [E|[]]. subst c. pose proof (I3 d eq_refl A). congruence.
    + intros d E; discriminate.
    + intros d [A|[[]|H]]; [apply I4; left; exact A|].
      apply in_app_or in H. destruct H as [H|H]; [apply I4; right; left; exact H|].
      apply in_app_or in H. destruct H as [H|H]; [|apply I4; right; right; exact H].
      destruct (cur s) as [c|] eqn:C; [|contradiction]. destruct (flag s); [contradiction|].
      destruct H as [E|[]]. subst c. apply (I5 d eq_refl).
    + discriminate.
    + discriminate.
    + discriminate.
  - (* adopt *) repeat split.
    + intros d A. destruct (cur s) as [c|] eqn:C; [|apply I1; exact A].
      destruct A as [E|A]; [|apply I1; exact A]. subst c. apply (I5 d eq_refl).
    + intros d A. destruct (cur s) as [c|] eqn:C; [|apply I2; exact A].
      destruct A as [E|A]; [|apply I2; exact A]. subst c. apply (I5 d eq_refl).
    + intros d [A|[H|H]].
      * destruct (cur s) as [c|] eqn:C; [|apply I4; left; exact A].
        destruct A as [E|A]; [subst c; apply (I5 d eq_refl)|apply I4; left; exact A].
      * apply I4; right; left; exact H.
      * apply I4; right; right; exact H.
    + apply (I5 d H).
    + apply (I5 d H).
    + apply (I5 d H).
Qed.

Theorem dinv_run : forall ops s, dinv s -> dinv (drun ops s).
Proof. induction ops as [|o ops IH]; intros s I; [exact I|]. apply IH. apply dinv_step; exact I. Qed.

(** T15_adopted: whatever the parser does afterwards, a document handed out by adoptDocument is never destroyed by
    the parser and never enters the parser-owned vector *)
Theorem adopted_safe : forall ops d, In d (adopted (drun ops dinit)) ->
  ~ In d (freed (drun ops dinit)) /\ ~ In d (vec (drun ops dinit)).
Proof.
  intros ops d A. destruct (dinv_run ops dinit dinv_init) as (I1 & I2 & _). split; [exact (I2 d A)|exact (I1 d A)].
Qed.

(** adoption is monotone: later operations never remove a document from the adopted set *)
Lemma adopted_mono_step : forall o s d, In d (adopted s) -> In d (adopted (dstep s o)).
Proof. intros o s d A. destruct o; cbn; try exact A. destruct (cur s); [right; exact A|exact A]. Qed.
Theorem adopted_mono : forall ops s d, In d (adopted s) -> In d (adopted (drun ops s)).
Proof. induction ops as [|o ops IH]; intros s d A; [exact A|]. apply IH. apply adopted_mono_step; exact A. Qed.

(** ------------------------------------------------------------------------------------------------
    progressive-scan tokens: (scanner id, sequence id) *)
Record tstate := { scanner_id : nat; seq : nat }.
Inductive top := TScanFirst | TScanDocument | TScanReset.   (* each bumps fSequenceId *)
Definition tstep (s : tstate) (o : top) : tstate := {| scanner_id := scanner_id s; seq := S (seq s) |}.
Definition issue (s : tstate) : nat * nat := (scanner_id s, seq s).          (* toFill.set(fScannerId, fSequenceId) *)
Definition legal (s : tstate) (t : nat * nat) : bool := Nat.eqb (fst t) (scanner_id s) && Nat.eqb (snd t) (seq s).

(** T15_token: a token is accepted iff it was issued by the latest scanFirst of this scanner and no scanFirst /
    scanDocument / scanReset happened since *)
Theorem token_legal_iff : forall s ops, legal (fold_left tstep ops s) (issue s) = true <-> ops = [].
Proof.
  intros s ops. split.
  - intros H. destruct ops as [|o ops]; [reflexivity|exfalso].
    assert (G : forall l t, seq t <= seq (fold_left tstep l t) /\ scanner_id (fold_left tstep l t) = scanner_id t).
    { induction l as [|a l IH]; intros t; cbn [fold_left]; [split; [lia|reflexivity]|].
      destruct (IH (tstep t a)) as [A B]. cbn [tstep seq scanner_id] in *. split; [lia|exact B]. }
    cbn [fold_left] in H. destruct (G ops (tstep s o)) as [A B]. unfold legal, issue in H. cbn [fst snd] in H.
    apply andb_true_iff in H. destruct H as [_ H]. apply Nat.eqb_eq in H. cbn [tstep seq] in A. lia.
  - intros E; subst ops. unfold legal, issue. cbn. rewrite !Nat.eqb_refl. reflexivity.
Qed.
Theorem token_other_scanner : forall s s' , scanner_id s <> scanner_id s' -> legal s' (issue s) = false.
Proof.
  intros s s' H. unfold legal, issue. cbn [fst snd]. destruct (Nat.eqb (scanner_id s) (scanner_id s')) eqn:E; [|reflexivity].
  apply Nat.eqb_eq in E. contradiction.
Qed.
