(** C15 -- the two SchemaInfo tables of IG/SGXMLScanner and the grammars they stand for.
    fSchemaInfoList      (transient)  is cleared by every scanReset, like the GrammarResolver's per-parse bucket;
    fCachedSchemaInfoList (cached)    is cleared by resetCachedGrammar only, like the grammar pool.
    resolveSchemaGrammar skips loading a schema whose (location, namespace) entry it finds ("already seen"); that is
    only sound if the grammar the entry stands for is still reachable.  Where new entries are stored is selected in
    the source by a flag; the selection is a parameter [sel use tocache] here and is read off the source by T-scan
    (Gen.cache_list_uses).  The pool is assumed to accept grammars (unlocked); see finding F15k for the locked case. *)
From Coq Require Import String List Bool NArith.
From XV Require Import Gen.GenScannerFields.
Import ListNotations.
Local Open Scope string_scope.

Record sstate := {
  cachedL : list N;    (* keys in fCachedSchemaInfoList *)
  transL : list N;     (* keys in fSchemaInfoList *)
  poolG : list N;      (* grammars in the grammar pool *)
  bucketG : list N     (* grammars in the per-parse bucket *)
}.
Definition sinit : sstate := {| cachedL := []; transL := []; poolG := []; bucketG := [] |}.
Definition memN (k : N) (l : list N) : bool := existsb (N.eqb k) l.

Inductive sop : Type :=
| SReset                                  (* scanReset: fSchemaInfoList->removeAll, resolver reset (bucket) *)
| SLoad (k : N) (use tocache : bool)      (* resolveSchemaGrammar for schema k under the two flags *)
| SResetCached.                           (* resetCachedGrammar: pool cleared, fCachedSchemaInfoList cleared *)

Section Sel.
  Variable sel : bool -> bool -> bool.    (* does a new SchemaInfo go into the cached table?  (use, tocache) *)

  Definition seen (s : sstate) (k : N) (use tocache : bool) : bool :=
    (use && memN k (cachedL s)) || (negb tocache && memN k (transL s)).

  Definition sstep (s : sstate) (o : sop) : sstate :=
    match o with
    | SReset => {| cachedL := cachedL s; transL := []; poolG := poolG s; bucketG := [] |}
    | SResetCached => {| cachedL := []; transL := transL s; poolG := []; bucketG := bucketG s |}
    | SLoad k use tocache =>
      if seen s k use tocache then s
      else {| cachedL := if sel use tocache then k :: cachedL s else cachedL s;
              transL := if sel use tocache then transL s else k :: transL s;
              poolG := if tocache then k :: poolG s else poolG s;          (* GrammarResolver::putGrammar *)
              bucketG := if tocache then bucketG s else k :: bucketG s |}
    end.
  Definition srun (ops : list sop) (s : sstate) : sstate := fold_left sstep ops s.

  (** every "already seen" entry stands for a grammar that is still there *)
  Definition sinv (s : sstate) : Prop :=
    (forall k, memN k (cachedL s) = true -> memN k (poolG s) = true) /\
    (forall k, memN k (transL s) = true -> memN k (bucketG s) = true).

  Hypothesis sel_ok : forall use tocache, sel use tocache = tocache.

  Lemma memN_cons : forall k a l, memN k (a :: l) = N.eqb k a || memN k l.
  Proof. reflexivity. Qed.

  Lemma sinv_step : forall o s, sinv s -> sinv (sstep s o).
  Proof.
    intros o s [I1 I2]. destruct o as [|k use tocache|]; cbn [sstep].
    - split; cbn [cachedL transL poolG bucketG]; [exact I1|intros k H; discriminate].
    - destruct (seen s k use tocache); [split; assumption|]. rewrite sel_ok.
      destruct tocache; split; cbn [cachedL transL poolG bucketG]; intros x H.
      + rewrite memN_cons in *. apply orb_true_iff in H. apply orb_true_iff. destruct H as [H|H]; [left; exact H|right; apply I1; exact H].
      + apply I2; exact H.
      + apply I1; exact H.
      + rewrite memN_cons in *. apply orb_true_iff in H. apply orb_true_iff. destruct H as [H|H]; [left; exact H|right; apply I2; exact H].
    - split; cbn [cachedL transL poolG bucketG]; [intros k H; discriminate|exact I2].
  Qed.

  Theorem sinv_run : forall ops, sinv (srun ops sinit).
  Proof.
    intros ops. assert (G : forall l s, sinv s -> sinv (srun l s)).
    { induction l as [|o l IH]; intros s I; [exact I|]. apply IH. apply sinv_step; exact I. }
    apply G. split; intros k H; discriminate.
  Qed.

  (** hence: a schema skipped as already seen has its grammar reachable under the same flags
      (pool when useCachedGrammarInParse is on, per-parse bucket otherwise) *)
  Theorem seen_reachable : forall ops k use tocache, seen (srun ops sinit) k use tocache = true ->
    (use = true /\ memN k (poolG (srun ops sinit)) = true) \/ memN k (bucketG (srun ops sinit)) = true.
  Proof.
    intros ops k use tocache H. destruct (sinv_run ops) as [I1 I2]. unfold seen in H.
    apply orb_true_iff in H. destruct H as [H|H]; apply andb_true_iff in H; destruct H as [A B].
    - left. split; [exact A|apply I1; exact B].
    - right. apply I2; exact B.
  Qed.
End Sel.

(** the selection a source row denotes *)
Definition sel_of_flag (f : string) (use tocache : bool) : option bool :=
  if String.eqb f "fToCacheGrammar" || String.eqb f "toCache" then Some tocache
  else if String.eqb f "fUseCachedGrammar" then Some use
  else if String.eqb f "always" then Some true
  else if String.eqb f "never" then Some false
  else None.

Definition all_flags : list (bool * bool) := [(false, false); (false, true); (true, false); (true, true)].
Definition in_list (f : string) (l : list string) : bool := existsb (String.eqb f) l.

(** generated obligation over Gen.cache_list_uses *)
Definition cache_row_ok (r : string * string * lslot * string) : bool :=
  match r with
  | (_, _, LStore, f) => forallb (fun ut => match sel_of_flag f (fst ut) (snd ut) with
                                            | Some b => Bool.eqb b (snd ut) | None => false end) all_flags
  | (_, _, LLookup, f) => in_list f ["fUseCachedGrammar"; "always"]
  | (_, _, LSeenCached, f) => in_list f ["fUseCachedGrammar"; "always"; "nsUri&&*nsUri"]
  | (_, _, LSeenTransient, f) => in_list f ["!importSchemaInfo&&!fToCacheGrammar"]
  end.
Definition is_store (r : string * string * lslot * string) : bool := match r with (_, _, LStore, _) => true | _ => false end.
Definition cache_lists_check : bool :=
  forallb cache_row_ok cache_list_uses &&
  forallb (fun sc => Nat.leb 4 (length (filter (fun r => is_store r && String.eqb (fst (fst (fst r))) sc) cache_list_uses)))
          ["IGXMLScanner"; "SGXMLScanner"].
Definition cache_list_offenders : list (string * string * string) :=
  flat_map (fun r => if cache_row_ok r then [] else [(fst (fst (fst r)), snd (fst (fst r)), snd r)]) cache_list_uses.
