(** Property C15 -- A parser's result is independent of its history; cached grammars are transparent.
    Only property theorems here, each closed by [exact]/[vm_compute] of a lemma from Proofs15*.v.
    Inventory: Gen/GenScannerFields.v (regenerated from /repo on every run); classification: Classify15.v. *)
From Coq Require Import String List NArith Bool.
From XV Require Import Gen.GenScannerFields C15.Classify15 C15.Model15 C15.Proofs15 C15.Pool15 C15.ProofsPool15 C15.DocPool15 C15.SInfo15 C15.FeatSeq15.
Import ListNotations.
Local Open Scope string_scope.

(** GENERATED OBLIGATION.  For every inventory (the four scanners, ReaderMgr, ElemStack, ValidationContextImpl, the parser
    objects AbstractDOMParser / DOMLSParserImpl / SAXParser / SAX2XMLReaderImpl with their parse() prologue and
    reset()/resetDocument(), and the objects a scanReset resets by a call: GrammarResolver, IdentityConstraintHandler,
    ValueStoreCache, SchemaValidator):
    member names are unique, every member is classified, no Config member is written by the reset code,
    every PerParse member is reset, and to a value that reads configuration only -- except the members listed
    in [Classify15.exceptions] (recorded findings).  A member added to a class, a line deleted from a
    scanReset, or a new assignment to a setting in a scanReset makes this fail. *)
Theorem T15_reset_complete : forallb (fun p => reset_check (fst p) (snd p)) all_inventories = true.
Proof. vm_compute. reflexivity. Qed.
Print Assumptions T15_reset_complete.

Theorem T15_exceptions_live : exceptions_live = true.
Proof. vm_compute. reflexivity. Qed.
Print Assumptions T15_exceptions_live.

(** the four scanners are among the inventories (non-vacuity of the obligation above) *)
Example T15_inventories_present :
  map fst all_inventories = ["IGXMLScanner"; "WFXMLScanner"; "DGXMLScanner"; "SGXMLScanner"; "ReaderMgr"; "ElemStack";
                             "ValidationContextImpl"; "AbstractDOMParser"; "DOMLSParserImpl"; "SAXParser"; "SAX2XMLReaderImpl";
                             "GrammarResolver"; "IdentityConstraintHandler"; "ValueStoreCache"; "SchemaValidator"]
  /\ (60 <= length inv_WFXMLScanner)%nat /\ (90 <= length inv_IGXMLScanner)%nat.
Proof. vm_compute. repeat split; repeat constructor. Qed.

(** GENERAL LEMMA: whenever the obligation holds for an inventory, the observable part of the state after the
    reset is a function of the configuration alone:
    observable (scanReset s) = observable (scanReset fresh_with_same_config) *)
Theorem T15_reset_observable : forall sc inv, reset_check sc inv = true ->
  forall init s fresh, (forall m, is_config sc inv m = true -> s m = fresh m) ->
  forall m, observable sc inv m = true -> reset_model inv init s m = reset_model inv init fresh m.
Proof. intros sc inv H init s fresh A m O. exact (reset_obs sc inv H init s fresh A m O). Qed.
Print Assumptions T15_reset_observable.

(** HISTORY INDEPENDENCE on the model: for every history of operations (configuration changes, parses of any
    document ending by any exit kind whose body may scribble on every non-configuration member, other calls)
    the state in which the next parse starts agrees, on every observable member, with that of a fresh parser
    that received the same configuration calls; so does any result computed from observable members. *)
Theorem T15_history : forall sc inv, reset_check sc inv = true ->
  forall init (D R : Type) (body : D -> nat -> state -> state),
  (forall d k s m, is_config sc inv m = true -> body d k s m = s m) ->
  forall (result : state -> R),
  (forall s1 s2, (forall m, observable sc inv m = true -> s1 m = s2 m) -> result s1 = result s2) ->
  forall h, result (at_parse sc inv init D body h) = result (at_parse_fresh sc inv init D body h).
Proof. intros sc inv H init D R body Hb result Hr h. exact (history_result sc inv H init D body Hb R result Hr h). Qed.
Print Assumptions T15_history.

(** ... instantiated for the generated inventories of the four scanners *)
Theorem T15_history_scanners : forall sc, In sc ["IGXMLScanner"; "WFXMLScanner"; "DGXMLScanner"; "SGXMLScanner"] ->
  reset_check sc (inv_of sc) = true.
Proof. intros sc H. cbn [In] in H. repeat (destruct H as [H|H]; [subst sc; vm_compute; reflexivity|]). contradiction. Qed.
Print Assumptions T15_history_scanners.

(** with no exceptions the executable model predicts "no difference" for every history *)
Theorem T15_model_predicts_same : forall sc inv init h, reset_check sc inv = true ->
  (forall r, In r inv -> excepted sc (row_name r) = false) -> diff_members sc inv init h = [].
Proof. exact diff_members_nil. Qed.
Print Assumptions T15_model_predicts_same.

(** F21 (faithful behaviour at the pinned commit): a reset executing
    fSkipDTDValidation = fSkipDTDValidation && fDoSchema  makes the setting depend on the history *)
Definition inv_f21 : inventory := [f21_row; ("XMLScanner", "fDoSchema", RNo)].
Theorem T15_skipdtd_refuted :
  diff_members "IGXMLScanner" inv_f21 init0 (f21_history docinfo {| d_id := 0; d_version := 0; d_undecl := false |}) = ["fSkipDTDValidation"].
Proof. vm_compute. reflexivity. Qed.
Print Assumptions T15_skipdtd_refuted.

(** ------------------------------------------------------------------------------------------------
    grammar pool and resolver (model: Pool15.v, tied to XMLGrammarPoolImpl / GrammarResolver by the G traces) *)
Local Open Scope N_scope.

(** T15_locked_pool (FULL): while the pool is locked, no sequence of operations -- cacheGrammar, orphanGrammar, clear,
    putGrammar, cacheGrammars, resetCachedGrammar, getGrammar, flag changes, lockPool -- changes the registry;
    only unlockPool ends this. *)
Theorem T15_locked_pool : forall ops s, locked s = true -> ~ In PUnlock ops ->
  reg (prun ops s) = reg s /\ locked (prun ops s) = true.
Proof. exact locked_run. Qed.
Print Assumptions T15_locked_pool.

Theorem T15_locked_pool_step : forall o s, locked s = true -> reg (snd (pstep s o)) = reg s.
Proof. exact locked_step. Qed.
Print Assumptions T15_locked_pool_step.

(** ... and the mutators report failure *)
Theorem T15_locked_refuses : forall s k, locked s = true ->
  fst (pstep s (PCache k)) = ResBool false /\ fst (pstep s PClear) = ResBool false /\ fst (pstep s (POrphan k)) = ResGram None.
Proof. exact locked_refuses. Qed.
Print Assumptions T15_locked_refuses.

Theorem T15_lock_unlock_tables : forall s o, o = PLock \/ o = PUnlock ->
  reg (snd (pstep s o)) = reg s /\ bucket (snd (pstep s o)) = bucket s /\ frompool (snd (pstep s o)) = frompool s.
Proof. exact lock_unlock_tables. Qed.
Print Assumptions T15_lock_unlock_tables.

Example T15_locked_pool_nonvacuous :
  let s := prun [RCacheFromParse true; RPut 1; RPut 2; PLock] pinit in
  locked s = true /\ reg s = [(2, 2); (1, 1)] /\
  reg (prun [RPut 3; PCache 4; PClear; POrphan 1; RResetCached; RCacheAll] s) = [(2, 2); (1, 1)].
Proof. vm_compute. repeat split. Qed.

(** T15_cache_transparent: after any sequence of resolver-mediated operations starting from a new pool+resolver,
    getGrammar returns exactly what the cache-free lookup gives: the per-parse bucket first, then -- only when
    useCachedGrammarInParse is on -- the pool's registry.  The "referenced from pool" table never changes an answer. *)
Theorem T15_cache_transparent : forall ops k, forallb mediated ops = true ->
  fst (res_get (prun ops pinit) k) = spec_get (prun ops pinit) k.
Proof. intros ops k M. apply res_get_transparent. apply fp_sound_run; [exact M|exact fp_sound_init]. Qed.
Print Assumptions T15_cache_transparent.

(** useCachedGrammarInParse off: the pool is never consulted, the resolver state does not change *)
Theorem T15_nocache_no_pool : forall s k, usecached s = false -> res_get s k = (lookup (bucket s) k, s).
Proof. exact res_get_nocache. Qed.
Print Assumptions T15_nocache_no_pool.

(** cacheGrammars never loses or replaces a grammar the pool already holds *)
Theorem T15_cacheall_keeps : forall s k g, lookup (reg s) k = Some g ->
  lookup (reg (snd (pstep s RCacheAll))) k = Some g.
Proof. intros s k g L. cbn [pstep snd]. apply cache_all_keeps_reg; exact L. Qed.
Print Assumptions T15_cacheall_keeps.

(** lookup order made visible: a grammar in the bucket shadows a cached one with the same key; removing it
    (reset) uncovers the cached one; with useCached off the cached one is invisible *)
Example T15_lookup_order :
  let s := prun [RCacheFromParse true; RPut 7; RCacheFromParse false; RUseCached true; RPut 7] pinit in
  fst (res_get s 7) = Some 2 /\ fst (res_get (prun [RReset] s) 7) = Some 1 /\
  fst (res_get (prun [RReset; RUseCached false] s) 7) = None.
Proof. vm_compute. repeat split. Qed.

(** ------------------------------------------------------------------------------------------------
    document ownership pool of the DOM parsers and progressive-scan tokens (model: DocPool15.v) *)
Local Close Scope N_scope.

(** T15_adopted: a document returned by adoptDocument is never released by the parser and never enters the
    parser-owned document vector, whatever sequence of parse / resetDocumentPool / adoptDocument follows *)
Theorem T15_adopted : forall ops d, In d (adopted (drun ops dinit)) ->
  ~ In d (freed (drun ops dinit)) /\ ~ In d (vec (drun ops dinit)).
Proof. exact adopted_safe. Qed.
Print Assumptions T15_adopted.

Theorem T15_adopted_stays : forall ops s d, In d (adopted s) -> In d (adopted (drun ops s)).
Proof. exact adopted_mono. Qed.
Print Assumptions T15_adopted_stays.

Example T15_adopted_nonvacuous :
  let s := drun [DParse; DParse; DAdopt; DParse; DResetPool; DParse; DResetPool] dinit in
  adopted s = [1] /\ freed s = [3; 0; 2].
Proof. vm_compute. split; reflexivity. Qed.

(** T15_token: a progressive-scan token is accepted iff no scanFirst / scanDocument / scanReset of the issuing scanner
    happened since it was issued; a token of another scanner is never accepted *)
Theorem T15_token : forall s ops, legal (fold_left tstep ops s) (issue s) = true <-> ops = [].
Proof. exact token_legal_iff. Qed.
Print Assumptions T15_token.

Theorem T15_token_other_scanner : forall s s', scanner_id s <> scanner_id s' -> legal s' (issue s) = false.
Proof. exact token_other_scanner. Qed.
Print Assumptions T15_token_other_scanner.

(** ------------------------------------------------------------------------------------------------
    the SchemaInfo tables (model: SInfo15.v; rows: Gen.cache_list_uses, regenerated from resolveSchemaGrammar /
    loadXMLSchemaGrammar of IG and SG on every run) *)
Local Open Scope string_scope.

(** GENERATED OBLIGATION: at every place where new SchemaInfo objects are stored, the persistent table is selected by
    the cache-from-parse flag (fToCacheGrammar / toCache) and by nothing else; look-ups in the persistent table are
    governed by fUseCachedGrammar; the transient table is consulted only when not caching *)
Theorem T15_cache_lists : cache_lists_check = true.
Proof. vm_compute. reflexivity. Qed.
Print Assumptions T15_cache_lists.

(** ... and whenever the store selection is the cache-from-parse flag, every "already seen" entry stands for a grammar
    that is still reachable, after any sequence of resets, schema loads under any flags, and pool resets *)
Theorem T15_seen_reachable : forall sel, (forall use tocache, sel use tocache = tocache) ->
  forall ops k use tocache, seen (srun sel ops sinit) k use tocache = true ->
  (use = true /\ memN k (poolG (srun sel ops sinit)) = true) \/ memN k (bucketG (srun sel ops sinit)) = true.
Proof. exact seen_reachable. Qed.
Print Assumptions T15_seen_reachable.

(** the selection by fUseCachedGrammar (the mutation class) breaks it: useCachedGrammarInParse without
    cacheGrammarFromParse, the same schema in two consecutive parses: seen, but its grammar is gone *)
Example T15_seen_wrong_flag_refuted :
  let s := srun (fun use _ => use) [SReset; SLoad 1 true false; SReset] sinit in
  seen s 1 true false = true /\ memN 1 (poolG s) = false /\ memN 1 (bucketG s) = false.
Proof. vm_compute. repeat split. Qed.

(** ------------------------------------------------------------------------------------------------
    settings derived from several features (model: FeatSeq15.v; tied to SAX2XMLReaderImpl::setFeature and
    DOMLSParserImpl::setParameter by the Q requests: exhaustive call sequences up to length 4 + random long ones) *)

(** T15_sax2_scheme: after ANY sequence of setFeature calls the validation scheme of the scanner is the function
    (validation, dynamic) |-> Never / Always / Auto of the values getFeature reports *)
Theorem T15_sax2_scheme : forall ops,
  sch (s2run ops sax2_init) = scheme_of (fValidation (s2run ops sax2_init)) (fAutoValidation (s2run ops sax2_init)).
Proof. exact sax2_scheme_final. Qed.
Print Assumptions T15_sax2_scheme.

Theorem T15_sax2_scheme_history_free : forall ops1 ops2,
  fValidation (s2run ops1 sax2_init) = fValidation (s2run ops2 sax2_init) ->
  fAutoValidation (s2run ops1 sax2_init) = fAutoValidation (s2run ops2 sax2_init) ->
  sch (s2run ops1 sax2_init) = sch (s2run ops2 sax2_init).
Proof. exact sax2_scheme_history_free. Qed.
Print Assumptions T15_sax2_scheme_history_free.

Theorem T15_ls_scheme_from_readback : forall ops1 ops2,
  get_validate (fold_left lsstep ops1 Val_Never) = get_validate (fold_left lsstep ops2 Val_Never) ->
  get_validate_if_schema (fold_left lsstep ops1 Val_Never) = get_validate_if_schema (fold_left lsstep ops2 Val_Never) ->
  fold_left lsstep ops1 Val_Never = fold_left lsstep ops2 Val_Never.
Proof. exact ls_scheme_from_readback. Qed.
Print Assumptions T15_ls_scheme_from_readback.

Theorem T15_ls_replay_readback : forall s,
  fold_left lsstep [SetValidateIfSchema (get_validate_if_schema s); SetValidate (get_validate s)] Val_Never = s.
Proof. exact ls_replay_readback. Qed.
Print Assumptions T15_ls_replay_readback.
