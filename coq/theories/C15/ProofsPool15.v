(** C15 -- proofs about the grammar pool / resolver model (Pool15.v) *)
From Coq Require Import List NArith Bool.
From XV Require Import C15.Pool15.
Import ListNotations.
Local Open Scope N_scope.

(** ---- association lists ---- *)
Lemma lookup_remove_same : forall t k, lookup (remove t k) k = None.
Proof.
  induction t as [|[k' g] r IH]; intros k; cbn [remove lookup]; [reflexivity|].
  destruct (N.eqb k' k) eqn:E; [apply IH|]. cbn [lookup]. rewrite E. apply IH.
Qed.
Lemma lookup_remove_other : forall t k k', k' <> k -> lookup (remove t k) k' = lookup t k'.
Proof.
  induction t as [|[a g] r IH]; intros k k' H; cbn [remove lookup]; [reflexivity|].
  destruct (N.eqb a k) eqn:E.
  - apply N.eqb_eq in E; subst a. destruct (N.eqb k k') eqn:E2; [apply N.eqb_eq in E2; congruence|]. apply IH; exact H.
  - cbn [lookup]. destruct (N.eqb a k'); [reflexivity|apply IH; exact H].
Qed.
Lemma lookup_put_same : forall t k g, lookup (put t k g) k = Some g.
Proof. intros. unfold put. cbn [lookup]. rewrite N.eqb_refl. reflexivity. Qed.
Lemma lookup_put_other : forall t k g k', k' <> k -> lookup (put t k g) k' = lookup t k'.
Proof.
  intros t k g k' H. unfold put. cbn [lookup]. destruct (N.eqb k k') eqn:E; [apply N.eqb_eq in E; congruence|].
  apply lookup_remove_other; exact H.
Qed.

(** ---- T15_locked_pool: while locked no operation changes the registry ---- *)
Lemma pool_cache_locked : forall s k g, locked s = true -> pool_cache s k g = (false, s).
Proof. intros s k g H. unfold pool_cache. rewrite H. reflexivity. Qed.
Lemma pool_orphan_locked : forall s k, locked s = true -> pool_orphan s k = (Some None, s).
Proof. intros s k H. unfold pool_orphan. rewrite H. reflexivity. Qed.
Lemma pool_clear_locked : forall s, locked s = true -> pool_clear s = (false, s).
Proof. intros s H. unfold pool_clear. rewrite H. reflexivity. Qed.

Lemma cache_all_locked : forall keys s, locked s = true -> cache_all keys s = s.
Proof.
  induction keys as [|k rest IH]; intros s H; cbn [cache_all]; [reflexivity|].
  destruct (lookup (bucket s) k); [|apply IH; exact H].
  rewrite pool_cache_locked by exact H. apply IH; exact H.
Qed.

Lemma res_get_reg : forall s k, reg (snd (res_get s k)) = reg s /\ locked (snd (res_get s k)) = locked s.
Proof.
  intros s k. unfold res_get. destruct (lookup (bucket s) k); [split; reflexivity|].
  destruct (usecached s); [|split; reflexivity]. destruct (lookup (frompool s) k); [split; reflexivity|].
  destruct (lookup (reg s) k); split; reflexivity.
Qed.

Theorem locked_step : forall o s, locked s = true -> reg (snd (pstep s o)) = reg s.
Proof.
  intros o s H. destruct o; cbn [pstep].
  - rewrite pool_cache_locked by exact H. reflexivity.
  - rewrite pool_orphan_locked by exact H. reflexivity.
  - reflexivity.
  - rewrite pool_clear_locked by exact H. reflexivity.
  - reflexivity.
  - reflexivity.
  - destruct (cacheg s); [rewrite pool_cache_locked by exact H|]; reflexivity.
  - destruct (res_get s k) as [g s1] eqn:E. pose proof (res_get_reg s k) as R. rewrite E in R. exact (proj1 R).
  - rewrite cache_all_locked by exact H. reflexivity.
  - destruct (cacheg s); [rewrite pool_orphan_locked by exact H; reflexivity|]. destruct (lookup (bucket s) k); reflexivity.
  - reflexivity.
  - rewrite pool_clear_locked by exact H. reflexivity.
  - reflexivity.
  - reflexivity.
Qed.

Lemma locked_step_flag : forall o s, locked s = true -> o <> PUnlock -> locked (snd (pstep s o)) = true.
Proof.
  intros o s H N. destruct o; cbn [pstep]; try congruence.
  - rewrite pool_cache_locked by exact H. exact H.
  - rewrite pool_orphan_locked by exact H. exact H.
  - exact H.
  - rewrite pool_clear_locked by exact H. exact H.
  - reflexivity.
  - destruct (cacheg s); [rewrite pool_cache_locked by exact H|]; exact H.
  - destruct (res_get s k) as [g s1] eqn:E. pose proof (res_get_reg s k) as R. rewrite E in R. cbn [snd] in *. rewrite (proj2 R). exact H.
  - rewrite cache_all_locked by exact H. exact H.
  - destruct (cacheg s); [rewrite pool_orphan_locked by exact H; exact H|]. destruct (lookup (bucket s) k); exact H.
  - exact H.
  - rewrite pool_clear_locked by exact H. exact H.
  - exact H.
  - exact H.
Qed.

Theorem locked_run : forall ops s, locked s = true -> ~ In PUnlock ops ->
  reg (prun ops s) = reg s /\ locked (prun ops s) = true.
Proof.
  induction ops as [|o ops IH]; intros s H N; [split; [reflexivity|exact H]|].
  unfold prun. cbn [fold_left]. fold (prun ops (snd (pstep s o))).
  assert (No : o <> PUnlock) by (intro E; apply N; left; exact E).
  assert (Nr : ~ In PUnlock ops) by (intro E; apply N; right; exact E).
  destruct (IH (snd (pstep s o)) (locked_step_flag o s H No) Nr) as [A B].
  split; [rewrite A; apply locked_step; exact H|exact B].
Qed.

(** the mutators report failure while locked *)
Theorem locked_refuses : forall s k, locked s = true ->
  fst (pstep s (PCache k)) = ResBool false /\ fst (pstep s PClear) = ResBool false /\ fst (pstep s (POrphan k)) = ResGram None.
Proof.
  intros s k H. cbn [pstep]. rewrite pool_cache_locked, pool_clear_locked, pool_orphan_locked by exact H.
  repeat split; reflexivity.
Qed.

(** lock/unlock only toggle the flag (and the XSModel validity), never the tables *)
Theorem lock_unlock_tables : forall s o, o = PLock \/ o = PUnlock ->
  reg (snd (pstep s o)) = reg s /\ bucket (snd (pstep s o)) = bucket s /\ frompool (snd (pstep s o)) = frompool s.
Proof. intros s o [E|E]; subst o; cbn; repeat split; reflexivity. Qed.

(** ---- T15_cache_transparent ---- *)
Definition fp_sound (s : pstate) : Prop := forall k g, lookup (frompool s) k = Some g -> lookup (reg s) k = Some g.

Lemma pool_cache_sound : forall s k g, fp_sound s -> fp_sound (snd (pool_cache s k g)) /\
  frompool (snd (pool_cache s k g)) = frompool s.
Proof.
  intros s k g I. unfold pool_cache. destruct (locked s); [split; [exact I|reflexivity]|].
  destruct (has (reg s) k) eqn:Hh; [split; [exact I|reflexivity]|]. split; [|reflexivity].
  intros k' g' L. cbn [snd frompool reg] in *.
  assert (k' <> k).
  { intro E; subst k'. pose proof (I k g' L) as R. unfold has in Hh. rewrite R in Hh. discriminate. }
  rewrite lookup_put_other by assumption. apply I; exact L.
Qed.

Lemma cache_all_sound : forall keys s, fp_sound s -> fp_sound (cache_all keys s).
Proof.
  induction keys as [|k rest IH]; intros s I; cbn [cache_all]; [exact I|].
  destruct (lookup (bucket s) k) as [g|]; [|apply IH; exact I].
  destruct (pool_cache_sound s k g I) as [A B].
  destruct (pool_cache s k g) as [ok s1]. cbn [snd] in *. apply IH.
  destruct ok; [|exact A]. intros k' g' L. cbn in *. apply A; exact L.
Qed.

Lemma pool_orphan_cases : forall s k, locked s = false ->
  (lookup (reg s) k = None /\ pool_orphan s k = (None, s)) \/
  (exists g s1, lookup (reg s) k = Some g /\ pool_orphan s k = (Some (Some g), s1) /\ reg s1 = remove (reg s) k /\
                frompool s1 = frompool s).
Proof.
  intros s k H. unfold pool_orphan. rewrite H. destruct (lookup (reg s) k) as [g|].
  - right. eexists; eexists. repeat split.
  - left. split; reflexivity.
Qed.

Theorem fp_sound_step : forall o s, mediated o = true -> fp_sound s -> fp_sound (snd (pstep s o)).
Proof.
  intros o s M I. destruct o; cbn [mediated] in M; try discriminate; cbn [pstep].
  - (* PCache *) destruct (pool_cache_sound s k (serial s) I) as [A _]. destruct (pool_cache s k (serial s)) as [ok s1].
    cbn [snd] in *. intros k' g' L. cbn in *. apply A; exact L.
  - exact I.
  - intros k' g' L; cbn in *; apply I; exact L.
  - intros k' g' L; cbn in *; apply I; exact L.
  - (* RPut *) destruct (cacheg s).
    + destruct (pool_cache_sound s k (serial s) I) as [A _]. destruct (pool_cache s k (serial s)) as [ok s1].
      cbn [snd] in *. destruct ok; intros k' g' L; cbn in *; apply A; exact L.
    + intros k' g' L; cbn in *; apply I; exact L.
  - (* RGet *) unfold res_get. destruct (lookup (bucket s) k); [exact I|]. destruct (usecached s); [|exact I].
    destruct (lookup (frompool s) k); [exact I|]. destruct (lookup (reg s) k) as [g|] eqn:R; [|exact I].
    intros k' g' L. unfold set_frompool in *. cbn [snd frompool reg] in *. destruct (N.eq_dec k' k) as [E|E].
    + subst k'. rewrite lookup_put_same in L. inversion L; subst. exact R.
    + rewrite lookup_put_other in L by exact E. apply I; exact L.
  - (* RCacheAll *) apply cache_all_sound; exact I.
  - (* ROrphan *) destruct (cacheg s).
    2:{ destruct (lookup (bucket s) k); [intros k' g' L; cbn in *; apply I; exact L|exact I]. }
    destruct (locked s) eqn:Lk.
    + rewrite pool_orphan_locked by exact Lk. intros k' g' L; cbn in *; apply I; exact L.
    + destruct (pool_orphan_cases s k Lk) as [[R E]|[g [s1 [R [E [A B]]]]]]; rewrite E.
      * exact I.
      * intros k' g' L. unfold set_frompool in *. cbn [snd frompool reg] in *. rewrite B in L.
        destruct (N.eq_dec k' k) as [Q|Q].
        -- subst k'. rewrite lookup_remove_same in L. discriminate.
        -- rewrite lookup_remove_other in L by exact Q. rewrite A. rewrite lookup_remove_other by exact Q. apply I; exact L.
  - intros k' g' L; cbn in *; apply I; exact L.
  - (* RResetCached *) destruct (pool_clear s) as [ok s1]. intros k' g' L. cbn in L. discriminate.
  - intros k' g' L; cbn in *; apply I; exact L.
  - intros k' g' L; cbn in *; apply I; exact L.
Qed.

Theorem fp_sound_run : forall ops s, forallb mediated ops = true -> fp_sound s -> fp_sound (prun ops s).
Proof.
  induction ops as [|o ops IH]; intros s M I; [exact I|].
  cbn [forallb] in M. apply andb_true_iff in M. destruct M as [Mo Mr].
  unfold prun. cbn [fold_left]. apply IH; [exact Mr|]. apply fp_sound_step; assumption.
Qed.

Lemma fp_sound_init : fp_sound pinit.
Proof. intros k g L. cbn in L. discriminate. Qed.

Theorem res_get_transparent : forall s k, fp_sound s -> fst (res_get s k) = spec_get s k.
Proof.
  intros s k I. unfold res_get, spec_get. destruct (lookup (bucket s) k); [reflexivity|].
  destruct (usecached s); [|reflexivity].
  destruct (lookup (frompool s) k) as [g|] eqn:F; [cbn [fst]; symmetry; apply I; exact F|].
  destruct (lookup (reg s) k); reflexivity.
Qed.

(** with useCachedGrammarInParse off the pool is never consulted and nothing is recorded *)
Theorem res_get_nocache : forall s k, usecached s = false -> res_get s k = (lookup (bucket s) k, s).
Proof. intros s k H. unfold res_get. rewrite H. destruct (lookup (bucket s) k); reflexivity. Qed.

(** cacheGrammars on an unlocked pool: a bucket grammar whose key the pool does not hold yet ends up in the pool *)
Lemma cache_all_keeps_reg : forall keys s k g, lookup (reg s) k = Some g -> lookup (reg (cache_all keys s)) k = Some g.
Proof.
  induction keys as [|a rest IH]; intros s k g L; cbn [cache_all]; [exact L|].
  destruct (lookup (bucket s) a) as [ga|]; [|apply IH; exact L].
  unfold pool_cache. destruct (locked s); [apply IH; exact L|].
  destruct (has (reg s) a) eqn:Hh; [apply IH; exact L|].
  assert (k <> a). { intro E; subst a. unfold has in Hh. rewrite L in Hh. discriminate. }
  apply IH. unfold set_bucket. cbn [reg]. rewrite lookup_put_other by assumption. exact L.
Qed.
