(** C15 -- executable model of XMLGrammarPoolImpl (framework/XMLGrammarPoolImpl.cpp) and GrammarResolver
    (validators/common/GrammarResolver.cpp).  Grammars are values (a serial number); the registry, the per-parse
    bucket and the "referenced from pool" table are association lists with unique keys.  No proofs here. *)
From Coq Require Import List NArith Bool.
Import ListNotations.
Local Open Scope N_scope.

Definition key := N.
Definition gram := N.
Definition table := list (key * gram).

Fixpoint lookup (t : table) (k : key) : option gram :=
  match t with [] => None | (k', g) :: r => if N.eqb k' k then Some g else lookup r k end.
Fixpoint remove (t : table) (k : key) : table :=
  match t with [] => [] | (k', g) :: r => if N.eqb k' k then remove r k else (k', g) :: remove r k end.
Definition has (t : table) (k : key) : bool := match lookup t k with Some _ => true | None => false end.
(** RefHashTableOf::put : replaces the value of an existing key *)
Definition put (t : table) (k : key) (g : gram) : table := (k, g) :: remove t k.

Record pstate := {
  reg : table;           (* XMLGrammarPoolImpl::fGrammarRegistry *)
  locked : bool;         (* fLocked *)
  xsvalid : bool;        (* fXSModelIsValid *)
  bucket : table;        (* GrammarResolver::fGrammarBucket *)
  frompool : table;      (* GrammarResolver::fGrammarFromPool *)
  cacheg : bool;         (* GrammarResolver::fCacheGrammar *)
  usecached : bool;      (* GrammarResolver::fUseCachedGrammar *)
  serial : N             (* next grammar object number (harness bookkeeping) *)
}.

Definition pinit : pstate :=
  {| reg := []; locked := false; xsvalid := false; bucket := []; frompool := []; cacheg := false; usecached := false; serial := 1 |}.

Inductive pop : Type :=
| PCache (k : key)        (* pool->cacheGrammar(new grammar with key k) *)
| POrphan (k : key)       (* pool->orphanGrammar(k) *)
| PGet (k : key)          (* pool->retrieveGrammar *)
| PClear
| PLock | PUnlock
| RPut (k : key)          (* resolver->putGrammar(new grammar with key k) *)
| RGet (k : key)          (* resolver->getGrammar(k) *)
| RCacheAll               (* resolver->cacheGrammars() *)
| ROrphan (k : key)
| RReset | RResetCached
| RCacheFromParse (b : bool) | RUseCached (b : bool).

Inductive pres : Type := ResBool (b : bool) | ResGram (g : option gram) | ResUnit
| ResExc.   (* NoSuchElementException: RefHashTableOf::orphanKey on an absent key *)

(** XMLGrammarPoolImpl::cacheGrammar *)
Definition pool_cache (s : pstate) (k : key) (g : gram) : bool * pstate :=
  if locked s then (false, s)
  else if has (reg s) k then (false, s)
  else (true, {| reg := put (reg s) k g; locked := locked s; xsvalid := false; bucket := bucket s;
                 frompool := frompool s; cacheg := cacheg s; usecached := usecached s; serial := serial s |}).

(** XMLGrammarPoolImpl::orphanGrammar : None = the registry throws NoSuchElementException (absent key, pool unlocked);
    Some None = refused because locked; Some (Some g) = handed back *)
Definition pool_orphan (s : pstate) (k : key) : option (option gram) * pstate :=
  if locked s then (Some None, s)
  else match lookup (reg s) k with
       | None => (None, s)
       | Some g => (Some (Some g),
           {| reg := remove (reg s) k; locked := locked s; xsvalid := false;
              bucket := bucket s; frompool := frompool s; cacheg := cacheg s; usecached := usecached s; serial := serial s |})
       end.

(** XMLGrammarPoolImpl::clear *)
Definition pool_clear (s : pstate) : bool * pstate :=
  if locked s then (false, s)
  else (true, {| reg := []; locked := false; xsvalid := false; bucket := bucket s; frompool := frompool s;
                 cacheg := cacheg s; usecached := usecached s; serial := serial s |}).

Definition set_bucket (s : pstate) (b : table) : pstate :=
  {| reg := reg s; locked := locked s; xsvalid := xsvalid s; bucket := b; frompool := frompool s;
     cacheg := cacheg s; usecached := usecached s; serial := serial s |}.
Definition set_frompool (s : pstate) (f : table) : pstate :=
  {| reg := reg s; locked := locked s; xsvalid := xsvalid s; bucket := bucket s; frompool := f;
     cacheg := cacheg s; usecached := usecached s; serial := serial s |}.
Definition bump (s : pstate) : pstate :=
  {| reg := reg s; locked := locked s; xsvalid := xsvalid s; bucket := bucket s; frompool := frompool s;
     cacheg := cacheg s; usecached := usecached s; serial := N.succ (serial s) |}.

(** GrammarResolver::getGrammar : bucket, then (only with fUseCachedGrammar) referenced-from-pool, then the pool *)
Definition res_get (s : pstate) (k : key) : option gram * pstate :=
  match lookup (bucket s) k with
  | Some g => (Some g, s)
  | None =>
    if usecached s then
      match lookup (frompool s) k with
      | Some g => (Some g, s)
      | None => match lookup (reg s) k with
                | Some g => (Some g, set_frompool s (put (frompool s) k g))
                | None => (None, s)
                end
      end
    else (None, s)
  end.

(** GrammarResolver::cacheGrammars : every bucket grammar the pool accepts leaves the bucket *)
Fixpoint cache_all (keys : list key) (s : pstate) : pstate :=
  match keys with
  | [] => s
  | k :: rest =>
    match lookup (bucket s) k with
    | Some g => let (ok, s1) := pool_cache s k g in
                cache_all rest (if ok then set_bucket s1 (remove (bucket s1) k) else s1)
    | None => cache_all rest s
    end
  end.

Definition pstep (s : pstate) (o : pop) : pres * pstate :=
  match o with
  | PCache k => let (ok, s1) := pool_cache s k (serial s) in (ResBool ok, bump s1)
  | POrphan k => let (r, s1) := pool_orphan s k in (match r with None => ResExc | Some g => ResGram g end, s1)
  | PGet k => (ResGram (lookup (reg s) k), s)
  | PClear => let (ok, s1) := pool_clear s in (ResBool ok, s1)
  | PLock => (ResUnit, {| reg := reg s; locked := true; xsvalid := true; bucket := bucket s; frompool := frompool s;
                          cacheg := cacheg s; usecached := usecached s; serial := serial s |})
  | PUnlock => (ResUnit, {| reg := reg s; locked := false; xsvalid := (if locked s then false else xsvalid s);
                            bucket := bucket s; frompool := frompool s; cacheg := cacheg s; usecached := usecached s;
                            serial := serial s |})
  | RPut k =>
    let g := serial s in
    if cacheg s then
      let (ok, s1) := pool_cache s k g in
      if ok then (ResGram (Some g), bump s1) else (ResGram (Some g), bump (set_bucket s1 (put (bucket s1) k g)))
    else (ResGram (Some g), bump (set_bucket s (put (bucket s) k g)))
  | RGet k => let (g, s1) := res_get s k in (ResGram g, s1)
  | RCacheAll => (ResUnit, cache_all (map fst (bucket s)) s)
  | ROrphan k =>
    if cacheg s then
      let (r, s1) := pool_orphan s k in
      match r with
      | None => (ResExc, s1)
      | Some (Some g) => (ResGram (Some g), set_frompool s1 (remove (frompool s1) k))
      | Some None => (ResGram (lookup (bucket s1) k), set_bucket s1 (remove (bucket s1) k))
      end
    else match lookup (bucket s) k with
         | None => (ResExc, s)
         | Some g => (ResGram (Some g), set_bucket s (remove (bucket s) k))
         end
  | RReset => (ResUnit, set_bucket s [])
  | RResetCached => let (_, s1) := pool_clear s in (ResUnit, set_frompool s1 [])
  | RCacheFromParse b => (ResUnit, {| reg := reg s; locked := locked s; xsvalid := xsvalid s; bucket := []; frompool := frompool s;
                                      cacheg := b; usecached := usecached s; serial := serial s |})
  | RUseCached b => (ResUnit, {| reg := reg s; locked := locked s; xsvalid := xsvalid s; bucket := bucket s; frompool := frompool s;
                                 cacheg := cacheg s; usecached := b; serial := serial s |})
  end.

Definition prun (ops : list pop) (s : pstate) : pstate := fold_left (fun s o => snd (pstep s o)) ops s.

(** trace for the correspondence: result of every operation with the registry after it *)
Fixpoint ptrace (ops : list pop) (s : pstate) : list (pres * table) :=
  match ops with
  | [] => []
  | o :: rest => let (r, s1) := pstep s o in (r, reg s1) :: ptrace rest s1
  end.

(** operations that go through the resolver or are harmless to it (no direct removal from the pool) *)
Definition mediated (o : pop) : bool := match o with POrphan _ | PClear => false | _ => true end.

(** the cache-free lookup: the per-parse bucket, then (only if the user asked for cached grammars) the pool itself *)
Definition spec_get (s : pstate) (k : key) : option gram :=
  match lookup (bucket s) k with
  | Some g => Some g
  | None => if usecached s then lookup (reg s) k else None
  end.

