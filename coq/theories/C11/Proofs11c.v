(** The repaired matcher is sound and complete: [xmatch_fixed_tok fxd s t = true <-> Lre (re_of_tok fxd t) s]. *)
From Coq Require Import Arith PeanoNat Lia.
From XV Require Import C11.Spec11 C11.ModelRange11 C11.Model11.
Local Open Scope N_scope.

(** induction principle for the nested token type *)
Section TokInd.
  Variable P : tok -> Prop.
  Hypothesis HE : P TEmpty.
  Hypothesis HD : P TDot.
  Hypothesis HC : forall c, P (TChar c).
  Hypothesis HS : forall l, P (TString l).
  Hypothesis HR : forall n r, P (TRange n r).
  Hypothesis HCat : forall l, Forall P l -> P (TConcat l).
  Hypothesis HU : forall l, Forall P l -> P (TUnion l).
  Hypothesis HCl : forall mn mx t, P t -> P (TClosure mn mx t).
  Hypothesis HP : forall t, P t -> P (TParen t).
  Fixpoint tok_ind' (t : tok) : P t :=
    match t with
    | TEmpty => HE | TDot => HD | TChar c => HC c | TString l => HS l | TRange n r => HR n r
    | TConcat l => HCat l ((fix go (l : list tok) : Forall P l :=
                              match l with [] => Forall_nil P | x :: r => Forall_cons x (tok_ind' x) (go r) end) l)
    | TUnion l => HU l ((fix go (l : list tok) : Forall P l :=
                           match l with [] => Forall_nil P | x :: r => Forall_cons x (tok_ind' x) (go r) end) l)
    | TClosure mn mx t1 => HCl mn mx t1 (tok_ind' t1)
    | TParen t1 => HP t1 (tok_ind' t1)
    end.
End TokInd.

Section Fix.
Variable fxd : bool.
Variable s : list N.

(** [Acc L k off]: some prefix [w] of the subject at [off] lies in [L] and the continuation accepts after it *)
Definition Acc (L : list N -> Prop) (k : nat -> bool) (off : nat) : Prop :=
  exists w rest, skipn off s = w ++ rest /\ L w /\ k (off + length w)%nat = true.

Lemma skipn_add : forall (l : list N) a b, skipn (a + b) l = skipn b (skipn a l).
Proof.
  intros l a. revert l. induction a as [|a IH]; intros l b; [reflexivity |].
  destruct l as [|x l]; cbn [plus skipn].
  - destruct b; reflexivity.
  - apply IH.
Qed.

Lemma skipn_len_app : forall (w r : list N), skipn (length w) (w ++ r) = r.
Proof. induction w; intros r; cbn; auto. Qed.

Lemma skipn_after : forall off w rest, skipn off s = w ++ rest -> skipn (off + length w) s = rest.
Proof. intros off w rest E. rewrite skipn_add, E. apply skipn_len_app. Qed.

Lemma Acc_ext : forall (L1 L2 : list N -> Prop) k off, (forall w, L1 w <-> L2 w) -> Acc L1 k off <-> Acc L2 k off.
Proof.
  intros L1 L2 k off H. split; intros [w [rest [E [Hw Hk]]]]; exists w, rest; (split; [exact E |]); split;
    try exact Hk; apply H; exact Hw.
Qed.

Definition Lcat (L1 L2 : list N -> Prop) (w : list N) : Prop := exists w1 w2, w = w1 ++ w2 /\ L1 w1 /\ L2 w2.

(** composition: if [kb] decides acceptance of [L2] followed by [k], then [L1] followed by [kb] is [L1 L2] followed by [k] *)
Lemma Acc_comp : forall (L1 L2 : list N -> Prop) (kb k : nat -> bool) off,
  (forall o, kb o = true <-> Acc L2 k o) ->
  (Acc L1 kb off <-> Acc (Lcat L1 L2) k off).
Proof.
  intros L1 L2 kb k off Hkb. split.
  - intros [w1 [rest1 [E1 [H1 Hk]]]]. apply Hkb in Hk. destruct Hk as [w2 [rest2 [E2 [H2 Hk]]]].
    exists (w1 ++ w2), rest2. split.
    + rewrite (skipn_after off w1 rest1 E1) in E2. rewrite E1, E2. apply app_assoc.
    + split; [exists w1, w2; auto |]. rewrite app_length, Nat.add_assoc. exact Hk.
  - intros [w [rest [E [[w1 [w2 [Ew [H1 H2]]]] Hk]]]]. subst w. rewrite <- app_assoc in E.
    exists w1, (w2 ++ rest). split; [exact E |]. split; [exact H1 |]. apply Hkb.
    exists w2, rest. split; [exact (skipn_after off w1 _ E) |]. split; [exact H2 |].
    rewrite app_length, Nat.add_assoc in Hk. exact Hk.
Qed.

Lemma Acc_eps : forall k off, k off = true <-> Acc (fun w => w = []) k off.
Proof.
  intros k off. split.
  - intros H. exists [], (skipn off s). split; [reflexivity |]. split; [reflexivity |]. cbn. rewrite Nat.add_0_r. exact H.
  - intros [w [rest [_ [-> H]]]]. cbn in H. rewrite Nat.add_0_r in H. exact H.
Qed.

Lemma nth_skipn : forall (l : list N) off x, nth_error l off = Some x <-> exists r, skipn off l = x :: r.
Proof.
  intros l off. revert l. induction off as [|off IH]; intros l x.
  - destruct l as [|y l]; cbn.
    + split; [discriminate | intros [r H]; discriminate].
    + split; [intros H; inversion H; eauto | intros [r H]; inversion H; reflexivity].
  - destruct l as [|y l]; cbn.
    + split; [discriminate | intros [r H]; discriminate].
    + apply IH.
Qed.

Lemma fchar_spec : forall f k off,
  fchar s f k off = true <-> Acc (fun w => exists c, w = [c] /\ f c = true) k off.
Proof.
  intros f k off. unfold fchar. split.
  - destruct (nth_error s off) as [x|] eqn:E; [| discriminate]. intros H. apply andb_true_iff in H. destruct H as [Hf Hk].
    apply nth_skipn in E. destruct E as [r E]. exists [x], r. split; [exact E |]. split; [eauto |].
    cbn. rewrite Nat.add_1_r. exact Hk.
  - intros [w [rest [E [[c [-> Hf]] Hk]]]]. cbn in E, Hk.
    assert (En : nth_error s off = Some c) by (apply nth_skipn; eauto).
    rewrite En, Hf. rewrite Nat.add_1_r in Hk. exact Hk.
Qed.

Definition str_re (l : list N) : re := fold_right (fun c r => RCat (RChar c) r) REps l.

Lemma str_re_spec : forall l w, Lre (str_re l) w <-> w = l.
Proof.
  induction l as [|c l IH]; intros w; cbn.
  - tauto.
  - split.
    + intros [s1 [s2 [E [[d [-> Hd]] H2]]]]. apply N.eqb_eq in Hd. subst. apply IH in H2. subst. reflexivity.
    + intros ->. exists [c], l. split; [reflexivity |]. split; [exists c; split; [reflexivity | apply N.eqb_refl] | apply IH; reflexivity].
Qed.

Lemma prefix_at_spec : forall l off, prefix_at s off l = true <-> exists rest, skipn off s = l ++ rest.
Proof.
  induction l as [|c l IH]; intros off; cbn [prefix_at].
  - split; [intros _; exists (skipn off s); reflexivity | reflexivity].
  - split.
    + destruct (nth_error s off) as [x|] eqn:E; [| discriminate]. intros H. apply andb_true_iff in H. destruct H as [Hx Hp].
      apply N.eqb_eq in Hx. subst x. apply IH in Hp. destruct Hp as [rest Hp].
      apply nth_skipn in E. destruct E as [r E]. exists rest. rewrite E. cbn. f_equal.
      assert (E2 : skipn (off + 1) s = r) by (rewrite skipn_add, E; reflexivity).
      rewrite Nat.add_1_r in E2. rewrite <- E2. exact Hp.
    + intros [rest E]. cbn in E.
      assert (En : nth_error s off = Some c) by (apply nth_skipn; eauto).
      rewrite En, N.eqb_refl. cbn. apply IH. exists rest.
      assert (E2 : skipn (off + 1) s = l ++ rest) by (rewrite skipn_add, E; reflexivity).
      rewrite Nat.add_1_r in E2. exact E2.
Qed.

(** ** loops *)
Definition Lstar (L : list N -> Prop) (w : list N) : Prop := exists ss, w = concat ss /\ Forall L ss.
Definition Lmax (L : list N -> Prop) (j : nat) (w : list N) : Prop :=
  exists ss, w = concat ss /\ Forall L ss /\ (length ss <= j)%nat.
Definition Lpow (L : list N -> Prop) (i : nat) (w : list N) : Prop :=
  exists ss, w = concat ss /\ Forall L ss /\ length ss = i.

Section Loops.
Variable m : (nat -> bool) -> nat -> bool.
Variable L : list N -> Prop.
Hypothesis Hm : forall k off, m k off = true <-> Acc L k off.

Lemma opt_f_spec : forall k j off, opt_f m k j off = true <-> Acc (Lmax L j) k off.
Proof.
  intros k. induction j as [|j IH]; intros off; cbn [opt_f].
  - rewrite orb_false_r. rewrite Acc_eps. apply Acc_ext. intros w. split.
    + intros ->. exists []. split; [reflexivity |]. split; [constructor | cbn; lia].
    + intros [ss [E [_ Hl]]]. destruct ss; [subst; reflexivity | cbn in Hl; lia].
  - rewrite orb_true_iff. rewrite Hm. rewrite (Acc_comp L (Lmax L j) (opt_f m k j) k off IH). rewrite Acc_eps. split.
    + intros [[w [rest [E [-> Hk]]]] | [w [rest [E [[w1 [w2 [-> [H1 [ss [-> [F Hl]]]]]]] Hk]]]]].
      * exists [], rest. split; [exact E |]. split; [| exact Hk]. exists []. split; [reflexivity |]. split; [constructor | cbn; lia].
      * exists (w1 ++ concat ss), rest. split; [exact E |]. split; [| exact Hk].
        exists (w1 :: ss). split; [reflexivity |]. split; [constructor; assumption | cbn; lia].
    + intros [w [rest [E [[ss [-> [F Hl]]] Hk]]]]. destruct ss as [|x ss].
      * left. exists [], rest. auto.
      * right. inversion F; subst. exists (concat (x :: ss)), rest. split; [exact E |]. split; [| exact Hk].
        exists x, (concat ss). split; [reflexivity |]. split; [assumption |]. exists ss. cbn in Hl.
        split; [reflexivity |]. split; [assumption | lia].
Qed.

Lemma pow_f_spec : forall (tail k : nat -> bool) (L2 : list N -> Prop),
  (forall o, tail o = true <-> Acc L2 k o) ->
  forall i off, pow_f m tail i off = true <-> Acc (Lcat (Lpow L i) L2) k off.
Proof.
  intros tail k L2 Ht. induction i as [|i IH]; intros off; cbn [pow_f].
  - rewrite Ht. apply Acc_ext. intros w. split.
    + intros H. exists [], w. split; [reflexivity |]. split; [| exact H]. exists []. split; [reflexivity |]. split; [constructor | reflexivity].
    + intros [w1 [w2 [-> [[ss [-> [_ Hl]]] H2]]]]. destruct ss; [exact H2 | discriminate].
  - rewrite Hm. rewrite (Acc_comp L (Lcat (Lpow L i) L2) (pow_f m tail i) k off IH). apply Acc_ext. intros w. split.
    + intros [w1 [w23 [-> [H1 [w2 [w3 [-> [[ss [-> [F Hl]]] H3]]]]]]]].
      exists (w1 ++ concat ss), w3. split; [apply app_assoc |]. split; [| exact H3].
      exists (w1 :: ss). split; [reflexivity |]. split; [constructor; assumption | cbn; lia].
    + intros [w12 [w3 [-> [[ss [-> [F Hl]]] H3]]]]. destruct ss as [|x ss]; [discriminate |]. inversion F; subst.
      exists x, (concat ss ++ w3). split; [cbn; symmetry; apply app_assoc |]. split; [assumption |].
      exists (concat ss), w3. split; [reflexivity |]. split; [| exact H3]. exists ss. cbn in Hl.
      split; [reflexivity |]. split; [assumption | lia].
Qed.

(** a concatenation of pieces is empty or starts with a non-empty piece *)
Lemma concat_nonempty_split : forall ss, Forall L ss ->
  concat ss = [] \/ exists x rest, x <> [] /\ L x /\ Forall L rest /\ concat ss = x ++ concat rest.
Proof.
  induction ss as [|x ss IH]; intros F.
  - left. reflexivity.
  - inversion F; subst. destruct x as [|c x].
    + cbn. apply IH. assumption.
    + right. exists (c :: x), ss. split; [discriminate |]. auto.
Qed.

Lemma star_f_sound : forall k n off, star_f m k n off = true -> Acc (Lstar L) k off.
Proof.
  intros k. induction n as [|n IH]; intros off; cbn [star_f]; rewrite orb_true_iff.
  - intros [H | H]; [| discriminate]. apply Acc_eps in H. destruct H as [w [rest [E [-> Hk]]]].
    exists [], rest. split; [exact E |]. split; [| exact Hk]. exists []. split; [reflexivity | constructor].
  - intros [H | H].
    + apply Acc_eps in H. destruct H as [w [rest [E [-> Hk]]]].
      exists [], rest. split; [exact E |]. split; [| exact Hk]. exists []. split; [reflexivity | constructor].
    + apply Hm in H. destruct H as [w1 [rest1 [E1 [H1 Hk]]]]. apply andb_true_iff in Hk. destruct Hk as [_ Hk].
      apply IH in Hk. destruct Hk as [w2 [rest2 [E2 [[ss [-> F]] Hk]]]].
      exists (w1 ++ concat ss), rest2. split.
      * rewrite (skipn_after off w1 rest1 E1) in E2. rewrite E1, E2. apply app_assoc.
      * split; [exists (w1 :: ss); split; [reflexivity | constructor; assumption] |].
        rewrite app_length, Nat.add_assoc. exact Hk.
Qed.

Lemma star_f_complete : forall k n off, (length (skipn off s) <= n)%nat -> Acc (Lstar L) k off -> star_f m k n off = true.
Proof.
  intros k. induction n as [|n IH]; intros off Hn [w [rest [E [[ss [-> F]] Hk]]]]; cbn [star_f]; apply orb_true_iff.
  - left. rewrite E, app_length in Hn. assert (length (concat ss) = 0%nat) by lia. rewrite H, Nat.add_0_r in Hk. exact Hk.
  - destruct (concat_nonempty_split ss F) as [E0 | [x [ss' [Hx [Lx [F' E0]]]]]].
    + left. rewrite E0 in Hk. cbn in Hk. rewrite Nat.add_0_r in Hk. exact Hk.
    + right. apply Hm. rewrite E0 in E, Hk. rewrite <- app_assoc in E.
      exists x, (concat ss' ++ rest). split; [exact E |]. split; [exact Lx |].
      apply andb_true_iff. split.
      * apply Nat.ltb_lt. destruct x; [congruence | cbn; lia].
      * apply IH.
        -- rewrite (skipn_after off x _ E). rewrite E in Hn. rewrite app_length in Hn.
           destruct x; [congruence | cbn in Hn; lia].
        -- exists (concat ss'), rest. split; [exact (skipn_after off x _ E) |].
           split; [exists ss'; auto |]. rewrite app_length, Nat.add_assoc in Hk. exact Hk.
Qed.

End Loops.

(** ** the matcher *)
Lemma fmatch_spec : forall t k off, fmatch fxd s t k off = true <-> Acc (Lre (re_of_tok fxd t)) k off.
Proof.
  induction t as [| |c|l|neg r|l IHl|l IHl|mn mx c IH|t IH] using tok_ind'; intros k off.
  - cbn [fmatch re_of_tok Lre]. apply Acc_eps.
  - cbn [fmatch re_of_tok Lre]. apply fchar_spec.
  - cbn [fmatch re_of_tok Lre]. unfold RChar. cbn [Lre]. apply fchar_spec.
  - cbn [fmatch re_of_tok]. change (fold_right (fun c r => RCat (RChar c) r) REps l) with (str_re l).
    rewrite andb_true_iff, prefix_at_spec. split.
    + intros [[rest E] Hk]. exists l, rest. split; [exact E |]. split; [apply str_re_spec; reflexivity | exact Hk].
    + intros [w [rest [E [Hw Hk]]]]. apply str_re_spec in Hw. subst w. split; [eauto | exact Hk].
  - cbn [fmatch re_of_tok Lre]. apply fchar_spec.
  - (* concatenation *)
    cbn [fmatch re_of_tok]. revert k off. induction IHl as [|x l Hx Hl IHl']; intros k off.
    + cbn [Lre]. apply Acc_eps.
    + cbn [Lre]. rewrite Hx.
      apply (Acc_comp (Lre (re_of_tok fxd x)) _ _ k off). intros o. apply IHl'.
  - (* union *)
    cbn [fmatch re_of_tok]. induction IHl as [|x l Hx Hl IHl'].
    + cbn [Lre]. split; [discriminate | intros [w [rest [_ [[] _]]]]].
    + cbn [Lre]. rewrite orb_true_iff, Hx, IHl'. split.
      * intros [[w [rest [E [Hw Hk]]]] | [w [rest [E [Hw Hk]]]]]; exists w, rest; auto.
      * intros [w [rest [E [[Hw | Hw] Hk]]]]; [left | right]; exists w, rest; auto.
  - (* closure *)
    cbn [fmatch re_of_tok].
    set (L := Lre (re_of_tok fxd c)).
    destruct mx as [mx|].
    + destruct (Nat.ltb mx mn) eqn:Emn.
      * apply Nat.ltb_lt in Emn.
        rewrite (pow_f_spec (fmatch fxd s c) L IH (fun _ => false) k (fun _ => False)).
        2:{ intros o. split; [discriminate | intros [w [rest [_ [[] _]]]]]. }
        split.
        -- intros [w [rest [_ [[w1 [w2 [_ [_ []]]]] _]]]].
        -- intros [w [rest [_ [[ss [_ [_ [H1 H2]]]] _]]]]. cbn in H2. lia.
      * apply Nat.ltb_ge in Emn.
        rewrite (pow_f_spec (fmatch fxd s c) L IH _ k (Lmax L (mx - mn))).
        2:{ intros o. apply (opt_f_spec (fmatch fxd s c) L IH). }
        apply Acc_ext. intros w. cbn [Lre]. fold L. split.
        -- intros [w1 [w2 [-> [[ss1 [-> [F1 L1]]] [ss2 [-> [F2 L2]]]]]]].
           exists (ss1 ++ ss2). rewrite concat_app, app_length. split; [reflexivity |].
           split; [apply Forall_app; auto |]. cbn. split; lia.
        -- intros [ss [-> [F [H1 H2]]]]. cbn in H2.
           exists (concat (firstn mn ss)), (concat (skipn mn ss)).
           split; [rewrite <- concat_app, firstn_skipn; reflexivity |]. split.
           ++ exists (firstn mn ss). split; [reflexivity |]. split.
              ** rewrite <- (firstn_skipn mn ss) in F. apply Forall_app in F. tauto.
              ** rewrite firstn_length. lia.
           ++ exists (skipn mn ss). split; [reflexivity |]. split.
              ** rewrite <- (firstn_skipn mn ss) in F. apply Forall_app in F. tauto.
              ** rewrite skipn_length. lia.
    + rewrite (pow_f_spec (fmatch fxd s c) L IH _ k (Lstar L)).
      2:{ intros o. split.
          - apply (star_f_sound (fmatch fxd s c) L IH).
          - apply (star_f_complete (fmatch fxd s c) L IH). rewrite skipn_length. lia. }
      apply Acc_ext. intros w. cbn [Lre]. fold L. split.
      * intros [w1 [w2 [-> [[ss1 [-> [F1 L1]]] [ss2 [-> F2]]]]]].
        exists (ss1 ++ ss2). rewrite concat_app, app_length. split; [reflexivity |].
        split; [apply Forall_app; auto |]. cbn. split; [lia | exact I].
      * intros [ss [-> [F [H1 _]]]].
        exists (concat (firstn mn ss)), (concat (skipn mn ss)).
        split; [rewrite <- concat_app, firstn_skipn; reflexivity |]. split.
        -- exists (firstn mn ss). split; [reflexivity |]. split.
           ++ rewrite <- (firstn_skipn mn ss) in F. apply Forall_app in F. tauto.
           ++ rewrite firstn_length. lia.
        -- exists (skipn mn ss). split; [reflexivity |].
           rewrite <- (firstn_skipn mn ss) in F. apply Forall_app in F. tauto.
  - cbn [fmatch re_of_tok]. apply IH.
Qed.

Theorem xmatch_fixed_correct : forall t, xmatch_fixed_tok fxd s t = true <-> Lre (re_of_tok fxd t) s.
Proof.
  intros t. unfold xmatch_fixed_tok. rewrite fmatch_spec. split.
  - intros [w [rest [E [Hw Hk]]]]. cbn in E, Hk. apply Nat.eqb_eq in Hk.
    assert (rest = []).
    { subst s. rewrite app_length in Hk. destruct rest; [reflexivity | cbn in Hk; lia]. }
    subst rest. rewrite app_nil_r in E. subst w. exact Hw.
  - intros H. exists s, []. cbn. split; [symmetry; apply app_nil_r |]. split; [exact H | apply Nat.eqb_refl].
Qed.

End Fix.
