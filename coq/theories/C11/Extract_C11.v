(** Extraction of the executable C11 models and of the specification functions used as oracle.
    Only ExtrOcamlBasic is used: N/positive/nat stay the extracted inductive types. *)
From Coq Require Import Extraction ExtrOcamlBasic.
From XV Require Import C11.Spec11 C11.ModelRange11 C11.Model11 C11.ModelPre11 Gen.GenC11Cat.
Extraction Language OCaml.
Extraction "../ocaml/C11/gen_c11.ml"
  cs_mem dmatch_re named_ascii spec_cat_mem spec_word_pred spec_digit_pred cat_of cat_rle
  rt_new addRange sortRanges compactRanges mergeRanges subtractRanges intersectRanges complementRanges rt_match rmem
  named_tok parse compile omatch xmatch_tok run_re xsearch_tok run_fixed xmatch_fixed_tok re_of_tok sw_faithful sw_fixed
  fc_tok first_char minlen_u prepare_info xsearch_fc.
