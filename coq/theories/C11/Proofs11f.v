(** Soundness of the backtracking matcher AS IT STANDS (any setting of the repair switches, any fuel):
    whatever [omatch] returns was produced by the continuation at an offset reached through a word of the language of
    the op tree ([omatch_sound]); the op tree produced by [compile] denotes a subset of the language of the token
    tree ([compile_sound]); hence [xmatch_tok w fuel t s = XTrue -> Lre (re_of_tok (fx_dot w) t) s].
    All op kinds are covered: O_CHAR, O_DOT, O_RANGE/O_NRANGE, O_STRING, O_UNION (matchUnion with context copies),
    O_CLOSURE (with the fOffsets bookkeeping), O_FINITE_CLOSURE, O_QUESTION, O_CAPTURE marks, empty. *)
From Coq Require Import Arith PeanoNat Lia.
From XV Require Import C11.Spec11 C11.ModelRange11 C11.Model11 C11.Proofs11b C11.Proofs11c.
Local Open Scope N_scope.

Section Sound.
Variable w : sw.
Variable xp sl : bool.
Variable s : list N.

Definition dotf : N -> bool := if xp then xp_dot (fx_dot w) sl else dot_ok (fx_dot w).

(** language of an op tree (the fragment itself, without its continuation) *)
Fixpoint Lop (o : op) (v : list N) : Prop :=
  match o with
  | OEmpty => v = []
  | OMark => v = []
  | OChar c => exists x, v = [x] /\ N.eqb c x = true
  | ODot => exists x, v = [x] /\ dotf x = true
  | ORange n r => exists x, v = [x] /\ rt_match n r x = true
  | OString l => v = l
  | OCat a b => exists v1 v2, v = v1 ++ v2 /\ Lop a v1 /\ Lop b v2
  | OUnion l => (fix any (l : list op) : Prop := match l with [] => False | x :: r => Lop x v \/ any r end) l
  | OClosure _ c => exists ss, v = concat ss /\ Forall (Lop c) ss
  | OFinClosure _ c => exists ss, v = concat ss /\ Forall (Lop c) ss
  | OQuestion c => v = [] \/ Lop c v
  end.

Lemma Lop_union_in : forall l b v, In b l -> Lop b v -> Lop (OUnion l) v.
Proof.
  induction l as [|x l IH]; intros b v Hin Hb; [destruct Hin |]. cbn [Lop]. destruct Hin as [-> | Hin].
  - left. exact Hb.
  - right. exact (IH b v Hin Hb).
Qed.

(** [Reach L off e]: a word of [L] leads from offset [off] to offset [e] in the subject *)
Definition Reach (L : list N -> Prop) (off e : nat) : Prop :=
  exists v rest, skipn off s = v ++ rest /\ L v /\ e = (off + length v)%nat.

Lemma Reach_nil : forall (L : list N -> Prop) off, L [] -> Reach L off off.
Proof. intros L off H. exists [], (skipn off s). split; [reflexivity |]. split; [exact H | cbn; lia]. Qed.

Lemma Reach_comp : forall (L1 L2 L : list N -> Prop) a b c,
  (forall v1 v2, L1 v1 -> L2 v2 -> L (v1 ++ v2)) -> Reach L1 a b -> Reach L2 b c -> Reach L a c.
Proof.
  intros L1 L2 L a b c HL [v1 [r1 [E1 [H1 Eb]]]] [v2 [r2 [E2 [H2 Ec]]]]. subst b.
  rewrite (skipn_after s a v1 r1 E1) in E2. exists (v1 ++ v2), r2. split; [rewrite E1, E2; apply app_assoc |].
  split; [apply HL; assumption |]. rewrite app_length. lia.
Qed.

Lemma Reach_weaken : forall (L1 L2 : list N -> Prop) a b, (forall v, L1 v -> L2 v) -> Reach L1 a b -> Reach L2 a b.
Proof. intros L1 L2 a b H [v [r [E [Hv Eb]]]]. exists v, r. auto. Qed.

Definition Lstar (L : list N -> Prop) (v : list N) : Prop := exists ss, v = concat ss /\ Forall L ss.

Lemma Lstar_nil : forall L, Lstar L [].
Proof. intros L. exists []. split; [reflexivity | constructor]. Qed.

Lemma Lstar_cons : forall (L : list N -> Prop) v1 v2, L v1 -> Lstar L v2 -> Lstar L (v1 ++ v2).
Proof. intros L v1 v2 H1 [ss [-> F]]. exists (v1 :: ss). split; [reflexivity | constructor; assumption]. Qed.

(** "the answer came out of the continuation [k], called at an offset that [L] reaches from [off]" *)
Definition Via (L : list N -> Prop) (k : kont) (off e : nat) : Prop :=
  exists m stm st'', Reach L off m /\ k m stm = MR (Some e) st''.

Lemma one_char_sound : forall f k off st e st',
  one_char s f k off st = MR (Some e) st' ->
  Via (fun v => exists x, v = [x] /\ f x = true) k off e.
Proof.
  intros f k off st e st' H. unfold one_char in H. destruct (nth_error s off) as [x|] eqn:En; [| discriminate].
  destruct (negb (is_surrogate x) && f x) eqn:Ef; [| discriminate]. apply andb_true_iff in Ef. destruct Ef as [_ Ef].
  apply nth_skipn in En. destruct En as [r En].
  exists (S off), st, st'. split; [| exact H]. exists [x], r. split; [exact En |]. split; [eauto | cbn; lia].
Qed.

Lemma union_go_sound : forall run st l best bst e st',
  union_go (length s) st run l best bst = MR (Some e) st' ->
  (best = Some e /\ bst = st') \/ exists b, In b l /\ run b = MR (Some e) st'.
Proof.
  intros run st. induction l as [|b1 r IH]; intros best bst e st' H; cbn [union_go] in H.
  - destruct best as [b|]; [| discriminate]. inversion H; subst. left. auto.
  - destruct (run b1) as [|[e1|] st1] eqn:Er; [discriminate | |].
    + destruct (Nat.leb e1 (length s) && match best with Some b => Nat.ltb b e1 | None => true end)%bool.
      * destruct (Nat.eqb e1 (length s)).
        -- inversion H; subst. right. exists b1. split; [left; reflexivity | exact Er].
        -- destruct (IH _ _ _ _ H) as [[E1 E2] | [b [Hin Hb]]].
           ++ inversion E1; subst. right. exists b1. split; [left; reflexivity | exact Er].
           ++ right. exists b. split; [right; exact Hin | exact Hb].
      * destruct (IH _ _ _ _ H) as [? | [b [Hin Hb]]]; [left; assumption |]. right. exists b. split; [right; exact Hin | exact Hb].
    + destruct (IH _ _ _ _ H) as [? | [b [Hin Hb]]]; [left; assumption |]. right. exists b. split; [right; exact Hin | exact Hb].
Qed.

Lemma fin_loop_sound : forall (L : list N -> Prop) (run fin : nat -> offs -> mres),
  (forall off st e1 st1, run off st = MR (Some e1) st1 -> Reach L off e1) ->
  forall n off st e st', fin_loop run fin n off st = MR (Some e) st' -> Via (Lstar L) fin off e.
Proof.
  intros L run fin Hrun. induction n as [|n IH]; intros off st e st' H; cbn [fin_loop] in H; [discriminate |].
  destruct (run off st) as [|[e1|] st1] eqn:Er; [discriminate | |].
  - destruct (Nat.eqb e1 off).
    + exists off, st1, st'. split; [apply Reach_nil; apply Lstar_nil | exact H].
    + destruct (IH _ _ _ _ H) as [m [stm [st'' [R Hk]]]]. exists m, stm, st''. split; [| exact Hk].
      apply (Reach_comp L (Lstar L) (Lstar L) off e1 m); [apply Lstar_cons | exact (Hrun _ _ _ _ Er) | exact R].
  - exists off, st1, st'. split; [apply Reach_nil; apply Lstar_nil | exact H].
Qed.

Theorem omatch_sound : forall fuel o k off st e st',
  omatch w xp sl s fuel o k off st = MR (Some e) st' -> Via (Lop o) k off e.
Proof.
  induction fuel as [|f IH]; intros o k off st e st' H; [discriminate |].
  destruct o as [| c | | neg r | lit | a b | l | id c | id c | c |]; cbn [omatch] in H.
  - (* OEmpty *) exists off, st, st'. split; [apply Reach_nil; reflexivity | exact H].
  - (* OChar *) exact (one_char_sound _ _ _ _ _ _ H).
  - (* ODot *) exact (one_char_sound _ _ _ _ _ _ H).
  - (* ORange *) exact (one_char_sound _ _ _ _ _ _ H).
  - (* OString *)
    destruct (prefix_at s off lit) eqn:Ep; [| discriminate]. apply prefix_at_spec in Ep. destruct Ep as [rest Ep].
    exists (off + length lit)%nat, st, st'. split; [| exact H]. exists lit, rest. split; [exact Ep |]. split; reflexivity.
  - (* OCat *)
    destruct (IH _ _ _ _ _ _ H) as [m1 [st1 [st1' [R1 H1]]]]. destruct (IH _ _ _ _ _ _ H1) as [m2 [st2 [st2' [R2 H2]]]].
    exists m2, st2, st2'. split; [| exact H2].
    apply (Reach_comp (Lop a) (Lop b) (Lop (OCat a b)) off m1 m2); [| exact R1 | exact R2].
    intros v1 v2 Ha Hb. cbn [Lop]. exists v1, v2. auto.
  - (* OUnion *)
    destruct (union_go_sound _ _ _ _ _ _ _ H) as [[E _] | [b [Hin Hb]]]; [discriminate |].
    destruct (IH _ _ _ _ _ _ Hb) as [m [stm [st'' [R Hk]]]]. exists m, stm, st''. split; [| exact Hk].
    apply (Reach_weaken (Lop b)); [| exact R]. intros v Hv. exact (Lop_union_in l b v Hin Hv).
  - (* OClosure *)
    assert (Enter : forall st0, match omatch w xp sl s f c (fun o' st' => omatch w xp sl s f (OClosure id c) k o' st') off st0 with
                                | MFuel => MFuel
                                | MR r st1 =>
                                    match r with
                                    | Some e => MR (Some e) (match id with Some i => set_nth st1 i None | None => st1 end)
                                    | None => k off (match id with Some i => set_nth st1 i None | None => st1 end)
                                    end
                                end = MR (Some e) st' -> Via (Lop (OClosure id c)) k off e).
    { intros st0 HE.
      destruct (omatch w xp sl s f c (fun o' st'0 => omatch w xp sl s f (OClosure id c) k o' st'0) off st0) as [|[e1|] st1] eqn:Ec;
        [discriminate | |].
      - assert (e1 = e) by (inversion HE; reflexivity). subst e1.
        destruct (IH _ _ _ _ _ _ Ec) as [m1 [stm1 [st1' [R1 Hk1]]]].
        destruct (IH _ _ _ _ _ _ Hk1) as [m2 [stm2 [st2' [R2 Hk2]]]]. exists m2, stm2, st2'. split; [| exact Hk2].
        apply (Reach_comp (Lop c) (Lop (OClosure id c)) (Lop (OClosure id c)) off m1 m2); [| exact R1 | exact R2].
        intros v1 v2 Hv1 Hv2. cbn [Lop] in *. apply (Lstar_cons (Lop c)); assumption.
      - eexists off, _, st'. split; [apply Reach_nil; cbn [Lop]; apply (Lstar_nil (Lop c)) | exact HE]. }
    destruct id as [i|].
    + destruct (slot_is st i off).
      * eexists off, _, st'. split; [apply Reach_nil; cbn [Lop]; apply (Lstar_nil (Lop c)) | exact H].
      * exact (Enter _ H).
    + exact (Enter _ H).
  - (* OFinClosure *)
    assert (Run : forall st0, fin_loop (omatch w xp sl s f c (fun o' st'0 => MR (Some o') st'0))
                                (fun off0 st1 => k off0 (match id with Some i => set_nth st1 i None | None => st1 end)) f off st0
                              = MR (Some e) st' -> Via (Lop (OFinClosure id c)) k off e).
    { intros st0 HE.
      assert (Hrun : forall off0 st1 e1 st2,
                omatch w xp sl s f c (fun o' st'0 => MR (Some o') st'0) off0 st1 = MR (Some e1) st2 -> Reach (Lop c) off0 e1).
      { intros off0 st1 e1 st2 Hr. destruct (IH _ _ _ _ _ _ Hr) as [m [stm [st'' [R Hk]]]]. inversion Hk; subst. exact R. }
      destruct (fin_loop_sound (Lop c) _ _ Hrun _ _ _ _ _ HE) as [m [stm [st'' [R Hk]]]].
      eexists m, _, st''. split; [exact R | exact Hk]. }
    destruct id as [i|].
    + destruct (slot_is st i off).
      * eexists off, _, st'. split; [apply Reach_nil; cbn [Lop]; apply (Lstar_nil (Lop c)) | exact H].
      * exact (Run _ H).
    + exact (Run _ H).
  - (* OQuestion *)
    destruct (omatch w xp sl s f c k off st) as [|[e1|] st1] eqn:Ec; [discriminate | |].
    + assert (e1 = e) by (inversion H; reflexivity). subst e1.
      destruct (IH _ _ _ _ _ _ Ec) as [m [stm [st'' [R Hk]]]]. exists m, stm, st''. split; [| exact Hk].
      apply (Reach_weaken (Lop c)); [| exact R]. intros v Hv. cbn [Lop]. right. exact Hv.
    + exists off, st1, st'. split; [apply Reach_nil; cbn [Lop]; left; reflexivity | exact H].
  - (* OMark *) exists off, st, st'. split; [apply Reach_nil; reflexivity | exact H].
Qed.

End Sound.
