(** Property C11 -- Regular expressions match exactly the language their syntax defines.
    Only the property theorems: each is closed by [exact] of a lemma of Proofs11*.v (or by [vm_compute] on a literal
    witness) and followed by [Print Assumptions].  Spec: Spec11.v.  Models: ModelRange11.v (RangeToken), Model11.v
    (ParserForXMLSchema, compile, match; the \s \d \w \i \c sets come from Gen/GenC11.v, regenerated on every run).

    Not proved here (checked by the correspondence and the extracted oracle only): soundness of the matcher as it
    stands (T11_match_sound of the design), the set semantics of subtractRanges / intersectRanges / complementRanges,
    the parser round trip, pre-filters, tokenize/replace. *)
From Coq Require Import Arith PeanoNat.
From XV Require Import C11.Spec11 C11.ModelRange11 C11.Model11 C11.Proofs11a C11.Proofs11b C11.Proofs11c.
Local Open Scope N_scope.

(* ---------------------------------------------------------------------------------------------- *)
(** * the specification's matcher (the oracle of the correspondence) decides the denotational language *)
Theorem T11_spec_matcher : forall r s, dmatch_re r s = true <-> Lre r s.
Proof. exact dmatch_re_spec. Qed.
Print Assumptions T11_spec_matcher.

(** * quantifiers: n copies followed by m-n nested options (resp. a star) denote the n..m-fold (resp. >= n-fold) power *)
Theorem T11_quantifier : forall a n m s, (n <= m)%nat ->
  (Lc (KCat (kpow (core a) n) (kopt (core a) (m - n))) s <->
   exists ss, s = concat ss /\ Forall (Lre a) ss /\ (n <= length ss)%nat /\ (length ss <= m)%nat).
Proof. exact quant_expand_bounded. Qed.
Print Assumptions T11_quantifier.

Theorem T11_quantifier_unbounded : forall a n s,
  (Lc (KCat (kpow (core a) n) (KStar (core a))) s <-> exists ss, s = concat ss /\ Forall (Lre a) ss /\ (n <= length ss)%nat).
Proof. exact quant_expand_unbounded. Qed.
Print Assumptions T11_quantifier_unbounded.

Example T11_quantifier_nonvacuous : dmatch_re (RRep 2 (Some 3%nat) (RChar 97)) [97; 97; 97] = true /\
                                    dmatch_re (RRep 2 (Some 3%nat) (RChar 97)) [97] = false /\
                                    dmatch_re (RRep 2 (Some 3%nat) (RChar 97)) [97; 97; 97; 97] = false.
Proof. vm_compute. repeat split. Qed.

(* ---------------------------------------------------------------------------------------------- *)
(** * range algebra (T11_range_algebra, partial: sort, compact, merge, repaired addRange, match, array bounds) *)
Theorem T11_range_sort : forall l c, rmem (rsort l) c = rmem l c /\ sorted_ok (rsort l) = true.
Proof. intros l c. split; [apply rmem_rsort | apply sorted_rsort]. Qed.
Print Assumptions T11_range_sort.

(** compactRanges keeps the set and yields strictly increasing, disjoint, non-adjacent ranges *)
Theorem T11_range_compact : forall l c, lo_sorted 0 l = true ->
  rmem (compact_list l) c = rmem l c /\ compact_ok (compact_list l) = true.
Proof. exact compact_list_spec. Qed.
Print Assumptions T11_range_compact.

Example T11_range_compact_nonvacuous :
  lo_sorted 0 [(1, 3); (2, 5); (6, 6); (9, 12)] = true /\ compact_list [(1, 3); (2, 5); (6, 6); (9, 12)] = [(1, 6); (9, 12)].
Proof. vm_compute. split; reflexivity. Qed.

Theorem T11_range_merge : forall t o c, rt_wf t -> rt_wf o ->
  rmem (rs (mergeRanges t o)) c = rmem (rs t) c || rmem (rs o) c.
Proof. exact mergeRanges_spec. Qed.
Print Assumptions T11_range_merge.

(** addRange with fixes/C11-addrange-overlap.patch denotes the union with the (normalised) interval *)
Theorem T11_range_add : forall t a b c, rt_wf t ->
  rmem (rs (addRange true t a b)) c = rmem (rs t) c || interval a b c.
Proof. exact addRange_fixed_spec. Qed.
Print Assumptions T11_range_add.

Example T11_range_add_nonvacuous : rt_wf (addRange true rt_new 1 5) /\ rs (addRange true (addRange true rt_new 1 5) 3 9) = [(1, 5); (3, 9)].
Proof. split; [| vm_compute; reflexivity]. unfold rt_wf. vm_compute. repeat split; discriminate. Qed.

(** F26: addRange as it stands loses an interval *)
Theorem T11_addRange_drop_refuted :
  exists t a b c, rt_wf t /\ interval a b c = true /\ rmem (rs (addRange false t a b)) c = false.
Proof.
  exists (addRange false rt_new 1 5), 3, 9, 7. split; [| split; vm_compute; reflexivity].
  unfold rt_wf. vm_compute. repeat split; discriminate.
Qed.
Print Assumptions T11_addRange_drop_refuted.

(** RangeToken::match (bitmap below 256, scan above) is membership, negated for T_NRANGE *)
Theorem T11_range_match : forall neg l c, compact_ok l = true -> rt_match neg l c = xorb neg (rmem l c).
Proof. exact rt_match_spec. Qed.
Print Assumptions T11_range_match.

(** index safety: fElemCount never exceeds the fMaxCount the C++ computes (used by C01) *)
Theorem T11_range_cap_add : forall fx t a b, cap_ok t -> (2 <= maxc t)%nat -> cap_ok (addRange fx t a b).
Proof. exact addRange_cap. Qed.
Print Assumptions T11_range_cap_add.

Theorem T11_range_cap_merge : forall t o, cap_ok t -> cap_ok o -> cap_ok (mergeRanges t o).
Proof. exact mergeRanges_cap. Qed.
Print Assumptions T11_range_cap_merge.

(* ---------------------------------------------------------------------------------------------- *)
(** * the multi-character escapes read back from the library: ordering and ASCII part *)
Definition named_sets : list (N * list rng * list rng) :=
  [(115, named_lc_s, named_uc_s); (100, named_lc_d, named_uc_d); (119, named_lc_w, named_uc_w);
   (105, named_lc_i, named_uc_i); (99, named_lc_c, named_uc_c)].

Definition named_ok (x : N * list rng * list rng) : bool :=
  let '(k, lc, uc) := x in
  compact_ok lc && compact_ok uc &&
  forallb (fun c => Bool.eqb (rmem lc c) (named_ascii k c) && Bool.eqb (rmem uc c) (negb (named_ascii k c))) (nrange 128).

Theorem T11_named_ascii : forall k lc uc c, In (k, lc, uc) named_sets -> c < 128 ->
  compact_ok lc = true /\ compact_ok uc = true /\ rmem lc c = named_ascii k c /\ rmem uc c = negb (named_ascii k c).
Proof.
  intros k lc uc c Hin Hc.
  assert (A : forallb named_ok named_sets = true) by (vm_compute; reflexivity).
  rewrite forallb_forall in A. specialize (A _ Hin). unfold named_ok in A.
  apply andb_true_iff in A. destruct A as [A S]. apply andb_true_iff in A. destruct A as [A1 A2].
  rewrite forallb_forall in S. specialize (S c (nrange_in 128 c Hc)).
  apply andb_true_iff in S. destruct S as [S1 S2]. apply Bool.eqb_prop in S1. apply Bool.eqb_prop in S2. auto.
Qed.
Print Assumptions T11_named_ascii.

(* ---------------------------------------------------------------------------------------------- *)
(** * the matcher *)
(** the repaired matcher (defect switch of F15/F27/F28) accepts exactly the language of the token tree *)
Theorem T11_fixed_correct : forall fxd s t, xmatch_fixed_tok fxd s t = true <-> Lre (re_of_tok fxd t) s.
Proof. exact xmatch_fixed_correct. Qed.
Print Assumptions T11_fixed_correct.

Definition t_a_star_ab_opt : tok := TConcat [TClosure 0 None (TChar 97); TUnion [TParen (TConcat [TString [97; 98]]); TEmpty]].
Definition t_alt_star : tok := TClosure 0 None (TParen (TUnion [TConcat [TString [97; 98]]; TChar 97; TConcat [TString [98; 98]]])).

Example T11_parse_witness : parse sw_faithful [97; 42; 40; 97; 98; 41; 63] = Ok t_a_star_ab_opt.
Proof. vm_compute. reflexivity. Qed.

(** F15: completeness of the matcher as it stands is refuted: a*(ab)? rejects "ab" and "aab", (ab|a|bb)* rejects "abb" *)
Theorem T11_match_complete_refuted :
  exists t s, Lre (re_of_tok false t) s /\ xmatch_tok sw_faithful 200 t s = XFalse.
Proof.
  exists t_a_star_ab_opt, [97; 98]. split; [| vm_compute; reflexivity].
  apply T11_fixed_correct. vm_compute. reflexivity.
Qed.
Print Assumptions T11_match_complete_refuted.

Example T11_match_complete_refuted_2 :
  xmatch_tok sw_faithful 200 t_a_star_ab_opt [97; 97; 98] = XFalse /\ xmatch_fixed_tok false [97; 97; 98] t_a_star_ab_opt = true /\
  xmatch_tok sw_faithful 200 t_alt_star [97; 98; 98] = XFalse /\ xmatch_fixed_tok false [97; 98; 98] t_alt_star = true /\
  xmatch_tok sw_faithful 200 t_a_star_ab_opt [97; 97] = XTrue.
Proof. vm_compute. repeat split. Qed.

(** F27: [b]*[^a] rejects "bb" because doTokenOverlap intersects the negated class as if it were positive;
    with the repaired overlap test the same matcher accepts *)
Definition t_overlap : tok := TConcat [TClosure 0 None (TRange false [(98, 98)]); TRange true [(97, 97)]].
Example T11_overlap_refuted :
  xmatch_tok sw_faithful 200 t_overlap [98; 98] = XFalse /\ xmatch_tok (mkSw false true false) 200 t_overlap [98; 98] = XTrue /\
  xmatch_fixed_tok false [98; 98] t_overlap = true.
Proof. vm_compute. repeat split. Qed.

(** F28: the nested closure ( a* )* followed by b, on the subject "a": the recursion of match never ends (here: more than 3000 nested calls on a one-character
    subject; the implementation overflows its stack) *)
Definition t_nested : tok := TConcat [TClosure 0 None (TParen (TClosure 0 None (TChar 97))); TChar 98].
Example T11_match_diverges_witness :
  xmatch_tok sw_faithful 3000 t_nested [97] = XDiverge /\ xmatch_fixed_tok false [97] t_nested = false /\
  xmatch_tok sw_faithful 200 t_nested [97; 98] = XTrue.
Proof. vm_compute. repeat split. Qed.

(** F29: '.' rejects U+2028 and U+1000A *)
Example T11_dot_refuted :
  xmatch_tok sw_faithful 50 TDot [0x2028] = XFalse /\ xmatch_tok sw_faithful 50 TDot [0x1000A] = XFalse /\
  xmatch_tok (mkSw false false true) 50 TDot [0x1000A] = XTrue /\ xmatch_tok sw_faithful 50 TDot [10] = XFalse.
Proof. vm_compute. repeat split. Qed.
