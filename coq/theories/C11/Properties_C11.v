(** Property C11 -- Regular expressions match exactly the language their syntax defines.
    Only the property theorems: each is closed by [exact] of a lemma of Proofs11*.v (or by [vm_compute] on a literal
    witness) and followed by [Print Assumptions].  Spec: Spec11.v.  Models: ModelRange11.v (RangeToken), Model11.v
    (ParserForXMLSchema, compile, match; the \s \d \w \i \c sets come from Gen/GenC11.v, regenerated on every run).

    Not proved here (checked by the correspondence and the extracted oracle only): completeness on a deterministic
    class (T11_match_complete_det of the design), the parser round trip (the parser model is tied by correspondence),
    the Boyer-Moore fixed-string filter, option i, tokenize/replace.  Pre-filters fMinLength / fFirstChar: necessity
    theorems at the end of this file. *)
From Coq Require Import Arith PeanoNat.
From XV Require Import C11.Spec11 C11.ModelRange11 C11.Model11 C11.Proofs11a C11.Proofs11b C11.Proofs11c C11.Proofs11d C11.Proofs11e C11.Proofs11f C11.Proofs11g C11.Proofs11h C11.ModelPre11 C11.Proofs11i C11.Proofs11j Gen.GenC11Cat.
Local Open Scope N_scope.

(* ---------------------------------------------------------------------------------------------- *)
(** * the specification's matcher (the oracle of the correspondence) decides the denotational language *)
Theorem T11_spec_matcher : forall r s, dmatch_re r s = true <-> Lre r s.
Proof. exact dmatch_re_spec. Qed.
Print Assumptions T11_spec_matcher.

(** * quantifiers: n copies followed by m-n nested options (resp. a star) denote the n..m-fold (resp. >= n-fold) power *)
Theorem T11_quantifier : forall a n m s, (n <= m)%nat ->
  (Lc (KCat (kpow (core a) n) (kopt (core a) (m - n))) s <->
   exists ss, s = concat ss /\ Forall (Lre a) ss /\ (n <= length ss)%nat /\ (length ss <= m)%nat).
Proof. exact quant_expand_bounded. Qed.
Print Assumptions T11_quantifier.

Theorem T11_quantifier_unbounded : forall a n s,
  (Lc (KCat (kpow (core a) n) (KStar (core a))) s <-> exists ss, s = concat ss /\ Forall (Lre a) ss /\ (n <= length ss)%nat).
Proof. exact quant_expand_unbounded. Qed.
Print Assumptions T11_quantifier_unbounded.

Example T11_quantifier_nonvacuous : dmatch_re (RRep 2 (Some 3%nat) (RChar 97)) [97; 97; 97] = true /\
                                    dmatch_re (RRep 2 (Some 3%nat) (RChar 97)) [97] = false /\
                                    dmatch_re (RRep 2 (Some 3%nat) (RChar 97)) [97; 97; 97; 97] = false.
Proof. vm_compute. repeat split. Qed.

(* ---------------------------------------------------------------------------------------------- *)
(** * range algebra (T11_range_algebra: sort, compact, merge, repaired addRange, subtract, intersect, complement, match, array bounds) *)
Theorem T11_range_sort : forall l c, rmem (rsort l) c = rmem l c /\ sorted_ok (rsort l) = true.
Proof. intros l c. split; [apply rmem_rsort | apply sorted_rsort]. Qed.
Print Assumptions T11_range_sort.

(** compactRanges keeps the set and yields strictly increasing, disjoint, non-adjacent ranges *)
Theorem T11_range_compact : forall l c, lo_sorted 0 l = true ->
  rmem (compact_list l) c = rmem l c /\ compact_ok (compact_list l) = true.
Proof. exact compact_list_spec. Qed.
Print Assumptions T11_range_compact.

Example T11_range_compact_nonvacuous :
  lo_sorted 0 [(1, 3); (2, 5); (6, 6); (9, 12)] = true /\ compact_list [(1, 3); (2, 5); (6, 6); (9, 12)] = [(1, 6); (9, 12)].
Proof. vm_compute. split; reflexivity. Qed.

Theorem T11_range_merge : forall t o c, rt_wf t -> rt_wf o ->
  rmem (rs (mergeRanges t o)) c = rmem (rs t) c || rmem (rs o) c.
Proof. exact mergeRanges_spec. Qed.
Print Assumptions T11_range_merge.

(** addRange with fixes/C11-addrange-overlap.patch denotes the union with the (normalised) interval *)
Theorem T11_range_add : forall t a b c, rt_wf t ->
  rmem (rs (addRange true t a b)) c = rmem (rs t) c || interval a b c.
Proof. exact addRange_fixed_spec. Qed.
Print Assumptions T11_range_add.

Example T11_range_add_nonvacuous : rt_wf (addRange true rt_new 1 5) /\ rs (addRange true (addRange true rt_new 1 5) 3 9) = [(1, 5); (3, 9)].
Proof. split; [| vm_compute; reflexivity]. unfold rt_wf. vm_compute. repeat split; discriminate. Qed.

(** F26: addRange as it stands loses an interval *)
Theorem T11_addRange_drop_refuted :
  exists t a b c, rt_wf t /\ interval a b c = true /\ rmem (rs (addRange false t a b)) c = false.
Proof.
  exists (addRange false rt_new 1 5), 3, 9, 7. split; [| split; vm_compute; reflexivity].
  unfold rt_wf. vm_compute. repeat split; discriminate.
Qed.
Print Assumptions T11_addRange_drop_refuted.

(** RangeToken::match (bitmap below 256, scan above) is membership, negated for T_NRANGE *)
Theorem T11_range_match : forall neg l c, compact_ok l = true -> rt_match neg l c = xorb neg (rmem l c).
Proof. exact rt_match_spec. Qed.
Print Assumptions T11_range_match.


(** subtractRanges / intersectRanges / complementRanges denote difference, intersection and complement within
    0..0x10FFFF.  [rt_inv]: the token is well formed and its fSorted / fCompacted flags are truthful. *)
Theorem T11_range_subtract : forall t o c, rt_inv t -> rt_inv o ->
  rmem (rs (subtractRanges t o false)) c = rmem (rs t) c && negb (rmem (rs o) c).
Proof. exact subtractRanges_spec. Qed.
Print Assumptions T11_range_subtract.

Theorem T11_range_subtract_nrange : forall t o c, rt_inv t -> rt_inv o -> alloc t = true -> alloc o = true ->
  rmem (rs (subtractRanges t o true)) c = rmem (rs t) c && negb (negb (rmem (rs o) c)).
Proof. exact subtractRanges_neg_spec. Qed.
Print Assumptions T11_range_subtract_nrange.

Theorem T11_range_intersect : forall t o c, rt_inv t -> rt_inv o -> alloc t = true -> alloc o = true ->
  rmem (rs (intersectRanges t o)) c = rmem (rs t) c && rmem (rs o) c.
Proof. exact intersectRanges_spec. Qed.
Print Assumptions T11_range_intersect.

Theorem T11_range_complement : forall fx t c, rt_inv t -> alloc t = true ->
  (forall p, In p (rs t) -> snd p <= 0x10FFFF) -> c <= 0x10FFFF ->
  rmem (rs (complementRanges fx t)) c = negb (rmem (rs t) c).
Proof. exact complementRanges_spec. Qed.
Print Assumptions T11_range_complement.

Theorem T11_range_cap_subtract : forall t o oneg, rt_inv t -> rt_inv o -> cap_ok t -> cap_ok o -> cap_ok (subtractRanges t o oneg).
Proof. exact subtractRanges_cap. Qed.
Print Assumptions T11_range_cap_subtract.

Theorem T11_range_cap_intersect : forall t o, rt_inv t -> rt_inv o -> cap_ok t -> cap_ok o -> cap_ok (intersectRanges t o).
Proof. exact intersectRanges_cap. Qed.
Print Assumptions T11_range_cap_intersect.

Theorem T11_range_cap_complement : forall fx t, cap_ok (complementRanges fx t).
Proof. exact complementRanges_cap. Qed.
Print Assumptions T11_range_cap_complement.

Definition ex_tok_a : rtok := addRange true (addRange true (addRange true rt_new 10 20) 1 3) 15 30.
Definition ex_tok_b : rtok := addRange true (addRange true rt_new 2 12) 25 26.
Example T11_range_inv_nonvacuous :
  rt_inv ex_tok_a /\ rt_inv ex_tok_b /\ cap_ok ex_tok_a /\
  rs (subtractRanges ex_tok_a ex_tok_b false) = [(1, 1); (13, 24); (27, 30)] /\
  rs (intersectRanges ex_tok_a ex_tok_b) = [(2, 3); (10, 12); (25, 26)] /\
  rs (complementRanges false ex_tok_b) = [(0, 1); (13, 24); (27, 0x10FFFF)].
Proof.
  unfold rt_inv, rt_wf, cap_ok. vm_compute. repeat split; try discriminate; try reflexivity; intros; try discriminate; try lia.
Qed.

(** the order "compactRanges, then createMap" in RegularExpression::prepare matters: a map built before the compaction
    keeps a stale fNonMapIndex, and the first-character set of  a?[a-c U+0436]  (ranges a-a, a-c, U+0436 before
    compaction) no longer contains U+0436; built after the compaction it does *)
Example T11_stale_map_refuted :
  let lb := [(97, 97); (97, 99); (1078, 1078)] in
  let l := compact_list lb in
  l = [(97, 99); (1078, 1078)] /\ rmem l 1078 = true /\
  rt_match_at (nonmap_index lb) l 1078 = false /\ rt_match_at (nonmap_index l) l 1078 = true /\
  rt_match false l 1078 = true.
Proof. vm_compute. repeat split. Qed.

(** index safety: fElemCount never exceeds the fMaxCount the C++ computes (used by C01) *)
Theorem T11_range_cap_add : forall fx t a b, cap_ok t -> (2 <= maxc t)%nat -> cap_ok (addRange fx t a b).
Proof. exact addRange_cap. Qed.
Print Assumptions T11_range_cap_add.

Theorem T11_range_cap_merge : forall t o, cap_ok t -> cap_ok o -> cap_ok (mergeRanges t o).
Proof. exact mergeRanges_cap. Qed.
Print Assumptions T11_range_cap_merge.

(* ---------------------------------------------------------------------------------------------- *)
(** * the multi-character escapes read back from the library: ordering and ASCII part *)
Definition named_sets : list (N * list rng * list rng) :=
  [(115, named_lc_s, named_uc_s); (100, named_lc_d, named_uc_d); (119, named_lc_w, named_uc_w);
   (105, named_lc_i, named_uc_i); (99, named_lc_c, named_uc_c)].

Definition named_ok (x : N * list rng * list rng) : bool :=
  let '(k, lc, uc) := x in
  compact_ok lc && compact_ok uc &&
  forallb (fun c => Bool.eqb (rmem lc c) (named_ascii k c) && Bool.eqb (rmem uc c) (negb (named_ascii k c))) (nrange 128).

Theorem T11_named_ascii : forall k lc uc c, In (k, lc, uc) named_sets -> c < 128 ->
  compact_ok lc = true /\ compact_ok uc = true /\ rmem lc c = named_ascii k c /\ rmem uc c = negb (named_ascii k c).
Proof.
  intros k lc uc c Hin Hc.
  assert (A : forallb named_ok named_sets = true) by (vm_compute; reflexivity).
  rewrite forallb_forall in A. specialize (A _ Hin). unfold named_ok in A.
  apply andb_true_iff in A. destruct A as [A S]. apply andb_true_iff in A. destruct A as [A1 A2].
  rewrite forallb_forall in S. specialize (S c (nrange_in 128 c Hc)).
  apply andb_true_iff in S. destruct S as [S1 S2]. apply Bool.eqb_prop in S1. apply Bool.eqb_prop in S2. auto.
Qed.
Print Assumptions T11_named_ascii.


(* ---------------------------------------------------------------------------------------------- *)
(** * category escapes \p{..} and the sets built from them
    Gen/GenC11Cat.v is regenerated on every run: [cat_names], [cat_unicategory] from the source of the tree under
    test (uniCategNames, getUniCategory), [cat_rle] = XMLUniCharacter::getType over all 65536 code units and
    [cat_toks] = the range tokens, both as the built library reports them. *)
Theorem T11_category_names : cat_names = std_cat_names ++ map (fun c => [c]) major_names.
Proof. vm_compute. reflexivity. Qed.
Print Assumptions T11_category_names.

(** getUniCategory maps every general category to the one-letter class its name starts with
    (in particular Co, private use, belongs to C) *)
Theorem T11_category_letter : forall k, k < 30 ->
  nth (N.to_nat (nth (N.to_nat k) cat_unicategory 0)) cat_names [] = [major_of_cat k].
Proof.
  intros k Hk. assert (A : letter_check = true) by (vm_compute; reflexivity).
  unfold letter_check in A. rewrite forallb_forall in A. specialize (A k (nrange_in 30 k Hk)).
  destruct (nth (N.to_nat (nth (N.to_nat k) cat_unicategory 0)) cat_names []) as [|c [|d r]]; try discriminate.
  apply N.eqb_eq in A. subst. reflexivity.
Qed.
Print Assumptions T11_category_letter.

(** the sweep over every BMP code unit and every escape: the token of \p{name k} contains c exactly when the category
    of c belongs to escape k in the sense of the Spec (two-letter: equal; one-letter: the name starts with it) *)
Theorem T11_category_tokens : forall k c, k < 37 -> c < 0x10000 ->
  rmem (nth (N.to_nat k) cat_toks []) c = spec_cat_mem (cat_of cat_rle) k c.
Proof.
  apply category_tokens_spec; vm_compute; reflexivity.
Qed.
Print Assumptions T11_category_tokens.

(** \w = everything except P, Z, C and \d = Nd, on every BMP code unit *)
Theorem T11_word_def : forall c, c < 0x10000 -> rmem named_lc_w c = spec_word_pred (cat_of cat_rle c).
Proof. apply word_spec; vm_compute; reflexivity. Qed.
Print Assumptions T11_word_def.

Theorem T11_digit_def : forall c, c < 0x10000 -> rmem named_lc_d c = spec_digit_pred (cat_of cat_rle c).
Proof. apply digit_spec; vm_compute; reflexivity. Qed.
Print Assumptions T11_digit_def.

Example T11_category_nonvacuous :
  cat_of cat_rle 0xE000 = 17 /\ spec_cat_mem (cat_of cat_rle) 34 0xE000 = true /\ spec_cat_mem (cat_of cat_rle) 0 0xE000 = false /\
  spec_word_pred (cat_of cat_rle 0xE000) = false /\ spec_word_pred (cat_of cat_rle 97) = true /\ cat_of cat_rle 0xD800 = 18.
Proof. vm_compute. repeat split. Qed.

(* ---------------------------------------------------------------------------------------------- *)
(** * the matcher *)
(** the repaired matcher (defect switch of F15/F27/F28) accepts exactly the language of the token tree *)
Theorem T11_fixed_correct : forall fxd s t, xmatch_fixed_tok fxd s t = true <-> Lre (re_of_tok fxd t) s.
Proof. exact xmatch_fixed_correct. Qed.
Print Assumptions T11_fixed_correct.

Definition t_a_star_ab_opt : tok := TConcat [TClosure 0 None (TChar 97); TUnion [TParen (TConcat [TString [97; 98]]); TEmpty]].
Definition t_alt_star : tok := TClosure 0 None (TParen (TUnion [TConcat [TString [97; 98]]; TChar 97; TConcat [TString [98; 98]]])).

Example T11_parse_witness : parse sw_faithful [97; 42; 40; 97; 98; 41; 63] = Ok t_a_star_ab_opt.
Proof. vm_compute. reflexivity. Qed.

(** F15: completeness of the matcher as it stands is refuted: a*(ab)? rejects "ab" and "aab", (ab|a|bb)* rejects "abb" *)
Theorem T11_match_complete_refuted :
  exists t s, Lre (re_of_tok false t) s /\ xmatch_tok sw_faithful 200 t s = XFalse.
Proof.
  exists t_a_star_ab_opt, [97; 98]. split; [| vm_compute; reflexivity].
  apply T11_fixed_correct. vm_compute. reflexivity.
Qed.
Print Assumptions T11_match_complete_refuted.

Example T11_match_complete_refuted_2 :
  xmatch_tok sw_faithful 200 t_a_star_ab_opt [97; 97; 98] = XFalse /\ xmatch_fixed_tok false [97; 97; 98] t_a_star_ab_opt = true /\
  xmatch_tok sw_faithful 200 t_alt_star [97; 98; 98] = XFalse /\ xmatch_fixed_tok false [97; 98; 98] t_alt_star = true /\
  xmatch_tok sw_faithful 200 t_a_star_ab_opt [97; 97] = XTrue.
Proof. vm_compute. repeat split. Qed.


(** T11_match_sound: the matcher AS IT STANDS (any setting of the repair switches, in particular the faithful one;
    every fuel) never accepts a string outside the language of the token tree.  All op kinds of the model are
    covered (char, dot, range, string, union with context copies, closure with fOffsets, finite closure, question,
    capture marks).  [tok_wfb]: classes are compacted and bounded quantifiers have min <= max. *)
Theorem T11_match_sound : forall w fuel t s, tok_wfb t = true ->
  xmatch_tok w fuel t s = XTrue -> Lre (re_of_tok (fx_dot w) t) s.
Proof. exact xmatch_tok_sound. Qed.
Print Assumptions T11_match_sound.

Definition parse_wf_accepts (pat s : list N) : bool :=
  match parse sw_faithful pat with
  | Ok t => tok_wfb t && match xmatch_tok sw_faithful 200 t s with XTrue => true | _ => false end
  | Err _ => false
  end.

(** the hypotheses are satisfiable: parser output is well formed, e.g. for [a-c-[b]]{1,2}(x|y)* on "acxy" *)
Example T11_match_sound_nonvacuous :
  tok_wfb t_a_star_ab_opt = true /\ xmatch_tok sw_faithful 200 t_a_star_ab_opt [97; 97] = XTrue /\
  parse_wf_accepts [91; 97; 45; 99; 45; 91; 98; 93; 93; 123; 49; 44; 50; 125; 40; 120; 124; 121; 41; 42] [97; 99; 120; 121] = true.
Proof. vm_compute. repeat split. Qed.

(** soundness of the search model of the non-schema API: a reported window [a, b) spells a word of the language *)
Theorem T11_search_sound : forall w fuel sl t s a b, tok_wfb t = true ->
  xsearch_tok w fuel sl t s = SFound a b ->
  exists v rest, skipn a s = v ++ rest /\ b = (a + length v)%nat /\ Lre (re_of_tok_d (xp_dot (fx_dot w) sl) t) v.
Proof. exact xsearch_tok_sound. Qed.
Print Assumptions T11_search_sound.

Example T11_search_nonvacuous : xsearch_tok sw_fixed 200 false t_a_star_ab_opt [120; 97; 98] = SFound 0 0 /\
  xsearch_tok sw_fixed 200 false (TConcat [TString [97; 98]]) [120; 97; 98] = SFound 1 3.
Proof. vm_compute. split; reflexivity. Qed.

(** F27: [b]*[^a] rejects "bb" because doTokenOverlap intersects the negated class as if it were positive;
    with the repaired overlap test the same matcher accepts *)
Definition t_overlap : tok := TConcat [TClosure 0 None (TRange false [(98, 98)]); TRange true [(97, 97)]].
Example T11_overlap_refuted :
  xmatch_tok sw_faithful 200 t_overlap [98; 98] = XFalse /\ xmatch_tok (mkSw false true false) 200 t_overlap [98; 98] = XTrue /\
  xmatch_fixed_tok false [98; 98] t_overlap = true.
Proof. vm_compute. repeat split. Qed.

(** F28: the nested closure ( a* )* followed by b, on the subject "a": the recursion of match never ends (here: more than 3000 nested calls on a one-character
    subject; the implementation overflows its stack) *)
Definition t_nested : tok := TConcat [TClosure 0 None (TParen (TClosure 0 None (TChar 97))); TChar 98].
Example T11_match_diverges_witness :
  xmatch_tok sw_faithful 3000 t_nested [97] = XDiverge /\ xmatch_fixed_tok false [97] t_nested = false /\
  xmatch_tok sw_faithful 200 t_nested [97; 98] = XTrue.
Proof. vm_compute. repeat split. Qed.

(** F29: '.' rejects U+2028 and U+1000A *)
Example T11_dot_refuted :
  xmatch_tok sw_faithful 50 TDot [0x2028] = XFalse /\ xmatch_tok sw_faithful 50 TDot [0x1000A] = XFalse /\
  xmatch_tok (mkSw false false true) 50 TDot [0x1000A] = XTrue /\ xmatch_tok sw_faithful 50 TDot [10] = XFalse.
Proof. vm_compute. repeat split. Qed.

(* ---------------------------------------------------------------------------------------------- *)
(** * the flags of a RangeToken stay truthful along the library's own call sequences
    [rt_acc]: ranges sorted by start with lo <= hi, fSorted set on every allocated token, fCompacted still clear --
    the state of a token that started as [rt_new] and only saw addRange / mergeRanges (parseCharacterClass,
    analyzeFirstCharacter).  It implies [rt_inv], the hypothesis of T11_range_subtract/_intersect/_complement. *)
Theorem T11_range_flags_add : forall fx t a b, rt_acc t -> rt_acc (addRange fx t a b).
Proof. exact addRange_acc. Qed.
Print Assumptions T11_range_flags_add.

Theorem T11_range_flags_merge : forall t o, rt_acc t -> rt_opnd o -> rt_acc (mergeRanges t o).
Proof. exact mergeRanges_acc. Qed.
Print Assumptions T11_range_flags_merge.

Theorem T11_range_flags_inv : forall t, rt_acc t -> rt_inv t /\ normal t (compactRanges (sortRanges t)).
Proof. intros t H. split; [exact (rt_acc_inv t H) | exact (rt_acc_normal t H)]. Qed.
Print Assumptions T11_range_flags_inv.

Example T11_range_flags_nonvacuous :
  rt_acc rt_new /\ rt_opnd (tok_rt [(48, 57); (97, 102)]) /\
  rs (mergeRanges (addRange false (addRange false rt_new 120 122) 65 70) (tok_rt [(48, 57); (97, 102)])) =
    [(48, 57); (65, 70); (97, 102); (120, 122)].
Proof. split; [exact rt_acc_new |]. split; [apply tok_rt_opnd; vm_compute; reflexivity | vm_compute; reflexivity]. Qed.

(* ---------------------------------------------------------------------------------------------- *)
(** * pre-filters of the non-schema matches(): NECESSITY
    fMinLength = Token::getMinLength ([minlen_u], UTF-16 units): no word of the language is shorter, so neither
    [if (fLimit < fMinLength) return false] nor the scan bound [matchStart <= fLimit - fMinLength] can hide a match. *)
Theorem T11_minlen_necessary : forall dotf t v, Lre (re_of_tok_d dotf t) v -> (minlen_u t <= units_of v)%nat.
Proof. exact minlen_u_necessary. Qed.
Print Assumptions T11_minlen_necessary.

Theorem T11_search_bound_necessary : forall dotf t s a v rest, skipn a s = v ++ rest -> Lre (re_of_tok_d dotf t) v ->
  Nat.ltb (units_of s) (minlen_u t) = false /\ Nat.leb (units_of (firstn a s)) (units_of s - minlen_u t) = true.
Proof. exact search_bound_necessary. Qed.
Print Assumptions T11_search_bound_necessary.

Definition t_prefilter : tok :=
  TConcat [TUnion [TChar 97; TEmpty]; TClosure 2 (Some 3%nat) (TRange false [(98, 99); (0x10000, 0x10001)]); TString [0x10400; 33]].

Example T11_minlen_nonvacuous : minlen_u t_prefilter = 5%nat /\ units_of [98; 0x10000; 0x10400; 33] = 6%nat /\
  xmatch_fixed_tok true [98; 0x10000; 0x10400; 33] t_prefilter = true.
Proof. vm_compute. repeat split. Qed.

(** fFirstChar = the set Token::analyzeFirstCharacter collects when it answers FC_TERMINAL (with the repaired addRange,
    which is what the tree under test has): every word of the language is non-empty and starts with a member of it;
    the set handed to RangeToken::match is compact.  [tok_nes]: no empty T_STRING (they have >= 2 characters). *)
Theorem T11_firstchar_necessary : forall dotf t fcs, tok_wfb t = true -> tok_nes t = true -> first_char true t = Some fcs ->
  compact_ok fcs = true /\
  forall v, Lre (re_of_tok_d dotf t) v -> exists c r, v = c :: r /\ rt_match false fcs c = true.
Proof. exact first_char_necessary. Qed.
Print Assumptions T11_firstchar_necessary.

Definition t_firstchar : tok :=
  TConcat [TUnion [TChar 97; TEmpty]; TClosure 0 None (TString [0x10400; 33]); TRange false [(98, 99); (0x436, 0x436)]; TDot].

Example T11_firstchar_nonvacuous :
  tok_wfb t_firstchar = true /\ tok_nes t_firstchar = true /\
  first_char true t_firstchar = Some [(97, 99); (0x436, 0x436); (0x10400, 0x10400)] /\
  first_char true (TConcat [TUnion [TChar 97; TDot]; TChar 98]) = None /\
  first_char true (TClosure 0 None (TChar 97)) = None /\
  prepare_info sw_fixed t_prefilter = Prep 5 (Some [(97, 99); (0x10000, 0x10001); (0x10400, 0x10400)]).
Proof. vm_compute. repeat split. Qed.

(** the window reported by the search model starts at the LEFTMOST position at which match() completes (every earlier
    start failed), and when none is reported match() completes at no position of the subject -- in particular at none
    the minimum-length pre-check or the scan bound left out.  [run_at] = match() from a given start. *)
Theorem T11_search_leftmost : forall w fuel sl t s, tok_wfb t = true ->
  (forall a b, xsearch_tok w fuel sl t s = SFound a b ->
     (exists st', run_at w fuel sl t s a = MR (Some b) st') /\
     forall a', (a' < a)%nat -> exists st', run_at w fuel sl t s a' = MR None st') /\
  (xsearch_tok w fuel sl t s = SNone -> forall a' e st, (a' <= length s)%nat -> run_at w fuel sl t s a' <> MR (Some e) st).
Proof. exact search_leftmost. Qed.
Print Assumptions T11_search_leftmost.

(** the scan with the head-character test answers as the scan without it (subjects without surrogate code points;
    a start whose match() would exhaust the fuel may be skipped, so only definite answers are related) *)
Theorem T11_prefilter_transparent : forall w fuel sl t s, tok_wfb t = true -> tok_nes t = true -> fx_add w = true ->
  forallb (fun x => negb (is_surrogate x)) s = true ->
  (forall a b, xsearch_tok w fuel sl t s = SFound a b -> xsearch_fc w fuel sl t s = SFound a b) /\
  (xsearch_tok w fuel sl t s = SNone -> xsearch_fc w fuel sl t s = SNone).
Proof. exact prefilter_transparent. Qed.
Print Assumptions T11_prefilter_transparent.

Example T11_prefilter_nonvacuous :
  xsearch_fc sw_fixed 200 false t_firstchar [120; 0x10400; 33; 0x436; 121] = SFound 1 5 /\
  xsearch_tok sw_fixed 200 false t_firstchar [120; 0x10400; 33; 0x436; 121] = SFound 1 5 /\
  xsearch_fc sw_fixed 200 false t_prefilter [98; 99; 0x10400] = SNone.
Proof. vm_compute. repeat split. Qed.
