(** Property C11 -- Regular expressions match exactly the language their syntax defines. *)
From XV Require Import C11.Spec11 C11.ModelRange11 C11.Model11.
Local Open Scope N_scope.

Definition w_ab_opt : tok := TConcat [TClosure 0 None (TChar 97); TUnion [TParen (TString [97; 98]); TEmpty]].

(** F15: completeness of the matcher as it stands is refuted *)
Theorem T11_match_complete_refuted :
  exists t s, dmatch_re (re_of_tok false t) s = true /\ xmatch_tok sw_faithful 100 t s = XFalse.
Proof. exists w_ab_opt, [97; 98]. split; vm_compute; reflexivity. Qed.
Print Assumptions T11_match_complete_refuted.
