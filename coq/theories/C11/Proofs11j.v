(** NECESSITY of the pre-filters of the non-schema matches():
    - [minlen_u_necessary]: every word of the language has at least Token::getMinLength UTF-16 units, hence the
      pre-check [fLimit < fMinLength] and the scan bound [fLimit - fMinLength] never exclude a start at which a word
      of the language begins ([search_bound_necessary]);
    - [fc_tok_spec] / [first_char_necessary]: when Token::analyzeFirstCharacter answers FC_TERMINAL, every word of the
      language is non-empty and starts with a member of the computed set;
    - [search_leftmost]: the window the search model reports starts at the LEFTMOST position at which match() completes,
      and when it reports none, match() completes nowhere (also not beyond the scan bound);
    - [prefilter_transparent]: the scan with the head-character test gives the same answer as the scan without. *)
From Coq Require Import Arith PeanoNat ZArith ZifyBool ZifyN ZifyNat Lia List.
From XV Require Import C11.Spec11 C11.ModelRange11 C11.Model11 C11.ModelPre11 C11.Proofs11b C11.Proofs11c C11.Proofs11d
                       C11.Proofs11f C11.Proofs11g C11.Proofs11i.
Local Open Scope N_scope.

(* ---------------------------------------------------------------------------------------------- *)
(** * minimum length *)
Lemma units_app : forall a b, units_of (a ++ b) = (units_of a + units_of b)%nat.
Proof. induction a as [|x a IH]; intros b; [reflexivity |]. unfold units_of in *. cbn [app fold_right]. rewrite IH. lia. Qed.

Lemma units_one : forall c, (1 <= units_of [c])%nat.
Proof. intros c. unfold units_of. cbn [fold_right]. destruct (c <? 65536); lia. Qed.

Lemma units_concat : forall (L : list N -> Prop) m ss, (forall v, L v -> (m <= units_of v)%nat) -> Forall L ss ->
  (length ss * m <= units_of (concat ss))%nat.
Proof.
  intros L m ss H F. induction F as [|v ss Hv F IH]; [cbn; lia |].
  cbn [concat length]. rewrite units_app. specialize (H v Hv). lia.
Qed.

Fixpoint umin (m : nat) (l : list tok) : nat :=
  match l with [] => m | y :: r => umin (Nat.min m (minlen_u y)) r end.

Lemma minlen_u_union : forall x r, minlen_u (TUnion (x :: r)) = umin (minlen_u x) r.
Proof.
  intros x r. cbn [minlen_u]. generalize (minlen_u x). induction r as [|y r IH]; intros m; [reflexivity |].
  cbn [umin]. apply IH.
Qed.

Lemma umin_le : forall r m, (umin m r <= m)%nat.
Proof. induction r as [|y r IH]; intros m; [cbn; lia |]. cbn [umin]. specialize (IH (Nat.min m (minlen_u y))). lia. Qed.

Lemma umin_le_in : forall r m y, In y r -> (umin m r <= minlen_u y)%nat.
Proof.
  induction r as [|z r IH]; intros m y Hin; [destruct Hin |]. cbn [umin]. destruct Hin as [-> | Hin].
  - pose proof (umin_le r (Nat.min m (minlen_u y))). lia.
  - apply IH. exact Hin.
Qed.

Theorem minlen_u_necessary : forall dotf t v, Lre (re_of_tok_d dotf t) v -> (minlen_u t <= units_of v)%nat.
Proof.
  intros dotf. induction t as [| |c|l|neg r|l IHl|l IHl|mn mx c IH|t IH] using tok_ind'; intros v H.
  - cbn in H. subst v. cbn. lia.
  - cbn in H. destruct H as [c [-> _]]. apply units_one.
  - cbn in H. destruct H as [x [-> _]]. apply units_one.
  - cbn [re_of_tok_d] in H. apply str_re_spec in H. subst v. cbn [minlen_u]. lia.
  - cbn in H. destruct H as [x [-> _]]. apply units_one.
  - cbn [re_of_tok_d minlen_u] in *. revert v H. induction IHl as [|x l Hx Hl IHl']; intros v H.
    + cbn in H. subst v. cbn. lia.
    + cbn [Lre] in H. destruct H as [v1 [v2 [-> [H1 H2]]]]. rewrite units_app.
      specialize (Hx v1 H1). specialize (IHl' v2 H2). lia.
  - destruct l as [|x r]; [cbn in H; destruct H |]. rewrite minlen_u_union.
    cbn [re_of_tok_d] in H. inversion IHl as [|x' l' Hx Hr]; subst. clear IHl. cbn [Lre] in H. destruct H as [H | H].
    + specialize (Hx v H). pose proof (umin_le r (minlen_u x)). lia.
    + clear Hx. generalize (minlen_u x). revert v H. induction Hr as [|y r Hy Hr IHr]; intros v H m; [destruct H |].
      cbn [Lre] in H. destruct H as [H | H].
      * specialize (Hy v H). pose proof (umin_le_in (y :: r) m y (or_introl eq_refl)). lia.
      * cbn [umin]. apply IHr. exact H.
  - cbn [re_of_tok_d Lre minlen_u] in *. destruct H as [ss [-> [F [Hn _]]]].
    pose proof (units_concat _ (minlen_u c) ss IH F) as U. nia.
  - cbn [re_of_tok_d minlen_u] in *. exact (IH v H).
Qed.

Lemma units_firstn_skipn : forall (s : list N) a, units_of s = (units_of (firstn a s) + units_of (skipn a s))%nat.
Proof. intros s a. rewrite <- units_app, firstn_skipn. reflexivity. Qed.

(** neither the pre-check nor the scan bound excludes a start at which a word of the language begins *)
Theorem search_bound_necessary : forall dotf t s a v rest, skipn a s = v ++ rest -> Lre (re_of_tok_d dotf t) v ->
  Nat.ltb (units_of s) (minlen_u t) = false /\ Nat.leb (units_of (firstn a s)) (units_of s - minlen_u t) = true.
Proof.
  intros dotf t s a v rest E H. pose proof (minlen_u_necessary dotf t v H) as M.
  pose proof (units_firstn_skipn s a) as U. rewrite E, units_app in U.
  split; [apply Nat.ltb_ge; lia | apply Nat.leb_le; lia].
Qed.

(* ---------------------------------------------------------------------------------------------- *)
(** * first-character analysis *)
Definition hd_in (f : N -> bool) (v : list N) : Prop := exists c r, v = c :: r /\ f c = true.

Definition FCP (res : fcres) (f : N -> bool) (L : list N -> Prop) : Prop :=
  match res with
  | FC_ANY => True
  | FC_CONTINUE => forall v, L v -> v = [] \/ hd_in f v
  | FC_TERMINAL => forall v, L v -> hd_in f v
  end.

Definition sub_set (f g : N -> bool) : Prop := forall c, f c = true -> g c = true.

Lemma hd_in_mono : forall f g v, sub_set f g -> hd_in f v -> hd_in g v.
Proof. intros f g v S [c [r [E H]]]. exists c, r. auto. Qed.

Lemma FCP_mono : forall res f g L, sub_set f g -> FCP res f L -> FCP res g L.
Proof.
  intros [] f g L S H; cbn in *; [| | exact I].
  - intros v Hv. destruct (H v Hv) as [E | E]; [left; exact E | right; exact (hd_in_mono f g v S E)].
  - intros v Hv. exact (hd_in_mono f g v S (H v Hv)).
Qed.

Lemma hd_in_app : forall f v1 v2, hd_in f v1 -> hd_in f (v1 ++ v2).
Proof. intros f v1 v2 [c [r [-> H]]]. exists c, (r ++ v2). auto. Qed.

Lemma concat_hd : forall (L : list N -> Prop) f ss, (forall v, L v -> v = [] \/ hd_in f v) -> Forall L ss ->
  concat ss = [] \/ hd_in f (concat ss).
Proof.
  intros L f ss H F. induction F as [|v ss Hv F IH]; [left; reflexivity |].
  cbn [concat]. destruct (H v Hv) as [-> | Hh]; [exact IH | right; apply hd_in_app; exact Hh].
Qed.

(** no empty string literal (UnionToken::addChild builds a T_STRING from at least two characters) *)
Fixpoint tok_nes (t : tok) : bool :=
  match t with
  | TString [] => false
  | TConcat l => (fix all (l : list tok) : bool := match l with [] => true | x :: r => tok_nes x && all r end) l
  | TUnion l => (fix all (l : list tok) : bool := match l with [] => true | x :: r => tok_nes x && all r end) l
  | TClosure _ _ c => tok_nes c
  | TParen c => tok_nes c
  | _ => true
  end.

Lemma tok_rt_opnd : forall r, compact_ok r = true -> rt_opnd (tok_rt r).
Proof.
  intros r H. unfold rt_opnd, tok_rt. cbn [rs alloc srt].
  split; [destruct r; [discriminate | discriminate] |]. split; [destruct r; [reflexivity | discriminate] |].
  split; [| reflexivity]. apply compact_lo_sorted; [exact H |]. destruct r as [|[lo hi] r]; [exact I | cbn; lia].
Qed.

Section FC.
Variable dotf : N -> bool.
Notation L := (fun t => Lre (re_of_tok_d dotf t)).

Definition fc_ok (t : tok) (acc : rtok) (out : fcres * rtok) : Prop :=
  rt_acc (snd out) /\ sub_set (rmem (rs acc)) (rmem (rs (snd out))) /\
  FCP (fst out) (rmem (rs (snd out))) (Lre (re_of_tok_d dotf t)).

Lemma sub_set_refl : forall f, sub_set f f.
Proof. intros f c H. exact H. Qed.

Lemma sub_set_trans : forall f g h, sub_set f g -> sub_set g h -> sub_set f h.
Proof. intros f g h A B c H. auto. Qed.

Theorem fc_tok_spec : forall t, tok_wfb t = true -> tok_nes t = true -> forall acc, rt_acc acc ->
  fc_ok t acc (fc_tok true t acc).
Proof.
  induction t as [| |c|l|neg r|l IHl|l IHl|mn mx c IH|t IH] using tok_ind'; intros Hwf Hne acc Ha.
  - (* TEmpty *) cbn [fc_tok]. split; [exact Ha |]. split; [apply sub_set_refl |]. cbn. intros v ->. left. reflexivity.
  - (* TDot *) cbn [fc_tok]. split; [exact Ha |]. split; [apply sub_set_refl | exact I].
  - (* TChar *)
    cbn [fc_tok]. unfold fc_ok. cbn [fst snd]. split; [apply addRange_acc; exact Ha |].
    split; [intros x Hx; rewrite addRange_acc_mem by exact Ha; rewrite Hx; reflexivity |].
    cbn. intros v [x [-> Hx]]. apply N.eqb_eq in Hx. subst x. exists c, []. split; [reflexivity |].
    rewrite addRange_acc_mem by exact Ha. unfold interval. rewrite N.min_id, N.max_id, N.leb_refl. apply orb_true_r.
  - (* TString *)
    destruct l as [|c0 l0]; [discriminate |].
    cbn [fc_tok str_first_cp]. unfold fc_ok. cbn [fst snd]. split; [apply addRange_acc; exact Ha |].
    split; [intros x Hx; rewrite addRange_acc_mem by exact Ha; rewrite Hx; reflexivity |].
    cbn [FCP re_of_tok_d]. intros v Hv. apply str_re_spec in Hv. subst v. exists c0, l0. split; [reflexivity |].
    rewrite addRange_acc_mem by exact Ha. unfold interval. rewrite N.min_id, N.max_id, N.leb_refl. apply orb_true_r.
  - (* TRange *)
    cbn [tok_wfb] in Hwf. destruct neg; cbn [fc_tok].
    + split; [exact Ha |]. split; [apply sub_set_refl | exact I].
    + pose proof (tok_rt_opnd r Hwf) as Ho. unfold fc_ok. cbn [fst snd]. split; [apply mergeRanges_acc; assumption |].
      split; [intros x Hx; rewrite mergeRanges_acc_mem by assumption; rewrite Hx; reflexivity |].
      cbn. intros v [x [-> Hx]]. exists x, []. split; [reflexivity |].
      assert (Er : rmem r x = true) by (revert Hx; unfold range_set; cbn; destruct (rmem r x); auto).
      rewrite mergeRanges_acc_mem by assumption. unfold tok_rt. cbn [rs]. rewrite Er. apply orb_true_r.
  - (* TConcat *)
    cbn [fc_tok re_of_tok_d]. cbn [tok_wfb] in Hwf. cbn [tok_nes] in Hne. revert acc Ha Hwf Hne.
    induction IHl as [|x l Hx Hl IHl']; intros acc Ha Hwf Hne.
    + split; [exact Ha |]. split; [apply sub_set_refl |]. cbn. intros v ->. left. reflexivity.
    + apply andb_true_iff in Hwf. destruct Hwf as [Hw1 Hw2]. apply andb_true_iff in Hne. destruct Hne as [Hn1 Hn2].
      specialize (Hx Hw1 Hn1 acc Ha). destruct (fc_tok true x acc) as [rx a] eqn:Ex.
      destruct Hx as [Xa [Xs Xp]]. cbn [fst snd] in Xa, Xs, Xp.
      destruct rx.
      * specialize (IHl' a Xa Hw2 Hn2). destruct IHl' as [Ra [Rs Rp]].
        match goal with |- fc_ok _ _ ?o => set (out := o) in * end.
        split; [exact Ra |]. split; [exact (sub_set_trans _ _ _ Xs Rs) |].
        cbn [FCP] in Xp. destruct (fst out); cbn [FCP Lre] in *; [| | exact I].
        -- intros v [v1 [v2 [-> [H1 H2]]]]. destruct (Xp v1 H1) as [-> | Hh].
           ++ exact (Rp v2 H2).
           ++ right. apply hd_in_app. exact (hd_in_mono _ _ _ Rs Hh).
        -- intros v [v1 [v2 [-> [H1 H2]]]]. destruct (Xp v1 H1) as [-> | Hh].
           ++ exact (Rp v2 H2).
           ++ apply hd_in_app. exact (hd_in_mono _ _ _ Rs Hh).
      * split; [exact Xa |]. split; [exact Xs |]. cbn [fst snd FCP Lre] in *.
        intros v [v1 [v2 [-> [H1 H2]]]]. apply hd_in_app. exact (Xp v1 H1).
      * split; [exact Xa |]. split; [exact Xs | exact I].
  - (* TUnion *)
    cbn [tok_wfb] in Hwf. cbn [tok_nes] in Hne.
    assert (G : forall he acc, rt_acc acc ->
      let out := (fix go (l : list tok) (acc : rtok) (hasEmpty : bool) : fcres * rtok :=
           match l with
           | [] => (if hasEmpty then FC_CONTINUE else FC_TERMINAL, acc)
           | x :: r => match fc_tok true x acc with
                       | (FC_ANY, a) => (FC_ANY, a)
                       | (FC_CONTINUE, a) => go r a true
                       | (FC_TERMINAL, a) => go r a hasEmpty
                       end
           end) l acc he in
      rt_acc (snd out) /\ sub_set (rmem (rs acc)) (rmem (rs (snd out))) /\
      FCP (fst out) (rmem (rs (snd out)))
          (Lre ((fix go (l : list tok) : re := match l with [] => REmp | x :: r => RAlt (re_of_tok_d dotf x) (go r) end) l)) /\
      (he = true -> fst out <> FC_TERMINAL)).
    { revert Hwf Hne. induction IHl as [|x l Hx Hl IHl']; intros Hwf Hne he acc0 Ha0; cbn zeta.
      - cbn [fst snd]. split; [exact Ha0 |]. split; [apply sub_set_refl |].
        split; [destruct he; cbn; intros v [] | intros ->; discriminate].
      - apply andb_true_iff in Hwf. destruct Hwf as [Hw1 Hw2]. apply andb_true_iff in Hne. destruct Hne as [Hn1 Hn2].
        specialize (Hx Hw1 Hn1 acc0 Ha0). destruct (fc_tok true x acc0) as [rx a] eqn:Ex.
        destruct Hx as [Xa [Xs Xp]]. cbn [fst snd] in Xa, Xs, Xp.
        destruct rx.
        + specialize (IHl' Hw2 Hn2 true a Xa). cbn zeta in IHl'.
          match goal with |- rt_acc (snd ?o) /\ _ => set (out := o) in * end.
          destruct IHl' as [Ra [Rs [Rp Rt]]]. split; [exact Ra |]. split; [exact (sub_set_trans _ _ _ Xs Rs) |].
          split; [| intros _; exact (Rt eq_refl)].
          specialize (Rt eq_refl). cbn [FCP] in Xp. destruct (fst out); cbn [FCP Lre] in *; [| congruence | exact I].
          intros v [H | H]; [| exact (Rp v H)]. destruct (Xp v H) as [-> | Hh]; [left; reflexivity | right; exact (hd_in_mono _ _ _ Rs Hh)].
        + specialize (IHl' Hw2 Hn2 he a Xa). cbn zeta in IHl'.
          match goal with |- rt_acc (snd ?o) /\ _ => set (out := o) in * end.
          destruct IHl' as [Ra [Rs [Rp Rt]]]. split; [exact Ra |]. split; [exact (sub_set_trans _ _ _ Xs Rs) |].
          split; [| exact Rt].
          cbn [FCP] in Xp. destruct (fst out); cbn [FCP Lre] in *; [| | exact I].
          * intros v [H | H]; [| exact (Rp v H)]. right. exact (hd_in_mono _ _ _ Rs (Xp v H)).
          * intros v [H | H]; [| exact (Rp v H)]. exact (hd_in_mono _ _ _ Rs (Xp v H)).
        + cbn [fst snd]. split; [exact Xa |]. split; [exact Xs |]. split; [exact I | intros _; discriminate]. }
    destruct l as [|x0 l0].
    { cbn [fc_tok]. split; [exact Ha |]. split; [apply sub_set_refl |]. cbn. intros v []. }
    specialize (G false acc Ha). cbn zeta in G. destruct G as [G1 [G2 [G3 _]]].
    unfold fc_ok. exact (conj G1 (conj G2 G3)).
  - (* TClosure *)
    cbn [tok_wfb] in Hwf. apply andb_true_iff in Hwf. destruct Hwf as [_ Hwf]. cbn [tok_nes] in Hne.
    specialize (IH Hwf Hne acc Ha). cbn [fc_tok]. destruct (fc_tok true c acc) as [rc a] eqn:Ec.
    destruct IH as [Xa [Xs Xp]]. cbn [fst snd] in Xa, Xs, Xp.
    assert (K : (forall v, Lre (re_of_tok_d dotf c) v -> v = [] \/ hd_in (rmem (rs a)) v) ->
                fc_ok (TClosure mn mx c) acc (FC_CONTINUE, a)).
    { intros Hc. split; [exact Xa |]. split; [exact Xs |]. cbn [fst snd FCP re_of_tok_d Lre].
      intros v [ss [-> [F _]]]. exact (concat_hd _ _ ss Hc F). }
    destruct rc; cbn [FCP] in Xp.
    + apply K. exact Xp.
    + apply K. intros v Hv. right. exact (Xp v Hv).
    + split; [exact Xa |]. split; [exact Xs | exact I].
  - (* TParen *)
    cbn [tok_wfb] in Hwf. cbn [tok_nes] in Hne. cbn [fc_tok re_of_tok_d]. exact (IH Hwf Hne acc Ha).
Qed.

Theorem first_char_necessary : forall t fcs, tok_wfb t = true -> tok_nes t = true -> first_char true t = Some fcs ->
  compact_ok fcs = true /\
  forall v, Lre (re_of_tok_d dotf t) v -> exists c r, v = c :: r /\ rt_match false fcs c = true.
Proof.
  intros t fcs Hwf Hne H. unfold first_char in H. pose proof (fc_tok_spec t Hwf Hne rt_new rt_acc_new) as S.
  destruct (fc_tok true t rt_new) as [res acc] eqn:E. destruct res; try discriminate. inversion H; subst fcs. clear H.
  destruct S as [Sa [_ Sp]]. cbn [fst snd] in Sa, Sp.
  assert (Ss : sortRanges acc = acc).
  { unfold sortRanges. destruct Sa as [_ [_ [_ [_ Se]]]]. destruct (alloc acc); [rewrite (Se eq_refl); reflexivity | rewrite orb_true_r; reflexivity]. }
  pose proof (rt_acc_normal acc Sa) as Nn. rewrite Ss in Nn.
  split; [exact (n_compact _ _ Nn) |].
  intros v Hv. destruct (Sp v Hv) as [c [r [-> Hc]]]. exists c, r. split; [reflexivity |].
  rewrite rt_match_spec by exact (n_compact _ _ Nn). rewrite (n_set _ _ Nn), Hc. reflexivity.
Qed.

End FC.

(* ---------------------------------------------------------------------------------------------- *)
(** * the scan loops *)
Lemma search_go_found : forall run ok n start a b, search_go run ok n start = SFound a b ->
  (start <= a)%nat /\ (exists st', run a = MR (Some b) st') /\ ok a = true /\
  forall a', (start <= a')%nat -> (a' < a)%nat -> exists st', run a' = MR None st'.
Proof.
  intros run ok. induction n as [|n IH]; intros start a b H; cbn [search_go] in H;
    destruct (ok start) eqn:Eo; cbn [negb] in H; try discriminate;
    destruct (run start) as [|[e|] st'] eqn:Em; try discriminate.
  - inversion H; subst. split; [lia |]. split; [eauto |]. split; [exact Eo |]. intros a' H1 H2. lia.
  - inversion H; subst. split; [lia |]. split; [eauto |]. split; [exact Eo |]. intros a' H1 H2. lia.
  - destruct (IH _ _ _ H) as [I1 [I2 [I3 I4]]]. split; [lia |]. split; [exact I2 |]. split; [exact I3 |].
    intros a' H1 H2. destruct (Nat.eq_dec a' start) as [-> | Hd]; [eauto | apply I4; lia].
Qed.

(** when the scan reports nothing, every start it visited failed, and it stopped either at the bound or after
    [n] further positions *)
Lemma search_go_none : forall run ok n start, search_go run ok n start = SNone ->
  forall a', (start <= a')%nat -> (a' <= start + n)%nat -> (forall x, (start <= x)%nat -> (x <= a')%nat -> ok x = true) ->
  exists st', run a' = MR None st'.
Proof.
  intros run ok. induction n as [|n IH]; intros start H a' H1 H2 Hok; cbn [search_go] in H;
    rewrite (Hok start ltac:(lia) H1) in H; cbn [negb] in H;
    destruct (run start) as [|[e|] st'] eqn:Em; try discriminate.
  - assert (a' = start) by lia. subst. eauto.
  - destruct (Nat.eq_dec a' start) as [-> | Hd]; [eauto |].
    apply (IH (S start) H a'); [lia | lia |]. intros x Hx1 Hx2. apply Hok; lia.
Qed.

Lemma search_fc_same : forall run ok pass, (forall start e st, run start = MR (Some e) st -> pass start = true) ->
  forall n start,
  (forall a b, search_go run ok n start = SFound a b -> search_fc run ok pass n start = SFound a b) /\
  (search_go run ok n start = SNone -> search_fc run ok pass n start = SNone).
Proof.
  intros run ok pass Hp. induction n as [|n IH]; intros start; cbn [search_go search_fc];
    destruct (ok start); cbn [negb]; try (split; [intros a b H; discriminate | reflexivity]).
  - destruct (run start) as [|[e|] st'] eqn:Em.
    + split; [intros a b H; discriminate | intros H; discriminate].
    + rewrite (Hp _ _ _ Em). cbn [negb]. split; [intros a b H; exact H | intros H; discriminate].
    + destruct (pass start); cbn [negb]; split; auto; intros a b H; discriminate.
  - destruct (run start) as [|[e|] st'] eqn:Em.
    + split; [intros a b H; discriminate | intros H; discriminate].
    + rewrite (Hp _ _ _ Em). cbn [negb]. split; [intros a b H; exact H | intros H; discriminate].
    + destruct (IH (S start)) as [I1 I2]. destruct (pass start); cbn [negb]; split; auto.
Qed.

Section Search.
Variable w : sw.
Variable fuel : nat.
Variable sl : bool.
Variable t : tok.
Variable s : list N.
Hypothesis Hwf : tok_wfb t = true.

Definition run_at (start : nat) : mres :=
  let (o, nclos) := compile w true t HNull 0 in
  omatch w true sl s fuel o (fun o' st' => MR (Some o') st') start (repeat None nclos).

(** a completed match() at [start] spells a word of the language from [start] on *)
Lemma run_at_word : forall start e st, run_at start = MR (Some e) st ->
  exists v rest, skipn start s = v ++ rest /\ e = (start + length v)%nat /\ Lre (re_of_tok_d (xp_dot (fx_dot w) sl) t) v.
Proof.
  intros start e st H. unfold run_at in H. destruct (compile w true t HNull 0) as [o nclos] eqn:Ec.
  destruct (omatch_sound w true sl s _ _ _ _ _ _ _ H) as [m [stm [st'' [[v [rest [E [Hv Hm]]]] Hk]]]].
  inversion Hk; subst m. exists v, rest. split; [exact E |]. split; [symmetry; assumption |].
  apply (compile_sound w true true sl t Hwf HNull 0%nat). rewrite Ec. exact Hv.
Qed.

Lemma xsearch_unfold : xsearch_tok w fuel sl t s =
  if Nat.ltb (units_of s) (minlen_u t) then SNone else
  search_go run_at (fun start => Nat.leb (units_of (firstn start s)) (units_of s - minlen_u t)) (length s) 0%nat.
Proof. unfold xsearch_tok, run_at. destruct (compile w true t HNull 0) as [o nclos]. reflexivity. Qed.

Lemma ok_downward : forall a x, (x <= a)%nat ->
  Nat.leb (units_of (firstn a s)) (units_of s - minlen_u t) = true ->
  Nat.leb (units_of (firstn x s)) (units_of s - minlen_u t) = true.
Proof.
  intros a x Hx H. apply Nat.leb_le in H. apply Nat.leb_le.
  assert (M : (units_of (firstn x s) <= units_of (firstn a s))%nat); [| lia].
  clear - Hx. revert x a Hx. induction s as [|c l IH]; intros x a Hx; [rewrite !firstn_nil; lia |].
  destruct x as [|x]; [cbn; lia |]. destruct a as [|a]; [lia |]. cbn [firstn].
  change (c :: firstn x l) with ([c] ++ firstn x l). change (c :: firstn a l) with ([c] ++ firstn a l).
  rewrite !units_app. specialize (IH x a ltac:(lia)). lia.
Qed.

(** T11_search_leftmost *)
Theorem search_leftmost :
  (forall a b, xsearch_tok w fuel sl t s = SFound a b ->
     (exists st', run_at a = MR (Some b) st') /\ forall a', (a' < a)%nat -> exists st', run_at a' = MR None st') /\
  (xsearch_tok w fuel sl t s = SNone -> forall a' e st, (a' <= length s)%nat -> run_at a' <> MR (Some e) st).
Proof.
  rewrite xsearch_unfold. split.
  - intros a b H. destruct (Nat.ltb (units_of s) (minlen_u t)); [discriminate |].
    destruct (search_go_found _ _ _ _ _ _ H) as [_ [R [_ Hl]]]. split; [exact R |]. intros a' Ha. apply Hl; lia.
  - intros H a' e st Ha R. destruct (run_at_word a' e st R) as [v [rest [E [_ Hv]]]].
    destruct (search_bound_necessary _ t s a' v rest E Hv) as [B1 B2]. rewrite B1 in H.
    destruct (search_go_none _ _ _ _ H a' ltac:(lia) ltac:(lia)) as [st' R'].
    + intros x _ Hx. exact (ok_downward a' x Hx B2).
    + rewrite R in R'. discriminate.
Qed.

(** T11_prefilter_transparent: with the repaired addRange, on subjects without surrogate code points *)
Hypothesis Hne : tok_nes t = true.
Hypothesis Hfx : fx_add w = true.
Hypothesis Hs : forallb (fun x => negb (is_surrogate x)) s = true.

Lemma xsearch_fc_unfold : xsearch_fc w fuel sl t s =
  if Nat.ltb (units_of s) (minlen_u t) then SNone else
  match first_char (fx_add w) t with
  | Some fcs => search_fc run_at (fun start => Nat.leb (units_of (firstn start s)) (units_of s - minlen_u t)) (fc_pass fcs s) (length s) 0%nat
  | None => search_go run_at (fun start => Nat.leb (units_of (firstn start s)) (units_of s - minlen_u t)) (length s) 0%nat
  end.
Proof. unfold xsearch_fc, run_at. destruct (compile w true t HNull 0) as [o nclos]. reflexivity. Qed.

Theorem prefilter_transparent :
  (forall a b, xsearch_tok w fuel sl t s = SFound a b -> xsearch_fc w fuel sl t s = SFound a b) /\
  (xsearch_tok w fuel sl t s = SNone -> xsearch_fc w fuel sl t s = SNone).
Proof.
  rewrite xsearch_unfold, xsearch_fc_unfold. destruct (Nat.ltb (units_of s) (minlen_u t)); [split; auto |].
  rewrite Hfx. destruct (first_char true t) as [fcs|] eqn:Ef; [| split; auto].
  apply search_fc_same. intros start e st R.
  destruct (run_at_word start e st R) as [v [rest [E [_ Hv]]]].
  destruct (first_char_necessary (xp_dot (fx_dot w) sl) t fcs Hwf Hne Ef) as [_ Hn]. destruct (Hn v Hv) as [c [r [-> Hc]]].
  unfold fc_pass. assert (En : nth_error s start = Some c).
  { apply nth_skipn. exists (r ++ rest). exact E. }
  rewrite En, Hc. rewrite forallb_forall in Hs. rewrite (Hs c (nth_error_In _ _ En)). reflexivity.
Qed.

End Search.
