(** Range algebra of RangeToken: each operation denotes the corresponding set operation. *)
From Coq Require Import Arith PeanoNat ZArith ZifyBool ZifyN ZifyNat Lia.
From XV Require Import C11.ModelRange11.
Local Open Scope N_scope.

Lemma rmem_cons : forall x l c, rmem (x :: l) c = in_pair c x || rmem l c.
Proof. reflexivity. Qed.

Lemma rmem_app : forall a b c, rmem (a ++ b) c = rmem a c || rmem b c.
Proof. intros a b c. unfold rmem. apply existsb_app. Qed.

(** ** sortRanges *)
Lemma rmem_rinsert : forall x l c, rmem (rinsert x l) c = in_pair c x || rmem l c.
Proof.
  intros x l c. induction l as [|y l IH]; cbn [rinsert]; [reflexivity |].
  destruct (rlt y x); rewrite ?rmem_cons; [rewrite IH |]; destruct (in_pair c x), (in_pair c y), (rmem l c); reflexivity.
Qed.

Lemma rmem_rsort : forall l c, rmem (rsort l) c = rmem l c.
Proof.
  intros l c. induction l as [|x l IH]; [reflexivity |]. cbn [rsort]. rewrite rmem_rinsert, rmem_cons, IH. reflexivity.
Qed.

Lemma rle_total : forall a b, rle a b = false -> rle b a = true.
Proof.
  intros [a1 a2] [b1 b2]. unfold rle, rlt. cbn [fst snd]. lia.
Qed.

Lemma sorted_rinsert : forall x l, sorted_ok l = true -> sorted_ok (rinsert x l) = true.
Proof.
  intros x l. induction l as [|y l IH]; intros H; [reflexivity |]. cbn [rinsert].
  destruct (rlt y x) eqn:E.
  - destruct l as [|z l].
    + cbn. unfold rle. destruct x, y. unfold rlt in *. cbn [fst snd] in *. lia.
    + cbn [sorted_ok] in H. apply andb_true_iff in H. destruct H as [H1 H2]. specialize (IH H2).
      cbn [rinsert] in *. destruct (rlt z x) eqn:E2.
      * cbn [sorted_ok]. rewrite H1. exact IH.
      * cbn [sorted_ok] in *. rewrite IH. rewrite andb_true_r. unfold rle. destruct x, y. unfold rlt in *. cbn [fst snd] in *. lia.
  - change (sorted_ok (x :: y :: l)) with (rle x y && sorted_ok (y :: l)). rewrite H, andb_true_r. unfold rle. rewrite E. reflexivity.
Qed.

Lemma sorted_rsort : forall l, sorted_ok (rsort l) = true.
Proof. induction l as [|x l IH]; [reflexivity |]. cbn [rsort]. apply sorted_rinsert. exact IH. Qed.

(** ** mergeRanges *)
Lemma rmem_merge : forall a b c, rmem (merge_go a b) c = rmem a c || rmem b c.
Proof.
  induction a as [|x a IHa]; intros b c.
  - reflexivity.
  - induction b as [|y b IHb].
    + cbn. rewrite orb_false_r. reflexivity.
    + cbn [merge_go]. destruct (rlt y x).
      * rewrite rmem_cons. cbn [merge_go] in IHb. rewrite IHb. rewrite !rmem_cons.
        destruct (in_pair c y), (in_pair c x), (rmem a c), (rmem b c); reflexivity.
      * rewrite rmem_cons, IHa, !rmem_cons.
        destruct (in_pair c y), (in_pair c x), (rmem a c), (rmem b c); reflexivity.
Qed.

Lemma length_merge : forall a b, length (merge_go a b) = (length a + length b)%nat.
Proof.
  induction a as [|x a IHa]; intros b; [reflexivity |].
  induction b as [|y b IHb]; [cbn; lia |].
  cbn [merge_go]. destruct (rlt y x).
  - cbn [length]. cbn [merge_go] in IHb. rewrite IHb. cbn. lia.
  - cbn [length]. rewrite IHa. cbn. lia.
Qed.

(** ** compactRanges: on a list sorted by start whose pairs are well-formed *)
Fixpoint lo_sorted (prev : N) (l : list rng) : bool :=
  match l with [] => true | (lo, hi) :: r => (prev <=? lo) && (lo <=? hi) && lo_sorted lo r end.

Lemma rmem_compact_go : forall r blo bhi c, blo <= bhi -> lo_sorted blo r = true ->
  rmem (compact_go blo bhi r) c = in_pair c (blo, bhi) || rmem r c.
Proof.
  induction r as [|[s e] r IH]; intros blo bhi c Hb Hs; cbn [compact_go].
  - cbn. rewrite orb_false_r. reflexivity.
  - cbn [lo_sorted] in Hs. apply andb_true_iff in Hs. destruct Hs as [Hs Hr]. apply andb_true_iff in Hs. destruct Hs as [H1 H2].
    assert (Hr' : forall v, v <= s -> lo_sorted v r = true).
    { intros v Hv. destruct r as [|[s2 e2] r2]; [reflexivity |]. cbn [lo_sorted] in *. lia. }
    destruct (bhi + 1 <? s) eqn:E1.
    + rewrite rmem_cons. rewrite IH; [| lia | exact Hr]. rewrite rmem_cons. reflexivity.
    + destruct ((bhi + 1 =? s) || (bhi <? e)) eqn:E2.
      * rewrite IH; [| lia | apply Hr'; lia]. rewrite rmem_cons. unfold in_pair. cbn [fst snd].
        destruct (rmem r c); rewrite ?orb_true_r, ?orb_false_r; [reflexivity |]. lia.
      * rewrite IH; [| lia | apply Hr'; lia]. rewrite rmem_cons. unfold in_pair. cbn [fst snd].
        destruct (rmem r c); rewrite ?orb_true_r, ?orb_false_r; [reflexivity |]. lia.
Qed.

Lemma compact_go_ok : forall r blo bhi, blo <= bhi -> lo_sorted blo r = true -> compact_ok (compact_go blo bhi r) = true.
Proof.
  induction r as [|[s e] r IH]; intros blo bhi Hb Hs; cbn [compact_go].
  - cbn. lia.
  - cbn [lo_sorted] in Hs. apply andb_true_iff in Hs. destruct Hs as [Hs Hr]. apply andb_true_iff in Hs. destruct Hs as [H1 H2].
    assert (Hr' : forall v, v <= s -> lo_sorted v r = true).
    { intros v Hv. destruct r as [|[s2 e2] r2]; [reflexivity |]. cbn [lo_sorted] in *. lia. }
    destruct (bhi + 1 <? s) eqn:E1.
    + specialize (IH s e ltac:(lia) Hr).
      assert (Hhd : exists hi' r', compact_go s e r = (s, hi') :: r').
      { clear. revert s e. induction r as [|[s2 e2] r IHr]; intros s e; cbn [compact_go]; [eauto |].
        destruct (e + 1 <? s2); [eauto |]. destruct ((e + 1 =? s2) || (e <? e2)); apply IHr. }
      destruct Hhd as [hi' [r' Eh]]. rewrite Eh in *. cbn [compact_ok] in *. lia.
    + destruct ((bhi + 1 =? s) || (bhi <? e)) eqn:E2; apply IH; try lia; apply Hr'; lia.
Qed.

Theorem compact_list_spec : forall l c, lo_sorted 0 l = true ->
  rmem (compact_list l) c = rmem l c /\ compact_ok (compact_list l) = true.
Proof.
  intros [|[lo hi] r] c H; [split; reflexivity |]. cbn [compact_list lo_sorted] in *.
  apply andb_true_iff in H. destruct H as [H Hr]. apply andb_true_iff in H. destruct H as [_ H].
  split; [apply rmem_compact_go | apply compact_go_ok]; try lia; exact Hr.
Qed.

Lemma length_compact_go : forall r blo bhi, (length (compact_go blo bhi r) <= S (length r))%nat.
Proof.
  induction r as [|[s e] r IH]; intros blo bhi; cbn [compact_go length]; [lia |].
  destruct (bhi + 1 <? s); [cbn [length]; specialize (IH s e); lia |].
  destruct ((bhi + 1 =? s) || (bhi <? e)); [specialize (IH blo e) | specialize (IH blo bhi)]; lia.
Qed.

(** ** match = membership (on compacted ranges), with the 256-entry bitmap fast path *)
Lemma compact_ok_tail : forall lo hi r, compact_ok ((lo, hi) :: r) = true ->
  compact_ok r = true /\ forall c, c <= hi + 1 -> rmem r c = false.
Proof.
  intros lo hi r. revert lo hi. induction r as [|[lo2 hi2] r IH]; intros lo hi H.
  - split; [reflexivity | reflexivity].
  - cbn [compact_ok] in H. apply andb_true_iff in H. destruct H as [H0 H]. apply andb_true_iff in H. destruct H as [H1 H2].
    split; [exact H2 |]. intros c Hc. rewrite rmem_cons. destruct (IH lo2 hi2 H2) as [_ IH2].
    rewrite IH2.
    + unfold in_pair. cbn [fst snd]. lia.
    + cbn [compact_ok] in H2. lia.
Qed.

Lemma map_split_spec : forall l c, compact_ok l = true ->
  let (m, n) := map_split l in
  (c < 256 -> existsb (fun p => in_pair c p && (c <? 256)) m = rmem l c) /\
  (256 <= c -> existsb (in_pair c) n = rmem l c).
Proof.
  induction l as [|[b e] r IH]; intros c H.
  - cbn. split; reflexivity.
  - destruct (compact_ok_tail b e r H) as [Hr Habove]. specialize (IH c Hr).
    assert (Hbe : b <= e).
    { cbn [compact_ok] in H. apply andb_true_iff in H. destruct H as [H _]. lia. }
    cbn [map_split]. destruct (b <? 256) eqn:Eb.
    + destruct (256 <=? e) eqn:Ee.
      * split.
        -- intros Hc. cbn [existsb]. rewrite rmem_cons, orb_false_r. rewrite Habove by lia.
           rewrite orb_false_r. assert (c <? 256 = true) by lia. rewrite H0, andb_true_r. reflexivity.
        -- intros Hc. reflexivity.
      * destruct (map_split r) as [m n]. destruct IH as [IH1 IH2]. split.
        -- intros Hc. cbn [existsb]. rewrite rmem_cons, IH1 by exact Hc.
           assert (c <? 256 = true) by lia. rewrite H0, andb_true_r. reflexivity.
        -- intros Hc. rewrite rmem_cons, IH2 by exact Hc. unfold in_pair. cbn [fst snd].
           assert ((b <=? c) && (c <=? e) = false) by lia. rewrite H0. reflexivity.
    + split.
      * intros Hc. cbn [existsb]. rewrite rmem_cons, Habove by lia. unfold in_pair. cbn [fst snd]. lia.
      * intros Hc. reflexivity.
Qed.

Theorem rt_match_spec : forall neg l c, compact_ok l = true -> rt_match neg l c = xorb neg (rmem l c).
Proof.
  intros neg l c H. unfold rt_match. pose proof (map_split_spec l c H) as M. destruct (map_split l) as [m n].
  destruct M as [M1 M2]. destruct (c <? 256) eqn:E.
  - rewrite M1 by lia. destruct neg, (rmem l c); reflexivity.
  - rewrite M2 by lia. destruct neg, (rmem l c); reflexivity.
Qed.

(** ** addRange (repaired): the token denotes the union with the new interval; its array stays within fMaxCount *)
Lemma rmem_set_last_hi : forall l v c, l <> [] -> pairs_ok l = true -> last_hi l + 1 <= v ->
  rmem (set_last_hi l v) c = rmem l c || ((last_hi l + 1 <=? c) && (c <=? v)).
Proof.
  induction l as [|[lo hi] r IH]; intros v c Hne Hp Hv; [congruence |].
  cbn [pairs_ok forallb fst snd] in Hp. apply andb_true_iff in Hp. destruct Hp as [Hp Hpr].
  destruct r as [|y r].
  - cbn. unfold in_pair, last_hi in *. cbn [fst snd last] in *. lia.
  - change (set_last_hi ((lo, hi) :: y :: r) v) with ((lo, hi) :: set_last_hi (y :: r) v).
    rewrite !rmem_cons with (x := (lo, hi)). change (last_hi ((lo, hi) :: y :: r)) with (last_hi (y :: r)) in *.
    rewrite IH; [| discriminate | exact Hpr | exact Hv]. destruct (in_pair c (lo, hi)); reflexivity.
Qed.

Lemma add_sorted_spec : forall l v1 v2 l' c, v1 <= v2 -> add_sorted l v1 v2 = Some l' ->
  rmem l' c = rmem l c || in_pair c (v1, v2).
Proof.
  induction l as [|[lo hi] r IH]; intros v1 v2 l' c Hv H; cbn [add_sorted] in H; [discriminate |].
  destruct ((lo <=? v1) && (v2 <=? hi)) eqn:E1.
  - inversion H; subst. rewrite rmem_cons. unfold in_pair. cbn [fst snd].
    destruct (rmem r c); rewrite ?orb_true_r; [reflexivity |]. rewrite orb_false_r. lia.
  - destruct ((lo =? v1) && (hi <? v2)) eqn:E2.
    + inversion H; subst. rewrite !rmem_cons. unfold in_pair. cbn [fst snd].
      destruct (rmem r c); rewrite ?orb_true_r; [reflexivity |]. rewrite !orb_false_r. lia.
    + destruct ((v1 <? lo) || ((lo =? v1) && (v2 <? hi))) eqn:E3.
      * inversion H; subst. rewrite !rmem_cons. destruct (in_pair c (v1, v2)), (in_pair c (lo, hi)), (rmem r c); reflexivity.
      * destruct (add_sorted r v1 v2) as [r'|] eqn:E4; [| discriminate]. inversion H; subst.
        rewrite !rmem_cons, (IH v1 v2 r' c Hv E4). destruct (in_pair c (lo, hi)), (rmem r c), (in_pair c (v1, v2)); reflexivity.
Qed.

Lemma length_add_sorted : forall l v1 v2 l', add_sorted l v1 v2 = Some l' -> (length l' <= S (length l))%nat.
Proof.
  induction l as [|[lo hi] r IH]; intros v1 v2 l' H; cbn [add_sorted] in H; [discriminate |].
  destruct ((lo <=? v1) && (v2 <=? hi)); [inversion H; subst; cbn; lia |].
  destruct ((lo =? v1) && (hi <? v2)); [inversion H; subst; cbn; lia |].
  destruct ((v1 <? lo) || ((lo =? v1) && (v2 <? hi))); [inversion H; subst; cbn; lia |].
  destruct (add_sorted r v1 v2) as [r'|] eqn:E; [| discriminate]. inversion H; subst. specialize (IH v1 v2 r' E). cbn. lia.
Qed.

Lemma length_set_last_hi : forall l v, length (set_last_hi l v) = length l.
Proof.
  induction l as [|[lo hi] r IH]; intros v; [reflexivity |]. destruct r as [|y r]; [reflexivity |].
  change (set_last_hi ((lo, hi) :: y :: r) v) with ((lo, hi) :: set_last_hi (y :: r) v). cbn [length]. rewrite IH. reflexivity.
Qed.

Definition interval (a b c : N) : bool := (N.min a b <=? c) && (c <=? N.max a b).

(** an allocated token always holds at least one pair (the C++ reads fRanges[fElemCount-1]) *)
Definition rt_wf (t : rtok) : Prop :=
  (alloc t = true -> rs t <> []) /\ (alloc t = false -> rs t = []) /\ pairs_ok (rs t) = true.

Theorem addRange_fixed_spec : forall t a b c, rt_wf t ->
  rmem (rs (addRange true t a b)) c = rmem (rs t) c || interval a b c.
Proof.
  intros t a b c [W1 [W2 W3]]. unfold addRange, interval.
  set (v1 := if a <=? b then a else b). set (v2 := if a <=? b then b else a).
  assert (Hv : v1 <= v2) by (unfold v1, v2; destruct (a <=? b) eqn:E; lia).
  assert (Hi : (N.min a b <=? c) && (c <=? N.max a b) = in_pair c (v1, v2)).
  { unfold in_pair, v1, v2. cbn [fst snd]. destruct (a <=? b) eqn:E; lia. }
  rewrite Hi. destruct (alloc t) eqn:Ea; cbn [negb].
  - specialize (W1 eq_refl). destruct (last_hi (rs t) + 1 =? v1) eqn:E1.
    + cbn [rs]. rewrite rmem_set_last_hi; [| exact W1 | exact W3 | lia]. unfold in_pair. cbn [fst snd].
      destruct (rmem (rs t) c); [reflexivity |]. cbn [orb]. lia.
    + destruct (srt t && (v1 <=? last_hi (rs t))) eqn:E2.
      * destruct (add_sorted (rs t) v1 v2) as [l|] eqn:E3; cbn [rs].
        -- apply (add_sorted_spec _ _ _ _ c Hv E3).
        -- rewrite rmem_app. cbn. rewrite orb_false_r. reflexivity.
      * destruct (if v1 <=? last_hi (rs t) then false else srt t); cbn [rs]; rewrite ?rmem_rsort, rmem_app; cbn;
          rewrite orb_false_r; reflexivity.
  - cbn [rs]. rewrite (W2 eq_refl). cbn. rewrite orb_false_r. reflexivity.
Qed.

(** the faithful addRange loses an interval (F26) *)
Lemma addRange_drop_witness :
  let t := addRange false (addRange false rt_new 1 5) 3 9 in rs t = [(1, 5)] /\ rmem (rs t) 7 = false.
Proof. vm_compute. split; reflexivity. Qed.

(** index safety: the element count never exceeds the allocated size computed by the C++ *)
Definition cap_ok (t : rtok) : Prop := (elemc t <= maxc t)%nat.

Lemma expand_to_ge : forall ec len, (ec + len <= expand_to ec len)%nat.
Proof. intros. unfold expand_to. apply Nat.le_max_l. Qed.

Theorem addRange_cap : forall fx t a b, cap_ok t -> (2 <= maxc t)%nat -> cap_ok (addRange fx t a b).
Proof.
  intros fx t a b H H2. unfold cap_ok, addRange in *. unfold elemc in *.
  set (v1 := if a <=? b then a else b). set (v2 := if a <=? b then b else a).
  destruct (alloc t); cbn [negb].
  - destruct (last_hi (rs t) + 1 =? v1).
    + cbn [rs maxc]. rewrite length_set_last_hi. exact H.
    + set (mx := if Nat.leb (maxc t) (2 * length (rs t) + 2) then expand_to (2 * length (rs t)) 2 else maxc t).
      assert (Hmx : (2 * length (rs t) + 2 <= mx)%nat).
      { unfold mx. destruct (Nat.leb (maxc t) (2 * length (rs t) + 2)) eqn:E.
        - apply expand_to_ge.
        - apply Nat.leb_gt in E. lia. }
      destruct (srt t && (v1 <=? last_hi (rs t))).
      * destruct (add_sorted (rs t) v1 v2) as [l|] eqn:E3; cbn [rs maxc].
        -- pose proof (length_add_sorted _ _ _ _ E3). lia.
        -- destruct fx; [rewrite app_length; cbn; lia | lia].
      * assert (Hs : forall l, length (rsort l) = length l).
        { induction l as [|x l IH]; [reflexivity |]. cbn [rsort].
          assert (Hi : forall y m, length (rinsert y m) = S (length m)).
          { intros y m. induction m as [|z m IHm]; [reflexivity |]. cbn [rinsert]. destruct (rlt z y); cbn [length]; [rewrite IHm |]; reflexivity. }
          rewrite Hi, IH. reflexivity. }
        destruct (if v1 <=? last_hi (rs t) then false else srt t); cbn [rs maxc]; rewrite ?Hs, app_length; cbn; lia.
  - cbn [rs maxc length]. lia.
Qed.

Theorem mergeRanges_cap : forall t o, cap_ok t -> cap_ok o -> cap_ok (mergeRanges t o).
Proof.
  intros t o Ht Ho. unfold mergeRanges. destruct (alloc o); cbn [negb]; [| exact Ht].
  assert (Hs : forall l, length (rsort l) = length l).
  { induction l as [|x l IH]; [reflexivity |]. cbn [rsort].
    assert (Hi : forall y m, length (rinsert y m) = S (length m)).
    { intros y m. induction m as [|z m IHm]; [reflexivity |]. cbn [rinsert]. destruct (rlt z y); cbn [length]; [rewrite IHm |]; reflexivity. }
    rewrite Hi, IH. reflexivity. }
  assert (Hc : forall u, cap_ok u -> cap_ok (sortRanges u) /\ length (rs (sortRanges u)) = length (rs u) /\ maxc (sortRanges u) = maxc u /\ alloc (sortRanges u) = alloc u).
  { intros u Hu. unfold sortRanges. destruct (srt u || negb (alloc u)); [auto |]. unfold cap_ok, elemc in *. cbn [rs maxc alloc]. rewrite Hs. auto. }
  destruct (Hc t Ht) as [Ht' [Lt [Mt At]]]. destruct (Hc o Ho) as [Ho' [Lo [Mo Ao]]].
  rewrite At. destruct (alloc t); cbn [negb].
  - unfold cap_ok, elemc in *. cbn [rs maxc]. rewrite length_merge.
    destruct (Nat.leb (maxc (sortRanges t)) (2 * length (rs (sortRanges t)) + 2 * length (rs (sortRanges o)))) eqn:E.
    + lia.
    + apply Nat.leb_gt in E. lia.
  - unfold cap_ok, elemc in *. cbn [rs maxc]. lia.
Qed.

Theorem mergeRanges_spec : forall t o c, rt_wf t -> rt_wf o ->
  rmem (rs (mergeRanges t o)) c = rmem (rs t) c || rmem (rs o) c.
Proof.
  intros t o c [T1 [T2 _]] [O1 [O2 _]]. unfold mergeRanges.
  assert (Hs : forall u, rmem (rs (sortRanges u)) c = rmem (rs u) c /\ alloc (sortRanges u) = alloc u).
  { intros u. unfold sortRanges. destruct (srt u || negb (alloc u)); [auto |]. cbn [rs alloc]. rewrite rmem_rsort. auto. }
  destruct (alloc o) eqn:Eo; cbn [negb].
  - destruct (Hs t) as [St At]. destruct (Hs o) as [So Ao]. rewrite At. destruct (alloc t) eqn:Et; cbn [negb rs].
    + rewrite rmem_merge, St, So. reflexivity.
    + rewrite So, (T2 eq_refl). reflexivity.
  - rewrite (O2 eq_refl). cbn. rewrite orb_false_r. reflexivity.
Qed.
