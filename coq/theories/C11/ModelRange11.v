(** Executable model of src/xercesc/util/regx/RangeToken.cpp (no proofs here).
    The C++ keeps [fRanges] as a flat XMLInt32 array lo0,hi0,lo1,hi1,...; the model keeps the pairs, so
    fElemCount = 2 * length rs.  [maxc] is fMaxCount (allocated size in XMLInt32 units), [alloc] is fRanges != 0.
    Values are code points (non-negative, far below INT_MAX), so the guarded [x - 1] / [x + 1] of the C++ never wrap.

    The switch [fx] selects the repaired addRange (fixes/C11-addrange-overlap.patch); [fx = false] is the code as
    it stands in the pinned tree (an added range that starts inside the last range and ends beyond it is dropped). *)
From XV Require Export Base.XDefs.
Local Open Scope N_scope.

Definition rng : Type := (N * N)%type.

Record rtok : Type := mkR { rs : list rng; srt : bool; cmpd : bool; maxc : nat; alloc : bool }.

(** RangeToken::RangeToken: fSorted(false) fCompacted(false) fElemCount(0) fMaxCount(INITIALSIZE = 16) fRanges(0) *)
Definition rt_new : rtok := mkR [] false false 16 false.

Definition elemc (t : rtok) : nat := (2 * length (rs t))%nat.

(** lexicographic order on pairs used by sortRanges / mergeRanges / addRange *)
Definition rlt (a b : rng) : bool := (fst a <? fst b) || ((fst a =? fst b) && (snd a <? snd b)).
Definition rle (a b : rng) : bool := negb (rlt b a).

(** sortRanges: the C++ is a bubble sort with the comparison [rlt b a => swap]; its result is the sorted permutation
    (unique, since [rlt] is a strict total order on pairs), computed here by insertion *)
Fixpoint rinsert (x : rng) (l : list rng) : list rng :=
  match l with
  | [] => [x]
  | y :: r => if rlt y x then y :: rinsert x r else x :: l
  end.
Fixpoint rsort (l : list rng) : list rng := match l with [] => [] | x :: r => rinsert x (rsort r) end.

Definition sortRanges (t : rtok) : rtok :=
  if srt t || negb (alloc t) then t else mkR (rsort (rs t)) true (cmpd t) (maxc t) (alloc t).

(** compactRanges *)
Fixpoint compact_go (blo bhi : N) (rest : list rng) : list rng :=
  match rest with
  | [] => [(blo, bhi)]
  | (s, e) :: r =>
      if bhi + 1 <? s then (blo, bhi) :: compact_go s e r
      else if (bhi + 1 =? s) || (bhi <? e) then compact_go blo e r
      else compact_go blo bhi r
  end.
Definition compact_list (l : list rng) : list rng :=
  match l with [] => [] | (lo, hi) :: r => compact_go lo hi r end.

Definition compactRanges (t : rtok) : rtok :=
  if cmpd t || negb (alloc t) || Nat.leb (elemc t) 2 then t
  else mkR (compact_list (rs t)) (srt t) true (maxc t) (alloc t).

(** expand(length): newMax = max(fElemCount + length, (unsigned)(fElemCount * 1.25)) *)
Definition expand_to (ec len : nat) : nat := Nat.max (ec + len)%nat (Nat.div (ec * 5)%nat 4).

Definition last_hi (l : list rng) : N := snd (last l (0, 0)).
Fixpoint set_last_hi (l : list rng) (v : N) : list rng :=
  match l with
  | [] => []
  | [(lo, _)] => [(lo, v)]
  | x :: r => x :: set_last_hi r v
  end.

(** the insertion loop of addRange on a sorted array; [None] = the loop ran off the end without finding a slot *)
Fixpoint add_sorted (l : list rng) (v1 v2 : N) : option (list rng) :=
  match l with
  | [] => None
  | (lo, hi) :: r =>
      if (lo <=? v1) && (v2 <=? hi) then Some l                           (* already part of this range *)
      else if (lo =? v1) && (hi <? v2) then Some ((lo, v2) :: r)          (* extends the old one *)
      else if (v1 <? lo) || ((lo =? v1) && (v2 <? hi)) then Some ((v1, v2) :: l)   (* shift up and insert *)
      else match add_sorted r v1 v2 with Some r' => Some ((lo, hi) :: r') | None => None end
  end.

Definition addRange (fx : bool) (t : rtok) (start end_ : N) : rtok :=
  let v1 := if start <=? end_ then start else end_ in
  let v2 := if start <=? end_ then end_ else start in
  if negb (alloc t) then mkR [(v1, v2)] true (cmpd t) (maxc t) true
  else if last_hi (rs t) + 1 =? v1 then mkR (set_last_hi (rs t) v2) (srt t) (cmpd t) (maxc t) true
  else
    let mx := if Nat.leb (maxc t) (elemc t + 2)%nat then expand_to (elemc t) 2 else maxc t in
    if srt t && (v1 <=? last_hi (rs t)) then
      match add_sorted (rs t) v1 v2 with
      | Some l => mkR l true (cmpd t) mx true
      | None => mkR (if fx then rs t ++ [(v1, v2)] else rs t) true (cmpd t) mx true
      end
    else
      let s' := if v1 <=? last_hi (rs t) then false else srt t in
      let l := rs t ++ [(v1, v2)] in
      if s' then mkR l true (cmpd t) mx true else mkR (rsort l) true (cmpd t) mx true.

(** mergeRanges: the merge loop takes the other token's pair when it is strictly smaller *)
Fixpoint merge_go (a : list rng) : list rng -> list rng :=
  match a with
  | [] => fun b => b
  | x :: a' =>
      fix inner (b : list rng) : list rng :=
        match b with
        | [] => a
        | y :: b' => if rlt y x then y :: inner b' else x :: merge_go a' b
        end
  end.

Definition mergeRanges (t o : rtok) : rtok :=
  if negb (alloc o) then t else
  let t := sortRanges t in
  let o := sortRanges o in
  if negb (alloc t) then mkR (rs o) true (cmpd t) (maxc o) true
  else
    let mx := if Nat.leb (maxc t) (elemc t + elemc o)%nat then (maxc t + maxc o)%nat else maxc t in
    mkR (merge_go (rs t) (rs o)) (srt t) (cmpd t) mx true.

(** the while loop of subtractRanges.  [sub_inner] is the loop while srcCount stays on one source range: [se] is its
    end, [sb] is fRanges[srcCount] (rewritten in place when a head is cut off), [rec] continues with the next source
    range and the current position in the subtrahend *)
Fixpoint sub_inner (rec : list rng -> list rng) (se : N) (src' : list rng) (sb : N) (sub : list rng) : list rng :=
  match sub with
  | [] => (sb, se) :: src'
  | (ub, ue) :: sub' =>
      if se <? ub then (sb, se) :: rec sub
      else if (ub <=? se) && (sb <=? ue) then
        if (ub <=? sb) && (se <=? ue) then rec sub
        else if ub <=? sb then sub_inner rec se src' (ue + 1) sub'
        else if se <=? ue then (sb, ub - 1) :: rec sub
        else (sb, ub - 1) :: sub_inner rec se src' (ue + 1) sub'
      else sub_inner rec se src' sb sub'
  end.

Fixpoint sub_go (src : list rng) : list rng -> list rng :=
  match src with
  | [] => fun _ => []
  | (sb0, se) :: src' => sub_inner (sub_go src') se src' sb0
  end.

(** the while loop of intersectRanges (it ends as soon as the other token is exhausted) *)
Fixpoint int_inner (rec : list rng -> list rng) (se : N) (sb : N) (tk : list rng) : list rng :=
  match tk with
  | [] => []
  | (tb, te) :: tk' =>
      if se <? tb then rec tk
      else if (tb <=? se) && (sb <=? te) then
        if (tb <=? sb) && (se <=? te) then (sb, se) :: rec tk
        else if tb <=? sb then (sb, te) :: int_inner rec se (te + 1) tk'
        else if se <=? te then (tb, se) :: rec tk
        else (tb, te) :: int_inner rec se (te + 1) tk'
      else int_inner rec se sb tk'
  end.

Fixpoint int_go (src : list rng) : list rng -> list rng :=
  match src with
  | [] => fun _ => []
  | (sb0, se) :: src' => int_inner (int_go src') se sb0
  end.

Definition new_max (t o : rtok) : nat :=
  if Nat.leb (maxc t) (elemc t + elemc o)%nat then (maxc t + maxc o)%nat else maxc t.

Definition intersectRanges (t o : rtok) : rtok :=
  if negb (alloc t) || negb (alloc o) then t else
  let t := compactRanges (sortRanges t) in
  let o := compactRanges (sortRanges o) in
  mkR (int_go (rs t) (rs o)) (srt t) (cmpd t) (new_max t o) true.

(** [oneg]: the argument token is of type T_NRANGE *)
Definition subtractRanges (t o : rtok) (oneg : bool) : rtok :=
  if negb (alloc t) || negb (alloc o) then t else
  if oneg then intersectRanges t o else
  let t := compactRanges (sortRanges t) in
  let o := compactRanges (sortRanges o) in
  mkR (sub_go (rs t) (rs o)) (srt t) (cmpd t) (new_max t o) true.

(** complementRanges (tok->fRanges must be non-null: the C++ dereferences it unconditionally) *)
Fixpoint gaps (fx : bool) (acc : rtok) (prev_hi : N) (l : list rng) : rtok :=
  match l with
  | [] => acc
  | (lo, hi) :: r => gaps fx (addRange fx acc (prev_hi + 1) (lo - 1)) hi r
  end.

Definition complementRanges (fx : bool) (t : rtok) : rtok :=
  let t := compactRanges (sortRanges t) in
  match rs t with
  | [] => rt_new
  | (lo0, hi0) :: r =>
      let last := last_hi (rs t) in
      let a := if 0 <? lo0 then addRange fx rt_new 0 (lo0 - 1) else rt_new in
      let b := gaps fx a hi0 r in
      let c := if negb (last =? 0x10FFFF) then addRange fx b (last + 1) 0x10FFFF else b in
      mkR (rs c) (srt c) true (maxc c) (alloc c)
  end.

(** doCreateMap + match.  [map_split] walks the ranges as doCreateMap does: ranges that start below MAPSIZE = 256 set
    bits (up to 255); the walk stops at the first range that starts at or above 256 or ends at or above 256, and
    fNonMapIndex points at that range. *)
Fixpoint map_split (l : list rng) : list rng * list rng :=
  match l with
  | [] => ([], [])
  | (b, e) :: r =>
      if b <? 256 then
        if 256 <=? e then ([(b, e)], l)
        else let (m, n) := map_split r in ((b, e) :: m, n)
      else ([], l)
  end.

Definition in_pair (c : N) (p : rng) : bool := (fst p <=? c) && (c <=? snd p).
Definition rmem (l : list rng) (c : N) : bool := existsb (in_pair c) l.

(** RangeToken::match for a T_RANGE ([neg = false]) or T_NRANGE token *)
Definition rt_match (neg : bool) (l : list rng) (c : N) : bool :=
  let (m, n) := map_split l in
  let hit := if c <? 256 then existsb (fun p => in_pair c p && (c <? 256)) m else existsb (in_pair c) n in
  if neg then negb hit else hit.

(** doCreateMap leaves fNonMapIndex = index of the first range that starts at or reaches above 255 (in pairs: the
    number of pairs walked before it) and RangeToken::match scans fRanges from that index for characters >= 256.
    The map is only valid for the array it was built from: [rt_match_at (nonmap_index lb) l c] is match() on ranges
    [l] with a map built when the ranges were [lb] (createMap called before a later compactRanges). *)
Definition nonmap_index (l : list rng) : nat := (length l - length (snd (map_split l)))%nat.
Definition rt_match_at (idx : nat) (l : list rng) (c : N) : bool :=
  if c <? 256 then rmem l c else existsb (in_pair c) (skipn idx l).

(** the set denoted by a range list, and the ordering invariant established by sort + compact:
    strictly increasing, disjoint and non-adjacent *)
Fixpoint compact_ok (l : list rng) : bool :=
  match l with
  | [] => true
  | (lo, hi) :: r =>
      (lo <=? hi) && match r with [] => true | (lo2, _) :: _ => (hi + 1 <? lo2) && compact_ok r end
  end.

Fixpoint sorted_ok (l : list rng) : bool :=
  match l with
  | [] => true
  | x :: r => match r with [] => true | y :: _ => rle x y && sorted_ok r end
  end.

Definition pairs_ok (l : list rng) : bool := forallb (fun p => fst p <=? snd p) l.
