(** Category escapes: the library's tokens for \p{..}, \w and \d are exactly the sets the Spec defines from the
    category map (Gen/GenC11Cat.v, regenerated on every run from the source and the built library). *)
From Coq Require Import Arith PeanoNat ZArith ZifyBool ZifyN ZifyNat Lia.
From XV Require Import C11.Spec11 C11.ModelRange11 C11.Proofs11b Gen.GenC11 Gen.GenC11Cat.
Local Open Scope N_scope.

(** the ranges a predicate on categories selects *)
Definition sel (p : N -> bool) (rle : list (N * N * N)) : list rng := map run_rng (filter (fun r => p (run_cat r)) rle).

Definition supp : list rng := [(0x10000, 0x10FFFF)].

Fixpoint rng_list_eqb (a b : list rng) : bool :=
  match a, b with
  | [], [] => true
  | (x1, y1) :: a', (x2, y2) :: b' => (x1 =? x2) && (y1 =? y2) && rng_list_eqb a' b'
  | _, _ => false
  end.

Lemma rng_list_eqb_eq : forall a b, rng_list_eqb a b = true -> a = b.
Proof.
  induction a as [|[x1 y1] a IH]; intros [|[x2 y2] b] H; cbn in H; try discriminate; [reflexivity |].
  apply andb_true_iff in H. destruct H as [H H3]. apply andb_true_iff in H. destruct H as [H1 H2].
  apply N.eqb_eq in H1. apply N.eqb_eq in H2. subst. f_equal. apply IH. exact H3.
Qed.

(** the run-length map tiles 0..0xFFFF *)
Fixpoint rle_chain (next : N) (l : list (N * N * N)) : bool :=
  match l with
  | [] => next =? 0x10000
  | (a, b, _) :: r => (a =? next) && (a <=? b) && rle_chain (b + 1) r
  end.

(** one token: [extra] = true for the token that also receives the supplementary planes (Cn) *)
Definition tok_check (rle : list (N * N * N)) (p : N -> bool) (extra : bool) (tok : list rng) : bool :=
  let l := sel p rle ++ (if extra then supp else []) in
  lo_sorted 0 l && rng_list_eqb tok (compact_list l).

Definition all_tok_checks : bool :=
  forallb (fun k => tok_check cat_rle (spec_cat_pred k) (k =? 0) (nth (N.to_nat k) cat_toks [])) (nrange 37).

Lemma rmem_sel : forall p rle c,
  rmem (sel p rle) c = existsb (fun r => in_pair c (run_rng r) && p (run_cat r)) rle.
Proof.
  intros p rle c. unfold sel. induction rle as [|r l IH]; [reflexivity |]. cbn [filter existsb].
  destruct (p (run_cat r)) eqn:E.
  - cbn [map]. rewrite rmem_cons, IH, andb_true_r. reflexivity.
  - rewrite IH, andb_false_r. reflexivity.
Qed.

Lemma rmem_supp : forall c, c < 0x10000 -> rmem supp c = false.
Proof. intros c Hc. unfold supp, rmem, existsb, in_pair. cbn [fst snd]. lia. Qed.

Lemma tok_check_spec : forall rle p extra tok c, tok_check rle p extra tok = true -> c < 0x10000 ->
  rmem tok c = existsb (fun r => in_pair c (run_rng r) && p (run_cat r)) rle.
Proof.
  intros rle p extra tok c H Hc. unfold tok_check in H. apply andb_true_iff in H. destruct H as [Hs He].
  apply rng_list_eqb_eq in He. subst tok.
  destruct (compact_list_spec _ c Hs) as [Hm _]. rewrite Hm, rmem_app, rmem_sel.
  destruct extra.
  - rewrite (rmem_supp c Hc), orb_false_r. reflexivity.
  - change (rmem [] c) with false. rewrite orb_false_r. reflexivity.
Qed.

(** a code unit lies in exactly one run, so "some run containing c has a category satisfying p" is "p (cat_of c)" *)
Lemma chain_above : forall l next c, rle_chain next l = true -> c < next ->
  existsb (fun r => in_pair c (run_rng r)) l = false.
Proof.
  induction l as [|[[a b] k] r IH]; intros next c H Hc; [reflexivity |]. cbn [rle_chain] in H.
  apply andb_true_iff in H. destruct H as [H H3]. apply andb_true_iff in H. destruct H as [H1 H2].
  cbn [existsb]. rewrite (IH (b + 1) c H3) by lia. unfold in_pair, run_rng. cbn [fst snd]. lia.
Qed.

Lemma chain_cat_of : forall p l next c, rle_chain next l = true -> next <= c -> c < 0x10000 ->
  existsb (fun r => in_pair c (run_rng r) && p (run_cat r)) l = p (cat_of l c).
Proof.
  intros p. induction l as [|[[a b] k] r IH]; intros next c H Hn Hc.
  - cbn in H. lia.
  - cbn [rle_chain] in H. apply andb_true_iff in H. destruct H as [H H3]. apply andb_true_iff in H. destruct H as [H1 H2].
    unfold cat_of. cbn [existsb find].
    change ((fst (run_rng (a, b, k)) <=? c) && (c <=? snd (run_rng (a, b, k)))) with (in_pair c (run_rng (a, b, k))).
    destruct (in_pair c (run_rng (a, b, k))) eqn:E.
    + cbn [andb run_cat snd]. destruct (p k); [reflexivity |]. cbn [orb].
      assert (A : existsb (fun r0 => in_pair c (run_rng r0)) r = false).
      { apply (chain_above r (b + 1) c H3). unfold in_pair, run_rng in E. cbn [fst snd] in E. lia. }
      clear -A. induction r as [|x r IHr]; [reflexivity |]. cbn [existsb] in *. apply orb_false_iff in A. destruct A as [A1 A2].
      rewrite A1, (IHr A2). reflexivity.
    + cbn [andb orb]. fold (cat_of r c). apply (IH (b + 1)); [exact H3 | | exact Hc].
      unfold in_pair, run_rng in E. cbn [fst snd] in E. lia.
Qed.

Theorem category_tokens_spec : rle_chain 0 cat_rle = true -> all_tok_checks = true ->
  forall k c, k < 37 -> c < 0x10000 ->
  rmem (nth (N.to_nat k) cat_toks []) c = spec_cat_mem (cat_of cat_rle) k c.
Proof.
  intros Hch Hall k c Hk Hc. unfold all_tok_checks in Hall. rewrite forallb_forall in Hall.
  specialize (Hall k (nrange_in 37 k Hk)).
  rewrite (tok_check_spec cat_rle _ _ _ c Hall Hc). unfold spec_cat_mem.
  apply (chain_cat_of (spec_cat_pred k) cat_rle 0 c Hch); [lia | exact Hc].
Qed.

(** \w and \d *)
Definition word_check : bool := tok_check cat_rle spec_word_pred true named_lc_w.
Definition digit_check : bool := tok_check cat_rle spec_digit_pred false named_lc_d.

Theorem word_spec : rle_chain 0 cat_rle = true -> word_check = true -> forall c, c < 0x10000 ->
  rmem named_lc_w c = spec_word_pred (cat_of cat_rle c).
Proof.
  intros Hch H c Hc. unfold word_check in H. rewrite (tok_check_spec cat_rle _ _ _ c H Hc).
  apply (chain_cat_of spec_word_pred cat_rle 0 c Hch); [lia | exact Hc].
Qed.

Theorem digit_spec : rle_chain 0 cat_rle = true -> digit_check = true -> forall c, c < 0x10000 ->
  rmem named_lc_d c = spec_digit_pred (cat_of cat_rle c).
Proof.
  intros Hch H c Hc. unfold digit_check in H. rewrite (tok_check_spec cat_rle _ _ _ c H Hc).
  apply (chain_cat_of spec_digit_pred cat_rle 0 c Hch); [lia | exact Hc].
Qed.

(** names and the category -> one-letter class mapping read from the source are the ones of the Spec *)
Fixpoint names_eqb (a b : list (list N)) : bool :=
  match a, b with
  | [], [] => true
  | x :: a', y :: b' => (if list_eq_dec N.eq_dec x y then true else false) && names_eqb a' b'
  | _, _ => false
  end.
Definition names_check : bool := names_eqb cat_names (std_cat_names ++ map (fun c => [c]) major_names).
Definition letter_check : bool :=
  forallb (fun k => match nth (N.to_nat (nth (N.to_nat k) cat_unicategory 0)) cat_names [] with
                    | [c] => c =? major_of_cat k
                    | _ => false
                    end) (nrange 30).
