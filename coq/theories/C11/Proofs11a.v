(** The derivative matcher of the specification decides the denotational language: [dmatch_re r s = true <-> Lre r s]. *)
From Coq Require Import Arith PeanoNat.
From XV Require Import C11.Spec11.
Local Open Scope N_scope.

(** language of core expressions *)
Fixpoint Lc (r : cre) (s : list N) : Prop :=
  match r with
  | KEmp => False
  | KEps => s = []
  | KSet f => exists c, s = [c] /\ f c = true
  | KCat a b => exists s1 s2, s = s1 ++ s2 /\ Lc a s1 /\ Lc b s2
  | KAlt a b => Lc a s \/ Lc b s
  | KStar a => exists ss, s = concat ss /\ Forall (Lc a) ss
  end.

Lemma nullable_spec : forall r, nullable r = true <-> Lc r [].
Proof.
  induction r; cbn [nullable Lc].
  - split; [discriminate | tauto].
  - split; auto.
  - split; [discriminate | intros [c [H _]]; discriminate].
  - rewrite andb_true_iff, IHr1, IHr2. split.
    + intros [H1 H2]. exists [], []. auto.
    + intros [s1 [s2 [E [H1 H2]]]]. symmetry in E. apply app_eq_nil in E. destruct E; subst. auto.
  - rewrite orb_true_iff, IHr1, IHr2. tauto.
  - split; auto. intros _. exists []. split; [reflexivity | constructor].
Qed.

Lemma kcat_spec : forall a b s, Lc (kcat a b) s <-> Lc (KCat a b) s.
Proof.
  intros a b s.
  assert (Hemp_l : forall x, Lc (KCat KEmp x) s <-> False).
  { intros x. cbn. split; [intros [? [? [_ [[] _]]]] | tauto]. }
  assert (Hemp_r : forall x, Lc (KCat x KEmp) s <-> False).
  { intros x. cbn. split; [intros [? [? [_ [_ []]]]] | tauto]. }
  assert (Heps_l : forall x, Lc (KCat KEps x) s <-> Lc x s).
  { intros x. cbn. split.
    - intros [s1 [s2 [E [E1 H]]]]. subst. exact H.
    - intros H. exists [], s. auto. }
  assert (Heps_r : forall x, Lc (KCat x KEps) s <-> Lc x s).
  { intros x. cbn. split.
    - intros [s1 [s2 [E [H E2]]]]. subst. rewrite app_nil_r. exact H.
    - intros H. exists s, []. rewrite app_nil_r. auto. }
  destruct a; destruct b; unfold kcat;
    try (rewrite Hemp_l; cbn; tauto); try (rewrite Hemp_r; cbn; tauto);
    try (rewrite Heps_l; tauto); try (rewrite Heps_r; tauto); tauto.
Qed.

Lemma kalt_spec : forall a b s, Lc (kalt a b) s <-> Lc (KAlt a b) s.
Proof.
  intros a b s. destruct a; destruct b; unfold kalt; cbn [Lc]; tauto.
Qed.

(** a concatenation starting with [c] has a first non-empty piece *)
Lemma concat_cons_split : forall (P : list N -> Prop) ss c s,
  concat ss = c :: s -> Forall P ss ->
  exists s1 rest, P (c :: s1) /\ Forall P rest /\ s = s1 ++ concat rest.
Proof.
  induction ss as [|x ss IH]; intros c s E F.
  - discriminate.
  - inversion F as [|? ? Hx Hss]; subst. cbn [concat] in E. destruct x as [|d x'].
    + cbn in E. exact (IH c s E Hss).
    + cbn in E. inversion E; subst. exists x', ss. auto.
Qed.

Lemma deriv_spec : forall r c s, Lc (deriv c r) s <-> Lc r (c :: s).
Proof.
  induction r; intros c s; cbn [deriv].
  - cbn. tauto.
  - cbn. split; [tauto | discriminate].
  - cbn [Lc]. destruct (f c) eqn:E; cbn [Lc].
    + split.
      * intros ->. exists c. auto.
      * intros [d [H _]]. inversion H. reflexivity.
    + split; [tauto |]. intros [d [H Hd]]. inversion H; subst. congruence.
  - assert (Hcat : Lc (KCat (deriv c r1) r2) s \/ (Lc r1 [] /\ Lc r2 (c :: s)) <-> Lc (KCat r1 r2) (c :: s)).
    { cbn [Lc]. split.
      - intros [[s1 [s2 [E [H1 H2]]]] | [H1 H2]].
        + exists (c :: s1), s2. subst. split; [reflexivity |]. split; [apply IHr1; exact H1 | exact H2].
        + exists [], (c :: s). auto.
      - intros [s1 [s2 [E [H1 H2]]]]. destruct s1 as [|d s1'].
        + cbn in E. subst s2. right. auto.
        + cbn in E. inversion E; subst. left. exists s1', s2. split; [reflexivity |]. split; [apply IHr1; exact H1 | exact H2]. }
    destruct (nullable r1) eqn:En.
    + rewrite kalt_spec. cbn [Lc]. rewrite kcat_spec, IHr2. rewrite <- Hcat.
      apply nullable_spec in En. tauto.
    + rewrite kcat_spec. rewrite <- Hcat. split; [tauto |]. intros [H | [H _]]; [exact H |].
      apply nullable_spec in H. congruence.
  - rewrite kalt_spec. cbn [Lc]. rewrite IHr1, IHr2. tauto.
  - rewrite kcat_spec. cbn [Lc]. split.
    + intros [s1 [s2 [E [H1 [ss [E2 F]]]]]]. exists ((c :: s1) :: ss). split.
      * cbn. subst. reflexivity.
      * constructor; [apply IHr; exact H1 | exact F].
    + intros [ss [E F]]. symmetry in E.
      destruct (concat_cons_split (Lc r) ss c s E F) as [s1 [rest [H1 [F2 E2]]]].
      exists s1, (concat rest). split; [exact E2 |]. split; [apply IHr; exact H1 |]. exists rest. auto.
Qed.

Lemma dmatch_spec : forall s r, dmatch r s = true <-> Lc r s.
Proof.
  induction s as [|c s IH]; intros r; cbn [dmatch].
  - apply nullable_spec.
  - rewrite IH. apply deriv_spec.
Qed.

(** powers and bounded options *)
Lemma kpow_spec : forall a n s, Lc (kpow a n) s <-> exists ss, s = concat ss /\ Forall (Lc a) ss /\ length ss = n.
Proof.
  induction n as [|n IH]; intros s; cbn [kpow Lc].
  - split.
    + intros ->. exists []. split; [reflexivity |]. split; [constructor | reflexivity].
    + intros [ss [E [_ L]]]. destruct ss; [subst; reflexivity | discriminate].
  - split.
    + intros [s1 [s2 [E [H1 H2]]]]. apply IH in H2. destruct H2 as [ss [E2 [F L]]].
      exists (s1 :: ss). subst. split; [reflexivity |]. split; [constructor; assumption | reflexivity].
    + intros [ss [E [F L]]]. destruct ss as [|x ss]; [discriminate |]. inversion F; subst.
      exists x, (concat ss). split; [reflexivity |]. split; [assumption |]. apply IH. exists ss. cbn in L.
      split; [reflexivity |]. split; [assumption | lia].
Qed.

Lemma kopt_spec : forall a k s, Lc (kopt a k) s <-> exists ss, s = concat ss /\ Forall (Lc a) ss /\ (length ss <= k)%nat.
Proof.
  induction k as [|k IH]; intros s; cbn [kopt Lc].
  - split.
    + intros ->. exists []. split; [reflexivity |]. split; [constructor | cbn; lia].
    + intros [ss [E [_ L]]]. destruct ss; [subst; reflexivity | cbn in L; lia].
  - split.
    + intros [-> | [s1 [s2 [E [H1 H2]]]]].
      * exists []. split; [reflexivity |]. split; [constructor | cbn; lia].
      * apply IH in H2. destruct H2 as [ss [E2 [F L]]]. exists (s1 :: ss). subst.
        split; [reflexivity |]. split; [constructor; assumption | cbn; lia].
    + intros [ss [E [F L]]]. destruct ss as [|x ss].
      * left. subst. reflexivity.
      * right. inversion F; subst. exists x, (concat ss). split; [reflexivity |]. split; [assumption |].
        apply IH. exists ss. cbn in L. split; [reflexivity |]. split; [assumption | lia].
Qed.

Lemma Forall_iff_pointwise : forall (P Q : list N -> Prop) ss, (forall s, P s <-> Q s) -> Forall P ss <-> Forall Q ss.
Proof.
  intros P Q ss H. split; intros F; induction F; constructor; try assumption; apply H; assumption.
Qed.

Lemma Forall_firstn' : forall (P : list N -> Prop) n ss, Forall P ss -> Forall P (firstn n ss).
Proof.
  intros P n ss F. revert n. induction F; intros [|n]; cbn; constructor; auto.
Qed.
Lemma Forall_skipn' : forall (P : list N -> Prop) n ss, Forall P ss -> Forall P (skipn n ss).
Proof.
  intros P n ss F. revert n. induction F; intros [|n]; cbn; try constructor; auto.
Qed.

Lemma core_spec : forall r s, Lc (core r) s <-> Lre r s.
Proof.
  induction r as [| |f|a IHa b IHb|a IHa b IHb|n m a IHa]; intros s; cbn [core Lre].
  - cbn. tauto.
  - cbn. tauto.
  - cbn. tauto.
  - cbn [Lc]. split; intros [s1 [s2 [E [H1 H2]]]]; exists s1, s2; (split; [exact E |]); split;
      try (apply IHa; assumption); try (apply IHb; assumption).
  - cbn [Lc]. rewrite IHa, IHb. tauto.
  - assert (FA : forall ss, Forall (Lc (core a)) ss <-> Forall (Lre a) ss).
    { intros ss. apply Forall_iff_pointwise. exact IHa. }
    destruct m as [m|].
    + destruct (Nat.ltb m n) eqn:Emn.
      * apply Nat.ltb_lt in Emn. cbn [Lc]. split; [tauto |]. intros [ss [_ [_ [H1 H2]]]]. cbn in H2. lia.
      * apply Nat.ltb_ge in Emn. cbn [Lc]. split.
        -- intros [s1 [s2 [E [H1 H2]]]]. apply kpow_spec in H1. apply kopt_spec in H2.
           destruct H1 as [ss1 [E1 [F1 L1]]]. destruct H2 as [ss2 [E2 [F2 L2]]].
           exists (ss1 ++ ss2). rewrite concat_app, app_length. subst. split; [reflexivity |].
           split; [apply Forall_app; split; apply FA; assumption |]. cbn. split; lia.
        -- intros [ss [E [F [L1 L2]]]]. cbn in L2.
           exists (concat (firstn n ss)), (concat (skipn n ss)).
           split; [rewrite <- concat_app, firstn_skipn; exact E |].
           apply FA in F. split.
           ++ apply kpow_spec. exists (firstn n ss). split; [reflexivity |].
              split; [apply Forall_firstn'; exact F |].
              rewrite firstn_length. lia.
           ++ apply kopt_spec. exists (skipn n ss). split; [reflexivity |].
              split; [apply Forall_skipn'; exact F |].
              rewrite skipn_length. lia.
    + cbn [Lc]. split.
      * intros [s1 [s2 [E [H1 [ss2 [E2 F2]]]]]]. apply kpow_spec in H1. destruct H1 as [ss1 [E1 [F1 L1]]].
        exists (ss1 ++ ss2). rewrite concat_app, app_length. subst. split; [reflexivity |].
        split; [apply Forall_app; split; apply FA; assumption |]. cbn. split; [lia | exact I].
      * intros [ss [E [F [L1 _]]]]. apply FA in F.
        exists (concat (firstn n ss)), (concat (skipn n ss)).
        split; [rewrite <- concat_app, firstn_skipn; exact E |]. split.
        -- apply kpow_spec. exists (firstn n ss). split; [reflexivity |].
           split; [apply Forall_firstn'; exact F |].
           rewrite firstn_length. lia.
        -- exists (skipn n ss). split; [reflexivity |].
           apply Forall_skipn'; exact F.
Qed.

Theorem dmatch_re_spec : forall r s, dmatch_re r s = true <-> Lre r s.
Proof. intros r s. unfold dmatch_re. rewrite dmatch_spec. apply core_spec. Qed.

(** T11_quantifier at the level of the specification: the expansion used for {n,m} (n copies followed by m-n nested
    options, the shape compileClosure builds) and for {n,} (n copies followed by a star) denotes the n..m-fold power *)
Lemma quant_expand_bounded : forall a n m s, (n <= m)%nat ->
  (Lc (KCat (kpow (core a) n) (kopt (core a) (m - n))) s <->
   exists ss, s = concat ss /\ Forall (Lre a) ss /\ (n <= length ss)%nat /\ (length ss <= m)%nat).
Proof.
  intros a n m s H. pose proof (core_spec (RRep n (Some m) a) s) as C. cbn [core Lre le_opt] in C.
  assert (E : Nat.ltb m n = false) by (apply Nat.ltb_ge; exact H). rewrite E in C. exact C.
Qed.

Lemma quant_expand_unbounded : forall a n s,
  (Lc (KCat (kpow (core a) n) (KStar (core a))) s <->
   exists ss, s = concat ss /\ Forall (Lre a) ss /\ (n <= length ss)%nat).
Proof.
  intros a n s. pose proof (core_spec (RRep n None a) s) as C. cbn [core Lre le_opt] in C. rewrite C.
  split; intros [ss [E [F L]]]; exists ss; tauto.
Qed.
