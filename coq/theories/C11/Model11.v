(** Executable model of the schema-dialect regular-expression engine (no proofs here):
    - ParserForXMLSchema / RegxParser   (src/xercesc/util/regx/RegxParser.cpp, ParserForXMLSchema.cpp, UnionToken.cpp)
    - RegularExpression::compile*, doTokenOverlap   (RegularExpression.hpp/.cpp)
    - RegularExpression::match, matchUnion, matches() in XMLSCHEMA_MODE   (RegularExpression.cpp)
    Patterns and subject strings are lists of code points (the C++ works on UTF-16 units and composes surrogate
    pairs in processNext / Context::nextCh; offsets are only ever compared, so the order-preserving renumbering is
    not observable for well-formed UTF-16).  Category escapes \p{L} \p{Lu} .. use the library's tokens of Gen/GenC11Cat.v;
    not modelled: block escapes \p{Is..} and other keywords ([PE_Unsupported]),
    options other than "X", the opStack variant of match used when the subject is longer than 256 units (same
    function, covered by the correspondence only), captures (there are none in schema mode).

    Repair switches ([sw]); all false = the code of the pinned tree:
      fx_add : addRange keeps a range that starts inside the last range and ends beyond it (F26)
      fx_ovl : doTokenOverlap treats a negated class op / supplementary first character correctly (F27)
      fx_dot : '.' excludes only \n and \r, compared as code points (F29) *)
From XV Require Export Base.XDefs C11.Spec11 C11.ModelRange11 Gen.GenC11 Gen.GenC11Cat.
Local Open Scope N_scope.

Record sw : Type := mkSw { fx_add : bool; fx_ovl : bool; fx_dot : bool }.
Definition sw_faithful : sw := mkSw false false false.
Definition sw_fixed : sw := mkSw true true true.

(* ------------------------------------------------------------------------------------------------ *)
(** * Token tree *)
Inductive tok : Type :=
| TEmpty
| TDot
| TChar (c : N)
| TString (s : list N)
| TRange (neg : bool) (r : list rng)         (* T_RANGE / T_NRANGE with its (sorted, compacted) ranges *)
| TConcat (l : list tok)                     (* T_CONCAT: UnionToken(T_CONCAT) or ConcatToken *)
| TUnion (l : list tok)
| TClosure (mn : nat) (mx : option nat) (t : tok)   (* T_CLOSURE; '*' is (0, None); fMax = -1 is None *)
| TParen (t : tok).                          (* T_PAREN with noParen = 0 *)

Inductive perr : Type := PE_Parse | PE_Runtime | PE_Unsupported | PE_Crash | PE_Fuel.

Inductive pstate : Type :=
| S_CHAR | S_EOF | S_OR | S_STAR | S_PLUS | S_QUESTION | S_LPAREN | S_RPAREN | S_DOT | S_LBRACKET
| S_BACKSOLIDUS | S_CARET | S_DOLLAR | S_CCSUB.

Definition pstate_eqb (a b : pstate) : bool :=
  match a, b with
  | S_CHAR, S_CHAR | S_EOF, S_EOF | S_OR, S_OR | S_STAR, S_STAR | S_PLUS, S_PLUS | S_QUESTION, S_QUESTION
  | S_LPAREN, S_LPAREN | S_RPAREN, S_RPAREN | S_DOT, S_DOT | S_LBRACKET, S_LBRACKET
  | S_BACKSOLIDUS, S_BACKSOLIDUS | S_CARET, S_CARET | S_DOLLAR, S_DOLLAR | S_CCSUB, S_CCSUB => true
  | _, _ => false
  end.

(** parser registers: the unread rest of fString, fState, fCharData, fParseContext == regexParserStateInBrackets *)
Record pst : Type := mkP { rest : list N; stt : pstate; chd : N; inbr : bool }.

Definition eofc : N := 0xFFFFFFFF.     (* fCharData = -1 *)

Definition bind {A B : Type} (x : res A perr) (f : A -> res B perr) : res B perr :=
  match x with Ok a => f a | Err e => Err e end.
Notation "'do' x <- a ; b" := (bind a (fun x => b)) (at level 200, x pattern, a at level 100, b at level 200).

Definition set_ctx (p : pst) (b : bool) : pst := mkP (rest p) (stt p) (chd p) b.

(** RegxParser::processNext *)
Definition processNext (p : pst) : res pst perr :=
  match rest p with
  | [] => Ok (mkP [] S_EOF eofc (inbr p))
  | ch :: r =>
      if inbr p then
        if ch =? 92 then
          match r with [] => Err PE_Parse | c2 :: r2 => Ok (mkP r2 S_BACKSOLIDUS c2 true) end
        else if ch =? 45 then
          match r with
          | c2 :: r2 => if c2 =? 91 then Ok (mkP r2 S_CCSUB ch true) else Ok (mkP r S_CHAR ch true)
          | [] => Ok (mkP r S_CHAR ch true)
          end
        else Ok (mkP r S_CHAR ch true)
      else
        let simple st := Ok (mkP r st ch false) in
        if ch =? 124 then simple S_OR
        else if ch =? 42 then simple S_STAR
        else if ch =? 43 then simple S_PLUS
        else if ch =? 63 then simple S_QUESTION
        else if ch =? 41 then simple S_RPAREN
        else if ch =? 46 then simple S_DOT
        else if ch =? 91 then simple S_LBRACKET
        else if ch =? 94 then simple S_CARET
        else if ch =? 36 then simple S_DOLLAR
        else if ch =? 40 then simple S_LPAREN
        else if ch =? 92 then
          match r with [] => Err PE_Parse | c2 :: r2 => Ok (mkP r2 S_BACKSOLIDUS c2 false) end
        else simple S_CHAR
  end.

Definition mem_n (c : N) (l : list N) : bool := existsb (N.eqb c) l.

(** RegxParser::processBacksolidus_pP: "{name}" is read straight from fString; RangeTokenMap::getRange(name, complement).
    Known names: the 37 general-category names (tokens from Gen/GenC11Cat.v; the complement token is the one
    UnicodeRangeFactory builds with complementRanges). *)
Fixpoint split_brace (l : list N) : option (list N * list N) :=
  match l with
  | [] => None
  | c :: r => if c =? 125 then Some ([], r)
              else match split_brace r with Some (n, r') => Some (c :: n, r') | None => None end
  end.

Fixpoint name_eqb (a b : list N) : bool :=
  match a, b with
  | [], [] => true
  | x :: a', y :: b' => (x =? y) && name_eqb a' b'
  | _, _ => false
  end.

Fixpoint cat_lookup (name : list N) (names : list (list N)) (toks : list (list rng)) : option (list rng) :=
  match names, toks with
  | n :: ns, t :: ts => if name_eqb name n then Some t else cat_lookup name ns ts
  | _, _ => None
  end.

Definition pcat_tok (name : list N) (compl : bool) : option rtok :=
  match cat_lookup name cat_names cat_toks with
  | Some r =>
      let t := mkR r true true (2 * length r + 16)%nat (match r with [] => false | _ => true end) in
      Some (if compl then (if alloc t then complementRanges true t else mkR [(0, 0x10FFFF)] true true 16 true) else t)
  | None => None
  end.

(** processBacksolidus_pP up to the lookup: returns the name and the registers after "}" (fState/fCharData stay those
    of the "{" token; the caller's processNext follows) *)
Definition parse_pP (p : pst) : res (list N * pst) perr :=
  match processNext p with
  | Err e => Err e
  | Ok p1 =>
      if negb (pstate_eqb (stt p1) S_CHAR) || negb (chd p1 =? 123) then Err PE_Parse else
      match split_brace (rest p1) with
      | None => Err PE_Parse
      | Some (name, r') => Ok (name, mkP r' (stt p1) (chd p1) (inbr p1))
      end
  end.

(** ParserForXMLSchema::decodeEscaped *)
Definition decodeEscaped (p : pst) : res N perr :=
  if negb (pstate_eqb (stt p) S_BACKSOLIDUS) then Err PE_Parse else
  let ch := chd p in
  if ch =? 110 then Ok 10
  else if ch =? 114 then Ok 13
  else if ch =? 116 then Ok 9
  else if mem_n ch [92; 124; 46; 94; 45; 63; 42; 43; 123; 125; 40; 41; 91; 93] then Ok ch
  else Err PE_Parse.

(** RegxParser::getTokenForShorthand: the shared tokens of RangeTokenMap (Gen/GenC11.v, regenerated on every run) *)
Definition named_tok (ch : N) : option rtok :=
  let mk l m := Some (mkR l true true m true) in
  if ch =? 100 then mk named_lc_d named_lc_d_max
  else if ch =? 68 then mk named_uc_d named_uc_d_max
  else if ch =? 119 then mk named_lc_w named_lc_w_max
  else if ch =? 87 then mk named_uc_w named_uc_w_max
  else if ch =? 115 then mk named_lc_s named_lc_s_max
  else if ch =? 83 then mk named_uc_s named_uc_s_max
  else if ch =? 99 then mk named_lc_c named_lc_c_max
  else if ch =? 67 then mk named_uc_c named_uc_c_max
  else if ch =? 105 then mk named_lc_i named_lc_i_max
  else if ch =? 73 then mk named_uc_i named_uc_i_max
  else None.

Definition is_digit (c : N) : bool := (48 <=? c) && (c <=? 57).

(** the digit loops of parseFactor: [while (fOffset < fStringLen && (ch = fString[fOffset++]) >= '0' && ch <= '9')] *)
Fixpoint digits_loop (acc : nat) (ch : N) (r : list N) : nat * N * list N :=
  match r with
  | [] => (acc, ch, [])
  | c :: r' => if is_digit c then digits_loop (acc * 10 + N.to_nat (c - 48)) c r' else (acc, c, r')
  end.

(** the quantifier text after '{' (fOffset < fStringLen is known): returns min, max, rest after '}' *)
Definition parse_quant (r : list N) : res (nat * option nat * list N) perr :=
  match r with
  | [] => Err PE_Parse
  | ch0 :: r0 =>
      if negb (is_digit ch0) then Err PE_Parse else
      let '(mn, ch, r1) := digits_loop (N.to_nat (ch0 - 48)) ch0 r0 in
      if ch =? 44 then
        match r1 with
        | [] => Err PE_Parse
        | c2 :: r2 =>
            if is_digit c2 then
              let '(mx, ch', r3) := digits_loop (N.to_nat (c2 - 48)) c2 r2 in
              if Nat.ltb mx mn then Err PE_Parse
              else if ch' =? 125 then Ok (mn, Some mx, r3) else Err PE_Parse
            else if c2 =? 125 then Ok (mn, None, r2) else Err PE_Parse
        end
      else if ch =? 125 then Ok (mn, Some mn, r1) else Err PE_Parse
  end.

(** UnionToken::addChild for a T_CONCAT parent; [acc] holds the children in reverse order *)
Definition tok_str (t : tok) : option (list N) :=
  match t with TChar c => Some [c] | TString s => Some s | _ => None end.

Definition cat_add1 (acc : list tok) (child : tok) : list tok :=
  match acc with
  | [] => [child]
  | prev :: acc' =>
      match tok_str prev, tok_str child with
      | Some a, Some b => TString (a ++ b) :: acc'
      | _, _ => child :: acc
      end
  end.

Definition cat_add (acc : list tok) (child : tok) : list tok :=
  match child with
  | TConcat l =>
      fold_left (fun a c => match c with TConcat l2 => fold_left cat_add1 l2 a | _ => cat_add1 a c end) l acc
  | _ => cat_add1 acc child
  end.

Definition is_term_end (st : pstate) (mrp : bool) : bool :=
  pstate_eqb st S_OR || pstate_eqb st S_EOF || (pstate_eqb st S_RPAREN && mrp).

(** character class result: ranges + "is T_NRANGE" *)
Section Parser.
Variable w : sw.

Definition addR := addRange (fx_add w).

(** RegxParser::parseCharacterClass; the while loop is [cc_loop] *)
Fixpoint cc_loop (fuel : nat) (useN : bool) (p : pst) (tk : rtok) (isN first : bool) {struct fuel}
  : res (rtok * bool * pst) perr :=
  match fuel with
  | O => Err PE_Fuel
  | S f =>
    let type := stt p in
    if pstate_eqb type S_EOF then Ok (tk, isN, p)
    else if pstate_eqb type S_CHAR && (chd p =? 93) && negb first then Ok (tk, isN, p)
    else
      let ch0 := chd p in
      (* first part: escapes and subtraction *)
      let step (p0 : pst) (ch : N) (end_ wasDecoded : bool) (tk : rtok) : res (rtok * bool * pst) perr :=
        do p1 <- processNext p0;
        if end_ then cc_loop f useN p1 tk isN false else
        if pstate_eqb type S_CHAR &&
           ((ch =? 91) || (ch =? 93) || ((ch =? 45) && (chd p1 =? 93) && first)) then Err PE_Parse
        else if (ch =? 45) && (chd p1 =? 45) && negb (pstate_eqb (stt p1) S_BACKSOLIDUS) && negb wasDecoded
        then Err PE_Parse
        else if negb (pstate_eqb (stt p1) S_CHAR) || negb (chd p1 =? 45) then
          cc_loop f useN p1 (addR tk ch ch) isN false
        else
          do p2 <- processNext p1;
          let type2 := stt p2 in
          if pstate_eqb type2 S_EOF then Err PE_Parse
          else if pstate_eqb type2 S_CHAR && (chd p2 =? 93) then
            cc_loop f useN p2 (addR (addR tk ch ch) 45 45) isN false
          else if pstate_eqb type2 S_CCSUB then Err PE_Parse
          else
            do rangeEnd <- (if pstate_eqb type2 S_CHAR then
                              (if mem_n (chd p2) [91; 93; 45] then Err PE_Parse else Ok (chd p2))
                            else if pstate_eqb type2 S_BACKSOLIDUS then decodeEscaped p2
                            else Ok (chd p2));
            do p3 <- processNext p2;
            if rangeEnd <? ch then Err PE_Parse
            else cc_loop f useN p3 (addR tk ch rangeEnd) isN false in
      if pstate_eqb type S_BACKSOLIDUS then
        match named_tok ch0 with
        | Some nt => step p ch0 true false (mergeRanges tk nt)
        | None =>
            if (ch0 =? 112) || (ch0 =? 80) then
              do (name, p') <- parse_pP p;
              match pcat_tok name (ch0 =? 80) with
              | Some nt => step p' ch0 true false (mergeRanges tk nt)
              | None => Err PE_Unsupported
              end
            else do ch <- decodeEscaped p; step p ch false (ch0 =? 45) tk
        end
      else if pstate_eqb type S_CCSUB && negb first then
        (* subtraction: [tok-[...]] *)
        do tk1 <- (if isN then (if alloc tk then Ok (complementRanges (fx_add w) tk) else Err PE_Crash) else Ok tk);
        do p1 <- processNext (set_ctx p true);
        (* nested parseCharacterClass(false) *)
        let isN2 := pstate_eqb (stt p1) S_CHAR && (chd p1 =? 94) in
        do p2 <- (if isN2 then processNext p1 else Ok p1);
        do (tk2, isN2', p3) <- cc_loop f false p2 rt_new isN2 true;
        if pstate_eqb (stt p3) S_EOF then Err PE_Parse else
        do tk2' <- (if isN2' then (if alloc tk2 then Ok (complementRanges (fx_add w) tk2) else Err PE_Crash)
                    else Ok tk2);
        let tk2c := compactRanges (sortRanges tk2') in
        do p4 <- processNext (set_ctx p3 false);
        let tk3 := subtractRanges tk1 tk2c false in
        if negb (pstate_eqb (stt p4) S_CHAR) || negb (chd p4 =? 93) then Err PE_Parse
        else Ok (tk3, false, p4)
      else step p ch0 false false tk
  end.

Definition parseCharacterClass (fuel : nat) (useN : bool) (p : pst) : res (tok * pst) perr :=
  do p1 <- processNext (set_ctx p true);
  let isN := pstate_eqb (stt p1) S_CHAR && (chd p1 =? 94) in
  do p2 <- (if isN then processNext p1 else Ok p1);
  do (tk, isN', p3) <- cc_loop fuel useN p2 rt_new isN true;
  if pstate_eqb (stt p3) S_EOF then Err PE_Parse else
  do (tk', neg) <- (if isN' then
                       (if useN then Ok (tk, true)
                        else if alloc tk then Ok (complementRanges (fx_add w) tk, false) else Err PE_Crash)
                     else Ok (tk, false));
  let tkc := compactRanges (sortRanges tk') in
  do p4 <- processNext (set_ctx p3 false);
  Ok (TRange neg (rs tkc), p4).

(** parseRegx / parseTerm / parseFactor / parseAtom: one fuel unit per nesting step *)
Fixpoint parseRegx (fuel : nat) (mrp : bool) (p : pst) {struct fuel} : res (tok * pst) perr :=
  match fuel with
  | O => Err PE_Fuel
  | S f =>
      do (t, p1) <- parseTerm f mrp p;
      if pstate_eqb (stt p1) S_OR then regx_loop f mrp p1 [t] else Ok (t, p1)
  end
with regx_loop (fuel : nat) (mrp : bool) (p : pst) (acc : list tok) {struct fuel} : res (tok * pst) perr :=
  match fuel with
  | O => Err PE_Fuel
  | S f =>
      if pstate_eqb (stt p) S_OR then
        do p1 <- processNext p;
        do (t, p2) <- parseTerm f mrp p1;
        regx_loop f mrp p2 (t :: acc)
      else Ok (TUnion (rev acc), p)
  end
with parseTerm (fuel : nat) (mrp : bool) (p : pst) {struct fuel} : res (tok * pst) perr :=
  match fuel with
  | O => Err PE_Fuel
  | S f =>
      if is_term_end (stt p) mrp then Ok (TEmpty, p)
      else
        do (t, p1) <- parseFactor f p;
        if is_term_end (stt p1) mrp then Ok (t, p1)
        else term_loop f mrp p1 (cat_add [] t)
  end
with term_loop (fuel : nat) (mrp : bool) (p : pst) (acc : list tok) {struct fuel} : res (tok * pst) perr :=
  match fuel with
  | O => Err PE_Fuel
  | S f =>
      if is_term_end (stt p) mrp then Ok (TConcat (rev acc), p)
      else
        do (t, p1) <- parseFactor f p;
        term_loop f mrp p1 (cat_add acc t)
  end
with parseFactor (fuel : nat) (p : pst) {struct fuel} : res (tok * pst) perr :=
  match fuel with
  | O => Err PE_Fuel
  | S f =>
      do (t, p1) <- parseAtom f p;
      match stt p1 with
      | S_STAR => do p2 <- processNext p1; Ok (TClosure 0 None t, p2)
      | S_PLUS => do p2 <- processNext p1; Ok (TConcat [t; TClosure 0 None t], p2)
      | S_QUESTION => do p2 <- processNext p1; Ok (TUnion [t; TEmpty], p2)
      | S_CHAR =>
          if (chd p1 =? 123) && negb (match rest p1 with [] => true | _ => false end) then
            do (mn, mx, r) <- parse_quant (rest p1);
            do p2 <- processNext (mkP r (stt p1) (chd p1) (inbr p1));
            Ok (TClosure mn mx t, p2)
          else Ok (t, p1)
      | _ => Ok (t, p1)
      end
  end
with parseAtom (fuel : nat) (p : pst) {struct fuel} : res (tok * pst) perr :=
  match fuel with
  | O => Err PE_Fuel
  | S f =>
      match stt p with
      | S_LPAREN =>
          do p1 <- processNext p;
          do (t, p2) <- parseRegx f true p1;
          if negb (pstate_eqb (stt p2) S_RPAREN) then Err PE_Parse
          else do p3 <- processNext p2; Ok (TParen t, p3)
      | S_DOT => do p1 <- processNext p; Ok (TDot, p1)
      | S_CARET => do p1 <- processNext p; Ok (TChar 94, p1)
      | S_DOLLAR => do p1 <- processNext p; Ok (TChar 36, p1)
      | S_LBRACKET => parseCharacterClass f true p
      | S_BACKSOLIDUS =>
          let ch := chd p in
          match named_tok ch with
          | Some nt => do p1 <- processNext p; Ok (TRange false (rs nt), p1)
          | None =>
              if is_digit ch then Err PE_Runtime
              else if (ch =? 112) || (ch =? 80) then
                do (name, p') <- parse_pP p;
                match pcat_tok name (ch =? 80) with
                | Some nt => do p1 <- processNext p'; Ok (TRange false (rs nt), p1)
                | None => Err PE_Unsupported
                end
              else do c <- decodeEscaped p; do p1 <- processNext p; Ok (TChar c, p1)
          end
      | S_CHAR =>
          if mem_n (chd p) [123; 125; 93] then Err PE_Parse
          else do p1 <- processNext p; Ok (TChar (chd p), p1)
      | _ => Err PE_Parse
      end
  end.

(** RegxParser::parse *)
Definition parse (pat : list N) : res tok perr :=
  let fuel := (4 * length pat + 16)%nat in
  do p0 <- processNext (mkP pat S_EOF eofc false);
  do (t, p1) <- parseRegx fuel false p0;
  match rest p1 with [] => Ok t | _ => Err PE_Parse end.

End Parser.

(* ------------------------------------------------------------------------------------------------ *)
(** * Compilation to the Op graph *)
(** The graph is kept as a tree in continuation form: every node is followed by "next"; the child chain of an
    [OClosure] ends at the closure op itself, that of an [OFinClosure] at NULL; the child chain of an [OQuestion]
    continues with the question's own next. *)
Inductive op : Type :=
| OEmpty
| OChar (c : N)
| ODot
| ORange (neg : bool) (r : list rng)
| OString (s : list N)
| OCat (a b : op)
| OUnion (l : list op)
| OClosure (id : option nat) (c : op)
| OFinClosure (id : option nat) (c : op)
| OQuestion (c : op)
| OMark.            (* O_CAPTURE (non-schema dialect): no effect on the offset; what follows a closure is "some other op" *)

(** what doTokenOverlap looks at in the op that follows a closure *)
Inductive hd : Type := HNull | HChar (c : N) | HString (s : list N) | HRange (neg : bool) (r : list rng) | HOther.

Definition first_unit (c : N) : N := if c <? 0x10000 then c else 0xD800 + N.shiftr (c - 0x10000) 10.
Definition str_first_unit (s : list N) : N := match s with [] => 0 | c :: _ => first_unit c end.
Definition str_first_cp (s : list N) : N := match s with [] => 0 | c :: _ => c end.

Fixpoint head_of (o : op) (nh : hd) : hd :=
  match o with
  | OEmpty => nh
  | OChar c => HChar c
  | ODot => HOther
  | ORange n r => HRange n r
  | OString s => HString s
  | OCat a b => head_of a (head_of b nh)
  | _ => HOther
  end.     (* OMark: an O_CAPTURE op, neither range nor char nor string: HOther *)

(** Token::getMinLength (a T_STRING counts its characters; only "== 0" is ever used) *)
Fixpoint minlen (t : tok) : nat :=
  match t with
  | TEmpty => 0
  | TDot | TChar _ | TRange _ _ => 1
  | TString s => length s
  | TConcat l => (fix go (l : list tok) : nat := match l with [] => 0 | x :: r => minlen x + go r end) l
  | TUnion l =>
      match l with
      | [] => 0
      | x :: r => (fix go (m : nat) (l : list tok) : nat :=
                     match l with [] => m | y :: r' => go (Nat.min m (minlen y)) r' end) (minlen x) r
      end
  | TClosure mn _ t => mn * minlen t
  | TParen t => minlen t
  end%nat.

(** RegularExpression::doTokenOverlap(next, childTok) *)
Definition overlap (fx : bool) (h : hd) (t : tok) : bool :=
  match h with
  | HRange neg r =>
      match t with
      | TChar c => rt_match neg r c
      | TString s => rt_match neg r (if fx then str_first_cp s else str_first_unit s)
      | TRange false r2 =>
          if fx && neg then true
          else negb (match int_go (compact_list r) (compact_list r2) with [] => true | _ => false end)
      | _ => true
      end
  | HChar _ | HString _ =>
      let ch := match h with
                | HChar c => c
                | HString s => if fx then str_first_cp s else str_first_unit s
                | _ => 0 end in
      if ch =? 0 then true else
      match t with
      | TChar c2 => c2 =? ch
      | TString s => (if fx then str_first_cp s else str_first_unit s) =? ch
      | TRange neg r => rt_match neg r ch
      | _ => true
      end
  | _ => true
  end.

(** the loops of compileClosure over [comp] = compile of the closure's child:
    [copies_f]: [for (i < n) ret = compile(childTok, ret)];
    [quest_f]:  [for (i < max) { q = createQuestionOp; q->setChild(compile(childTok, ret)); ret = q; }] *)
Fixpoint copies_f (comp : hd -> nat -> op * nat) (nh : hd) (n : nat) (ret : op) (id : nat) : op * nat :=
  match n with
  | O => (ret, id)
  | S n' => let (o1, id1) := comp (head_of ret nh) id in copies_f comp nh n' (OCat o1 ret) id1
  end.
Fixpoint quest_f (comp : hd -> nat -> op * nat) (nh : hd) (k : nat) (ret : op) (id : nat) : op * nat :=
  match k with
  | O => (ret, id)
  | S k' => let (o1, id1) := comp (head_of ret nh) id in quest_f comp nh k' (OQuestion (OCat o1 ret)) id1
  end.

Section Compile.
Variable w : sw.
Variable cap : bool.     (* groups capture (RegxParser numbers them; ParserForXMLSchema uses group number 0 = transparent) *)

Fixpoint compile (t : tok) (nh : hd) (id : nat) {struct t} : op * nat :=
  match t with
  | TEmpty => (OEmpty, id)
  | TDot => (ODot, id)
  | TChar c => (OChar c, id)
  | TString s => (OString s, id)
  | TRange n r => (ORange n r, id)
  | TParen t1 =>
      (* compileParenthesis: capture(n) -> child -> capture(-n) -> next *)
      if cap then let (o1, id1) := compile t1 HOther id in (OCat OMark (OCat o1 OMark), id1)
      else compile t1 nh id
  | TConcat l =>
      (fix go (l : list tok) : op * nat :=
         match l with
         | [] => (OEmpty, id)
         | x :: r => let (ob, id1) := go r in
                     let (oa, id2) := compile x (head_of ob nh) id1 in (OCat oa ob, id2)
         end) l
  | TUnion l =>
      let (ol, id') :=
        (fix go (l : list tok) (id : nat) : list op * nat :=
           match l with
           | [] => ([], id)
           | x :: r => let (o1, id1) := compile x nh id in
                       let (or_, id2) := go r id1 in (o1 :: or_, id2)
           end) l id in
      (OUnion ol, id')
  | TClosure mn mx c =>
      let exact := match mx with Some m => Nat.eqb m mn | None => false end in
      if exact then copies_f (compile c) nh mn OEmpty id
      else
        let mx' := match mx with
                   | Some m => if (Nat.ltb 0 mn && Nat.ltb 0 m)%bool then Some (m - mn)%nat else Some m
                   | None => None end in
        let bounded := match mx' with Some k => Nat.ltb 0 k | None => false end in
        let (body, id1) :=
          if bounded then quest_f (compile c) nh (match mx' with Some k => k | None => O end) OEmpty id
          else
            let cid := if Nat.eqb (minlen c) 0 then Some id else None in
            let id0 := if Nat.eqb (minlen c) 0 then S id else id in
            let finite := match nh with HNull => true | _ => negb (overlap (fx_ovl w) nh c) end in
            if finite then let (oc, id1) := compile c HNull id0 in (OFinClosure cid oc, id1)
            else let (oc, id1) := compile c HOther id0 in (OClosure cid oc, id1) in
        copies_f (compile c) nh mn body id1
  end.

End Compile.

(* ------------------------------------------------------------------------------------------------ *)
(** * The backtracking matcher *)
Definition offs : Type := list (option nat).            (* Context::fOffsets; None = -1 *)

Fixpoint set_nth {A} (l : list A) (i : nat) (v : A) : list A :=
  match l, i with
  | [], _ => []
  | _ :: r, O => v :: r
  | x :: r, S i' => x :: set_nth r i' v
  end.

Inductive mres : Type := MFuel | MR (r : option nat) (st : offs).
Definition kont : Type := nat -> offs -> mres.

Definition is_surrogate (c : N) : bool := (0xD800 <=? c) && (c <=? 0xDFFF).

(** RegxUtil::isEOLChar takes an XMLCh: the code point is truncated to 16 bits *)
Definition eol16 (c : N) : bool := let u := c mod 65536 in (u =? 10) || (u =? 13) || (u =? 0x2028) || (u =? 0x2029).
Definition dot_ok (fx : bool) (c : N) : bool := if fx then negb ((c =? 10) || (c =? 13)) else negb (eol16 c).

Fixpoint prefix_at (s : list N) (off : nat) (lit : list N) : bool :=
  match lit with
  | [] => true
  | c :: lit' => match nth_error s off with Some x => (x =? c) && prefix_at s (S off) lit' | None => false end
  end.

Definition slot_is (st : offs) (i off : nat) : bool :=
  match nth_error st i with Some (Some v) => Nat.eqb v off | _ => false end.

(** matchDot outside schema mode: any character with option s; otherwise not an end-of-line character
    (LF CR U+2028 U+2029; before the repair 5dcc74f the code point was truncated to 16 bits first) *)
Definition xp_dot (fx sl : bool) (c : N) : bool :=
  if sl then true
  else if fx then negb ((c =? 10) || (c =? 13) || (c =? 0x2028) || (c =? 0x2029)) else negb (eol16 c).

(** matchUnion: every branch runs on a copy of the context ([run b] = match of branch b with the continuation);
    the best (largest) end wins, the first wins ties, a branch reaching the limit ends the search *)
Fixpoint union_go (limit : nat) (st : offs) (run : op -> mres) (l : list op) (best : option nat) (bst : offs) : mres :=
  match l with
  | [] => match best with Some b => MR (Some b) bst | None => MR None st end
  | b1 :: r =>
      match run b1 with
      | MFuel => MFuel
      | MR (Some e) st1 =>
          let better := match best with Some b => Nat.ltb b e | None => true end in
          if (Nat.leb e limit && better)%bool then
            if Nat.eqb e limit then MR (Some e) st1 else union_go limit st run r (Some e) st1
          else union_go limit st run r best bst
      | MR None _ => union_go limit st run r best bst
      end
  end.

(** the loop of O_FINITE_CLOSURE: [while ((ret = match(child, offset)) != -1) { if (offset == ret) break; offset = ret; }];
    [run] = match of the child chain (which ends at NULL), [fin] = what follows the loop *)
Fixpoint fin_loop (run : nat -> offs -> mres) (fin : nat -> offs -> mres) (n : nat) (off : nat) (st : offs) : mres :=
  match n with
  | O => MFuel
  | S n' =>
      match run off st with
      | MFuel => MFuel
      | MR (Some e) st1 => if Nat.eqb e off then fin off st1 else fin_loop run fin n' e st1
      | MR None st1 => fin off st1
      end
  end.

Section Match.
Variable w : sw.
Variable xp : bool.      (* the XPath-flavoured dialect (no XMLSCHEMA_MODE) *)
Variable sl : bool.      (* option s (SINGLE_LINE) *)
Variable s : list N.

Definition limit : nat := length s.

(** one character class of ops: matchChar / matchDot / matchRange (Context::nextCh fails on an unpaired surrogate) *)
Definition one_char (f : N -> bool) (k : kont) (off : nat) (st : offs) : mres :=
  match nth_error s off with
  | Some x => if negb (is_surrogate x) && f x then k (S off) st else MR None st
  | None => MR None st
  end.

Fixpoint omatch (fuel : nat) (o : op) (k : kont) (off : nat) (st : offs) {struct fuel} : mres :=
  match fuel with
  | O => MFuel
  | S f =>
    match o with
    | OEmpty => k off st
    | OChar c => one_char (N.eqb c) k off st
    | ODot => one_char (if xp then xp_dot (fx_dot w) sl else dot_ok (fx_dot w)) k off st
    | OMark => k off st
    | ORange neg r => one_char (rt_match neg r) k off st
    | OString lit => if prefix_at s off lit then k (off + length lit)%nat st else MR None st
    | OCat a b => omatch f a (fun o' st' => omatch f b k o' st') off st
    | OUnion l => union_go limit st (fun b1 => omatch f b1 k off st) l None st
    | OQuestion c =>
        match omatch f c k off st with
        | MFuel => MFuel
        | MR (Some e) st1 => MR (Some e) st1
        | MR None st1 => k off st1
        end
    | OClosure id c =>
        let enter (st0 : offs) :=
          match omatch f c (fun o' st' => omatch f (OClosure id c) k o' st') off st0 with
          | MFuel => MFuel
          | MR r st1 =>
              let st2 := match id with Some i => set_nth st1 i None | None => st1 end in
              match r with Some e => MR (Some e) st2 | None => k off st2 end
          end in
        match id with
        | Some i => if slot_is st i off then k off (set_nth st i None) else enter (set_nth st i (Some off))
        | None => enter st
        end
    | OFinClosure id c =>
        let fin (off : nat) (st : offs) : mres :=
          k off (match id with Some i => set_nth st i None | None => st end) in
        let run (st0 : offs) := fin_loop (omatch f c (fun o' st' => MR (Some o') st')) fin f off st0 in
        match id with
        | Some i => if slot_is st i off then k off (set_nth st i None) else run (set_nth st i (Some off))
        | None => run st
        end
    end
  end.

End Match.

(** RegularExpression::matches in XMLSCHEMA_MODE: [match(context, fOperations, fStart) == fLimit] *)
Inductive xres : Type := XTrue | XFalse | XDiverge.

Definition xmatch_tok (w : sw) (fuel : nat) (t : tok) (s : list N) : xres :=
  let (o, nclos) := compile w false t HNull 0 in
  match omatch w false false s fuel o (fun o' st' => MR (Some o') st') 0 (repeat None nclos) with
  | MFuel => XDiverge
  | MR (Some e) _ => if Nat.eqb e (length s) then XTrue else XFalse
  | MR None _ => XFalse
  end.

(** RegularExpression::matches outside schema mode, without the pre-filters (options F and H): the leftmost start at
    which match() completes, and the end of that first completion.  (The C++ stops at fLimit - fMinLength; the starts
    beyond cannot complete, so trying them changes nothing.) *)
Inductive sres : Type := SNone | SFound (a b : nat) | SDiverge.

(** lengths in UTF-16 units, as Token::getMinLength and fLimit count them *)
Definition units_of (s : list N) : nat := fold_right (fun c n => ((if c <? 0x10000 then 1 else 2) + n)%nat) O s.
Fixpoint minlen_u (t : tok) : nat :=
  match t with
  | TEmpty => 0
  | TDot | TChar _ | TRange _ _ => 1
  | TString s => units_of s
  | TConcat l => (fix go (l : list tok) : nat := match l with [] => 0 | x :: r => minlen_u x + go r end) l
  | TUnion l =>
      match l with
      | [] => 0
      | x :: r => (fix go (m : nat) (l : list tok) : nat :=
                     match l with [] => m | y :: r' => go (Nat.min m (minlen_u y)) r' end) (minlen_u x) r
      end
  | TClosure mn _ t => mn * minlen_u t
  | TParen t => minlen_u t
  end%nat.

(** the scan loop [for (matchStart = fStart; matchStart <= fLimit - fMinLength; matchStart++)]: [run start] = match() from
    [start]; [ok start] = the start lies within the bound (in UTF-16 units) *)
Fixpoint search_go (run : nat -> mres) (ok : nat -> bool) (n : nat) (start : nat) : sres :=
  if negb (ok start) then SNone else
  match run start with
  | MFuel => SDiverge
  | MR (Some e) _ => SFound start e
  | MR None _ => match n with O => SNone | S n' => search_go run ok n' (S start) end
  end.

Definition xsearch_tok (w : sw) (fuel : nat) (sl : bool) (t : tok) (s : list N) : sres :=
  (* if (context.fLimit < fMinLength) return false; *)
  if Nat.ltb (units_of s) (minlen_u t) then SNone else
  let (o, nclos) := compile w true t HNull 0 in
  search_go (fun start => omatch w true sl s fuel o (fun o' st' => MR (Some o') st') start (repeat None nclos))
            (fun start => Nat.leb (units_of (firstn start s)) (units_of s - minlen_u t))
            (length s) 0%nat.

(** pattern text -> answer *)
Inductive answer : Type := AParseError | ARuntime | AUnsupported | ACrash | AMatch (r : list xres).

Definition run_re (w : sw) (fuel : nat) (pat : list N) (strs : list (list N)) : answer :=
  match parse w pat with
  | Ok t => AMatch (map (xmatch_tok w fuel t) strs)
  | Err PE_Parse => AParseError
  | Err PE_Runtime => ARuntime
  | Err PE_Unsupported => AUnsupported
  | Err PE_Crash => ACrash
  | Err PE_Fuel => ACrash
  end.

(* ------------------------------------------------------------------------------------------------ *)
(** * The repaired matcher (defect switch of F15/F27/F28)
    Same token tree, same continuation-passing structure, but: the continuation of the whole expression succeeds
    only at the limit (so a completion that stops short makes the matcher backtrack instead of being returned),
    every closure backtracks over its number of iterations (no possessive O_FINITE_CLOSURE), a closure iteration
    must consume at least one character (instead of the fOffsets bookkeeping), and a union succeeds as soon as one
    branch does.  Structurally recursive, hence total.  Proved sound and complete w.r.t. [Lre] in Proofs11c.v. *)
Section Fixed.
Variable fxd : bool.       (* fx_dot *)
Variable s : list N.

Definition fchar (f : N -> bool) (k : nat -> bool) (off : nat) : bool :=
  match nth_error s off with Some x => f x && k (S off) | None => false end.

Definition range_set (neg : bool) (r : list rng) (c : N) : bool := xorb neg (rmem r c).

(** loops over a body matcher [m] (= fmatch of the closure's child) *)
Fixpoint star_f (m : (nat -> bool) -> nat -> bool) (k : nat -> bool) (n : nat) (off : nat) : bool :=
  k off || match n with
           | O => false
           | S n' => m (fun o' => Nat.ltb off o' && star_f m k n' o') off
           end.
Fixpoint opt_f (m : (nat -> bool) -> nat -> bool) (k : nat -> bool) (j : nat) (off : nat) : bool :=
  k off || match j with O => false | S j' => m (opt_f m k j') off end.
Fixpoint pow_f (m : (nat -> bool) -> nat -> bool) (tail : nat -> bool) (i : nat) : nat -> bool :=
  match i with O => tail | S i' => m (pow_f m tail i') end.

Fixpoint fmatch (t : tok) (k : nat -> bool) (off : nat) {struct t} : bool :=
  match t with
  | TEmpty => k off
  | TDot => fchar (dot_ok fxd) k off
  | TChar c => fchar (N.eqb c) k off
  | TString l => prefix_at s off l && k (off + length l)%nat
  | TRange neg r => fchar (range_set neg r) k off
  | TParen t1 => fmatch t1 k off
  | TConcat l =>
      (fix go (l : list tok) (k : nat -> bool) : nat -> bool :=
         match l with [] => k | x :: r => fmatch x (go r k) end) l k off
  | TUnion l =>
      (fix go (l : list tok) : bool := match l with [] => false | x :: r => fmatch x k off || go r end) l
  | TClosure mn mx c =>
      let tail := match mx with
                  | None => star_f (fmatch c) k (length s)
                  | Some m => if Nat.ltb m mn then (fun _ => false) else opt_f (fmatch c) k (m - mn)%nat
                  end in
      pow_f (fmatch c) tail mn off
  end.

Definition xmatch_fixed_tok (t : tok) : bool := fmatch t (fun e => Nat.eqb e (length s)) 0.

End Fixed.

(** the language a token tree stands for *)
Fixpoint re_of_tok (fxd : bool) (t : tok) : re :=
  match t with
  | TEmpty => REps
  | TDot => RSet (dot_ok fxd)
  | TChar c => RChar c
  | TString l => fold_right (fun c r => RCat (RChar c) r) REps l
  | TRange neg r => RSet (range_set neg r)
  | TParen t1 => re_of_tok fxd t1
  | TConcat l => (fix go (l : list tok) : re := match l with [] => REps | x :: r => RCat (re_of_tok fxd x) (go r) end) l
  | TUnion l => (fix go (l : list tok) : re := match l with [] => REmp | x :: r => RAlt (re_of_tok fxd x) (go r) end) l
  | TClosure mn mx c => RRep mn mx (re_of_tok fxd c)
  end.

Definition run_fixed (w : sw) (pat : list N) (strs : list (list N)) : answer :=
  match parse w pat with
  | Ok t => AMatch (map (fun s => if xmatch_fixed_tok (fx_dot w) s t then XTrue else XFalse) strs)
  | Err PE_Parse => AParseError
  | Err PE_Runtime => ARuntime
  | Err PE_Unsupported => AUnsupported
  | Err _ => ACrash
  end.
