(** Range algebra, part 3: complementRanges denotes the complement within 0..0x10FFFF; its array bound. *)
From Coq Require Import Arith PeanoNat ZArith ZifyBool ZifyN ZifyNat Lia.
From XV Require Import C11.ModelRange11 C11.Proofs11b C11.Proofs11d.
Local Open Scope N_scope.

Definition maxcp : N := 0x10FFFF.

Lemma last_hi_app : forall l a b, last_hi (l ++ [(a, b)]) = b.
Proof.
  intros l a b. unfold last_hi. rewrite last_last. reflexivity.
Qed.

(** addRange appends when the new range lies strictly beyond the last one (both the pinned and the repaired code) *)
Lemma addRange_append : forall fx t a b, alloc t = true -> srt t = true -> last_hi (rs t) + 1 < a -> a <= b ->
  let u := addRange fx t a b in
  rs u = rs t ++ [(a, b)] /\ alloc u = true /\ srt u = true /\ cmpd u = cmpd t /\
  maxc u = (if Nat.leb (maxc t) (elemc t + 2) then expand_to (elemc t) 2 else maxc t).
Proof.
  intros fx t a b Ha Hs Hl Hab. cbn zeta. unfold addRange.
  assert (E1 : (a <=? b) = true) by lia. rewrite E1, Ha. cbn [negb].
  assert (E2 : (last_hi (rs t) + 1 =? a) = false) by lia. rewrite E2.
  assert (E3 : (a <=? last_hi (rs t)) = false) by lia. rewrite E3, Hs. cbn [andb].
  cbn [rs alloc srt cmpd maxc]. auto.
Qed.

Lemma addRange_first : forall fx t a b, alloc t = false -> a <= b ->
  let u := addRange fx t a b in
  rs u = [(a, b)] /\ alloc u = true /\ srt u = true /\ cmpd u = cmpd t /\ maxc u = maxc t.
Proof.
  intros fx t a b Ha Hab. cbn zeta. unfold addRange.
  assert (E1 : (a <=? b) = true) by lia. rewrite E1, Ha. cbn [negb rs alloc srt cmpd maxc]. auto.
Qed.

(** the accumulator of complementRanges: nothing yet, or a sorted token whose last range ends below [prev] *)
Definition acc_ok (acc : rtok) (prev : N) : Prop :=
  (alloc acc = false /\ rs acc = []) \/ (alloc acc = true /\ srt acc = true /\ last_hi (rs acc) < prev).

Fixpoint chain (prev : N) (l : list rng) : Prop :=
  match l with [] => True | (lo, hi) :: r => prev + 1 < lo /\ lo <= hi /\ chain hi r end.

Fixpoint gl (prev : N) (l : list rng) : list rng :=
  match l with [] => [] | (lo, hi) :: r => (prev + 1, lo - 1) :: gl hi r end.

Fixpoint last_of (prev : N) (l : list rng) : N := match l with [] => prev | (_, hi) :: r => last_of hi r end.

Lemma compact_chain : forall lo hi r, compact_ok ((lo, hi) :: r) = true -> chain hi r.
Proof.
  intros lo hi r. revert lo hi. induction r as [|[lo2 hi2] r IH]; intros lo hi H; [exact I |].
  cbn [compact_ok] in H. apply andb_true_iff in H. destruct H as [H0 H]. apply andb_true_iff in H. destruct H as [H1 H2].
  cbn [chain]. split; [lia |]. split; [| exact (IH lo2 hi2 H2)].
  cbn [compact_ok] in H2. apply andb_true_iff in H2. destruct H2 as [H2 _]. lia.
Qed.

Lemma last_hi_cons : forall lo hi r, last_hi ((lo, hi) :: r) = last_of hi r.
Proof.
  intros lo hi r. revert lo hi. induction r as [|[lo2 hi2] r IH]; intros lo hi; [reflexivity |].
  change (last_hi ((lo, hi) :: (lo2, hi2) :: r)) with (last_hi ((lo2, hi2) :: r)). rewrite IH. reflexivity.
Qed.

Lemma gaps_spec : forall fx l acc prev, acc_ok acc prev -> chain prev l ->
  let u := gaps fx acc prev l in
  rs u = rs acc ++ gl prev l /\ acc_ok u (last_of prev l) /\ (l <> [] -> alloc u = true).
Proof.
  intros fx. induction l as [|[lo hi] r IH]; intros acc prev A C; cbn [gaps gl last_of].
  - cbn zeta. rewrite app_nil_r. split; [reflexivity |]. split; [exact A | congruence].
  - cbn [chain] in C. destruct C as [C1 [C2 C3]].
    assert (S : let a := addRange fx acc (prev + 1) (lo - 1) in
                rs a = rs acc ++ [(prev + 1, lo - 1)] /\ acc_ok a hi).
    { destruct A as [[A1 A2] | [A1 [A2 A3]]].
      - destruct (addRange_first fx acc (prev + 1) (lo - 1) A1 ltac:(lia)) as [R [Al [Sr _]]]. cbn zeta.
        rewrite R, A2. split; [reflexivity |]. right. rewrite R. unfold last_hi. cbn. split; [exact Al |]. split; [exact Sr | lia].
      - destruct (addRange_append fx acc (prev + 1) (lo - 1) A1 A2 ltac:(lia) ltac:(lia)) as [R [Al [Sr _]]]. cbn zeta.
        rewrite R. split; [reflexivity |]. right. rewrite R, last_hi_app. split; [exact Al |]. split; [exact Sr | lia]. }
    cbn zeta in S. destruct S as [R A'].
    destruct (IH _ hi A' C3) as [R2 [A2 _]]. cbn zeta in *. rewrite R2, R, <- app_assoc. split; [reflexivity |].
    split; [exact A2 |]. intros _.
    destruct A2 as [[A2a A2b] | [A2a _]]; [| exact A2a].
    rewrite R2, R in A2b. destruct (rs acc); discriminate.
Qed.

Definition tailgap (v : N) : list rng := if v =? maxcp then [] else [(v + 1, maxcp)].

Definition headgap (lo0 : N) : list rng := if 0 <? lo0 then [(0, lo0 - 1)] else [].

(** what complementRanges computes on a compacted non-empty list *)
Theorem complement_list : forall fx t lo0 hi0 r, rs (compactRanges (sortRanges t)) = (lo0, hi0) :: r ->
  compact_ok ((lo0, hi0) :: r) = true -> last_of hi0 r <= maxcp ->
  rs (complementRanges fx t) = headgap lo0 ++ gl hi0 r ++ tailgap (last_of hi0 r).
Proof.
  intros fx t lo0 hi0 r E Hc Hmax. unfold complementRanges. rewrite E. rewrite last_hi_cons.
  destruct (compact_ok_cons lo0 hi0 r Hc) as [H0 _]. pose proof (compact_chain lo0 hi0 r Hc) as Ch.
  set (a := if 0 <? lo0 then addRange fx rt_new 0 (lo0 - 1) else rt_new).
  assert (Aa : rs a = headgap lo0 /\ acc_ok a hi0).
  { unfold a, headgap. destruct (0 <? lo0) eqn:E0.
    - destruct (addRange_first fx rt_new 0 (lo0 - 1) eq_refl ltac:(lia)) as [R [Al [Sr _]]]. cbn zeta in *.
      rewrite R. split; [reflexivity |]. right. rewrite R. unfold last_hi. cbn. split; [exact Al |]. split; [exact Sr | lia].
    - split; [reflexivity |]. left. split; reflexivity. }
  destruct Aa as [Ra Aa]. destruct (gaps_spec fx r a hi0 Aa Ch) as [Rb [Ab _]]. cbn zeta in *.
  set (b := gaps fx a hi0 r) in *. unfold tailgap.
  destruct (last_of hi0 r =? 0x10FFFF) eqn:El; cbn [negb].
  - change maxcp with 0x10FFFF. rewrite El. cbn [rs]. rewrite Rb, Ra, app_nil_r. reflexivity.
  - change maxcp with 0x10FFFF. rewrite El. cbn [rs]. unfold maxcp in Hmax.
    destruct Ab as [[A1 A2] | [A1 [A2 A3]]].
    + destruct (addRange_first fx b (last_of hi0 r + 1) 0x10FFFF A1 ltac:(lia)) as [R _]. cbn zeta in R.
      rewrite R. rewrite Rb, Ra in A2. apply app_eq_nil in A2. destruct A2 as [A2a A2b]. rewrite A2a, A2b. reflexivity.
    + destruct (addRange_append fx b (last_of hi0 r + 1) 0x10FFFF A1 A2 ltac:(lia) ltac:(lia)) as [R _]. cbn zeta in R.
      rewrite R, Rb, Ra, <- app_assoc. reflexivity.
Qed.

Lemma chain_above : forall l prev, chain prev l -> above (prev + 1) l.
Proof.
  induction l as [|[lo hi] r IH]; intros prev C c Hc; [reflexivity |]. cbn [chain] in C. destruct C as [C1 [C2 C3]].
  rewrite rmem_cons. rewrite (IH hi C3 c) by lia. unfold in_pair. cbn [fst snd]. lia.
Qed.

Lemma gl_above : forall l prev, chain prev l -> above prev (gl prev l ++ tailgap (last_of prev l)).
Proof.
  induction l as [|[lo hi] r IH]; intros prev C c Hc; cbn [gl last_of].
  - unfold tailgap. destruct (prev =? maxcp); [reflexivity |]. cbn. unfold in_pair. cbn [fst snd]. lia.
  - cbn [chain] in C. destruct C as [C1 [C2 C3]]. cbn [app]. rewrite rmem_cons. rewrite (IH hi C3 c) by lia.
    unfold in_pair. cbn [fst snd]. lia.
Qed.

Lemma gl_spec : forall l prev c, chain prev l -> last_of prev l <= maxcp -> prev < c -> c <= maxcp ->
  rmem (gl prev l ++ tailgap (last_of prev l)) c = negb (rmem l c).
Proof.
  induction l as [|[lo hi] r IH]; intros prev c C Hm H1 H2; cbn [gl last_of] in *.
  - unfold tailgap. destruct (prev =? maxcp) eqn:E; [lia |]. cbn. unfold in_pair. cbn [fst snd]. lia.
  - cbn [chain] in C. destruct C as [C1 [C2 C3]]. cbn [app]. rewrite !rmem_cons.
    destruct (N.leb_spec c hi) as [L | L].
    + rewrite (gl_above r hi C3 c L). rewrite (chain_above r hi C3 c) by lia. unfold in_pair. cbn [fst snd]. lia.
    + rewrite (IH hi c C3 Hm L H2). unfold in_pair. cbn [fst snd]. destruct (rmem r c); lia.
Qed.

(** complementRanges denotes the complement within 0..0x10FFFF (for a token whose ranges lie in that interval) *)
Theorem complementRanges_spec : forall fx t c, rt_inv t -> alloc t = true ->
  (forall p, In p (rs t) -> snd p <= maxcp) -> c <= maxcp ->
  rmem (rs (complementRanges fx t)) c = negb (rmem (rs t) c).
Proof.
  intros fx t c It Ha Hb Hc. pose proof (norm_spec t It) as Nt.
  destruct It as [[W1 [_ W3]] _].
  destruct (rs (compactRanges (sortRanges t))) as [|[lo0 hi0] r] eqn:E.
  - (* impossible: the set is non-empty *)
    exfalso. specialize (W1 Ha). destruct (rs t) as [|[lo hi] l] eqn:Et; [congruence |].
    change (pairs_ok ((lo, hi) :: l)) with ((lo <=? hi) && pairs_ok l) in W3.
    pose proof (n_set _ _ Nt lo) as S. rewrite E, Et, rmem_cons in S. unfold in_pair in S. cbn [fst snd rmem existsb] in S. lia.
  - pose proof (n_compact _ _ Nt) as Hcp. rewrite E in Hcp.
    assert (Hlast : last_of hi0 r <= maxcp).
    { (* the last element of the compacted list is a member of the set, hence below some bound of t *)
      assert (M : rmem ((lo0, hi0) :: r) (last_of hi0 r) = true).
      { clear -Hcp. revert lo0 hi0 Hcp. induction r as [|[lo2 hi2] r IH]; intros lo0 hi0 Hcp.
        - cbn. unfold in_pair. cbn [fst snd]. destruct (compact_ok_cons _ _ _ Hcp) as [H _]. lia.
        - destruct (compact_ok_cons _ _ _ Hcp) as [_ [H2 _]]. cbn [last_of]. rewrite rmem_cons with (x := (lo0, hi0)). apply orb_true_iff. right. exact (IH lo2 hi2 H2). }
      pose proof (n_set _ _ Nt (last_of hi0 r)) as S2. rewrite E in S2.
      assert (M2 : rmem (rs t) (last_of hi0 r) = true) by (rewrite <- S2; exact M). clear M. rename M2 into M.
      unfold rmem in M. apply existsb_exists in M. destruct M as [p [Hin Hp]].
      specialize (Hb p Hin). unfold in_pair in Hp. lia. }
    rewrite (complement_list fx t lo0 hi0 r E Hcp Hlast). rewrite <- (n_set _ _ Nt c), E.
    destruct (compact_ok_cons _ _ _ Hcp) as [H0 _]. pose proof (compact_chain _ _ _ Hcp) as Ch.
    rewrite rmem_app, rmem_cons. unfold headgap.
    destruct (N.leb_spec c hi0) as [L | L].
    + rewrite (gl_above r hi0 Ch c L). rewrite (chain_above r hi0 Ch c) by lia.
      destruct (0 <? lo0) eqn:E0; cbn; unfold in_pair; cbn [fst snd]; lia.
    + rewrite (gl_spec r hi0 c Ch Hlast L Hc).
      destruct (0 <? lo0) eqn:E0; cbn; unfold in_pair; cbn [fst snd]; destruct (rmem r c); lia.
Qed.

(** capacity of the complement token *)
Lemma addRange_cap2 : forall fx t a b, cap_ok t -> (2 <= maxc t)%nat ->
  cap_ok (addRange fx t a b) /\ (2 <= maxc (addRange fx t a b))%nat.
Proof.
  intros fx t a b H H2. split; [apply addRange_cap; assumption |].
  unfold addRange. destruct (alloc t); cbn [negb].
  - destruct (last_hi (rs t) + 1 =? (if a <=? b then a else b)); [exact H2 |].
    assert (M : (2 <= (if Nat.leb (maxc t) (elemc t + 2) then expand_to (elemc t) 2 else maxc t))%nat).
    { destruct (Nat.leb (maxc t) (elemc t + 2)); [| exact H2]. pose proof (expand_to_ge (elemc t) 2). lia. }
    destruct (srt t && ((if a <=? b then a else b) <=? last_hi (rs t))).
    + destruct (add_sorted (rs t) (if a <=? b then a else b) (if a <=? b then b else a)); exact M.
    + destruct (if (if a <=? b then a else b) <=? last_hi (rs t) then false else srt t); exact M.
  - exact H2.
Qed.

Lemma gaps_cap : forall fx l acc prev, cap_ok acc -> (2 <= maxc acc)%nat ->
  cap_ok (gaps fx acc prev l) /\ (2 <= maxc (gaps fx acc prev l))%nat.
Proof.
  intros fx. induction l as [|[lo hi] r IH]; intros acc prev H H2; cbn [gaps]; [auto |].
  destruct (addRange_cap2 fx acc (prev + 1) (lo - 1) H H2) as [H' H2']. apply IH; assumption.
Qed.

Theorem complementRanges_cap : forall fx t, cap_ok (complementRanges fx t).
Proof.
  intros fx t. unfold complementRanges.
  assert (N0 : cap_ok rt_new /\ (2 <= maxc rt_new)%nat) by (unfold cap_ok, elemc; cbn; lia).
  destruct (rs (compactRanges (sortRanges t))) as [|[lo0 hi0] r]; [apply N0 |].
  set (a := if 0 <? lo0 then addRange fx rt_new 0 (lo0 - 1) else rt_new).
  assert (Aa : cap_ok a /\ (2 <= maxc a)%nat).
  { unfold a. destruct (0 <? lo0); [apply addRange_cap2; apply N0 | exact N0]. }
  destruct (gaps_cap fx r a hi0 (proj1 Aa) (proj2 Aa)) as [Hb Hb2].
  set (b := gaps fx a hi0 r) in *.
  destruct (addRange_cap2 fx b (last_hi ((lo0, hi0) :: r) + 1) 0x10FFFF Hb Hb2) as [Hc _].
  unfold cap_ok, elemc in *. cbn [rs maxc].
  match goal with |- context [if ?bb then _ else _] => destruct bb end; [exact Hc | exact Hb].
Qed.
