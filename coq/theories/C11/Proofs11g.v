(** The op tree built by [compile] denotes a subset of the language of the token tree, and the soundness theorem of
    the matcher as it stands: [xmatch_tok w fuel t s = XTrue -> Lre (re_of_tok (fx_dot w) t) s]. *)
From Coq Require Import Arith PeanoNat Lia.
From XV Require Import C11.Spec11 C11.ModelRange11 C11.Model11 C11.Proofs11b C11.Proofs11c C11.Proofs11f.
Local Open Scope N_scope.

(** well-formed token trees: every class is sorted/compacted, every bounded quantifier has min <= max
    (what the parser produces; decidable) *)
Fixpoint tok_wfb (t : tok) : bool :=
  match t with
  | TRange _ r => compact_ok r
  | TConcat l => (fix all (l : list tok) : bool := match l with [] => true | x :: r => tok_wfb x && all r end) l
  | TUnion l => (fix all (l : list tok) : bool := match l with [] => true | x :: r => tok_wfb x && all r end) l
  | TClosure mn mx c => (match mx with Some m => Nat.leb mn m | None => true end) && tok_wfb c
  | TParen c => tok_wfb c
  | _ => true
  end.

(** [re_of_tok] with the dot predicate as a parameter *)
Fixpoint re_of_tok_d (dotf : N -> bool) (t : tok) : re :=
  match t with
  | TEmpty => REps
  | TDot => RSet dotf
  | TChar c => RChar c
  | TString l => fold_right (fun c r => RCat (RChar c) r) REps l
  | TRange neg r => RSet (range_set neg r)
  | TParen t1 => re_of_tok_d dotf t1
  | TConcat l => (fix go (l : list tok) : re := match l with [] => REps | x :: r => RCat (re_of_tok_d dotf x) (go r) end) l
  | TUnion l => (fix go (l : list tok) : re := match l with [] => REmp | x :: r => RAlt (re_of_tok_d dotf x) (go r) end) l
  | TClosure mn mx c => RRep mn mx (re_of_tok_d dotf c)
  end.

Lemma re_of_tok_d_eq : forall fxd t, re_of_tok_d (dot_ok fxd) t = re_of_tok fxd t.
Proof.
  intros fxd. induction t as [| |c|l|neg r|l IHl|l IHl|mn mx c IH|t IH] using tok_ind'; cbn [re_of_tok_d re_of_tok]; try reflexivity.
  - induction IHl as [|x l Hx Hl IHl']; [reflexivity |]. rewrite Hx, IHl'. reflexivity.
  - induction IHl as [|x l Hx Hl IHl']; [reflexivity |]. rewrite Hx, IHl'. reflexivity.
  - rewrite IH. reflexivity.
  - exact IH.
Qed.

Section CompileSound.
Variable w : sw.
Variable cap xp sl : bool.

Notation dotf := (dotf w xp sl).
Notation Lop := (Lop w xp sl).

Definition Lmax (L : list N -> Prop) (j : nat) (v : list N) : Prop :=
  exists ss, v = concat ss /\ Forall L ss /\ (length ss <= j)%nat.

Section Loops.
Variable comp : hd -> nat -> op * nat.
Variable Lc : list N -> Prop.
Hypothesis Hcomp : forall nh id v, Lop (fst (comp nh id)) v -> Lc v.

Lemma copies_f_sound : forall nh n ret id v, Lop (fst (copies_f comp nh n ret id)) v ->
  exists ss v2, v = concat ss ++ v2 /\ Forall Lc ss /\ length ss = n /\ Lop ret v2.
Proof.
  intros nh. induction n as [|n IH]; intros ret id v H; cbn [copies_f] in H.
  - exists [], v. cbn in *. repeat split; auto.
  - destruct (comp (head_of ret nh) id) as [o1 id1] eqn:E.
    destruct (IH _ _ _ H) as [ss [v2 [-> [F [L H2]]]]]. cbn [Proofs11f.Lop] in H2. destruct H2 as [a [b [-> [Ha Hb]]]].
    assert (La : Lc a). { apply (Hcomp (head_of ret nh) id). rewrite E. exact Ha. }
    exists (ss ++ [a]), b. rewrite concat_app. cbn [concat]. rewrite app_nil_r, <- app_assoc. split; [reflexivity |].
    split; [apply Forall_app; split; [exact F | constructor; [exact La | constructor]] |].
    split; [rewrite app_length; cbn; lia | exact Hb].
Qed.

Lemma quest_f_sound : forall nh k ret id j0, (forall v, Lop ret v -> Lmax Lc j0 v) ->
  forall v, Lop (fst (quest_f comp nh k ret id)) v -> Lmax Lc (j0 + k) v.
Proof.
  intros nh. induction k as [|k IH]; intros ret id j0 Hret v H; cbn [quest_f] in H.
  - rewrite Nat.add_0_r. apply Hret. exact H.
  - destruct (comp (head_of ret nh) id) as [o1 id1] eqn:E.
    replace (j0 + S k)%nat with (S j0 + k)%nat by lia. apply (IH _ _ (S j0)) in H; [exact H |].
    intros v' Hv'. cbn [Proofs11f.Lop] in Hv'. destruct Hv' as [-> | [a [b [-> [Ha Hb]]]]].
    + exists []. split; [reflexivity |]. split; [constructor | cbn; lia].
    + assert (La : Lc a). { apply (Hcomp (head_of ret nh) id). rewrite E. exact Ha. }
      destruct (Hret _ Hb) as [ss [-> [F L]]]. exists (a :: ss). split; [reflexivity |].
      split; [constructor; assumption | cbn; lia].
Qed.
End Loops.

Lemma Forall_impl' : forall (P Q : list N -> Prop) ss, (forall v, P v -> Q v) -> Forall P ss -> Forall Q ss.
Proof. intros P Q ss H F. induction F; constructor; auto. Qed.

Theorem compile_sound : forall t, tok_wfb t = true ->
  forall nh id v, Lop (fst (compile w cap t nh id)) v -> Lre (re_of_tok_d dotf t) v.
Proof.
  induction t as [| |c|l|neg r|l IHl|l IHl|mn mx c IH|t IH] using tok_ind'; intros Hwf nh id v H.
  - cbn in *. exact H.
  - cbn in *. exact H.
  - cbn in *. exact H.
  - cbn [compile fst Proofs11f.Lop] in H. cbn [re_of_tok_d]. apply str_re_spec. exact H.
  - cbn [compile fst Proofs11f.Lop] in H. cbn [re_of_tok_d Lre tok_wfb] in *. destruct H as [x [-> Hx]].
    exists x. split; [reflexivity |]. unfold range_set. rewrite <- (rt_match_spec neg r x Hwf). exact Hx.
  - (* concatenation *)
    cbn [compile re_of_tok_d tok_wfb] in *. revert v H. induction IHl as [|x l Hx Hl IHl']; intros v H.
    + cbn in *. exact H.
    + apply andb_true_iff in Hwf. destruct Hwf as [Wx Wl].
      revert H. match goal with |- context [let (_, _) := ?X in _] => destruct X as [ob id1] eqn:Eg end.
      match goal with |- context [let (_, _) := ?X in _] => destruct X as [oa id2] eqn:Ea end. intros H.
      cbn [fst Proofs11f.Lop] in H. destruct H as [v1 [v2 [-> [H1 H2]]]]. cbn [Lre]. exists v1, v2. split; [reflexivity |]. split.
      * apply (Hx Wx (head_of ob nh) id1). rewrite Ea. exact H1.
      * apply (IHl' Wl). exact H2.
  - (* union *)
    cbn [compile re_of_tok_d tok_wfb] in *.
    match type of H with context [let (_, _) := ?X in _] => destruct X as [ol id'] eqn:Eg end.
    cbn [fst] in H. revert id ol id' Eg v H. induction IHl as [|x l Hx Hl IHl']; intros id ol id' Eg v H.
    + inversion Eg; subst. destruct H.
    + apply andb_true_iff in Hwf. destruct Hwf as [Wx Wl].
      destruct (compile w cap x nh id) as [o1 id1] eqn:E1.
      match type of Eg with context [let (_, _) := ?X in _] => destruct X as [or_ id2] eqn:Er end.
      inversion Eg; subst. cbn [Proofs11f.Lop] in H. cbn [Lre]. destruct H as [H | H].
      * left. apply (Hx Wx nh id). rewrite E1. exact H.
      * right. exact (IHl' Wl id1 or_ id' Er v H).
  - (* closure *)
    cbn [tok_wfb] in Hwf. apply andb_true_iff in Hwf. destruct Hwf as [Wm Wc]. specialize (IH Wc).
    set (Lc := Lre (re_of_tok_d dotf c)).
    assert (Hcomp : forall nh id v, Lop (fst (compile w cap c nh id)) v -> Lc v) by (intros; eapply IH; eassumption).
    cbn [compile] in H. cbn [re_of_tok_d Lre]. fold Lc.
    destruct mx as [m|].
    + apply Nat.leb_le in Wm. destruct (Nat.eqb m mn) eqn:Eex.
      * apply Nat.eqb_eq in Eex. subst m.
        destruct (copies_f_sound _ Lc Hcomp _ _ _ _ _ H) as [ss [v2 [-> [F [L H2]]]]]. cbn in H2. subst v2.
        exists ss. rewrite app_nil_r. split; [reflexivity |]. split; [exact F |]. cbn. lia.
      * apply Nat.eqb_neq in Eex.
        set (k := if (Nat.ltb 0 mn && Nat.ltb 0 m)%bool then (m - mn)%nat else m) in *.
        assert (Hk : (0 < k)%nat /\ (mn + k <= m)%nat).
        { unfold k. destruct (Nat.ltb 0 mn) eqn:E1; destruct (Nat.ltb 0 m) eqn:E2; cbn [andb];
            try apply Nat.ltb_lt in E1; try apply Nat.ltb_lt in E2; try apply Nat.ltb_ge in E1; try apply Nat.ltb_ge in E2; lia. }
        assert (Hb : (if (Nat.ltb 0 mn && Nat.ltb 0 m)%bool then Some (m - mn)%nat else Some m) = Some k).
        { unfold k. destruct (Nat.ltb 0 mn && Nat.ltb 0 m)%bool; reflexivity. }
        rewrite Hb in H. assert (Hlt : Nat.ltb 0 k = true) by (apply Nat.ltb_lt; lia). rewrite Hlt in H.
        match type of H with context [let (_, _) := ?X in _] => destruct X as [body id1] eqn:Eb end.
        destruct (copies_f_sound _ Lc Hcomp _ _ _ _ _ H) as [ss [v2 [-> [F [L H2]]]]].
        assert (Hq : Lmax Lc (0 + k) v2).
        { apply (quest_f_sound _ Lc Hcomp nh k OEmpty id 0%nat).
          - intros v' Hv'. cbn in Hv'. subst v'. exists []. split; [reflexivity |]. split; [constructor | cbn; lia].
          - rewrite Eb. exact H2. }
        destruct Hq as [ss2 [-> [F2 L2]]]. exists (ss ++ ss2). rewrite concat_app. split; [reflexivity |].
        split; [apply Forall_app; auto |]. rewrite app_length. cbn. lia.
    + match type of H with context [let (_, _) := ?X in _] => destruct X as [body id1] eqn:Eb end.
      destruct (copies_f_sound _ Lc Hcomp _ _ _ _ _ H) as [ss [v2 [-> [F [L H2]]]]].
      assert (Hs : exists ss2, v2 = concat ss2 /\ Forall Lc ss2).
      { destruct (match nh with HNull => true | _ => negb (overlap (fx_ovl w) nh c) end).
        - destruct (compile w cap c HNull (if Nat.eqb (minlen c) 0 then S id else id)) as [oc id2] eqn:Ec.
          inversion Eb; subst. cbn [Proofs11f.Lop] in H2. destruct H2 as [ss2 [-> F2]]. exists ss2. split; [reflexivity |].
          apply (Forall_impl' (Lop oc)); [| exact F2]. intros v' Hv'. apply (Hcomp HNull (if Nat.eqb (minlen c) 0 then S id else id)). rewrite Ec. exact Hv'.
        - destruct (compile w cap c HOther (if Nat.eqb (minlen c) 0 then S id else id)) as [oc id2] eqn:Ec.
          inversion Eb; subst. cbn [Proofs11f.Lop] in H2. destruct H2 as [ss2 [-> F2]]. exists ss2. split; [reflexivity |].
          apply (Forall_impl' (Lop oc)); [| exact F2]. intros v' Hv'. apply (Hcomp HOther (if Nat.eqb (minlen c) 0 then S id else id)). rewrite Ec. exact Hv'. }
      destruct Hs as [ss2 [-> F2]]. exists (ss ++ ss2). rewrite concat_app. split; [reflexivity |].
      split; [apply Forall_app; auto |]. rewrite app_length. cbn. split; [lia | exact I].
  - (* group *)
    cbn [tok_wfb re_of_tok_d] in *. cbn [compile] in H. destruct cap.
    + destruct (compile w true t HOther id) as [o1 id1] eqn:E. cbn [fst Proofs11f.Lop] in H.
      destruct H as [v1 [v2 [-> [-> [v3 [v4 [-> [H3 ->]]]]]]]]. cbn. rewrite app_nil_r.
      apply (IH Hwf HOther id). rewrite E. exact H3.
    + exact (IH Hwf nh id v H).
Qed.

End CompileSound.

(** T11_match_sound *)
Theorem xmatch_tok_sound : forall w fuel t s, tok_wfb t = true ->
  xmatch_tok w fuel t s = XTrue -> Lre (re_of_tok (fx_dot w) t) s.
Proof.
  intros w fuel t s Hwf H. unfold xmatch_tok in H.
  destruct (compile w false t HNull 0) as [o nclos] eqn:Ec.
  destruct (omatch w false false s fuel o (fun o' st' => MR (Some o') st') 0 (repeat None nclos)) as [|[e|] st'] eqn:Em; try discriminate.
  destruct (Nat.eqb e (length s)) eqn:Ee; [| discriminate]. apply Nat.eqb_eq in Ee.
  destruct (omatch_sound w false false s _ _ _ _ _ _ _ Em) as [m [stm [st'' [[v [rest [E [Hv Hm]]]] Hk]]]].
  inversion Hk; subst m. cbn in E. subst s. rewrite app_length in Ee. cbn in Ee.
  assert (rest = []) by (destruct rest; [reflexivity | cbn in Ee; lia]). subst rest. rewrite app_nil_r.
  rewrite <- re_of_tok_d_eq. apply (compile_sound w false false false t Hwf HNull 0%nat). rewrite Ec. exact Hv.
Qed.

(** soundness of the search model: a window it reports is a word of the language *)
Theorem xsearch_tok_sound : forall w fuel sl t s a b, tok_wfb t = true ->
  xsearch_tok w fuel sl t s = SFound a b ->
  exists v rest, skipn a s = v ++ rest /\ b = (a + length v)%nat /\ Lre (re_of_tok_d (xp_dot (fx_dot w) sl) t) v.
Proof.
  intros w fuel sl t s a b Hwf H. unfold xsearch_tok in H.
  destruct (Nat.ltb (units_of s) (minlen_u t)); [discriminate |].
  destruct (compile w true t HNull 0) as [o nclos] eqn:Ec.
  assert (G : forall run ok n start, search_go run ok n start = SFound a b -> exists st', run a = MR (Some b) st').
  { intros run ok. induction n as [|n IH]; intros start Hg; cbn [search_go] in Hg; destruct (negb (ok start)); try discriminate.
    - destruct (run start) as [|[e|] st'] eqn:Em; try discriminate. inversion Hg; subst. eauto.
    - destruct (run start) as [|[e|] st'] eqn:Em; try discriminate.
      + inversion Hg; subst. eauto.
      + exact (IH _ Hg). }
  destruct (G _ _ _ _ H) as [st' Em]. cbn beta in Em.
  destruct (omatch_sound w true sl s _ _ _ _ _ _ _ Em) as [m [stm [st'' [[v [rest [E [Hv Hm]]]] Hk]]]].
  inversion Hk; subst m. exists v, rest. split; [exact E |]. split; [symmetry; assumption |].
  apply (compile_sound w true true sl t Hwf HNull 0%nat). rewrite Ec. exact Hv.
Qed.
