(** Executable model of the pre-filters RegularExpression::prepare computes for the non-schema API (no proofs here):
    - Token::analyzeFirstCharacter  (src/xercesc/util/regx/Token.cpp)  -> fFirstChar
    - Token::getMinLength is [Model11.minlen_u]                          -> fMinLength
    - the scan loop of RegularExpression::matches with the head-character test
      ([if (!context.nextCh(ch, chPos)) continue; if (!range->match(ch)) continue;])
    Not modelled: option IGNORE_CASE (the case-insensitive twin of the set), T_ANCHOR / T_BACKREFERENCE / non-greedy
    closures (not part of [tok]), the Boyer-Moore fixed-string filter, the leading ".*" special case (finding F37). *)
From XV Require Export C11.Model11.
Local Open Scope N_scope.

Inductive fcres : Type := FC_CONTINUE | FC_TERMINAL | FC_ANY.

(** the RangeToken of a T_RANGE node of the token tree (sorted and compacted by the parser; no array = no range) *)
Definition tok_rt (r : list rng) : rtok :=
  mkR r true true (2 * length r)%nat (match r with [] => false | _ => true end).

Section FirstChar.
Variable fx : bool.      (* fx_add: which addRange the tree under test has *)

(** Token::analyzeFirstCharacter(rangeTok, options, tokFactory) without IGNORE_CASE; [acc] is rangeTok.
    When the answer is FC_ANY it propagates to the top and the set is discarded (prepare keeps fFirstChar = 0), so
    the accumulator is returned as it is in those branches.  T_NRANGE merges the complement, then FALLS THROUGH the
    T_PAREN case (a RangeToken has no child) into T_BACKREFERENCE: the whole range is added and the answer is FC_ANY. *)
Fixpoint fc_tok (t : tok) (acc : rtok) {struct t} : fcres * rtok :=
  match t with
  | TEmpty => (FC_CONTINUE, acc)
  | TDot => (FC_ANY, acc)
  | TChar c => (FC_TERMINAL, addRange fx acc c c)
  | TString s => (FC_TERMINAL, addRange fx acc (str_first_cp s) (str_first_cp s))
  | TRange false r => (FC_TERMINAL, mergeRanges acc (tok_rt r))
  | TRange true r => (FC_ANY, acc)
  | TParen c => fc_tok c acc
  | TClosure _ _ c =>
      match fc_tok c acc with
      | (FC_ANY, a) => (FC_ANY, a)
      | (_, a) => (FC_CONTINUE, a)
      end
  | TConcat l =>
      (fix go (l : list tok) (acc : rtok) : fcres * rtok :=
         match l with
         | [] => (FC_CONTINUE, acc)
         | x :: r => match fc_tok x acc with
                     | (FC_CONTINUE, a) => go r a
                     | other => other
                     end
         end) l acc
  | TUnion l =>
      match l with
      | [] => (FC_CONTINUE, acc)
      | _ =>
        (fix go (l : list tok) (acc : rtok) (hasEmpty : bool) : fcres * rtok :=
           match l with
           | [] => (if hasEmpty then FC_CONTINUE else FC_TERMINAL, acc)
           | x :: r => match fc_tok x acc with
                       | (FC_ANY, a) => (FC_ANY, a)
                       | (FC_CONTINUE, a) => go r a true
                       | (FC_TERMINAL, a) => go r a hasEmpty
                       end
           end) l acc false
      end
  end.

(** prepare(): [if (result == FC_TERMINAL) { rangeTok->compactRanges(); fFirstChar = rangeTok; }] *)
Definition first_char (t : tok) : option (list rng) :=
  match fc_tok t rt_new with
  | (FC_TERMINAL, acc) => Some (rs (compactRanges acc))
  | _ => None
  end.

End FirstChar.

(** the scan loop with the head-character test: [pass start] = nextCh succeeds at [start] and the set matches *)
Fixpoint search_fc (run : nat -> mres) (ok pass : nat -> bool) (n : nat) (start : nat) : sres :=
  if negb (ok start) then SNone else
  let next := match n with O => SNone | S n' => search_fc run ok pass n' (S start) end in
  if negb (pass start) then next else
  match run start with
  | MFuel => SDiverge
  | MR (Some e) _ => SFound start e
  | MR None _ => next
  end.

Definition fc_pass (fcs : list rng) (s : list N) (start : nat) : bool :=
  match nth_error s start with
  | Some x => negb (is_surrogate x) && rt_match false fcs x
  | None => false
  end.

(** RegularExpression::matches outside schema mode WITH the minimum-length and head-character pre-filters
    (options without F handled elsewhere; without H, i) *)
Definition xsearch_fc (w : sw) (fuel : nat) (sl : bool) (t : tok) (s : list N) : sres :=
  if Nat.ltb (units_of s) (minlen_u t) then SNone else
  let (o, nclos) := compile w true t HNull 0 in
  let run := fun start => omatch w true sl s fuel o (fun o' st' => MR (Some o') st') start (repeat None nclos) in
  let ok := fun start => Nat.leb (units_of (firstn start s)) (units_of s - minlen_u t) in
  match first_char (fx_add w) t with
  | Some fcs => search_fc run ok (fc_pass fcs s) (length s) 0%nat
  | None => search_go run ok (length s) 0%nat
  end.

(** what the harness reads back: fMinLength and fFirstChar of a compiled expression *)
Inductive prep : Type := Prep (minl : nat) (fcs : option (list rng)).
Definition prepare_info (w : sw) (t : tok) : prep := Prep (minlen_u t) (first_char (fx_add w) t).
