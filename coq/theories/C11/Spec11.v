(** Specification for C11: regular expressions of the XML-Schema dialect and the language they denote.
    Nothing here mentions the C++.  Characters are code points ([N]); a string is a [list N].

    - [cset]   : character-class syntax (ranges, union, subtraction, negation within 0..0x10FFFF, named sets)
    - [re]     : expression syntax (sets, concatenation, alternation, {n,m} / {n,} repetition;  ? * + are instances)
    - [Lre]    : the denotational language
    - [dmatch_re] : a matcher by Brzozowski derivatives, proved equal to [Lre] in Proofs11a.v *)
From XV Require Export Base.XDefs.
Local Open Scope N_scope.

Definition max_cp : N := 0x10FFFF.

(** ** character classes *)
Inductive cset : Type :=
| CEmpty
| CRange (lo hi : N)
| CUnion (a b : cset)
| CDiff (a b : cset)          (* [a-[b]] *)
| CNeg (a : cset)             (* [^a]: complement within 0..0x10FFFF *)
| CNamed (k : N).             (* \s \S \d \D \w \W \i \I \c \C by the ASCII code of the letter *)

(** [named k c]: membership in the multi-character escape \k.  It is a parameter of the specification (the full
    sets come from the XML 1.0 / Unicode tables); its ASCII part is fixed by [named_ascii] below. *)
Fixpoint cs_mem (named : N -> N -> bool) (cs : cset) (c : N) : bool :=
  match cs with
  | CEmpty => false
  | CRange lo hi => (lo <=? c) && (c <=? hi)
  | CUnion a b => cs_mem named a c || cs_mem named b c
  | CDiff a b => cs_mem named a c && negb (cs_mem named b c)
  | CNeg a => (c <=? max_cp) && negb (cs_mem named a c)
  | CNamed k => named k c
  end.

(** the ASCII part of the multi-character escapes, concretely (XML Schema Part 2, appendix F.1.1;
    XML 1.0 productions [3] S, [4] NameChar, [5] Name, Unicode general categories for \d and \w) *)
Definition in_rng (lo hi c : N) : bool := (lo <=? c) && (c <=? hi).
Definition ascii_letter (c : N) : bool := in_rng 65 90 c || in_rng 97 122 c.
Definition ascii_digit (c : N) : bool := in_rng 48 57 c.
Definition named_ascii (k c : N) : bool :=
  match k with
  | 115 (* s *) => (c =? 32) || (c =? 9) || (c =? 10) || (c =? 13)
  | 100 (* d *) => ascii_digit c
  | 105 (* i *) => ascii_letter c || (c =? 95) || (c =? 58)
  | 99  (* c *) => ascii_letter c || ascii_digit c || (c =? 95) || (c =? 58) || (c =? 45) || (c =? 46)
  | 119 (* w *) => ascii_letter c || ascii_digit c ||
                   (* symbols (Sc, Sm, Sk) are word characters: $ + < = > ^ ` | ~ *)
                   (c =? 36) || (c =? 43) || in_rng 60 62 c || (c =? 94) || (c =? 96) || (c =? 124) || (c =? 126)
  | _ => false
  end.

(** ** expressions *)
Inductive re : Type :=
| REmp                                   (* no string *)
| REps                                   (* the empty string *)
| RSet (f : N -> bool)                   (* one character satisfying f *)
| RCat (a b : re)
| RAlt (a b : re)
| RRep (n : nat) (m : option nat) (a : re).   (* a{n,m} / a{n,} *)

Definition RStar (a : re) : re := RRep 0 None a.
Definition RPlus (a : re) : re := RRep 1 None a.
Definition ROpt (a : re) : re := RRep 0 (Some 1%nat) a.
Definition RChar (c : N) : re := RSet (N.eqb c).

Definition le_opt (k : nat) (m : option nat) : Prop := match m with Some m => (k <= m)%nat | None => True end.

(** the language of an expression *)
Fixpoint Lre (r : re) (s : list N) : Prop :=
  match r with
  | REmp => False
  | REps => s = []
  | RSet f => exists c, s = [c] /\ f c = true
  | RCat a b => exists s1 s2, s = s1 ++ s2 /\ Lre a s1 /\ Lre b s2
  | RAlt a b => Lre a s \/ Lre b s
  | RRep n m a => exists ss, s = concat ss /\ Forall (Lre a) ss /\ (n <= length ss)%nat /\ le_opt (length ss) m
  end.

(** ** matching by derivatives *)
(** core expressions: repetition reduced to star *)
Inductive cre : Type :=
| KEmp | KEps | KSet (f : N -> bool) | KCat (a b : cre) | KAlt (a b : cre) | KStar (a : cre).

Fixpoint kpow (a : cre) (n : nat) : cre := match n with O => KEps | S n' => KCat a (kpow a n') end.
(** a{0,k} as nested options: (a(a(...)?)?)? *)
Fixpoint kopt (a : cre) (k : nat) : cre := match k with O => KEps | S k' => KAlt KEps (KCat a (kopt a k')) end.

Fixpoint core (r : re) : cre :=
  match r with
  | REmp => KEmp
  | REps => KEps
  | RSet f => KSet f
  | RCat a b => KCat (core a) (core b)
  | RAlt a b => KAlt (core a) (core b)
  | RRep n None a => KCat (kpow (core a) n) (KStar (core a))
  | RRep n (Some m) a => if Nat.ltb m n then KEmp else KCat (kpow (core a) n) (kopt (core a) (m - n))
  end.

Fixpoint nullable (r : cre) : bool :=
  match r with
  | KEmp => false | KEps => true | KSet _ => false
  | KCat a b => nullable a && nullable b
  | KAlt a b => nullable a || nullable b
  | KStar _ => true
  end.

(** smart constructors keep the derivatives small *)
Definition kcat (a b : cre) : cre :=
  match a, b with
  | KEmp, _ => KEmp | _, KEmp => KEmp | KEps, _ => b | _, KEps => a | _, _ => KCat a b
  end.
Definition kalt (a b : cre) : cre :=
  match a, b with KEmp, _ => b | _, KEmp => a | _, _ => KAlt a b end.

Fixpoint deriv (c : N) (r : cre) : cre :=
  match r with
  | KEmp => KEmp | KEps => KEmp
  | KSet f => if f c then KEps else KEmp
  | KCat a b => if nullable a then kalt (kcat (deriv c a) b) (deriv c b) else kcat (deriv c a) b
  | KAlt a b => kalt (deriv c a) (deriv c b)
  | KStar a => kcat (deriv c a) (KStar a)
  end.

Fixpoint dmatch (r : cre) (s : list N) : bool :=
  match s with [] => nullable r | c :: s' => dmatch (deriv c r) s' end.

Definition dmatch_re (r : re) (s : list N) : bool := dmatch (core r) s.

(** ** general categories (XML Schema Part 2, F.1.1 "Category Escapes")
    The 30 general categories in the numbering of the Unicode character database / ICU UCharCategory, with their
    two-letter names; the one-letter escape \p{X} is the union of the categories whose name starts with X.
    Which category a code point has is a parameter ([catf], from the Unicode tables). *)
Definition std_cat_names : list (list N) :=
  [[67; 110]; [76; 117]; [76; 108]; [76; 116]; [76; 109]; [76; 111]; [77; 110]; [77; 101]; [77; 99]; [78; 100];
   [78; 108]; [78; 111]; [90; 115]; [90; 108]; [90; 112]; [67; 99]; [67; 102]; [67; 111]; [67; 115]; [80; 100];
   [80; 115]; [80; 101]; [80; 99]; [80; 111]; [83; 109]; [83; 99]; [83; 107]; [83; 111]; [80; 105]; [80; 102]].
   (* Cn Lu Ll Lt Lm Lo Mn Me Mc Nd Nl No Zs Zl Zp Cc Cf Co Cs Pd Ps Pe Pc Po Sm Sc Sk So Pi Pf *)
Definition major_names : list N := [76; 77; 78; 90; 67; 80; 83].     (* L M N Z C P S *)

Definition major_of_cat (k : N) : N := match nth (N.to_nat k) std_cat_names [] with c :: _ => c | [] => 0 end.

(** [spec_cat_pred idx k]: does category [k] belong to the escape number [idx] (0..29 two-letter, 30..36 one-letter)? *)
Definition spec_cat_pred (idx k : N) : bool :=
  if idx <? 30 then k =? idx else major_of_cat k =? nth (N.to_nat (idx - 30)) major_names 0.
Definition spec_cat_mem (catf : N -> N) (idx c : N) : bool := spec_cat_pred idx (catf c).

(** \w = [#x0000-#x10FFFF]-[\p{P}\p{Z}\p{C}],  \d = \p{Nd} *)
Definition spec_word_pred (k : N) : bool :=
  let m := major_of_cat k in negb ((m =? 80) || (m =? 90) || (m =? 67)).
Definition spec_digit_pred (k : N) : bool := k =? 9.

(** the category map as a run-length list (start, end, category); 0 = Cn outside the map *)
Definition run_rng (r : N * N * N) : N * N := (fst (fst r), snd (fst r)).
Definition run_cat (r : N * N * N) : N := snd r.
Definition cat_of (rle : list (N * N * N)) (c : N) : N :=
  match find (fun r => (fst (run_rng r) <=? c) && (c <=? snd (run_rng r))) rle with Some r => run_cat r | None => 0 end.
