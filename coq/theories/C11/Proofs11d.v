(** Range algebra, part 2: subtractRanges, intersectRanges, complementRanges denote the set operations; array bounds. *)
From Coq Require Import Arith PeanoNat ZArith ZifyBool ZifyN ZifyNat Lia.
From XV Require Import C11.ModelRange11 C11.Proofs11b.
Local Open Scope N_scope.

(** "every range of [l] lies strictly above [v]" in the form the proofs use *)
Definition above (v : N) (l : list rng) : Prop := forall c, c <= v -> rmem l c = false.

Lemma above_true : forall v l c, above v l -> rmem l c = true -> v < c.
Proof.
  intros v l c A H. destruct (N.leb_spec c v) as [L | L]; [| exact L]. rewrite (A c L) in H. discriminate.
Qed.

Lemma above_nil : forall v, above v [].
Proof. intros v c _. reflexivity. Qed.

Lemma compact_ok_cons : forall lo hi r, compact_ok ((lo, hi) :: r) = true ->
  lo <= hi /\ compact_ok r = true /\ above (hi + 1) r.
Proof.
  intros lo hi r H. destruct (compact_ok_tail lo hi r H) as [H1 H2]. split; [| split; [exact H1 | exact H2]].
  cbn [compact_ok] in H. apply andb_true_iff in H. destruct H as [H _]. lia.
Qed.

Lemma above_weaken : forall v w l, w <= v -> above v l -> above w l.
Proof. intros v w l L A c Hc. apply A. lia. Qed.

Ltac abv A E H := pose proof (above_true _ _ _ A E) as H.

(* ---------------------------------------------------------------------------------------------- *)
(** * subtractRanges *)
Section Sub.
Variable c : N.

Lemma sub_inner_spec : forall (rec : list rng -> list rng) se src',
  above (se + 1) src' ->
  (forall sub, compact_ok sub = true -> rmem (rec sub) c = rmem src' c && negb (rmem sub c)) ->
  forall sub sb, sb <= se -> compact_ok sub = true ->
  rmem (sub_inner rec se src' sb sub) c = (in_pair c (sb, se) || rmem src' c) && negb (rmem sub c).
Proof.
  intros rec se src' Asrc Hrec. induction sub as [|[ub ue] sub' IH]; intros sb Hsb Hc; cbn [sub_inner].
  - rewrite rmem_cons. cbn. rewrite andb_true_r. reflexivity.
  - destruct (compact_ok_cons ub ue sub' Hc) as [Hu [Hc' Asub]].
    pose proof (Hrec _ Hc) as R. rewrite rmem_cons in R.
    assert (P : forall sb', sb' <= se ->
              rmem (sub_inner rec se src' sb' sub') c = (in_pair c (sb', se) || rmem src' c) && negb (rmem sub' c))
      by (intros sb' H'; apply IH; assumption).
    rewrite !rmem_cons with (x := (ub, ue)).
    destruct (se <? ub) eqn:E1.
    + rewrite rmem_cons, R. unfold in_pair. cbn [fst snd].
      destruct (rmem src' c) eqn:Es; destruct (rmem sub' c) eqn:Eu;
        try (abv Asrc Es Hs); try (abv Asub Eu Hq); clear IH Hrec P R Asrc Asub Hc Hc'; lia.
    + destruct ((ub <=? se) && (sb <=? ue)) eqn:E2.
      * destruct ((ub <=? sb) && (se <=? ue)) eqn:E3.
        -- rewrite R. unfold in_pair. cbn [fst snd].
           destruct (rmem src' c) eqn:Es; destruct (rmem sub' c) eqn:Eu;
             try (abv Asrc Es Hs); try (abv Asub Eu Hq); clear IH Hrec P R Asrc Asub Hc Hc'; lia.
        -- destruct (ub <=? sb) eqn:E4.
           ++ rewrite P by lia. unfold in_pair. cbn [fst snd].
              destruct (rmem src' c) eqn:Es; destruct (rmem sub' c) eqn:Eu;
                try (abv Asrc Es Hs); try (abv Asub Eu Hq); clear IH Hrec P R Asrc Asub Hc Hc'; lia.
           ++ destruct (se <=? ue) eqn:E5.
              ** rewrite rmem_cons, R. unfold in_pair. cbn [fst snd].
                 destruct (rmem src' c) eqn:Es; destruct (rmem sub' c) eqn:Eu;
                   try (abv Asrc Es Hs); try (abv Asub Eu Hq); clear IH Hrec P R Asrc Asub Hc Hc'; lia.
              ** rewrite rmem_cons, P by lia. unfold in_pair. cbn [fst snd].
                 destruct (rmem src' c) eqn:Es; destruct (rmem sub' c) eqn:Eu;
                   try (abv Asrc Es Hs); try (abv Asub Eu Hq); clear IH Hrec P R Asrc Asub Hc Hc'; lia.
      * rewrite P by lia. unfold in_pair. cbn [fst snd].
        destruct (rmem src' c) eqn:Es; destruct (rmem sub' c) eqn:Eu;
          try (abv Asrc Es Hs); try (abv Asub Eu Hq); clear IH Hrec P R Asrc Asub Hc Hc'; lia.
Qed.

Lemma sub_go_spec : forall a b, compact_ok a = true -> compact_ok b = true ->
  rmem (sub_go a b) c = rmem a c && negb (rmem b c).
Proof.
  induction a as [|[sb0 se] src' IH]; intros b Ha Hb.
  - reflexivity.
  - destruct (compact_ok_cons sb0 se src' Ha) as [H0 [Ha' Asrc]]. cbn [sub_go].
    rewrite sub_inner_spec; try assumption.
    + rewrite rmem_cons. reflexivity.
    + intros sub Hs. apply IH; assumption.
Qed.

(** * intersectRanges *)
Lemma int_inner_spec : forall (rec : list rng -> list rng) se src',
  above (se + 1) src' ->
  (forall tk, compact_ok tk = true -> rmem (rec tk) c = rmem src' c && rmem tk c) ->
  forall tk sb, sb <= se -> compact_ok tk = true ->
  rmem (int_inner rec se sb tk) c = (in_pair c (sb, se) || rmem src' c) && rmem tk c.
Proof.
  intros rec se src' Asrc Hrec. induction tk as [|[tb te] tk' IH]; intros sb Hsb Hc; cbn [int_inner].
  - cbn. rewrite andb_false_r. reflexivity.
  - destruct (compact_ok_cons tb te tk' Hc) as [Hu [Hc' Atk]].
    pose proof (Hrec _ Hc) as R. rewrite rmem_cons in R.
    assert (P : forall sb', sb' <= se ->
              rmem (int_inner rec se sb' tk') c = (in_pair c (sb', se) || rmem src' c) && rmem tk' c)
      by (intros sb' H'; apply IH; assumption).
    rewrite !rmem_cons with (x := (tb, te)).
    destruct (se <? tb) eqn:E1.
    + rewrite R. unfold in_pair. cbn [fst snd].
      destruct (rmem src' c) eqn:Es; destruct (rmem tk' c) eqn:Eu;
        try (abv Asrc Es Hs); try (abv Atk Eu Hq); clear IH Hrec P R Asrc Atk Hc Hc'; lia.
    + destruct ((tb <=? se) && (sb <=? te)) eqn:E2.
      * destruct ((tb <=? sb) && (se <=? te)) eqn:E3.
        -- rewrite rmem_cons, R. unfold in_pair. cbn [fst snd].
           destruct (rmem src' c) eqn:Es; destruct (rmem tk' c) eqn:Eu;
             try (abv Asrc Es Hs); try (abv Atk Eu Hq); clear IH Hrec P R Asrc Atk Hc Hc'; lia.
        -- destruct (tb <=? sb) eqn:E4.
           ++ rewrite rmem_cons, P by lia. unfold in_pair. cbn [fst snd].
              destruct (rmem src' c) eqn:Es; destruct (rmem tk' c) eqn:Eu;
                try (abv Asrc Es Hs); try (abv Atk Eu Hq); clear IH Hrec P R Asrc Atk Hc Hc'; lia.
           ++ destruct (se <=? te) eqn:E5.
              ** rewrite rmem_cons, R. unfold in_pair. cbn [fst snd].
                 destruct (rmem src' c) eqn:Es; destruct (rmem tk' c) eqn:Eu;
                   try (abv Asrc Es Hs); try (abv Atk Eu Hq); clear IH Hrec P R Asrc Atk Hc Hc'; lia.
              ** rewrite rmem_cons, P by lia. unfold in_pair. cbn [fst snd].
                 destruct (rmem src' c) eqn:Es; destruct (rmem tk' c) eqn:Eu;
                   try (abv Asrc Es Hs); try (abv Atk Eu Hq); clear IH Hrec P R Asrc Atk Hc Hc'; lia.
      * rewrite P by lia. unfold in_pair. cbn [fst snd].
        destruct (rmem src' c) eqn:Es; destruct (rmem tk' c) eqn:Eu;
          try (abv Asrc Es Hs); try (abv Atk Eu Hq); clear IH Hrec P R Asrc Atk Hc Hc'; lia.
Qed.

Lemma int_go_spec : forall a b, compact_ok a = true -> compact_ok b = true ->
  rmem (int_go a b) c = rmem a c && rmem b c.
Proof.
  induction a as [|[sb0 se] src' IH]; intros b Ha Hb.
  - reflexivity.
  - destruct (compact_ok_cons sb0 se src' Ha) as [H0 [Ha' Asrc]]. cbn [int_go].
    rewrite (int_inner_spec (int_go src') se src'); try assumption.
    + rewrite rmem_cons. reflexivity.
    + intros tk Hs. apply IH; assumption.
Qed.
End Sub.

(** lengths: at most one result pair per source pair plus one per pair of the other token *)
Lemma sub_inner_len : forall (rec : list rng -> list rng) se src',
  (forall sub, length (rec sub) <= length src' + length sub)%nat ->
  forall sub sb, (length (sub_inner rec se src' sb sub) <= 1 + length src' + length sub)%nat.
Proof.
  unfold rng in *. intros rec se src' Hrec. induction sub as [|[ub ue] sub' IH]; intros sb; cbn [sub_inner].
  - cbn. lia.
  - pose proof (Hrec ((ub, ue) :: sub')) as R. cbn [length] in R |- *.
    destruct (se <? ub); [cbn [length]; lia |].
    destruct ((ub <=? se) && (sb <=? ue)).
    + destruct ((ub <=? sb) && (se <=? ue)); [lia |].
      destruct (ub <=? sb); [specialize (IH (ue + 1)); lia |].
      destruct (se <=? ue); cbn [length]; [lia | specialize (IH (ue + 1)); lia].
    + specialize (IH sb). lia.
Qed.

Lemma sub_go_len : forall a b, (length (sub_go a b) <= length a + length b)%nat.
Proof.
  induction a as [|[sb0 se] src' IH]; intros b; [cbn; lia |]. cbn [sub_go length].
  pose proof (sub_inner_len (sub_go src') se src' IH b sb0). lia.
Qed.

Lemma int_inner_len : forall (rec : list rng -> list rng) se (n : nat),
  (forall tk, length (rec tk) <= n + length tk)%nat ->
  forall tk sb, (length (int_inner rec se sb tk) <= 1 + n + length tk)%nat.
Proof.
  unfold rng in *. intros rec se n Hrec. induction tk as [|[tb te] tk' IH]; intros sb; cbn [int_inner].
  - cbn. lia.
  - pose proof (Hrec ((tb, te) :: tk')) as R. cbn [length] in R |- *.
    destruct (se <? tb); [lia |].
    destruct ((tb <=? se) && (sb <=? te)).
    + destruct ((tb <=? sb) && (se <=? te)); [cbn [length]; lia |].
      destruct (tb <=? sb); [cbn [length]; specialize (IH (te + 1)); lia |].
      destruct (se <=? te); cbn [length]; [lia | specialize (IH (te + 1)); lia].
    + specialize (IH sb). lia.
Qed.

Lemma int_go_len : forall a b, (length (int_go a b) <= length a + length b)%nat.
Proof.
  induction a as [|[sb0 se] src' IH]; intros b; [cbn; lia |]. cbn [int_go length].
  pose proof (int_inner_len (int_go src') se (length src') IH b sb0). lia.
Qed.

(* ---------------------------------------------------------------------------------------------- *)
(** * token level: the flags mean what they say *)
Definition rt_inv (t : rtok) : Prop :=
  rt_wf t /\ (srt t = true -> lo_sorted 0 (rs t) = true) /\ (cmpd t = true -> compact_ok (rs t) = true) /\
  (cmpd t = true -> srt t = false -> alloc t = false).

Lemma pairs_ok_rinsert : forall x l, pairs_ok (rinsert x l) = (fst x <=? snd x) && pairs_ok l.
Proof.
  intros x l. induction l as [|y l IH]; [reflexivity |]. cbn [rinsert]. destruct (rlt y x).
  - change (pairs_ok (y :: rinsert x l)) with ((fst y <=? snd y) && pairs_ok (rinsert x l)). rewrite IH.
    change (pairs_ok (y :: l)) with ((fst y <=? snd y) && pairs_ok l).
    destruct (fst y <=? snd y), (fst x <=? snd x), (pairs_ok l); reflexivity.
  - reflexivity.
Qed.

Lemma pairs_ok_rsort : forall l, pairs_ok (rsort l) = pairs_ok l.
Proof.
  induction l as [|x l IH]; [reflexivity |]. cbn [rsort]. rewrite pairs_ok_rinsert, IH. reflexivity.
Qed.

Lemma length_rsort : forall l, length (rsort l) = length l.
Proof.
  induction l as [|x l IH]; [reflexivity |]. cbn [rsort].
  assert (Hi : forall y m, length (rinsert y m) = S (length m)).
  { intros y m. induction m as [|z m IHm]; [reflexivity |]. cbn [rinsert]. destruct (rlt z y); cbn [length]; [rewrite IHm |]; reflexivity. }
  rewrite Hi, IH. reflexivity.
Qed.

Lemma sorted_lo_sorted : forall l v, sorted_ok l = true -> pairs_ok l = true ->
  (match l with [] => True | x :: _ => v <= fst x end) -> lo_sorted v l = true.
Proof.
  induction l as [|[lo hi] r IH]; intros v Hs Hp Hv; [reflexivity |].
  change (pairs_ok ((lo, hi) :: r)) with ((lo <=? hi) && pairs_ok r) in Hp. apply andb_true_iff in Hp. destruct Hp as [Hp Hpr].
  cbn [lo_sorted]. cbn [fst] in Hv.
  destruct r as [|[lo2 hi2] r2].
  - cbn. lia.
  - cbn [sorted_ok] in Hs. apply andb_true_iff in Hs. destruct Hs as [Hle Hs].
    rewrite (IH lo Hs Hpr).
    + lia.
    + cbn [fst]. unfold rle, rlt in Hle. cbn [fst snd] in Hle. lia.
Qed.

Lemma lo_sorted_pairs : forall l v, lo_sorted v l = true -> pairs_ok l = true.
Proof.
  induction l as [|[lo hi] r IH]; intros v H; [reflexivity |]. cbn [lo_sorted] in H.
  apply andb_true_iff in H. destruct H as [H Hr]. apply andb_true_iff in H. destruct H as [_ H].
  change (pairs_ok ((lo, hi) :: r)) with ((lo <=? hi) && pairs_ok r). rewrite (IH lo Hr). lia.
Qed.

Record normal (t u : rtok) : Prop := mkNormal {
  n_compact : compact_ok (rs u) = true;
  n_set : forall c, rmem (rs u) c = rmem (rs t) c;
  n_alloc : alloc u = alloc t;
  n_len : (length (rs u) <= length (rs t))%nat;
  n_max : maxc u = maxc t;
  n_empty : alloc u = false -> rs u = [] }.

Lemma compact_list_len : forall l, (length (compact_list l) <= length l)%nat.
Proof. intros [|[lo hi] r]; [cbn; lia |]. cbn [compact_list length]. apply length_compact_go. Qed.

(** sortRanges followed by compactRanges (the preamble of subtract / intersect / complement) *)
Lemma norm_spec : forall t, rt_inv t -> normal t (compactRanges (sortRanges t)).
Proof.
  intros t [[W1 [W2 W3]] [Is [Ic Ics]]].
  assert (S : exists u, sortRanges t = u /\ lo_sorted 0 (rs u) = true /\ (forall c, rmem (rs u) c = rmem (rs t) c) /\
              alloc u = alloc t /\ length (rs u) = length (rs t) /\ maxc u = maxc t /\
              (cmpd u = true -> compact_ok (rs u) = true) /\ (alloc u = false -> rs u = [])).
  { unfold sortRanges. destruct (srt t) eqn:Es; cbn [orb].
    - exists t. repeat split; auto.
    - destruct (alloc t) eqn:Ea; cbn [negb].
      + eexists. split; [reflexivity |]. cbn [rs alloc maxc cmpd].
        split; [apply sorted_lo_sorted; [apply sorted_rsort | rewrite pairs_ok_rsort; exact W3 | destruct (rsort (rs t)); [exact I | lia]] |].
        split; [intros c; apply rmem_rsort |]. split; [reflexivity |]. split; [apply length_rsort |]. split; [reflexivity |].
        split; [| discriminate]. intros Hc. specialize (Ics Hc eq_refl). discriminate.
      + exists t. rewrite (W2 eq_refl). repeat split; auto. }
  destruct S as [u [-> [Hs [Hset [Ha [Hl [Hm [Hcu He]]]]]]]].
  unfold compactRanges. destruct (cmpd u) eqn:Ec; cbn [orb].
  - constructor; [exact (Hcu eq_refl) | exact Hset | exact Ha | (rewrite Hl; apply Nat.le_refl) | exact Hm | exact He].
  - destruct (alloc u) eqn:Eu; cbn [negb orb].
    + destruct (Nat.leb (elemc u) 2) eqn:E2.
      * constructor; [| exact Hset | rewrite Eu; exact Ha | (rewrite Hl; apply Nat.le_refl) | exact Hm | rewrite Eu; discriminate].
        unfold elemc in E2. apply Nat.leb_le in E2.
        destruct (rs u) as [|[lo hi] [|y r]]; [reflexivity | | cbn in E2; lia].
        cbn [lo_sorted] in Hs. cbn. lia.
      * destruct (compact_list_spec (rs u) 0 Hs) as [_ Hok].
        constructor; cbn [rs alloc maxc].
        -- exact Hok.
        -- intros c. destruct (compact_list_spec (rs u) c Hs) as [Hm' _]. rewrite Hm'. apply Hset.
        -- exact Ha.
        -- eapply Nat.le_trans; [apply compact_list_len | rewrite Hl; apply Nat.le_refl].
        -- exact Hm.
        -- discriminate.
    + constructor; [rewrite (He eq_refl); reflexivity | exact Hset | rewrite Eu; exact Ha | (rewrite Hl; apply Nat.le_refl) | exact Hm | intros _; exact (He eq_refl)].
Qed.

Theorem subtractRanges_spec : forall t o c, rt_inv t -> rt_inv o ->
  rmem (rs (subtractRanges t o false)) c = rmem (rs t) c && negb (rmem (rs o) c).
Proof.
  intros t o c It Io. pose proof (norm_spec t It) as Nt. pose proof (norm_spec o Io) as No.
  destruct It as [[_ [Wt _]] _]. destruct Io as [[_ [Wo _]] _].
  unfold subtractRanges. destruct (alloc t) eqn:Et; cbn [negb orb].
  - destruct (alloc o) eqn:Eo; cbn [negb].
    + cbn [rs]. rewrite sub_go_spec; [| apply Nt | apply No]. rewrite (n_set _ _ Nt), (n_set _ _ No). reflexivity.
    + rewrite (Wo eq_refl). cbn. rewrite andb_true_r. reflexivity.
  - rewrite (Wt eq_refl). reflexivity.
Qed.

Theorem intersectRanges_spec : forall t o c, rt_inv t -> rt_inv o -> alloc t = true -> alloc o = true ->
  rmem (rs (intersectRanges t o)) c = rmem (rs t) c && rmem (rs o) c.
Proof.
  intros t o c It Io Et Eo. pose proof (norm_spec t It) as Nt. pose proof (norm_spec o Io) as No.
  unfold intersectRanges. rewrite Et, Eo. cbn [negb orb rs].
  rewrite int_go_spec; [| apply Nt | apply No]. rewrite (n_set _ _ Nt), (n_set _ _ No). reflexivity.
Qed.

(** subtracting a T_NRANGE token (which stands for the complement of its ranges) is the intersection with its ranges *)
Theorem subtractRanges_neg_spec : forall t o c, rt_inv t -> rt_inv o -> alloc t = true -> alloc o = true ->
  rmem (rs (subtractRanges t o true)) c = rmem (rs t) c && negb (negb (rmem (rs o) c)).
Proof.
  intros t o c It Io Et Eo. unfold subtractRanges. rewrite Et, Eo. cbn [negb orb].
  rewrite intersectRanges_spec by assumption. rewrite negb_involutive. reflexivity.
Qed.

(** capacity: the result fits the array size the C++ allocates *)
Lemma new_max_ge : forall t o, cap_ok t -> cap_ok o -> (elemc t + elemc o <= new_max t o)%nat.
Proof.
  intros t o Ht Ho. unfold new_max, cap_ok in *. destruct (Nat.leb (maxc t) (elemc t + elemc o)) eqn:E.
  - lia.
  - apply Nat.leb_gt in E. lia.
Qed.

Lemma normal_cap : forall t u, normal t u -> cap_ok t -> cap_ok u.
Proof. intros t u N H. unfold cap_ok, elemc in *. rewrite (n_max _ _ N). pose proof (n_len _ _ N). lia. Qed.

Theorem subtractRanges_cap : forall t o oneg, rt_inv t -> rt_inv o -> cap_ok t -> cap_ok o -> cap_ok (subtractRanges t o oneg).
Proof.
  intros t o oneg It Io Ht Ho. pose proof (norm_spec t It) as Nt. pose proof (norm_spec o Io) as No.
  pose proof (normal_cap _ _ Nt Ht) as Ct. pose proof (normal_cap _ _ No Ho) as Co.
  pose proof (new_max_ge _ _ Ct Co) as G.
  unfold subtractRanges, intersectRanges. destruct (negb (alloc t) || negb (alloc o)); [exact Ht |].
  destruct oneg; unfold cap_ok in *; cbn [maxc]; unfold elemc at 1; cbn [rs].
  - pose proof (int_go_len (rs (compactRanges (sortRanges t))) (rs (compactRanges (sortRanges o)))). unfold elemc in G. lia.
  - pose proof (sub_go_len (rs (compactRanges (sortRanges t))) (rs (compactRanges (sortRanges o)))). unfold elemc in G. lia.
Qed.

Theorem intersectRanges_cap : forall t o, rt_inv t -> rt_inv o -> cap_ok t -> cap_ok o -> cap_ok (intersectRanges t o).
Proof.
  intros t o It Io Ht Ho. pose proof (subtractRanges_cap t o true It Io Ht Ho) as H. unfold subtractRanges in H.
  unfold intersectRanges in *. destruct (negb (alloc t) || negb (alloc o)); [exact Ht | exact H].
Qed.
