(** Range algebra, part 4: the flags of a RangeToken stay truthful along the call sequences the library actually
    performs on a token that starts as [rt_new] (RegxParser::parseCharacterClass, Token::analyzeFirstCharacter):
    addRange (pinned and repaired) and mergeRanges preserve [rt_acc]: the ranges are sorted by start with lo <= hi,
    fSorted is set on every allocated token and fCompacted is still clear -- hence [rt_inv], the hypothesis of the
    subtract / intersect / complement theorems, holds at every such point ([rt_acc_inv]), and
    compactRanges (sortRanges t) is compact with the same members ([rt_acc_normal]). *)
From Coq Require Import Arith PeanoNat ZArith ZifyBool ZifyN ZifyNat Lia List.
From XV Require Import C11.ModelRange11 C11.Proofs11b C11.Proofs11d.
Local Open Scope N_scope.

Definition rt_acc (t : rtok) : Prop :=
  (alloc t = true -> rs t <> []) /\ (alloc t = false -> rs t = []) /\ lo_sorted 0 (rs t) = true /\
  cmpd t = false /\ (alloc t = true -> srt t = true).

Lemma rt_acc_new : rt_acc rt_new.
Proof. unfold rt_acc, rt_new. cbn. repeat split; try reflexivity; try discriminate. Qed.

Lemma rt_acc_wf : forall t, rt_acc t -> rt_wf t.
Proof. intros t [A [B [C _]]]. split; [exact A |]. split; [exact B | exact (lo_sorted_pairs _ _ C)]. Qed.

Lemma rt_acc_inv : forall t, rt_acc t -> rt_inv t.
Proof.
  intros t H. pose proof (rt_acc_wf t H) as W. destruct H as [A [B [C [D E]]]].
  split; [exact W |]. split; [intros _; exact C |]. split; intros X; rewrite D in X; discriminate.
Qed.

Lemma rt_acc_normal : forall t, rt_acc t -> normal t (compactRanges (sortRanges t)).
Proof. intros t H. apply norm_spec. apply rt_acc_inv. exact H. Qed.

(** a token that went through sort + compact may be used as a merge / first-character operand *)
Lemma lo_sorted_weaken : forall l p q, q <= p -> lo_sorted p l = true -> lo_sorted q l = true.
Proof. intros [|[lo hi] r] p q Hq H; [reflexivity |]. cbn [lo_sorted] in *. lia. Qed.

Lemma compact_lo_sorted : forall l p, compact_ok l = true -> (match l with [] => True | x :: _ => p <= fst x end) ->
  lo_sorted p l = true.
Proof.
  induction l as [|[lo hi] r IH]; intros p H Hp; [reflexivity |]. cbn [fst] in Hp.
  cbn [compact_ok] in H. cbn [lo_sorted]. destruct r as [|[lo2 hi2] r2].
  - cbn. lia.
  - apply andb_true_iff in H. destruct H as [H1 H2]. apply andb_true_iff in H2. destruct H2 as [H2 H3].
    rewrite (IH lo H3); [lia | cbn [fst]; lia].
Qed.

Definition all_lo_le (v : N) (l : list rng) : bool := forallb (fun p => fst p <=? v) l.

Lemma lo_sorted_app : forall l p v1 v2, lo_sorted p l = true -> all_lo_le v1 l = true -> p <= v1 -> v1 <= v2 ->
  lo_sorted p (l ++ [(v1, v2)]) = true.
Proof.
  induction l as [|[lo hi] r IH]; intros p v1 v2 H Ha Hp Hv.
  - cbn. lia.
  - cbn [app lo_sorted] in *. unfold all_lo_le in Ha. cbn [forallb fst] in Ha.
    apply andb_true_iff in Ha. destruct Ha as [Ha1 Ha2].
    apply andb_true_iff in H. destruct H as [H1 H2]. rewrite H1. cbn [andb].
    apply IH; [exact H2 | exact Ha2 | lia | exact Hv].
Qed.

Lemma lo_sorted_last : forall l p, lo_sorted p l = true -> l <> [] -> all_lo_le (last_hi l) l = true /\ p <= last_hi l.
Proof.
  induction l as [|[lo hi] r IH]; intros p H Hne; [congruence |].
  cbn [lo_sorted] in H. apply andb_true_iff in H. destruct H as [H1 H2].
  destruct r as [|y r].
  - unfold all_lo_le, last_hi. cbn. split; lia.
  - change (last_hi ((lo, hi) :: y :: r)) with (last_hi (y :: r)).
    destruct (IH lo H2 ltac:(discriminate)) as [A B]. split; [| lia].
    unfold all_lo_le in *. cbn [forallb fst]. rewrite andb_true_iff. split; [lia | exact A].
Qed.

Lemma all_lo_le_mono : forall l a b, a <= b -> all_lo_le a l = true -> all_lo_le b l = true.
Proof.
  intros l a b Hab H. unfold all_lo_le in *. rewrite forallb_forall in *. intros x Hx. specialize (H x Hx). lia.
Qed.

Lemma lo_sorted_set_last : forall l p v, lo_sorted p l = true -> last_hi l <= v -> lo_sorted p (set_last_hi l v) = true.
Proof.
  induction l as [|[lo hi] r IH]; intros p v H Hv; [reflexivity |].
  cbn [lo_sorted] in H. apply andb_true_iff in H. destruct H as [H1 H2].
  destruct r as [|y r].
  - unfold last_hi in Hv. cbn in Hv. cbn. lia.
  - change (set_last_hi ((lo, hi) :: y :: r) v) with ((lo, hi) :: set_last_hi (y :: r) v).
    change (last_hi ((lo, hi) :: y :: r)) with (last_hi (y :: r)) in Hv.
    cbn [lo_sorted]. rewrite H1. cbn [andb]. apply IH; assumption.
Qed.

Lemma set_last_hi_nonnil : forall l v, l <> [] -> set_last_hi l v <> [].
Proof. intros [|[lo hi] [|y r]] v H; [congruence | discriminate | discriminate]. Qed.

(** the insertion loop: a found slot keeps the order; running off the end means every start is <= v1 *)
Lemma add_sorted_sorted : forall l p v1 v2, lo_sorted p l = true -> p <= v1 -> v1 <= v2 ->
  match add_sorted l v1 v2 with
  | Some l' => lo_sorted p l' = true /\ l' <> []
  | None => all_lo_le v1 l = true
  end.
Proof.
  induction l as [|[lo hi] r IH]; intros p v1 v2 H Hp Hv; [reflexivity |].
  cbn [lo_sorted] in H. apply andb_true_iff in H. destruct H as [H1 H2]. cbn [add_sorted].
  destruct ((lo <=? v1) && (v2 <=? hi)) eqn:E1.
  - split; [| discriminate]. cbn [lo_sorted]. rewrite H1, H2. reflexivity.
  - destruct ((lo =? v1) && (hi <? v2)) eqn:E2.
    + split; [| discriminate]. cbn [lo_sorted]. rewrite H2. lia.
    + destruct ((v1 <? lo) || ((lo =? v1) && (v2 <? hi))) eqn:E3.
      * split; [| discriminate]. cbn [lo_sorted]. rewrite H2. lia.
      * assert (Hl : lo <= v1) by lia. specialize (IH lo v1 v2 H2 Hl Hv).
        destruct (add_sorted r v1 v2) as [r'|].
        -- destruct IH as [IH _]. split; [| discriminate]. cbn [lo_sorted]. rewrite IH. lia.
        -- unfold all_lo_le in *. cbn [forallb fst]. rewrite IH. lia.
Qed.

Lemma pairs_ok_app : forall a b, pairs_ok (a ++ b) = pairs_ok a && pairs_ok b.
Proof. intros a b. unfold pairs_ok. apply forallb_app. Qed.

Lemma rsort_nonnil : forall l, l <> [] -> rsort l <> [].
Proof. intros l H E. apply H. apply length_zero_iff_nil. rewrite <- (length_rsort l), E. reflexivity. Qed.

Theorem addRange_acc : forall fx t a b, rt_acc t -> rt_acc (addRange fx t a b).
Proof.
  intros fx t a b [A [B [C [D E]]]]. unfold addRange.
  set (v1 := if a <=? b then a else b). set (v2 := if a <=? b then b else a).
  assert (Hv : v1 <= v2) by (unfold v1, v2; destruct (a <=? b) eqn:Eab; lia).
  destruct (alloc t) eqn:Ea; cbn [negb].
  - specialize (A eq_refl). specialize (E eq_refl).
    destruct (lo_sorted_last (rs t) 0 C A) as [La Lb].
    destruct (last_hi (rs t) + 1 =? v1) eqn:E1.
    + unfold rt_acc. cbn [rs alloc srt cmpd].
      split; [intros _; apply set_last_hi_nonnil; exact A |]. split; [discriminate |].
      split; [apply lo_sorted_set_last; [exact C | lia] |]. split; [exact D | intros _; exact E].
    + rewrite E. cbn [andb]. destruct (v1 <=? last_hi (rs t)) eqn:E2.
      * pose proof (add_sorted_sorted (rs t) 0 v1 v2 C ltac:(lia) Hv) as S.
        destruct (add_sorted (rs t) v1 v2) as [l|].
        -- destruct S as [S1 S2]. unfold rt_acc. cbn [rs alloc srt cmpd]. repeat split; auto; discriminate.
        -- unfold rt_acc. cbn [rs alloc srt cmpd].
           split; [intros _; destruct fx; [destruct (rs t); discriminate | exact A] |]. split; [discriminate |].
           split; [| split; [exact D | reflexivity]].
           destruct fx; [| exact C]. apply lo_sorted_app; [exact C | exact S | lia | exact Hv].
      * unfold rt_acc. cbn [rs alloc srt cmpd].
        split; [intros _; destruct (rs t); discriminate |]. split; [discriminate |].
        split; [| split; [exact D | reflexivity]].
        apply lo_sorted_app; [exact C | | lia | exact Hv]. apply (all_lo_le_mono _ (last_hi (rs t))); [lia | exact La].
  - unfold rt_acc. cbn [rs alloc srt cmpd]. repeat split; try discriminate; auto. cbn. lia.
Qed.

Lemma lo_sorted_merge : forall a b p, lo_sorted p a = true -> lo_sorted p b = true -> lo_sorted p (merge_go a b) = true.
Proof.
  induction a as [|[xl xh] a IHa]; intros b p Ha Hb; [exact Hb |].
  revert p Ha Hb. induction b as [|[yl yh] b IHb]; intros p Ha Hb; [exact Ha |].
  cbn [merge_go]. destruct (rlt (yl, yh) (xl, xh)) eqn:E.
  - cbn [lo_sorted] in Hb |- *. apply andb_true_iff in Hb. destruct Hb as [Hb1 Hb2]. rewrite Hb1. cbn [andb].
    cbn [merge_go] in IHb. apply IHb; [| exact Hb2].
    cbn [lo_sorted] in Ha |- *. unfold rlt in E. cbn [fst snd] in E. lia.
  - cbn [lo_sorted] in Ha |- *. apply andb_true_iff in Ha. destruct Ha as [Ha1 Ha2]. rewrite Ha1. cbn [andb].
    apply IHa; [exact Ha2 |]. cbn [lo_sorted] in Hb |- *. unfold rlt in E. cbn [fst snd] in E. lia.
Qed.

(** the operand of a merge: an allocated, sorted token with well-formed pairs (any fCompacted) *)
Definition rt_opnd (o : rtok) : Prop :=
  (alloc o = true -> rs o <> []) /\ (alloc o = false -> rs o = []) /\ lo_sorted 0 (rs o) = true /\ (alloc o = true -> srt o = true).

Lemma rt_acc_opnd : forall t, rt_acc t -> rt_opnd t.
Proof. intros t [A [B [C [D E]]]]. repeat split; assumption. Qed.

Theorem mergeRanges_acc : forall t o, rt_acc t -> rt_opnd o -> rt_acc (mergeRanges t o).
Proof.
  intros t o [A [B [C [D E]]]] [OA [OB [OC OE]]]. unfold mergeRanges.
  destruct (alloc o) eqn:Eo; cbn [negb]; [| repeat split; assumption].
  specialize (OA eq_refl). specialize (OE eq_refl).
  assert (So : sortRanges o = o) by (unfold sortRanges; rewrite OE; reflexivity). rewrite So.
  destruct (alloc t) eqn:Et.
  - specialize (A eq_refl). specialize (E eq_refl).
    assert (St : sortRanges t = t) by (unfold sortRanges; rewrite E; reflexivity). rewrite St, Et. cbn [negb].
    unfold rt_acc. cbn [rs alloc srt cmpd].
    split. { intros _ X. apply (f_equal (@length rng)) in X. rewrite length_merge in X. destruct (rs t); [congruence | cbn in X; lia]. }
    split; [discriminate |]. split; [apply lo_sorted_merge; assumption |]. split; [exact D | intros _; exact E].
  - assert (St : sortRanges t = t) by (unfold sortRanges; rewrite Et, orb_true_r; reflexivity). rewrite St, Et. cbn [negb].
    unfold rt_acc. cbn [rs alloc srt cmpd]. repeat split; auto; discriminate.
Qed.

(** membership: what the theorems T11_range_add / T11_range_merge give on accumulators *)
Lemma addRange_acc_mem : forall t a b c, rt_acc t -> rmem (rs (addRange true t a b)) c = rmem (rs t) c || interval a b c.
Proof. intros t a b c H. apply addRange_fixed_spec. apply rt_acc_wf. exact H. Qed.

Lemma mergeRanges_acc_mem : forall t o c, rt_acc t -> rt_opnd o ->
  rmem (rs (mergeRanges t o)) c = rmem (rs t) c || rmem (rs o) c.
Proof.
  intros t o c H [OA [OB [OC _]]]. apply mergeRanges_spec; [apply rt_acc_wf; exact H |].
  split; [exact OA |]. split; [exact OB | exact (lo_sorted_pairs _ _ OC)].
Qed.
