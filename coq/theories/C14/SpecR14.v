(** C14 -- specification of the Range CONTENT operations (DOM Level 2 Range 2.6-2.9, 2.12) on the reference tree of
    Spec14.v: toString, deleteContents, extractContents, cloneContents, insertNode.
    A node that is child k of p lies between the boundary points (p,k) and (p,k+1); it is CONTAINED in a range when
    start <= (p,k) and (p,k+1) <= end, and PARTIALLY SELECTED when it is not contained but holds a boundary point.
      - toString: the characters c_j of the Text nodes with start <= (t,j) and (t,j+1) <= end, in document order
        ("only the data characters, not any markup": comments are markup);
      - cloneContents: the fragment made of copies of the contained children of the common ancestor container and of
        clones of the partially selected ones restricted to their selected part;
      - extractContents: the same fragment, contained nodes being moved instead of copied; on the document it acts
        as deleteContents;
      - deleteContents: contained nodes are removed, partially selected character data loses the selected characters;
        every live view is adjusted by the rules of the individual mutations (Range 2.12, Traversal 1.1.1.3); the range
        itself collapses to where the content was;
      - insertNode: a Text start container is split at the start offset (not at offset 0) and the node is inserted at
        the start boundary point.
    Nothing here mentions the C++ code. *)
From Coq Require Import List NArith Arith Bool.
From XV Require Import C14.Spec14 C14.Hist14.
Import ListNotations.

(** a fragment tree: [Some id] = a node of the document that was moved, [None] = a new node *)
Inductive ftree := FT (orig : option nat) (k : kind) (v : list N) (kids : list ftree).

Fixpoint ft_full (orig : bool) (t : tree) : ftree :=
  match t with Node i k v ks => FT (if orig then Some i else None) k v (map (ft_full orig) ks) end.

Inductive xop :=
| XBase (o : op)
| XStr (k : nat) | XDel (k : nat) | XClone (k : nat) | XExt (k : nat) | XInsN (k n : nat).

Inductive xres :=
| XR (r : res) | XRStr (s : list N) | XRFrag (l : list ftree) | XRIns (created : option nat).

Definition xanswer := (xres * list (option (range * bool)))%type.

Inductive prim := PDelText (x off cnt : nat) | PRemove (x : nat).

Section Sel.
  Variable m : tree.
  Variable r : range.
  Definition le_bp (a b : bpoint) : bool := match bp_cmp m a b with Some Gt | None => false | Some _ => true end.
  Definition contained (p k : nat) : bool := le_bp (r_s r) (p, k) && le_bp (p, S k) (r_e r).
  Definition holds_bp (t : tree) : bool :=
    memb (fst (r_s r)) (ids (docorder t)) || memb (fst (r_e r)) (ids (docorder t)).
  (** the selected characters of a character-data node *)
  Definition cd_from (t : tree) : nat := if tid t =? fst (r_s r) then snd (r_s r) else 0.
  Definition cd_to (t : tree) : nat := if tid t =? fst (r_e r) then snd (r_e r) else length (tval t).
  Definition cd_part (t : tree) : list N := firstn (cd_to t - cd_from t) (skipn (cd_from t) (tval t)).

  (** what the range selects of node t = child k of p *)
  Fixpoint sel (orig : bool) (p k : nat) (t : tree) : option ftree :=
    if contained p k then Some (ft_full orig t)
    else if holds_bp t then
      match t with Node i kd v ks =>
        if is_chardata kd then Some (FT None kd (cd_part t) [])
        else Some (FT None kd v
               ((fix go (l : list tree) (j : nat) : list ftree :=
                   match l with
                   | [] => []
                   | c :: rest => match sel orig i j c with Some x => x :: go rest (S j) | None => go rest (S j) end
                   end) ks 0))
      end
    else None.
  Definition sel_kids (orig : bool) (t : tree) : list ftree :=
    (fix go (l : list tree) (j : nat) : list ftree :=
       match l with
       | [] => []
       | c :: rest => match sel orig (tid t) j c with Some x => x :: go rest (S j) | None => go rest (S j) end
       end) (tkids t) 0.

  (** the contained nodes that have no contained ancestor, in document order *)
  Fixpoint tops (p k : nat) (t : tree) : list nat :=
    if contained p k then [tid t]
    else if holds_bp t then
      match t with Node i kd v ks =>
        (fix go (l : list tree) (j : nat) : list nat :=
           match l with [] => [] | c :: rest => tops i j c ++ go rest (S j) end) ks 0
      end
    else [].
  Definition tops_kids (t : tree) : list nat :=
    (fix go (l : list tree) (j : nat) : list nat :=
       match l with [] => [] | c :: rest => tops (tid t) j c ++ go rest (S j) end) (tkids t) 0.

  (** common ancestor container: the deepest node holding both containers *)
  Definition common_anc : option tree :=
    last_such (fun t => memb (fst (r_s r)) (ids (docorder t)) && memb (fst (r_e r)) (ids (docorder t))) (docorder m).

  Definition bp_eqb (a b : bpoint) : bool := (fst a =? fst b) && (snd a =? snd b).
  Definition sp_fragment (orig : bool) : list ftree :=
    if bp_eqb (r_s r) (r_e r) then [] else
    match common_anc with
    | Some c => if is_chardata (tkind c) then [FT None (tkind c) (cd_part c) []] else sel_kids orig c
    | None => []
    end.

  (** toString *)
  Definition sp_to_string : list N :=
    flat_map (fun t => match tkind t with
                       | KText => (fix go (l : list N) (j : nat) : list N :=
                                     match l with
                                     | [] => []
                                     | c :: rest => if le_bp (r_s r) (tid t, j) && le_bp (tid t, S j) (r_e r)
                                                    then c :: go rest (S j) else go rest (S j)
                                     end) (tval t) 0
                       | _ => []
                       end) (docorder m).

  (** the primitive mutations deleteContents amounts to: [prim] *)
  Definition sp_delete_plan : list prim :=
    match common_anc with
    | None => []
    | Some c =>
      if is_chardata (tkind c) then [PDelText (tid c) (cd_from c) (cd_to c - cd_from c)]
      else
        let sc := fst (r_s r) in let ec := fst (r_e r) in
        (match find_node [m] sc with
         | Some t => if is_chardata (tkind t) then [PDelText sc (snd (r_s r)) (length (tval t) - snd (r_s r))] else []
         | None => [] end)
        ++ map PRemove (tops_kids c)
        ++ (match find_node [m] ec with
            | Some t => if is_chardata (tkind t) then [PDelText ec 0 (snd (r_e r))] else []
            | None => [] end)
    end.
  (** where the range collapses to: the start point if the start container holds the end container, else just behind
      the highest ancestor-or-self of the start container that does not hold the end container *)
  Definition sp_collapse_point : bpoint :=
    let sc := fst (r_s r) in let ec := fst (r_e r) in
    if memb ec (sub_ids [m] sc) then r_s r
    else match common_anc with
         | Some c => match find (fun a => memb sc (ids (docorder a))) (tkids c) with
                     | Some a => (tid c, S (index_of (tid a) (ids (tkids c))))
                     | None => r_s r
                     end
         | None => r_s r
         end.
End Sel.

(* ---------------------------------------------------------------------------------------------------------- *)
(** * the specification interpreter extended by the content operations *)
Definition sp_apply_prim (s : sp_state) (p : prim) : sp_state :=
  match p with
  | PDelText x off cnt => sp_do_del_text s x off cnt
  | PRemove x => sp_do_remove s x
  end.

Definition sp_delete (s : sp_state) (k : nat) (m : tree) (r : range) : sp_state :=
  let pt := sp_collapse_point m r in
  let s1 := fold_left sp_apply_prim (sp_delete_plan m r) s in
  ss_with s1 (ss_f s1) (ss_its s1) (upd k (Some {| r_s := pt; r_e := pt |}) (ss_rgs s1)).

Definition ss_burn (s : sp_state) : sp_state :=
  {| ss_f := ss_f s; ss_next := S (ss_next s); ss_its := ss_its s; ss_tws := ss_tws s; ss_dls := ss_dls s;
     ss_rgs := ss_rgs s; ss_tab := ss_tab s |}.
(** splitting a character-data node (Text as in splitText; a Comment start container of insertNode is split the same
    way): the characters behind off move to a new node of the same kind inserted behind x; boundary points follow *)
Definition sp_split_cd (s : sp_state) (x off : nat) : nat * sp_state :=
  let f := ss_f s in
  let nw := ss_next s in
  let v := val_of f x in
  let kd := match kind_of f x with Some k => k | None => KText end in
  let '(_, s1) := new_node s kd (skipn off v) in
  let s2 := match parent_id f x with
            | Some p => sp_do_insert s1 p (after_in x (kids_of f p)) nw
            | None => s1
            end in
  let rg3 := omap (r_map (bp_split x nw off)) (ss_rgs s2) in
  let rg4 := match parent_id f x with
             | Some p => omap (r_map (bp_split_parent p (index_of x (kids_of f p)))) rg3
             | None => rg3
             end in
  (nw, ss_with s2 (f_set_val (ss_f s2) x (firstn off v)) (ss_its s2) rg4).
Definition lift (a : res * sp_state) : xres * sp_state := (XR (fst a), snd a).

Definition spx_step (s : sp_state) (o : xop) : xres * sp_state :=
  let f := ss_f s in
  match o with
  | XBase b => lift (sp_step s b)
  | XStr k =>
    match get_opt (ss_rgs s) k, f with
    | Some r, m :: _ => (XRStr (sp_to_string m r), s)
    | _, _ => (XR RGuard, s)
    end
  | XClone k =>
    match get_opt (ss_rgs s) k, f with
    | Some r, m :: _ => (XRFrag (sp_fragment m r false), s)
    | _, _ => (XR RGuard, s)
    end
  | XDel k =>
    match get_opt (ss_rgs s) k, f with
    | Some r, m :: _ => (XR ROk, sp_delete s k m r)
    | _, _ => (XR RGuard, s)
    end
  | XExt k =>
    match get_opt (ss_rgs s) k, f with
    | Some r, m :: _ => (XRFrag (sp_fragment m r true), sp_delete s k m r)
    | _, _ => (XR RGuard, s)
    end
  | XInsN k n =>
    (* every insertNode uses up exactly one node id: the node created by the split, or none (the id is burnt) *)
    (fun a : xres * sp_state => match fst a with XRIns (Some _) => a | _ => (fst a, ss_burn (snd a)) end)
    match get_opt (ss_rgs s) k with
    | None => (XR RGuard, s)
    | Some r =>
      let sc := fst (r_s r) in let so := snd (r_s r) in
      let cd := chardata_node f sc in
      let par := if cd then parent_id f sc else Some sc in
      match par with
      | None => (XR RGuard, s)
      | Some p =>
        if negb (known f n) || (n =? 0) || (n =? 1) || (p =? 0) || (p =? n) then (XR RGuard, s)
        else if anc_or_self f n sc then (XR (RErr 3), s)
        else
          (* split a character-data start container at the start offset (not at 0) *)
          let '(created, s1) :=
            if cd && (0 <? so) then (let '(nw, s') := sp_split_cd s sc so in (Some nw, s')) else (None, s) in
          let f1 := ss_f s1 in
          let ref := if cd then (if 0 <? so then after_in sc (kids_of f1 p) else Some sc)
                     else nth_error (kids_of f1 p) so in
          match sp_step s1 (OIns p n ref) with
          | (ROk, s2) => (XRIns created, s2)
          | (e, s2) => (XR e, s2)
          end
      end
    end
  end.

Fixpoint spx_run_from (s : sp_state) (h : list xop) : list xanswer :=
  match h with
  | [] => []
  | o :: r => let '(a, s') := spx_step s o in
              (a, judge (ss_f s') (ss_rgs s')) :: (match a with XR RUnspec => [] | _ => spx_run_from s' r end)
  end.
Definition spx_run (tab : list N) (h : list xop) : list xanswer := spx_run_from (sp_init tab) h.
