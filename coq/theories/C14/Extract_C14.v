(** Extraction of the C14 model interpreter [m_run] and the specification interpreter [sp_run] (oracle). *)
From Coq Require Import Extraction ExtrOcamlBasic.
From XV Require Import C14.Spec14 C14.Hist14 C14.Model14 C14.Cert14 C14.IdMap14 C14.SpecR14 C14.ModelR14.
Extraction Language OCaml.
Extraction "../ocaml/C14/gen_c14.ml" m_run sp_run mx_run spx_run range_ok m_run_certs im_run isp_run xhash.
