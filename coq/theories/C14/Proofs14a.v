(** C14 -- lemmas about the Range fix-ups (Range 2.12) and range validity. *)
From Coq Require Import List NArith Arith Bool Lia.
From XV Require Import C14.Spec14 C14.Hist14 C14.Model14.
Import ListNotations.

Lemma eqb_eq' : forall a b, (a =? b) = true -> a = b.
Proof. intros a b H. apply Nat.eqb_eq. exact H. Qed.

(* ---------------------------------------------------------------------------------------------------------- *)
(** * the repaired fix-ups are the 2.12 rules *)

Lemma ins_text_is_spec : forall fx f x off cnt r, fx_ins_text fx = true -> m_is_cd f x = true ->
  to_range (mr_upd_ins_text fx f x off cnt r) = r_map (bp_ins_text x off cnt) (to_range r).
Proof.
  intros fx f x off cnt [sc so ec eo] Hfx Hcd. unfold mr_upd_ins_text, to_range, r_map, bp_ins_text. cbn [mr_sc mr_so mr_ec mr_eo r_s r_e fst snd].
  rewrite Hfx.
  rewrite (Nat.eqb_sym sc x), (Nat.eqb_sym ec x).
  destruct (x =? sc) eqn:E1; destruct (x =? ec) eqn:E2; cbn [andb];
    try (apply eqb_eq' in E1; subst sc); try (apply eqb_eq' in E2; subst ec); try rewrite Hcd; cbn [andb];
    destruct (off <? so); destruct (off <? eo); reflexivity.
Qed.

Lemma del_text_is_spec : forall f x off cnt r, m_is_cd f x = true ->
  to_range (mr_upd_del_text f x off cnt r) = r_map (bp_del_text x off cnt) (to_range r).
Proof.
  intros f x off cnt [sc so ec eo] Hcd. unfold mr_upd_del_text, to_range, r_map, bp_del_text, m_del_off. cbn [mr_sc mr_so mr_ec mr_eo r_s r_e fst snd].
  rewrite (Nat.eqb_sym sc x), (Nat.eqb_sym ec x).
  destruct (x =? sc) eqn:E1; destruct (x =? ec) eqn:E2; cbn [andb];
    try (apply eqb_eq' in E1; subst sc); try (apply eqb_eq' in E2; subst ec); try rewrite Hcd; cbn [andb];
    destruct (off + cnt <? so); destruct (off + cnt <? eo); destruct (off <? so); destruct (off <? eo); reflexivity.
Qed.

Lemma set_text_is_spec : forall f x r, m_is_cd f x = true ->
  to_range (mr_upd_set_text f x r) = r_map (bp_set_text x) (to_range r).
Proof.
  intros f x [sc so ec eo] Hcd. unfold mr_upd_set_text, to_range, r_map, bp_set_text. cbn [mr_sc mr_so mr_ec mr_eo r_s r_e fst snd].
  rewrite (Nat.eqb_sym sc x), (Nat.eqb_sym ec x).
  destruct (x =? sc) eqn:E1; destruct (x =? ec) eqn:E2; cbn [andb];
    try (apply eqb_eq' in E1; subst sc); try (apply eqb_eq' in E2; subst ec); try rewrite Hcd; reflexivity.
Qed.

(** insertion of node n, which now is child k of p *)
Lemma ins_node_is_spec : forall f n p r, m_parent f n = Some p ->
  to_range (mr_upd_ins_node f n r) = r_map (bp_ins_node p (m_index_of f n p)) (to_range r).
Proof.
  intros f n p [sc so ec eo] Hp. unfold mr_upd_ins_node, to_range, r_map, bp_ins_node. cbn [mr_sc mr_so mr_ec mr_eo r_s r_e fst snd].
  rewrite Hp. rewrite (Nat.eqb_sym sc p), (Nat.eqb_sym ec p).
  destruct (p =? sc) eqn:E1; destruct (p =? ec) eqn:E2; cbn [andb];
    try (apply eqb_eq' in E1; subst sc); try (apply eqb_eq' in E2; subst ec);
    destruct (m_index_of f n p <? so); destruct (m_index_of f n p <? eo); reflexivity.
Qed.

(** splitText: x (a text node, child i of p) split at off, tail in nw *)
Ltac fin_eqb := repeat match goal with |- context [?a =? ?b] => destruct (Nat.eqb_spec a b); subst end;
                 simpl; try reflexivity; try congruence; try (exfalso; lia).

Definition mb_split (f : forest) (p i x nw off : nat) (b : bpoint) : bpoint :=
  let s := (x =? fst b) && m_is_cd f (fst b) && (off <? snd b) in
  let c1 := if s then nw else fst b in
  let o1 := if s then snd b - off else snd b in
  (c1, if (c1 =? p) && (o1 =? S i) then S o1 else o1).

Lemma split_pointwise : forall f x nw off p i b, m_is_cd f x = true -> nw <> p -> x <> p ->
  mb_split f p i x nw off b = bp_split_parent p i (bp_split x nw off b).
Proof.
  intros f x nw off p i [c o] Hcd Hne Hxp. unfold mb_split, bp_split_parent, bp_split. cbn [fst snd].
  rewrite (Nat.eqb_sym c x).
  destruct (Nat.eqb_spec x c) as [E|E]; [subst c; rewrite Hcd|]; destruct (off <? o); simpl; fin_eqb.
Qed.

Lemma split_is_spec : forall fx f x nw off p r, fx_split fx = true -> m_is_cd f x = true -> m_parent f x = Some p ->
  nw <> p -> x <> p ->
  to_range (mr_upd_split fx f x nw off r) =
  r_map (bp_split_parent p (m_index_of f x p)) (r_map (bp_split x nw off) (to_range r)).
Proof.
  intros fx f x nw off p r Hfx Hcd Hp Hne Hxp.
  transitivity (r_map (mb_split f p (m_index_of f x p) x nw off) (to_range r)).
  - destruct r as [sc so ec eo]. unfold mr_upd_split, to_range, r_map, mb_split. cbn [mr_sc mr_so mr_ec mr_eo r_s r_e fst snd].
    rewrite Hfx, Hp. reflexivity.
  - unfold r_map. cbn [r_s r_e]. rewrite !split_pointwise by assumption. reflexivity.
Qed.

(** removal of x = child k of p: the model climbs from the container with isAncestorOf; given that this climb
    decides membership in the subtree of x, and that p itself is not inside that subtree, the fix-up is 2.12.2 *)
Lemma del_node_is_spec : forall f x p r sub,
  m_parent f x = Some p ->
  (forall c, m_is_anc f (m_fuel f) x (Some c) = memb c sub) ->
  memb p sub = false ->
  to_range (mr_upd_del_node f x r) = r_map (bp_del_node p (m_index_of f x p) sub) (to_range r).
Proof.
  intros f x p [sc so ec eo] sub Hp Hanc Hpsub.
  unfold mr_upd_del_node, to_range, r_map, bp_del_node. cbn [mr_sc mr_so mr_ec mr_eo r_s r_e fst snd].
  rewrite Hp. rewrite (Nat.eqb_sym sc p), (Nat.eqb_sym ec p).
  destruct (p =? sc) eqn:E1; destruct (p =? ec) eqn:E2; cbn [andb negb orb];
    try (apply eqb_eq' in E1; subst sc); try (apply eqb_eq' in E2; subst ec);
    cbn [mr_sc mr_so mr_ec mr_eo]; rewrite ?Hanc, ?Hpsub; cbn [mr_sc mr_so mr_ec mr_eo]; rewrite ?Hanc, ?Hpsub.
  - destruct (m_index_of f x p <? so); destruct (m_index_of f x p <? eo); reflexivity.
  - destruct (memb ec sub); cbn [mr_sc mr_so mr_ec mr_eo]; destruct (m_index_of f x p <? so); reflexivity.
  - destruct (memb sc sub); cbn [mr_sc mr_so mr_ec mr_eo]; rewrite ?Hanc, ?Hpsub; destruct (m_index_of f x p <? eo); reflexivity.
  - destruct (memb sc sub); cbn [mr_sc mr_so mr_ec mr_eo]; rewrite ?Hanc; destruct (memb ec sub); reflexivity.
Qed.

(* ---------------------------------------------------------------------------------------------------------- *)
(** * validity inside one character-data container: offsets stay ordered and within the new length *)

Lemma ins_off_valid : forall off cnt so eo len, so <= eo -> eo <= len -> off <= len ->
  let g := fun o => if off <? o then o + cnt else o in g so <= g eo /\ g eo <= len + cnt.
Proof. intros off cnt so eo len H1 H2 H3 g. unfold g. destruct (Nat.ltb_spec off so); destruct (Nat.ltb_spec off eo); lia. Qed.

(** the code as it is (F20): the start offset jumps back to the insertion offset -- still valid *)
Lemma ins_off_valid_as_is : forall off cnt so eo len, so <= eo -> eo <= len -> off <= len ->
  (if off <? so then off else so) <= (if off <? eo then eo + cnt else eo) /\ (if off <? eo then eo + cnt else eo) <= len + cnt.
Proof. intros off cnt so eo len H1 H2 H3. destruct (Nat.ltb_spec off so); destruct (Nat.ltb_spec off eo); lia. Qed.

Lemma del_off_valid : forall off cnt so eo len, so <= eo -> eo <= len -> off + cnt <= len ->
  m_del_off off cnt so <= m_del_off off cnt eo /\ m_del_off off cnt eo <= len - cnt.
Proof.
  intros off cnt so eo len H1 H2 H3. unfold m_del_off.
  destruct (Nat.ltb_spec (off + cnt) so); destruct (Nat.ltb_spec (off + cnt) eo);
    destruct (Nat.ltb_spec off so); destruct (Nat.ltb_spec off eo); lia.
Qed.

(* ---------------------------------------------------------------------------------------------------------- *)
(** * setStart / setEnd / collapse keep a range valid *)
Lemma lex_cmp_refl : forall p, lex_cmp p p = Eq.
Proof. induction p as [|x r IH]; cbn; [reflexivity|]. rewrite Nat.compare_refl. exact IH. Qed.

Lemma bp_cmp_refl : forall m b p, bp_pos m b = Some p -> bp_cmp m b b = Some Eq.
Proof. intros m b p H. unfold bp_cmp. rewrite H. rewrite lex_cmp_refl. reflexivity. Qed.

Lemma bp_ok_pos : forall m b, bp_cmp m b b <> None -> exists p, bp_pos m b = Some p.
Proof. intros m b H. unfold bp_cmp in H. destruct (bp_pos m b) as [p|]; [exists p; reflexivity|]. exfalso. apply H. reflexivity. Qed.

Definition range_ok_parts (m : tree) (r : range) : Prop :=
  bp_ok m (r_s r) = true /\ bp_ok m (r_e r) = true /\
  exists c, bp_cmp m (r_s r) (r_e r) = Some c /\ c <> Gt.

Lemma range_ok_iff : forall m r, range_ok m r = true <-> range_ok_parts m r.
Proof.
  intros m r. unfold range_ok, range_ok_parts. split.
  - intros H. apply andb_prop in H. destruct H as [H H3]. apply andb_prop in H. destruct H as [H1 H2].
    split; [exact H1|]. split; [exact H2|].
    destruct (bp_cmp m (r_s r) (r_e r)) as [c|]; [|discriminate]. exists c. split; [reflexivity|].
    destruct c; [discriminate|discriminate|discriminate H3].
  - intros [H1 [H2 [c [Hc Hn]]]]. rewrite H1, H2, Hc. destruct c; try reflexivity. exfalso. apply Hn. reflexivity.
Qed.

Lemma set_start_valid : forall m r b, range_ok m r = true -> bp_ok m b = true ->
  (exists p, bp_pos m b = Some p) -> range_ok m (sp_set_start m r b) = true.
Proof.
  intros m r b Hr Hb [p Hp]. apply range_ok_iff in Hr. destruct Hr as [H1 [H2 [c [Hc Hn]]]].
  apply range_ok_iff. unfold sp_set_start.
  destruct (bp_cmp m b (r_e r)) as [c'|] eqn:E.
  - destruct c'; unfold range_ok_parts; cbn [r_s r_e].
    + split; [exact Hb|]. split; [exact H2|]. exists Eq. split; [exact E|discriminate].
    + split; [exact Hb|]. split; [exact H2|]. exists Lt. split; [exact E|discriminate].
    + split; [exact Hb|]. split; [exact Hb|]. exists Eq. split; [exact (bp_cmp_refl m b p Hp)|discriminate].
  - (* the end point has no position: impossible for a valid range *)
    exfalso. unfold bp_cmp in E, Hc. rewrite Hp in E.
    destruct (bp_pos m (r_e r)); [discriminate E|]. destruct (bp_pos m (r_s r)); discriminate Hc.
Qed.

Lemma set_end_valid : forall m r b, range_ok m r = true -> bp_ok m b = true ->
  (exists p, bp_pos m b = Some p) -> range_ok m (sp_set_end m r b) = true.
Proof.
  intros m r b Hr Hb [p Hp]. apply range_ok_iff in Hr. destruct Hr as [H1 [H2 [c [Hc Hn]]]].
  apply range_ok_iff. unfold sp_set_end.
  destruct (bp_cmp m (r_s r) b) as [c'|] eqn:E.
  - destruct c'; unfold range_ok_parts; cbn [r_s r_e].
    + split; [exact H1|]. split; [exact Hb|]. exists Eq. split; [exact E|discriminate].
    + split; [exact H1|]. split; [exact Hb|]. exists Lt. split; [exact E|discriminate].
    + split; [exact Hb|]. split; [exact Hb|]. exists Eq. split; [exact (bp_cmp_refl m b p Hp)|discriminate].
  - exfalso. unfold bp_cmp in E, Hc. rewrite Hp in E.
    destruct (bp_pos m (r_s r)); [discriminate E|discriminate Hc].
Qed.

Lemma collapse_valid : forall m r toStart, range_ok m r = true ->
  range_ok m (if toStart : bool then {| r_s := r_s r; r_e := r_s r |} else {| r_s := r_e r; r_e := r_e r |}) = true.
Proof.
  intros m r toStart Hr. apply range_ok_iff in Hr. destruct Hr as [H1 [H2 [c [Hc Hn]]]].
  apply range_ok_iff. unfold bp_cmp in Hc.
  destruct (bp_pos m (r_s r)) as [ps|] eqn:Es; [|discriminate]. destruct (bp_pos m (r_e r)) as [pe|] eqn:Ee; [|discriminate].
  destruct toStart; unfold range_ok_parts; cbn [r_s r_e].
  - split; [exact H1|]. split; [exact H1|]. exists Eq. split; [exact (bp_cmp_refl m _ ps Es)|discriminate].
  - split; [exact H2|]. split; [exact H2|]. exists Eq. split; [exact (bp_cmp_refl m _ pe Ee)|discriminate].
Qed.

(* ---------------------------------------------------------------------------------------------------------- *)
(** * the code as it is (F28 not repaired): splitText follows the rule except for boundary points sitting in the
      parent directly behind the split node *)
Lemma split_as_is : forall fx f x nw off r, fx_split fx = false -> m_is_cd f x = true ->
  to_range (mr_upd_split fx f x nw off r) = r_map (bp_split x nw off) (to_range r).
Proof.
  intros fx f x nw off [sc so ec eo] Hfx Hcd. unfold mr_upd_split, to_range, r_map, bp_split. cbn [mr_sc mr_so mr_ec mr_eo r_s r_e fst snd].
  rewrite Hfx. cbn [mr_sc mr_so mr_ec mr_eo].
  rewrite (Nat.eqb_sym sc x), (Nat.eqb_sym ec x).
  destruct (Nat.eqb_spec x sc) as [E1|E1]; destruct (Nat.eqb_spec x ec) as [E2|E2]; cbn [andb];
    try subst sc; try subst ec; try rewrite Hcd; cbn [andb]; destruct (off <? so); destruct (off <? eo); reflexivity.
Qed.
Lemma split_parent_id : forall p i b, b <> (p, S i) -> bp_split_parent p i b = b.
Proof.
  intros p i [c o] H. unfold bp_split_parent. cbn [fst snd].
  destruct (Nat.eqb_spec c p) as [E1|E1]; destruct (Nat.eqb_spec o (S i)) as [E2|E2]; cbn [andb]; try reflexivity.
  subst. exfalso. apply H. reflexivity.
Qed.
Lemma split_is_spec_guarded : forall fx f x nw off p i r, fx_split fx = false -> m_is_cd f x = true ->
  r_s (r_map (bp_split x nw off) (to_range r)) <> (p, S i) ->
  r_e (r_map (bp_split x nw off) (to_range r)) <> (p, S i) ->
  to_range (mr_upd_split fx f x nw off r) = r_map (bp_split_parent p i) (r_map (bp_split x nw off) (to_range r)).
Proof.
  intros fx f x nw off p i r Hfx Hcd Hs He. rewrite (split_as_is fx f x nw off r Hfx Hcd).
  set (r' := r_map (bp_split x nw off) (to_range r)) in *.
  destruct r' as [s e]. cbn [r_s r_e] in Hs, He. unfold r_map. cbn [r_s r_e].
  rewrite (split_parent_id p i s Hs), (split_parent_id p i e He). reflexivity.
Qed.
