(** C14 -- DOMNodeIDMap: the open-addressing invariant (every entry is reachable along its probe sequence through
    non-empty slots), its preservation by add (with and without growth) and remove, and the correctness of find. *)
From Coq Require Import List NArith Arith Bool Lia.
From XV Require Import Gen.GenC14IdMap C14.Spec14 C14.Hist14 C14.IdMap14.
Import ListNotations.

Lemma list_eqb_refl : forall l, list_eqb l l = true.
Proof. induction l as [|x r IH]; [reflexivity|]. cbn. rewrite N.eqb_refl. exact IH. Qed.
Lemma list_eqb_eq : forall a b, list_eqb a b = true -> a = b.
Proof.
  induction a as [|x r IH]; intros [|y s] H; cbn in H; try discriminate; [reflexivity|].
  apply andb_prop in H. destruct H as [H1 H2]. apply N.eqb_eq in H1. subst. f_equal. apply IH. exact H2.
Qed.

Lemma slot_upd_same : forall t k x, k < length t -> slot_at (upd k x t) k = x.
Proof.
  unfold slot_at. induction t as [|y r IH]; intros k x H; [cbn in H; lia|]. destruct k; cbn; [reflexivity|].
  apply IH. cbn in H. lia.
Qed.
Lemma slot_upd_other : forall t k k' x, k <> k' -> slot_at (upd k x t) k' = slot_at t k'.
Proof.
  unfold slot_at. induction t as [|y r IH]; intros k k' x H; [destruct k; reflexivity|].
  destruct k; destruct k'; cbn; try reflexivity; try lia. apply IH. lia.
Qed.
Lemma upd_length : forall {A} (t : list A) k x, length (upd k x t) = length t.
Proof. induction t as [|y r IH]; intros k x; [destruct k; reflexivity|]. destruct k; cbn; [reflexivity|]. rewrite IH. reflexivity. Qed.

(** the j-th slot of the probe sequence with step h0 *)
Fixpoint pos (size h0 j : nat) : nat := match j with O => h0 | S j' => step size h0 (pos size h0 j') end.
Lemma pos_lt : forall size h0 j, 0 < size -> h0 < size -> pos size h0 j < size.
Proof.
  intros size h0 j Hs Hh. induction j as [|j IH]; [exact Hh|]. cbn. unfold step.
  destruct (Nat.leb_spec size (pos size h0 j + h0)); [apply Nat.mod_upper_bound; lia|lia].
Qed.
Lemma pos_shift : forall size h0 j, pos size h0 (S j) = step size h0 (pos size h0 j).
Proof. reflexivity. Qed.

Section Map.
  Variable val : nat -> list N.

  Definition nonempty (s : slot) : Prop := s <> SEmpty.
  Definition reach (t : list slot) (size : nat) (k e : nat) : Prop :=
    let h0 := h0_of size (val e) in
    exists j, j < size /\ pos size h0 j = k /\ forall i, i < j -> nonempty (slot_at t (pos size h0 i)).
  Definition wf (m : idmap) : Prop :=
    length (im_tab m) = im_size m /\ 2 <= im_size m /\
    forall k e, slot_at (im_tab m) k = SAttr e -> reach (im_tab m) (im_size m) k e.
  Definition present (m : idmap) (e : nat) : Prop := exists k, slot_at (im_tab m) k = SAttr e.

  Lemma h0_lt : forall size v, 2 <= size -> h0_of size v < size.
  Proof.
    intros size v H. unfold h0_of.
    assert (N.to_nat (xhash v (N.of_nat (size - 1))) < size - 1); [|lia].
    unfold xhash. destruct v as [|c r].
    - cbn. lia.
    - assert (Hm : (N.of_nat (size - 1) <> 0)%N) by lia.
      pose proof (N.mod_upper_bound (xhash_go c r) (N.of_nat (size - 1)) Hm). lia.
  Qed.

  (* ---- find ---- *)
  Lemma probe_val_sound : forall t size h0 v fuel cur e,
    probe_val val t size h0 v fuel cur = Done (Some e) -> exists k, slot_at t k = SAttr e /\ val e = v.
  Proof.
    intros t size h0 v. induction fuel as [|fu IH]; intros cur e H; [discriminate|]. cbn in H.
    destruct (slot_at t cur) as [| |e'] eqn:E; [discriminate|exact (IH _ _ H)|].
    destruct (list_eqb (val e') v) eqn:Ev.
    - injection H as <-. exists cur. split; [exact E|apply list_eqb_eq; exact Ev].
    - exact (IH _ _ H).
  Qed.

  Lemma probe_val_reach : forall t size h0 e j i fuel,
    (forall e' k', slot_at t k' = SAttr e' -> val e' = val e -> e' = e) ->
    slot_at t (pos size h0 j) = SAttr e ->
    (forall l, l < j -> nonempty (slot_at t (pos size h0 l))) ->
    i <= j -> j - i < fuel ->
    probe_val val t size h0 (val e) fuel (pos size h0 i) = Done (Some e).
  Proof.
    intros t size h0 e j i fuel Hd Hj Hne. revert i. induction fuel as [|fu IH]; intros i Hi Hf; [lia|].
    cbn. destruct (Nat.eq_dec i j) as [->|Hn].
    - rewrite Hj. rewrite list_eqb_refl. reflexivity.
    - assert (Hlt : i < j) by lia. pose proof (Hne i Hlt) as Hni.
      destruct (slot_at t (pos size h0 i)) as [| |e'] eqn:E.
      + exfalso. apply Hni. reflexivity.
      + rewrite <- pos_shift. apply IH; lia.
      + destruct (list_eqb (val e') (val e)) eqn:Ev.
        * apply list_eqb_eq in Ev. rewrite (Hd e' _ E Ev). reflexivity.
        * rewrite <- pos_shift. apply IH; lia.
  Qed.

  Lemma probe_val_no_growerr : forall t size h0 v fuel cur, probe_val val t size h0 v fuel cur <> GrowErr.
  Proof.
    intros t size h0 v. induction fuel as [|fu IH]; intros cur; [discriminate|]. cbn.
    destruct (slot_at t cur); [discriminate|apply IH|]. destruct (list_eqb (val e) v); [discriminate|apply IH].
  Qed.

  Theorem find_sound : forall m v e, im_find val m v = Done (Some e) -> present m e /\ val e = v.
  Proof. intros m v e H. unfold im_find in H. apply probe_val_sound in H. destruct H as [k [H1 H2]]. split; [exists k; exact H1|exact H2]. Qed.

  Theorem find_complete : forall m e, wf m -> present m e ->
    (forall e' k', slot_at (im_tab m) k' = SAttr e' -> val e' = val e -> e' = e) ->
    im_find val m (val e) = Done (Some e).
  Proof.
    intros m e [Hl [Hs Hr]] [k Hk] Hd. destruct (Hr k e Hk) as [j [Hj [Hp Hne]]].
    unfold im_find. change (h0_of (im_size m) (val e)) with (pos (im_size m) (h0_of (im_size m) (val e)) 0) at 2.
    apply (probe_val_reach _ _ _ e j 0); try assumption; try lia. rewrite Hp. exact Hk.
  Qed.

  (** an absent value is never "found": find answers None (or the C++ loop would not end) *)
  Theorem find_absent : forall m v, (forall e, present m e -> val e <> v) ->
    im_find val m v = Done None \/ im_find val m v = Hang.
  Proof.
    intros m v H. destruct (im_find val m v) as [[e|]| |] eqn:E; [|left; reflexivity|right; reflexivity|].
    - exfalso. destruct (find_sound m v e E) as [Hp Hv]. exact (H e Hp Hv).
    - exfalso. unfold im_find in E. exact (probe_val_no_growerr _ _ _ _ _ _ E).
  Qed.

  (* ---- add without growth ---- *)
  Lemma probe_free_spec : forall t size h0 fuel i k,
    probe_free t size h0 fuel (pos size h0 i) = Some k ->
    exists j, i <= j /\ j < i + fuel /\ pos size h0 j = k /\
              (forall l, i <= l -> l < j -> nonempty (slot_at t (pos size h0 l))) /\
              (forall e, slot_at t k <> SAttr e).
  Proof.
    intros t size h0. induction fuel as [|fu IH]; intros i k H; [discriminate|]. cbn in H.
    destruct (slot_at t (pos size h0 i)) as [| |e'] eqn:E.
    - injection H as <-. exists i. repeat split; try lia. intros e. rewrite E. discriminate.
    - injection H as <-. exists i. repeat split; try lia. intros e. rewrite E. discriminate.
    - rewrite <- pos_shift in H. destruct (IH _ _ H) as [j [H1 [H2 [H3 [H4 H5]]]]].
      exists j. repeat split; try lia; try assumption.
      intros l Hl1 Hl2. destruct (Nat.eq_dec l i) as [->|Hn]; [rewrite E; discriminate|apply H4; lia].
  Qed.

  Lemma put_wf : forall m e m', wf m -> im_put val m e = Done m' ->
    wf m' /\ present m' e /\ (forall e', present m e' -> present m' e') /\
    (forall e', present m' e' -> e' = e \/ present m e') /\ im_size m' = im_size m /\ im_num m' = im_num m.
  Proof.
    intros m e m' [Hl [Hs Hr]] H. unfold im_put in H.
    set (h0 := h0_of (im_size m) (val e)) in *.
    destruct (probe_free (im_tab m) (im_size m) h0 (im_size m) h0) as [k|] eqn:E; [|discriminate].
    injection H as <-. change h0 with (pos (im_size m) h0 0) in E at 2.
    destruct (probe_free_spec _ _ _ _ _ _ E) as [j [_ [Hj [Hp [Hne Hfree]]]]].
    assert (Hh : h0 < im_size m) by (apply h0_lt; exact Hs).
    assert (Hk : k < length (im_tab m)) by (rewrite Hl, <- Hp; apply pos_lt; lia).
    assert (Hmono : forall x, nonempty (slot_at (im_tab m) x) -> nonempty (slot_at (upd k (SAttr e) (im_tab m)) x)).
    { intros x Hx. destruct (Nat.eq_dec k x) as [<-|Hn]; [rewrite slot_upd_same by exact Hk; discriminate|].
      rewrite slot_upd_other by exact Hn. exact Hx. }
    split; [|split; [|split; [|split; [|split; reflexivity]]]].
    - split; [cbn; rewrite upd_length; exact Hl|]. split; [exact Hs|]. cbn [im_tab im_size].
      intros k' e' Hs'. destruct (Nat.eq_dec k k') as [<-|Hn].
      + rewrite slot_upd_same in Hs' by exact Hk. injection Hs' as <-.
        exists j. split; [lia|]. split; [exact Hp|]. intros i Hi. apply Hmono. apply Hne; lia.
      + rewrite slot_upd_other in Hs' by exact Hn. destruct (Hr k' e' Hs') as [j' [H1 [H2 H3]]].
        exists j'. split; [exact H1|]. split; [exact H2|]. intros i Hi. apply Hmono. apply H3. exact Hi.
    - exists k. cbn [im_tab]. apply slot_upd_same. exact Hk.
    - intros e' [k' Hk']. exists k'. cbn [im_tab]. destruct (Nat.eq_dec k k') as [<-|Hn]; [exfalso; exact (Hfree e' Hk')|].
      rewrite slot_upd_other by exact Hn. exact Hk'.
    - intros e' [k' Hk']. cbn [im_tab] in Hk'. destruct (Nat.eq_dec k k') as [<-|Hn].
      + rewrite slot_upd_same in Hk' by exact Hk. injection Hk' as <-. left. reflexivity.
      + rewrite slot_upd_other in Hk' by exact Hn. right. exists k'. exact Hk'.
  Qed.

  (* ---- remove ---- *)
  Lemma probe_attr_spec : forall t size h0 e fuel cur k,
    probe_attr t size h0 e fuel cur = Done (Some k) -> slot_at t k = SAttr e.
  Proof.
    intros t size h0 e. induction fuel as [|fu IH]; intros cur k H; [discriminate|]. cbn in H.
    destruct (slot_at t cur) as [| |e'] eqn:E; [discriminate|exact (IH _ _ H)|].
    destruct (Nat.eqb_spec e' e) as [->|Hn]; [injection H as <-; exact E|exact (IH _ _ H)].
  Qed.
  Lemma remove_wf : forall m e m', wf m -> im_remove val m e = Done m' ->
    wf m' /\ (forall e', e' <> e -> present m e' -> present m' e') /\ (forall e', present m' e' -> present m e').
  Proof.
    intros m e m' [Hl [Hs Hr]] H. unfold im_remove in H.
    destruct (probe_attr _ _ _ e _ _) as [[k|]| |] eqn:E; try discriminate.
    - injection H as <-. pose proof (probe_attr_spec _ _ _ _ _ _ _ E) as Hk.
      assert (Hkl : k < length (im_tab m)).
      { destruct (Nat.lt_ge_cases k (length (im_tab m))) as [Hlt|Hge]; [exact Hlt|].
        unfold slot_at in Hk. rewrite nth_overflow in Hk by exact Hge. discriminate. }
      assert (Hmono : forall x, nonempty (slot_at (im_tab m) x) -> nonempty (slot_at (upd k SDel (im_tab m)) x)).
      { intros x Hx. destruct (Nat.eq_dec k x) as [<-|Hn]; [rewrite slot_upd_same by exact Hkl; discriminate|].
        rewrite slot_upd_other by exact Hn. exact Hx. }
      split; [|split].
      + split; [cbn; rewrite upd_length; exact Hl|]. split; [exact Hs|]. cbn [im_tab im_size].
        intros k' e' Hs'. destruct (Nat.eq_dec k k') as [<-|Hn]; [rewrite slot_upd_same in Hs' by exact Hkl; discriminate|].
        rewrite slot_upd_other in Hs' by exact Hn. destruct (Hr k' e' Hs') as [j' [H1 [H2 H3]]].
        exists j'. split; [exact H1|]. split; [exact H2|]. intros i Hi. apply Hmono. apply H3. exact Hi.
      + intros e' Hne [k' Hk']. exists k'. cbn [im_tab]. destruct (Nat.eq_dec k k') as [<-|Hn]; [rewrite Hk in Hk'; injection Hk' as <-; exfalso; apply Hne; reflexivity|].
        rewrite slot_upd_other by exact Hn. exact Hk'.
      + intros e' [k' Hk']. cbn [im_tab] in Hk'. destruct (Nat.eq_dec k k') as [<-|Hn]; [rewrite slot_upd_same in Hk' by exact Hkl; discriminate|].
        rewrite slot_upd_other in Hk' by exact Hn. exists k'. exact Hk'.
    - injection H as <-. split; [split; [exact Hl|split; [exact Hs|exact Hr]]|]. split; intros; assumption.
  Qed.

  (* ---- add with growth: nothing is lost ---- *)
  Lemma sizes_ge2 : forall k s mx, size_at k = Some (s, mx) -> 2 <= s.
  Proof.
    intros k s mx H. unfold size_at in H. destruct (nth_error idmap_sizes k) as [[sN mN]|] eqn:E; [|discriminate].
    injection H as <- _. apply nth_error_In in E.
    assert (Hall : forallb (fun p => (2 <=? fst p)%N) idmap_sizes = true) by (vm_compute; reflexivity).
    rewrite forallb_forall in Hall. specialize (Hall _ E). cbn in Hall. apply N.leb_le in Hall. lia.
  Qed.
  Lemma empty_wf : forall s idx n mx, 2 <= s ->
    wf {| im_tab := repeat SEmpty s; im_size := s; im_idx := idx; im_num := n; im_max := mx |} /\
    forall e, ~ present {| im_tab := repeat SEmpty s; im_size := s; im_idx := idx; im_num := n; im_max := mx |} e.
  Proof.
    intros s idx n mx Hs.
    assert (He : forall k, slot_at (repeat SEmpty s) k = SEmpty).
    { intros k. unfold slot_at. clear. revert k. induction s as [|s IH]; intros [|k]; cbn; auto. }
    split.
    - split; [cbn [im_tab im_size]; apply repeat_length|]. split; [exact Hs|]. cbn [im_tab im_size]. intros k e H. rewrite He in H. discriminate.
    - intros e [k Hk]. cbn [im_tab] in Hk. rewrite He in Hk. discriminate.
  Qed.
  Lemma with_num_wf : forall m n, wf m -> wf (with_num m n).
  Proof. intros m n H. exact H. Qed.

  Definition keeps (m m' : idmap) : Prop := forall e, present m e -> present m' e.

  Lemma add_wf : forall fuel m e m', wf m -> im_add val fuel m e = Done m' ->
    wf m' /\ present m' e /\ keeps m m' /\ (forall e', present m' e' -> e' = e \/ present m e').
  Proof.
    induction fuel as [|fu IH]; intros m e m' Hwf H; [discriminate|]. cbn [im_add] in H.
    destruct (im_max m <=? im_num m).
    - destruct (size_at (S (im_idx m))) as [[s mx]|] eqn:Es; [|discriminate].
      pose proof (sizes_ge2 _ _ _ Es) as Hs2.
      set (m0 := {| im_tab := repeat SEmpty s; im_size := s; im_idx := S (im_idx m); im_num := im_num m; im_max := mx |}) in *.
      destruct (empty_wf s (S (im_idx m)) (im_num m) mx Hs2) as [Hw0 Hp0]. fold m0 in Hw0, Hp0.
      (* the re-insertion loop over the old table *)
      assert (Hfold : forall l acc mr,
                 fold_left (fun acc sl => match acc, sl with Done m', SAttr e' => im_add val fu m' e' | _, _ => acc end) l (Done acc) = Done mr ->
                 wf acc -> wf mr /\ keeps acc mr /\ (forall e', In (SAttr e') l -> present mr e') /\
                           (forall e', present mr e' -> present acc e' \/ In (SAttr e') l)).
      { induction l as [|sl l IHl]; intros acc mr Hf Hacc.
        - cbn in Hf. injection Hf as <-. split; [exact Hacc|]. split; [intros x Hx; exact Hx|]. split; [intros e' []|intros e' He'; left; exact He'].
        - cbn [fold_left] in Hf. destruct sl as [| |e0].
          + destruct (IHl _ _ Hf Hacc) as [A [B [C D]]]. split; [exact A|]. split; [exact B|]. split.
            * intros e' [Hx|Hx]; [discriminate|apply C; exact Hx].
            * intros e' He'. destruct (D e' He') as [|]; [left; assumption|right; right; assumption].
          + destruct (IHl _ _ Hf Hacc) as [A [B [C D]]]. split; [exact A|]. split; [exact B|]. split.
            * intros e' [Hx|Hx]; [discriminate|apply C; exact Hx].
            * intros e' He'. destruct (D e' He') as [|]; [left; assumption|right; right; assumption].
          + destruct (im_add val fu acc e0) as [acc1| |] eqn:Ea.
            * destruct (IH _ _ _ Hacc Ea) as [W1 [P1 [K1 O1]]].
              destruct (IHl _ _ Hf W1) as [A [B [C D]]]. split; [exact A|]. split; [intros x Hx; apply B; apply K1; exact Hx|]. split.
              -- intros e' [Hx|Hx]; [injection Hx as <-; apply B; exact P1|apply C; exact Hx].
              -- intros e' He'. destruct (D e' He') as [Hd|Hd]; [|right; right; exact Hd].
                 destruct (O1 e' Hd) as [->|Ho]; [right; left; reflexivity|left; exact Ho].
            * exfalso. clear -Hf. induction l as [|x l IHl']; [discriminate|]. cbn in Hf. apply IHl'. exact Hf.
            * exfalso. clear -Hf. induction l as [|x l IHl']; [discriminate|]. cbn in Hf. apply IHl'. exact Hf. }
      destruct (fold_left _ (im_tab m) (Done m0)) as [m1| |] eqn:Ef; try discriminate.
      destruct (Hfold _ _ _ Ef Hw0) as [W1 [_ [C1 D1]]].
      destruct (put_wf _ _ _ (with_num_wf m1 (S (im_num m1)) W1) H) as [W2 [P2 [K2 [O2 _]]]].
      split; [exact W2|]. split; [exact P2|]. split.
      + intros e' [k Hk]. apply K2. apply C1. unfold slot_at in Hk.
        destruct (Nat.lt_ge_cases k (length (im_tab m))) as [Hlt|Hge]; [|rewrite nth_overflow in Hk by exact Hge; discriminate].
        rewrite <- Hk. apply nth_In. exact Hlt.
      + intros e' He'. destruct (O2 e' He') as [->|Ho]; [left; reflexivity|]. right.
        destruct (D1 e' Ho) as [Hd|Hd]; [exfalso; exact (Hp0 e' Hd)|].
        apply In_nth with (d := SEmpty) in Hd. destruct Hd as [k [_ Hk]]. exists k. exact Hk.
    - destruct (put_wf _ _ _ (with_num_wf m (S (im_num m)) Hwf) H) as [W2 [P2 [K2 [O2 _]]]].
      split; [exact W2|]. split; [exact P2|]. split; [exact K2|exact O2].
  Qed.
End Map.

(** the invariant only reads the values of the entries that are in the table *)
Lemma wf_ext : forall val val' m, (forall e, present m e -> val e = val' e) -> wf val m -> wf val' m.
Proof.
  intros val val' m H [Hl [Hs Hr]]. split; [exact Hl|]. split; [exact Hs|]. intros k e Hk.
  destruct (Hr k e Hk) as [j [H1 [H2 H3]]]. unfold reach. rewrite <- (H e (ex_intro _ k Hk)).
  exists j. split; [exact H1|]. split; [exact H2|exact H3].
Qed.

(* ---------------------------------------------------------------------------------------------------------- *)
(** * sequences of add / remove: nothing that the specification map contains is lost (growth included) *)
Inductive top := TAdd (e : nat) | TRemove (e : nat).
Fixpoint t_run (val : nat -> list N) (fuel : nat) (m : idmap) (l : list top) : outcome idmap :=
  match l with
  | [] => Done m
  | TAdd e :: r => match im_add val fuel m e with Done m' => t_run val fuel m' r | o => o end
  | TRemove e :: r => match im_remove val m e with Done m' => t_run val fuel m' r | o => o end
  end.
(** the specification: the set of elements whose ID attribute is registered *)
Fixpoint spec_set (s : list nat) (l : list top) : list nat :=
  match l with
  | [] => s
  | TAdd e :: r => spec_set (e :: s) r
  | TRemove e :: r => spec_set (filter (fun x => negb (x =? e)) s) r
  end.

Theorem seq_nothing_lost : forall val fuel l m s m', wf val m -> (forall e, In e s -> present m e) ->
  t_run val fuel m l = Done m' -> wf val m' /\ forall e, In e (spec_set s l) -> present m' e.
Proof.
  intros val fuel. induction l as [|[e|e] r IH]; intros m s m' Hwf Hs H.
  - cbn in H. injection H as <-. split; [exact Hwf|exact Hs].
  - cbn in H. destruct (im_add val fuel m e) as [m1| |] eqn:Ea; try discriminate.
    destruct (add_wf val fuel m e m1 Hwf Ea) as [W [P [K _]]].
    apply (IH m1 (e :: s) m' W); [|exact H]. intros x [<-|Hx]; [exact P|apply K; apply Hs; exact Hx].
  - cbn in H. destruct (im_remove val m e) as [m1| |] eqn:Er; try discriminate.
    destruct (remove_wf val m e m1 Hwf Er) as [W [K _]].
    apply (IH m1 (filter (fun x => negb (x =? e)) s) m' W); [|exact H].
    intros x Hx. apply filter_In in Hx. destruct Hx as [Hin Hne]. apply K; [|apply Hs; exact Hin].
    intros ->. rewrite Nat.eqb_refl in Hne. discriminate.
Qed.

(** ... and nothing is invented: every entry of the table was added *)
Theorem seq_no_ghost : forall val fuel l m s m', wf val m -> (forall e, present m e -> In e s) ->
  t_run val fuel m l = Done m' -> forall e, present m' e -> In e (s ++ flat_map (fun o => match o with TAdd x => [x] | _ => [] end) l).
Proof.
  intros val fuel. induction l as [|[e|e] r IH]; intros m s m' Hwf Hs H x Hx.
  - cbn in H. injection H as <-. rewrite app_nil_r. apply Hs. exact Hx.
  - cbn in H. destruct (im_add val fuel m e) as [m1| |] eqn:Ea; try discriminate.
    destruct (add_wf val fuel m e m1 Hwf Ea) as [W [_ [_ O]]].
    assert (Hs1 : forall y, present m1 y -> In y (s ++ [e])).
    { intros y Hy. apply in_or_app. destruct (O y Hy) as [->|Hp]; [right; left; reflexivity|left; apply Hs; exact Hp]. }
    pose proof (IH m1 (s ++ [e]) m' W Hs1 H x Hx) as Hin. rewrite <- app_assoc in Hin. exact Hin.
  - cbn in H. destruct (im_remove val m e) as [m1| |] eqn:Er; try discriminate.
    destruct (remove_wf val m e m1 Hwf Er) as [W [_ O]].
    apply (IH m1 s m' W (fun y Hy => Hs y (O y Hy)) H x Hx).
Qed.

Lemma im_new_wf : forall val, wf val im_new /\ forall e, ~ present im_new e.
Proof.
  intros val. unfold im_new.
  set (K := (fix go (l : list (N * N)) (k : nat) {struct l} : nat :=
               match l with [] => k | (s, _) :: r => if N.ltb s idmap_initial then go r (S k) else k end) idmap_sizes 0).
  destruct (size_at K) as [[s mx]|] eqn:E.
  - apply empty_wf. eapply sizes_ge2. exact E.
  - exfalso. vm_compute in E. discriminate.
Qed.

(** T14_idmap: after ANY sequence of add / remove on the document's (initially empty) table -- whatever growth
    happened on the way -- every element of the specification set is found under its ID value, provided the ID values
    of the registered attributes are pairwise different (the documented precondition of DOMNodeIDMap), and whatever
    find returns is a registered element with exactly that value *)
Theorem idmap_correct : forall val fuel l m',
  t_run val fuel im_new l = Done m' ->
  (forall e, In e (spec_set [] l) ->
     (forall e', present m' e' -> val e' = val e -> e' = e) -> im_find val m' (val e) = Done (Some e)) /\
  (forall v e, im_find val m' v = Done (Some e) -> present m' e /\ val e = v) /\
  (forall v, (forall e, present m' e -> val e <> v) -> im_find val m' v = Done None \/ im_find val m' v = Hang).
Proof.
  intros val fuel l m' H. destruct (im_new_wf val) as [W0 P0].
  destruct (seq_nothing_lost val fuel l im_new [] m' W0 (fun e (F : In e []) => match F with end) H) as [W Hin].
  split; [|split].
  - intros e He Hd. apply find_complete; [exact W|apply Hin; exact He|]. intros e' k' Hk'. apply Hd. exists k'. exact Hk'.
  - exact (find_sound val m').
  - exact (find_absent val m').
Qed.

(* ---------------------------------------------------------------------------------------------------------- *)
(** * remove takes the entry out (when every attribute is registered at most once) *)
Definition unique_entries (m : idmap) : Prop :=
  forall k k' e, slot_at (im_tab m) k = SAttr e -> slot_at (im_tab m) k' = SAttr e -> k = k'.

Lemma probe_attr_reach : forall t size h0 e j i fuel,
  slot_at t (pos size h0 j) = SAttr e ->
  (forall l, l < j -> slot_at t (pos size h0 l) <> SEmpty) ->
  i <= j -> j - i < fuel ->
  exists k, probe_attr t size h0 e fuel (pos size h0 i) = Done (Some k).
Proof.
  intros t size h0 e j i fuel Hj Hne. revert i. induction fuel as [|fu IH]; intros i Hi Hf; [lia|].
  cbn. destruct (Nat.eq_dec i j) as [->|Hn].
  - rewrite Hj, Nat.eqb_refl. eexists. reflexivity.
  - assert (Hlt : i < j) by lia. pose proof (Hne i Hlt) as Hni.
    destruct (slot_at t (pos size h0 i)) as [| |e'] eqn:E.
    + exfalso. apply Hni. reflexivity.
    + rewrite <- pos_shift. apply IH; lia.
    + destruct (e' =? e); [eexists; reflexivity|]. rewrite <- pos_shift. apply IH; lia.
Qed.

Theorem remove_gone : forall val m e m', wf val m -> unique_entries m -> present m e ->
  im_remove val m e = Done m' -> ~ present m' e.
Proof.
  intros val m e m' [Hl [Hs Hr]] Hu [k0 Hk0] H. destruct (Hr k0 e Hk0) as [j [Hj [Hp Hne]]].
  unfold im_remove in H.
  destruct (probe_attr_reach (im_tab m) (im_size m) (h0_of (im_size m) (val e)) e j 0 (im_size m)) as [k Ek];
    [rewrite Hp; exact Hk0|exact Hne|lia|lia|].
  cbn [pos] in Ek. rewrite Ek in H. injection H as <-.
  pose proof (probe_attr_spec _ _ _ _ _ _ _ Ek) as Hk.
  assert (Hkl : k < length (im_tab m)).
  { destruct (Nat.lt_ge_cases k (length (im_tab m))) as [Hlt|Hge]; [exact Hlt|].
    unfold slot_at in Hk. rewrite nth_overflow in Hk by exact Hge. discriminate. }
  intros [k' Hk']. cbn [im_tab] in Hk'. destruct (Nat.eq_dec k k') as [<-|Hn].
  - rewrite slot_upd_same in Hk' by exact Hkl. discriminate.
  - rewrite slot_upd_other in Hk' by exact Hn. apply Hn. exact (Hu k k' e Hk Hk').
Qed.
