(** C14 -- discharging the navigation hypotheses of Proofs14b/c on well-formed forests:
    NodeIterator nextNode = specification (unconditional), getElementsByTagName item/length (unconditional). *)
From Coq Require Import List NArith Arith Bool Lia.
From XV Require Import C14.Spec14 C14.Hist14 C14.Model14 C14.Tree14 C14.Nav14 C14.Proofs14b C14.Proofs14c.
Import ListNotations.

Lemma md_climb_eq : forall f root fuel cur, md_climb f root fuel cur = mi_climb f root fuel cur.
Proof.
  intros f root. induction fuel as [|fu IH]; intros cur; [reflexivity|]. cbn. destruct cur as [c|]; [|reflexivity].
  destruct (c =? root); [reflexivity|]. destruct (m_next_sibling f c); [reflexivity|]. apply IH.
Qed.

Lemma mi_next_raw_is_raw : forall f R c, mi_next_raw f R (Some c) true = raw f R (m_fuel f) c.
Proof.
  intros f R c. unfold mi_next_raw, raw, skipnext. cbn [andb mi_climb]. destruct (m_has_kids f c); [reflexivity|].
  destruct (c =? R); [reflexivity|]. destruct (m_next_sibling f c); reflexivity.
Qed.

Section OnForest.
  Variable f : forest.
  Hypothesis Hwf : wf_forest f.

  Lemma order_of_root : forall R Rt, find_node f R = Some Rt -> it_order f R = docorder Rt.
  Proof. intros R Rt H. unfold it_order. rewrite H. reflexivity. Qed.

  (** the iterator's pointer walk is the successor in document order *)
  Theorem iter_next_nav : forall R Rt, find_node f R = Some Rt ->
    forall k c, nth_error (ids (it_order f R)) k = Some c ->
    mi_next_raw f R (Some c) true = nth_error (ids (it_order f R)) (S k).
  Proof.
    intros R Rt HR k c Hk. rewrite (order_of_root R Rt HR) in *. rewrite mi_next_raw_is_raw.
    apply (raw_is_successor f R Hwf (m_fuel f) Rt HR); [unfold m_fuel; lia|exact Hk].
  Qed.

  Lemma accept_wf : forall tab it s, In s (fnodes f) ->
    it_accepts tab (mi_what it) (mi_usef it) s = mi_accept tab f it (tid s).
  Proof.
    intros tab it s Hs. unfold it_accepts, view_verdict, mi_accept, m_shown, m_kind, m_filter.
    rewrite (find_node_wf f s Hwf Hs).
    destruct (mi_usef it); destruct (shown (mi_what it) (tkind s)); cbn [andb]; try reflexivity.
  Qed.

  (** T14_iter_position, nextNode, without navigation hypotheses *)
  Theorem iter_next_unconditional : forall tab it0 Rt, find_node f (mi_root it0) = Some Rt ->
    forall cur fwd, (forall c, cur = Some c -> In c (ids (it_order f (mi_root it0)))) ->
    sp_it_next tab f (abs_it (mi_set it0 cur fwd)) =
    (fst (mi_next tab f (mi_set it0 cur fwd)), abs_it (snd (mi_next tab f (mi_set it0 cur fwd)))).
  Proof.
    intros tab it0 Rt HR cur fwd Hcur. destruct (find_node_in f _ Rt HR) as [Hin HtR].
    apply (next_is_spec tab f it0).
    - rewrite (order_of_root _ Rt HR). exact (nodup_sub f Rt Hwf Hin).
    - rewrite (order_of_root _ Rt HR), docorder_eq. cbn. rewrite HtR. reflexivity.
    - rewrite (order_of_root _ Rt HR). unfold ids. rewrite map_length. pose proof (len_sub f Rt Hin).
      unfold m_fuel, fnodes. unfold dnodes in H. lia.
    - exact (iter_next_nav _ Rt HR).
    - intros s Hs. apply accept_wf. rewrite (order_of_root _ Rt HR) in Hs. exact (sub_in_dnodes f Rt s Hin Hs).
    - exact Hcur.
  Qed.

  (* ---- getElementsByTagName ---- *)
  Lemma md_step_is_raw : forall root c,
    (if m_has_kids f c then m_first_child f c
     else if negb (c =? root) && is_some (m_next_sibling f c) then m_next_sibling f c
     else md_climb f root (m_fuel f) (Some c)) = raw f root (length (fnodes f)) c.
  Proof.
    intros root c. unfold raw, skipnext, m_fuel. rewrite md_climb_eq. cbn [mi_climb]. destruct (m_has_kids f c); [reflexivity|].
    destruct (c =? root); cbn [negb andb]; [reflexivity|]. destruct (m_next_sibling f c); reflexivity.
  Qed.

  Definition matchb (root : nat) (name : list N) (n : nat) : bool := negb (n =? root) && md_matches f name n.

  Lemma md_scan : forall root name Rt, find_node f root = Some Rt ->
    forall fuel j c, nth_error (ids (docorder Rt)) j = Some c -> length (docorder Rt) - j <= fuel ->
    md_next_match f root name fuel (Some c) = find (matchb root name) (skipn (S j) (ids (docorder Rt))).
  Proof.
    intros root name Rt HR. induction fuel as [|fu IH]; intros j c Hj Hf.
    - assert (j < length (ids (docorder Rt))) by (apply nth_error_Some; rewrite Hj; discriminate).
      unfold ids in H. rewrite map_length in H. lia.
    - cbn [md_next_match]. rewrite md_step_is_raw.
      rewrite (raw_is_successor f root Hwf (length (fnodes f)) Rt HR ltac:(lia) j c Hj).
      destruct (nth_error (ids (docorder Rt)) (S j)) as [n|] eqn:E.
      + rewrite (skipn_nth (S j) _ n E). cbn [find]. unfold matchb at 1.
        destruct (negb (n =? root) && md_matches f name n); [reflexivity|].
        apply (IH (S j) n E). lia.
      + apply nth_error_None in E. rewrite (skipn_all2 _ E). reflexivity.
  Qed.

  Lemma find_hd_filter : forall {A} (P : A -> bool) l, find P l = hd_error (filter P l).
  Proof. intros A P. induction l as [|x l IH]; [reflexivity|]. cbn. destruct (P x); [reflexivity|exact IH]. Qed.
  Lemma filter_next : forall {A} (P : A -> bool) l k c, nth_error (filter P l) k = Some c ->
    exists j, nth_error l j = Some c /\ find P (skipn (S j) l) = nth_error (filter P l) (S k).
  Proof.
    intros A P. induction l as [|x l IH]; intros k c H; [destruct k; discriminate|]. cbn [filter] in *.
    destruct (P x) eqn:Ex.
    - destruct k as [|k]; cbn in H.
      + injection H as <-. exists 0. split; [reflexivity|]. cbn [skipn nth_error]. apply find_hd_filter.
      + destruct (IH k c H) as [j [H1 H2]]. exists (S j). split; [exact H1|]. cbn [nth_error]. exact H2.
    - destruct (IH k c H) as [j [H1 H2]]. exists (S j). split; [exact H1|exact H2].
  Qed.
  Lemma filter_map_ids : forall (P : tree -> bool) (Q : nat -> bool) l, (forall s, In s l -> P s = Q (tid s)) ->
    ids (filter P l) = filter Q (ids l).
  Proof.
    intros P Q. unfold ids. induction l as [|s l IH]; intros H; [reflexivity|].
    assert (IH' := IH (fun s' Hs' => H s' (or_intror Hs'))).
    cbn [filter map]. rewrite <- (H s (or_introl eq_refl)). destruct (P s); cbn [map]; [f_equal|]; exact IH'.
  Qed.

  Lemma filter_length_le' : forall {A} (P : A -> bool) l, length (filter P l) <= length l.
  Proof. intros A P. induction l as [|x l IH]; [cbn; lia|]. cbn. destruct (P x); cbn; lia. Qed.

  Theorem dl_nav : forall root name Rt, find_node f root = Some Rt ->
    (forall k c, nth_error (root :: sp_tag_list f root name) k = Some c ->
       md_next_match f root name (m_fuel f) (Some c) = nth_error (root :: sp_tag_list f root name) (S k)) /\
    length (sp_tag_list f root name) < m_fuel f.
  Proof.
    intros root name Rt HR. destruct (find_node_in f root Rt HR) as [Hin HtR].
    pose proof (nodup_sub f Rt Hwf Hin) as Hnd.
    assert (Hord : ids (docorder Rt) = root :: ids (dnodes (tkids Rt))) by (rewrite docorder_eq; cbn; rewrite HtR; reflexivity).
    assert (Hm : sp_tag_list f root name = filter (matchb root name) (ids (dnodes (tkids Rt)))).
    { unfold sp_tag_list. rewrite HR. rewrite docorder_eq. cbn [tl]. apply filter_map_ids.
      intros s Hs. unfold matchb, md_matches.
      assert (Hsf : In s (fnodes f)) by (apply (sub_in_dnodes f Rt s Hin); rewrite docorder_eq; right; exact Hs).
      rewrite (find_node_wf f s Hwf Hsf).
      destruct (Nat.eqb_spec (tid s) root) as [E|_]; [|reflexivity].
      exfalso. rewrite <- HtR in E. exact (self_not_proper Rt s Hnd Hs E). }
    assert (Hlen : length (docorder Rt) <= length (fnodes f)) by (pose proof (len_sub f Rt Hin) as H; unfold dnodes in H; exact H).
    split.
    - intros k c Hk. rewrite Hm in *. destruct k as [|k]; cbn [nth_error] in Hk.
      + injection Hk as <-. rewrite (md_scan root name Rt HR (m_fuel f) 0 root); [|rewrite Hord; reflexivity|unfold m_fuel; lia].
        rewrite Hord. cbn [skipn nth_error]. apply find_hd_filter.
      + destruct (filter_next (matchb root name) _ k c Hk) as [j [H1 H2]].
        rewrite (md_scan root name Rt HR (m_fuel f) (S j) c); [|rewrite Hord; exact H1|unfold m_fuel; lia].
        rewrite Hord. cbn [skipn nth_error]. exact H2.
    - rewrite Hm. pose proof (filter_length_le' (matchb root name) (ids (dnodes (tkids Rt)))) as H.
      assert (H0 : length (ids (dnodes (tkids Rt))) = length (dnodes (tkids Rt))) by (unfold ids; apply map_length).
      rewrite docorder_eq in Hlen. cbn [length] in Hlen. unfold m_fuel. lia.
  Qed.

  (** T14_deeplist without navigation hypotheses *)
  Theorem deeplist_unconditional : forall root name Rt, find_node f root = Some Rt ->
    forall changes l, cache_ok f root name changes l ->
    (forall i, fst (md_cache_item f changes l (S i)) = nth_error (sp_tag_list f root name) i /\
               cache_ok f root name changes (snd (md_cache_item f changes l (S i)))) /\
    fst (md_length f changes l) = length (sp_tag_list f root name) /\
    cache_ok f root name changes (snd (md_length f changes l)).
  Proof.
    intros root name Rt HR changes l Hok. destruct (dl_nav root name Rt HR) as [Hn Hf].
    split; [|exact (length_correct f root name Hn Hf changes l Hok)].
    intros i. destruct (cache_item_correct f root name Hn Hf changes l i Hok) as [A [B _]]. split; assumption.
  Qed.
End OnForest.
