(** C14 -- histories: the operations a client performs on one document with live views, their observable
    results, and the *specification* interpreter [sp_run] (reference tree + abstract view states of Spec14.v).
    The model interpreter (Model14.v, following the C++) runs the same histories. *)
From Coq Require Import List NArith Arith Bool.
From XV Require Import C14.Spec14.
Import ListNotations.

Inductive op :=
| ONewE (name : list N) | ONewT (v : list N) | ONewC (v : list N)
| OIns (p n : nat) (r : option nat) | ORm (x : nat)
| OIData (x off : nat) (s : list N) | ODData (x off cnt : nat) | ORData (x off cnt : nat) (s : list N)
| OSData (x : nat) (s : list N) | OAData (x : nat) (s : list N) | OSplit (x off : nat)
| OVal (x : nat)
| OIt (root : nat) (what : N) (usef : bool) | OItNext (k : nat) | OItPrev (k : nat) | OItDetach (k : nat)
| OTw (root : nat) (what : N) (usef : bool) | OW (m : wmove) (k : nat) | OWGet (k : nat) | OWSet (k x : nat)
| ODl (root : nat) (name : list N) | ODLen (k : nat) | ODItem (k i : nat)
| ORg | ORSetS (k x off : nat) | ORSetE (k x off : nat) | ORColl (k : nat) (toStart : bool)
| ORCmp (k how k2 : nat) | ORDetach (k : nat)
| ORSetSB (k x : nat) | ORSetSA (k x : nat) | ORSetEB (k x : nat) | ORSetEA (k x : nat) | ORSelC (k x : nat).

Inductive res :=
| RNode (o : option nat) | RNew (n : nat) | ROk | RErr (c : nat) | RRErr (c : nat) | RGuard
| RIt (k : nat) | RTw (k : nat) | RDl (k : nat) | RRg (k : nat) | RLen (n : nat) | RCmp (c : comparison)
| RVal (v : list N) | RKids (l : list nat) | RUnspec.

(** one answer: the result of the op and the state of every range created so far (None = detached), each with
    the validity verdict [range_ok] of the specification *)
Definition answer := (res * list (option (range * bool)))%type.
Definition judge (f : forest) (l : list (option range)) : list (option (range * bool)) :=
  map (option_map (fun r => (r, match f with m :: _ => range_ok m r | [] => false end))) l.

(* generic helpers *)
Fixpoint upd {A} (k : nat) (x : A) (l : list A) : list A :=
  match l, k with
  | [], _ => []
  | _ :: r, O => x :: r
  | y :: r, S k' => y :: upd k' x r
  end.
Definition omap {A} (g : A -> A) (l : list (option A)) : list (option A) := map (option_map g) l.
Definition is_some {A} (o : option A) : bool := match o with Some _ => true | None => false end.
Definition is_nil {A} (l : list A) : bool := match l with [] => true | _ => false end.
Definition splice {A} (off : nat) (ins : list A) (l : list A) : list A := firstn off l ++ ins ++ skipn off l.
Definition cut {A} (off cnt : nat) (l : list A) : list A := firstn off l ++ skipn (off + cnt) l.

(** is a an ancestor-or-self of b *)
Definition anc_or_self (f : forest) (a b : nat) : bool := memb b (sub_ids f a).
Definition kids_of (f : forest) (i : nat) : list nat :=
  match find_node f i with Some s => ids (tkids s) | None => [] end.
Definition parent_id (f : forest) (i : nat) : option nat := option_map tid (find_parent f i).
Definition kind_of (f : forest) (i : nat) : option kind := option_map tkind (find_node f i).
Definition val_of (f : forest) (i : nat) : list N := match find_node f i with Some s => tval s | None => [] end.

(* ---------------------------------------------------------------------------------------------------------- *)
(** * the specification state and interpreter *)
Record sp_state := {
  ss_f : forest; ss_next : nat;
  ss_its : list (option sp_iter); ss_tws : list sp_walker; ss_dls : list (nat * list N);
  ss_rgs : list (option range); ss_tab : list N }.

Definition ss_with (s : sp_state) (f : forest) (its : list (option sp_iter)) (rgs : list (option range)) : sp_state :=
  {| ss_f := f; ss_next := ss_next s; ss_its := its; ss_tws := ss_tws s; ss_dls := ss_dls s; ss_rgs := rgs;
     ss_tab := ss_tab s |}.

(** removal of the attached node x: views first (they look at the tree before the removal), then the tree *)
Definition sp_do_remove (s : sp_state) (x : nat) : sp_state :=
  let f := ss_f s in
  match parent_id f x with
  | None => s
  | Some p =>
    let k := index_of x (kids_of f p) in
    let sub := sub_ids f x in
    ss_with s (f_remove f x) (omap (sp_it_remove f x) (ss_its s)) (omap (r_map (bp_del_node p k sub)) (ss_rgs s))
  end.
(** insertion of the detached top-level node n under p before r *)
Definition sp_do_insert (s : sp_state) (p : nat) (r : option nat) (n : nat) : sp_state :=
  let f' := f_insert (ss_f s) p r n in
  let k := index_of n (kids_of f' p) in
  ss_with s f' (ss_its s) (omap (r_map (bp_ins_node p k)) (ss_rgs s)).
Definition sp_do_ins_text (s : sp_state) (x off : nat) (t : list N) : sp_state :=
  ss_with s (f_set_val (ss_f s) x (splice off t (val_of (ss_f s) x))) (ss_its s)
          (omap (r_map (bp_ins_text x off (length t))) (ss_rgs s)).
Definition sp_do_del_text (s : sp_state) (x off cnt : nat) : sp_state :=
  ss_with s (f_set_val (ss_f s) x (cut off cnt (val_of (ss_f s) x))) (ss_its s)
          (omap (r_map (bp_del_text x off cnt)) (ss_rgs s)).

Definition new_node (s : sp_state) (k : kind) (v : list N) : res * sp_state :=
  (RNew (ss_next s),
   {| ss_f := f_add (ss_f s) (Node (ss_next s) k v []); ss_next := S (ss_next s); ss_its := ss_its s;
      ss_tws := ss_tws s; ss_dls := ss_dls s; ss_rgs := ss_rgs s; ss_tab := ss_tab s |}).

Definition known (f : forest) (i : nat) : bool := is_some (find_node f i).
Definition chardata_node (f : forest) (x : nat) : bool :=
  match kind_of f x with Some k => is_chardata k | None => false end.

Definition get_opt {A} (l : list (option A)) (k : nat) : option A := match nth_error l k with Some o => o | None => None end.

Definition sp_step (s : sp_state) (o : op) : res * sp_state :=
  let f := ss_f s in
  match o with
  | ONewE nm => new_node s KElem nm
  | ONewT v => new_node s KText v
  | ONewC v => new_node s KComment v
  | OIns p n r =>
    if negb (known f p) || negb (known f n) || (p =? 0) || (n =? 0) || (n =? 1) || (p =? n)
       || (match r with Some ri => negb (known f ri) | None => false end) then (RGuard, s)
    else if negb (match kind_of f p with Some KElem => true | _ => false end) then (RErr 3, s)
    else if anc_or_self f n p then (RErr 3, s)
    else if match r with Some ri => negb (memb ri (kids_of f p)) | None => false end then (RErr 8, s)
    else if match r with Some ri => ri =? n | None => false end then (ROk, s)
    else (ROk, sp_do_insert (sp_do_remove s n) p r n)
  | ORm x =>
    if negb (known f x) || (x =? 0) || (x =? 1) || negb (is_some (parent_id f x)) then (RGuard, s)
    else (ROk, sp_do_remove s x)
  | OIData x off t =>
    if negb (chardata_node f x) then (RGuard, s)
    else if length (val_of f x) <? off then (RErr 1, s)
    else (ROk, sp_do_ins_text s x off t)
  | ODData x off cnt =>
    if negb (chardata_node f x) then (RGuard, s)
    else if length (val_of f x) <? off then (RErr 1, s)
    else (ROk, sp_do_del_text s x off (Nat.min cnt (length (val_of f x) - off)))
  | ORData x off cnt t =>
    if negb (chardata_node f x) then (RGuard, s)
    else if length (val_of f x) <? off then (RErr 1, s)
    else (ROk, sp_do_ins_text (sp_do_del_text s x off (Nat.min cnt (length (val_of f x) - off))) x off t)
  | OSData x t =>
    if negb (chardata_node f x) then (RGuard, s)
    else (ROk, ss_with s (f_set_val f x t) (ss_its s) (omap (r_map (bp_set_text x)) (ss_rgs s)))
  | OAData x t =>
    if negb (chardata_node f x) then (RGuard, s)
    else (ROk, ss_with s (f_set_val f x (val_of f x ++ t)) (ss_its s) (ss_rgs s))
  | OSplit x off =>
    if negb (match kind_of f x with Some KText => true | _ => false end) then (RGuard, s)
    else if length (val_of f x) <? off then (RErr 1, s)
    else
      let nw := ss_next s in
      let v := val_of f x in
      let '(_, s1) := new_node s KText (skipn off v) in
      let s2 := match parent_id f x with
                | Some p => sp_do_insert s1 p (after_in x (kids_of f p)) nw
                | None => s1
                end in
      let rg3 := omap (r_map (bp_split x nw off)) (ss_rgs s2) in
      let rg4 := match parent_id f x with
                 | Some p => omap (r_map (bp_split_parent p (index_of x (kids_of f p)))) rg3
                 | None => rg3
                 end in
      (RNew nw, ss_with s2 (f_set_val (ss_f s2) x (firstn off v)) (ss_its s2) rg4)
  | OVal x =>
    match find_node f x with
    | None => (RGuard, s)
    | Some t => (if is_chardata (tkind t) then RVal (tval t) else RKids (ids (tkids t)), s)
    end
  (* ---- NodeIterator ---- *)
  | OIt root what usef =>
    if negb (in_main f root) then (RGuard, s)
    else (RIt (length (ss_its s)),
          {| ss_f := f; ss_next := ss_next s;
             ss_its := ss_its s ++ [Some {| si_root := root; si_what := what; si_usef := usef; si_ref := None; si_after := true |}];
             ss_tws := ss_tws s; ss_dls := ss_dls s; ss_rgs := ss_rgs s; ss_tab := ss_tab s |})
  | OItNext k =>
    match get_opt (ss_its s) k with
    | None => (RGuard, s)
    | Some it => let '(r, it') := sp_it_next (ss_tab s) f it in
                 (RNode r, ss_with s f (upd k (Some it') (ss_its s)) (ss_rgs s))
    end
  | OItPrev k =>
    match get_opt (ss_its s) k with
    | None => (RGuard, s)
    | Some it => let '(r, it') := sp_it_prev (ss_tab s) f it in
                 (RNode r, ss_with s f (upd k (Some it') (ss_its s)) (ss_rgs s))
    end
  | OItDetach k =>
    match get_opt (ss_its s) k with
    | None => (RGuard, s)
    | Some _ => (ROk, ss_with s f (upd k None (ss_its s)) (ss_rgs s))
    end
  (* ---- TreeWalker ---- *)
  | OTw root what usef =>
    if negb (in_main f root) then (RGuard, s)
    else (RTw (length (ss_tws s)),
          {| ss_f := f; ss_next := ss_next s; ss_its := ss_its s;
             ss_tws := ss_tws s ++ [{| sw_root := root; sw_what := what; sw_usef := usef; sw_cur := root |}];
             ss_dls := ss_dls s; ss_rgs := ss_rgs s; ss_tab := ss_tab s |})
  | OW m k =>
    match nth_error (ss_tws s) k with
    | None => (RGuard, s)
    | Some w => match sp_w_move (ss_tab s) f w m with
                | None => (RUnspec, s)
                | Some (r, w') =>
                  (RNode r, {| ss_f := f; ss_next := ss_next s; ss_its := ss_its s; ss_tws := upd k w' (ss_tws s);
                               ss_dls := ss_dls s; ss_rgs := ss_rgs s; ss_tab := ss_tab s |})
                end
    end
  | OWGet k =>
    match nth_error (ss_tws s) k with None => (RGuard, s) | Some w => (RNode (Some (sw_cur w)), s) end
  | OWSet k x =>
    match nth_error (ss_tws s) k with
    | None => (RGuard, s)
    | Some w => if negb (known f x) then (RGuard, s)
                else (ROk, {| ss_f := f; ss_next := ss_next s; ss_its := ss_its s; ss_tws := upd k (sw_set w x) (ss_tws s);
                              ss_dls := ss_dls s; ss_rgs := ss_rgs s; ss_tab := ss_tab s |})
    end
  (* ---- getElementsByTagName: one list object per (root, name) ---- *)
  | ODl root nm =>
    if negb (match kind_of f root with Some KElem => true | Some KDoc => true | _ => false end) then (RGuard, s)
    else
      let same := fun e : nat * list N => (fst e =? root) && list_eqb (snd e) nm in
      if existsb same (ss_dls s) then
        (RDl ((fix go (l : list (nat * list N)) (i : nat) := match l with [] => i | e :: r => if same e then i else go r (S i) end) (ss_dls s) 0), s)
      else (RDl (length (ss_dls s)),
            {| ss_f := f; ss_next := ss_next s; ss_its := ss_its s; ss_tws := ss_tws s;
               ss_dls := ss_dls s ++ [(root, nm)]; ss_rgs := ss_rgs s; ss_tab := ss_tab s |})
  | ODLen k =>
    match nth_error (ss_dls s) k with
    | None => (RGuard, s)
    | Some (root, nm) => (RLen (length (sp_tag_list f root nm)), s)
    end
  | ODItem k i =>
    match nth_error (ss_dls s) k with
    | None => (RGuard, s)
    | Some (root, nm) => (RNode (nth_error (sp_tag_list f root nm) i), s)
    end
  (* ---- Range ---- *)
  | ORg => (RRg (length (ss_rgs s)), ss_with s f (ss_its s) (ss_rgs s ++ [Some {| r_s := (0, 0); r_e := (0, 0) |}]))
  | ORSetS k x off | ORSetE k x off =>
    match get_opt (ss_rgs s) k, f with
    | Some r, m :: _ =>
      if negb (in_main f x) then (RGuard, s)
      else if negb (bp_ok m (x, off)) then (RErr 1, s)
      else (ROk, ss_with s f (ss_its s)
                 (upd k (Some (match o with ORSetS _ _ _ => sp_set_start m r (x, off) | _ => sp_set_end m r (x, off) end)) (ss_rgs s)))
    | _, _ => (RGuard, s)
    end
  | ORSetSB k x | ORSetSA k x | ORSetEB k x | ORSetEA k x =>
    match get_opt (ss_rgs s) k, f with
    | Some r, m :: _ =>
      if negb (in_main f x) || (x =? 0) then (RGuard, s)
      else match parent_id f x with
           | None => (RGuard, s)
           | Some p =>
             let i := index_of x (kids_of f p) in
             (ROk, ss_with s f (ss_its s)
                   (upd k (Some (match o with
                                 | ORSetSB _ _ => sp_set_start m r (p, i)
                                 | ORSetSA _ _ => sp_set_start m r (p, S i)
                                 | ORSetEB _ _ => sp_set_end m r (p, i)
                                 | _ => sp_set_end m r (p, S i)
                                 end)) (ss_rgs s)))
           end
    | _, _ => (RGuard, s)
    end
  | ORSelC k x =>
    match get_opt (ss_rgs s) k, find_node f x with
    | Some r, Some t =>
      if negb (in_main f x) then (RGuard, s)
      else (ROk, ss_with s f (ss_its s) (upd k (Some {| r_s := (x, 0); r_e := (x, node_len t) |}) (ss_rgs s)))
    | _, _ => (RGuard, s)
    end
  | ORColl k toStart =>
    match get_opt (ss_rgs s) k with
    | Some r => (ROk, ss_with s f (ss_its s)
                      (upd k (Some (if toStart then {| r_s := r_s r; r_e := r_s r |} else {| r_s := r_e r; r_e := r_e r |})) (ss_rgs s)))
    | None => (RGuard, s)
    end
  | ORCmp k how k2 =>
    match get_opt (ss_rgs s) k, get_opt (ss_rgs s) k2, f with
    | Some r, Some r2, m :: _ =>
      (* how: 0 START_TO_START, 1 START_TO_END, 2 END_TO_END, 3 END_TO_START (DOMRange::CompareHow);
         compares a point of this range (A) with a point of the source range r2 (B) *)
      let a := match how with 0 => r_s r | 1 => r_e r | 2 => r_e r | _ => r_s r end in
      let b := match how with 0 => r_s r2 | 1 => r_s r2 | 2 => r_e r2 | _ => r_e r2 end in
      if 3 <? how then (RErr 11, s)
      else match bp_cmp m a b with Some c => (RCmp c, s) | None => (RGuard, s) end
    | _, _, _ => (RGuard, s)
    end
  | ORDetach k =>
    match get_opt (ss_rgs s) k with
    | Some _ => (ROk, ss_with s f (ss_its s) (upd k None (ss_rgs s)))
    | None => (RGuard, s)
    end
  end.

Definition sp_init (tab : list N) : sp_state :=
  {| ss_f := [Node 0 KDoc [] [Node 1 KElem [97%N] []]]; ss_next := 2; ss_its := []; ss_tws := []; ss_dls := [];
     ss_rgs := []; ss_tab := tab |}.

Fixpoint sp_run_from (s : sp_state) (h : list op) : list answer :=
  match h with
  | [] => []
  | o :: r => let '(a, s') := sp_step s o in
              (a, judge (ss_f s') (ss_rgs s')) :: (match a with RUnspec => [] | _ => sp_run_from s' r end)
  end.
Definition sp_run (tab : list N) (h : list op) : list answer := sp_run_from (sp_init tab) h.
