(** C14 -- the boolean certificates of Cert14.v imply the navigation hypotheses of Proofs14b/c. *)
From Coq Require Import List NArith Arith Bool Lia.
From XV Require Import C14.Spec14 C14.Hist14 C14.Model14 C14.Cert14 C14.Proofs14a C14.Proofs14b C14.Proofs14c.
Import ListNotations.

Lemma opt_eqb_eq : forall a b, opt_eqb a b = true -> a = b.
Proof.
  intros [x|] [y|] H; cbn in H; try discriminate; [|reflexivity]. apply Nat.eqb_eq in H. subst. reflexivity.
Qed.
Lemma memb_In : forall x l, memb x l = true <-> In x l.
Proof.
  intros x l. unfold memb. rewrite existsb_exists. split.
  - intros [y [Hy E]]. apply Nat.eqb_eq in E. subst. exact Hy.
  - intros H. exists x. split; [exact H|apply Nat.eqb_refl].
Qed.
Lemma nodupb_NoDup : forall l, nodupb l = true -> NoDup l.
Proof.
  induction l as [|x r IH]; intros H; [constructor|]. cbn in H. apply andb_prop in H. destruct H as [H1 H2].
  constructor; [|apply IH; exact H2]. intros Hin. apply memb_In in Hin. rewrite Hin in H1. discriminate.
Qed.
Lemma forallb_seq : forall (p : nat -> bool) n, forallb p (seq 0 n) = true -> forall k, k < n -> p k = true.
Proof.
  intros p n H k Hk. rewrite forallb_forall in H. apply H. apply in_seq. lia.
Qed.

Ltac split_andb H := repeat match type of H with (_ && _) = true => let H' := fresh H in apply andb_prop in H; destruct H as [H H'] end.

Theorem iter_cert_sound : forall tab f it, iter_cert tab f it = true ->
  sp_it_next tab f (abs_it it) = (fst (mi_next tab f it), abs_it (snd (mi_next tab f it))) /\
  sp_it_prev tab f (abs_it it) = (fst (mi_prev tab f it), abs_it (snd (mi_prev tab f it))).
Proof.
  intros tab f it H. unfold iter_cert in H.
  set (root := mi_root it) in *. set (trees := it_order f root) in *. set (order := ids trees) in *.
  apply andb_prop in H. destruct H as [H Hcur]. apply andb_prop in H. destruct H as [H Hacc].
  apply andb_prop in H. destruct H as [H Hp0]. apply andb_prop in H. destruct H as [H Hprev].
  apply andb_prop in H. destruct H as [H Hnext]. apply andb_prop in H. destruct H as [H Hfuel].
  apply andb_prop in H. destruct H as [Hnd Hhead].
  apply nodupb_NoDup in Hnd. apply opt_eqb_eq in Hhead. apply Nat.leb_le in Hfuel. apply opt_eqb_eq in Hp0.
  assert (Hn : forall k c, nth_error order k = Some c -> mi_next_raw f root (Some c) true = nth_error order (S k)).
  { intros k c Hk. assert (k < length order) by (apply nth_error_Some; rewrite Hk; discriminate).
    pose proof (forallb_seq _ _ Hnext k H) as Hb. cbv beta in Hb. rewrite Hk in Hb. apply opt_eqb_eq. exact Hb. }
  assert (Hp : forall k c, nth_error order (S k) = Some c -> mi_prev_raw f root c = nth_error order k).
  { intros k c Hk. assert (S k < length order) by (apply nth_error_Some; rewrite Hk; discriminate).
    assert (Hlt : k < length order) by lia.
    pose proof (forallb_seq _ _ Hprev k Hlt) as Hb. cbv beta in Hb. rewrite Hk in Hb. apply opt_eqb_eq. exact Hb. }
  assert (Ha : forall s, In s trees -> it_accepts tab (mi_what it) (mi_usef it) s = mi_accept tab f it (tid s)).
  { intros s Hs. rewrite forallb_forall in Hacc. apply Bool.eqb_prop. apply Hacc. exact Hs. }
  assert (Hc : forall c, mi_cur it = Some c -> In c order).
  { intros c E. rewrite E in Hcur. apply memb_In. exact Hcur. }
  assert (Eit : it = mi_set it (mi_cur it) (mi_fwd it)) by (destruct it; reflexivity).
  split.
  - rewrite Eit at 1 2 3. apply (next_is_spec tab f it); assumption.
  - rewrite Eit at 1 2 3. apply (prev_is_spec tab f it); assumption.
Qed.

Theorem dl_cert_sound : forall f root name, dl_cert f root name = true ->
  forall changes l, cache_ok f root name changes l ->
  (forall i, fst (md_cache_item f changes l (S i)) = nth_error (sp_tag_list f root name) i /\
             cache_ok f root name changes (snd (md_cache_item f changes l (S i)))) /\
  fst (md_length f changes l) = length (sp_tag_list f root name) /\
  cache_ok f root name changes (snd (md_length f changes l)).
Proof.
  intros f root name H changes l Hok. unfold dl_cert in H. apply andb_prop in H. destruct H as [Hn Hf].
  apply Nat.ltb_lt in Hf.
  assert (Hnext : forall k c, nth_error (root :: sp_tag_list f root name) k = Some c ->
            md_next_match f root name (m_fuel f) (Some c) = nth_error (root :: sp_tag_list f root name) (S k)).
  { intros k c Hk. assert (k < length (root :: sp_tag_list f root name)) by (apply nth_error_Some; rewrite Hk; discriminate).
    pose proof (forallb_seq _ _ Hn k H) as Hb. cbv beta in Hb. rewrite Hk in Hb. apply opt_eqb_eq. exact Hb. }
  split; [|exact (length_correct f root name Hnext Hf changes l Hok)].
  intros i. destruct (cache_item_correct f root name Hnext Hf changes l i Hok) as [A [B _]]. split; assumption.
Qed.

Theorem anc_cert_sound : forall f x p r, anc_cert f x = true -> m_parent f x = Some p ->
  (forall c, In c [mr_sc r; mr_ec r] -> In c (ids (fnodes f))) ->
  to_range (mr_upd_del_node f x r) = r_map (bp_del_node p (m_index_of f x p) (sub_ids f x)) (to_range r).
Proof.
  intros f x p r H Hp Hin. unfold anc_cert in H. rewrite Hp in H. apply andb_prop in H. destruct H as [Ha Hpn].
  rewrite forallb_forall in Ha. apply negb_true_iff in Hpn.
  (* del_node_is_spec needs the climb = membership for every c; it is only used on the two containers *)
  destruct r as [sc so ec eo].
  assert (Hsc : m_is_anc f (m_fuel f) x (Some sc) = memb sc (sub_ids f x)).
  { apply Bool.eqb_prop. apply Ha. apply Hin. left. reflexivity. }
  assert (Hec : m_is_anc f (m_fuel f) x (Some ec) = memb ec (sub_ids f x)).
  { apply Bool.eqb_prop. apply Ha. apply Hin. right. left. reflexivity. }
  unfold mr_upd_del_node, to_range, r_map, bp_del_node. cbn [mr_sc mr_so mr_ec mr_eo r_s r_e fst snd].
  rewrite Hp. rewrite (Nat.eqb_sym sc p), (Nat.eqb_sym ec p).
  destruct (Nat.eqb_spec p sc) as [E1|E1]; destruct (Nat.eqb_spec p ec) as [E2|E2]; cbn [andb negb orb];
    try subst sc; try subst ec; cbn [mr_sc mr_so mr_ec mr_eo]; rewrite ?Hsc, ?Hec, ?Hpn; cbn [mr_sc mr_so mr_ec mr_eo]; rewrite ?Hsc, ?Hec, ?Hpn.
  - destruct (m_index_of f x p <? so); destruct (m_index_of f x p <? eo); reflexivity.
  - destruct (memb ec (sub_ids f x)); cbn [mr_sc mr_so mr_ec mr_eo]; destruct (m_index_of f x p <? so); reflexivity.
  - destruct (memb sc (sub_ids f x)); cbn [mr_sc mr_so mr_ec mr_eo]; rewrite ?Hec, ?Hpn; destruct (m_index_of f x p <? eo); reflexivity.
  - destruct (memb sc (sub_ids f x)); cbn [mr_sc mr_so mr_ec mr_eo]; rewrite ?Hec; destruct (memb ec (sub_ids f x)); reflexivity.
Qed.

(** what the iterator returns is a node of the CURRENT document order of its root's subtree -- never a removed one *)
Lemma sp_next_in_order : forall tab f it r it', sp_it_next tab f it = (Some r, it') ->
  In r (ids (it_order f (si_root it))).
Proof.
  intros tab f it r it' H. unfold sp_it_next in H.
  destruct (find _ (skipn _ (it_order f (si_root it)))) as [s|] eqn:E; [|discriminate].
  injection H as <- _. apply find_some in E. destruct E as [Hin _].
  unfold ids. apply in_map. rewrite <- (firstn_skipn (gap_of (ids (it_order f (si_root it))) (si_ref it) (si_after it)) (it_order f (si_root it))).
  apply in_or_app. right. exact Hin.
Qed.
Lemma last_such_in : forall {A} (p : A -> bool) l x, last_such p l = Some x -> In x l.
Proof.
  intros A p l. induction l as [|y r IH]; intros x H; [discriminate|]. cbn in H.
  destruct (last_such p r) as [z|] eqn:E.
  - injection H as <-. right. apply IH. reflexivity.
  - destruct (p y); [injection H as <-; left; reflexivity|discriminate].
Qed.
Lemma sp_prev_in_order : forall tab f it r it', sp_it_prev tab f it = (Some r, it') ->
  In r (ids (it_order f (si_root it))).
Proof.
  intros tab f it r it' H. unfold sp_it_prev in H. destruct (si_ref it); [|discriminate].
  destruct (last_such _ (firstn _ (it_order f (si_root it)))) as [s|] eqn:E; [|discriminate].
  injection H as <- _. apply last_such_in in E.
  unfold ids. apply in_map. rewrite <- (firstn_skipn (gap_of (ids (it_order f (si_root it))) (Some n) (si_after it)) (it_order f (si_root it))).
  apply in_or_app. left. exact E.
Qed.
Theorem iter_never_removed : forall tab f it r, iter_cert tab f it = true ->
  (fst (mi_next tab f it) = Some r -> In r (ids (it_order f (mi_root it)))) /\
  (fst (mi_prev tab f it) = Some r -> In r (ids (it_order f (mi_root it)))).
Proof.
  intros tab f it r H. destruct (iter_cert_sound tab f it H) as [Hn Hp]. split; intros E.
  - rewrite E in Hn. exact (sp_next_in_order tab f (abs_it it) r _ Hn).
  - rewrite E in Hp. exact (sp_prev_in_order tab f (abs_it it) r _ Hp).
Qed.
