(** Property C14 -- property theorems (work in progress: refutations of the two known defects first). *)
From Coq Require Import List NArith Arith Bool.
From XV Require Import C14.Spec14 C14.Hist14 C14.Model14.
Import ListNotations.

Definition fx_as_is := {| fx_iter_fresh := false; fx_ins_text := false; fx_wprev := false; fx_wshow := false; fx_split := false |}.
Definition fx_repaired := {| fx_iter_fresh := true; fx_ins_text := true; fx_wprev := true; fx_wshow := true; fx_split := true |}.
Definition tab_all : list N := [1;1;1;1;1;1;1]%N.

(** F19: with the code as it is, removing a node while a never-stepped NodeIterator is registered crashes *)
Theorem T14_iter_fresh_refuted :
  exists h, snd (m_run fx_as_is tab_all h) = true /\ snd (m_run fx_repaired tab_all h) = false.
Proof.
  exists [ONewE [98%N]; OIns 1 2 None; OIt 1 65535%N false; ORm 2]. vm_compute. split; reflexivity.
Qed.
Print Assumptions T14_iter_fresh_refuted.
