(** Property C14 -- Live lists, iterators, walkers and ranges stay consistent under mutation.
    Only the property theorems: each is closed by [exact] of a lemma of Proofs14*.v (or by [vm_compute] on a
    witness for the refutations) and followed by [Print Assumptions].
    Spec14.v  = DOM Level 2 Traversal-Range on a rose tree (mentions nothing of the C++),
    Model14.v = the C++ (DOMNodeIteratorImpl, DOMTreeWalkerImpl, DOMDeepNodeListImpl, DOMRangeImpl and the
                notification loops), parameterised by [fixes]: the code as it is / as repaired by fixes/C14-*.patch,
    Hist14.v  = histories and the specification interpreter [sp_run]; Model14.m_run runs the same histories.

    State of the five defects found (DESIGN.md section 5 / known-findings.d/C14.json):
      F19 (fresh iterator + removal crashes), F20 (insertData start offset), F26 (TreeWalker::previousNode depth)
          are repaired in /repo (fix: commits); the theorems are about the repaired code, the *_refuted theorems
          record what the old code did;
      F27 (TreeWalker: filter REJECT on a node hidden by whatToShow prunes) and F28 (splitText can leave start after
          end) are KNOWN FINDINGS: the pinned tests encode the old behaviour, so the code keeps it.  [fx_current] is the
          code as it now is; for these two the positive theorems are GUARDED (they exclude exactly the defect class)
          and the *_refuted theorems exhibit the witnesses.  [fx_repaired] (all five repaired) is what the
          specification interpreter [sp_run] describes.

      F29 (getElementById returns elements that were removed from the document tree) is a KNOWN FINDING as well
          (IdMap14.im_step chk=false is the code as it is; T14_getbyid_detached_refuted).

    PARTIAL items (said here once, and in checks/meta/C14.json):
    - the iterator / tag-list / range-removal theorems are proved for every WELL-FORMED forest (unique node ids,
      [wf_forest]) -- the pointer walks of the code are proved to be document-order successor / predecessor / subtree
      membership (Tree14.v, Nav14*.v) -- and, for the iterator, for a current node inside the root's subtree; that
      these two facts hold in every reachable state (preservation of [wf_forest] by the tree mutations; correctness of
      the removeNode fix-up against [sp_it_remove]) is not proved: the extracted certificates of Cert14.v check them on
      the states of the correspondence's histories (0 failures required).  The older *_partial / *_certified theorems
      are kept: they state the same with the navigation facts as explicit hypotheses / certificates;
    - T14_range_valid_partial: validity is proved for the operations that do not restructure the tree (boundary
      setters, collapse, character-data edits inside one container); for node insertion/removal/splitText it is
      checked on every state of the correspondence by [range_ok] (extracted) and on the library's DOM directly;
    - TreeWalker: parentNode, firstChild and lastChild are proved equal to the specification (guarded by F27 for the
      code as it is); nextSibling, previousSibling, nextNode, previousNode are compared with [sp_w_target_at] by
      correspondence only (plus T14_walker_sample, a finite sweep);
    - DOMNodeIDMap is proved in full (T14_idmap_full);
    - Range content operations (last section): toString / cloneContents / extractContents / deleteContents / insertNode
      are modelled function by function (ModelR14.v) and specified on the rose tree (SpecR14.v); proved: cloneContents and
      toString change nothing (T14_clone_contents_pure), the same-text-node deletion (T14_delete_same_text_partial), the
      two known findings F30/F31 (theorems ..._refuted); model = specification for these operations in general is NOT proved --
      it is compared on every run by the correspondence (library = model, repaired model = specification). *)
From Coq Require Import List NArith ZArith Arith Bool Lia.
From XV Require Import C14.Spec14 C14.Hist14 C14.Model14 C14.Cert14 C14.IdMap14 C14.Proofs14a C14.Proofs14b C14.Proofs14c C14.Proofs14d C14.Proofs14e C14.Tree14 C14.Nav14 C14.Nav14b C14.Nav14c C14.Nav14d C14.Proofs14f C14.Proofs14g C14.Walk14 C14.Walk14b C14.Walk14c C14.SpecR14 C14.ModelR14 C14.ProofsR14.
Import ListNotations.

Definition fx_as_is := {| fx_iter_fresh := false; fx_ins_text := false; fx_wprev := false; fx_wshow := false; fx_split := false |}.
Definition fx_repaired := {| fx_iter_fresh := true; fx_ins_text := true; fx_wprev := true; fx_wshow := true; fx_split := true |}.
Definition fx_current := {| fx_iter_fresh := true; fx_ins_text := true; fx_wprev := true; fx_wshow := false; fx_split := false |}.
Definition tab_all : list N := [1;1;1;1;1;1;1]%N.
Definition some_invalid (l : list answer) : bool :=
  existsb (fun a : answer => existsb (fun o => match o with Some (_, false) => true | _ => false end) (snd a)) l.

(* ============================================================================================================ *)
(** * NodeIterator *)

(** T14_iter_position (stepping part): for an iterator whose current node lies in the document order of its root,
    nextNode()/previousNode() of the code return exactly what the specification returns for the abstract position
    (reference = fCurrentNode, after = fForward) -- the first accepted node behind / the last accepted node in front
    of the gap in the CURRENT filtered document order -- and leave the position the specification prescribes. *)
Theorem T14_iter_position_next_partial : forall tab f it0,
  let root := mi_root it0 in let order := ids (it_order f root) in
  NoDup order -> nth_error order 0 = Some root -> length order <= m_fuel f ->
  (forall k c, nth_error order k = Some c -> mi_next_raw f root (Some c) true = nth_error order (S k)) ->
  (forall s, In s (it_order f root) -> it_accepts tab (mi_what it0) (mi_usef it0) s = mi_accept tab f it0 (tid s)) ->
  forall cur fwd, (forall c, cur = Some c -> In c order) ->
  sp_it_next tab f (abs_it (mi_set it0 cur fwd)) =
  (fst (mi_next tab f (mi_set it0 cur fwd)), abs_it (snd (mi_next tab f (mi_set it0 cur fwd)))).
Proof. intros tab f it0 root order. exact (next_is_spec tab f it0). Qed.
Print Assumptions T14_iter_position_next_partial.

Theorem T14_iter_position_prev_partial : forall tab f it0,
  let root := mi_root it0 in let order := ids (it_order f root) in
  NoDup order -> nth_error order 0 = Some root -> length order <= m_fuel f ->
  (forall k c, nth_error order (S k) = Some c -> mi_prev_raw f root c = nth_error order k) ->
  mi_prev_raw f root root = None ->
  (forall s, In s (it_order f root) -> it_accepts tab (mi_what it0) (mi_usef it0) s = mi_accept tab f it0 (tid s)) ->
  forall cur fwd, (forall c, cur = Some c -> In c order) ->
  sp_it_prev tab f (abs_it (mi_set it0 cur fwd)) =
  (fst (mi_prev tab f (mi_set it0 cur fwd)), abs_it (snd (mi_prev tab f (mi_set it0 cur fwd)))).
Proof. intros tab f it0 root order. exact (prev_is_spec tab f it0). Qed.
Print Assumptions T14_iter_position_prev_partial.

(** T14_iter_position WITHOUT navigation hypotheses: on every well-formed forest (node ids unique -- [wf_forest]) the
    pointer walks nextNode(node,true) / previousNode(node) of the code are the successor / predecessor in the document
    order of the root's subtree (Tree14.v, Nav14.v, Nav14c.v), hence for every iterator whose root is in the forest and
    whose current node lies in the root's subtree, nextNode() and previousNode() are the specification's moves *)
Theorem T14_iter_position_next : forall tab f it0 Rt, wf_forest f -> find_node f (mi_root it0) = Some Rt ->
  forall cur fwd, (forall c, cur = Some c -> In c (ids (it_order f (mi_root it0)))) ->
  sp_it_next tab f (abs_it (mi_set it0 cur fwd)) =
  (fst (mi_next tab f (mi_set it0 cur fwd)), abs_it (snd (mi_next tab f (mi_set it0 cur fwd)))).
Proof. intros tab f it0 Rt Hwf. exact (iter_next_unconditional f Hwf tab it0 Rt). Qed.
Print Assumptions T14_iter_position_next.

Theorem T14_iter_position_prev : forall tab f it0 Rt, wf_forest f -> find_node f (mi_root it0) = Some Rt ->
  forall cur fwd, (forall c, cur = Some c -> In c (ids (it_order f (mi_root it0)))) ->
  sp_it_prev tab f (abs_it (mi_set it0 cur fwd)) =
  (fst (mi_prev tab f (mi_set it0 cur fwd)), abs_it (snd (mi_prev tab f (mi_set it0 cur fwd)))).
Proof. intros tab f it0 Rt Hwf. exact (iter_prev_unconditional f Hwf tab it0 Rt). Qed.
Print Assumptions T14_iter_position_prev.

(** the walks themselves *)
Theorem T14_nav_successor : forall f R Rt, wf_forest f -> find_node f R = Some Rt ->
  forall k c, nth_error (ids (it_order f R)) k = Some c ->
  mi_next_raw f R (Some c) true = nth_error (ids (it_order f R)) (S k).
Proof. intros f R Rt Hwf. exact (iter_next_nav f Hwf R Rt). Qed.
Print Assumptions T14_nav_successor.
Theorem T14_nav_predecessor : forall f R Rt, wf_forest f -> find_node f R = Some Rt ->
  forall k c, nth_error (ids (it_order f R)) (S k) = Some c -> mi_prev_raw f R c = nth_error (ids (it_order f R)) k.
Proof. intros f R Rt Hwf. exact (iter_prev_nav f Hwf R Rt). Qed.
Print Assumptions T14_nav_predecessor.

(** what the specification's step means: the node returned by nextNode is accepted, lies behind the gap, and no
    accepted node lies between the gap and it (it is the neighbour in the filtered order) *)
Theorem T14_spec_next_is_neighbour : forall tab f it r it',
  sp_it_next tab f it = (Some r, it') ->
  let order := it_order f (si_root it) in
  let g := gap_of (ids order) (si_ref it) (si_after it) in
  exists pre s post, skipn g order = pre ++ s :: post /\ tid s = r /\
    it_accepts tab (si_what it) (si_usef it) s = true /\
    (forall x, In x pre -> it_accepts tab (si_what it) (si_usef it) x = false) /\
    si_ref it' = Some r /\ si_after it' = true.
Proof.
  intros tab f it r it' H order g. unfold sp_it_next in H. fold order in H. fold g in H.
  destruct (find (it_accepts tab (si_what it) (si_usef it)) (skipn g order)) as [s|] eqn:E; [|discriminate].
  injection H as Hr Hit. subst it'. cbn [si_ref si_after].
  revert E. generalize (skipn g order). intros l. induction l as [|x l IH]; intros E; [discriminate|].
  cbn in E. destruct (it_accepts tab (si_what it) (si_usef it) x) eqn:Ex.
  - injection E as ->. exists [], s, l. repeat split; try assumption; try (rewrite Hr; reflexivity). intros y [].
  - destruct (IH E) as [pre [s' [post [H1 [H2 [H3 [H4 [H5 H6]]]]]]]].
    exists (x :: pre), s', post. rewrite H1. repeat split; try assumption.
    intros y [<-|Hy]; [exact Ex|apply H4; exact Hy].
Qed.
Print Assumptions T14_spec_next_is_neighbour.

(** DEFECT F19 (code as it is): removing a node while a never-stepped NodeIterator is registered kills the
    process; repaired (fixes/C14-iter-fresh.patch) the history runs to its end *)
Theorem T14_iter_fresh_refuted :
  exists h, snd (m_run fx_as_is tab_all h) = true /\ snd (m_run fx_repaired tab_all h) = false.
Proof. exists [ONewE [98%N]; OIns 1 2 None; OIt 1 65535%N false; ORm 2]. vm_compute. split; reflexivity. Qed.
Print Assumptions T14_iter_fresh_refuted.

(* ============================================================================================================ *)
(** * TreeWalker *)

(** the repaired acceptNode is the specification's verdict: whatToShow skips and takes precedence over the filter;
    otherwise the filter's accept / reject / skip *)
Theorem T14_walker_accept_partial : forall tab f w s,
  find_node f (tid s) = Some s ->
  mw_accept fx_repaired tab f w (tid s) = view_verdict tab (mw_what w) (mw_usef w) s.
Proof.
  intros tab f w s Hs. unfold mw_accept, view_verdict, m_shown, m_kind, m_filter. rewrite Hs. cbn [fx_wshow fx_repaired].
  destruct (mw_usef w); destruct (shown (mw_what w) (tkind s)); reflexivity.
Qed.
Print Assumptions T14_walker_accept_partial.

(** the code as it is now (F27 open): the same, except on nodes that whatToShow hides AND the filter rejects *)
Theorem T14_walker_accept_guarded : forall tab f w s,
  find_node f (tid s) = Some s ->
  (shown (mw_what w) (tkind s) = true \/ mw_usef w = false \/ filter_verdict tab s <> VReject) ->
  mw_accept fx_current tab f w (tid s) = view_verdict tab (mw_what w) (mw_usef w) s.
Proof.
  intros tab f w s Hs G. unfold mw_accept, view_verdict, m_shown, m_kind, m_filter. rewrite Hs. cbn [fx_wshow fx_current].
  destruct (mw_usef w); destruct (shown (mw_what w) (tkind s)); try reflexivity.
  destruct (filter_verdict tab s); try reflexivity.
  exfalso. destruct G as [G|[G|G]]; [discriminate G|discriminate G|apply G; reflexivity].
Qed.
Print Assumptions T14_walker_accept_guarded.

(** T14_walker, parentNode(): on every well-formed forest the code's climb is the specification's "closest visible
    ancestor not above the root" -- for the code as it is and as repaired alike (F27 turns SKIP into REJECT, never into
    ACCEPT, and only ACCEPT matters for parentNode) *)
Theorem T14_walker_parent : forall f fx tab w X, wf_forest f -> find_node f (mw_cur w) = Some X ->
  mw_target fx tab f w WParent = sp_w_target_at tab f (abs_w w) (mw_root w) WParent.
Proof. intros f fx tab w X Hwf HX. exact (walker_parent_is_spec f Hwf (mw_root w) fx tab w X eq_refl HX). Qed.
Print Assumptions T14_walker_parent.

(** T14_walker, firstChild(): descend into skipped nodes, climb out of them, prune rejected ones = the head of the
    specification's visible-children list; for a current node that is the root or is not skipped, inside the root's
    subtree.  Repaired code: unconditional.  Code as it is (F27 open): on forests free of the F27 class. *)
Theorem T14_walker_first : forall f fx tab w S, wf_forest f -> fx_wshow fx = true ->
  find_node f (mw_cur w) = Some S ->
  is_skip (view_verdict tab (mw_what w) (mw_usef w) S) && negb (tid S =? mw_root w) = false ->
  ~ In (mw_root w) (ids (dnodes (tkids S))) ->
  mw_target fx tab f w WFirst = sp_w_target_at tab f (abs_w w) (mw_root w) WFirst.
Proof.
  intros f fx tab w S Hwf Hfx. apply walker_first_is_spec; [exact Hwf|]. intros s Hs. exact (accept_repaired f fx tab w s Hwf Hfx Hs).
Qed.
Print Assumptions T14_walker_first.

Theorem T14_walker_first_guarded : forall f tab w S, wf_forest f ->
  (forall s, In s (fnodes f) -> shown (mw_what w) (tkind s) = true \/ mw_usef w = false \/ filter_verdict tab s <> VReject) ->
  find_node f (mw_cur w) = Some S ->
  is_skip (view_verdict tab (mw_what w) (mw_usef w) S) && negb (tid S =? mw_root w) = false ->
  ~ In (mw_root w) (ids (dnodes (tkids S))) ->
  mw_target fx_current tab f w WFirst = sp_w_target_at tab f (abs_w w) (mw_root w) WFirst.
Proof.
  intros f tab w S Hwf G. apply walker_first_is_spec; [exact Hwf|]. intros s Hs. exact (accept_guarded f fx_current tab w s Hwf Hs (G s Hs)).
Qed.
Print Assumptions T14_walker_first_guarded.

(** T14_walker, lastChild(): the mirror image *)
Theorem T14_walker_last : forall f fx tab w S, wf_forest f -> fx_wshow fx = true ->
  find_node f (mw_cur w) = Some S ->
  is_skip (view_verdict tab (mw_what w) (mw_usef w) S) && negb (tid S =? mw_root w) = false ->
  ~ In (mw_root w) (ids (dnodes (tkids S))) ->
  mw_target fx tab f w WLast = sp_w_target_at tab f (abs_w w) (mw_root w) WLast.
Proof.
  intros f fx tab w S Hwf Hfx. apply walker_last_is_spec; [exact Hwf|]. intros s Hs. exact (accept_repaired f fx tab w s Hwf Hfx Hs).
Qed.
Print Assumptions T14_walker_last.
Theorem T14_walker_last_guarded : forall f tab w S, wf_forest f ->
  (forall s, In s (fnodes f) -> shown (mw_what w) (tkind s) = true \/ mw_usef w = false \/ filter_verdict tab s <> VReject) ->
  find_node f (mw_cur w) = Some S ->
  is_skip (view_verdict tab (mw_what w) (mw_usef w) S) && negb (tid S =? mw_root w) = false ->
  ~ In (mw_root w) (ids (dnodes (tkids S))) ->
  mw_target fx_current tab f w WLast = sp_w_target_at tab f (abs_w w) (mw_root w) WLast.
Proof.
  intros f tab w S Hwf G. apply walker_last_is_spec; [exact Hwf|]. intros s Hs. exact (accept_guarded f fx_current tab w s Hwf Hs (G s Hs)).
Qed.
Print Assumptions T14_walker_last_guarded.

(** DEFECT F26 (code as it is): previousNode skips the deepest descendants *)
Theorem T14_walker_prev_refuted :
  exists h, fst (m_run fx_as_is tab_all h) <> sp_run tab_all h /\ fst (m_run fx_repaired tab_all h) = sp_run tab_all h.
Proof.
  exists [ONewE [98%N]; OIns 1 2 None; ONewE [99%N]; OIns 2 3 None; ONewE [100%N]; OIns 3 4 None; ONewE [101%N]; OIns 1 5 None;
          OTw 1 65535%N false; OWSet 0 5; OW WPrev 0].
  split; [vm_compute; discriminate|vm_compute; reflexivity].
Qed.
Print Assumptions T14_walker_prev_refuted.

(** KNOWN FINDING F27 (code as it is now): a filter REJECT on a node hidden by whatToShow prunes its subtree *)
Theorem T14_walker_show_refuted :
  exists h, fst (m_run fx_current [1;2;1;1;1;1;1]%N h) <> sp_run [1;2;1;1;1;1;1]%N h /\
            fst (m_run fx_repaired [1;2;1;1;1;1;1]%N h) = sp_run [1;2;1;1;1;1;1]%N h.
Proof.
  exists [ONewE [98%N]; OIns 1 2 None; ONewT [120%N]; OIns 2 3 None; OTw 1 4%N true; OW WNext 0].
  split; [vm_compute; discriminate|vm_compute; reflexivity].
Qed.
Print Assumptions T14_walker_show_refuted.

(* ============================================================================================================ *)
(** * getElementsByTagName *)

(** T14_deeplist: whatever the list object cached before -- provided the cache is either stale (its change count
    differs from the document's) or describes the current tree -- item(i) is the i-th and getLength the number of
    matching elements below the root in current document order; the new cache again describes the current tree. *)
Theorem T14_deeplist_item_partial : forall f root name,
  (forall k c, nth_error (root :: sp_tag_list f root name) k = Some c ->
     md_next_match f root name (m_fuel f) (Some c) = nth_error (root :: sp_tag_list f root name) (S k)) ->
  length (sp_tag_list f root name) < m_fuel f ->
  forall changes l i, cache_ok f root name changes l ->
  fst (md_cache_item f changes l (S i)) = nth_error (sp_tag_list f root name) i /\
  cache_ok f root name changes (snd (md_cache_item f changes l (S i))) /\
  md_changes (snd (md_cache_item f changes l (S i))) = changes.
Proof. intros f root name Hn Hf. exact (cache_item_correct f root name Hn Hf). Qed.
Print Assumptions T14_deeplist_item_partial.

Theorem T14_deeplist_length_partial : forall f root name,
  (forall k c, nth_error (root :: sp_tag_list f root name) k = Some c ->
     md_next_match f root name (m_fuel f) (Some c) = nth_error (root :: sp_tag_list f root name) (S k)) ->
  length (sp_tag_list f root name) < m_fuel f ->
  forall changes l, cache_ok f root name changes l ->
  fst (md_length f changes l) = length (sp_tag_list f root name) /\
  cache_ok f root name changes (snd (md_length f changes l)).
Proof. intros f root name Hn Hf. exact (length_correct f root name Hn Hf). Qed.
Print Assumptions T14_deeplist_length_partial.

(** T14_deeplist WITHOUT navigation hypotheses: on every well-formed forest, for every list whose root is in the forest *)
Theorem T14_deeplist : forall f root name Rt, wf_forest f -> find_node f root = Some Rt ->
  forall changes l, cache_ok f root name changes l ->
  (forall i, fst (md_cache_item f changes l (S i)) = nth_error (sp_tag_list f root name) i /\
             cache_ok f root name changes (snd (md_cache_item f changes l (S i)))) /\
  fst (md_length f changes l) = length (sp_tag_list f root name) /\
  cache_ok f root name changes (snd (md_length f changes l)).
Proof. intros f root name Rt Hwf. exact (deeplist_unconditional f Hwf root name Rt). Qed.
Print Assumptions T14_deeplist.

(** every mutation bumps the counter, hence every cache is stale -- and therefore [cache_ok] -- for ANY new tree;
    a fresh list (fChanges = 0) is [cache_ok] because the counter of a document with a root element is >= 1 *)
Theorem T14_deeplist_cache_survives_mutation : forall f' root name changes l,
  md_root l = root -> md_name l = name -> md_changes l <= changes -> cache_ok f' root name (S changes) l.
Proof. exact cache_ok_bump. Qed.
Print Assumptions T14_deeplist_cache_survives_mutation.

Theorem T14_deeplist_fresh : forall f root name changes, changes <> 0 ->
  cache_ok f root name changes {| md_root := root; md_name := name; md_changes := 0; md_cur := None; md_idx := 0 |}.
Proof. exact cache_ok_fresh. Qed.
Print Assumptions T14_deeplist_fresh.

(** T14_changed_everywhere (model side): the two tree-restructuring code paths bump the counter *)
Theorem T14_changed_everywhere : forall s x s' p r n,
  (m_remove_child s x = Some s' -> ms_changes s' = S (ms_changes s)) /\
  ms_changes (m_attach s p r n) = S (ms_changes s).
Proof.
  intros s x s' p r n. split; [|reflexivity].
  unfold m_remove_child. destruct (notify_its (ms_fx s) (ms_f s) x (ms_its s)); [|discriminate].
  intros H. injection H as <-. reflexivity.
Qed.
Print Assumptions T14_changed_everywhere.

(* ============================================================================================================ *)
(** * Range *)

(** T14_range_moves: the repaired fix-ups are the rules of DOM Range 2.12 on both boundary points *)
Theorem T14_range_moves_insert_text : forall f x off cnt r, m_is_cd f x = true ->
  to_range (mr_upd_ins_text fx_repaired f x off cnt r) = r_map (bp_ins_text x off cnt) (to_range r).
Proof. intros. apply ins_text_is_spec; [reflexivity|assumption]. Qed.
Print Assumptions T14_range_moves_insert_text.

Theorem T14_range_moves_delete_text : forall f x off cnt r, m_is_cd f x = true ->
  to_range (mr_upd_del_text f x off cnt r) = r_map (bp_del_text x off cnt) (to_range r).
Proof. exact del_text_is_spec. Qed.
Print Assumptions T14_range_moves_delete_text.

Theorem T14_range_moves_set_text : forall f x r, m_is_cd f x = true ->
  to_range (mr_upd_set_text f x r) = r_map (bp_set_text x) (to_range r).
Proof. exact set_text_is_spec. Qed.
Print Assumptions T14_range_moves_set_text.

Theorem T14_range_moves_insert_node : forall f n p r, m_parent f n = Some p ->
  to_range (mr_upd_ins_node f n r) = r_map (bp_ins_node p (m_index_of f n p)) (to_range r).
Proof. exact ins_node_is_spec. Qed.
Print Assumptions T14_range_moves_insert_node.

Theorem T14_range_moves_split : forall f x nw off p r, m_is_cd f x = true -> m_parent f x = Some p ->
  nw <> p -> x <> p ->
  to_range (mr_upd_split fx_repaired f x nw off r) =
  r_map (bp_split_parent p (m_index_of f x p)) (r_map (bp_split x nw off) (to_range r)).
Proof. intros. apply split_is_spec; [reflexivity|assumption..]. Qed.
Print Assumptions T14_range_moves_split.

(** the code as it is now (F28 open): the split rule holds unless a boundary point sits in the parent directly
    behind the split node *)
Theorem T14_range_moves_split_guarded : forall f x nw off p i r, m_is_cd f x = true ->
  r_s (r_map (bp_split x nw off) (to_range r)) <> (p, S i) ->
  r_e (r_map (bp_split x nw off) (to_range r)) <> (p, S i) ->
  to_range (mr_upd_split fx_current f x nw off r) = r_map (bp_split_parent p i) (r_map (bp_split x nw off) (to_range r)).
Proof. intros. apply split_is_spec_guarded; [reflexivity|assumption..]. Qed.
Print Assumptions T14_range_moves_split_guarded.

(** isAncestorOf decides subtree membership on well-formed forests; hence the removal rule without hypotheses *)
Theorem T14_is_ancestor : forall f x X c, wf_forest f -> find_node f x = Some X -> In c (ids (fnodes f)) ->
  m_is_anc f (m_fuel f) x (Some c) = memb c (sub_ids f x).
Proof. intros f x X c Hwf. exact (is_anc_wf f Hwf x X c). Qed.
Print Assumptions T14_is_ancestor.

Theorem T14_range_moves_remove_node : forall f x X p r, wf_forest f -> find_node f x = Some X -> m_parent f x = Some p ->
  In (mr_sc r) (ids (fnodes f)) -> In (mr_ec r) (ids (fnodes f)) ->
  to_range (mr_upd_del_node f x r) = r_map (bp_del_node p (m_index_of f x p) (sub_ids f x)) (to_range r).
Proof. intros f x X p r Hwf. exact (del_node_unconditional f Hwf x X p r). Qed.
Print Assumptions T14_range_moves_remove_node.

Theorem T14_range_moves_remove_node_partial : forall f x p r sub,
  m_parent f x = Some p ->
  (forall c, m_is_anc f (m_fuel f) x (Some c) = memb c sub) -> memb p sub = false ->
  to_range (mr_upd_del_node f x r) = r_map (bp_del_node p (m_index_of f x p) sub) (to_range r).
Proof. exact del_node_is_spec. Qed.
Print Assumptions T14_range_moves_remove_node_partial.

(** DEFECT F20 (code as it is): [5,8] in a text node, insertData(2,"ab") gives [2,10]; 2.12.1 demands [7,10] *)
Theorem T14_insert_text_refuted :
  exists f x off cnt r, m_is_cd f x = true /\
    to_range (mr_upd_ins_text fx_as_is f x off cnt r) <> r_map (bp_ins_text x off cnt) (to_range r) /\
    to_range (mr_upd_ins_text fx_as_is f x off cnt r) = {| r_s := (3, 2); r_e := (3, 10) |} /\
    r_map (bp_ins_text x off cnt) (to_range r) = {| r_s := (3, 7); r_e := (3, 10) |}.
Proof.
  exists [Node 0 KDoc [] [Node 1 KElem [97%N] [Node 3 KText [104;101;108;108;111;119;111;114;108;100]%N []]]], 3, 2, 2,
         {| mr_sc := 3; mr_so := 5; mr_ec := 3; mr_eo := 8 |}.
  vm_compute. repeat split; try reflexivity. discriminate.
Qed.
Print Assumptions T14_insert_text_refuted.

(** T14_range_valid (partial): operations that keep the tree's structure keep every valid range valid *)
Theorem T14_range_valid_set_start : forall m r b, range_ok m r = true -> bp_ok m b = true ->
  (exists p, bp_pos m b = Some p) -> range_ok m (sp_set_start m r b) = true.
Proof. exact set_start_valid. Qed.
Print Assumptions T14_range_valid_set_start.
Theorem T14_range_valid_set_end : forall m r b, range_ok m r = true -> bp_ok m b = true ->
  (exists p, bp_pos m b = Some p) -> range_ok m (sp_set_end m r b) = true.
Proof. exact set_end_valid. Qed.
Print Assumptions T14_range_valid_set_end.
Theorem T14_range_valid_collapse : forall m r toStart, range_ok m r = true ->
  range_ok m (if toStart : bool then {| r_s := r_s r; r_e := r_s r |} else {| r_s := r_e r; r_e := r_e r |}) = true.
Proof. exact collapse_valid. Qed.
Print Assumptions T14_range_valid_collapse.

(** inside one character-data container: after insertData / deleteData the offsets are still ordered and within the
    new length -- for the repaired code and (second theorem) also for the code as it is, which is why F20 is a
    violation of "moves as DOM Range specifies" but not of validity *)
Theorem T14_range_valid_text_insert : forall off cnt so eo len, so <= eo -> eo <= len -> off <= len ->
  let g := fun o => if off <? o then o + cnt else o in g so <= g eo /\ g eo <= len + cnt.
Proof. exact ins_off_valid. Qed.
Print Assumptions T14_range_valid_text_insert.
Theorem T14_range_valid_text_insert_as_is : forall off cnt so eo len, so <= eo -> eo <= len -> off <= len ->
  (if off <? so then off else so) <= (if off <? eo then eo + cnt else eo) /\ (if off <? eo then eo + cnt else eo) <= len + cnt.
Proof. exact ins_off_valid_as_is. Qed.
Print Assumptions T14_range_valid_text_insert_as_is.
Theorem T14_range_valid_text_delete : forall off cnt so eo len, so <= eo -> eo <= len -> off + cnt <= len ->
  m_del_off off cnt so <= m_del_off off cnt eo /\ m_del_off off cnt eo <= len - cnt.
Proof. exact del_off_valid. Qed.
Print Assumptions T14_range_valid_text_delete.

(** KNOWN FINDING F28 (code as it is now): splitText leaves a live range with its start behind its end *)
Theorem T14_split_invalid_refuted :
  exists h, some_invalid (fst (m_run fx_current tab_all h)) = true /\ some_invalid (fst (m_run fx_repaired tab_all h)) = false
            /\ fst (m_run fx_repaired tab_all h) = sp_run tab_all h.
Proof.
  exists [ONewT [97;98;99;100;101;102]%N; OIns 1 2 None; ORg; ORSetS 0 2 5; ORSetE 0 1 1; OSplit 2 3].
  vm_compute. repeat split; reflexivity.
Qed.
Print Assumptions T14_split_invalid_refuted.

(* ============================================================================================================ *)
(** * getElementById: DOMNodeIDMap (IdMap14.v; table sizes, fill limits and hash constants regenerated from /repo) *)

(** T14_idmap: after ANY sequence of add / remove on the document's initially empty table -- whatever growth happened
    on the way -- (1) every element of the specification set (added and not removed since) is found under its ID
    value, provided the registered ID values are pairwise different (DOMNodeIDMap's documented precondition);
    (2) whatever find returns is a registered element carrying exactly that value; (3) a value no registered element
    carries is never found.
    PARTIAL: that the probe loops terminate (outcome [Hang] unreachable: needs "a step sequence modulo a prime visits
    every slot" and the fill limit) is not proved; "remove really takes the entry out" is proved per step
    (T14_idmap_remove_gone) under the hypothesis that no attribute is registered twice, whose preservation across
    growTable is not proved; both are exercised by the colliding-ID histories of the check. *)
Theorem T14_idmap : forall val fuel l m',
  t_run val fuel im_new l = Done m' ->
  (forall e, In e (spec_set [] l) ->
     (forall e', present m' e' -> val e' = val e -> e' = e) -> im_find val m' (val e) = Done (Some e)) /\
  (forall v e, im_find val m' v = Done (Some e) -> present m' e /\ val e = v) /\
  (forall v, (forall e, present m' e -> val e <> v) -> im_find val m' v = Done None \/ im_find val m' v = Hang).
Proof. exact idmap_correct. Qed.
Print Assumptions T14_idmap.

(** growth loses nothing: one add -- with or without growTable -- keeps the invariant, registers the new attribute,
    keeps every registered attribute and invents none *)
Theorem T14_idmap_add : forall val fuel m e m', wf val m -> im_add val fuel m e = Done m' ->
  wf val m' /\ present m' e /\ keeps m m' /\ (forall e', present m' e' -> e' = e \/ present m e').
Proof. exact add_wf. Qed.
Print Assumptions T14_idmap_add.

Theorem T14_idmap_remove : forall val m e m', wf val m -> im_remove val m e = Done m' ->
  wf val m' /\ (forall e', e' <> e -> present m e' -> present m' e') /\ (forall e', present m' e' -> present m e').
Proof. exact remove_wf. Qed.
Print Assumptions T14_idmap_remove.

(** remove really takes the entry out, when every attribute is registered at most once *)
Theorem T14_idmap_remove_gone : forall val m e m', wf val m -> unique_entries m -> present m e ->
  im_remove val m e = Done m' -> ~ present m' e.
Proof. exact remove_gone. Qed.
Print Assumptions T14_idmap_remove_gone.

(** T14_idmap IN FULL (Proofs14f/g): for every valid sequence of add / remove (an attribute is registered only while
    it is not registered) from the empty table, growTable included: unless gPrimes is exhausted (the documented
    NodeIDMap_GrowErr) the run finishes -- no probe loop runs forever: the table sizes are prime (verified trial
    division over the generated table), so the probe sequence ((j+1) * h0) mod size visits every slot, and the
    bookkeeping invariant non-empty slots <= fNumEntries <= fMaxEntries < size keeps one slot empty; growTable never
    nests -- and then the table holds exactly the attributes of the specification set, each exactly once, find returns
    the element for every registered value (pairwise different values) and None for every other value. *)
Theorem T14_idmap_full : forall val fu l, valid_use [] l ->
  t_run val (S (S fu)) im_new l = GrowErr \/
  exists m', t_run val (S (S fu)) im_new l = Done m' /\
    NoDup (attrs_of (im_tab m')) /\ (forall e, In e (attrs_of (im_tab m')) <-> In e (spec_set [] l)) /\
    (forall e, In e (spec_set [] l) -> (forall e', In e' (spec_set [] l) -> val e' = val e -> e' = e) ->
               im_find val m' (val e) = Done (Some e)) /\
    (forall v, (forall e, In e (spec_set [] l) -> val e <> v) -> im_find val m' v = Done None).
Proof. exact idmap_full. Qed.
Print Assumptions T14_idmap_full.

(** one add (with or without growTable): invariants kept, registered exactly once more, never loops *)
Theorem T14_idmap_add_full : forall val fu m e, book m -> wf val m -> ~ In e (attrs_of (im_tab m)) ->
  im_add val (S (S fu)) m e = GrowErr \/
  exists m', im_add val (S (S fu)) m e = Done m' /\ book m' /\ wf val m' /\
             (forall x, In x (attrs_of (im_tab m')) <-> x = e \/ In x (attrs_of (im_tab m))).
Proof. exact add_book. Qed.
Print Assumptions T14_idmap_add_full.

Theorem T14_idmap_sizes_prime : forall k s mx, size_at k = Some (s, mx) -> Znumtheory.prime (Z.of_nat s).
Proof. exact gen_sizes_prime. Qed.
Print Assumptions T14_idmap_sizes_prime.

(** KNOWN FINDING F29: getElementById returns an element that is no longer in the document tree *)
Theorem T14_getbyid_detached_refuted :
  exists h, im_run false h <> isp_run h /\ im_run true h = isp_run h.
Proof.
  exists [INew; IApp 1 2; ISetAttr 2 [105;100;120]%N; ISetId 2 true; IGet [105;100;120]%N; IRm 2; IGet [105;100;120]%N].
  split; [vm_compute; discriminate|vm_compute; reflexivity].
Qed.
Print Assumptions T14_getbyid_detached_refuted.

(** non-vacuity: "id40" and "id100" collide in the 997-slot table (same initial hash = same probe sequence); the
    attribute registered first is removed, the second is still found behind the deleted marker; 800 add/remove
    rounds push fNumEntries over the fill limit, the table grows to the next size and both are still found *)
Definition ex_val (e : nat) : list N :=
  match e with 2 => [105;100;52;48]%N | 3 => [105;100;49;48;48]%N | _ => [107]%N end.
Example T14_idmap_collision_example :
  xhash (ex_val 2) 996 = xhash (ex_val 3) 996 /\
  (exists m, t_run ex_val 3 im_new [TAdd 2; TAdd 3; TRemove 2] = Done m /\ im_find ex_val m (ex_val 3) = Done (Some 3)
             /\ im_find ex_val m (ex_val 2) = Done None) /\
  (exists m, t_run ex_val 3 im_new (flat_map (fun _ => [TAdd 5; TRemove 5]) (seq 0 800) ++ [TAdd 2; TAdd 3; TRemove 2]) = Done m /\
             im_size m = N.to_nat 9973 /\ im_find ex_val m (ex_val 3) = Done (Some 3) /\ im_find ex_val m (ex_val 2) = Done None).
Proof.
  split; [vm_compute; reflexivity|]. split.
  - eexists. split; [vm_compute; reflexivity|]. split; vm_compute; reflexivity.
  - eexists. split; [vm_compute; reflexivity|]. split; [vm_compute; reflexivity|]. split; vm_compute; reflexivity.
Qed.

Definition ex_f_cert : forest :=
  [Node 0 KDoc [] [Node 1 KElem [97%N] [Node 2 KElem [98%N] [Node 3 KText [104;105]%N []; Node 4 KElem [99%N] []];
                                        Node 5 KComment [120%N] []; Node 6 KElem [98%N] []]]].

(* ============================================================================================================ *)
(** * Certified states: the navigation hypotheses above are decidable; Cert14.v gives executable checks, and the
      theorems hold outright in every state where the check evaluates to true.  The extracted checks are evaluated
      by the correspondence on every iterator step, list query and node removal of every history ([m_run_certs]). *)

(** T14_iter_position on certified states: model step = specification step, for nextNode and previousNode *)
Theorem T14_iter_position_certified : forall tab f it, iter_cert tab f it = true ->
  sp_it_next tab f (abs_it it) = (fst (mi_next tab f it), abs_it (snd (mi_next tab f it))) /\
  sp_it_prev tab f (abs_it it) = (fst (mi_prev tab f it), abs_it (snd (mi_prev tab f it))).
Proof. exact iter_cert_sound. Qed.
Print Assumptions T14_iter_position_certified.

(** ... and never a removed node: whatever nextNode / previousNode return is a node of the CURRENT document order of the
    iterator root's subtree *)
Theorem T14_iter_never_removed_certified : forall tab f it r, iter_cert tab f it = true ->
  (fst (mi_next tab f it) = Some r -> In r (ids (it_order f (mi_root it)))) /\
  (fst (mi_prev tab f it) = Some r -> In r (ids (it_order f (mi_root it)))).
Proof. exact iter_never_removed. Qed.
Print Assumptions T14_iter_never_removed_certified.

(** T14_deeplist on certified states *)
Theorem T14_deeplist_certified : forall f root name, dl_cert f root name = true ->
  forall changes l, cache_ok f root name changes l ->
  (forall i, fst (md_cache_item f changes l (S i)) = nth_error (sp_tag_list f root name) i /\
             cache_ok f root name changes (snd (md_cache_item f changes l (S i)))) /\
  fst (md_length f changes l) = length (sp_tag_list f root name) /\
  cache_ok f root name changes (snd (md_length f changes l)).
Proof. exact dl_cert_sound. Qed.
Print Assumptions T14_deeplist_certified.

(** T14_range_moves, removal rule, on certified states *)
Theorem T14_range_moves_remove_node_certified : forall f x p r, anc_cert f x = true -> m_parent f x = Some p ->
  (forall c, In c [mr_sc r; mr_ec r] -> In c (ids (fnodes f))) ->
  to_range (mr_upd_del_node f x r) = r_map (bp_del_node p (m_index_of f x p) (sub_ids f x)) (to_range r).
Proof. exact anc_cert_sound. Qed.
Print Assumptions T14_range_moves_remove_node_certified.

Example T14_certs_hold_on_example :
  iter_cert [1;2;3;1;1;1;2]%N ex_f_cert {| mi_root := 1; mi_what := 5%N; mi_usef := true; mi_cur := Some 3; mi_fwd := false |} = true /\
  dl_cert ex_f_cert 1 [98%N] = true /\ anc_cert ex_f_cert 2 = true /\
  m_run_certs fx_repaired tab_all [ONewE [98%N]; OIns 1 2 None; OIt 1 65535%N false; OItNext 0; ODl 0 [98%N]; ODLen 0; ORm 2; OItPrev 0] = (8, 0).
Proof. vm_compute. repeat split; reflexivity. Qed.

(* ============================================================================================================ *)
(** * Non-vacuity: the hypotheses of the conditional theorems hold on a concrete document
      a[ b[ "hi", c ], <!--x-->, b ]    (ids: a=1 b=2 "hi"=3 c=4 comment=5 b=6) *)
Definition ex_f : forest :=
  [Node 0 KDoc [] [Node 1 KElem [97%N] [Node 2 KElem [98%N] [Node 3 KText [104;105]%N []; Node 4 KElem [99%N] []];
                                        Node 5 KComment [120%N] []; Node 6 KElem [98%N] []]]].
Definition ex_it := {| mi_root := 1; mi_what := 65535%N; mi_usef := true; mi_cur := None; mi_fwd := true |}.

Fixpoint below (n : nat) : list nat := match n with O => [] | S k => below k ++ [k] end.
Lemma below_all : forall n k, k < n -> In k (below n).
Proof. induction n; intros k H; [lia|]. cbn. apply in_or_app. destruct (Nat.eq_dec k n); [right; left; auto|left; apply IHn; lia]. Qed.

Example T14_iter_hyps_satisfiable :
  let order := ids (it_order ex_f 1) in
  order = [1; 2; 3; 4; 5; 6] /\ NoDup order /\ length order <= m_fuel ex_f /\
  (forall k c, nth_error order k = Some c -> mi_next_raw ex_f 1 (Some c) true = nth_error order (S k)) /\
  (forall k c, nth_error order (S k) = Some c -> mi_prev_raw ex_f 1 c = nth_error order k) /\
  mi_prev_raw ex_f 1 1 = None /\
  (forall s, In s (it_order ex_f 1) -> it_accepts [1;2;3;1;1;1;2]%N 65535%N true s = mi_accept [1;2;3;1;1;1;2]%N ex_f ex_it (tid s)).
Proof.
  cbv zeta. split; [reflexivity|]. split; [|split; [vm_compute; lia|]].
  - change (ids (it_order ex_f 1)) with [1;2;3;4;5;6]. repeat constructor; cbn; intuition discriminate.
  - change (ids (it_order ex_f 1)) with [1;2;3;4;5;6]. split; [|split; [|split]].
    + intros k c H. do 6 (destruct k as [|k]; [cbn in H; injection H as <-; reflexivity|]). destruct k; discriminate.
    + intros k c H. do 5 (destruct k as [|k]; [cbn in H; injection H as <-; reflexivity|]). destruct k; discriminate.
    + reflexivity.
    + intros s Hs. vm_compute in Hs. repeat (destruct Hs as [<-|Hs]; [reflexivity|]). destruct Hs.
Qed.

Example T14_deeplist_hyps_satisfiable :
  sp_tag_list ex_f 1 [98%N] = [2; 6] /\
  (forall k c, nth_error (1 :: sp_tag_list ex_f 1 [98%N]) k = Some c ->
     md_next_match ex_f 1 [98%N] (m_fuel ex_f) (Some c) = nth_error (1 :: sp_tag_list ex_f 1 [98%N]) (S k)) /\
  length (sp_tag_list ex_f 1 [98%N]) < m_fuel ex_f.
Proof.
  split; [reflexivity|]. split; [|vm_compute; lia].
  change (sp_tag_list ex_f 1 [98%N]) with [2; 6].
  intros k c H. do 3 (destruct k as [|k]; [cbn in H; injection H as <-; reflexivity|]). destruct k; discriminate.
Qed.

Example T14_range_moves_hyps_satisfiable :
  m_parent ex_f 2 = Some 1 /\ (forall c, m_is_anc ex_f (m_fuel ex_f) 2 (Some c) = memb c (sub_ids ex_f 2)) /\
  memb 1 (sub_ids ex_f 2) = false /\ m_is_cd ex_f 3 = true.
Proof.
  split; [reflexivity|]. split; [|split; reflexivity].
  intros c. do 8 (destruct c as [|c]; [reflexivity|]).
  (* ids that do not occur: the climb finds no parent, the subtree does not contain them *)
  reflexivity.
Qed.

(** the repaired model and the specification interpreter agree on a history that exercises all four view kinds
    across mutations (a finite sample, NOT the general claim -- that is the correspondence's job) *)
Example T14_history_sample :
  let h := [ONewE [98%N]; OIns 1 2 None; ONewT [104;105]%N; OIns 2 3 None; ONewE [99%N]; OIns 2 4 None;
            OIt 1 65535%N false; OItNext 0; OItNext 0; OItNext 0; OTw 1 1%N true; OW WNext 0; ODl 0 [98%N]; ODLen 0;
            ORg; ORSetS 0 3 1; ORSetE 0 2 2; ORm 2; OItPrev 0; OItNext 0; ODLen 0; ODItem 0 0; OW WPrev 0;
            OIns 1 2 None; OIData 3 0 [120;121]%N; OSplit 3 2; ODItem 0 0; OItNext 0; OW WNext 0] in
  fst (m_run fx_repaired [1;2;3;1;1;1;2]%N h) = sp_run [1;2;3;1;1;1;2]%N h /\ snd (m_run fx_repaired [1;2;3;1;1;1;2]%N h) = false
  /\ some_invalid (sp_run [1;2;3;1;1;1;2]%N h) = false.
Proof. vm_compute. repeat split; reflexivity. Qed.

(** TreeWalker moves: a FINITE SAMPLE (not the general claim): on the example document, for every filter table over
    {accept, reject, skip} for the names b, c, #text, #comment, for 4 whatToShow masks, with and without filter, every
    one of the seven moves from every node the walker can stand on (the root, or a node of its view) gives the same
    target in the repaired model and in the specification *)
Definition walker_sample_ok : bool :=
  let moves := [WParent; WFirst; WLast; WPrevSib; WNextSib; WNext; WPrev] in
  let vs := [1; 2; 3]%N in
  forallb (fun vb => forallb (fun vc => forallb (fun vt => forallb (fun vm =>
    let tab := [1; vb; vc; 1; 1; vt; vm]%N in
    forallb (fun what => forallb (fun usef =>
      forallb (fun cur =>
        let w := {| sw_root := 1; sw_what := what; sw_usef := usef; sw_cur := cur |} in
        let mw := {| mw_root := 1; mw_what := what; mw_usef := usef; mw_cur := cur |} in
        if in_view (view_verdict tab what usef) ex_f_cert 1 cur then
          forallb (fun m => opt_eqb (sp_w_target_at tab ex_f_cert w 1 m) (mw_target fx_repaired tab ex_f_cert mw m)) moves
        else true) [1; 2; 3; 4; 5; 6]) [true; false]) [65535; 1; 4; 133]%N) vs) vs) vs) vs.
Example T14_walker_sample : walker_sample_ok = true.
Proof. vm_compute. reflexivity. Qed.

(* ============================================================================================================ *)
(** * Range content operations (SpecR14.v = DOM Range 2.6-2.9 on the rose tree, ModelR14.v = DOMRangeImpl::toString,
      traverseContents and its ten helpers, insertNode) *)

(** cloneContents() and toString() are observers: whatever the range selects -- all four container relationships
    of traverseContents, partially selected character data, boundary walks of any depth -- the document, every
    iterator, walker, tag list and range (the operating one included) are exactly what they were *)
Theorem T14_clone_contents_pure : forall deld k s s' frag,
  xr_traverse deld HClone k s = Some (s', frag) -> s' = s.
Proof. exact clone_contents_pure. Qed.
Print Assumptions T14_clone_contents_pure.
Theorem T14_clone_step_pure : forall t d s k a s', mx_step t d s (XClone k) = Some (a, s') -> s' = s.
Proof. exact mx_step_clone_pure. Qed.
Print Assumptions T14_clone_step_pure.
Theorem T14_tostring_step_pure : forall t d s k a s', mx_step t d s (XStr k) = Some (a, s') -> s' = s.
Proof. exact mx_step_str_pure. Qed.
Print Assumptions T14_tostring_step_pure.
(** non-vacuity: a range from inside a text node to inside another one below a different parent is cloned
    (two partially selected elements with their partial text), and the state is untouched *)
Definition h_content : list xop :=
  [XBase (ONewE [98%N]); XBase (OIns 1 2 None); XBase (ONewT [104;101;108;108;111]%N); XBase (OIns 2 3 None);
   XBase (ONewE [99%N]); XBase (OIns 1 4 None); XBase (ONewT [119;111;114;108;100]%N); XBase (OIns 4 5 None);
   XBase (ONewC [120%N]); XBase (OIns 1 6 (Some 4));
   XBase ORg; XBase (ORSetS 0 3 2); XBase (ORSetE 0 5 3)].
Example T14_clone_example :
  map fst (fst (mx_run fx_current false false tab_all (h_content ++ [XClone 0]))) =
  map fst (fst (mx_run fx_current false false tab_all h_content)) ++
  [XRFrag [FT None KElem [98%N] [FT None KText [108;108;111]%N []]; FT None KComment [120%N] [];
           FT None KElem [99%N] [FT None KText [119;111;114]%N []]]].
Proof. vm_compute. reflexivity. Qed.

(** the specification of a collapsed range: nothing is selected *)
Theorem T14_fragment_collapsed : forall m b orig, sp_fragment m {| r_s := b; r_e := b |} orig = [].
Proof. exact sp_fragment_collapsed. Qed.
Print Assumptions T14_fragment_collapsed.

(** deleteContents with both boundary points in one character-data node = deleteData(start, end - start), whose
    fix-up is Range 2.12.2 (T14_range_moves_delete_text), then collapse(true) *)
Theorem T14_delete_same_text_partial : forall d k s, m_is_cd (ms_f s) (mr_sc (rg_of s k)) = true ->
  mr_sc (rg_of s k) = mr_ec (rg_of s k) -> mr_so (rg_of s k) <> mr_eo (rg_of s k) ->
  option_map fst (xr_traverse d HDelete k s) =
  Some (xr_steps (m_del_text s (mr_sc (rg_of s k)) (mr_so (rg_of s k)) (mr_eo (rg_of s k) - mr_so (rg_of s k))) [ORColl k true]).
Proof. exact delete_same_text. Qed.
Print Assumptions T14_delete_same_text_partial.

(** the repaired model IS the specification on a history that exercises toString, cloneContents, extractContents with
    a common-ancestor range, insertNode with a split, and deleteContents (finite sample; the unbounded statement
    model = specification for the content operations is NOT proved: it is the subject of the correspondence) *)
Definition h_content2 : list xop :=
  h_content ++ [XBase ORg; XBase (ORSetS 1 3 1); XBase (ORSetE 1 5 4); XStr 0; XClone 0; XExt 0; XStr 1;
                XBase (ONewE [100%N]); XInsN 1 7; XBase (OVal 1); XDel 1; XBase (OVal 1); XBase (OVal 2)].
Example T14_content_sample :
  fst (mx_run fx_repaired true true tab_all h_content2) = spx_run tab_all h_content2 /\
  snd (mx_run fx_repaired true true tab_all h_content2) = false /\ length (spx_run tab_all h_content2) = 26.
Proof. vm_compute. repeat split; reflexivity. Qed.

(** KNOWN FINDING F30 (code as it is): toString() appends comments; the specification (and the model restricted to
    Text nodes) does not *)
Theorem T14_tostring_comment_refuted :
  exists h, fst (mx_run fx_repaired false true tab_all h) <> spx_run tab_all h /\
            fst (mx_run fx_repaired true true tab_all h) = spx_run tab_all h.
Proof. exists (h_content ++ [XStr 0]). split; [vm_compute; discriminate|vm_compute; reflexivity]. Qed.
Print Assumptions T14_tostring_comment_refuted.

(** KNOWN FINDING F31 (code as it is): deleteContents truncates a partially selected boundary text node with
    setNodeValue: ANOTHER live range with a boundary point in the kept part of the node is thrown to offset 0;
    repaired (fixes/C14-range-traverse-text.patch, deleteData) the model is the specification *)
Theorem T14_delete_other_range_refuted :
  exists h, fst (mx_run fx_repaired true false tab_all h) <> spx_run tab_all h /\
            fst (mx_run fx_repaired true true tab_all h) = spx_run tab_all h.
Proof.
  exists (h_content ++ [XBase ORg; XBase (ORSetS 1 3 1); XBase (ORSetE 1 5 4); XDel 0]).
  split; [vm_compute; discriminate|vm_compute; reflexivity].
Qed.
Print Assumptions T14_delete_other_range_refuted.
