(** C14 -- TreeWalker: parentNode() of the code is the specification's "closest visible ancestor" on well-formed
    forests, for the code as it is and as repaired alike (F27 only turns SKIP into REJECT, never into ACCEPT). *)
From Coq Require Import List NArith Arith Bool Lia.
From XV Require Import C14.Spec14 C14.Hist14 C14.Model14 C14.Tree14 C14.Nav14d.
Import ListNotations.

Definition abs_w (w : m_walker) : sp_walker :=
  {| sw_root := mw_root w; sw_what := mw_what w; sw_usef := mw_usef w; sw_cur := mw_cur w |}.

Lemma accept_is_accept : forall fx tab f w n s, find_node f n = Some s ->
  is_accept (mw_accept fx tab f w n) = is_accept (view_verdict tab (mw_what w) (mw_usef w) s).
Proof.
  intros fx tab f w n s Hs. unfold mw_accept, view_verdict, m_shown, m_kind, m_filter. rewrite Hs.
  destruct (mw_usef w); destruct (shown (mw_what w) (tkind s)); try reflexivity.
  destruct (fx_wshow fx); [reflexivity|]. destruct (filter_verdict tab s); reflexivity.
Qed.

Section Parent.
  Variable f : forest.
  Hypothesis Hwf : wf_forest f.
  Variable root : nat.

  Lemma find_parent_in : forall i P, find_parent f i = Some P -> In P (fnodes f).
  Proof. intros i P H. unfold find_parent in H. apply find_some in H. exact (proj1 H). Qed.

  Lemma parent_equal_fuel : forall fx tab w F cur,
    mw_get_parent f root (mw_accept fx tab f w) F cur =
    option_map tid (find (fun a => is_accept (view_verdict tab (mw_what w) (mw_usef w) a)) (ancestors f F root cur)).
  Proof.
    intros fx tab w. induction F as [|fu IH]; intros cur; [reflexivity|]. cbn [mw_get_parent ancestors].
    destruct (cur =? root); [reflexivity|]. unfold m_parent.
    destruct (find_parent f cur) as [P|] eqn:EP; [|reflexivity]. cbn [option_map find].
    pose proof (find_node_wf f P Hwf (find_parent_in cur P EP)) as HP.
    pose proof (accept_is_accept fx tab f w (tid P) P HP) as Ha.
    destruct (view_verdict tab (mw_what w) (mw_usef w) P) eqn:Ev; cbn [is_accept] in Ha |- *;
      destruct (mw_accept fx tab f w (tid P)); try discriminate; try reflexivity; apply IH.
  Qed.

  Lemma anc_stable : forall F i X, find_node f i = Some X -> length (fnodes f) < F + length (docorder X) ->
    ancestors f (S F) root i = ancestors f F root i.
  Proof.
    induction F as [|F IH]; intros i X HX Hlen.
    - exfalso. destruct (find_node_in f i X HX) as [HXf _]. pose proof (len_sub f X HXf) as H. unfold dnodes in H. unfold fnodes in Hlen. lia.
    - cbn [ancestors]. destruct (i =? root); [reflexivity|].
      destruct (find_parent f i) as [P|] eqn:EP; [|reflexivity]. f_equal.
      pose proof (find_parent_in i P EP) as HPf.
      apply (IH (tid P) P (find_node_wf f P Hwf HPf)).
      (* the subtree of the parent is strictly larger *)
      destruct (find_node_in f i X HX) as [HXf HtX].
      unfold find_parent in EP. apply find_some in EP. destruct EP as [_ Hk]. apply has_kid_spec in Hk. destruct Hk as [c [Hc Ec]].
      assert (c = X) by (apply (same_id (fnodes f)); [exact Hwf|exact (kids_in_dnodes f P c HPf Hc)|exact HXf|congruence]).
      subst c. rewrite (docorder_eq P). cbn [length].
      assert (length (docorder X) <= length (dnodes (tkids P))); [|lia].
      clear -Hc. induction (tkids P) as [|y r IHr]; [destruct Hc|]. rewrite dnodes_cons, app_length.
      destruct Hc as [->|Hc]; [lia|]. pose proof (IHr Hc). lia.
  Qed.
  Lemma anc_stable_ge : forall F i X, find_node f i = Some X -> m_fuel f <= F ->
    ancestors f F root i = ancestors f (m_fuel f) root i.
  Proof.
    intros F i X HX Hge. induction Hge as [|F Hge IH]; [reflexivity|].
    rewrite <- IH. apply (anc_stable F i X HX). destruct (find_node_in f i X HX) as [HXf _].
    assert (1 <= length (docorder X)) by (rewrite docorder_eq; cbn; lia). unfold m_fuel in Hge. lia.
  Qed.

  (** T14_walker, parentNode *)
  Theorem walker_parent_is_spec : forall fx tab w X, mw_root w = root -> find_node f (mw_cur w) = Some X ->
    mw_target fx tab f w WParent = sp_w_target_at tab f (abs_w w) root WParent.
  Proof.
    intros fx tab w X Hr HX. unfold mw_target, sp_w_target_at, abs_w. cbn [sw_cur sw_what sw_usef]. rewrite Hr.
    rewrite parent_equal_fuel. rewrite (anc_stable_ge (mw_fuel f) (mw_cur w) X HX) by (unfold mw_fuel; lia).
    destruct (mw_cur w =? root) eqn:E; [|reflexivity].
    unfold m_fuel. cbn [ancestors]. rewrite E. reflexivity.
  Qed.
End Parent.
