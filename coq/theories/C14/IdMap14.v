(** C14 -- getElementById: specification (finite map ID value -> element carrying it in the document), model of
    DOMNodeIDMap (src/xercesc/dom/impl/DOMNodeIDMap.cpp: open addressing, the initial hash is also the probe step,
    a "deleted" marker, growth at the fill limit with re-insertion; sizes / fill limits / hash constants come from
    Gen/GenC14IdMap.v, regenerated from /repo), of the callers in DOMAttrImpl / DOMElementImpl, and the two history
    interpreters.  No proofs in this file.
    A document here is: elements with ids (0 = document, 1 = document element), a parent pointer, and at most one
    attribute "id" per element with a value and the isId flag. *)
From Coq Require Import List NArith Arith Bool.
From XV Require Import Gen.GenC14IdMap C14.Spec14 C14.Hist14.
Import ListNotations.

(* ---------------------------------------------------------------------------------------------------------- *)
(** * the document state shared by specification and model *)
Record attr := { a_val : list N; a_isid : bool }.
Record elem := { e_id : nat; e_parent : option nat; e_attr : option attr }.
Definition edoc := list elem.                     (* in creation order; ids are positions + 1 ... see [e_id] *)

Definition get_elem (d : edoc) (i : nat) : option elem := find (fun e => e_id e =? i) d.
Definition set_elem (d : edoc) (n : elem) : edoc := map (fun e => if e_id e =? e_id n then n else e) d.
Fixpoint connected (d : edoc) (fuel : nat) (i : nat) : bool :=
  match fuel with
  | O => false
  | S fu => if i =? 0 then true else
            match get_elem d i with
            | Some e => match e_parent e with Some p => connected d fu p | None => false end
            | None => false
            end
  end.
Definition in_doc (d : edoc) (i : nat) : bool := connected d (S (length d)) i.
Fixpoint is_anc_e (d : edoc) (fuel : nat) (a i : nat) : bool :=
  match fuel with
  | O => false
  | S fu => if i =? a then true else
            match get_elem d i with
            | Some e => match e_parent e with Some p => is_anc_e d fu a p | None => false end
            | None => false
            end
  end.

(** SPEC: the element of the document tree that carries an ID attribute with this value *)
Definition carries (v : list N) (e : elem) : bool :=
  match e_attr e with Some a => a_isid a && list_eqb (a_val a) v | None => false end.
Definition sp_get_by_id (d : edoc) (v : list N) : option nat :=
  option_map e_id (find (fun e => carries v e && in_doc d (e_id e)) d).

(* ---------------------------------------------------------------------------------------------------------- *)
(** * XMLString::hash(const XMLCh*, modulus) on 64-bit XMLSize_t *)
Local Open Scope N_scope.
Definition w64 (x : N) : N := x mod 18446744073709551616.
Fixpoint xhash_go (h : N) (s : list N) : N :=
  match s with [] => h | c :: r => xhash_go (w64 (h * xhash_mult + N.shiftr h xhash_shift + c)) r end.
Definition xhash (s : list N) (modulus : N) : N :=
  match s with [] => 0 | c :: r => (xhash_go c r) mod modulus end.
Local Close Scope N_scope.

(* ---------------------------------------------------------------------------------------------------------- *)
(** * DOMNodeIDMap *)
Inductive slot := SEmpty | SDel | SAttr (e : nat).      (* 0, (DOMAttr* )-1, the ID attribute of element e *)
Record idmap := { im_tab : list slot; im_size : nat; im_idx : nat; im_num : nat; im_max : nat }.
Inductive outcome (A : Type) := Done (a : A) | Hang | GrowErr.
Arguments Done {A}. Arguments Hang {A}. Arguments GrowErr {A}.

Definition size_at (k : nat) : option (nat * nat) :=
  match nth_error idmap_sizes k with Some (s, m) => Some (N.to_nat s, N.to_nat m) | None => None end.
(** the constructor: the first size >= the requested one *)
Definition im_new : idmap :=
  let k := (fix go (l : list (N * N)) (k : nat) := match l with
                                                   | [] => k
                                                   | (s, _) :: r => if N.ltb s idmap_initial then go r (S k) else k
                                                   end) idmap_sizes 0 in
  match size_at k with
  | Some (s, m) => {| im_tab := repeat SEmpty s; im_size := s; im_idx := k; im_num := 0; im_max := m |}
  | None => {| im_tab := []; im_size := 0; im_idx := k; im_num := 0; im_max := 0 |}
  end.

(** initalHash = hash(id, fSize-1) + 1; it is also the probe step *)
Definition h0_of (size : nat) (v : list N) : nat := S (N.to_nat (xhash v (N.of_nat (size - 1)))).
Definition step (size h0 cur : nat) : nat := let c := cur + h0 in if size <=? c then c mod size else c.
Definition slot_at (t : list slot) (k : nat) : slot := nth k t SEmpty.

(** the three probe loops; fuel = table size (one full cycle); running out of fuel = the C++ loop never ends *)
Fixpoint probe_free (t : list slot) (size h0 : nat) (fuel cur : nat) : option nat :=
  match fuel with
  | O => None
  | S fu => match slot_at t cur with
            | SAttr _ => probe_free t size h0 fu (step size h0 cur)
            | _ => Some cur
            end
  end.
Fixpoint probe_attr (t : list slot) (size h0 : nat) (e : nat) (fuel cur : nat) : outcome (option nat) :=
  match fuel with
  | O => Hang
  | S fu => match slot_at t cur with
            | SEmpty => Done None
            | SAttr e' => if e' =? e then Done (Some cur) else probe_attr t size h0 e fu (step size h0 cur)
            | SDel => probe_attr t size h0 e fu (step size h0 cur)
            end
  end.
Fixpoint probe_val (val : nat -> list N) (t : list slot) (size h0 : nat) (v : list N) (fuel cur : nat) : outcome (option nat) :=
  match fuel with
  | O => Hang
  | S fu => match slot_at t cur with
            | SEmpty => Done None
            | SAttr e' => if list_eqb (val e') v then Done (Some e') else probe_val val t size h0 v fu (step size h0 cur)
            | SDel => probe_val val t size h0 v fu (step size h0 cur)
            end
  end.

Section Map.
  Variable val : nat -> list N.                   (* attr->getValue() of the ID attribute of element e *)

  (** the slot search + store of add() *)
  Definition im_put (m : idmap) (e : nat) : outcome idmap :=
    let h0 := h0_of (im_size m) (val e) in
    match probe_free (im_tab m) (im_size m) h0 (im_size m) h0 with
    | None => Hang
    | Some k => Done {| im_tab := upd k (SAttr e) (im_tab m); im_size := im_size m; im_idx := im_idx m;
                        im_num := im_num m; im_max := im_max m |}
    end.
  Definition with_num (m : idmap) (n : nat) : idmap :=
    {| im_tab := im_tab m; im_size := im_size m; im_idx := im_idx m; im_num := n; im_max := im_max m |}.
  (** add() and growTable(); [fuel] bounds the add -> growTable -> add nesting *)
  Fixpoint im_add (fuel : nat) (m : idmap) (e : nat) : outcome idmap :=
    match fuel with
    | O => Hang
    | S fu =>
      let grown :=
        if im_max m <=? im_num m then
          match size_at (S (im_idx m)) with
          | None => GrowErr
          | Some (s, mx) =>
            fold_left (fun acc sl => match acc, sl with
                                     | Done m', SAttr e' => im_add fu m' e'
                                     | _, _ => acc
                                     end) (im_tab m)
                      (Done {| im_tab := repeat SEmpty s; im_size := s; im_idx := S (im_idx m); im_num := im_num m; im_max := mx |})
          end
        else Done m in
      match grown with
      | Done m1 => im_put (with_num m1 (S (im_num m1))) e
      | o => o
      end
    end.
  Definition im_remove (m : idmap) (e : nat) : outcome idmap :=
    let h0 := h0_of (im_size m) (val e) in
    match probe_attr (im_tab m) (im_size m) h0 e (im_size m) h0 with
    | Done (Some k) => Done {| im_tab := upd k SDel (im_tab m); im_size := im_size m; im_idx := im_idx m;
                               im_num := im_num m; im_max := im_max m |}
    | Done None => Done m
    | Hang => Hang | GrowErr => GrowErr
    end.
  Definition im_find (m : idmap) (v : list N) : outcome (option nat) :=
    let h0 := h0_of (im_size m) v in
    probe_val val (im_tab m) (im_size m) h0 v (im_size m) h0.
End Map.

(* ---------------------------------------------------------------------------------------------------------- *)
(** * histories over the ID map *)
Inductive iop :=
| INew | IApp (p n : nat) | IRm (x : nat)
| ISetAttr (e : nat) (v : list N) | ISetId (e : nat) (isid : bool) | IRemAttr (e : nat)
| IGet (v : list N).
(** result; for IGet also what a linear scan of the document tree says (the specification) *)
Inductive ires := IRNew (n : nat) | IROk | IRErr (c : nat) | IRGuard | IRGet (r scan : option nat) | IRHang.

Record i_state := { is_d : edoc; is_next : nat; is_map : option idmap }.
Definition val_in (d : edoc) (e : nat) : list N :=
  match get_elem d e with Some el => match e_attr el with Some a => a_val a | None => [] end | None => [] end.
Definition the_map (s : i_state) : idmap := match is_map s with Some m => m | None => im_new end.

(** the tree part (shared): None = guard *)
Definition tree_step (d : edoc) (next : nat) (o : iop) : option (ires * edoc * nat) :=
  match o with
  | INew => Some (IRNew next, d ++ [{| e_id := next; e_parent := None; e_attr := None |}], S next)
  | IApp p n =>
    match get_elem d p, get_elem d n with
    | Some pe, Some ne =>
      if (n =? 0) || (n =? 1) || (p =? 0) || is_anc_e d (S (length d)) n p then None
      else Some (IROk, set_elem d {| e_id := n; e_parent := Some p; e_attr := e_attr ne |}, next)
    | _, _ => None
    end
  | IRm x =>
    match get_elem d x with
    | Some xe => if (x =? 0) || (x =? 1) || negb (is_some (e_parent xe)) then None
                 else Some (IROk, set_elem d {| e_id := x; e_parent := None; e_attr := e_attr xe |}, next)
    | None => None
    end
  | _ => None
  end.

Definition with_attr (el : elem) (a : option attr) : elem := {| e_id := e_id el; e_parent := e_parent el; e_attr := a |}.

(** the model: DOMElementImpl::setAttribute / setIdAttribute / removeAttribute, DOMAttrImpl::setValue,
    addAttrToIDNodeMap / removeAttrFromIDNodeMap, DOMDocumentImpl::getElementById *)
Definition lift (s : i_state) (d : edoc) (o : outcome idmap) : ires * i_state :=
  match o with
  | Done m => (IROk, {| is_d := d; is_next := is_next s; is_map := Some m |})
  | _ => (IRHang, s)
  end.
(** [chk]: getElementById as it is (false) / repaired: only an element connected to the document is returned (true) *)
Definition im_step (chk : bool) (s : i_state) (o : iop) : ires * i_state :=
  let d := is_d s in
  match o with
  | INew | IApp _ _ | IRm _ =>
    match tree_step d (is_next s) o with
    | Some (r, d', nx) => (r, {| is_d := d'; is_next := nx; is_map := is_map s |})
    | None => (IRGuard, s)
    end
  | ISetAttr e v =>
    match get_elem d e with
    | None => (IRGuard, s)
    | Some el =>
      if e =? 0 then (IRGuard, s) else
      match e_attr el with
      | Some a =>
        (* setValue: if isIdAttr: remove (hashing the old value), set, add (hashing the new value) *)
        let d' := set_elem d (with_attr el (Some {| a_val := v; a_isid := a_isid a |})) in
        if a_isid a then
          match im_remove (val_in d) (the_map s) e with
          | Done m1 => lift s d' (im_add (val_in d') 3 m1 e)
          | _ => (IRHang, s)
          end
        else (IROk, {| is_d := d'; is_next := is_next s; is_map := is_map s |})
      | None => (IROk, {| is_d := set_elem d (with_attr el (Some {| a_val := v; a_isid := false |}));
                          is_next := is_next s; is_map := is_map s |})
      end
    end
  | ISetId e isid =>
    match get_elem d e with
    | None => (IRGuard, s)
    | Some el =>
      if e =? 0 then (IRGuard, s) else
      match e_attr el with
      | None => (IRErr 8, s)
      | Some a =>
        let d' := set_elem d (with_attr el (Some {| a_val := a_val a; a_isid := isid |})) in
        if isid then
          (if a_isid a then (IROk, s) else lift s d' (im_add (val_in d') 3 (the_map s) e))
        else
          (if a_isid a then lift s d' (im_remove (val_in d) (the_map s) e) else (IROk, s))
      end
    end
  | IRemAttr e =>
    match get_elem d e with
    | None => (IRGuard, s)
    | Some el =>
      if e =? 0 then (IRGuard, s) else
      match e_attr el with
      | None => (IROk, s)
      | Some a =>
        let d' := set_elem d (with_attr el None) in
        if a_isid a then lift s d' (im_remove (val_in d) (the_map s) e)
        else (IROk, {| is_d := d'; is_next := is_next s; is_map := is_map s |})
      end
    end
  | IGet v =>
    match is_map s with
    | None => (IRGet None (sp_get_by_id d v), s)
    | Some m => match im_find (val_in d) m v with
                | Done r => (IRGet (match r with
                                    | Some e => if chk && negb (in_doc d e) then None else Some e
                                    | None => None end) (sp_get_by_id d v), s)
                | _ => (IRHang, s)
                end
    end
  end.

(** the specification interpreter: no table at all *)
Definition isp_step (s : i_state) (o : iop) : ires * i_state :=
  let d := is_d s in
  let upd_attr := fun el a => (IROk, {| is_d := set_elem d (with_attr el a); is_next := is_next s; is_map := None |}) in
  match o with
  | INew | IApp _ _ | IRm _ =>
    match tree_step d (is_next s) o with
    | Some (r, d', nx) => (r, {| is_d := d'; is_next := nx; is_map := None |})
    | None => (IRGuard, s)
    end
  | ISetAttr e v =>
    match get_elem d e with
    | None => (IRGuard, s)
    | Some el => if e =? 0 then (IRGuard, s) else
                 upd_attr el (Some {| a_val := v; a_isid := match e_attr el with Some a => a_isid a | None => false end |})
    end
  | ISetId e isid =>
    match get_elem d e with
    | None => (IRGuard, s)
    | Some el => if e =? 0 then (IRGuard, s) else
                 match e_attr el with
                 | None => (IRErr 8, s)
                 | Some a => upd_attr el (Some {| a_val := a_val a; a_isid := isid |})
                 end
    end
  | IRemAttr e =>
    match get_elem d e with
    | None => (IRGuard, s)
    | Some el => if e =? 0 then (IRGuard, s) else upd_attr el None
    end
  | IGet v => (IRGet (sp_get_by_id d v) (sp_get_by_id d v), s)
  end.

Definition i_init : i_state :=
  {| is_d := [{| e_id := 0; e_parent := None; e_attr := None |}; {| e_id := 1; e_parent := Some 0; e_attr := None |}];
     is_next := 2; is_map := None |}.
Fixpoint i_run_from (stp : i_state -> iop -> ires * i_state) (s : i_state) (h : list iop) : list ires :=
  match h with
  | [] => []
  | o :: r => let '(a, s') := stp s o in a :: (match a with IRHang => [] | _ => i_run_from stp s' r end)
  end.
Definition im_run (chk : bool) (h : list iop) : list ires := i_run_from (im_step chk) i_init h.
Definition isp_run (h : list iop) : list ires := i_run_from isp_step i_init h.
