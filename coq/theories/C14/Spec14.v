(** C14 -- specification side: a reference DOM tree (rose tree with unique node ids), the mutation operations,
    document order, and the DOM Level 2 Traversal-Range behaviour of the live views stated on that tree:
      - NodeIterator: a position is (reference node, before/after) in the unfiltered document order of the
        root's subtree (Traversal 1.1.1); removal of the reference node re-anchors it (1.1.1.3);
      - TreeWalker: moves in the logical view (accepted nodes; skipped nodes are transparent; rejected subtrees
        are invisible); whatToShow skips and takes precedence over the filter (Traversal 1.2);
      - getElementsByTagName: the matching elements below the root in document order;
      - Range: boundary points, their order (lexicographic order of path ++ [offset]) and the fix-up rules of
        Range 2.12 for insertions, deletions and character-data edits.
    Nothing here mentions the C++ code. *)
From Coq Require Import List NArith Arith Bool.
Import ListNotations.

Inductive kind := KDoc | KElem | KText | KComment.

(** node id, kind, value (element: its name; text/comment: the characters), children *)
Inductive tree := Node (id : nat) (k : kind) (val : list N) (kids : list tree).

Definition tid (t : tree) := match t with Node i _ _ _ => i end.
Definition tkind (t : tree) := match t with Node _ k _ _ => k end.
Definition tval (t : tree) := match t with Node _ _ v _ => v end.
Definition tkids (t : tree) := match t with Node _ _ _ ks => ks end.

Definition kind_eqb (a b : kind) : bool :=
  match a, b with KDoc, KDoc | KElem, KElem | KText, KText | KComment, KComment => true | _, _ => false end.
Definition is_chardata (k : kind) : bool := match k with KText | KComment => true | _ => false end.

(** document order: a node, then its children's subtrees left to right *)
Fixpoint docorder (t : tree) : list tree :=
  match t with Node _ _ _ ks => t :: flat_map docorder ks end.

Definition forest := list tree.
Definition fnodes (f : forest) : list tree := flat_map docorder f.

Definition find_node (f : forest) (i : nat) : option tree := find (fun s => tid s =? i) (fnodes f).
Definition has_kid (i : nat) (s : tree) : bool := existsb (fun c => tid c =? i) (tkids s).
Definition find_parent (f : forest) (i : nat) : option tree := find (has_kid i) (fnodes f).

Definition ids (l : list tree) : list nat := map tid l.
Definition memb (i : nat) (l : list nat) : bool := existsb (Nat.eqb i) l.

(** ids of the subtree rooted at i, in document order ([] if i is unknown) *)
Definition sub_ids (f : forest) (i : nat) : list nat :=
  match find_node f i with Some s => ids (docorder s) | None => [] end.

(** container length: number of children, or of characters *)
Definition node_len (s : tree) : nat := if is_chardata (tkind s) then length (tval s) else length (tkids s).

Fixpoint index_of (i : nat) (l : list nat) : nat :=
  match l with [] => 0 | x :: r => if x =? i then 0 else S (index_of i r) end.

(* ---------------------------------------------------------------------------------------------------------- *)
(** * Tree mutations *)

Fixpoint remove_sub (i : nat) (t : tree) : tree :=
  match t with Node j k v ks =>
    Node j k v ((fix go (l : list tree) : list tree :=
                   match l with
                   | [] => []
                   | c :: r => if tid c =? i then go r else remove_sub i c :: go r
                   end) ks) end.

Fixpoint ins_before (r : option nat) (n : tree) (ks : list tree) {struct ks} : list tree :=
  match ks with
  | [] => [n]
  | c :: rest => match r with
                 | None => c :: ins_before r n rest
                 | Some ri => if tid c =? ri then n :: c :: rest else c :: ins_before r n rest
                 end
  end.

Fixpoint insert_sub (p : nat) (r : option nat) (n : tree) (t : tree) : tree :=
  match t with Node j k v ks =>
    if j =? p then Node j k v (ins_before r n ks) else Node j k v (map (insert_sub p r n) ks) end.

Fixpoint set_val (i : nat) (nv : list N) (t : tree) : tree :=
  match t with Node j k v ks => if j =? i then Node j k nv ks else Node j k v (map (set_val i nv) ks) end.

(** the forest: head = the document tree, tail = detached fragments *)
Definition f_remove (f : forest) (i : nat) : forest :=
  match find_node f i with
  | Some s => match f with
              | [] => []
              | m :: det => remove_sub i m :: s :: map (remove_sub i) (filter (fun c => negb (tid c =? i)) det)
              end
  | None => f
  end.
(** attach the (detached, top-level) tree n under p before r *)
Definition f_insert (f : forest) (p : nat) (r : option nat) (n : nat) : forest :=
  match find_node f n with
  | Some s => map (insert_sub p r s) (filter (fun c => negb (tid c =? n)) f)
  | None => f
  end.
Definition f_set_val (f : forest) (i : nat) (v : list N) : forest := map (set_val i v) f.
Definition f_add (f : forest) (t : tree) : forest := f ++ [t].

Definition in_main (f : forest) (i : nat) : bool :=
  match f with m :: _ => memb i (ids (docorder m)) | [] => false end.

(* ---------------------------------------------------------------------------------------------------------- *)
(** * Filters (DOM Traversal 1.2) *)
Local Open Scope N_scope.
Definition type_bit (k : kind) : N :=
  match k with KElem => 1 | KText => 4 | KComment => 128 | KDoc => 256 end.
Definition shown (what : N) (k : kind) : bool := negb (N.land what (type_bit k) =? 0).

Inductive verdict := VAccept | VReject | VSkip.
Definition verdict_of (x : N) : verdict := if x =? 2 then VReject else if x =? 3 then VSkip else VAccept.

(** the user filter: a table keyed by node name (a..e, #text, #comment); the document node is accepted *)
Definition filter_verdict (tab : list N) (s : tree) : verdict :=
  match tkind s with
  | KDoc => VAccept
  | KElem => let c := hd 97 (tval s) in
             verdict_of (nth (if (97 <=? c) && (c <=? 101) then N.to_nat (c - 97) else 0%nat) tab 1)
  | KText => verdict_of (nth 5%nat tab 1)
  | KComment => verdict_of (nth 6%nat tab 1)
  end.

(** what a view sees of a node: whatToShow skips (children still considered) and takes precedence over the filter *)
Definition view_verdict (tab : list N) (what : N) (usef : bool) (s : tree) : verdict :=
  if shown what (tkind s) then (if usef then filter_verdict tab s else VAccept) else VSkip.
(** NodeIterator: the flat list has no hierarchy, reject = skip *)
Definition it_accepts (tab : list N) (what : N) (usef : bool) (s : tree) : bool :=
  match view_verdict tab what usef s with VAccept => true | _ => false end.
Local Close Scope N_scope.

(* ---------------------------------------------------------------------------------------------------------- *)
(** * NodeIterator (Traversal 1.1.1) *)

Record sp_iter := { si_root : nat; si_what : N; si_usef : bool; si_ref : option nat; si_after : bool }.

Definition it_order (f : forest) (root : nat) : list tree :=
  match find_node f root with Some s => docorder s | None => [] end.

(** the gap (index into the unfiltered document order) the position denotes *)
Definition gap_of (order : list nat) (ref : option nat) (after : bool) : nat :=
  match ref with None => 0 | Some r => index_of r order + (if after then 1 else 0) end.

Fixpoint last_such {A} (p : A -> bool) (l : list A) : option A :=
  match l with [] => None | x :: r => match last_such p r with Some y => Some y | None => if p x then Some x else None end end.

(** nextNode: the first accepted node after the gap; the position moves just behind it *)
Definition sp_it_next (tab : list N) (f : forest) (it : sp_iter) : option nat * sp_iter :=
  let order := it_order f (si_root it) in
  let g := gap_of (ids order) (si_ref it) (si_after it) in
  match find (it_accepts tab (si_what it) (si_usef it)) (skipn g order) with
  | Some s => (Some (tid s), {| si_root := si_root it; si_what := si_what it; si_usef := si_usef it;
                                si_ref := Some (tid s); si_after := true |})
  | None => (None, {| si_root := si_root it; si_what := si_what it; si_usef := si_usef it;
                      si_ref := si_ref it; si_after := true |})
  end.
(** previousNode: the last accepted node before the gap; the position moves just in front of it *)
Definition sp_it_prev (tab : list N) (f : forest) (it : sp_iter) : option nat * sp_iter :=
  match si_ref it with
  | None => (None, it)
  | Some _ =>
    let order := it_order f (si_root it) in
    let g := gap_of (ids order) (si_ref it) (si_after it) in
    match last_such (it_accepts tab (si_what it) (si_usef it)) (firstn g order) with
    | Some s => (Some (tid s), {| si_root := si_root it; si_what := si_what it; si_usef := si_usef it;
                                  si_ref := Some (tid s); si_after := false |})
    | None => (None, {| si_root := si_root it; si_what := si_what it; si_usef := si_usef it;
                        si_ref := si_ref it; si_after := false |})
    end
  end.

(** Traversal 1.1.1.3: the subtree of x (a proper descendant of the root) is about to be removed.  If the
    reference node is inside it: position after the reference -> the nearest node before the subtree becomes the
    reference; position before the reference -> the nearest node after the subtree, or, if there is none, the
    nearest node before it with the position after it. *)
Definition sp_it_remove (f : forest) (x : nat) (it : sp_iter) : sp_iter :=
  match si_ref it with
  | None => it
  | Some r =>
    let order := ids (it_order f (si_root it)) in
    let sub := sub_ids f x in
    if memb r sub && memb x order && negb (x =? si_root it) then
      let ix := index_of x order in
      let before := nth (ix - 1) order x in
      if si_after it then
        {| si_root := si_root it; si_what := si_what it; si_usef := si_usef it; si_ref := Some before; si_after := true |}
      else match nth_error order (ix + length sub) with
           | Some nx => {| si_root := si_root it; si_what := si_what it; si_usef := si_usef it;
                           si_ref := Some nx; si_after := false |}
           | None => {| si_root := si_root it; si_what := si_what it; si_usef := si_usef it;
                        si_ref := Some before; si_after := true |}
           end
    else it
  end.

(* ---------------------------------------------------------------------------------------------------------- *)
(** * TreeWalker (Traversal 1.2): the logical view *)

Section View.
  Variable vv : tree -> verdict.
  (** the visible nodes of a subtree in view pre-order / the visible children lists *)
  Fixpoint vpre (t : tree) : list nat :=
    match t with Node i _ _ ks =>
      match vv t with
      | VAccept => i :: flat_map vpre ks
      | VSkip => flat_map vpre ks
      | VReject => []
      end end.
  Fixpoint vtop (t : tree) : list nat :=
    match t with Node i _ _ ks =>
      match vv t with
      | VAccept => [i]
      | VSkip => flat_map vtop ks
      | VReject => []
      end end.
  Definition vkids (t : tree) : list nat := flat_map vtop (tkids t).
End View.

Fixpoint after_in (i : nat) (l : list nat) : option nat :=
  match l with [] => None | x :: r => if x =? i then hd_error r else after_in i r end.
Fixpoint before_in (i : nat) (l : list nat) : option nat :=
  match l with
  | [] => None
  | x :: r => match r with y :: _ => if y =? i then Some x else before_in i r | [] => None end
  end.

(** ancestors of i, nearest first, not above [root] (root included when reached) *)
Fixpoint ancestors (f : forest) (fuel : nat) (root : nat) (i : nat) : list tree :=
  match fuel with
  | O => []
  | S fu => if i =? root then [] else
            match find_parent f i with Some p => p :: ancestors f fu root (tid p) | None => [] end
  end.

Record sp_walker := { sw_root : nat; sw_what : N; sw_usef : bool; sw_cur : nat }.
Definition sw_set (w : sp_walker) (c : nat) := {| sw_root := sw_root w; sw_what := sw_what w; sw_usef := sw_usef w; sw_cur := c |}.

Definition is_accept (v : verdict) := match v with VAccept => true | _ => false end.
Definition is_skip (v : verdict) := match v with VSkip => true | _ => false end.

(** the node whose visible-children list contains the current node: the nearest ancestor that is not skipped
    (the root stops the climb) *)
Definition view_parent (vv : tree -> verdict) (f : forest) (root cur : nat) : option tree :=
  if cur =? root then None else
  find (fun a => (tid a =? root) || negb (is_skip (vv a))) (ancestors f (S (length (fnodes f))) root cur).

Inductive wmove := WParent | WFirst | WLast | WPrevSib | WNextSib | WNext | WPrev.

(** The root only bounds the walk while the current node is inside its subtree.  When a mutation has carried the
    current node into a tree that does not contain the root (a removed fragment), the walk is relative to the
    current node and bounded by the top of that tree (DOM Traversal 1.2, TreeWalker.currentNode).  When the
    current node is outside the root's subtree but in the same tree as the root, DOM Level 2 does not say what
    the root means: [None] = unspecified. *)
Definition eff_root (f : forest) (root cur : nat) : option nat :=
  if memb cur (sub_ids f root) then Some root
  else match find (fun t => memb cur (ids (docorder t))) f with
       | Some t => if memb root (ids (docorder t)) then None else Some (tid t)
       | None => Some root
       end.

Definition sp_w_target_at (tab : list N) (f : forest) (w : sp_walker) (root : nat) (m : wmove) : option nat :=
  let vv := view_verdict tab (sw_what w) (sw_usef w) in
  let cur := sw_cur w in
  match m with
  | WParent => if cur =? root then None else
               option_map tid (find (fun a => is_accept (vv a)) (ancestors f (S (length (fnodes f))) root cur))
  | WFirst => match find_node f cur with Some s => hd_error (vkids vv s) | None => None end
  | WLast => match find_node f cur with Some s => hd_error (rev (vkids vv s)) | None => None end
  | WNextSib => match view_parent vv f root cur with Some p => after_in cur (vkids vv p) | None => None end
  | WPrevSib => match view_parent vv f root cur with Some p => before_in cur (vkids vv p) | None => None end
  | WNext => (* successor in the view pre-order of the root's subtree (the root heads the order) *)
    match find_node f root with
    | Some rs => after_in cur (root :: flat_map (vpre vv) (tkids rs))
    | None => None
    end
  | WPrev =>
    match find_node f root with
    | Some rs => match before_in cur (root :: flat_map (vpre vv) (tkids rs)) with
                 | Some p => if (p =? root) && negb (is_accept (vv rs)) then None else Some p
                 | None => None
                 end
    | None => None
    end
  end.
(** the current node is part of the logical view: it is the root, or it is accepted and no ancestor below the
    root is rejected.  (A mutation can carry an accepted current node into a rejected subtree; DOM Level 2 does
    not define the moves from there.) *)
Definition is_reject (v : verdict) := match v with VReject => true | _ => false end.
Definition in_view (vv : tree -> verdict) (f : forest) (root cur : nat) : bool :=
  (cur =? root) ||
  (match find_node f cur with Some s => is_accept (vv s) | None => false end &&
   forallb (fun a => (tid a =? root) || negb (is_reject (vv a))) (ancestors f (S (length (fnodes f))) root cur)).
(** outer None = unspecified situation *)
Definition sp_w_move (tab : list N) (f : forest) (w : sp_walker) (m : wmove) : option (option nat * sp_walker) :=
  match eff_root f (sw_root w) (sw_cur w) with
  | None => None
  | Some root =>
    if negb (in_view (view_verdict tab (sw_what w) (sw_usef w)) f root (sw_cur w)) then None else
    match sp_w_target_at tab f w root m with
    | Some n => Some (Some n, sw_set w n)
    | None => Some (None, w)
    end
  end.

(* ---------------------------------------------------------------------------------------------------------- *)
(** * getElementsByTagName: matching elements below the root in document order; name [] stands for "*" *)
Fixpoint list_eqb (a b : list N) : bool :=
  match a, b with [], [] => true | x :: r, y :: s => N.eqb x y && list_eqb r s | _, _ => false end.
Definition tag_match (name : list N) (s : tree) : bool :=
  kind_eqb (tkind s) KElem && (match name with [] => true | _ => list_eqb name (tval s) end).
Definition sp_tag_list (f : forest) (root : nat) (name : list N) : list nat :=
  match find_node f root with
  | Some s => ids (filter (tag_match name) (tl (docorder s)))
  | None => []
  end.

(* ---------------------------------------------------------------------------------------------------------- *)
(** * Ranges (Range 2.x): boundary points and their order *)
Definition bpoint := (nat * nat)%type.            (* container id, offset *)
Record range := { r_s : bpoint; r_e : bpoint }.

(** path of node i from the top of t: child indices *)
Fixpoint path_in (i : nat) (t : tree) : option (list nat) :=
  match t with Node j _ _ ks =>
    if j =? i then Some [] else
    (fix go (l : list tree) (k : nat) : option (list nat) :=
       match l with
       | [] => None
       | c :: r => match path_in i c with Some p => Some (k :: p) | None => go r (S k) end
       end) ks 0
  end.
(** position of a boundary point in the document tree: path ++ [offset] *)
Definition bp_pos (m : tree) (b : bpoint) : option (list nat) :=
  match path_in (fst b) m with Some p => Some (p ++ [snd b]) | None => None end.
(** lexicographic comparison, a proper prefix comes first *)
Fixpoint lex_cmp (a b : list nat) : comparison :=
  match a, b with
  | [], [] => Eq
  | [], _ => Lt
  | _, [] => Gt
  | x :: r, y :: s => match Nat.compare x y with Eq => lex_cmp r s | c => c end
  end.
Definition bp_cmp (m : tree) (a b : bpoint) : option comparison :=
  match bp_pos m a, bp_pos m b with Some pa, Some pb => Some (lex_cmp pa pb) | _, _ => None end.

(** validity of a live range (property text): both containers in the document tree, offsets within the
    container's length, start not after end *)
Definition bp_ok (m : tree) (b : bpoint) : bool :=
  match find_node [m] (fst b) with Some s => snd b <=? node_len s | None => false end.
Definition range_ok (m : tree) (r : range) : bool :=
  bp_ok m (r_s r) && bp_ok m (r_e r) &&
  match bp_cmp m (r_s r) (r_e r) with Some Gt => false | Some _ => true | None => false end.

(** setStart / setEnd: the other end follows when the order would be violated (Range 2.4) *)
Definition sp_set_start (m : tree) (r : range) (b : bpoint) : range :=
  match bp_cmp m b (r_e r) with Some Gt => {| r_s := b; r_e := b |} | _ => {| r_s := b; r_e := r_e r |} end.
Definition sp_set_end (m : tree) (r : range) (b : bpoint) : range :=
  match bp_cmp m (r_s r) b with Some Gt => {| r_s := b; r_e := b |} | _ => {| r_s := r_s r; r_e := b |} end.

(** Range 2.12.1 insertion of a node at (parent p, index k): only boundary points in p with offset > k move *)
Definition bp_ins_node (p k : nat) (b : bpoint) : bpoint :=
  if (fst b =? p) && (k <? snd b) then (fst b, S (snd b)) else b.
(** Range 2.12.2 removal of the subtree x = child k of p (sub = its node ids): boundary points inside it move
    to (p,k); boundary points in p behind it move left *)
Definition bp_del_node (p k : nat) (sub : list nat) (b : bpoint) : bpoint :=
  if memb (fst b) sub then (p, k)
  else if (fst b =? p) && (k <? snd b) then (fst b, snd b - 1) else b.
(** 2.12.1 for character data: cnt characters inserted at off *)
Definition bp_ins_text (x off cnt : nat) (b : bpoint) : bpoint :=
  if (fst b =? x) && (off <? snd b) then (fst b, snd b + cnt) else b.
(** 2.12.2 for character data: cnt characters deleted at off *)
Definition bp_del_text (x off cnt : nat) (b : bpoint) : bpoint :=
  if fst b =? x then
    (if off + cnt <? snd b then (fst b, snd b - cnt) else if off <? snd b then (fst b, off) else b)
  else b.
(** the whole content replaced (setData): the boundary points go to the start of the node *)
Definition bp_set_text (x : nat) (b : bpoint) : bpoint := if fst b =? x then (fst b, 0) else b.
(** splitText(x, off) with new node nw: characters behind off now live in nw *)
Definition bp_split (x nw off : nat) (b : bpoint) : bpoint :=
  if (fst b =? x) && (off <? snd b) then (nw, snd b - off) else b.
(** ... and a boundary point sitting in the parent p directly behind the split node (child i) stays behind the
    characters it was behind: it moves behind the new node (DOM "split a Text node", steps 7.4/7.5); without this a
    range from inside the tail of the text to (p, i+1) would end before it starts *)
Definition bp_split_parent (p i : nat) (b : bpoint) : bpoint :=
  if (fst b =? p) && (snd b =? S i) then (p, S (S i)) else b.
Definition r_map (g : bpoint -> bpoint) (r : range) : range := {| r_s := g (r_s r); r_e := g (r_e r) |}.
