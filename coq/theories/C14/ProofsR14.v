(** C14 -- lemmas about the Range content operations (SpecR14.v / ModelR14.v). *)
From Coq Require Import List NArith Arith Bool Lia.
From XV Require Import C14.Spec14 C14.Hist14 C14.Model14 C14.SpecR14 C14.ModelR14.
Import ListNotations.

(** * cloneContents never touches the document, the iterators, the walkers, the lists or any range:
      every path of traverseContents(CLONE_CONTENTS) returns the state it was given *)
Section Clone.
Variable deld : bool.
Variable k : nat.

Lemma xr_full_clone : forall s n s' t, xr_full HClone s n = Some (s', t) -> s' = s.
Proof. intros s n s' t H. unfold xr_full in H. injection H as <- _. reflexivity. Qed.

Lemma xr_node_clone : forall s n full isLeft s' t, xr_node deld HClone k s n full isLeft = Some (s', t) -> s' = s.
Proof.
  intros s n full isLeft s' t H. unfold xr_node in H. destruct full.
  - eapply xr_full_clone; exact H.
  - destruct (m_is_cd (ms_f s) n).
    + unfold xr_text in H. cbn [is_clone] in H. destruct isLeft; injection H as <- _; reflexivity.
    + injection H as <- _. reflexivity.
Qed.

Lemma xr_left_sibs_clone : forall fuel s next full acc s' l,
  xr_left_sibs deld HClone k fuel s next full acc = Some (s', l) -> s' = s.
Proof.
  induction fuel as [|fu IH]; intros s next full acc s' l H; cbn [xr_left_sibs] in H.
  - injection H as <- _. reflexivity.
  - destruct next as [n|]; [|injection H as <- _; reflexivity].
    destruct (xr_node deld HClone k s n full true) as [[s1 c]|] eqn:E; [|discriminate].
    apply xr_node_clone in E. subst s1. eapply IH; exact H.
Qed.
Lemma xr_right_sibs_clone : forall fuel s next full acc s' l,
  xr_right_sibs deld HClone k fuel s next full acc = Some (s', l) -> s' = s.
Proof.
  induction fuel as [|fu IH]; intros s next full acc s' l H; cbn [xr_right_sibs] in H.
  - injection H as <- _. reflexivity.
  - destruct next as [n|]; [|injection H as <- _; reflexivity].
    destruct (xr_node deld HClone k s n full false) as [[s1 c]|] eqn:E; [|discriminate].
    apply xr_node_clone in E. subst s1. eapply IH; exact H.
Qed.

Lemma xr_left_up_clone : forall root fuel s parent next full cloned s' t,
  xr_left_up deld HClone k root fuel s parent next full cloned = Some (s', t) -> s' = s.
Proof.
  intros root. induction fuel as [|fu IH]; intros s parent next full cloned s' t H; cbn [xr_left_up] in H.
  - injection H as <- _. reflexivity.
  - destruct parent as [p|]; [|injection H as <- _; reflexivity].
    destruct (xr_left_sibs deld HClone k (m_fuel (ms_f s)) s next full []) as [[s1 cs]|] eqn:E; [|discriminate].
    apply xr_left_sibs_clone in E. subst s1.
    destruct (p =? root); [injection H as <- _; reflexivity|].
    destruct (m_parent (ms_f s) p) as [g|]; [|injection H as <- _; reflexivity].
    destruct (xr_node deld HClone k s g false true) as [[s2 cg]|] eqn:E2; [|discriminate].
    apply xr_node_clone in E2. subst s2. eapply IH; exact H.
Qed.
Lemma xr_right_up_clone : forall root fuel s parent next full cloned s' t,
  xr_right_up deld HClone k root fuel s parent next full cloned = Some (s', t) -> s' = s.
Proof.
  intros root. induction fuel as [|fu IH]; intros s parent next full cloned s' t H; cbn [xr_right_up] in H.
  - injection H as <- _. reflexivity.
  - destruct parent as [p|]; [|injection H as <- _; reflexivity].
    destruct (xr_right_sibs deld HClone k (m_fuel (ms_f s)) s next full []) as [[s1 cs]|] eqn:E; [|discriminate].
    apply xr_right_sibs_clone in E. subst s1.
    destruct (p =? root); [injection H as <- _; reflexivity|].
    destruct (m_parent (ms_f s) p) as [g|]; [|injection H as <- _; reflexivity].
    destruct (xr_node deld HClone k s g false false) as [[s2 cg]|] eqn:E2; [|discriminate].
    apply xr_node_clone in E2. subst s2. eapply IH; exact H.
Qed.

Lemma xr_left_boundary_clone : forall s root s' t, xr_left_boundary deld HClone k s root = Some (s', t) -> s' = s.
Proof.
  intros s root s' t H. unfold xr_left_boundary in H.
  set (next := xr_selected (ms_f s) (mr_sc (rg_of s k)) (Some (mr_so (rg_of s k)))) in *.
  destruct (next =? root); [eapply xr_node_clone; exact H|].
  destruct (m_parent (ms_f s) next) as [p|]; [|discriminate].
  destruct (xr_node deld HClone k s p false true) as [[s1 cp]|] eqn:E; [|discriminate].
  apply xr_node_clone in E. subst s1. eapply xr_left_up_clone; exact H.
Qed.
Lemma xr_right_boundary_clone : forall s root s' t, xr_right_boundary deld HClone k s root = Some (s', t) -> s' = s.
Proof.
  intros s root s' t H. unfold xr_right_boundary in H.
  set (next := xr_selected (ms_f s) (mr_ec (rg_of s k)) _) in *.
  destruct (next =? root); [eapply xr_node_clone; exact H|].
  destruct (m_parent (ms_f s) next) as [p|]; [|discriminate].
  destruct (xr_node deld HClone k s p false false) as [[s1 cp]|] eqn:E; [|discriminate].
  apply xr_node_clone in E. subst s1. eapply xr_right_up_clone; exact H.
Qed.

Lemma xr_fwd_clone : forall cnt s n acc s' l, xr_fwd HClone cnt s n acc = Some (s', l) -> s' = s.
Proof.
  induction cnt as [|c IH]; intros s n acc s' l H; cbn [xr_fwd] in H.
  - injection H as <- _. reflexivity.
  - destruct n as [x|]; [|discriminate].
    destruct (xr_full HClone s x) as [[s1 t]|] eqn:E; [|discriminate].
    apply xr_full_clone in E. subst s1. eapply IH; exact H.
Qed.
Lemma xr_fwd_stop_clone : forall cnt s n acc s' l, xr_fwd_stop HClone cnt s n acc = Some (s', l) -> s' = s.
Proof.
  induction cnt as [|c IH]; intros s n acc s' l H; cbn [xr_fwd_stop] in H.
  - injection H as <- _. reflexivity.
  - destruct n as [x|]; [|injection H as <- _; reflexivity].
    destruct (xr_full HClone s x) as [[s1 t]|] eqn:E; [|discriminate].
    apply xr_full_clone in E. subst s1. eapply IH; exact H.
Qed.
Lemma xr_bwd_clone : forall cnt s n acc s' l, xr_bwd HClone cnt s n acc = Some (s', l) -> s' = s.
Proof.
  induction cnt as [|c IH]; intros s n acc s' l H; cbn [xr_bwd] in H.
  - injection H as <- _. reflexivity.
  - destruct n as [x|]; [|discriminate].
    destruct (xr_full HClone s x) as [[s1 t]|] eqn:E; [|discriminate].
    apply xr_full_clone in E. subst s1. eapply IH; exact H.
Qed.

Lemma xr_same_clone : forall s s' l, xr_same HClone k s = Some (s', l) -> s' = s.
Proof.
  intros s s' l H. unfold xr_same in H. cbn [is_clone] in H.
  destruct (mr_so (rg_of s k) =? mr_eo (rg_of s k)); [injection H as <- _; reflexivity|].
  destruct (m_is_cd (ms_f s) (mr_sc (rg_of s k))).
  - injection H as <- _. reflexivity.
  - destruct (xr_fwd_stop HClone _ s _ []) as [[s1 fr]|] eqn:E; [|discriminate].
    apply xr_fwd_stop_clone in E. subst s1. injection H as <- _. reflexivity.
Qed.
Lemma xr_common_start_clone : forall s a s' l, xr_common_start deld HClone k s a = Some (s', l) -> s' = s.
Proof.
  intros s a s' l H. unfold xr_common_start in H. cbn [is_clone] in H.
  destruct (xr_right_boundary deld HClone k s a) as [[s1 n]|] eqn:E; [|discriminate].
  apply xr_right_boundary_clone in E. subst s1.
  destruct (_ <=? _); [injection H as <- _; reflexivity|].
  destruct (xr_bwd HClone _ s _ [n]) as [[s2 fr]|] eqn:E2; [|discriminate].
  apply xr_bwd_clone in E2. subst s2. injection H as <- _. reflexivity.
Qed.
Lemma xr_common_end_clone : forall s a s' l, xr_common_end deld HClone k s a = Some (s', l) -> s' = s.
Proof.
  intros s a s' l H. unfold xr_common_end in H. cbn [is_clone] in H.
  destruct (xr_left_boundary deld HClone k s a) as [[s1 n]|] eqn:E; [|discriminate].
  apply xr_left_boundary_clone in E. subst s1.
  destruct (xr_fwd HClone _ s _ [n]) as [[s2 fr]|] eqn:E2; [|discriminate].
  apply xr_fwd_clone in E2. subst s2. injection H as <- _. reflexivity.
Qed.
Lemma xr_common_anc_clone : forall s a b s' l, xr_common_anc deld HClone k s a b = Some (s', l) -> s' = s.
Proof.
  intros s a b s' l H. unfold xr_common_anc in H. cbn [is_clone] in H.
  destruct (xr_left_boundary deld HClone k s a) as [[s1 n]|] eqn:E; [|discriminate].
  apply xr_left_boundary_clone in E. subst s1.
  destruct (m_parent (ms_f s) a) as [cp|]; [|discriminate].
  destruct (xr_fwd HClone _ s _ [n]) as [[s2 fr]|] eqn:E2; [|discriminate].
  apply xr_fwd_clone in E2. subst s2.
  destruct (xr_right_boundary deld HClone k s b) as [[s3 n2]|] eqn:E3; [|discriminate].
  apply xr_right_boundary_clone in E3. subst s3. injection H as <- _. reflexivity.
Qed.

Lemma clone_contents_pure : forall s s' l, xr_traverse deld HClone k s = Some (s', l) -> s' = s.
Proof.
  intros s s' l H. unfold xr_traverse in H.
  destruct (mr_sc (rg_of s k) =? mr_ec (rg_of s k)); [eapply xr_same_clone; exact H|].
  destruct (find _ (m_chain (ms_f s) (m_fuel (ms_f s)) (Some (mr_ec (rg_of s k))))) as [c|];
    [eapply xr_common_start_clone; exact H|].
  destruct (find _ (m_chain (ms_f s) (m_fuel (ms_f s)) (Some (mr_sc (rg_of s k))))) as [c2|];
    [eapply xr_common_end_clone; exact H|].
  destruct (strip_common _ _) as [[|a ?] [|b ?]]; try discriminate.
  eapply xr_common_anc_clone; exact H.
Qed.
End Clone.

(** the step of the interpreter: cloneContents and toString leave the whole state unchanged *)
Lemma mx_step_clone_pure : forall t d s k a s', mx_step t d s (XClone k) = Some (a, s') -> s' = s.
Proof.
  intros t d s k a s' H. cbn [mx_step] in H. destruct (get_opt (ms_rgs s) k); [|injection H as _ <-; reflexivity].
  destruct (xr_traverse d HClone k s) as [[s1 fr]|] eqn:E; [|discriminate].
  apply clone_contents_pure in E. subst s1. injection H as _ <-. reflexivity.
Qed.
Lemma mx_step_str_pure : forall t d s k a s', mx_step t d s (XStr k) = Some (a, s') -> s' = s.
Proof. intros t d s k a s' H. cbn [mx_step] in H. destruct (get_opt (ms_rgs s) k); injection H as _ <-; reflexivity. Qed.

(** * the specification: a collapsed range selects nothing, and its deletion plan removes nothing *)
Lemma sp_fragment_collapsed : forall m b orig, sp_fragment m {| r_s := b; r_e := b |} orig = [].
Proof. intros m [c o] orig. unfold sp_fragment, bp_eqb. cbn [r_s r_e fst snd]. rewrite !Nat.eqb_refl. reflexivity. Qed.

(** deleteContents inside one character-data node: the code is deleteData(so, eo - so) followed by collapse(true) *)
Lemma delete_same_text : forall d k s, m_is_cd (ms_f s) (mr_sc (rg_of s k)) = true ->
  mr_sc (rg_of s k) = mr_ec (rg_of s k) -> mr_so (rg_of s k) <> mr_eo (rg_of s k) ->
  option_map fst (xr_traverse d HDelete k s) =
  Some (xr_steps (m_del_text s (mr_sc (rg_of s k)) (mr_so (rg_of s k)) (mr_eo (rg_of s k) - mr_so (rg_of s k))) [ORColl k true]).
Proof.
  intros d k s Hcd Hsame Hne. unfold xr_traverse. rewrite <- Hsame, Nat.eqb_refl.
  unfold xr_same. apply Nat.eqb_neq in Hne. rewrite Hne, Hcd. cbn [is_clone option_map fst]. reflexivity.
Qed.
