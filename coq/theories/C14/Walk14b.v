(** C14 -- TreeWalker: firstChild() of the code is the head of the specification's visible-children list.
    The internal walk getFirstChild / getNextSibling (descend into skipped nodes, climb out of them, prune rejected
    ones) is characterised by a continuation: getNextSibling(c) = head of "what is visible behind c inside the
    nearest non-skipped ancestor". *)
From Coq Require Import List NArith Arith Bool Lia.
From XV Require Import C14.Spec14 C14.Hist14 C14.Model14 C14.Tree14 C14.Nav14 C14.Nav14d C14.Walk14.
Import ListNotations.

Section First.
  Variable f : forest.
  Hypothesis Hwf : wf_forest f.
  Variable root : nat.
  Variable acc : nat -> verdict.
  Variable vv : tree -> verdict.
  Hypothesis Hacc : forall s, In s (fnodes f) -> acc (tid s) = vv s.

  Notation gfirst := (mw_get_first f root acc).
  Notation gnext := (mw_get_next_sib f root acc).

  Definition scan (fu : nat) (c : nat) : option nat :=
    match acc c with
    | VAccept => Some c
    | VSkip => if m_has_kids f c then gfirst fu c else gnext fu c
    | VReject => gnext fu c
    end.

  Lemma gfirst_unfold : forall fu n, gfirst (S fu) n = match m_first_child f n with None => None | Some c => scan fu c end.
  Proof. intros fu n. unfold scan. cbn [mw_get_first]. destruct (m_first_child f n) as [c|]; [|reflexivity]. destruct (acc c); reflexivity. Qed.
  Lemma gnext_unfold : forall fu n, gnext (S fu) n =
    if n =? root then None else
    match m_next_sibling f n with
    | Some s => scan fu s
    | None => match m_parent f n with Some p => (match acc p with VSkip => gnext fu p | _ => None end) | None => None end
    end.
  Proof.
    intros fu n. unfold scan. cbn [mw_get_next_sib]. destruct (n =? root); [reflexivity|].
    destruct (m_next_sibling f n) as [s|]; [|reflexivity]. destruct (acc s); try reflexivity.
    (* skipped sibling: getFirstChild first; without children it is None and the walk goes on behind it *)
    unfold m_has_kids. destruct fu as [|fu'].
    - cbn. destruct (is_nil (m_kids f s)); reflexivity.
    - cbn [mw_get_first]. unfold m_first_child. destruct (m_kids f s) as [|c0 r0]; cbn [hd_error is_nil negb]; [reflexivity|].
      destruct (match acc c0 with VAccept => Some c0 | VReject => _ | VSkip => _ end); reflexivity.
  Qed.

  Definition wt (t : tree) : nat := 2 * length (docorder t) - 1.
  Definition tailK (t : tree) (K : list nat) : list nat := if is_skip (vv t) && negb (tid t =? root) then K else [].

  Lemma vtop_eq : forall t, vtop vv t = match vv t with VAccept => [tid t] | VSkip => vkids vv t | VReject => [] end.
  Proof. intros [i k v ks]. cbn. destruct (vv (Node i k v ks)); reflexivity. Qed.

  (** getNextSibling known for t  ==>  getFirstChild known for t *)
  Lemma first_of_tree : forall t, In t (fnodes f) -> ~ In root (ids (dnodes (tkids t))) -> tkids t <> [] ->
    forall K g,
    (is_skip (vv t) && negb (tid t =? root) = true -> forall fuel, g <= fuel -> gnext fuel (tid t) = hd_error K) ->
    forall fuel, g + wt t <= fuel -> gfirst fuel (tid t) = hd_error (vkids vv t ++ tailK t K).
  Proof.
    intros t. induction t as [i k v ks IH] using tree_ind2. intros Ht HR Hne K g HN fuel Hfuel.
    remember (Node i k v ks) as T eqn:ET.
    assert (HtT : tid T = i) by (rewrite ET; reflexivity). assert (HkT : tkids T = ks) by (rewrite ET; reflexivity).
    rewrite HkT in HR, Hne. rewrite HtT in HN.
    (* right to left over the children: getNextSibling of each child, and the value of scanning from it *)
    assert (Hkids : forall r pre, ks = pre ++ r ->
              forall c r', r = c :: r' ->
              let gc := g + 1 + 2 * length (dnodes r') in
              (forall fu, gc <= fu -> gnext fu (tid c) = hd_error (flat_map (vtop vv) r' ++ tailK T K)) /\
              (forall fu, gc + wt c <= fu -> scan fu (tid c) = hd_error (flat_map (vtop vv) r ++ tailK T K))).
    { induction r as [|c0 r0 IHr]; intros pre E c r' Er; [discriminate|]. injection Er as <- <-.
      assert (Hc : In c0 ks) by (rewrite E; apply in_or_app; right; left; reflexivity).
      assert (Hcf : In c0 (fnodes f)) by (apply (kids_in_dnodes f T c0 Ht); rewrite HkT; exact Hc).
      assert (HcR : tid c0 <> root).
      { intros E1. apply HR. rewrite <- E1. apply in_ids. apply top_in_dnodes. exact Hc. }
      assert (HRc : ~ In root (ids (dnodes (tkids c0)))).
      { intros HinR. apply HR. unfold ids in *. apply in_map_iff in HinR. destruct HinR as [x [Ex Hx]].
        apply in_map_iff. exists x. split; [exact Ex|].
        unfold dnodes. apply in_flat_map. exists c0. split; [exact Hc|]. rewrite docorder_eq. right. exact Hx. }
      cbv zeta.
      assert (HN0 : forall fu, g + 1 + 2 * length (dnodes r0) <= fu -> gnext fu (tid c0) = hd_error (flat_map (vtop vv) r0 ++ tailK T K)).
      { intros fu Hfu. destruct fu as [|fu]; [lia|]. rewrite gnext_unfold.
        destruct (Nat.eqb_spec (tid c0) root) as [E1|_]; [exfalso; exact (HcR E1)|].
        rewrite (m_next_sibling_wf f T pre c0 r0 Hwf Ht ltac:(rewrite HkT; exact E)).
        destruct r0 as [|c1 r1]; cbn [ids map hd_error].
        - (* last child: climb *)
          rewrite (m_parent_wf f T c0 Hwf Ht ltac:(rewrite HkT; exact Hc)). rewrite (Hacc T Ht). cbn [flat_map app]. unfold tailK.
          rewrite HtT. destruct (vv T) eqn:Ev; cbn [is_skip andb]; try reflexivity.
          destruct (Nat.eqb_spec i root) as [Ei|Ei]; cbn [negb].
          + destruct fu as [|fu']; [reflexivity|]. rewrite gnext_unfold. rewrite Ei, Nat.eqb_refl. reflexivity.
          + apply HN; [try rewrite Ev; cbn [is_skip andb]; destruct (Nat.eqb_spec i root); [contradiction|reflexivity]|].
            cbn [dnodes flat_map length] in Hfu. lia.
        - (* a sibling follows: scan it *)
          destruct (IHr (pre ++ [c0]) ltac:(rewrite <- app_assoc; exact E) c1 r1 eq_refl) as [_ Hscan].
          cbv zeta in Hscan. apply Hscan. rewrite dnodes_cons, app_length in Hfu. unfold wt. 
          assert (1 <= length (docorder c1)) by (rewrite docorder_eq; cbn; lia). lia. }
      split; [exact HN0|].
      intros fu Hfu. unfold scan. rewrite (Hacc c0 Hcf). cbn [flat_map]. rewrite vtop_eq.
      destruct (vv c0) eqn:Ev.
      - reflexivity.
      - apply HN0. unfold wt in Hfu. lia.
      - rewrite (has_kids_wf f Hwf c0 Hcf).
        destruct (tkids c0) as [|k0 kr] eqn:Ek; cbn [is_nil negb].
        + unfold vkids. rewrite Ek. cbn [flat_map app]. apply HN0. unfold wt in Hfu. lia.
        + rewrite Forall_forall in IH. rewrite <- Ek in HRc.
          rewrite (IH c0 Hc Hcf HRc ltac:(rewrite Ek; discriminate) (flat_map (vtop vv) r0 ++ tailK T K) (g + 1 + 2 * length (dnodes r0))).
          * unfold tailK at 1. rewrite Ev. cbn [is_skip andb].
            destruct (Nat.eqb_spec (tid c0) root) as [E1|_]; [exfalso; exact (HcR E1)|]. cbn [negb]. rewrite <- app_assoc. reflexivity.
          * intros _ fu' Hfu'. apply HN0. exact Hfu'.
          * exact Hfu. }
    destruct fuel as [|fu]; [unfold wt in Hfuel; rewrite (docorder_eq T) in Hfuel; cbn [length] in Hfuel; lia|].
    rewrite gfirst_unfold. pose proof (first_child_wf f Hwf T Ht) as Hfc. rewrite Hfc.
    unfold vkids. rewrite HkT.
    destruct ks as [|c1 r1]; [contradiction|]. cbn [ids map hd_error].
    destruct (Hkids (c1 :: r1) [] eq_refl c1 r1 eq_refl) as [_ Hscan]. cbv zeta in Hscan. apply Hscan.
    assert (1 <= length (docorder c1)) by (rewrite docorder_eq; cbn; lia).
    unfold wt in *. rewrite (docorder_eq T), HkT in Hfuel. cbn [length] in Hfuel. rewrite dnodes_cons, app_length in Hfuel. lia.
  Qed.
End First.

(** T14_walker, firstChild: for a current node that is the root or not skipped (what the walker can stand on) *)
Theorem walker_first_is_spec : forall f fx tab w S, wf_forest f ->
  (forall s, In s (fnodes f) -> mw_accept fx tab f w (tid s) = view_verdict tab (mw_what w) (mw_usef w) s) ->
  find_node f (mw_cur w) = Some S ->
  is_skip (view_verdict tab (mw_what w) (mw_usef w) S) && negb (tid S =? mw_root w) = false ->
  ~ In (mw_root w) (ids (dnodes (tkids S))) ->
  mw_target fx tab f w WFirst = sp_w_target_at tab f (abs_w w) (mw_root w) WFirst.
Proof.
  intros f fx tab w S Hwf Hacc HS Hns HR. unfold mw_target, sp_w_target_at, abs_w. cbn [sw_cur sw_what sw_usef]. rewrite HS.
  destruct (find_node_in f _ S HS) as [HSf HtS]. rewrite <- HtS.
  destruct (tkids S) as [|c0 r0] eqn:Ek.
  - unfold mw_fuel. cbn [Nat.mul Nat.add]. rewrite Nat.add_comm. cbn [Nat.add mw_get_first].
    rewrite (first_child_wf f Hwf S HSf), Ek. unfold vkids. rewrite Ek. reflexivity.
  - rewrite <- Ek in HR. rewrite (first_of_tree f Hwf (mw_root w) (mw_accept fx tab f w) (view_verdict tab (mw_what w) (mw_usef w)) Hacc S HSf HR
               ltac:(rewrite Ek; discriminate) [] 0).
    + unfold tailK. rewrite Hns. rewrite app_nil_r. reflexivity.
    + intros Hc. rewrite Hns in Hc. discriminate.
    + pose proof (len_sub f S HSf) as Hl. unfold dnodes in Hl. unfold wt, mw_fuel, m_fuel, fnodes. lia.
Qed.

Lemma accept_repaired : forall f fx tab w s, wf_forest f -> fx_wshow fx = true -> In s (fnodes f) ->
  mw_accept fx tab f w (tid s) = view_verdict tab (mw_what w) (mw_usef w) s.
Proof.
  intros f fx tab w s Hwf Hfx Hs. unfold mw_accept, view_verdict, m_shown, m_kind, m_filter. rewrite (find_node_wf f s Hwf Hs), Hfx.
  destruct (mw_usef w); destruct (shown (mw_what w) (tkind s)); reflexivity.
Qed.
(** the code as it is (F27 open): the same on forests without a node that whatToShow hides AND the filter rejects *)
Lemma accept_guarded : forall f fx tab w s, wf_forest f -> In s (fnodes f) ->
  (shown (mw_what w) (tkind s) = true \/ mw_usef w = false \/ filter_verdict tab s <> VReject) ->
  mw_accept fx tab f w (tid s) = view_verdict tab (mw_what w) (mw_usef w) s.
Proof.
  intros f fx tab w s Hwf Hs G. unfold mw_accept, view_verdict, m_shown, m_kind, m_filter. rewrite (find_node_wf f s Hwf Hs).
  destruct (mw_usef w); destruct (shown (mw_what w) (tkind s)); try reflexivity.
  destruct (fx_wshow fx); [reflexivity|]. destruct (filter_verdict tab s); try reflexivity.
  exfalso. destruct G as [G|[G|G]]; [discriminate G|discriminate G|apply G; reflexivity].
Qed.
