(** C14 -- the cache of DOMDeepNodeListImpl: whatever was cached, item(i) / getLength answer from the current
    tree, provided every mutation bumps the document's change counter (so that a stale cache is never trusted)
    and the tree walk nextMatchingElementAfter steps through the matching elements in document order. *)
From Coq Require Import List NArith Arith Bool Lia.
From XV Require Import C14.Spec14 C14.Hist14 C14.Model14.
Import ListNotations.

Section DeepList.
  Variable f : forest.
  Variable root : nat.
  Variable name : list N.
  Let matches := sp_tag_list f root name.
  Let seq := root :: matches.
  Let n := length matches.

  (** navigation: from the k-th element of (root :: matches) the walk finds the (k+1)-th (None at the end) *)
  Hypothesis Hnext : forall k c, nth_error seq k = Some c ->
    md_next_match f root name (m_fuel f) (Some c) = nth_error seq (S k).
  Hypothesis Hfuel : n < m_fuel f.


  Lemma seq_len : length seq = S n.
  Proof. reflexivity. Qed.

  Lemma count_spec : forall fuel index1 c idx nx l,
    md_root l = root -> md_name l = name ->
    nth_error seq idx = Some c -> n - idx < fuel ->
    md_count f l fuel index1 (Some c) idx nx =
    if index1 <=? idx then (nx, Some c, idx)
    else (if index1 <=? n then nth_error seq index1 else None, nth_error seq (Nat.min index1 n), Nat.min index1 n).
  Proof.
    induction fuel as [|fu IH]; intros index1 c idx nx l Hr Hn Hc Hf; [lia|].
    assert (Hidx : idx <= n).
    { assert (idx < length seq) by (apply nth_error_Some; rewrite Hc; discriminate). rewrite seq_len in H. lia. }
    cbn [md_count is_some andb]. rewrite Hr, Hn.
    destruct (Nat.ltb_spec idx index1) as [Hlt|Hge].
    - cbn [andb]. rewrite (Hnext idx c Hc).
      destruct (Nat.leb_spec index1 idx) as [Hle|_]; [lia|].
      destruct (nth_error seq (S idx)) as [c'|] eqn:E.
      + assert (HS : S idx <= n).
        { assert (S idx < length seq) by (apply nth_error_Some; rewrite E; discriminate). rewrite seq_len in H. lia. }
        rewrite (IH index1 c' (S idx) (Some c') l Hr Hn E) by lia.
        destruct (Nat.leb_spec index1 (S idx)) as [Hle1|Hgt1].
        * assert (index1 = S idx) by lia. subst index1.
          destruct (Nat.leb_spec (S idx) n); [|lia]. rewrite Nat.min_l by lia. rewrite E. reflexivity.
        * reflexivity.
      + assert (idx = n).
        { apply nth_error_None in E. rewrite seq_len in E. lia. }
        subst idx. destruct (Nat.leb_spec index1 n); [lia|]. rewrite Nat.min_r by lia. rewrite Hc. reflexivity.
    - cbn [andb]. destruct (Nat.leb_spec index1 idx); [reflexivity|lia].
  Qed.

  (** the cache is either stale (other change count) or describes the current tree *)
  Definition cache_ok (changes : nat) (l : m_dlist) : Prop :=
    md_root l = root /\ md_name l = name /\
    (md_changes l = changes -> md_cur l = nth_error seq (md_idx l) /\ md_idx l <= n).

  Lemma nth_seq_S : forall i, nth_error seq (S i) = nth_error matches i.
  Proof. reflexivity. Qed.

  Lemma restart_spec : forall l i, md_root l = root -> md_name l = name ->
    md_count f l (m_fuel f) (S i) (Some (md_root l)) 0 None =
    (if S i <=? n then nth_error seq (S i) else None, nth_error seq (Nat.min (S i) n), Nat.min (S i) n).
  Proof.
    intros l i Hr Hn. rewrite Hr. rewrite (count_spec (m_fuel f) (S i) root 0 None l Hr Hn eq_refl) by lia.
    reflexivity.
  Qed.

  Lemma item_answer : forall i (x : option nat),
    (if S i <=? n then nth_error seq (S i) else None) = x ->
    match x with Some _ => nth_error seq (Nat.min (S i) n) | None => None end = nth_error matches i.
  Proof.
    intros i x Hx. destruct (Nat.leb_spec (S i) n) as [Hle|Hgt].
    - rewrite Nat.min_l by lia. rewrite <- Hx. rewrite nth_seq_S.
      destruct (nth_error matches i) eqn:E; [reflexivity|]. apply nth_error_None in E. fold n in E. lia.
    - subst x. symmetry. apply nth_error_None. fold n. lia.
  Qed.

  Theorem cache_item_correct : forall changes l i, cache_ok changes l ->
    fst (md_cache_item f changes l (S i)) = nth_error matches i /\
    cache_ok changes (snd (md_cache_item f changes l (S i))) /\
    md_changes (snd (md_cache_item f changes l (S i))) = changes.
  Proof.
    intros changes l i [Hr [Hn Hc]]. unfold md_cache_item.
    destruct (Nat.eqb_spec changes (md_changes l)) as [Heq|Hne]; cbn [negb].
    - (* cache is current *)
      symmetry in Heq. destruct (Hc Heq) as [Hcur Hidx].
      destruct (Nat.ltb_spec (S i) (md_idx l)) as [Hlt|Hge].
      + rewrite (restart_spec l i Hr Hn). cbn [fst snd md_root md_name md_changes md_cur md_idx].
        split; [apply item_answer; reflexivity|]. split; [|exact Heq].
        split; [exact Hr|]. split; [exact Hn|]. intros _. split; [reflexivity|]. apply Nat.le_min_r.
      + destruct (Nat.eqb_spec (S i) (md_idx l)) as [He|Hn2].
        * cbn [fst snd]. split; [rewrite Hcur, <- He; apply nth_seq_S|]. split; [|exact Heq].
          split; [exact Hr|]. split; [exact Hn|]. intros _. split; [exact Hcur|exact Hidx].
        * destruct (md_cur l) as [c|] eqn:Ecur.
          -- rewrite (count_spec (m_fuel f) (S i) c (md_idx l) None l Hr Hn (eq_sym Hcur)) by lia.
             destruct (Nat.leb_spec (S i) (md_idx l)); [lia|].
             cbn [fst snd md_root md_name md_changes md_cur md_idx].
             split; [apply item_answer; reflexivity|]. split; [|exact Heq].
             split; [exact Hr|]. split; [exact Hn|]. intros _. split; [reflexivity|]. apply Nat.le_min_r.
          -- (* no current node although the index is within the list: impossible *)
             exfalso. symmetry in Hcur. apply nth_error_None in Hcur. rewrite seq_len in Hcur. lia.
    - (* tree changed: do it all from scratch *)
      rewrite (restart_spec l i Hr Hn). cbn [fst snd md_root md_name md_changes md_cur md_idx].
      split; [apply item_answer; reflexivity|]. split; [|reflexivity].
      split; [exact Hr|]. split; [exact Hn|]. intros _. split; [reflexivity|]. apply Nat.le_min_r.
  Qed.

  (** getLength = number of matching elements *)
  Theorem length_correct : forall changes l, cache_ok changes l ->
    fst (md_length f changes l) = n /\ cache_ok changes (snd (md_length f changes l)).
  Proof.
    intros changes l Hok. unfold md_length.
    destruct (cache_item_correct changes l 0 Hok) as [_ [Hok1 Hch1]].
    destruct (md_cache_item f changes l 1) as [r1 l1]. cbn [snd] in Hok1, Hch1.
    pose proof (cache_item_correct changes l1 (m_fuel f) Hok1) as [_ [Hok2 Hch2]].
    (* the index reached by item(INT_MAX) *)
    assert (Hidx : md_idx (snd (md_cache_item f changes l1 (S (m_fuel f)))) = n).
    { destruct Hok1 as [Hr [Hn Hc]]. unfold md_cache_item.
      rewrite Hch1, Nat.eqb_refl. cbn [negb]. destruct (Hc Hch1) as [Hcur Hi].
      destruct (Nat.ltb_spec (S (m_fuel f)) (md_idx l1)); [lia|].
      destruct (Nat.eqb_spec (S (m_fuel f)) (md_idx l1)); [lia|].
      destruct (md_cur l1) as [c|] eqn:Ecur.
      - rewrite (count_spec (m_fuel f) (S (m_fuel f)) c (md_idx l1) None l1 Hr Hn (eq_sym Hcur)) by lia.
        destruct (Nat.leb_spec (S (m_fuel f)) (md_idx l1)); [lia|]. cbn [snd md_idx]. apply Nat.min_r. lia.
      - exfalso. symmetry in Hcur. apply nth_error_None in Hcur. rewrite seq_len in Hcur. lia. }
    destruct (md_cache_item f changes l1 (S (m_fuel f))) as [r2 l2]. cbn [snd fst] in *.
    split; [exact Hidx|exact Hok2].
  Qed.
End DeepList.

(** a freshly created list (fChanges = 0) is [cache_ok] as soon as the document's counter is not 0, and a
    bump of the counter keeps every cache [cache_ok] whatever happened to the tree *)
Lemma cache_ok_fresh : forall f root name changes, changes <> 0 ->
  cache_ok f root name changes {| md_root := root; md_name := name; md_changes := 0; md_cur := None; md_idx := 0 |}.
Proof. intros. split; [reflexivity|]. split; [reflexivity|]. cbn. intros E. exfalso. apply H. symmetry. exact E. Qed.

Lemma cache_ok_bump : forall f' root name changes l, md_root l = root -> md_name l = name ->
  md_changes l <= changes -> cache_ok f' root name (S changes) l.
Proof. intros f' root name changes l Hr Hn Hle. split; [exact Hr|]. split; [exact Hn|]. intros E. lia. Qed.
