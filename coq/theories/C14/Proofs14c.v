(** C14 -- NodeIterator: the stepping loops of DOMNodeIteratorImpl::nextNode / previousNode return the neighbours
    of the abstract position (reference node, before/after) in the current filtered document order, and move the
    position as DOM Traversal 1.1.1 says.  The pointer walks nextNode(node,true) / previousNode(node) enter as
    hypotheses "one step in the unfiltered document order of the root's subtree" (checked for the states of the
    correspondence by the agreement of model, library and specification interpreter). *)
From Coq Require Import List NArith Arith Bool Lia.
From XV Require Import C14.Spec14 C14.Hist14 C14.Model14.
Import ListNotations.

Lemma find_map_ids : forall (p : tree -> bool) (q : nat -> bool) (l : list tree),
  (forall s, In s l -> p s = q (tid s)) ->
  option_map tid (find p l) = find q (ids l).
Proof.
  intros p q l. induction l as [|s r IH]; intros H; [reflexivity|]. cbn.
  rewrite (H s (or_introl eq_refl)). destruct (q (tid s)); [reflexivity|]. apply IH. intros s' Hs. apply H. right. exact Hs.
Qed.
Lemma last_such_map_ids : forall (p : tree -> bool) (q : nat -> bool) (l : list tree),
  (forall s, In s l -> p s = q (tid s)) ->
  option_map tid (last_such p l) = last_such q (ids l).
Proof.
  intros p q l. induction l as [|s r IH]; intros H; [reflexivity|].
  assert (IH' : option_map tid (last_such p r) = last_such q (ids r)) by (apply IH; intros s' Hs; apply H; right; exact Hs).
  change (ids (s :: r)) with (tid s :: ids r). cbn [last_such]. rewrite <- IH'.
  destruct (last_such p r); [reflexivity|]. cbn. rewrite (H s (or_introl eq_refl)). destruct (q (tid s)); reflexivity.
Qed.
Lemma skipn_ids : forall k (l : list tree), ids (skipn k l) = skipn k (ids l).
Proof. intros k l. unfold ids. symmetry. apply skipn_map. Qed.
Lemma firstn_ids : forall k (l : list tree), ids (firstn k l) = firstn k (ids l).
Proof. intros k l. unfold ids. symmetry. apply firstn_map. Qed.

Lemma skipn_nth : forall {A} k (l : list A) c, nth_error l k = Some c -> skipn k l = c :: skipn (S k) l.
Proof.
  intros A k. induction k as [|k IH]; intros l c H; destruct l as [|x r]; try discriminate.
  - cbn in H. injection H as ->. reflexivity.
  - cbn in H. cbn [skipn]. apply IH. exact H.
Qed.
Lemma firstn_S_nth : forall {A} k (l : list A) c, nth_error l k = Some c -> firstn (S k) l = firstn k l ++ [c].
Proof.
  intros A k. induction k as [|k IH]; intros l c H; destruct l as [|x r]; try discriminate.
  - cbn in H. injection H as ->. reflexivity.
  - cbn in H. change (firstn (S (S k)) (x :: r)) with (x :: firstn (S k) r). rewrite (IH r c H). reflexivity.
Qed.
Lemma last_such_app1 : forall {A} (q : A -> bool) l c,
  last_such q (l ++ [c]) = if q c then Some c else last_such q l.
Proof.
  intros A q l c. induction l as [|x r IH]; cbn; [destruct (q c); reflexivity|].
  rewrite IH. destruct (q c); [reflexivity|]. reflexivity.
Qed.
Lemma index_of_nth : forall l k c, NoDup l -> nth_error l k = Some c -> index_of c l = k.
Proof.
  induction l as [|x r IH]; intros k c Hnd H; [destruct k; discriminate|].
  inversion Hnd as [|? ? Hnin Hnd']; subst. destruct k as [|k]; cbn in H.
  - injection H as ->. cbn. rewrite Nat.eqb_refl. reflexivity.
  - cbn. destruct (Nat.eqb_spec x c) as [E|E].
    + subst x. exfalso. apply Hnin. eapply nth_error_In. exact H.
    + f_equal. apply IH; assumption.
Qed.

Definition abs_it (it : m_iter) : sp_iter :=
  {| si_root := mi_root it; si_what := mi_what it; si_usef := mi_usef it; si_ref := mi_cur it; si_after := mi_fwd it |}.

Section Iter.
  Variable tab : list N.
  Variable f : forest.
  Variable it0 : m_iter.
  Let root := mi_root it0.
  Let trees := it_order f root.
  Let order := ids trees.
  Let accb := fun n => mi_accept tab f it0 n.

  Hypothesis Hnd : NoDup order.
  Hypothesis Hhead : nth_error order 0 = Some root.
  Hypothesis Hfuel : length order <= m_fuel f.
  (** the pointer walks are single steps in the unfiltered document order of the root's subtree *)
  Hypothesis Hnext : forall k c, nth_error order k = Some c -> mi_next_raw f root (Some c) true = nth_error order (S k).
  Hypothesis Hprev : forall k c, nth_error order (S k) = Some c -> mi_prev_raw f root c = nth_error order k.
  Hypothesis Hprev0 : mi_prev_raw f root root = None.
  (** the node found under an id is the node of the order (unique ids) *)
  Hypothesis Hacc : forall s, In s trees -> it_accepts tab (mi_what it0) (mi_usef it0) s = accb (tid s).

  Lemma next_loop_scan : forall fuel k c cur0 b,
    nth_error order k = Some c -> length order - k <= fuel ->
    mi_next_loop tab f (mi_set it0 cur0 b) fuel (Some c) true =
    match find accb (skipn (S k) order) with
    | Some n => (Some n, mi_set it0 (Some n) true)
    | None => (None, mi_set it0 cur0 true)
    end.
  Proof.
    induction fuel as [|fu IH]; intros k c cur0 b Hc Hf.
    - assert (k < length order) by (apply nth_error_Some; rewrite Hc; discriminate). lia.
    - cbn [mi_next_loop negb andb mi_root mi_set mi_cur]. fold root. rewrite (Hnext k c Hc).
      destruct (nth_error order (S k)) as [c'|] eqn:E.
      + rewrite (skipn_nth (S k) order c' E). cbn [find].
        change (mi_accept tab f (mi_set it0 cur0 b) c') with (accb c').
        destruct (accb c'); [reflexivity|].
        apply (IH (S k) c' cur0 b E). lia.
      + apply nth_error_None in E. rewrite (skipn_all2 order E). reflexivity.
  Qed.

  Definition gap_ids (cur : option nat) (fwd : bool) : nat :=
    match cur with None => 0 | Some c => index_of c order + (if fwd then 1 else 0) end.

  Theorem next_result : forall cur fwd, (forall c, cur = Some c -> In c order) ->
    mi_next tab f (mi_set it0 cur fwd) =
    match find accb (skipn (gap_ids cur fwd) order) with
    | Some n => (Some n, mi_set it0 (Some n) true)
    | None => (None, mi_set it0 cur true)
    end.
  Proof.
    intros cur fwd Hin. unfold mi_next. cbn [mi_cur mi_fwd mi_set].
    destruct cur as [c|].
    - destruct (In_nth_error order c (Hin c eq_refl)) as [k Hk].
      unfold gap_ids. rewrite (index_of_nth order k c Hnd Hk).
      cbn [mi_next_loop is_some mi_root mi_set mi_cur]. fold root.
      destruct fwd; cbn [negb andb].
      + replace (k + 1) with (S k) by lia. rewrite (Hnext k c Hk).
        destruct (nth_error order (S k)) as [c'|] eqn:E.
        * rewrite (skipn_nth (S k) order c' E). cbn [find].
          change (mi_accept tab f (mi_set it0 (Some c) true) c') with (accb c').
          destruct (accb c'); [reflexivity|].
          apply (next_loop_scan (m_fuel f) (S k) c' (Some c) true E). lia.
        * apply nth_error_None in E. rewrite (skipn_all2 order E). reflexivity.
      + rewrite Nat.add_0_r. rewrite (skipn_nth k order c Hk). cbn [find].
        change (mi_accept tab f (mi_set it0 (Some c) false) c) with (accb c).
        destruct (accb c); [reflexivity|].
        apply (next_loop_scan (m_fuel f) k c (Some c) false Hk). lia.
    - unfold gap_ids.
      cbn [mi_next_loop is_some negb andb mi_root mi_set mi_cur mi_next_raw]. rewrite Bool.andb_false_r.
      fold root. rewrite (skipn_nth 0 order root Hhead). cbn [find].
      change (mi_accept tab f (mi_set it0 None fwd) root) with (accb root).
      destruct (accb root); [reflexivity|].
      apply (next_loop_scan (m_fuel f) 0 root None fwd Hhead). lia.
  Qed.

  Lemma prev_loop_scan : forall fuel k c cur0 b,
    nth_error order k = Some c -> k < fuel ->
    mi_prev_loop tab f (mi_set it0 cur0 b) fuel c false =
    match last_such accb (firstn k order) with
    | Some n => (Some n, mi_set it0 (Some n) false)
    | None => (None, mi_set it0 cur0 false)
    end.
  Proof.
    induction fuel as [|fu IH]; intros k c cur0 b Hc Hf; [lia|].
    cbn [mi_prev_loop mi_root mi_set mi_cur]. fold root.
    destruct k as [|k'].
    - rewrite Hhead in Hc. injection Hc as <-. rewrite Hprev0. reflexivity.
    - rewrite (Hprev k' c Hc).
      destruct (nth_error order k') as [c'|] eqn:E.
      + rewrite (firstn_S_nth k' order c' E). rewrite last_such_app1.
        change (mi_accept tab f (mi_set it0 cur0 b) c') with (accb c').
        destruct (accb c'); [reflexivity|].
        apply (IH k' c' cur0 b E). lia.
      + exfalso. apply nth_error_None in E.
        assert (S k' < length order) by (apply nth_error_Some; rewrite Hc; discriminate). lia.
  Qed.

  Theorem prev_result : forall c fwd, In c order ->
    mi_prev tab f (mi_set it0 (Some c) fwd) =
    match last_such accb (firstn (gap_ids (Some c) fwd) order) with
    | Some n => (Some n, mi_set it0 (Some n) false)
    | None => (None, mi_set it0 (Some c) false)
    end.
  Proof.
    intros c fwd Hin. unfold mi_prev. cbn [mi_cur mi_fwd mi_set].
    destruct (In_nth_error order c Hin) as [k Hk].
    assert (Hkl : k < length order) by (apply nth_error_Some; rewrite Hk; discriminate).
    unfold gap_ids. rewrite (index_of_nth order k c Hnd Hk).
    destruct fwd.
    - replace (k + 1) with (S k) by lia. rewrite (firstn_S_nth k order c Hk). rewrite last_such_app1.
      cbn [mi_prev_loop mi_root mi_set mi_cur].
      change (mi_accept tab f (mi_set it0 (Some c) true) c) with (accb c).
      destruct (accb c); [reflexivity|].
      apply (prev_loop_scan (m_fuel f) k c (Some c) true Hk). lia.
    - rewrite Nat.add_0_r. apply (prev_loop_scan (S (m_fuel f)) k c (Some c) false Hk). lia.
  Qed.

  (** the scans over ids are the specification's scans over the nodes *)
  Lemma spec_scan_next : forall g,
    option_map tid (find (it_accepts tab (mi_what it0) (mi_usef it0)) (skipn g trees)) = find accb (skipn g order).
  Proof.
    intros g. unfold order. rewrite <- skipn_ids. apply find_map_ids. intros s Hs. apply Hacc.
    rewrite <- (firstn_skipn g trees). apply in_or_app. right. exact Hs.
  Qed.
  Lemma spec_scan_prev : forall g,
    option_map tid (last_such (it_accepts tab (mi_what it0) (mi_usef it0)) (firstn g trees)) =
    last_such accb (firstn g order).
  Proof.
    intros g. unfold order. rewrite <- firstn_ids. apply last_such_map_ids. intros s Hs. apply Hacc.
    rewrite <- (firstn_skipn g trees). apply in_or_app. left. exact Hs.
  Qed.

  (** nextNode / previousNode of the model commute with the specification's moves of the abstract position *)
  Theorem next_is_spec : forall cur fwd, (forall c, cur = Some c -> In c order) ->
    sp_it_next tab f (abs_it (mi_set it0 cur fwd)) =
    (fst (mi_next tab f (mi_set it0 cur fwd)), abs_it (snd (mi_next tab f (mi_set it0 cur fwd)))).
  Proof.
    intros cur fwd Hin. rewrite (next_result cur fwd Hin).
    unfold sp_it_next, abs_it. cbn [si_root si_what si_usef si_ref si_after mi_root mi_what mi_usef mi_cur mi_fwd mi_set].
    fold root. fold trees. fold order.
    change (gap_of order cur fwd) with (gap_ids cur fwd).
    rewrite <- (spec_scan_next (gap_ids cur fwd)).
    destruct (find _ (skipn (gap_ids cur fwd) trees)) as [s|]; reflexivity.
  Qed.

  Theorem prev_is_spec : forall cur fwd, (forall c, cur = Some c -> In c order) ->
    sp_it_prev tab f (abs_it (mi_set it0 cur fwd)) =
    (fst (mi_prev tab f (mi_set it0 cur fwd)), abs_it (snd (mi_prev tab f (mi_set it0 cur fwd)))).
  Proof.
    intros cur fwd Hin. destruct cur as [c|].
    - rewrite (prev_result c fwd (Hin c eq_refl)).
      unfold sp_it_prev, abs_it. cbn [si_root si_what si_usef si_ref si_after mi_root mi_what mi_usef mi_cur mi_fwd mi_set].
      fold root. fold trees. fold order.
      change (gap_of order (Some c) fwd) with (gap_ids (Some c) fwd).
      rewrite <- (spec_scan_prev (gap_ids (Some c) fwd)).
      destruct (last_such _ (firstn (gap_ids (Some c) fwd) trees)) as [s|]; reflexivity.
    - reflexivity.
  Qed.
End Iter.
