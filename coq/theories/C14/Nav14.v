(** C14 -- on a well-formed forest the pointer walk "first child, else next sibling, else the next sibling of the
    nearest ancestor that has one, not beyond the root" (DOMNodeIteratorImpl::nextNode(node,true),
    DOMDeepNodeListImpl::nextMatchingElementAfter) is the successor in the document order of the root's subtree. *)
From Coq Require Import List NArith Arith Bool Lia.
From XV Require Import C14.Spec14 C14.Hist14 C14.Model14 C14.Tree14.
Import ListNotations.

Section Nav.
  Variable f : forest.
  Variable R : nat.                               (* the root's id *)
  Hypothesis Hwf : wf_forest f.

  (** the walk from a node whose children are not to be visited, with climb fuel F *)
  Definition skipnext (F : nat) (x : nat) : option nat := mi_climb f R (S F) (Some x).
  (** one step of the walk, with climb fuel F for the case without children *)
  Definition raw (F : nat) (c : nat) : option nat :=
    if m_has_kids f c then m_first_child f c else skipnext F c.

  Definition hdc (l : list nat) (cont : option nat) : option nat := match l with y :: _ => Some y | [] => cont end.
  Definition succ_chain (F : nat) (l : list nat) (cont : option nat) : Prop :=
    forall k c, nth_error l k = Some c -> raw F c = match nth_error l (S k) with Some n => Some n | None => cont end.

  Lemma chain_nil : forall F cont, succ_chain F [] cont.
  Proof. intros F cont k c H. destruct k; discriminate. Qed.
  Lemma chain_cons : forall F x l cont, raw F x = hdc l cont -> succ_chain F l cont -> succ_chain F (x :: l) cont.
  Proof.
    intros F x l cont Hx Hl k c H. destruct k as [|k]; cbn in H.
    - injection H as <-. rewrite Hx. destruct l; reflexivity.
    - cbn [nth_error]. exact (Hl k c H).
  Qed.
  Lemma chain_app : forall F l1 l2 cont, succ_chain F l1 (hdc l2 cont) -> succ_chain F l2 cont -> succ_chain F (l1 ++ l2) cont.
  Proof.
    intros F l1. induction l1 as [|x l1 IH]; intros l2 cont H1 H2; [exact H2|].
    cbn [app]. apply chain_cons.
    - rewrite (H1 0 x eq_refl). cbn [nth_error]. destruct l1 as [|y l1]; cbn; [reflexivity|reflexivity].
    - apply IH; [|exact H2]. intros k c Hk. exact (H1 (S k) c Hk).
  Qed.
  Lemma hdc_dnodes : forall (r : list tree) cont, hdc (ids (dnodes r)) cont = match r with c :: _ => Some (tid c) | [] => cont end.
  Proof. intros [|c r] cont; [reflexivity|]. rewrite dnodes_cons, docorder_eq. reflexivity. Qed.

  Lemma skipnext_unfold : forall F x, skipnext (S F) x =
    if x =? R then None else match m_next_sibling f x with Some r => Some r | None => match m_parent f x with Some p => skipnext F p | None => None end end.
  Proof.
    intros F x. unfold skipnext. cbn [mi_climb]. destruct (x =? R); [reflexivity|].
    destruct (m_next_sibling f x); [reflexivity|]. destruct (m_parent f x); reflexivity.
  Qed.

  Lemma has_kids_wf : forall t, In t (fnodes f) -> m_has_kids f (tid t) = negb (is_nil (tkids t)).
  Proof. intros t Ht. unfold m_has_kids. rewrite (m_kids_wf f t Hwf Ht). destruct (tkids t); reflexivity. Qed.
  Lemma first_child_wf : forall t, In t (fnodes f) -> m_first_child f (tid t) = hd_error (ids (tkids t)).
  Proof. intros t Ht. unfold m_first_child. rewrite (m_kids_wf f t Hwf Ht). reflexivity. Qed.

  (** the chain over the subtree of t (at depth d below a top of the forest, inside the root's subtree) *)
  Lemma chain_tree : forall F t, In t (fnodes f) ->
    forall d cont, (forall F', d <= F' -> skipnext F' (tid t) = cont) ->
    ~ In R (ids (dnodes (tkids t))) -> d + length (docorder t) <= S F ->
    succ_chain F (ids (docorder t)) cont.
  Proof.
    intros F t. induction t as [i k v ks IH] using tree_ind2. intros Ht d cont Hcont HR Hd.
    rewrite docorder_eq. cbn [ids map tkids tid] in *. apply chain_cons.
    - (* the node itself *)
      unfold raw. pose proof (has_kids_wf _ Ht) as H1. pose proof (first_child_wf _ Ht) as H2.
      cbn [tkids tid] in H1, H2. rewrite H1, H2.
      destruct ks as [|c r]; cbn [is_nil negb].
      + cbn. apply Hcont. rewrite docorder_eq in Hd. cbn in Hd. lia.
      + rewrite dnodes_cons, docorder_eq. reflexivity.
    - (* the children, left to right *)
      assert (Hkids : forall pre r, ks = pre ++ r -> succ_chain F (ids (dnodes r)) cont).
      { intros pre r. revert pre. induction r as [|c r IHr]; intros pre E; [apply chain_nil|].
        rewrite dnodes_cons, ids_app. apply chain_app.
        - assert (Hc : In c ks) by (rewrite E; apply in_or_app; right; left; reflexivity).
          assert (Hcf : In c (fnodes f)) by (apply (kids_in_dnodes f (Node i k v ks) c Ht); exact Hc).
          rewrite Forall_forall in IH. apply (IH c Hc Hcf (S d)); [| |].
          + (* what follows the subtree of c *)
            intros F' HF'. destruct F' as [|F0]; [lia|]. rewrite skipnext_unfold.
            assert (HcR : tid c <> R).
            { intros E1. apply HR. rewrite <- E1. apply in_ids. apply top_in_dnodes. exact Hc. }
            destruct (Nat.eqb_spec (tid c) R) as [E1|_]; [exfalso; exact (HcR E1)|].
            rewrite (m_next_sibling_wf f (Node i k v ks) pre c r Hwf Ht E).
            rewrite hdc_dnodes. destruct r as [|c2 r2]; cbn [ids map hd_error].
            * rewrite (m_parent_wf f (Node i k v ks) c Hwf Ht Hc). cbn [tid]. apply Hcont. lia.
            * reflexivity.
          + intros HinR. apply HR. unfold ids in *. apply in_map_iff in HinR. destruct HinR as [x [Ex Hx]].
            apply in_map_iff. exists x. split; [exact Ex|].
            unfold dnodes. apply in_flat_map. exists c. split; [exact Hc|]. rewrite docorder_eq. right. exact Hx.
          + rewrite docorder_eq in Hd. cbn [length tkids] in Hd.
            assert (length (docorder c) <= length (dnodes ks)); [|lia].
            clear -Hc. induction ks as [|y r0 IHr0]; [destruct Hc|]. rewrite dnodes_cons, app_length.
            destruct Hc as [->|Hc]; [lia|]. pose proof (IHr0 Hc). lia.
        - apply (IHr (pre ++ [c])). rewrite <- app_assoc. exact E. }
      exact (Hkids [] ks eq_refl).
  Qed.

  (** hence: in the document order of the root's subtree every node's step is its successor (None at the end) *)
  Theorem raw_is_successor : forall F Rt, find_node f R = Some Rt -> length (fnodes f) <= S F ->
    forall k c, nth_error (ids (docorder Rt)) k = Some c -> raw F c = nth_error (ids (docorder Rt)) (S k).
  Proof.
    intros F Rt HR HF k c Hk. destruct (find_node_in f R Rt HR) as [Hin HtR].
    assert (Hch : succ_chain F (ids (docorder Rt)) None).
    { apply (chain_tree F Rt Hin 0 None).
      - intros F' _. unfold skipnext. cbn [mi_climb]. rewrite HtR, Nat.eqb_refl. reflexivity.
      - rewrite <- HtR. intros HinR. unfold ids in HinR. apply in_map_iff in HinR. destruct HinR as [x [Ex Hx]].
        exact (self_not_proper Rt x (nodup_sub f Rt Hwf Hin) Hx Ex).
      - pose proof (len_sub f Rt Hin). unfold fnodes in HF. unfold dnodes in H. lia. }
    rewrite (Hch k c Hk). destruct (nth_error (ids (docorder Rt)) (S k)); reflexivity.
  Qed.
End Nav.
