(** C14 -- DOMNodeIDMap: the bookkeeping invariant (no attribute registered twice, non-empty slots <= fNumEntries <=
    fMaxEntries < size) is preserved by add -- growTable included, which never nests -- and by remove; with the prime
    sizes (Proofs14f) it yields: no probe loop of add / remove / find can run forever. *)
From Coq Require Import List NArith ZArith Znumtheory Arith Bool Lia.
From XV Require Import Gen.GenC14IdMap C14.Spec14 C14.Hist14 C14.IdMap14 C14.Proofs14e C14.Proofs14f.
Import ListNotations.
Local Open Scope nat_scope.

Definition attr_of (s : slot) : list nat := match s with SAttr e => [e] | _ => [] end.
Definition attrs_of (t : list slot) : list nat := flat_map attr_of t.
Definition is_nonempty (s : slot) : bool := match s with SEmpty => false | _ => true end.
Definition count_ne (t : list slot) : nat := length (filter is_nonempty t).

Lemma attrs_in : forall t e, In e (attrs_of t) <-> exists k, slot_at t k = SAttr e.
Proof.
  intros t e. unfold attrs_of. rewrite in_flat_map. split.
  - intros [s [Hs He]]. destruct s; cbn in He; try destruct He as [<-|[]]; try destruct He.
    apply In_nth with (d := SEmpty) in Hs. destruct Hs as [k [_ Hk]]. exists k. exact Hk.
  - intros [k Hk]. exists (SAttr e). split; [|left; reflexivity].
    unfold slot_at in Hk. destruct (Nat.lt_ge_cases k (length t)) as [Hlt|Hge]; [rewrite <- Hk; apply nth_In; exact Hlt|].
    rewrite nth_overflow in Hk by exact Hge. discriminate.
Qed.

Lemma put_attrs : forall t k e, k < length t -> (forall e', slot_at t k <> SAttr e') ->
  (forall x, In x (attrs_of (upd k (SAttr e) t)) <-> x = e \/ In x (attrs_of t)) /\
  (NoDup (attrs_of t) -> ~ In e (attrs_of t) -> NoDup (attrs_of (upd k (SAttr e) t))) /\
  count_ne (upd k (SAttr e) t) <= S (count_ne t).
Proof.
  unfold slot_at. induction t as [|s r IH]; intros k e Hk Hfree; [cbn in Hk; lia|].
  destruct k as [|k].
  - cbn [upd nth] in *. unfold attrs_of, count_ne. cbn [flat_map filter attr_of is_nonempty app length].
    assert (Es : attr_of s = []) by (destruct s as [| |e0]; [reflexivity|reflexivity|exfalso; exact (Hfree e0 eq_refl)]).
    rewrite Es. cbn [app]. split; [|split].
    + intros x. cbn. split; intros [H|H]; auto.
    + intros Hnd Hn. constructor; assumption.
    + destruct (is_nonempty s); cbn; lia.
  - cbn [upd nth length] in *. destruct (IH k e ltac:(lia) Hfree) as [A [B C]].
    unfold attrs_of, count_ne in *. cbn [flat_map filter]. split; [|split].
    + intros x. rewrite !in_app_iff. rewrite A. tauto.
    + intros Hnd Hn. destruct s as [| |e0]; cbn [attr_of app] in *; try (apply B; assumption).
      inversion Hnd as [|? ? Hn0 Hnd']; subst. constructor.
      * rewrite A. intros [E|Hin]; [apply Hn; left; exact E|exact (Hn0 Hin)].
      * apply B; [exact Hnd'|]. intros Hin. apply Hn. right. exact Hin.
    + destruct (is_nonempty s); cbn [length]; lia.
Qed.

Lemma del_attrs : forall t k e, slot_at t k = SAttr e ->
  (forall x, In x (attrs_of (upd k SDel t)) -> In x (attrs_of t)) /\
  (NoDup (attrs_of t) -> NoDup (attrs_of (upd k SDel t)) /\ ~ In e (attrs_of (upd k SDel t))) /\
  count_ne (upd k SDel t) = count_ne t.
Proof.
  unfold slot_at. induction t as [|s r IH]; intros k e Hk; [destruct k; discriminate|].
  destruct k as [|k].
  - cbn [upd nth] in *. subst s. unfold attrs_of, count_ne. cbn [flat_map filter attr_of is_nonempty app length].
    split; [|split; [|reflexivity]].
    + intros x H. right. exact H.
    + intros Hnd. inversion Hnd; subst. split; assumption.
  - cbn [upd nth] in *. destruct (IH k e Hk) as [A [B C]].
    unfold attrs_of, count_ne in *. cbn [flat_map filter]. split; [|split].
    + intros x. rewrite !in_app_iff. intros [H|H]; [left; exact H|right; exact (A x H)].
    + intros Hnd. destruct s as [| |e0]; cbn [attr_of app] in *; try (apply B; assumption).
      inversion Hnd as [|? ? Hn0 Hnd']; subst. destruct (B Hnd') as [B1 B2]. split.
      * constructor; [intros Hin; apply Hn0; exact (A e0 Hin)|exact B1].
      * intros [E|Hin]; [|exact (B2 Hin)]. subst e0. apply Hn0.
        apply attrs_in. exists k. exact Hk.
    + destruct (is_nonempty s); cbn [length]; lia.
Qed.

Lemma count_lt_has_empty : forall t, count_ne t < length t -> exists k, k < length t /\ slot_at t k = SEmpty.
Proof.
  unfold count_ne, slot_at. induction t as [|s r IH]; intros H; [cbn in H; lia|].
  cbn [filter length] in H. destruct s as [| |e].
  - exists 0. split; [cbn; lia|reflexivity].
  - cbn in H. destruct (IH ltac:(lia)) as [k [H1 H2]]. exists (S k). split; [cbn; lia|exact H2].
  - cbn in H. destruct (IH ltac:(lia)) as [k [H1 H2]]. exists (S k). split; [cbn; lia|exact H2].
Qed.

(** the bookkeeping invariant *)
Definition book (m : idmap) : Prop :=
  NoDup (attrs_of (im_tab m)) /\ count_ne (im_tab m) <= im_num m /\ im_num m <= im_max m /\
  length (im_tab m) = im_size m /\ size_at (im_idx m) = Some (im_size m, im_max m).

(** facts about gPrimes / gMaxFill read off the generated table *)
Lemma gen_fill : forall k s mx, size_at k = Some (s, mx) -> mx + 1 < s.
Proof.
  intros k s mx H. unfold size_at in H. destruct (nth_error idmap_sizes k) as [[sN mN]|] eqn:E; [|discriminate].
  injection H as <- <-. apply nth_error_In in E.
  assert (Hall : forallb (fun p => (snd p + 1 <? fst p)%N) idmap_sizes = true) by (vm_compute; reflexivity).
  rewrite forallb_forall in Hall. specialize (Hall _ E). cbn in Hall. apply N.ltb_lt in Hall. lia.
Qed.
Lemma gen_growth : forall k s mx s' mx', size_at k = Some (s, mx) -> size_at (S k) = Some (s', mx') -> 2 * mx < mx'.
Proof.
  intros k s mx s' mx' H H'. unfold size_at in *.
  destruct (nth_error idmap_sizes k) as [[sN mN]|] eqn:E; [|discriminate].
  destruct (nth_error idmap_sizes (S k)) as [[sN' mN']|] eqn:E'; [|discriminate].
  injection H as <- <-. injection H' as <- <-.
  assert (Hall : forall j a b, nth_error idmap_sizes j = Some a -> nth_error idmap_sizes (S j) = Some b -> (2 * snd a < snd b)%N).
  { intros j a b Ha Hb. do 6 (destruct j as [|j]; [vm_compute in Ha, Hb; try discriminate; injection Ha as <-; injection Hb as <-; vm_compute; reflexivity|]).
    vm_compute in Ha. destruct j; discriminate. }
  specialize (Hall k _ _ E E'). cbn [fst snd] in Hall. lia.
Qed.

Section Book.
  Variable val : nat -> list N.

  Lemma put_book : forall m e m' n, book (with_num m n) -> wf val m -> ~ In e (attrs_of (im_tab m)) ->
    im_put val (with_num m n) e = Done m' ->
    NoDup (attrs_of (im_tab m')) /\ (forall x, In x (attrs_of (im_tab m')) <-> x = e \/ In x (attrs_of (im_tab m))) /\
    count_ne (im_tab m') <= S (count_ne (im_tab m)) /\ im_num m' = n /\ im_max m' = im_max m /\ im_size m' = im_size m /\
    im_idx m' = im_idx m /\ length (im_tab m') = im_size m.
  Proof.
    intros m e m' n [Hnd [Hc [Hn [Hl Hsz]]]] [Hl' [Hs Hr]] Hne H. cbn [with_num im_tab im_size im_num im_max im_idx] in *.
    unfold im_put in H. cbn [with_num im_tab im_size im_num im_max im_idx] in H.
    set (h0 := h0_of (im_size m) (val e)) in *.
    destruct (probe_free (im_tab m) (im_size m) h0 (im_size m) h0) as [k|] eqn:E; [|discriminate].
    injection H as <-. cbn [im_tab im_size im_num im_max im_idx].
    change h0 with (pos (im_size m) h0 0) in E at 2.
    destruct (probe_free_spec _ _ _ _ _ _ E) as [j [_ [Hj [Hp [_ Hfree]]]]].
    assert (Hk : k < length (im_tab m)).
    { rewrite Hl, <- Hp. apply pos_lt; [lia|apply h0_lt; exact Hs]. }
    destruct (put_attrs (im_tab m) k e Hk Hfree) as [A [B C]].
    split; [exact (B Hnd Hne)|]. split; [exact A|]. split; [exact C|].
    repeat split; try reflexivity. rewrite upd_length. exact Hl.
  Qed.
End Book.

Lemma attrs_repeat : forall n, attrs_of (repeat SEmpty n) = [] /\ count_ne (repeat SEmpty n) = 0.
Proof. induction n as [|n [IH1 IH2]]; [split; reflexivity|]. split; [exact IH1|exact IH2]. Qed.
Lemma attrs_le_count : forall t, length (attrs_of t) <= count_ne t.
Proof.
  unfold attrs_of, count_ne. induction t as [|s r IH]; [cbn; lia|]. cbn [flat_map filter]. rewrite app_length.
  destruct s; cbn [attr_of is_nonempty length]; lia.
Qed.
Lemma book_has_empty : forall m, book m -> has_empty m.
Proof.
  intros m [Hnd [Hc [Hn [Hl Hsz]]]]. pose proof (gen_fill _ _ _ Hsz) as Hf.
  destruct (count_lt_has_empty (im_tab m) ltac:(lia)) as [k [H1 H2]]. exists k. split; [lia|exact H2].
Qed.

Lemma probe_attr_no_growerr : forall t size h0 e fuel cur, probe_attr t size h0 e fuel cur <> GrowErr.
Proof.
  intros t size h0 e. induction fuel as [|fu IH]; intros cur; [discriminate|]. cbn.
  destruct (slot_at t cur); [discriminate|apply IH|]. destruct (e0 =? e); [discriminate|apply IH].
Qed.

Section Book2.
  Variable val : nat -> list N.

  (** the slot search of add always succeeds on a table satisfying the invariants *)
  Lemma put_done : forall m n e, book m -> wf val m -> exists m', im_put val (with_num m n) e = Done m'.
  Proof.
    intros m n e Hb Hw. pose proof Hb as [_ [_ [_ [_ Hsz]]]]. destruct Hw as [Hl [Hs _]].
    pose proof (put_terminates val (with_num m n) e Hs (gen_sizes_prime _ _ _ Hsz)) as Ht.
    assert (He : has_empty (with_num m n)) by (destruct (book_has_empty m Hb) as [k Hk]; exists k; exact Hk).
    specialize (Ht He). unfold im_put in *. destruct (probe_free _ _ _ _ _); [eexists; reflexivity|]. exfalso. apply Ht. reflexivity.
  Qed.

  Definition restep (fu : nat) := fun (acc : outcome idmap) (sl : slot) =>
    match acc, sl with Done m', SAttr e' => im_add val fu m' e' | _, _ => acc end.

  (** the re-insertion loop of growTable: no nested growth, nothing lost, nothing duplicated *)
  Lemma regrow : forall fu s' mx' idx' l acc,
    size_at idx' = Some (s', mx') ->
    im_size acc = s' -> im_max acc = mx' -> im_idx acc = idx' -> book acc -> wf val acc ->
    NoDup (attrs_of l) -> (forall x, In x (attrs_of l) -> ~ In x (attrs_of (im_tab acc))) ->
    im_num acc + length (attrs_of l) < mx' ->
    exists mr, fold_left (restep (S fu)) l (Done acc) = Done mr /\
      book mr /\ wf val mr /\ im_size mr = s' /\ im_max mr = mx' /\ im_idx mr = idx' /\
      im_num mr = im_num acc + length (attrs_of l) /\
      (forall x, In x (attrs_of (im_tab mr)) <-> In x (attrs_of (im_tab acc)) \/ In x (attrs_of l)).
  Proof.
    intros fu s' mx' idx' l. induction l as [|sl l IH]; intros acc Hsz Es Em Ei Hb Hw Hnd Hdisj Hnum.
    - exists acc. split; [reflexivity|]. split; [exact Hb|]. split; [exact Hw|]. split; [exact Es|]. split; [exact Em|]. split; [exact Ei|].
      split; [cbn; lia|]. intros x. cbn. tauto.
    - unfold attrs_of in Hnd, Hdisj, Hnum. cbn [flat_map] in Hnd, Hdisj, Hnum. fold (attrs_of l) in *.
      destruct sl as [| |e'].
      + cbn [attr_of app] in *. cbn [fold_left restep]. destruct (IH acc Hsz Es Em Ei Hb Hw Hnd Hdisj Hnum) as [mr H]. exists mr. exact H.
      + cbn [attr_of app] in *. cbn [fold_left restep]. destruct (IH acc Hsz Es Em Ei Hb Hw Hnd Hdisj Hnum) as [mr H]. exists mr. exact H.
      + cbn [attr_of app length] in *. inversion Hnd as [|? ? Hne' Hnd']; subst.
        cbn [fold_left restep im_add].
        assert (Hlt : (im_max acc <=? im_num acc) = false) by (apply Nat.leb_gt; lia). rewrite Hlt.
        destruct (put_done acc (S (im_num acc)) e' Hb Hw) as [acc1 Hput]. rewrite Hput.
        pose proof Hb as [Hb1 [Hb2 [Hb3 [Hb4 Hb5]]]].
        assert (Hbw : book (with_num acc (S (im_num acc)))).
        { split; [exact Hb1|]. split; [cbn [with_num im_tab im_num im_max]; lia|]. split; [cbn [with_num im_tab im_num im_max]; lia|]. split; [exact Hb4|exact Hb5]. }
        destruct (put_book val acc e' acc1 (S (im_num acc)) Hbw Hw (Hdisj e' (or_introl eq_refl)) Hput)
          as [P1 [P2 [P3 [P4 [P5 [P6 [P7 P8]]]]]]].
        destruct (put_wf val (with_num acc (S (im_num acc))) e' acc1 (with_num_wf val acc _ Hw) Hput) as [W1 _].
        assert (Hb' : book acc1).
        { split; [exact P1|]. split; [lia|]. split; [lia|]. split; [rewrite P8, P6; reflexivity|]. rewrite P7, P6, P5. exact Hb5. }
        destruct (IH acc1 Hsz ltac:(lia) ltac:(lia) ltac:(congruence) Hb' W1 Hnd') as [mr [F1 [F2 [F3 [F4 [F5 [F6 [F7 F8]]]]]]]].
        * intros x Hx Hin. apply P2 in Hin. destruct Hin as [->|Hin]; [exact (Hne' Hx)|]. exact (Hdisj x (or_intror Hx) Hin).
        * lia.
        * assert (Ea : attrs_of (SAttr e' :: l) = e' :: attrs_of l) by reflexivity. rewrite Ea.
          exists mr. split; [exact F1|]. split; [exact F2|]. split; [exact F3|]. split; [exact F4|]. split; [exact F5|]. split; [exact F6|].
          split; [cbn [length]; lia|]. intros x. rewrite F8, P2. cbn [In]. split; [intros [[->|H]|H]; auto|intros [H|[->|H]]; auto].
  Qed.

  (** add: with or without growTable the invariants survive, the attribute is registered exactly once more, and the
      only way not to finish is the documented NodeIDMap_GrowErr when gPrimes is exhausted *)
  Theorem add_book : forall fu m e, book m -> wf val m -> ~ In e (attrs_of (im_tab m)) ->
    im_add val (S (S fu)) m e = GrowErr \/
    exists m', im_add val (S (S fu)) m e = Done m' /\ book m' /\ wf val m' /\
               (forall x, In x (attrs_of (im_tab m')) <-> x = e \/ In x (attrs_of (im_tab m))).
  Proof.
    intros fu m e Hb Hw Hne. pose proof Hb as [Hb1 [Hb2 [Hb3 [Hb4 Hb5]]]]. cbn [im_add].
    destruct (Nat.leb_spec (im_max m) (im_num m)) as [Hge|Hlt].
    - (* growTable *)
      destruct (size_at (S (im_idx m))) as [[s' mx']|] eqn:Es; [|left; reflexivity]. right.
      pose proof (sizes_ge2 _ _ _ Es) as Hs2. pose proof (gen_growth _ _ _ _ _ Hb5 Es) as Hg.
      set (m0 := {| im_tab := repeat SEmpty s'; im_size := s'; im_idx := S (im_idx m); im_num := im_num m; im_max := mx' |}).
      destruct (empty_wf val s' (S (im_idx m)) (im_num m) mx' Hs2) as [Hw0 _]. fold m0 in Hw0.
      destruct (attrs_repeat s') as [Ea Ec].
      assert (Hb0 : book m0).
      { unfold m0. split; [cbn [im_tab]; rewrite Ea; constructor|]. split; [cbn [im_tab im_num]; rewrite Ec; lia|].
        split; [cbn [im_num im_max]; lia|]. split; [cbn [im_tab im_size]; apply repeat_length|exact Es]. }
      pose proof (attrs_le_count (im_tab m)) as Hal.
      destruct (regrow fu s' mx' (S (im_idx m)) (im_tab m) m0 Es eq_refl eq_refl eq_refl Hb0 Hw0 Hb1) as [m1 [F1 [F2 [F3 [F4 [F5 [F6 [F7 F8]]]]]]]].
      + intros x _ Hin. unfold m0 in Hin. cbn [im_tab] in Hin. rewrite Ea in Hin. destruct Hin.
      + unfold m0. cbn [im_num]. lia.
      + change (fold_left _ (im_tab m) (Done m0)) with (fold_left (restep (S fu)) (im_tab m) (Done m0)). rewrite F1.
        destruct (put_done m1 (S (im_num m1)) e F2 F3) as [m' Hput]. exists m'. split; [exact Hput|].
        pose proof F2 as [G1 [G2 [G3 [G4 G5]]]].
        assert (Hbw : book (with_num m1 (S (im_num m1)))).
        { split; [exact G1|]. split; [cbn [with_num im_tab im_num im_max]; lia|]. split; [cbn [with_num im_num im_max]; unfold m0 in F7; cbn [im_num] in F7; lia|]. split; [exact G4|exact G5]. }
        assert (Hne1 : ~ In e (attrs_of (im_tab m1))).
        { intros Hin. apply F8 in Hin. destruct Hin as [Hin|Hin]; [unfold m0 in Hin; cbn [im_tab] in Hin; rewrite Ea in Hin; destruct Hin|exact (Hne Hin)]. }
        destruct (put_book val m1 e m' (S (im_num m1)) Hbw F3 Hne1 Hput) as [P1 [P2 [P3 [P4 [P5 [P6 [P7 P8]]]]]]].
        destruct (put_wf val (with_num m1 (S (im_num m1))) e m' (with_num_wf val m1 _ F3) Hput) as [W1 _].
        split; [|split; [exact W1|]].
        * split; [exact P1|]. split; [lia|]. split; [rewrite P4, P5; unfold m0 in F7; cbn [im_num] in F7; lia|].
          split; [rewrite P8, P6; reflexivity|]. rewrite P7, P6, P5. exact G5.
        * intros x. rewrite P2, F8. unfold m0. cbn [im_tab]. rewrite Ea. cbn [In]. tauto.
    - (* room left *)
      right. destruct (put_done m (S (im_num m)) e Hb Hw) as [m' Hput]. exists m'. split; [exact Hput|].
      assert (Hbw : book (with_num m (S (im_num m)))).
      { split; [exact Hb1|]. split; [cbn [with_num im_tab im_num im_max]; lia|]. split; [cbn [with_num im_tab im_num im_max]; lia|]. split; [exact Hb4|exact Hb5]. }
      destruct (put_book val m e m' (S (im_num m)) Hbw Hw Hne Hput) as [P1 [P2 [P3 [P4 [P5 [P6 [P7 P8]]]]]]].
      destruct (put_wf val (with_num m (S (im_num m))) e m' (with_num_wf val m _ Hw) Hput) as [W1 _].
      split; [|split; [exact W1|exact P2]].
      split; [exact P1|]. split; [lia|]. split; [lia|]. split; [rewrite P8, P6; reflexivity|]. rewrite P7, P6, P5. exact Hb5.
  Qed.

  (** remove: never loops, keeps the invariants, takes the attribute out *)
  Theorem remove_book : forall m e, book m -> wf val m ->
    exists m', im_remove val m e = Done m' /\ book m' /\ wf val m' /\
               (forall x, In x (attrs_of (im_tab m')) -> In x (attrs_of (im_tab m))) /\
               (In e (attrs_of (im_tab m)) -> ~ In e (attrs_of (im_tab m'))).
  Proof.
    intros m e Hb Hw. pose proof Hb as [Hb1 [Hb2 [Hb3 [Hb4 Hb5]]]]. pose proof Hw as [Hl [Hs Hr]].
    pose proof (remove_terminates val m e Hs (gen_sizes_prime _ _ _ Hb5) (book_has_empty m Hb)) as Ht.
    destruct (im_remove val m e) as [m'| |] eqn:Er; [|exfalso; apply Ht; reflexivity|].
    - exists m'. split; [reflexivity|]. destruct (remove_wf val m e m' Hw Er) as [W _]. unfold im_remove in Er.
      destruct (probe_attr _ _ _ e _ _) as [[k|]| |] eqn:Ep; try discriminate; injection Er as <-.
      + pose proof (probe_attr_spec _ _ _ _ _ _ _ Ep) as Hk. destruct (del_attrs (im_tab m) k e Hk) as [A [B C]].
        destruct (B Hb1) as [B1 B2]. cbn [im_tab].
        split; [|split; [exact W|split; [exact A|intros _; exact B2]]].
        split; [exact B1|]. split; [cbn [im_tab im_num]; lia|]. split; [exact Hb3|]. split; [cbn [im_tab im_size]; rewrite upd_length; exact Hb4|exact Hb5].
      + split; [exact Hb|]. split; [exact W|]. split; [intros x H; exact H|].
        (* not found although registered: impossible, the entry is reachable *)
        intros Hin. exfalso. apply attrs_in in Hin. destruct Hin as [k0 Hk0]. destruct (Hr k0 e Hk0) as [j [Hj [Hp Hne]]].
        destruct (probe_attr_reach (im_tab m) (im_size m) (h0_of (im_size m) (val e)) e j 0 (im_size m)) as [k Ek];
          [rewrite Hp; exact Hk0|exact Hne|lia|lia|]. cbn [pos] in Ek. rewrite Ek in Ep. discriminate.
    - exfalso. unfold im_remove in Er. destruct (probe_attr _ _ _ e _ _) as [[k|]| |] eqn:Ep; try discriminate.
      exact (probe_attr_no_growerr _ _ _ _ _ _ Ep).
  Qed.

  Theorem find_no_hang : forall m v, book m -> wf val m -> im_find val m v <> Hang.
  Proof.
    intros m v Hb [Hl [Hs _]]. pose proof Hb as [_ [_ [_ [_ Hb5]]]].
    exact (find_terminates val m v Hs (gen_sizes_prime _ _ _ Hb5) (book_has_empty m Hb)).
  Qed.
End Book2.

(* ---------------------------------------------------------------------------------------------------------- *)
(** * T14_idmap in full: sequences of add / remove from the empty table *)
Fixpoint valid_use (s : list nat) (l : list top) : Prop :=
  match l with
  | [] => True
  | TAdd e :: r => ~ In e s /\ valid_use (e :: s) r            (* an attribute is registered only when it is not *)
  | TRemove e :: r => valid_use (filter (fun x => negb (x =? e)) s) r
  end.

Lemma im_new_book : book im_new.
Proof.
  unfold im_new.
  set (K := (fix go (l : list (N * N)) (k : nat) {struct l} : nat :=
               match l with [] => k | (s, _) :: r => if N.ltb s idmap_initial then go r (S k) else k end) idmap_sizes 0).
  destruct (size_at K) as [[s mx]|] eqn:E.
  - destruct (attrs_repeat s) as [Ea Ec]. split; [cbn [im_tab]; rewrite Ea; constructor|].
    split; [cbn [im_tab im_num]; rewrite Ec; lia|]. split; [cbn; lia|]. split; [cbn [im_tab im_size]; apply repeat_length|exact E].
  - exfalso. vm_compute in E. discriminate.
Qed.

Theorem seq_full : forall val fu l m s, book m -> wf val m -> (forall x, In x (attrs_of (im_tab m)) <-> In x s) ->
  valid_use s l ->
  t_run val (S (S fu)) m l = GrowErr \/
  exists m', t_run val (S (S fu)) m l = Done m' /\ book m' /\ wf val m' /\
             (forall x, In x (attrs_of (im_tab m')) <-> In x (spec_set s l)).
Proof.
  intros val fu. induction l as [|[e|e] r IH]; intros m s Hb Hw Hs Hv.
  - right. exists m. split; [reflexivity|]. split; [exact Hb|]. split; [exact Hw|exact Hs].
  - destruct Hv as [Hne Hv]. cbn [t_run spec_set].
    destruct (add_book val fu m e Hb Hw ltac:(rewrite Hs; exact Hne)) as [Hg|[m1 [Ha [Hb1 [Hw1 Hs1]]]]]; [rewrite Hg; left; reflexivity|].
    rewrite Ha. apply (IH m1 (e :: s) Hb1 Hw1); [|exact Hv]. intros x. rewrite Hs1, Hs. cbn [In]. split; intros [H|H]; auto.
  - cbn [t_run spec_set valid_use] in *.
    destruct (remove_book val m e Hb Hw) as [m1 [Hr [Hb1 [Hw1 [Hsub Hgone]]]]]. rewrite Hr.
    apply (IH m1 _ Hb1 Hw1); [|exact Hv]. intros x. rewrite filter_In. split.
    + intros Hx. split; [apply Hs; exact (Hsub x Hx)|]. apply negb_true_iff. apply Nat.eqb_neq. intros ->.
      exact (Hgone (Hsub e Hx) Hx).
    + intros [Hx Hne]. apply negb_true_iff in Hne. apply Nat.eqb_neq in Hne.
      destruct (remove_wf val m e m1 Hw Hr) as [_ [K _]]. apply attrs_in. apply K; [exact Hne|]. apply attrs_in. apply Hs. exact Hx.
Qed.

(** T14_idmap (full): after any valid sequence of add / remove on the document's table -- growth included -- either
    gPrimes was exhausted (NodeIDMap_GrowErr), or: no probe loop ran forever, the table holds exactly the attributes of
    the specification set, each exactly once, and find answers exactly the specification's lookup *)
Theorem idmap_full : forall val fu l, valid_use [] l ->
  t_run val (S (S fu)) im_new l = GrowErr \/
  exists m', t_run val (S (S fu)) im_new l = Done m' /\
    NoDup (attrs_of (im_tab m')) /\ (forall e, In e (attrs_of (im_tab m')) <-> In e (spec_set [] l)) /\
    (forall e, In e (spec_set [] l) -> (forall e', In e' (spec_set [] l) -> val e' = val e -> e' = e) ->
               im_find val m' (val e) = Done (Some e)) /\
    (forall v, (forall e, In e (spec_set [] l) -> val e <> v) -> im_find val m' v = Done None).
Proof.
  intros val fu l Hv. destruct (im_new_wf val) as [W0 P0].
  destruct (seq_full val fu l im_new [] im_new_book W0) as [Hg|[m' [Hr [Hb [Hw Hs]]]]]; [|exact Hv|left; exact Hg|].
  - intros x. split; [intros Hin; apply attrs_in in Hin; exfalso; exact (P0 x Hin)|intros []].
  - right. exists m'. split; [exact Hr|]. split; [destruct Hb; assumption|]. split; [exact Hs|]. split.
    + intros e He Hd. apply find_complete; [exact Hw|apply attrs_in; apply Hs; exact He|].
      intros e' k' Hk'. apply Hd. apply Hs. apply attrs_in. exists k'. exact Hk'.
    + intros v Hv'. destruct (find_absent val m' v) as [H|H]; [|exact H|exfalso; exact (find_no_hang val m' v Hb Hw H)].
      intros e He. apply Hv'. apply Hs. apply attrs_in. exact He.
Qed.
