(** C14 -- executable certificates for the navigation hypotheses of Proofs14b/c.  The conditional theorems about
    iterator stepping, the tag-name list and the removal fix-up of ranges hold in every state in which these boolean
    checks evaluate to [true] (Proofs14d.v); the extracted checks are evaluated on every state of every history
    of the correspondence ([m_run_certs]), so the hypotheses are machine-checked for all sampled states. *)
From Coq Require Import List NArith Arith Bool.
From XV Require Import C14.Spec14 C14.Hist14 C14.Model14.
Import ListNotations.

Definition opt_eqb (a b : option nat) : bool :=
  match a, b with Some x, Some y => x =? y | None, None => true | _, _ => false end.
Fixpoint nodupb (l : list nat) : bool :=
  match l with [] => true | x :: r => negb (memb x r) && nodupb r end.

(** the pointer walks of the iterator are single steps in the document order of the root's subtree, ids are unique,
    and the filter sees the node the order lists *)
Definition iter_cert (tab : list N) (f : forest) (it : m_iter) : bool :=
  let root := mi_root it in
  let trees := it_order f root in
  let order := ids trees in
  nodupb order && opt_eqb (nth_error order 0) (Some root) && (length order <=? m_fuel f) &&
  forallb (fun k => match nth_error order k with
                    | Some c => opt_eqb (mi_next_raw f root (Some c) true) (nth_error order (S k))
                    | None => true end) (seq 0 (length order)) &&
  forallb (fun k => match nth_error order (S k) with
                    | Some c => opt_eqb (mi_prev_raw f root c) (nth_error order k)
                    | None => true end) (seq 0 (length order)) &&
  opt_eqb (mi_prev_raw f root root) None &&
  forallb (fun s => Bool.eqb (it_accepts tab (mi_what it) (mi_usef it) s) (mi_accept tab f it (tid s))) trees &&
  (match mi_cur it with Some c => memb c order | None => true end).

(** nextMatchingElementAfter steps through root :: matching elements *)
Definition dl_cert (f : forest) (root : nat) (name : list N) : bool :=
  let sq := root :: sp_tag_list f root name in
  forallb (fun k => match nth_error sq k with
                    | Some c => opt_eqb (md_next_match f root name (m_fuel f) (Some c)) (nth_error sq (S k))
                    | None => true end) (seq 0 (length sq)) &&
  (length (sp_tag_list f root name) <? m_fuel f).

(** isAncestorOf(x, c) decides membership of c in the subtree of x, for every node of the forest *)
Definition anc_cert (f : forest) (x : nat) : bool :=
  match m_parent f x with
  | Some p => forallb (fun c => Bool.eqb (m_is_anc f (m_fuel f) x (Some c)) (memb c (sub_ids f x))) (ids (fnodes f))
              && negb (memb p (sub_ids f x))
  | None => true
  end.

(** the certificate that the step about to be taken relies on *)
Definition step_cert (s : m_state) (o : op) : bool :=
  let f := ms_f s in
  match o with
  | OItNext k | OItPrev k => match get_opt (ms_its s) k with Some it => iter_cert (ms_tab s) f it | None => true end
  | ODLen k | ODItem k _ => match nth_error (ms_dls s) k with Some l => dl_cert f (md_root l) (md_name l) | None => true end
  | ORm x => if known f x then anc_cert f x else true
  | OIns _ n _ => if known f n then anc_cert f n else true
  | _ => true
  end.
(** (number of certificates evaluated, number that failed) along a history *)
Fixpoint m_run_certs_from (s : m_state) (h : list op) (n bad : nat) : nat * nat :=
  match h with
  | [] => (n, bad)
  | o :: r => let c := step_cert s o in
              match m_step s o with
              | None => (S n, if c then bad else S bad)
              | Some (_, s') => m_run_certs_from s' r (S n) (if c then bad else S bad)
              end
  end.
Definition m_run_certs (fx : fixes) (tab : list N) (h : list op) : nat * nat := m_run_certs_from (m_init fx tab) h 0 0.
