(** C14 -- previousNode(node) of DOMNodeIteratorImpl is the predecessor in the document order of the root's subtree
    (previous sibling's deepest last descendant, else the parent); hence previousNode = specification. *)
From Coq Require Import List NArith Arith Bool Lia.
From XV Require Import C14.Spec14 C14.Hist14 C14.Model14 C14.Tree14 C14.Nav14 C14.Nav14b C14.Proofs14c.
Import ListNotations.

Definition last_error {A} (l : list A) : option A := hd_error (rev l).
Lemma last_error_snoc : forall {A} (l : list A) x, last_error (l ++ [x]) = Some x.
Proof. intros. unfold last_error. rewrite rev_app_distr. reflexivity. Qed.

Lemma last_error_cons : forall {A} (y : A) l, l <> [] -> last_error (y :: l) = last_error l.
Proof.
  intros A y l Hl. unfold last_error. cbn [rev]. destruct (rev l) eqn:E; [|reflexivity].
  exfalso. apply Hl. rewrite <- (rev_involutive l), E. reflexivity.
Qed.
Lemma before_in_absent : forall x l y, ~ In x l -> before_in x (y :: l) = None.
Proof.
  intros x. induction l as [|z l IH]; intros y Hn; [reflexivity|]. cbn.
  destruct (Nat.eqb_spec z x) as [E|E]; [exfalso; apply Hn; left; exact E|].
  apply IH. intros H. apply Hn. right. exact H.
Qed.
Lemma before_in_split : forall l1 x l2, NoDup (l1 ++ x :: l2) -> before_in x (l1 ++ x :: l2) = last_error l1.
Proof.
  induction l1 as [|y l1 IH]; intros x l2 Hnd.
  - cbn [app]. inversion Hnd; subst. apply before_in_absent. assumption.
  - cbn [app] in Hnd. inversion Hnd as [|? ? Hny Hnd']; subst. destruct l1 as [|z l1].
    + cbn. rewrite Nat.eqb_refl. reflexivity.
    + rewrite last_error_cons by discriminate. rewrite <- (IH x l2 Hnd'). cbn [app before_in].
      destruct (Nat.eqb_spec z x) as [E|E]; [|reflexivity].
      exfalso. subst z. cbn [app] in Hnd'. inversion Hnd' as [|? ? Hn _]; subst. apply Hn. apply in_or_app. right. left. reflexivity.
Qed.

Section Prev.
  Variable f : forest.
  Variable R : nat.
  Hypothesis Hwf : wf_forest f.

  Definition lastid (t : tree) : nat := last (ids (docorder t)) (tid t).

  Lemma docorder_snoc : forall i k v pre c, docorder (Node i k v (pre ++ [c])) = (Node i k v (pre ++ [c]) :: dnodes pre) ++ docorder c.
  Proof. intros. rewrite docorder_eq. cbn [tkids]. unfold dnodes. rewrite flat_map_app. cbn. rewrite app_nil_r. reflexivity. Qed.
  Lemma last_app_ne : forall {A} (a b : list A) d, b <> [] -> last (a ++ b) d = last b d.
  Proof.
    intros A a b d Hb. induction a as [|x a IH]; [reflexivity|]. cbn [app].
    assert (Hne : a ++ b <> []) by (destruct a; [exact Hb|discriminate]).
    destruct (a ++ b) as [|z l] eqn:E; [contradiction|]. cbn [last]. exact IH.
  Qed.
  Lemma docorder_ne : forall t, ids (docorder t) <> [].
  Proof. intros t. rewrite docorder_eq. discriminate. Qed.
  Lemma lastid_snoc : forall i k v pre c, lastid (Node i k v (pre ++ [c])) = lastid c.
  Proof.
    intros. unfold lastid. rewrite docorder_snoc, ids_app. rewrite last_app_ne by apply docorder_ne.
    generalize (docorder_ne c). generalize (ids (docorder c)). intros l Hl. destruct l as [|x l]; [contradiction|].
    clear. revert x. induction l as [|y l IH]; intros x; [reflexivity|]. cbn [last] in *. apply IH.
  Qed.

  Lemma deepest_last_wf : forall t, In t (fnodes f) -> forall F, length (docorder t) <= F ->
    m_deepest_last f F (tid t) = lastid t.
  Proof.
    intros t. induction t as [i k v ks IH] using tree_ind2. intros Ht F HF.
    destruct F as [|fu]; [rewrite docorder_eq in HF; cbn in HF; lia|]. cbn [m_deepest_last tid].
    unfold m_last_child. pose proof (m_kids_wf f _ Hwf Ht) as Hk. cbn [tid tkids] in Hk. rewrite Hk.
    destruct ks as [|cl pre _] using rev_ind.
    - cbn. reflexivity.
    - unfold ids. rewrite map_app, rev_app_distr. cbn [map rev app hd_error].
      rewrite lastid_snoc. rewrite Forall_forall in IH.
      assert (Hc : In cl (pre ++ [cl])) by (apply in_or_app; right; left; reflexivity).
      apply (IH cl Hc); [exact (kids_in_dnodes f _ cl Ht Hc)|].
      rewrite docorder_snoc, app_length in HF. cbn [length] in HF. lia.
  Qed.

  Definition prevraw (c : nat) : option nat := mi_prev_raw f R c.
  Definition pred_chain (l : list nat) : Prop := forall k c, nth_error l (S k) = Some c -> prevraw c = nth_error l k.

  Lemma pred_single : forall e, pred_chain [e].
  Proof. intros e k c H. destruct k; discriminate. Qed.
  Lemma pred_cons : forall e x l, prevraw x = Some e -> pred_chain (x :: l) -> pred_chain (e :: x :: l).
  Proof.
    intros e x l Hx Hl k c H. destruct k as [|k]; cbn in H.
    - injection H as <-. exact Hx.
    - exact (Hl k c H).
  Qed.
  Lemma last_default : forall {A} (l : list A) d d', l <> [] -> last l d = last l d'.
  Proof.
    intros A. induction l as [|x l IH]; intros d d' H; [contradiction|]. destruct l as [|y l]; [reflexivity|].
    cbn [last] in *. apply IH. discriminate.
  Qed.
  Lemma last_cons : forall {A} (x : A) l d, last (x :: l) d = last l x.
  Proof. intros A x l d. destruct l as [|y l]; [reflexivity|]. change (last (x :: y :: l) d) with (last (y :: l) d). apply last_default. discriminate. Qed.
  Lemma pred_glue : forall l1 e l2, pred_chain (e :: l1) -> pred_chain (last l1 e :: l2) -> pred_chain (e :: l1 ++ l2).
  Proof.
    induction l1 as [|x l1 IH]; intros e l2 H1 H2; [exact H2|].
    cbn [app]. apply pred_cons; [exact (H1 0 x eq_refl)|].
    apply IH; [intros k c Hk; exact (H1 (S k) c Hk)|].
    destruct l1 as [|n l1]; [exact H2|]. rewrite (last_default (n :: l1) x e) by discriminate. exact H2.
  Qed.

  Lemma prev_sibling_wf : forall p pre c r, In p (fnodes f) -> tkids p = pre ++ c :: r ->
    m_prev_sibling f (tid c) = last_error (ids pre).
  Proof.
    intros p pre c r Hp E. unfold m_prev_sibling.
    assert (Hc : In c (tkids p)) by (rewrite E; apply in_or_app; right; left; reflexivity).
    rewrite (m_parent_wf f p c Hwf Hp Hc), (m_kids_wf f p Hwf Hp). rewrite E, ids_app. cbn [ids map].
    apply before_in_split. pose proof (kids_ids_nodup f p Hwf Hp) as Hnd. rewrite E, ids_app in Hnd. exact Hnd.
  Qed.

  Lemma pred_tree : forall t, In t (fnodes f) -> ~ In R (ids (dnodes (tkids t))) -> pred_chain (ids (docorder t)).
  Proof.
    intros t. induction t as [i k v ks IH] using tree_ind2. intros Ht HR.
    rewrite docorder_eq. cbn [ids map tkids tid] in *.
    (* e0 = the node in front of the remaining children's subtrees *)
    assert (Hkids : forall r pre e0, ks = pre ++ r ->
               e0 = match last_error pre with Some c => lastid c | None => i end ->
               pred_chain (e0 :: ids (dnodes r))).
    { induction r as [|c r IHr]; intros pre e0 E He0; [apply pred_single|].
      assert (Hc : In c ks) by (rewrite E; apply in_or_app; right; left; reflexivity).
      assert (Hcf : In c (fnodes f)) by (exact (kids_in_dnodes f (Node i k v ks) c Ht Hc)).
      assert (HRc : ~ In R (ids (dnodes (tkids c)))).
      { intros HinR. apply HR. unfold ids in *. apply in_map_iff in HinR. destruct HinR as [x [Ex Hx]].
        apply in_map_iff. exists x. split; [exact Ex|].
        unfold dnodes. apply in_flat_map. exists c. split; [exact Hc|]. rewrite docorder_eq. right. exact Hx. }
      rewrite dnodes_cons, ids_app. rewrite (docorder_eq c) at 1. cbn [ids map app].
      change (tid c :: map tid (dnodes (tkids c)) ++ ids (dnodes r)) with ((tid c :: ids (dnodes (tkids c))) ++ ids (dnodes r)).
      assert (Hd : tid c :: ids (dnodes (tkids c)) = ids (docorder c)) by (rewrite docorder_eq; reflexivity).
      apply pred_glue.
      - rewrite Hd. rewrite docorder_eq. cbn [ids map]. apply pred_cons.
        + (* the child itself: previous sibling's deepest last, or the parent *)
          unfold prevraw, mi_prev_raw.
          assert (HcR : tid c <> R).
          { intros E1. apply HR. rewrite <- E1. apply in_ids. apply top_in_dnodes. exact Hc. }
          destruct (Nat.eqb_spec (tid c) R) as [E1|_]; [exfalso; exact (HcR E1)|].
          rewrite (prev_sibling_wf (Node i k v ks) pre c r Ht E).
          destruct pre as [|pl pre0 _] using rev_ind.
          * cbn. rewrite (m_parent_wf f (Node i k v ks) c Hwf Ht Hc). rewrite He0. reflexivity.
          * unfold ids. rewrite map_app. cbn [map]. rewrite last_error_snoc.
            rewrite last_error_snoc in He0. rewrite He0. f_equal.
            assert (Hp0 : In pl ks) by (rewrite E; apply in_or_app; left; apply in_or_app; right; left; reflexivity).
            apply deepest_last_wf; [exact (kids_in_dnodes f (Node i k v ks) pl Ht Hp0)|].
            pose proof (len_sub f pl (kids_in_dnodes f (Node i k v ks) pl Ht Hp0)). unfold m_fuel, fnodes. unfold dnodes in H. lia.
        + rewrite Forall_forall in IH. pose proof (IH c Hc Hcf HRc) as Hch. rewrite docorder_eq in Hch. exact Hch.
      - assert (El2 : last (tid c :: ids (dnodes (tkids c))) e0 = lastid c).
        { unfold lastid. rewrite docorder_eq. cbn [ids map]. fold (ids (dnodes (tkids c))). rewrite !last_cons. reflexivity. }
        rewrite El2. apply (IHr (pre ++ [c])); [rewrite <- app_assoc; exact E|]. rewrite last_error_snoc. reflexivity. }
    exact (Hkids ks [] i eq_refl eq_refl).
  Qed.
End Prev.

Section PrevOnForest.
  Variable f : forest.
  Hypothesis Hwf : wf_forest f.

  Theorem iter_prev_nav : forall R Rt, find_node f R = Some Rt ->
    forall k c, nth_error (ids (it_order f R)) (S k) = Some c -> mi_prev_raw f R c = nth_error (ids (it_order f R)) k.
  Proof.
    intros R Rt HR k c Hk. rewrite (order_of_root f R Rt HR) in *. destruct (find_node_in f R Rt HR) as [Hin HtR].
    apply (pred_tree f R Hwf Rt Hin); [|exact Hk].
    rewrite <- HtR. intros HinR. unfold ids in HinR. apply in_map_iff in HinR. destruct HinR as [x [Ex Hx]].
    exact (self_not_proper Rt x (nodup_sub f Rt Hwf Hin) Hx Ex).
  Qed.

  (** T14_iter_position, previousNode, without navigation hypotheses *)
  Theorem iter_prev_unconditional : forall tab it0 Rt, find_node f (mi_root it0) = Some Rt ->
    forall cur fwd, (forall c, cur = Some c -> In c (ids (it_order f (mi_root it0)))) ->
    sp_it_prev tab f (abs_it (mi_set it0 cur fwd)) =
    (fst (mi_prev tab f (mi_set it0 cur fwd)), abs_it (snd (mi_prev tab f (mi_set it0 cur fwd)))).
  Proof.
    intros tab it0 Rt HR cur fwd Hcur. destruct (find_node_in f _ Rt HR) as [Hin HtR].
    apply (prev_is_spec tab f it0).
    - rewrite (order_of_root f _ Rt HR). exact (nodup_sub f Rt Hwf Hin).
    - rewrite (order_of_root f _ Rt HR), docorder_eq. cbn. rewrite HtR. reflexivity.
    - rewrite (order_of_root f _ Rt HR). unfold ids. rewrite map_length. pose proof (len_sub f Rt Hin).
      unfold m_fuel, fnodes. unfold dnodes in H. lia.
    - exact (iter_prev_nav _ Rt HR).
    - unfold mi_prev_raw. rewrite Nat.eqb_refl. reflexivity.
    - intros s Hs. apply (accept_wf f Hwf). rewrite (order_of_root f _ Rt HR) in Hs. exact (sub_in_dnodes f Rt s Hin Hs).
    - exact Hcur.
  Qed.
End PrevOnForest.
