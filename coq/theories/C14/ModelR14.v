(** C14 -- executable model of the Range CONTENT operations of src/xercesc/dom/impl/DOMRangeImpl.cpp, function by
    function: toString, nextNode, traverseContents, traverseSameContainer, traverseCommonStartContainer,
    traverseCommonEndContainer, traverseCommonAncestors, traverseLeftBoundary, traverseRightBoundary, traverseNode,
    traverseFullySelected, traversePartiallySelected, traverseTextNode, getSelectedNode, insertNode
    (+ DOMCommentImpl::splitText).  The operations act on the document through the mutation paths of Model14.v
    (removeChild / insertBefore / deleteData / setNodeValue / splitText with their notification loops), so every live
    iterator and range -- the operating range included -- is fixed up after each single step, as in the code.
    The DocumentFragment under construction is a value ([ftree]); a node appended to it leaves the document.
    No proofs in this file. *)
From Coq Require Import List NArith Arith Bool.
From XV Require Import C14.Spec14 C14.Hist14 C14.Model14 C14.SpecR14.
Import ListNotations.

Inductive how := HDelete | HExtract | HClone.
Definition is_clone (h : how) : bool := match h with HClone => true | _ => false end.

Definition rg_of (s : m_state) (k : nat) : m_range :=
  match get_opt (ms_rgs s) k with Some r => r | None => {| mr_sc := 0; mr_so := 0; mr_ec := 0; mr_eo := 0 |} end.
Definition m_val (f : forest) (x : nat) : list N := val_of f x.

(** DOMRangeImpl::nextNode(node, visitChildren): the climb stops at the document *)
Fixpoint xr_climb (f : forest) (fuel : nat) (parent : option nat) : option nat :=
  match fuel with
  | O => None
  | S fu => match parent with
            | None => None
            | Some p => if p =? 0 then None else
                        match m_next_sibling f p with
                        | Some r => Some r
                        | None => xr_climb f fu (m_parent f p)
                        end
            end
  end.
Definition xr_next (f : forest) (node : option nat) (visit : bool) : option nat :=
  match node with
  | None => None
  | Some n =>
    match (if visit then m_first_child f n else None) with
    | Some c => Some c
    | None => match m_next_sibling f n with
              | Some r => Some r
              | None => xr_climb f (m_fuel f) (m_parent f n)
              end
    end
  end.

(** toString(); [txt_only] = repaired variant that appends Text nodes only *)
Fixpoint xr_str_loop (txt_only : bool) (f : forest) (fuel : nat) (node stop : option nat) (buf : list N) : list N :=
  match fuel with
  | O => buf
  | S fu =>
    match node with
    | None => buf
    | Some n =>
      if (match stop with Some st => n =? st | None => false end) then buf
      else
        let add := if txt_only then (match m_kind f n with KText => true | _ => false end) else m_is_cd f n in
        xr_str_loop txt_only f fu (xr_next f node true) stop (if add then buf ++ m_val f n else buf)
    end
  end.
Definition xr_to_string (txt_only : bool) (f : forest) (r : m_range) : list N :=
  let sc := mr_sc r in let so := mr_so r in let ec := mr_ec r in let eo := mr_eo r in
  let counts := fun x => if txt_only then (match m_kind f x with KText => true | _ => false end) else true in
  if (sc =? ec) && (so =? eo) then []
  else if m_is_cd f sc && (sc =? ec) then
    (if counts sc then firstn (eo - so) (skipn so (m_val f sc)) else [])
  else
    let '(buf, node) :=
      if m_is_cd f sc then
        ((if negb (length (m_val f sc) =? so) && counts sc then skipn so (m_val f sc) else []), xr_next f (Some sc) true)
      else
        (match nth_error (m_kids f sc) so with
         | Some c => ([], Some c)
         | None => ([], xr_next f (Some sc) false)
         end) in
    let stop := if m_is_cd f ec then Some ec
                else match nth_error (m_kids f ec) eo with
                     | Some c => Some c
                     | None => xr_next f (Some ec) false
                     end in
    let buf2 := xr_str_loop txt_only f (m_fuel f) node stop buf in
    if m_is_cd f ec && negb (eo =? 0) && counts ec then buf2 ++ firstn eo (m_val f ec) else buf2.

(* ---------------------------------------------------------------------------------------------------------- *)
(** * traverseContents *)

(** setNodeValue(n, v): DOMCharacterDataImpl::setNodeValue + receiveReplacedText on every range *)
Definition xr_set_value (s : m_state) (n : nat) (v : list N) : m_state :=
  let f' := f_set_val (ms_f s) n v in
  ms_with s f' (ms_changes s) (ms_its s) (omap (mr_upd_set_text f' n) (ms_rgs s)).

(** getSelectedNode(container, offset); [None] = a negative offset *)
Definition xr_selected (f : forest) (c : nat) (off : option nat) : nat :=
  if m_is_cd f c then c
  else match off with
       | None => c
       | Some o => match nth_error (m_kids f c) o with Some ch => ch | None => c end
       end.

Definition xr_tree (f : forest) (n : nat) : tree :=
  match find_node f n with Some t => t | None => Node n KElem [] [] end.

(** traverseFullySelected(n, how) followed, for EXTRACT, by the appendChild/insertBefore into the fragment (which
    removes n from its parent).  None = the process died *)
Definition xr_full (h : how) (s : m_state) (n : nat) : option (m_state * ftree) :=
  let t := xr_tree (ms_f s) n in
  match h with
  | HClone => Some (s, ft_full false t)
  | HExtract => match (if is_some (m_parent (ms_f s) n) then m_remove_child s n else Some s) with
                | Some s' => Some (s', ft_full true t)
                | None => None
                end
  | HDelete => match m_parent (ms_f s) n with
               | None => None                                   (* n->getParentNode()->removeChild(n) on null *)
               | Some _ => match m_remove_child s n with Some s' => Some (s', ft_full true t) | None => None end
               end
  end.
(** traversePartiallySelected *)
Definition xr_partial (s : m_state) (n : nat) : ftree :=
  FT None (m_kind (ms_f s) n) (m_val (ms_f s) n) [].
Section Trav.
(** [deld] = traverseTextNode as repaired by fixes/C14-range-traverse-text.patch: the characters are removed by
    deleteData (fix-up of Range 2.12.2) instead of replacing the whole value by setNodeValue (which sends every
    boundary point in the node to offset 0); false = the code as it is *)
Variable deld : bool.
(** traverseTextNode(n, isLeft, how) for the range with index k *)
Definition xr_text (h : how) (k : nat) (s : m_state) (n : nat) (isLeft : bool) : m_state * ftree :=
  let f := ms_f s in
  let r := rg_of s k in
  let txt := m_val f n in
  if isLeft then
    let startLen := length (m_val f (mr_sc r)) in
    let offset := mr_so r in
    let s1 := if is_clone h then s
              else if deld then m_del_text s n offset (length txt - offset)
              else xr_set_value s n (firstn offset txt) in
    (s1, FT None (m_kind f n) (if startLen =? offset then [] else firstn (startLen - offset) (skipn offset txt)) [])
  else
    let endLen := length (m_val f (mr_ec r)) in
    let offset := mr_eo r in
    let s1 := if is_clone h then s
              else if deld then m_del_text s n 0 offset
              else xr_set_value s n (if endLen =? offset then [] else firstn (endLen - offset) (skipn offset txt)) in
    (s1, FT None (m_kind f n) (if offset =? 0 then [] else firstn offset txt) []).
(** traverseNode *)
Definition xr_node (h : how) (k : nat) (s : m_state) (n : nat) (full isLeft : bool) : option (m_state * ftree) :=
  if full then xr_full h s n
  else if m_is_cd (ms_f s) n then Some (xr_text h k s n isLeft)
  else Some (s, xr_partial s n).

Definition ft_add_kids (t : ftree) (front back : list ftree) : ftree :=
  match t with FT o kd v ks => FT o kd v (front ++ ks ++ back) end.

(** traverseLeftBoundary(root, how): the inner while over the following siblings ... *)
Fixpoint xr_left_sibs (h : how) (k : nat) (fuel : nat) (s : m_state) (next : option nat) (full : bool) (acc : list ftree)
  : option (m_state * list ftree) :=
  match fuel with
  | O => Some (s, acc)
  | S fu => match next with
            | None => Some (s, acc)
            | Some n => let sib := m_next_sibling (ms_f s) n in
                        match xr_node h k s n full true with
                        | None => None
                        | Some (s', c) => xr_left_sibs h k fu s' sib true (acc ++ [c])
                        end
            end
  end.
(** ... and the outer while over the ancestors up to root; [cloned] = clonedParent so far *)
Fixpoint xr_left_up (h : how) (k : nat) (root : nat) (fuel : nat) (s : m_state) (parent : option nat) (next : option nat)
  (full : bool) (cloned : ftree) : option (m_state * ftree) :=
  match fuel with
  | O => Some (s, cloned)
  | S fu =>
    match parent with
    | None => Some (s, cloned)                                   (* "should never occur": returns 0 *)
    | Some p =>
      match xr_left_sibs h k (m_fuel (ms_f s)) s next full [] with
      | None => None
      | Some (s1, cs) =>
        let cloned1 := ft_add_kids cloned [] cs in
        if p =? root then Some (s1, cloned1)
        else
          let next' := m_next_sibling (ms_f s1) p in
          let gp := m_parent (ms_f s1) p in
          match gp with
          | None => Some (s1, cloned1)
          | Some g => match xr_node h k s1 g false true with
                      | None => None
                      | Some (s2, cg) => xr_left_up h k root fu s2 gp next' true (ft_add_kids cg [] [cloned1])
                      end
          end
      end
    end
  end.
Definition xr_left_boundary (h : how) (k : nat) (s : m_state) (root : nat) : option (m_state * ftree) :=
  let r := rg_of s k in
  let next := xr_selected (ms_f s) (mr_sc r) (Some (mr_so r)) in
  let full := negb (next =? mr_sc r) in
  if next =? root then xr_node h k s next full true
  else match m_parent (ms_f s) next with
       | None => None                                            (* traverseNode(0, ...) dereferences null *)
       | Some p => match xr_node h k s p false true with
                   | None => None
                   | Some (s1, cp) => xr_left_up h k root (m_fuel (ms_f s)) s1 (Some p) (Some next) full cp
                   end
       end.

(** traverseRightBoundary(root, how) *)
Fixpoint xr_right_sibs (h : how) (k : nat) (fuel : nat) (s : m_state) (next : option nat) (full : bool) (acc : list ftree)
  : option (m_state * list ftree) :=
  match fuel with
  | O => Some (s, acc)
  | S fu => match next with
            | None => Some (s, acc)
            | Some n => let sib := m_prev_sibling (ms_f s) n in
                        match xr_node h k s n full false with
                        | None => None
                        | Some (s', c) => xr_right_sibs h k fu s' sib true (c :: acc)
                        end
            end
  end.
Fixpoint xr_right_up (h : how) (k : nat) (root : nat) (fuel : nat) (s : m_state) (parent : option nat) (next : option nat)
  (full : bool) (cloned : ftree) : option (m_state * ftree) :=
  match fuel with
  | O => Some (s, cloned)
  | S fu =>
    match parent with
    | None => Some (s, cloned)
    | Some p =>
      match xr_right_sibs h k (m_fuel (ms_f s)) s next full [] with
      | None => None
      | Some (s1, cs) =>
        let cloned1 := ft_add_kids cloned cs [] in
        if p =? root then Some (s1, cloned1)
        else
          let next' := m_prev_sibling (ms_f s1) p in
          let gp := m_parent (ms_f s1) p in
          match gp with
          | None => Some (s1, cloned1)
          | Some g => match xr_node h k s1 g false false with
                      | None => None
                      | Some (s2, cg) => xr_right_up h k root fu s2 gp next' true (ft_add_kids cg [] [cloned1])
                      end
          end
      end
    end
  end.
Definition xr_right_boundary (h : how) (k : nat) (s : m_state) (root : nat) : option (m_state * ftree) :=
  let r := rg_of s k in
  let next := xr_selected (ms_f s) (mr_ec r) (if mr_eo r =? 0 then None else Some (mr_eo r - 1)) in
  let full := negb (next =? mr_ec r) in
  if next =? root then xr_node h k s next full false
  else match m_parent (ms_f s) next with
       | None => None
       | Some p => match xr_node h k s p false false with
                   | None => None
                   | Some (s1, cp) => xr_right_up h k root (m_fuel (ms_f s)) s1 (Some p) (Some next) full cp
                   end
       end.

(** the "while (cnt > 0)" loops over fully selected siblings, forwards (append) and backwards (prepend) *)
Fixpoint xr_fwd (h : how) (cnt : nat) (s : m_state) (n : option nat) (acc : list ftree) : option (m_state * list ftree) :=
  match cnt with
  | O => Some (s, acc)
  | S c => match n with
           | None => None                                        (* n->getNextSibling() on null *)
           | Some x => let sib := m_next_sibling (ms_f s) x in
                       match xr_full h s x with
                       | None => None
                       | Some (s', t) => xr_fwd h c s' sib (acc ++ [t])
                       end
           end
  end.
Fixpoint xr_fwd_stop (h : how) (cnt : nat) (s : m_state) (n : option nat) (acc : list ftree) : option (m_state * list ftree) :=
  match cnt with
  | O => Some (s, acc)
  | S c => match n with
           | None => Some (s, acc)
           | Some x => let sib := m_next_sibling (ms_f s) x in
                       match xr_full h s x with
                       | None => None
                       | Some (s', t) => xr_fwd_stop h c s' sib (acc ++ [t])
                       end
           end
  end.
Fixpoint xr_bwd (h : how) (cnt : nat) (s : m_state) (n : option nat) (acc : list ftree) : option (m_state * list ftree) :=
  match cnt with
  | O => Some (s, acc)
  | S c => match n with
           | None => None
           | Some x => let sib := m_prev_sibling (ms_f s) x in
                       match xr_full h s x with
                       | None => None
                       | Some (s', t) => xr_bwd h c s' sib (t :: acc)
                       end
           end
  end.

(** setEndBefore(x); collapse(false)  /  setStartAfter(x); collapse(true)  through the setters of Model14.m_step *)
Definition xr_steps (s : m_state) (l : list op) : m_state :=
  fold_left (fun st o => match m_step st o with Some (_, st') => st' | None => st end) l s.

(** traverseSameContainer *)
Definition xr_same (h : how) (k : nat) (s : m_state) : option (m_state * list ftree) :=
  let f := ms_f s in
  let r := rg_of s k in
  let so := mr_so r in let eo := mr_eo r in let sc := mr_sc r in
  if so =? eo then Some (s, [])
  else
    let res :=
      if m_is_cd f sc then
        let clone := FT None (m_kind f sc) (firstn (eo - so) (skipn so (m_val f sc))) [] in
        Some ((if is_clone h then s else m_del_text s sc so (eo - so)), [clone])
      else
        (* while (cnt > 0 && n): here a null n ends the loop *)
        xr_fwd_stop h (eo - so) s (Some (xr_selected f sc (Some so))) [] in
    match res with
    | None => None
    | Some (s1, fr) => Some ((if is_clone h then s1 else xr_steps s1 [ORColl k true]), fr)
    end.

(** traverseCommonStartContainer(endAncestor) *)
Definition xr_common_start (h : how) (k : nat) (s : m_state) (endAnc : nat) : option (m_state * list ftree) :=
  match xr_right_boundary h k s endAnc with
  | None => None
  | Some (s1, n) =>
    let r := rg_of s1 k in
    let endIdx := m_index_of (ms_f s1) endAnc (mr_sc r) in
    let fin := fun st : m_state => if is_clone h then st else xr_steps st [ORSetEB k endAnc; ORColl k false] in
    if endIdx <=? mr_so r then Some (fin s1, [n])
    else match xr_bwd h (endIdx - mr_so r) s1 (m_prev_sibling (ms_f s1) endAnc) [n] with
         | None => None
         | Some (s2, fr) => Some (fin s2, fr)
         end
  end.
(** traverseCommonEndContainer(startAncestor) *)
Definition xr_common_end (h : how) (k : nat) (s : m_state) (startAnc : nat) : option (m_state * list ftree) :=
  match xr_left_boundary h k s startAnc with
  | None => None
  | Some (s1, n) =>
    let r := rg_of s1 k in
    let startIdx := S (m_index_of (ms_f s1) startAnc (mr_ec r)) in
    match xr_fwd h (mr_eo r - startIdx) s1 (m_next_sibling (ms_f s1) startAnc) [n] with
    | None => None
    | Some (s2, fr) => Some ((if is_clone h then s2 else xr_steps s2 [ORSetSA k startAnc; ORColl k true]), fr)
    end
  end.
(** traverseCommonAncestors(startAncestor, endAncestor) *)
Definition xr_common_anc (h : how) (k : nat) (s : m_state) (startAnc endAnc : nat) : option (m_state * list ftree) :=
  match xr_left_boundary h k s startAnc with
  | None => None
  | Some (s1, n) =>
    match m_parent (ms_f s1) startAnc with
    | None => None
    | Some cp =>
      let so := S (m_index_of (ms_f s1) startAnc cp) in
      let eo := m_index_of (ms_f s1) endAnc cp in
      match xr_fwd h (eo - so) s1 (m_next_sibling (ms_f s1) startAnc) [n] with
      | None => None
      | Some (s2, fr) =>
        match xr_right_boundary h k s2 endAnc with
        | None => None
        | Some (s3, n2) =>
          Some ((if is_clone h then s3 else xr_steps s3 [ORSetSA k startAnc; ORColl k true]), fr ++ [n2])
        end
      end
    end
  end.

(** traverseContents(how): the relationship of the two containers decides *)
Definition xr_traverse (h : how) (k : nat) (s : m_state) : option (m_state * list ftree) :=
  let f := ms_f s in
  let r := rg_of s k in
  let sc := mr_sc r in let ec := mr_ec r in
  if sc =? ec then xr_same h k s
  else
    (* case 2: a child of the start container is an ancestor(-or-self) of the end container *)
    match find (fun c => match m_parent f c with Some p => p =? sc | None => false end) (m_chain f (m_fuel f) (Some ec)) with
    | Some c => xr_common_start h k s c
    | None =>
      match find (fun c => match m_parent f c with Some p => p =? ec | None => false end) (m_chain f (m_fuel f) (Some sc)) with
      | Some c2 => xr_common_end h k s c2
      | None =>
        match strip_common (rev (m_chain f (m_fuel f) (Some sc))) (rev (m_chain f (m_fuel f) (Some ec))) with
        | (a :: _, b :: _) => xr_common_anc h k s a b
        | _ => None
        end
      end
    end.

End Trav.

(* ---------------------------------------------------------------------------------------------------------- *)
(** * insertNode(newNode) *)
(** DOMTextImpl::splitText / DOMCommentImpl::splitText at offset (the same code for both node types) *)
Definition xr_split (s : m_state) (x off : nat) : nat * m_state :=
  let f := ms_f s in
  let nw := ms_next s in
  let v := val_of f x in
  let '(_, s1) := m_new_node s (m_kind f x) (skipn off v) in
  let s2 := match m_parent f x with
            | Some p => m_attach s1 p (m_next_sibling f x) nw
            | None => s1
            end in
  let f3 := f_set_val (ms_f s2) x (firstn off v) in
  (nw, ms_with s2 f3 (ms_changes s2) (ms_its s2) (omap (mr_upd_split (ms_fx s) f3 x nw off) (ms_rgs s2))).

Definition xr_insert_node (s : m_state) (k n : nat) : option (xres * m_state) :=
  let f := ms_f s in
  let r := rg_of s k in
  let sc := mr_sc r in let so := mr_so r in
  let cd := m_is_cd f sc in
  let par := if cd then m_parent f sc else Some sc in
  match par with
  | None => Some (XR RGuard, s)
  | Some p =>
    (* harness guards *)
    if negb (known f n) || (n =? 0) || (n =? 1) || (p =? 0) || (p =? n) then Some (XR RGuard, s)
    (* isAncestorOf(newNode, fStartContainer) *)
    else if m_is_anc f (m_fuel f) n (Some sc) then Some (XR (RErr 3), s)
    else
      let '(created, s1) := if cd && (0 <? so) then (let '(nw, s') := xr_split s sc so in (Some nw, s')) else (None, s) in
      let f1 := ms_f s1 in
      let next := if cd then (if so =? 0 then Some sc else m_next_sibling f1 sc)
                  else nth_error (m_kids f1 sc) so in
      (* parent->insertBefore(newNode, next) / appendChild(newNode) *)
      match m_step s1 (OIns p n next) with
      | None => None
      | Some (ROk, s2) => Some (XRIns created, s2)
      | Some (e, s2) => Some (XR e, s2)
      end
  end.

(* ---------------------------------------------------------------------------------------------------------- *)
(** * the extended interpreter *)
Definition ms_burn (s : m_state) : m_state :=
  {| ms_f := ms_f s; ms_next := S (ms_next s); ms_changes := ms_changes s; ms_its := ms_its s; ms_tws := ms_tws s;
     ms_dls := ms_dls s; ms_rgs := ms_rgs s; ms_tab := ms_tab s; ms_fx := ms_fx s |}.
(** [txt_only] = toString appending Text nodes only (what the specification says); false = the code as it is
    (comments included);  [deld] = traverseTextNode repaired, see above *)
Definition mx_step (txt_only deld : bool) (s : m_state) (o : xop) : option (xres * m_state) :=
  match o with
  | XBase b => match m_step s b with Some (r, s') => Some (XR r, s') | None => None end
  | XStr k =>
    match get_opt (ms_rgs s) k with
    | Some r => Some (XRStr (xr_to_string txt_only (ms_f s) r), s)
    | None => Some (XR RGuard, s)
    end
  | XClone k =>
    match get_opt (ms_rgs s) k with
    | Some _ => match xr_traverse deld HClone k s with Some (s', fr) => Some (XRFrag fr, s') | None => None end
    | None => Some (XR RGuard, s)
    end
  | XDel k =>
    match get_opt (ms_rgs s) k with
    | Some _ => match xr_traverse deld HDelete k s with Some (s', _) => Some (XR ROk, s') | None => None end
    | None => Some (XR RGuard, s)
    end
  | XExt k =>
    match get_opt (ms_rgs s) k with
    | Some _ => match xr_traverse deld HExtract k s with Some (s', fr) => Some (XRFrag fr, s') | None => None end
    | None => Some (XR RGuard, s)
    end
  | XInsN k n =>
    (* the history language gives every insertNode exactly one fresh node id: the split node, or a burnt one *)
    match get_opt (ms_rgs s) k with
    | Some _ => match xr_insert_node s k n with
                | Some (XRIns (Some nw), s') => Some (XRIns (Some nw), s')
                | Some (a, s') => Some (a, ms_burn s')
                | None => None
                end
    | None => Some (XR RGuard, ms_burn s)
    end
  end.

Fixpoint mx_run_from (txt_only deld : bool) (s : m_state) (h : list xop) : list xanswer * bool :=
  match h with
  | [] => ([], false)
  | o :: r => match mx_step txt_only deld s o with
              | None => ([], true)
              | Some (a, s') => let '(l, c) := mx_run_from txt_only deld s' r in
                                ((a, judge (ms_f s') (map (option_map to_range) (ms_rgs s'))) :: l, c)
              end
  end.
Definition mx_run (fx : fixes) (txt_only deld : bool) (tab : list N) (h : list xop) : list xanswer * bool :=
  mx_run_from txt_only deld (m_init fx tab) h.
