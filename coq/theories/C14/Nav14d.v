(** C14 -- isAncestorOf (the parent climb of DOMRangeImpl) decides membership in the subtree, on well-formed forests;
    hence the removal fix-up of ranges is Range 2.12.2 without navigation hypotheses. *)
From Coq Require Import List NArith Arith Bool Lia.
From XV Require Import C14.Spec14 C14.Hist14 C14.Model14 C14.Tree14 C14.Proofs14a C14.Proofs14d C14.Cert14.
Import ListNotations.

Lemma same_id : forall (l : list tree) a b, NoDup (ids l) -> In a l -> In b l -> tid a = tid b -> a = b.
Proof.
  induction l as [|y l IH]; intros a b Hnd Ha Hb E; [destruct Ha|]. cbn in Hnd. inversion Hnd as [|? ? Hn Hnd']; subst.
  destruct Ha as [<-|Ha]; destruct Hb as [<-|Hb]; [reflexivity| | |exact (IH a b Hnd' Ha Hb E)].
  - exfalso. apply Hn. rewrite E. apply in_ids. exact Hb.
  - exfalso. apply Hn. rewrite <- E. apply in_ids. exact Ha.
Qed.

Section Anc.
  Variable f : forest.
  Hypothesis Hwf : wf_forest f.

  Lemma anc_mono : forall F a n, m_is_anc f F a n = true -> m_is_anc f (S F) a n = true.
  Proof.
    induction F as [|F IH]; intros a n H; [discriminate|]. cbn [m_is_anc] in *. destruct n as [c|]; [|discriminate].
    destruct (c =? a); [reflexivity|]. apply IH. exact H.
  Qed.
  Lemma anc_mono_le : forall F G a n, F <= G -> m_is_anc f F a n = true -> m_is_anc f G a n = true.
  Proof. intros F G a n Hle H. induction Hle; [exact H|apply anc_mono; exact IHHle]. Qed.

  Lemma parent_of_node : forall c q, In c (fnodes f) -> m_parent f (tid c) = Some q ->
    exists p, In p (fnodes f) /\ In c (tkids p) /\ tid p = q.
  Proof.
    intros c q Hc H. unfold m_parent in H. destruct (find_parent f (tid c)) as [p|] eqn:E; [|discriminate].
    injection H as <-. unfold find_parent in E. apply find_some in E. destruct E as [Hp Hk].
    apply has_kid_spec in Hk. destruct Hk as [c' [Hc' Ec]].
    assert (c' = c) by (apply (same_id (fnodes f)); [exact Hwf|exact (kids_in_dnodes f p c' Hp Hc')|exact Hc|exact Ec]).
    subst c'. exists p. repeat split; assumption.
  Qed.

  Lemma anc_sound : forall F X c, In X (fnodes f) -> In c (fnodes f) ->
    m_is_anc f F (tid X) (Some (tid c)) = true -> In c (docorder X).
  Proof.
    induction F as [|F IH]; intros X c HX Hc H; [discriminate|]. cbn [m_is_anc] in H.
    destruct (Nat.eqb_spec (tid c) (tid X)) as [E|E].
    - rewrite (same_id (fnodes f) c X Hwf Hc HX E). apply head_in.
    - destruct (m_parent f (tid c)) as [q|] eqn:Ep; [|destruct F; discriminate].
      destruct (parent_of_node c q Hc Ep) as [p [Hp [Hcp <-]]].
      pose proof (IH X p HX Hp H) as Hin. rewrite docorder_eq. right. exact (kids_proper X p c Hin Hcp).
  Qed.

  Lemma anc_complete_gen : forall X, In X (fnodes f) -> forall c, In c (docorder X) ->
    forall a F G, length (docorder X) <= F -> m_is_anc f G a (Some (tid X)) = true ->
    m_is_anc f (F + G) a (Some (tid c)) = true.
  Proof.
    intros X. induction X as [i k v ks IH] using tree_ind2. intros HX c Hc a F G HF HG.
    rewrite docorder_eq in Hc. destruct Hc as [<-|Hc].
    - apply (anc_mono_le G); [lia|exact HG].
    - cbn [tkids] in Hc. unfold dnodes in Hc. apply in_flat_map in Hc. destruct Hc as [k0 [Hk0 Hc]].
      rewrite Forall_forall in IH.
      assert (Hk0f : In k0 (fnodes f)) by (exact (kids_in_dnodes f (Node i k v ks) k0 HX Hk0)).
      assert (Hstep : m_is_anc f (S G) a (Some (tid k0)) = true).
      { cbn [m_is_anc]. destruct (tid k0 =? a); [reflexivity|].
        rewrite (m_parent_wf f (Node i k v ks) k0 Hwf HX Hk0). exact HG. }
      assert (Hlen : length (docorder k0) < length (docorder (Node i k v ks))).
      { rewrite (docorder_eq (Node i k v ks)). cbn [length tkids].
        assert (length (docorder k0) <= length (dnodes ks)); [|lia].
        clear -Hk0. induction ks as [|y r IHr]; [destruct Hk0|]. rewrite dnodes_cons, app_length.
        destruct Hk0 as [->|Hk0]; [lia|]. pose proof (IHr Hk0). lia. }
      pose proof (IH k0 Hk0 Hk0f c Hc a (length (docorder k0)) (S G) (le_n _) Hstep) as H1.
      apply (anc_mono_le (length (docorder k0) + S G)); [lia|exact H1].
  Qed.

  Theorem is_anc_wf : forall x X c, find_node f x = Some X -> In c (ids (fnodes f)) ->
    m_is_anc f (m_fuel f) x (Some c) = memb c (sub_ids f x).
  Proof.
    intros x X c HX Hc. destruct (find_node_in f x X HX) as [HXf HtX].
    unfold ids in Hc. apply in_map_iff in Hc. destruct Hc as [cn [Ec Hcn]]. subst c.
    unfold sub_ids. rewrite HX.
    destruct (memb (tid cn) (ids (docorder X))) eqn:Em.
    - apply memb_In in Em. unfold ids in Em. apply in_map_iff in Em. destruct Em as [c' [Ec' Hc']].
      assert (c' = cn) by (apply (same_id (fnodes f)); [exact Hwf|exact (sub_in_dnodes f X c' HXf Hc')|exact Hcn|exact Ec']).
      subst c'. rewrite <- HtX.
      pose proof (anc_complete_gen X HXf cn Hc' (tid X) (length (docorder X)) 1 (le_n _)) as H1.
      assert (H0 : m_is_anc f 1 (tid X) (Some (tid X)) = true) by (cbn; rewrite Nat.eqb_refl; reflexivity).
      apply (anc_mono_le (length (docorder X) + 1)); [|exact (H1 H0)].
      pose proof (len_sub f X HXf) as Hl. unfold m_fuel, fnodes. unfold dnodes in Hl. lia.
    - destruct (m_is_anc f (m_fuel f) x (Some (tid cn))) eqn:Ea; [|reflexivity].
      exfalso. rewrite <- HtX in Ea. pose proof (anc_sound _ X cn HXf Hcn Ea) as Hin.
      assert (memb (tid cn) (ids (docorder X)) = true) by (apply memb_In; apply in_ids; exact Hin).
      rewrite H in Em. discriminate.
  Qed.

  (** T14_range_moves, removal rule, without navigation hypotheses *)
  Theorem del_node_unconditional : forall x X p r, find_node f x = Some X -> m_parent f x = Some p ->
    In (mr_sc r) (ids (fnodes f)) -> In (mr_ec r) (ids (fnodes f)) ->
    to_range (mr_upd_del_node f x r) = r_map (bp_del_node p (m_index_of f x p) (sub_ids f x)) (to_range r).
  Proof.
    intros x X p r HX Hp Hs He. apply anc_cert_sound; [|exact Hp|].
    - unfold anc_cert. rewrite Hp. apply andb_true_intro. split.
      + apply forallb_forall. intros c Hc. rewrite (is_anc_wf x X c HX Hc). apply Bool.eqb_reflx.
      + (* the parent is not inside the subtree *)
        destruct (find_node_in f x X HX) as [HXf HtX]. rewrite <- HtX in Hp.
        destruct (parent_of_node X p HXf Hp) as [P [HP [HXP <-]]].
        apply negb_true_iff. destruct (memb (tid P) (sub_ids f x)) eqn:Em; [|reflexivity]. exfalso.
        unfold sub_ids in Em. rewrite HX in Em. apply memb_In in Em. unfold ids in Em. apply in_map_iff in Em.
        destruct Em as [P' [EP' HP']].
        assert (P' = P) by (apply (same_id (fnodes f)); [exact Hwf|exact (sub_in_dnodes f X P' HXf HP')|exact HP|exact EP']).
        subst P'. (* P in docorder X and X a child of P: the subtree of X would contain itself properly *)
        pose proof (len_sub [X] P) as L1. unfold dnodes in L1. cbn in L1. rewrite app_nil_r in L1. specialize (L1 HP').
        assert (L2 : length (docorder X) < length (docorder P)).
        { rewrite (docorder_eq P). cbn [length].
          assert (length (docorder X) <= length (dnodes (tkids P))); [|lia].
          clear -HXP. induction (tkids P) as [|y r0 IHr]; [destruct HXP|]. rewrite dnodes_cons, app_length.
          destruct HXP as [->|HXP]; [lia|]. pose proof (IHr HXP). lia. }
        lia.
    - intros c [<-|[<-|[]]]; assumption.
  Qed.
End Anc.
