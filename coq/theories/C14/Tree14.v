(** C14 -- well-formed rose trees (unique node ids): the pointer structure read off the tree by Model14
    (find_node / find_parent / kids / next sibling) is what the tree's shape says. *)
From Coq Require Import List NArith Arith Bool Lia.
From XV Require Import C14.Spec14 C14.Hist14 C14.Model14.
Import ListNotations.

Section TreeInd.
  Variable P : tree -> Prop.
  Hypothesis H : forall i k v ks, Forall P ks -> P (Node i k v ks).
  Fixpoint tree_ind2 (t : tree) : P t :=
    match t with
    | Node i k v ks =>
      H i k v ks ((fix go (l : list tree) : Forall P l :=
                     match l with [] => Forall_nil P | c :: r => Forall_cons c (tree_ind2 c) (go r) end) ks)
    end.
End TreeInd.

Definition dnodes (l : list tree) : list tree := flat_map docorder l.
Definition wf_forest (f : forest) : Prop := NoDup (ids (fnodes f)).

Lemma docorder_eq : forall t, docorder t = t :: dnodes (tkids t).
Proof. intros [i k v ks]. reflexivity. Qed.
Lemma dnodes_cons : forall k r, dnodes (k :: r) = docorder k ++ dnodes r.
Proof. reflexivity. Qed.
Lemma ids_app : forall a b, ids (a ++ b) = ids a ++ ids b.
Proof. intros. unfold ids. apply map_app. Qed.
Lemma in_ids : forall x l, In x l -> In (tid x) (ids l).
Proof. intros. unfold ids. apply in_map. assumption. Qed.
Lemma head_in : forall t, In t (docorder t).
Proof. intros t. rewrite docorder_eq. left. reflexivity. Qed.
Lemma top_in_dnodes : forall l t, In t l -> In t (dnodes l).
Proof. intros l t H. unfold dnodes. apply in_flat_map. exists t. split; [exact H|apply head_in]. Qed.

Lemma NoDup_app_disj : forall {A} (a b : list A) x, NoDup (a ++ b) -> In x a -> In x b -> False.
Proof.
  induction a as [|y a IH]; intros b x Hnd Ha Hb; [destruct Ha|].
  cbn in Hnd. inversion Hnd as [|? ? Hn Hnd']; subst. destruct Ha as [->|Ha].
  - apply Hn. apply in_or_app. right. exact Hb.
  - exact (IH b x Hnd' Ha Hb).
Qed.

Lemma NoDup_app_remove_r : forall {A} (a b : list A), NoDup (a ++ b) -> NoDup a.
Proof.
  induction a as [|y a IH]; intros b H; [constructor|]. cbn in H. inversion H as [|? ? Hn H']; subst.
  constructor; [intros Hin; apply Hn; apply in_or_app; left; exact Hin|exact (IH b H')].
Qed.
Lemma NoDup_app_remove_l : forall {A} (a b : list A), NoDup (a ++ b) -> NoDup b.
Proof. induction a as [|y a IH]; intros b H; [exact H|]. cbn in H. inversion H; subst. apply IH. assumption. Qed.

(** children of nodes of a tree are proper descendants of the tree *)
Lemma kids_proper : forall t p c, In p (docorder t) -> In c (tkids p) -> In c (dnodes (tkids t)).
Proof.
  intros t. induction t as [i k v ks IH] using tree_ind2. intros p c Hp Hc.
  rewrite docorder_eq in Hp. cbn [tkids] in *. destruct Hp as [<-|Hp].
  - cbn [tkids] in Hc. apply top_in_dnodes. exact Hc.
  - unfold dnodes in Hp. apply in_flat_map in Hp. destruct Hp as [k0 [Hk0 Hp]].
    rewrite Forall_forall in IH. pose proof (IH k0 Hk0 p c Hp Hc) as Hin.
    unfold dnodes. apply in_flat_map. exists k0. split; [exact Hk0|]. rewrite docorder_eq. right. exact Hin.
Qed.
Lemma kids_in_dnodes : forall l p c, In p (dnodes l) -> In c (tkids p) -> In c (dnodes l).
Proof.
  intros l p c Hp Hc. unfold dnodes in Hp. apply in_flat_map in Hp. destruct Hp as [t [Ht Hp]].
  unfold dnodes. apply in_flat_map. exists t. split; [exact Ht|]. rewrite docorder_eq. right.
  exact (kids_proper t p c Hp Hc).
Qed.
Lemma sub_in_dnodes : forall l p x, In p (dnodes l) -> In x (docorder p) -> In x (dnodes l).
Proof.
  intros l p x Hp Hx.
  assert (G : forall t, In p (docorder t) -> In x (docorder t)).
  { intros t. induction t as [i k v ks IH] using tree_ind2. intros Hpt.
    rewrite docorder_eq in Hpt. destruct Hpt as [<-|Hpt]; [exact Hx|].
    rewrite docorder_eq. right. cbn [tkids] in *. unfold dnodes in *. apply in_flat_map in Hpt.
    destruct Hpt as [k0 [Hk0 Hp0]]. apply in_flat_map. exists k0. split; [exact Hk0|].
    rewrite Forall_forall in IH. exact (IH k0 Hk0 Hp0). }
  unfold dnodes in Hp. apply in_flat_map in Hp. destruct Hp as [t [Ht Hpt]].
  unfold dnodes. apply in_flat_map. exists t. split; [exact Ht|exact (G t Hpt)].
Qed.

Lemma nodup_sub_list : forall l k, NoDup (ids (dnodes l)) -> In k l -> NoDup (ids (docorder k)).
Proof.
  induction l as [|k0 r IH]; intros k Hnd Hk; [destruct Hk|].
  rewrite dnodes_cons, ids_app in Hnd. destruct Hk as [<-|Hk].
  - exact (NoDup_app_remove_r _ _ Hnd).
  - apply IH; [exact (NoDup_app_remove_l _ _ Hnd)|exact Hk].
Qed.
Lemma nodup_kids : forall t, NoDup (ids (docorder t)) -> NoDup (ids (dnodes (tkids t))).
Proof. intros t H. rewrite docorder_eq in H. cbn in H. inversion H; assumption. Qed.
Lemma nodup_sub : forall l x, NoDup (ids (dnodes l)) -> In x (dnodes l) -> NoDup (ids (docorder x)).
Proof.
  assert (G : forall t x, NoDup (ids (docorder t)) -> In x (docorder t) -> NoDup (ids (docorder x))).
  { intros t. induction t as [i k v ks IH] using tree_ind2. intros x Hnd Hx.
    rewrite docorder_eq in Hx. destruct Hx as [<-|Hx]; [exact Hnd|].
    cbn [tkids] in Hx. pose proof (nodup_kids _ Hnd) as Hk. cbn [tkids] in Hk.
    unfold dnodes in Hx. apply in_flat_map in Hx. destruct Hx as [k0 [Hk0 Hx]].
    rewrite Forall_forall in IH. apply (IH k0 Hk0 x); [exact (nodup_sub_list ks k0 Hk Hk0)|exact Hx]. }
  intros l x Hnd Hx. unfold dnodes in Hx. apply in_flat_map in Hx. destruct Hx as [t [Ht Hx]].
  exact (G t x (nodup_sub_list l t Hnd Ht) Hx).
Qed.
Lemma self_not_proper : forall t c, NoDup (ids (docorder t)) -> In c (dnodes (tkids t)) -> tid c <> tid t.
Proof.
  intros t c Hnd Hc E. rewrite docorder_eq in Hnd. cbn in Hnd. inversion Hnd as [|? ? Hn _]; subst.
  apply Hn. rewrite <- E. apply in_ids. exact Hc.
Qed.

(** a node of the forest is not the child of anybody if it is a top, and has exactly one parent otherwise *)
Lemma top_no_parent : forall l, NoDup (ids (dnodes l)) -> forall T q c', In T l -> In q (dnodes l) -> In c' (tkids q) ->
  tid c' <> tid T.
Proof.
  induction l as [|k r IH]; intros Hnd T q c' HT Hq Hc'; [destruct HT|].
  rewrite dnodes_cons in Hq. pose proof Hnd as Hnd0. rewrite dnodes_cons, ids_app in Hnd.
  apply in_app_or in Hq. destruct HT as [<-|HT]; destruct Hq as [Hq|Hq].
  - apply self_not_proper; [exact (NoDup_app_remove_r _ _ Hnd)|exact (kids_proper k q c' Hq Hc')].
  - intros E. apply (NoDup_app_disj _ _ (tid k) Hnd); [apply in_ids; apply head_in|].
    rewrite <- E. apply in_ids. exact (kids_in_dnodes r q c' Hq Hc').
  - intros E. apply (NoDup_app_disj _ _ (tid T) Hnd); [|apply in_ids; apply top_in_dnodes; exact HT].
    rewrite <- E. apply in_ids. rewrite docorder_eq. right. exact (kids_proper k q c' Hq Hc').
  - exact (IH (NoDup_app_remove_l _ _ Hnd) T q c' HT Hq Hc').
Qed.

Definition one_parent (l : list tree) : Prop :=
  NoDup (ids (dnodes l)) -> forall p q c c', In p (dnodes l) -> In q (dnodes l) -> In c (tkids p) -> In c' (tkids q) ->
  tid c = tid c' -> p = q.
Lemma one_parent_tree : forall t, one_parent [t].
Proof.
  assert (L : forall l, Forall (fun t => one_parent [t]) l -> one_parent l).
  { induction l as [|k r IH]; intros HF Hnd p q c c' Hp Hq Hc Hc' E; [destruct Hp|].
    inversion HF as [|? ? Hk Hr]; subst. pose proof Hnd as Hnd0. rewrite dnodes_cons, ids_app in Hnd.
    rewrite dnodes_cons in Hp, Hq. apply in_app_or in Hp. apply in_app_or in Hq.
    assert (Hk1 : dnodes [k] = docorder k) by (unfold dnodes; cbn; apply app_nil_r).
    destruct Hp as [Hp|Hp]; destruct Hq as [Hq|Hq].
    - apply (Hk ltac:(rewrite Hk1; exact (NoDup_app_remove_r _ _ Hnd)) p q c c'); try rewrite Hk1; assumption.
    - exfalso. apply (NoDup_app_disj _ _ (tid c) Hnd).
      + apply in_ids. rewrite docorder_eq. right. exact (kids_proper k p c Hp Hc).
      + rewrite E. apply in_ids. exact (kids_in_dnodes r q c' Hq Hc').
    - exfalso. apply (NoDup_app_disj _ _ (tid c') Hnd).
      + apply in_ids. rewrite docorder_eq. right. exact (kids_proper k q c' Hq Hc').
      + rewrite <- E. apply in_ids. exact (kids_in_dnodes r p c Hp Hc).
    - exact (IH Hr (NoDup_app_remove_l _ _ Hnd) p q c c' Hp Hq Hc Hc' E). }
  intros t. induction t as [i k v ks IH] using tree_ind2.
  intros Hnd p q c c' Hp Hq Hc Hc' E.
  assert (H1 : dnodes [Node i k v ks] = Node i k v ks :: dnodes ks) by (unfold dnodes; cbn; rewrite app_nil_r; reflexivity).
  rewrite H1 in *. cbn in Hnd. inversion Hnd as [|? ? Hni Hndk]; subst.
  destruct Hp as [<-|Hp]; destruct Hq as [<-|Hq].
  - reflexivity.
  - exfalso. cbn [tkids] in Hc. apply (top_no_parent ks Hndk c q c' Hc Hq Hc'). symmetry. exact E.
  - exfalso. cbn [tkids] in Hc'. apply (top_no_parent ks Hndk c' p c Hc' Hp Hc). exact E.
  - exact (L ks IH Hndk p q c c' Hp Hq Hc Hc' E).
Qed.
Lemma one_parent_forest : forall l, one_parent l.
Proof.
  induction l as [|k r IH]; intros Hnd p q c c' Hp Hq Hc Hc' E; [destruct Hp|].
  pose proof Hnd as Hnd0. rewrite dnodes_cons, ids_app in Hnd.
  rewrite dnodes_cons in Hp, Hq. apply in_app_or in Hp. apply in_app_or in Hq.
  assert (Hk1 : dnodes [k] = docorder k) by (unfold dnodes; cbn; apply app_nil_r).
  destruct Hp as [Hp|Hp]; destruct Hq as [Hq|Hq].
  - apply (one_parent_tree k ltac:(rewrite Hk1; exact (NoDup_app_remove_r _ _ Hnd)) p q c c'); try rewrite Hk1; assumption.
  - exfalso. apply (NoDup_app_disj _ _ (tid c) Hnd).
    + apply in_ids. rewrite docorder_eq. right. exact (kids_proper k p c Hp Hc).
    + rewrite E. apply in_ids. exact (kids_in_dnodes r q c' Hq Hc').
  - exfalso. apply (NoDup_app_disj _ _ (tid c') Hnd).
    + apply in_ids. rewrite docorder_eq. right. exact (kids_proper k q c' Hq Hc').
    + rewrite <- E. apply in_ids. exact (kids_in_dnodes r p c Hp Hc).
  - exact (IH (NoDup_app_remove_l _ _ Hnd) p q c c' Hp Hq Hc Hc' E).
Qed.

(* ---------------------------------------------------------------------------------------------------------- *)
(** * lookups *)
Lemma find_by_id : forall l s, NoDup (ids l) -> In s l -> find (fun x => tid x =? tid s) l = Some s.
Proof.
  induction l as [|y r IH]; intros s Hnd Hs; [destruct Hs|]. cbn in Hnd. inversion Hnd as [|? ? Hn Hnd']; subst.
  cbn. destruct Hs as [->|Hs]; [rewrite Nat.eqb_refl; reflexivity|].
  destruct (Nat.eqb_spec (tid y) (tid s)) as [E|E]; [exfalso; apply Hn; rewrite E; apply in_ids; exact Hs|].
  exact (IH s Hnd' Hs).
Qed.
Lemma find_node_wf : forall f s, wf_forest f -> In s (fnodes f) -> find_node f (tid s) = Some s.
Proof. intros f s H Hs. unfold find_node. apply find_by_id; assumption. Qed.
Lemma find_node_in : forall f i s, find_node f i = Some s -> In s (fnodes f) /\ tid s = i.
Proof. intros f i s H. unfold find_node in H. apply find_some in H. destruct H as [H1 H2]. apply Nat.eqb_eq in H2. split; assumption. Qed.

Lemma find_first_unique : forall {A} (g : A -> bool) l p, In p l -> g p = true ->
  (forall q, In q l -> g q = true -> q = p) -> find g l = Some p.
Proof.
  intros A g. induction l as [|y r IH]; intros p Hp Hg Hu; [destruct Hp|]. cbn.
  destruct (g y) eqn:Ey; [f_equal; apply Hu; [left; reflexivity|exact Ey]|].
  destruct Hp as [->|Hp]; [rewrite Hg in Ey; discriminate|].
  apply IH; [exact Hp|exact Hg|]. intros q Hq. apply Hu. right. exact Hq.
Qed.
Lemma has_kid_spec : forall i s, has_kid i s = true <-> exists c, In c (tkids s) /\ tid c = i.
Proof.
  intros i s. unfold has_kid. rewrite existsb_exists. split; intros [c [H1 H2]]; exists c; split; try assumption.
  - apply Nat.eqb_eq. exact H2.
  - apply Nat.eqb_eq. exact H2.
Qed.
Lemma find_parent_wf : forall f p c, wf_forest f -> In p (fnodes f) -> In c (tkids p) -> find_parent f (tid c) = Some p.
Proof.
  intros f p c Hwf Hp Hc. unfold find_parent. apply find_first_unique; [exact Hp|apply has_kid_spec; exists c; split; [exact Hc|reflexivity]|].
  intros q Hq Hk. apply has_kid_spec in Hk. destruct Hk as [c' [Hc' E]].
  exact (one_parent_forest f Hwf q p c' c Hq Hp Hc' Hc E).
Qed.
Lemma find_parent_top : forall f T, wf_forest f -> In T f -> find_parent f (tid T) = None.
Proof.
  intros f T Hwf HT. unfold find_parent. destruct (find (has_kid (tid T)) (fnodes f)) as [q|] eqn:E; [|reflexivity].
  apply find_some in E. destruct E as [Hq Hk]. apply has_kid_spec in Hk. destruct Hk as [c' [Hc' E]].
  exfalso. exact (top_no_parent f Hwf T q c' HT Hq Hc' E).
Qed.

Lemma m_kids_wf : forall f p, wf_forest f -> In p (fnodes f) -> m_kids f (tid p) = ids (tkids p).
Proof. intros f p H Hp. unfold m_kids. rewrite (find_node_wf f p H Hp). reflexivity. Qed.
Lemma m_parent_wf : forall f p c, wf_forest f -> In p (fnodes f) -> In c (tkids p) -> m_parent f (tid c) = Some (tid p).
Proof. intros f p c H Hp Hc. unfold m_parent. rewrite (find_parent_wf f p c H Hp Hc). reflexivity. Qed.

Lemma after_in_split : forall l1 x l2, ~ In x l1 -> after_in x (l1 ++ x :: l2) = hd_error l2.
Proof.
  induction l1 as [|y l1 IH]; intros x l2 Hn; cbn.
  - rewrite Nat.eqb_refl. reflexivity.
  - destruct (Nat.eqb_spec y x) as [E|E]; [exfalso; apply Hn; left; exact E|]. apply IH. intros H. apply Hn. right. exact H.
Qed.
Lemma kids_ids_nodup : forall f p, wf_forest f -> In p (fnodes f) -> NoDup (ids (tkids p)).
Proof.
  intros f p H Hp. pose proof (nodup_kids p (nodup_sub f p H Hp)) as Hk.
  revert Hk. generalize (tkids p). induction l as [|k r IH]; intros Hk; [constructor|].
  rewrite dnodes_cons, ids_app in Hk. cbn. constructor.
  - intros Hin. unfold ids in Hin. apply in_map_iff in Hin. destruct Hin as [k' [E Hk']].
    apply (NoDup_app_disj _ _ (tid k) Hk); [apply in_ids; apply head_in|]. rewrite <- E. apply in_ids. apply top_in_dnodes. exact Hk'.
  - apply IH. exact (NoDup_app_remove_l _ _ Hk).
Qed.
Lemma m_next_sibling_wf : forall f p pre c r, wf_forest f -> In p (fnodes f) -> tkids p = pre ++ c :: r ->
  m_next_sibling f (tid c) = hd_error (ids r).
Proof.
  intros f p pre c r H Hp E. unfold m_next_sibling.
  assert (Hc : In c (tkids p)) by (rewrite E; apply in_or_app; right; left; reflexivity).
  rewrite (m_parent_wf f p c H Hp Hc). rewrite (m_kids_wf f p H Hp). rewrite E, ids_app. cbn [ids map].
  apply after_in_split. pose proof (kids_ids_nodup f p H Hp) as Hnd. rewrite E, ids_app in Hnd. cbn [ids map] in Hnd.
  intros Hin. apply (NoDup_app_disj _ _ (tid c) Hnd Hin). left. reflexivity.
Qed.

(** sizes *)
Lemma len_sub : forall l x, In x (dnodes l) -> length (docorder x) <= length (dnodes l).
Proof.
  assert (G : forall t x, In x (docorder t) -> length (docorder x) <= length (docorder t)).
  { intros t. induction t as [i k v ks IH] using tree_ind2. intros x Hx.
    rewrite docorder_eq in Hx. destruct Hx as [<-|Hx]; [lia|].
    rewrite (docorder_eq (Node i k v ks)). cbn [tkids length] in *.
    unfold dnodes in Hx. apply in_flat_map in Hx. destruct Hx as [k0 [Hk0 Hx]].
    rewrite Forall_forall in IH. pose proof (IH k0 Hk0 x Hx) as H1.
    assert (H2 : length (docorder k0) <= length (dnodes ks)).
    { clear -Hk0. induction ks as [|y r IHr]; [destruct Hk0|]. rewrite dnodes_cons, app_length.
      destruct Hk0 as [->|Hk0]; [lia|]. pose proof (IHr Hk0). lia. }
    lia. }
  intros l x Hx. unfold dnodes in Hx. apply in_flat_map in Hx. destruct Hx as [t [Ht Hx]].
  pose proof (G t x Hx) as H1.
  assert (H2 : length (docorder t) <= length (dnodes l)).
  { clear -Ht. induction l as [|y r IHr]; [destruct Ht|]. rewrite dnodes_cons, app_length.
    destruct Ht as [->|Ht]; [lia|]. pose proof (IHr Ht). lia. }
  lia.
Qed.
