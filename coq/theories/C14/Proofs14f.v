(** C14 -- DOMNodeIDMap: the probe loops terminate.  The probe sequence of a key is pos j = ((j+1) * h0) mod size with
    0 < h0 < size; for a prime size it visits every slot within [size] steps (h0 is invertible modulo the size), so a loop
    that stops at an empty slot ends as soon as the table has one.  The sizes of gPrimes (Gen/GenC14IdMap.v) are prime
    (verified trial division). *)
From Coq Require Import List NArith ZArith Znumtheory Arith Bool Lia.
From XV Require Import Gen.GenC14IdMap C14.Spec14 C14.Hist14 C14.IdMap14 C14.Proofs14e.
Import ListNotations.
Local Open Scope nat_scope.

(* ---- the probe sequence in closed form ---- *)
Lemma step_mod : forall size h0 cur, 0 < size -> step size h0 cur = (cur + h0) mod size \/ (cur + h0 < size /\ step size h0 cur = cur + h0).
Proof.
  intros size h0 cur Hs. unfold step. destruct (Nat.leb_spec size (cur + h0)); [left; reflexivity|right; split; [lia|reflexivity]].
Qed.
Lemma step_is_mod : forall size h0 cur, 0 < size -> step size h0 cur = (cur + h0) mod size.
Proof.
  intros size h0 cur Hs. destruct (step_mod size h0 cur Hs) as [H|[H1 H2]]; [exact H|]. rewrite H2. symmetry. apply Nat.mod_small. exact H1.
Qed.
Lemma pos_formula : forall size h0 j, 0 < size -> h0 < size -> pos size h0 j = (S j * h0) mod size.
Proof.
  intros size h0 j Hs Hh. induction j as [|j IH].
  - cbn [pos]. rewrite Nat.mul_1_l. symmetry. apply Nat.mod_small. exact Hh.
  - cbn [pos]. rewrite step_is_mod by exact Hs. rewrite IH. rewrite Nat.add_mod_idemp_l by lia.
    f_equal. lia.
Qed.

(* ---- every slot is visited: h0 is invertible modulo a prime ---- *)
Local Open Scope Z_scope.
Lemma inv_mod_prime : forall p h, prime p -> 0 < h < p -> exists u, 0 <= u < p /\ (u * h) mod p = 1.
Proof.
  intros p h Hp Hh. assert (Hp1 : 1 < p) by (destruct Hp; assumption).
  assert (Hrel : rel_prime h p).
  { apply rel_prime_sym. apply prime_rel_prime; [exact Hp|]. intros Hd. apply Z.divide_pos_le in Hd; lia. }
  destruct (rel_prime_bezout _ _ Hrel) as [u v Huv].
  exists (u mod p). split; [apply Z.mod_pos_bound; lia|].
  rewrite Z.mul_mod_idemp_l by lia.
  replace (u * h) with (1 + (- v) * p) by lia. rewrite Z_mod_plus_full. apply Z.mod_small. lia.
Qed.
Lemma visits_all_Z : forall p h k, prime p -> 0 < h < p -> 0 <= k < p -> exists t, 1 <= t <= p /\ (t * h) mod p = k.
Proof.
  intros p h k Hp Hh Hk. assert (Hp1 : 1 < p) by (destruct Hp; assumption).
  destruct (inv_mod_prime p h Hp Hh) as [u [Hu Hinv]].
  set (t0 := (u * k) mod p).
  assert (Ht0 : 0 <= t0 < p) by (apply Z.mod_pos_bound; lia).
  assert (E : (t0 * h) mod p = k).
  { unfold t0. rewrite Z.mul_mod_idemp_l by lia. replace (u * k * h) with (k * (u * h)) by ring.
    rewrite <- Z.mul_mod_idemp_r by lia. rewrite Hinv. rewrite Z.mul_1_r. apply Z.mod_small. exact Hk. }
  destruct (Z.eq_dec t0 0) as [E0|E0].
  - exists p. split; [lia|]. rewrite E0, Z.mul_0_l, Z.mod_0_l in E by lia. subst k. rewrite Z.mul_comm. apply Z_mod_mult.
  - exists t0. split; [lia|exact E].
Qed.
Local Close Scope Z_scope.
Local Open Scope nat_scope.

Lemma visits_all : forall size h0 k, prime (Z.of_nat size) -> 0 < h0 -> h0 < size -> k < size ->
  exists j, j < size /\ pos size h0 j = k.
Proof.
  intros size h0 k Hp Hh0 Hh Hk.
  destruct (visits_all_Z (Z.of_nat size) (Z.of_nat h0) (Z.of_nat k) Hp ltac:(lia) ltac:(lia)) as [t [Ht E]].
  exists (Z.to_nat t - 1). split; [lia|]. rewrite pos_formula by lia.
  replace (S (Z.to_nat t - 1)) with (Z.to_nat t) by lia.
  apply Nat2Z.inj. rewrite Nat2Z.inj_mod, Nat2Z.inj_mul. rewrite Z2Nat.id by lia. exact E.
Qed.

(* ---- the loops end ---- *)
Section Loops.
  Variable val : nat -> list N.

  Lemma probe_val_ends : forall t size h0 v fuel i,
    (exists j, i <= j /\ j < i + fuel /\ slot_at t (pos size h0 j) = SEmpty) ->
    probe_val val t size h0 v fuel (pos size h0 i) <> Hang.
  Proof.
    intros t size h0 v. induction fuel as [|fu IH]; intros i [j [H1 [H2 H3]]]; [lia|]. cbn [probe_val].
    destruct (Nat.eq_dec i j) as [->|Hn]; [rewrite H3; discriminate|].
    assert (Hex : exists j', S i <= j' /\ j' < S i + fu /\ slot_at t (pos size h0 j') = SEmpty) by (exists j; repeat split; [lia|lia|exact H3]).
    destruct (slot_at t (pos size h0 i)) as [| |e']; [discriminate|rewrite <- pos_shift; exact (IH (S i) Hex)|].
    destruct (list_eqb (val e') v); [discriminate|rewrite <- pos_shift; exact (IH (S i) Hex)].
  Qed.
  Lemma probe_attr_ends : forall t size h0 e fuel i,
    (exists j, i <= j /\ j < i + fuel /\ slot_at t (pos size h0 j) = SEmpty) ->
    probe_attr t size h0 e fuel (pos size h0 i) <> Hang.
  Proof.
    intros t size h0 e. induction fuel as [|fu IH]; intros i [j [H1 [H2 H3]]]; [lia|]. cbn [probe_attr].
    destruct (Nat.eq_dec i j) as [->|Hn]; [rewrite H3; discriminate|].
    assert (Hex : exists j', S i <= j' /\ j' < S i + fu /\ slot_at t (pos size h0 j') = SEmpty) by (exists j; repeat split; [lia|lia|exact H3]).
    destruct (slot_at t (pos size h0 i)) as [| |e']; [discriminate|rewrite <- pos_shift; exact (IH (S i) Hex)|].
    destruct (e' =? e); [discriminate|rewrite <- pos_shift; exact (IH (S i) Hex)].
  Qed.
  Lemma probe_free_ends : forall t size h0 fuel i,
    (exists j, i <= j /\ j < i + fuel /\ slot_at t (pos size h0 j) = SEmpty) ->
    probe_free t size h0 fuel (pos size h0 i) <> None.
  Proof.
    intros t size h0. induction fuel as [|fu IH]; intros i [j [H1 [H2 H3]]]; [lia|]. cbn [probe_free].
    destruct (Nat.eq_dec i j) as [->|Hn]; [rewrite H3; discriminate|].
    assert (Hex : exists j', S i <= j' /\ j' < S i + fu /\ slot_at t (pos size h0 j') = SEmpty) by (exists j; repeat split; [lia|lia|exact H3]).
    destruct (slot_at t (pos size h0 i)) as [| |e']; [discriminate|discriminate|rewrite <- pos_shift; exact (IH (S i) Hex)].
  Qed.

  Definition has_empty (m : idmap) : Prop := exists k, k < im_size m /\ slot_at (im_tab m) k = SEmpty.

  Lemma reach_empty : forall m v, 2 <= im_size m -> prime (Z.of_nat (im_size m)) -> has_empty m ->
    exists j, 0 <= j /\ j < 0 + im_size m /\ slot_at (im_tab m) (pos (im_size m) (h0_of (im_size m) v) j) = SEmpty.
  Proof.
    intros m v Hs Hp [k [Hk He]].
    destruct (visits_all (im_size m) (h0_of (im_size m) v) k Hp) as [j [Hj Hpj]];
      [unfold h0_of; lia|apply h0_lt; exact Hs|exact Hk|].
    exists j. split; [lia|]. split; [lia|]. rewrite Hpj. exact He.
  Qed.

  (** T14_idmap, termination: in a table of prime size with at least one empty slot neither find nor remove nor the slot
      search of add can loop forever *)
  Theorem find_terminates : forall m v, 2 <= im_size m -> prime (Z.of_nat (im_size m)) -> has_empty m ->
    im_find val m v <> Hang.
  Proof. intros m v Hs Hp He. unfold im_find. apply (probe_val_ends _ _ _ _ _ 0). exact (reach_empty m v Hs Hp He). Qed.
  Theorem remove_terminates : forall m e, 2 <= im_size m -> prime (Z.of_nat (im_size m)) -> has_empty m ->
    im_remove val m e <> Hang.
  Proof.
    intros m e Hs Hp He. unfold im_remove.
    pose proof (probe_attr_ends (im_tab m) (im_size m) (h0_of (im_size m) (val e)) e (im_size m) 0 (reach_empty m (val e) Hs Hp He)) as H.
    cbn [pos] in H. destruct (probe_attr _ _ _ e _ _) as [[k|]| |]; try discriminate. exfalso. apply H. reflexivity.
  Qed.
  Theorem put_terminates : forall m e, 2 <= im_size m -> prime (Z.of_nat (im_size m)) -> has_empty m ->
    im_put val m e <> Hang.
  Proof.
    intros m e Hs Hp He. unfold im_put.
    pose proof (probe_free_ends (im_tab m) (im_size m) (h0_of (im_size m) (val e)) (im_size m) 0 (reach_empty m (val e) Hs Hp He)) as H.
    cbn [pos] in H. destruct (probe_free _ _ _ _ _); [discriminate|]. exfalso. apply H. reflexivity.
  Qed.
End Loops.

(* ---- the table sizes are prime: verified trial division ---- *)
Local Open Scope Z_scope.
Definition no_small_div (n : Z) (r : nat) : bool :=
  forallb (fun d => (n <=? d) || negb (n mod d =? 0)) (map Z.of_nat (seq 2 (r - 1))).
Lemma no_small_div_spec : forall n r d, no_small_div n r = true -> 2 <= d <= Z.of_nat r -> d < n -> ~ (d | n).
Proof.
  intros n r d H Hd Hlt Hdiv. unfold no_small_div in H. rewrite forallb_forall in H.
  assert (Hin : In d (map Z.of_nat (seq 2 (r - 1)))).
  { apply in_map_iff. exists (Z.to_nat d). split; [lia|]. apply in_seq. lia. }
  specialize (H d Hin). apply orb_prop in H. destruct H as [H|H]; [apply Z.leb_le in H; lia|].
  apply negb_true_iff in H. apply Z.eqb_neq in H. apply H.
  apply Z.mod_divide; [lia|exact Hdiv].
Qed.
Lemma trial_prime : forall n r, 1 < n -> n < (Z.of_nat r + 1) * (Z.of_nat r + 1) -> no_small_div n r = true -> prime n.
Proof.
  intros n r Hn Hr H. apply prime_alt. split; [exact Hn|]. intros d Hd Hdiv.
  destruct Hdiv as [q Hq].
  assert (Hq1 : 1 < q) by nia.
  destruct (Z_le_gt_dec d (Z.of_nat r)) as [Hle|Hgt].
  - apply (no_small_div_spec n r d H); [lia|lia|]. exists q. exact Hq.
  - destruct (Z_le_gt_dec q (Z.of_nat r)) as [Hle2|Hgt2].
    + apply (no_small_div_spec n r q H); [lia|nia|]. exists d. lia.
    + nia.
Qed.
(** isqrt bound used per size: r = 10000 covers every entry of gPrimes (all below 10^8 + ...) *)
Definition size_prime_b (s : N) : bool :=
  let n := Z.of_N s in (1 <? n) && (n <? 10001 * 10001) && no_small_div n 10000.
Lemma size_prime_b_sound : forall s, size_prime_b s = true -> prime (Z.of_N s).
Proof.
  intros s H. unfold size_prime_b in H. apply andb_prop in H. destruct H as [H H3]. apply andb_prop in H. destruct H as [H1 H2].
  apply Z.ltb_lt in H1. apply Z.ltb_lt in H2. apply (trial_prime _ 10000); [exact H1| |exact H3].
  change (Z.of_nat 10000 + 1) with 10001. exact H2.
Qed.
Local Close Scope Z_scope.
Local Open Scope nat_scope.

Lemma gen_sizes_prime : forall k s mx, size_at k = Some (s, mx) -> prime (Z.of_nat s).
Proof.
  intros k s mx H. unfold size_at in H. destruct (nth_error idmap_sizes k) as [[sN mN]|] eqn:E; [|discriminate].
  injection H as <- _. apply nth_error_In in E.
  assert (Hall : forallb (fun p => size_prime_b (fst p)) idmap_sizes = true) by (vm_compute; reflexivity).
  rewrite forallb_forall in Hall. specialize (Hall _ E). cbn [fst] in Hall.
  rewrite N_nat_Z. apply size_prime_b_sound. exact Hall.
Qed.
