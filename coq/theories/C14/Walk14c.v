(** C14 -- TreeWalker: lastChild() of the code is the last element of the specification's visible-children list
    (mirror image of Walk14b.v: getLastChild / getPreviousSibling). *)
From Coq Require Import List NArith Arith Bool Lia.
From XV Require Import C14.Spec14 C14.Hist14 C14.Model14 C14.Tree14 C14.Nav14 C14.Nav14c C14.Nav14d C14.Walk14 C14.Walk14b.
Import ListNotations.

Section Last.
  Variable f : forest.
  Hypothesis Hwf : wf_forest f.
  Variable root : nat.
  Variable acc : nat -> verdict.
  Variable vv : tree -> verdict.
  Hypothesis Hacc : forall s, In s (fnodes f) -> acc (tid s) = vv s.

  Notation glast := (mw_get_last f root acc).
  Notation gprev := (mw_get_prev_sib f root acc).

  Definition scanl (fu : nat) (c : nat) : option nat :=
    match acc c with
    | VAccept => Some c
    | VSkip => if m_has_kids f c then glast fu c else gprev fu c
    | VReject => gprev fu c
    end.

  Lemma glast_unfold : forall fu n, glast (S fu) n = match m_last_child f n with None => None | Some c => scanl fu c end.
  Proof. intros fu n. unfold scanl. cbn [mw_get_last]. destruct (m_last_child f n) as [c|]; [|reflexivity]. destruct (acc c); reflexivity. Qed.
  Lemma gprev_unfold : forall fu n, gprev (S fu) n =
    if n =? root then None else
    match m_prev_sibling f n with
    | Some s => scanl fu s
    | None => match m_parent f n with Some p => (match acc p with VSkip => gprev fu p | _ => None end) | None => None end
    end.
  Proof.
    intros fu n. unfold scanl. cbn [mw_get_prev_sib]. destruct (n =? root); [reflexivity|].
    destruct (m_prev_sibling f n) as [s|]; [|reflexivity]. destruct (acc s); try reflexivity.
    unfold m_has_kids. destruct fu as [|fu'].
    - cbn. destruct (is_nil (m_kids f s)); reflexivity.
    - cbn [mw_get_last]. unfold m_last_child. destruct (m_kids f s) as [|c0 r0] eqn:Ek; cbn [is_nil negb]; [reflexivity|].
      destruct (rev (c0 :: r0)) as [|cl rl] eqn:Er; [exfalso; apply (f_equal (@length nat)) in Er; rewrite rev_length in Er; discriminate|].
      cbn [hd_error]. destruct (match acc cl with VAccept => Some cl | VReject => _ | VSkip => _ end); reflexivity.
  Qed.

  Lemma last_child_wf : forall t, In t (fnodes f) -> m_last_child f (tid t) = last_error (ids (tkids t)).
  Proof. intros t Ht. unfold m_last_child, last_error. rewrite (m_kids_wf f t Hwf Ht). reflexivity. Qed.

  Lemma last_of_tree : forall t, In t (fnodes f) -> ~ In root (ids (dnodes (tkids t))) -> tkids t <> [] ->
    forall K g,
    (is_skip (vv t) && negb (tid t =? root) = true -> forall fuel, g <= fuel -> gprev fuel (tid t) = hd_error K) ->
    forall fuel, g + wt t <= fuel -> glast fuel (tid t) = hd_error (rev (vkids vv t) ++ tailK root vv t K).
  Proof.
    intros t. induction t as [i k v ks IH] using tree_ind2. intros Ht HR Hne K g HN fuel Hfuel.
    remember (Node i k v ks) as T eqn:ET.
    assert (HtT : tid T = i) by (rewrite ET; reflexivity). assert (HkT : tkids T = ks) by (rewrite ET; reflexivity).
    rewrite HkT in HR, Hne. rewrite HtT in HN.
    assert (Hkids : forall pre post, ks = pre ++ post ->
              forall pre' c, pre = pre' ++ [c] ->
              let gc := g + 1 + 2 * length (dnodes pre') in
              (forall fu, gc <= fu -> gprev fu (tid c) = hd_error (rev (flat_map (vtop vv) pre') ++ tailK root vv T K)) /\
              (forall fu, gc + wt c <= fu -> scanl fu (tid c) = hd_error (rev (flat_map (vtop vv) pre) ++ tailK root vv T K))).
    { induction pre as [|x p0 IHp] using rev_ind; intros post E pre' c Ep; [destruct pre'; discriminate|].
      apply app_inj_tail in Ep. destruct Ep as [<- <-].
      assert (Hc : In x ks) by (rewrite E; apply in_or_app; left; apply in_or_app; right; left; reflexivity).
      assert (Hcf : In x (fnodes f)) by (apply (kids_in_dnodes f T x Ht); rewrite HkT; exact Hc).
      assert (HcR : tid x <> root).
      { intros E1. apply HR. rewrite <- E1. apply in_ids. apply top_in_dnodes. exact Hc. }
      assert (HRc : ~ In root (ids (dnodes (tkids x)))).
      { intros HinR. apply HR. unfold ids in *. apply in_map_iff in HinR. destruct HinR as [y [Ey Hy]].
        apply in_map_iff. exists y. split; [exact Ey|].
        unfold dnodes. apply in_flat_map. exists x. split; [exact Hc|]. rewrite docorder_eq. right. exact Hy. }
      cbv zeta.
      assert (E' : tkids T = p0 ++ x :: post) by (rewrite HkT, E, <- app_assoc; reflexivity).
      assert (HN0 : forall fu, g + 1 + 2 * length (dnodes p0) <= fu -> gprev fu (tid x) = hd_error (rev (flat_map (vtop vv) p0) ++ tailK root vv T K)).
      { intros fu Hfu. destruct fu as [|fu]; [lia|]. rewrite gprev_unfold.
        destruct (Nat.eqb_spec (tid x) root) as [E1|_]; [exfalso; exact (HcR E1)|].
        rewrite (prev_sibling_wf f Hwf T p0 x post Ht E').
        destruct p0 as [|c1 p1 _] using rev_ind.
        - cbn [ids map last_error rev hd_error].
          rewrite (m_parent_wf f T x Hwf Ht ltac:(rewrite HkT; exact Hc)). rewrite (Hacc T Ht). cbn [flat_map rev app]. unfold tailK.
          rewrite HtT. destruct (vv T) eqn:Ev; cbn [is_skip andb]; try reflexivity.
          destruct (Nat.eqb_spec i root) as [Ei|Ei]; cbn [negb].
          + destruct fu as [|fu']; [reflexivity|]. rewrite gprev_unfold. rewrite Ei, Nat.eqb_refl. reflexivity.
          + apply HN; [try rewrite Ev; cbn [is_skip andb]; destruct (Nat.eqb_spec i root); [contradiction|reflexivity]|].
            cbn [dnodes flat_map length] in Hfu. lia.
        - unfold ids. rewrite map_app. cbn [map]. rewrite last_error_snoc.
          destruct (IHp (x :: post) ltac:(rewrite E, <- app_assoc; reflexivity) p1 c1 eq_refl) as [_ Hscan].
          cbv zeta in Hscan. apply Hscan. unfold dnodes in Hfu. rewrite flat_map_app, app_length in Hfu. cbn [flat_map] in Hfu. rewrite app_nil_r in Hfu.
          unfold wt. assert (1 <= length (docorder c1)) by (rewrite docorder_eq; cbn; lia). unfold dnodes. lia. }
      split; [exact HN0|].
      intros fu Hfu. unfold scanl. rewrite (Hacc x Hcf). rewrite flat_map_app. cbn [flat_map]. rewrite app_nil_r, rev_app_distr, vtop_eq.
      destruct (vv x) eqn:Ev.
      - reflexivity.
      - cbn [rev app]. apply HN0. unfold wt in Hfu. lia.
      - rewrite (has_kids_wf f Hwf x Hcf).
        destruct (tkids x) as [|k0 kr] eqn:Ek; cbn [is_nil negb].
        + unfold vkids. rewrite Ek. cbn [flat_map rev app]. apply HN0. unfold wt in Hfu. lia.
        + rewrite Forall_forall in IH. rewrite <- Ek in HRc.
          rewrite (IH x Hc Hcf HRc ltac:(rewrite Ek; discriminate) (rev (flat_map (vtop vv) p0) ++ tailK root vv T K) (g + 1 + 2 * length (dnodes p0))).
          * unfold tailK at 1. rewrite Ev. cbn [is_skip andb].
            destruct (Nat.eqb_spec (tid x) root) as [E1|_]; [exfalso; exact (HcR E1)|]. cbn [negb]. rewrite <- app_assoc. reflexivity.
          * intros _ fu' Hfu'. apply HN0. exact Hfu'.
          * exact Hfu. }
    destruct fuel as [|fu]; [unfold wt in Hfuel; rewrite (docorder_eq T) in Hfuel; cbn [length] in Hfuel; lia|].
    rewrite glast_unfold. rewrite (last_child_wf T Ht), HkT.
    unfold vkids. rewrite HkT.
    destruct ks as [|cl p _] using rev_ind; [contradiction|].
    unfold ids. rewrite map_app. cbn [map]. rewrite last_error_snoc.
    destruct (Hkids (p ++ [cl]) [] ltac:(rewrite app_nil_r; reflexivity) p cl eq_refl) as [_ Hscan]. cbv zeta in Hscan. apply Hscan.
    assert (1 <= length (docorder cl)) by (rewrite docorder_eq; cbn; lia).
    unfold wt in *. rewrite (docorder_eq T), HkT in Hfuel. cbn [length] in Hfuel. unfold dnodes in *. rewrite flat_map_app, app_length in Hfuel.
    cbn [flat_map] in Hfuel. rewrite app_nil_r in Hfuel. lia.
  Qed.
End Last.

(** T14_walker, lastChild *)
Theorem walker_last_is_spec : forall f fx tab w S, wf_forest f ->
  (forall s, In s (fnodes f) -> mw_accept fx tab f w (tid s) = view_verdict tab (mw_what w) (mw_usef w) s) ->
  find_node f (mw_cur w) = Some S ->
  is_skip (view_verdict tab (mw_what w) (mw_usef w) S) && negb (tid S =? mw_root w) = false ->
  ~ In (mw_root w) (ids (dnodes (tkids S))) ->
  mw_target fx tab f w WLast = sp_w_target_at tab f (abs_w w) (mw_root w) WLast.
Proof.
  intros f fx tab w S Hwf Hacc HS Hns HR. unfold mw_target, sp_w_target_at, abs_w. cbn [sw_cur sw_what sw_usef]. rewrite HS.
  destruct (find_node_in f _ S HS) as [HSf HtS]. rewrite <- HtS.
  destruct (tkids S) as [|c0 r0] eqn:Ek.
  - unfold mw_fuel. cbn [Nat.mul Nat.add]. rewrite Nat.add_comm. cbn [Nat.add mw_get_last].
    rewrite (last_child_wf f Hwf S HSf), Ek. unfold vkids. rewrite Ek. reflexivity.
  - rewrite <- Ek in HR.
    rewrite (last_of_tree f Hwf (mw_root w) (mw_accept fx tab f w) (view_verdict tab (mw_what w) (mw_usef w)) Hacc S HSf HR
               ltac:(rewrite Ek; discriminate) [] 0).
    + unfold tailK. rewrite Hns. rewrite app_nil_r. reflexivity.
    + intros Hc. rewrite Hns in Hc. discriminate.
    + pose proof (len_sub f S HSf) as Hl. unfold dnodes in Hl. unfold wt, mw_fuel, m_fuel, fnodes. lia.
Qed.
