(** C14 -- executable model of the live-view code of xerces-c, following the C++ function by function:
      src/xercesc/dom/impl/DOMNodeIteratorImpl.cpp, DOMTreeWalkerImpl.cpp, DOMDeepNodeListImpl.cpp,
      DOMRangeImpl.cpp (boundary points, compareBoundaryPoints, updateRangeFor*, updateSplitInfo),
      and the notification loops of DOMParentNode::insertBefore/removeChild, DOMCharacterDataImpl::*Data,
      DOMTextImpl::splitText.
    Node pointers are node ids ([option nat] where the C++ pointer may be null); the pointer structure
    (getParentNode / getFirstChild / getNextSibling ...) is read off the rose tree of Spec14.v.
    Loops carry explicit fuel (number of nodes + 1).  No proofs in this file.
    [fixes] selects, per known defect, the code as it is (false) or as repaired by fixes/C14-*.patch (true). *)
From Coq Require Import List NArith Arith Bool.
From XV Require Import C14.Spec14 C14.Hist14.
Import ListNotations.

Record fixes := { fx_iter_fresh : bool; fx_ins_text : bool; fx_wprev : bool; fx_wshow : bool; fx_split : bool }.

(* ---------------------------------------------------------------------------------------------------------- *)
(** * pointer structure *)
Definition m_parent (f : forest) (i : nat) : option nat := option_map tid (find_parent f i).
Definition m_kids (f : forest) (i : nat) : list nat :=
  match find_node f i with Some s => ids (tkids s) | None => [] end.
Definition m_first_child (f : forest) (i : nat) : option nat := hd_error (m_kids f i).
Definition m_last_child (f : forest) (i : nat) : option nat := hd_error (rev (m_kids f i)).
Definition m_next_sibling (f : forest) (i : nat) : option nat :=
  match m_parent f i with Some p => after_in i (m_kids f p) | None => None end.
Definition m_prev_sibling (f : forest) (i : nat) : option nat :=
  match m_parent f i with Some p => before_in i (m_kids f p) | None => None end.
Definition m_has_kids (f : forest) (i : nat) : bool := negb (is_nil (m_kids f i)).
Definition m_kind (f : forest) (i : nat) : kind := match find_node f i with Some s => tkind s | None => KElem end.
Definition m_fuel (f : forest) : nat := S (length (fnodes f)).
Definition m_filter (tab : list N) (f : forest) (i : nat) : verdict :=
  match find_node f i with Some s => filter_verdict tab s | None => VAccept end.
Definition m_shown (what : N) (f : forest) (i : nat) : bool := shown what (m_kind f i).

(* ---------------------------------------------------------------------------------------------------------- *)
(** * DOMNodeIteratorImpl *)
Record m_iter := { mi_root : nat; mi_what : N; mi_usef : bool; mi_cur : option nat; mi_fwd : bool }.
Definition mi_set (it : m_iter) (cur : option nat) (fwd : bool) : m_iter :=
  {| mi_root := mi_root it; mi_what := mi_what it; mi_usef := mi_usef it; mi_cur := cur; mi_fwd := fwd |}.

(** acceptNode *)
Definition mi_accept (tab : list N) (f : forest) (it : m_iter) (n : nat) : bool :=
  if mi_usef it then m_shown (mi_what it) f n && (match m_filter tab f n with VAccept => true | _ => false end)
  else m_shown (mi_what it) f n.

(** nextNode(node, visitChildren): the "return parent's 1st sibling" loop *)
Fixpoint mi_climb (f : forest) (root : nat) (fuel : nat) (parent : option nat) : option nat :=
  match fuel with
  | O => None
  | S fu => match parent with
            | None => None
            | Some p => if p =? root then None else
                        match m_next_sibling f p with
                        | Some r => Some r
                        | None => mi_climb f root fu (m_parent f p)
                        end
            end
  end.
Definition mi_next_raw (f : forest) (root : nat) (node : option nat) (visit : bool) : option nat :=
  match node with
  | None => Some root
  | Some n =>
    if visit && m_has_kids f n then m_first_child f n
    else if n =? root then None
    else match m_next_sibling f n with
         | Some r => Some r
         | None => mi_climb f root (m_fuel f) (m_parent f n)
         end
  end.
(** previousNode(node) *)
Fixpoint m_deepest_last (f : forest) (fuel : nat) (r : nat) : nat :=
  match fuel with
  | O => r
  | S fu => match m_last_child f r with Some c => m_deepest_last f fu c | None => r end
  end.
Definition mi_prev_raw (f : forest) (root : nat) (node : nat) : option nat :=
  if node =? root then None else
  match m_prev_sibling f node with
  | None => m_parent f node
  | Some r => Some (m_deepest_last f (m_fuel f) r)
  end.

(** nextNode(): the while(!accepted) loop; [a] is aNextNode, [fwd] the member fForward *)
Fixpoint mi_next_loop (tab : list N) (f : forest) (it : m_iter) (fuel : nat) (a : option nat) (fwd : bool)
  : option nat * m_iter :=
  match fuel with
  | O => (None, mi_set it (mi_cur it) true)
  | S fu =>
    let a' := if negb fwd && is_some a then mi_cur it else mi_next_raw f (mi_root it) a true in
    match a' with
    | None => (None, mi_set it (mi_cur it) true)
    | Some n => if mi_accept tab f it n then (Some n, mi_set it (Some n) true)
                else mi_next_loop tab f it fu (Some n) true
    end
  end.
Definition mi_next (tab : list N) (f : forest) (it : m_iter) : option nat * m_iter :=
  mi_next_loop tab f it (S (m_fuel f)) (mi_cur it) (mi_fwd it).

Fixpoint mi_prev_loop (tab : list N) (f : forest) (it : m_iter) (fuel : nat) (a : nat) (fwd : bool)
  : option nat * m_iter :=
  match fuel with
  | O => (None, mi_set it (mi_cur it) false)
  | S fu =>
    let a' := if fwd then mi_cur it else mi_prev_raw f (mi_root it) a in
    match a' with
    | None => (None, mi_set it (mi_cur it) false)
    | Some n => if mi_accept tab f it n then (Some n, mi_set it (Some n) false)
                else mi_prev_loop tab f it fu n false
    end
  end.
Definition mi_prev (tab : list N) (f : forest) (it : m_iter) : option nat * m_iter :=
  match mi_cur it with
  | None => (None, it)
  | Some c => mi_prev_loop tab f it (S (m_fuel f)) c (mi_fwd it)
  end.

(** matchNodeOrParent: None = null pointer dereferenced (the process dies) *)
Inductive mnp := MNPFound (n : nat) | MNPNone | MNPCrash.
Fixpoint mi_match (fx : fixes) (f : forest) (root node : nat) (fuel : nat) (n : option nat) : mnp :=
  match fuel with
  | O => MNPNone
  | S fu => match n with
            | None => if fx_iter_fresh fx then MNPNone else MNPCrash
            | Some c => if c =? root then MNPNone
                        else if node =? c then MNPFound c
                        else mi_match fx f root node fu (m_parent f c)
            end
  end.
(** removeNode(node): fix-up before an actual remove; None = crash *)
Definition mi_remove (fx : fixes) (f : forest) (node : nat) (it : m_iter) : option m_iter :=
  match mi_match fx f (mi_root it) node (m_fuel f) (mi_cur it) with
  | MNPCrash => None
  | MNPNone => Some it
  | MNPFound deleted =>
    if mi_fwd it then Some (mi_set it (mi_prev_raw f (mi_root it) deleted) true)
    else match mi_next_raw f (mi_root it) (Some deleted) false with
         | Some nx => Some (mi_set it (Some nx) false)
         | None => Some (mi_set it (mi_prev_raw f (mi_root it) deleted) true)
         end
  end.

(* ---------------------------------------------------------------------------------------------------------- *)
(** * DOMTreeWalkerImpl *)
Record m_walker := { mw_root : nat; mw_what : N; mw_usef : bool; mw_cur : nat }.
Definition mw_set (w : m_walker) (c : nat) : m_walker :=
  {| mw_root := mw_root w; mw_what := mw_what w; mw_usef := mw_usef w; mw_cur := c |}.

(** acceptNode *)
Definition mw_accept (fx : fixes) (tab : list N) (f : forest) (w : m_walker) (n : nat) : verdict :=
  if mw_usef w then
    (if m_shown (mw_what w) f n then m_filter tab f n
     else if fx_wshow fx then VSkip
     else match m_filter tab f n with VReject => VReject | _ => VSkip end)
  else (if m_shown (mw_what w) f n then VAccept else VSkip).

Section Walker.
  Variable f : forest.
  Variable root : nat.
  Variable acc : nat -> verdict.

  Fixpoint mw_get_parent (fuel : nat) (node : nat) : option nat :=
    match fuel with
    | O => None
    | S fu => if node =? root then None else
              match m_parent f node with
              | None => None
              | Some p => match acc p with VAccept => Some p | _ => mw_get_parent fu p end
              end
    end.

  Fixpoint mw_get_next_sib (fuel : nat) (node : nat) : option nat :=
    match fuel with
    | O => None
    | S fu =>
      if node =? root then None else
      match m_next_sibling f node with
      | None => match m_parent f node with
                | None => None
                | Some p => match acc p with VSkip => mw_get_next_sib fu p | _ => None end
                end
      | Some s => match acc s with
                  | VAccept => Some s
                  | VSkip => match mw_get_first fu s with
                             | None => if negb (m_has_kids f s) then mw_get_next_sib fu s else None
                             | Some c => Some c
                             end
                  | VReject => mw_get_next_sib fu s
                  end
      end
    end
  with mw_get_first (fuel : nat) (node : nat) : option nat :=
    match fuel with
    | O => None
    | S fu =>
      match m_first_child f node with
      | None => None
      | Some c => match acc c with
                  | VAccept => Some c
                  | VSkip => if m_has_kids f c then mw_get_first fu c else mw_get_next_sib fu c
                  | VReject => mw_get_next_sib fu c
                  end
      end
    end.

  Fixpoint mw_get_prev_sib (fuel : nat) (node : nat) : option nat :=
    match fuel with
    | O => None
    | S fu =>
      if node =? root then None else
      match m_prev_sibling f node with
      | None => match m_parent f node with
                | None => None
                | Some p => match acc p with VSkip => mw_get_prev_sib fu p | _ => None end
                end
      | Some s => match acc s with
                  | VAccept => Some s
                  | VSkip => match mw_get_last fu s with
                             | None => if negb (m_has_kids f s) then mw_get_prev_sib fu s else None
                             | Some c => Some c
                             end
                  | VReject => mw_get_prev_sib fu s
                  end
      end
    end
  with mw_get_last (fuel : nat) (node : nat) : option nat :=
    match fuel with
    | O => None
    | S fu =>
      match m_last_child f node with
      | None => None
      | Some c => match acc c with
                  | VAccept => Some c
                  | VSkip => if m_has_kids f c then mw_get_last fu c else mw_get_prev_sib fu c
                  | VReject => mw_get_prev_sib fu c
                  end
      end
    end.

  (** nextNode(): the while (parent != 0) loop *)
  Fixpoint mw_next_up (fuel : nat) (parent : option nat) : option nat :=
    match fuel with
    | O => None
    | S fu => match parent with
              | None => None
              | Some p => match mw_get_next_sib (S fuel) p with
                          | Some n => Some n
                          | None => mw_next_up fu (mw_get_parent (S fuel) p)
                          end
              end
    end.
  (** repaired previousNode(): descend to the deepest last visible child *)
  Fixpoint mw_deepest (fuel : nat) (n : nat) : nat :=
    match fuel with
    | O => n
    | S fu => match mw_get_last (S fuel) n with Some c => mw_deepest fu c | None => n end
    end.
End Walker.

(** the fuel of the internal functions: each call moves to another node or climbs; 2 * nodes + 2 is ample *)
Definition mw_fuel (f : forest) : nat := 2 * m_fuel f + 2.

Definition mw_target (fx : fixes) (tab : list N) (f : forest) (w : m_walker) (m : wmove) : option nat :=
  let acc := mw_accept fx tab f w in
  let root := mw_root w in
  let cur := mw_cur w in
  let fu := mw_fuel f in
  match m with
  | WParent => mw_get_parent f root acc fu cur
  | WFirst => mw_get_first f root acc fu cur
  | WLast => mw_get_last f root acc fu cur
  | WPrevSib => mw_get_prev_sib f root acc fu cur
  | WNextSib => mw_get_next_sib f root acc fu cur
  | WNext =>
    match mw_get_first f root acc fu cur with
    | Some n => Some n
    | None => match mw_get_next_sib f root acc fu cur with
              | Some n => Some n
              | None => mw_next_up f root acc fu (mw_get_parent f root acc fu cur)
              end
    end
  | WPrev =>
    match mw_get_prev_sib f root acc fu cur with
    | None => mw_get_parent f root acc fu cur
    | Some n => if fx_wprev fx then Some (mw_deepest f root acc fu n)
                else match mw_get_last f root acc fu n with Some l => Some l | None => Some n end
    end
  end.
Definition mw_move (fx : fixes) (tab : list N) (f : forest) (w : m_walker) (m : wmove) : option nat * m_walker :=
  match mw_target fx tab f w m with
  | Some n => (Some n, mw_set w n)
  | None => (None, w)
  end.

(* ---------------------------------------------------------------------------------------------------------- *)
(** * DOMDeepNodeListImpl *)
Record m_dlist := { md_root : nat; md_name : list N; md_changes : nat; md_cur : option nat; md_idx : nat }.

(** the "look up and right" for-loop of nextMatchingElementAfter *)
Fixpoint md_climb (f : forest) (root : nat) (fuel : nat) (cur : option nat) : option nat :=
  match fuel with
  | O => None
  | S fu => match cur with
            | None => None
            | Some c => if c =? root then None else
                        match m_next_sibling f c with
                        | Some nx => Some nx
                        | None => md_climb f root fu (m_parent f c)
                        end
            end
  end.
Definition md_matches (f : forest) (name : list N) (n : nat) : bool :=
  match find_node f n with Some s => tag_match name s | None => false end.
Fixpoint md_next_match (f : forest) (root : nat) (name : list N) (fuel : nat) (cur : option nat) : option nat :=
  match fuel with
  | O => None
  | S fu =>
    match cur with
    | None => None
    | Some c =>
      let c' := if m_has_kids f c then m_first_child f c
                else if negb (c =? root) && is_some (m_next_sibling f c) then m_next_sibling f c
                else md_climb f root (m_fuel f) (Some c) in
      match c' with
      | None => None
      | Some n => if negb (n =? root) && md_matches f name n then Some n else md_next_match f root name fu (Some n)
      end
    end
  end.
(** the counting loop of cacheItem; returns (nextNode, currentNode, currentIndexPlus1) *)
Fixpoint md_count (f : forest) (l : m_dlist) (fuel : nat) (index1 : nat) (cur : option nat) (idx : nat) (nx : option nat)
  : option nat * option nat * nat :=
  match fuel with
  | O => (nx, cur, idx)
  | S fu =>
    if (idx <? index1) && is_some cur then
      match md_next_match f (md_root l) (md_name l) (m_fuel f) cur with
      | None => (None, cur, idx)
      | Some n => md_count f l fu index1 (Some n) (S idx) (Some n)
      end
    else (nx, cur, idx)
  end.
(** cacheItem(index); [index1] = index + 1 *)
Definition md_cache_item (f : forest) (changes : nat) (l : m_dlist) (index1 : nat) : option nat * m_dlist :=
  let mk := fun ch cur idx => {| md_root := md_root l; md_name := md_name l; md_changes := ch; md_cur := cur; md_idx := idx |} in
  if negb (changes =? md_changes l) then
    let '(nx, cur, idx) := md_count f l (m_fuel f) index1 (Some (md_root l)) 0 None in
    (match nx with Some _ => cur | None => None end, mk changes cur idx)
  else if index1 <? md_idx l then
    let '(nx, cur, idx) := md_count f l (m_fuel f) index1 (Some (md_root l)) 0 None in
    (match nx with Some _ => cur | None => None end, mk (md_changes l) cur idx)
  else if index1 =? md_idx l then (md_cur l, l)
  else
    let '(nx, cur, idx) := md_count f l (m_fuel f) index1 (md_cur l) (md_idx l) None in
    (match nx with Some _ => cur | None => None end, mk (md_changes l) cur idx).
(** getLength(): item(0); item(INT_MAX); fCurrentIndexPlus1 *)
Definition md_length (f : forest) (changes : nat) (l : m_dlist) : nat * m_dlist :=
  let '(_, l1) := md_cache_item f changes l 1 in
  let '(_, l2) := md_cache_item f changes l1 (S (m_fuel f)) in
  (md_idx l2, l2).

(* ---------------------------------------------------------------------------------------------------------- *)
(** * DOMRangeImpl *)
Record m_range := { mr_sc : nat; mr_so : nat; mr_ec : nat; mr_eo : nat }.
Definition to_range (r : m_range) : range := {| r_s := (mr_sc r, mr_so r); r_e := (mr_ec r, mr_eo r) |}.

(** isAncestorOf(a, b): walk up from b *)
Fixpoint m_is_anc (f : forest) (fuel : nat) (a : nat) (b : option nat) : bool :=
  match fuel with
  | O => false
  | S fu => match b with None => false | Some n => if n =? a then true else m_is_anc f fu a (m_parent f n) end
  end.
Definition m_index_of (f : forest) (child parent : nat) : nat := index_of child (m_kids f parent).
(** the chain node, parent, grand-parent ... *)
Fixpoint m_chain (f : forest) (fuel : nat) (n : option nat) : list nat :=
  match fuel with
  | O => []
  | S fu => match n with None => [] | Some c => c :: m_chain f fu (m_parent f c) end
  end.
Fixpoint strip_common (a b : list nat) : list nat * list nat :=
  match a, b with
  | x :: r, y :: s => if x =? y then strip_common r s else (a, b)
  | _, _ => (a, b)
  end.
(** commonAncestorOf(a, b) != 0 *)
Definition m_has_common (f : forest) (a b : nat) : bool :=
  match rev (m_chain f (m_fuel f) (Some a)), rev (m_chain f (m_fuel f) (Some b)) with
  | x :: _, y :: _ => x =? y
  | _, _ => false
  end.
(** compareBoundaryPoints on (pointA, offsetA) (pointB, offsetB): Lt = -1, Eq = 0, Gt = 1 *)
Definition m_cmp (f : forest) (pa oa pb ob : nat) : comparison :=
  if pa =? pb then Nat.compare oa ob
  else
    (* case 2: a child of A is an ancestor of B *)
    match find (fun c => m_is_anc f (m_fuel f) c (Some pb)) (m_kids f pa) with
    | Some c => if oa <=? m_index_of f c pa then Lt else Gt
    | None =>
      (* case 3: a child of B is an ancestor of A *)
      match find (fun c => m_is_anc f (m_fuel f) c (Some pa)) (m_kids f pb) with
      | Some c => if m_index_of f c pb <? ob then Lt else Gt
      | None =>
        (* case 4: equalise depths, climb to the children of the common parent, look for A behind B *)
        match strip_common (rev (m_chain f (m_fuel f) (Some pa))) (rev (m_chain f (m_fuel f) (Some pb))) with
        | (a' :: _, b' :: _) =>
          match m_parent f b' with
          | Some p => if memb a' (skipn (S (m_index_of f b' p)) (m_kids f p)) then Gt else Lt
          | None => Lt
          end
        | _ => Lt
        end
      end
    end.
Definition mr_collapse (r : m_range) (toStart : bool) : m_range :=
  if toStart then {| mr_sc := mr_sc r; mr_so := mr_so r; mr_ec := mr_sc r; mr_eo := mr_so r |}
  else {| mr_sc := mr_ec r; mr_so := mr_eo r; mr_ec := mr_ec r; mr_eo := mr_eo r |}.
(** checkIndex *)
Definition m_check_index (f : forest) (x off : nat) : bool :=
  match find_node f x with
  | Some s => if is_chardata (tkind s) then off <=? length (tval s) else off <=? length (tkids s)
  | None => false
  end.
(** the tail shared by setStart / setStartBefore / setStartAfter *)
Definition mr_after_set_start (f : forest) (r : m_range) (ref : nat) : m_range :=
  let r1 := if negb (m_has_common f ref (mr_ec r)) then mr_collapse r true else r in
  match m_cmp f (mr_sc r1) (mr_so r1) (mr_ec r1) (mr_eo r1) with Gt => mr_collapse r1 true | _ => r1 end.
Definition mr_after_set_end (f : forest) (r : m_range) (ref : nat) : m_range :=
  let r1 := if negb (m_has_common f ref (mr_sc r)) then mr_collapse r false else r in
  match m_cmp f (mr_sc r1) (mr_so r1) (mr_ec r1) (mr_eo r1) with Gt => mr_collapse r1 false | _ => r1 end.
Definition mr_set_start (f : forest) (r : m_range) (x off : nat) : m_range :=
  mr_after_set_start f {| mr_sc := x; mr_so := off; mr_ec := mr_ec r; mr_eo := mr_eo r |} x.
Definition mr_set_end (f : forest) (r : m_range) (x off : nat) : m_range :=
  mr_after_set_end f {| mr_sc := mr_sc r; mr_so := mr_so r; mr_ec := x; mr_eo := off |} x.
(** the sibling-counting loop of setStartBefore etc.: number of nodes from refNode back to the first child *)
Definition m_count_back (f : forest) (x : nat) : nat :=
  match m_parent f x with Some p => S (m_index_of f x p) | None => 1 end.

(** updateRangeForDeletedNode(node) -- called before the removal *)
Definition mr_upd_del_node (f : forest) (node : nat) (r : m_range) : m_range :=
  let par := m_parent f node in
  let is_par := fun c => match par with Some p => p =? c | None => false end in
  let so1 := if is_par (mr_sc r) && (m_index_of f node (mr_sc r) <? mr_so r) then mr_so r - 1 else mr_so r in
  let eo1 := if is_par (mr_ec r) && (m_index_of f node (mr_ec r) <? mr_eo r) then mr_eo r - 1 else mr_eo r in
  let r1 := {| mr_sc := mr_sc r; mr_so := so1; mr_ec := mr_ec r; mr_eo := eo1 |} in
  if negb (is_par (mr_sc r)) || negb (is_par (mr_ec r)) then
    match par with
    | None => r1
    | Some tp =>
      let r2 := if m_is_anc f (m_fuel f) node (Some (mr_sc r1))
                then {| mr_sc := tp; mr_so := m_index_of f node tp; mr_ec := mr_ec r1; mr_eo := mr_eo r1 |} else r1 in
      if m_is_anc f (m_fuel f) node (Some (mr_ec r2))
      then {| mr_sc := mr_sc r2; mr_so := mr_so r2; mr_ec := tp; mr_eo := m_index_of f node tp |} else r2
    end
  else r1.
(** updateRangeForInsertedNode(node) -- called after the insertion *)
Definition mr_upd_ins_node (f : forest) (node : nat) (r : m_range) : m_range :=
  let par := m_parent f node in
  let is_par := fun c => match par with Some p => p =? c | None => false end in
  {| mr_sc := mr_sc r;
     mr_so := if is_par (mr_sc r) && (m_index_of f node (mr_sc r) <? mr_so r) then S (mr_so r) else mr_so r;
     mr_ec := mr_ec r;
     mr_eo := if is_par (mr_ec r) && (m_index_of f node (mr_ec r) <? mr_eo r) then S (mr_eo r) else mr_eo r |}.
(** the node-type test shared by the text fix-ups *)
Definition m_is_cd (f : forest) (c : nat) : bool := is_chardata (m_kind f c).
(** updateRangeForInsertedText(node, offset, count) *)
Definition mr_upd_ins_text (fx : fixes) (f : forest) (node off cnt : nat) (r : m_range) : m_range :=
  {| mr_sc := mr_sc r;
     mr_so := if (node =? mr_sc r) && m_is_cd f (mr_sc r) && (off <? mr_so r)
              then (if fx_ins_text fx then mr_so r + cnt else off) else mr_so r;
     mr_ec := mr_ec r;
     mr_eo := if (node =? mr_ec r) && m_is_cd f (mr_ec r) && (off <? mr_eo r) then mr_eo r + cnt else mr_eo r |}.
(** updateRangeForDeletedText(node, offset, count) *)
Definition m_del_off (off cnt o : nat) : nat := if off + cnt <? o then o - cnt else if off <? o then off else o.
Definition mr_upd_del_text (f : forest) (node off cnt : nat) (r : m_range) : m_range :=
  {| mr_sc := mr_sc r;
     mr_so := if (node =? mr_sc r) && m_is_cd f (mr_sc r) then m_del_off off cnt (mr_so r) else mr_so r;
     mr_ec := mr_ec r;
     mr_eo := if (node =? mr_ec r) && m_is_cd f (mr_ec r) then m_del_off off cnt (mr_eo r) else mr_eo r |}.
(** receiveReplacedText(node) *)
Definition mr_upd_set_text (f : forest) (node : nat) (r : m_range) : m_range :=
  {| mr_sc := mr_sc r; mr_so := if (node =? mr_sc r) && m_is_cd f (mr_sc r) then 0 else mr_so r;
     mr_ec := mr_ec r; mr_eo := if (node =? mr_ec r) && m_is_cd f (mr_ec r) then 0 else mr_eo r |}.
(** updateSplitInfo(oldNode, startNode, offset) *)
Definition mr_upd_split (fx : fixes) (f : forest) (old nw off : nat) (r : m_range) : m_range :=
  let s := (old =? mr_sc r) && m_is_cd f (mr_sc r) && (off <? mr_so r) in
  let e := (old =? mr_ec r) && m_is_cd f (mr_ec r) && (off <? mr_eo r) in
  let r1 := {| mr_sc := if s then nw else mr_sc r; mr_so := if s then mr_so r - off else mr_so r;
               mr_ec := if e then nw else mr_ec r; mr_eo := if e then mr_eo r - off else mr_eo r |} in
  (* repaired (fixes/C14-range-split.patch): a boundary point in the parent directly behind oldNode moves behind startNode *)
  if fx_split fx then
    match m_parent f old with
    | Some p => let i := m_index_of f old p in
                {| mr_sc := mr_sc r1; mr_so := if (mr_sc r1 =? p) && (mr_so r1 =? S i) then S (mr_so r1) else mr_so r1;
                   mr_ec := mr_ec r1; mr_eo := if (mr_ec r1 =? p) && (mr_eo r1 =? S i) then S (mr_eo r1) else mr_eo r1 |}
    | None => r1
    end
  else r1.

(* ---------------------------------------------------------------------------------------------------------- *)
(** * the document: registries, change counter, mutation code paths *)
Record m_state := {
  ms_f : forest; ms_next : nat; ms_changes : nat;
  ms_its : list (option m_iter); ms_tws : list m_walker; ms_dls : list m_dlist; ms_rgs : list (option m_range);
  ms_tab : list N; ms_fx : fixes }.
Definition ms_with (s : m_state) (f : forest) (ch : nat) (its : list (option m_iter)) (rgs : list (option m_range)) : m_state :=
  {| ms_f := f; ms_next := ms_next s; ms_changes := ch; ms_its := its; ms_tws := ms_tws s; ms_dls := ms_dls s;
     ms_rgs := rgs; ms_tab := ms_tab s; ms_fx := ms_fx s |}.

(** the iterator notification loop of removeChild; None = crash *)
Fixpoint notify_its (fx : fixes) (f : forest) (node : nat) (l : list (option m_iter)) : option (list (option m_iter)) :=
  match l with
  | [] => Some []
  | None :: r => option_map (cons None) (notify_its fx f node r)
  | Some it :: r => match mi_remove fx f node it with
                    | None => None
                    | Some it' => option_map (cons (Some it')) (notify_its fx f node r)
                    end
  end.
(** DOMParentNode::removeChild(oldChild) for an attached oldChild *)
Definition m_remove_child (s : m_state) (x : nat) : option m_state :=
  let f := ms_f s in
  match notify_its (ms_fx s) f x (ms_its s) with
  | None => None
  | Some its' => Some (ms_with s (f_remove f x) (S (ms_changes s)) its' (omap (mr_upd_del_node f x) (ms_rgs s)))
  end.
(** the attach part of insertBefore + changed() + range notification *)
Definition m_attach (s : m_state) (p : nat) (r : option nat) (n : nat) : m_state :=
  let f' := f_insert (ms_f s) p r n in
  ms_with s f' (S (ms_changes s)) (ms_its s) (omap (mr_upd_ins_node f' n) (ms_rgs s)).

Definition m_new_node (s : m_state) (k : kind) (v : list N) : res * m_state :=
  (RNew (ms_next s),
   {| ms_f := f_add (ms_f s) (Node (ms_next s) k v []); ms_next := S (ms_next s); ms_changes := ms_changes s;
      ms_its := ms_its s; ms_tws := ms_tws s; ms_dls := ms_dls s; ms_rgs := ms_rgs s; ms_tab := ms_tab s; ms_fx := ms_fx s |}).

Definition m_ins_text (s : m_state) (x off : nat) (t : list N) : m_state :=
  let f' := f_set_val (ms_f s) x (splice off t (val_of (ms_f s) x)) in
  ms_with s f' (ms_changes s) (ms_its s) (omap (mr_upd_ins_text (ms_fx s) f' x off (length t)) (ms_rgs s)).
Definition m_del_text (s : m_state) (x off cnt : nat) : m_state :=
  let len := length (val_of (ms_f s) x) in
  let cnt1 := if len <? cnt then len else cnt in
  let cnt2 := if len <=? off + cnt1 then len - off else cnt1 in
  let f' := f_set_val (ms_f s) x (cut off cnt2 (val_of (ms_f s) x)) in
  ms_with s f' (ms_changes s) (ms_its s) (omap (mr_upd_del_text f' x off cnt2) (ms_rgs s)).

(** Some (result, state) or None = the process crashed *)
Definition m_step (s : m_state) (o : op) : option (res * m_state) :=
  let f := ms_f s in
  match o with
  | ONewE nm => Some (m_new_node s KElem nm)
  | ONewT v => Some (m_new_node s KText v)
  | ONewC v => Some (m_new_node s KComment v)
  | OIns p n r =>
    (* harness guards *)
    if negb (known f p) || negb (known f n) || (p =? 0) || (n =? 0) || (n =? 1) || (p =? n)
       || (match r with Some ri => negb (known f ri) | None => false end) then Some (RGuard, s)
    (* DOMNodeImpl::insertBefore of leaf nodes *)
    else if negb (match m_kind f p with KElem => true | _ => false end) then Some (RErr 3, s)
    (* cycle check, only when newChild has children; starts at the parent of this *)
    else if m_has_kids f n && m_is_anc f (m_fuel f) n (m_parent f p) then Some (RErr 3, s)
    else if match r with Some ri => negb (match m_parent f ri with Some q => q =? p | None => false end) | None => false end
         then Some (RErr 8, s)
    else if match r with Some ri => ri =? n | None => false end then Some (ROk, s)
    else
      match (if is_some (m_parent f n) then m_remove_child s n else Some s) with
      | None => None
      | Some s1 => Some (ROk, m_attach s1 p r n)
      end
  | ORm x =>
    if negb (known f x) || (x =? 0) || (x =? 1) || negb (is_some (m_parent f x)) then Some (RGuard, s)
    else match m_remove_child s x with None => None | Some s1 => Some (ROk, s1) end
  | OIData x off t =>
    if negb (chardata_node f x) then Some (RGuard, s)
    else if length (val_of f x) <? off then Some (RErr 1, s)
    else Some (ROk, m_ins_text s x off t)
  | ODData x off cnt =>
    if negb (chardata_node f x) then Some (RGuard, s)
    else if length (val_of f x) <? off then Some (RErr 1, s)
    else Some (ROk, m_del_text s x off cnt)
  | ORData x off cnt t =>
    if negb (chardata_node f x) then Some (RGuard, s)
    else if length (val_of f x) <? off then Some (RErr 1, s)
    else Some (ROk, m_ins_text (m_del_text s x off cnt) x off t)
  | OSData x t =>
    if negb (chardata_node f x) then Some (RGuard, s)
    else let f' := f_set_val f x t in
         Some (ROk, ms_with s f' (ms_changes s) (ms_its s) (omap (mr_upd_set_text f' x) (ms_rgs s)))
  | OAData x t =>
    if negb (chardata_node f x) then Some (RGuard, s)
    else Some (ROk, ms_with s (f_set_val f x (val_of f x ++ t)) (ms_changes s) (ms_its s) (ms_rgs s))
  | OSplit x off =>
    if negb (match kind_of f x with Some KText => true | _ => false end) then Some (RGuard, s)
    else if length (val_of f x) <? off then Some (RErr 1, s)
    else
      let nw := ms_next s in
      let v := val_of f x in
      let '(_, s1) := m_new_node s KText (skipn off v) in
      let s2 := match m_parent f x with
                | Some p => m_attach s1 p (m_next_sibling f x) nw
                | None => s1
                end in
      let f3 := f_set_val (ms_f s2) x (firstn off v) in
      Some (RNew nw, ms_with s2 f3 (ms_changes s2) (ms_its s2) (omap (mr_upd_split (ms_fx s) f3 x nw off) (ms_rgs s2)))
  | OVal x =>
    match find_node f x with
    | None => Some (RGuard, s)
    | Some t => Some (if is_chardata (tkind t) then RVal (tval t) else RKids (ids (tkids t)), s)
    end
  | OIt root what usef =>
    if negb (in_main f root) then Some (RGuard, s)
    else Some (RIt (length (ms_its s)),
               ms_with s f (ms_changes s)
                 (ms_its s ++ [Some {| mi_root := root; mi_what := what; mi_usef := usef; mi_cur := None; mi_fwd := true |}])
                 (ms_rgs s))
  | OItNext k =>
    match get_opt (ms_its s) k with
    | None => Some (RGuard, s)
    | Some it => let '(r, it') := mi_next (ms_tab s) f it in
                 Some (RNode r, ms_with s f (ms_changes s) (upd k (Some it') (ms_its s)) (ms_rgs s))
    end
  | OItPrev k =>
    match get_opt (ms_its s) k with
    | None => Some (RGuard, s)
    | Some it => let '(r, it') := mi_prev (ms_tab s) f it in
                 Some (RNode r, ms_with s f (ms_changes s) (upd k (Some it') (ms_its s)) (ms_rgs s))
    end
  | OItDetach k =>
    match get_opt (ms_its s) k with
    | None => Some (RGuard, s)
    | Some _ => Some (ROk, ms_with s f (ms_changes s) (upd k None (ms_its s)) (ms_rgs s))
    end
  | OTw root what usef =>
    if negb (in_main f root) then Some (RGuard, s)
    else Some (RTw (length (ms_tws s)),
               {| ms_f := f; ms_next := ms_next s; ms_changes := ms_changes s; ms_its := ms_its s;
                  ms_tws := ms_tws s ++ [{| mw_root := root; mw_what := what; mw_usef := usef; mw_cur := root |}];
                  ms_dls := ms_dls s; ms_rgs := ms_rgs s; ms_tab := ms_tab s; ms_fx := ms_fx s |})
  | OW m k =>
    match nth_error (ms_tws s) k with
    | None => Some (RGuard, s)
    | Some w => let '(r, w') := mw_move (ms_fx s) (ms_tab s) f w m in
                Some (RNode r, {| ms_f := f; ms_next := ms_next s; ms_changes := ms_changes s; ms_its := ms_its s;
                                  ms_tws := upd k w' (ms_tws s); ms_dls := ms_dls s; ms_rgs := ms_rgs s;
                                  ms_tab := ms_tab s; ms_fx := ms_fx s |})
    end
  | OWGet k =>
    match nth_error (ms_tws s) k with None => Some (RGuard, s) | Some w => Some (RNode (Some (mw_cur w)), s) end
  | OWSet k x =>
    match nth_error (ms_tws s) k with
    | None => Some (RGuard, s)
    | Some w => if negb (known f x) then Some (RGuard, s)
                else Some (ROk, {| ms_f := f; ms_next := ms_next s; ms_changes := ms_changes s; ms_its := ms_its s;
                                   ms_tws := upd k (mw_set w x) (ms_tws s); ms_dls := ms_dls s; ms_rgs := ms_rgs s;
                                   ms_tab := ms_tab s; ms_fx := ms_fx s |})
    end
  | ODl root nm =>
    if negb (match kind_of f root with Some KElem => true | Some KDoc => true | _ => false end) then Some (RGuard, s)
    else
      (* DOMDeepNodeListPool: one list object per (root, tag name) *)
      let same := fun e : m_dlist => (md_root e =? root) && list_eqb (md_name e) nm in
      if existsb same (ms_dls s) then
        Some (RDl ((fix go (l : list m_dlist) (i : nat) := match l with [] => i | e :: r => if same e then i else go r (S i) end) (ms_dls s) 0), s)
      else Some (RDl (length (ms_dls s)),
                 {| ms_f := f; ms_next := ms_next s; ms_changes := ms_changes s; ms_its := ms_its s; ms_tws := ms_tws s;
                    ms_dls := ms_dls s ++ [{| md_root := root; md_name := nm; md_changes := 0; md_cur := None; md_idx := 0 |}];
                    ms_rgs := ms_rgs s; ms_tab := ms_tab s; ms_fx := ms_fx s |})
  | ODLen k =>
    match nth_error (ms_dls s) k with
    | None => Some (RGuard, s)
    | Some l => let '(n, l') := md_length f (ms_changes s) l in
                Some (RLen n, {| ms_f := f; ms_next := ms_next s; ms_changes := ms_changes s; ms_its := ms_its s;
                                 ms_tws := ms_tws s; ms_dls := upd k l' (ms_dls s); ms_rgs := ms_rgs s;
                                 ms_tab := ms_tab s; ms_fx := ms_fx s |})
    end
  | ODItem k i =>
    match nth_error (ms_dls s) k with
    | None => Some (RGuard, s)
    | Some l => let '(r, l') := md_cache_item f (ms_changes s) l (S i) in
                Some (RNode r, {| ms_f := f; ms_next := ms_next s; ms_changes := ms_changes s; ms_its := ms_its s;
                                  ms_tws := ms_tws s; ms_dls := upd k l' (ms_dls s); ms_rgs := ms_rgs s;
                                  ms_tab := ms_tab s; ms_fx := ms_fx s |})
    end
  | ORg => Some (RRg (length (ms_rgs s)),
                 ms_with s f (ms_changes s) (ms_its s) (ms_rgs s ++ [Some {| mr_sc := 0; mr_so := 0; mr_ec := 0; mr_eo := 0 |}]))
  | ORSetS k x off =>
    match get_opt (ms_rgs s) k with
    | Some r => if negb (in_main f x) then Some (RGuard, s)
                else if negb (m_check_index f x off) then Some (RErr 1, s)
                else Some (ROk, ms_with s f (ms_changes s) (ms_its s) (upd k (Some (mr_set_start f r x off)) (ms_rgs s)))
    | None => Some (RGuard, s)
    end
  | ORSetE k x off =>
    match get_opt (ms_rgs s) k with
    | Some r => if negb (in_main f x) then Some (RGuard, s)
                else if negb (m_check_index f x off) then Some (RErr 1, s)
                else Some (ROk, ms_with s f (ms_changes s) (ms_its s) (upd k (Some (mr_set_end f r x off)) (ms_rgs s)))
    | None => Some (RGuard, s)
    end
  | ORSetSB k x | ORSetSA k x | ORSetEB k x | ORSetEA k x =>
    match get_opt (ms_rgs s) k with
    | Some r =>
      if negb (in_main f x) || (x =? 0) then Some (RGuard, s)
      else match m_parent f x with
           | None => Some (RGuard, s)
           | Some p =>
             let i := m_count_back f x in
             let r' := match o with
                       | ORSetSB _ _ => mr_after_set_start f {| mr_sc := p; mr_so := i - 1; mr_ec := mr_ec r; mr_eo := mr_eo r |} x
                       | ORSetSA _ _ => mr_after_set_start f {| mr_sc := p; mr_so := i; mr_ec := mr_ec r; mr_eo := mr_eo r |} x
                       | ORSetEB _ _ => mr_after_set_end f {| mr_sc := mr_sc r; mr_so := mr_so r; mr_ec := p; mr_eo := i - 1 |} x
                       | _ => mr_after_set_end f {| mr_sc := mr_sc r; mr_so := mr_so r; mr_ec := p; mr_eo := i |} x
                       end in
             Some (ROk, ms_with s f (ms_changes s) (ms_its s) (upd k (Some r') (ms_rgs s)))
           end
    | None => Some (RGuard, s)
    end
  | ORSelC k x =>
    match get_opt (ms_rgs s) k, find_node f x with
    | Some r, Some t =>
      if negb (in_main f x) then Some (RGuard, s)
      else Some (ROk, ms_with s f (ms_changes s) (ms_its s)
                   (upd k (Some {| mr_sc := x; mr_so := 0; mr_ec := x;
                                   mr_eo := if is_chardata (tkind t) then length (tval t) else length (tkids t) |}) (ms_rgs s)))
    | _, _ => Some (RGuard, s)
    end
  | ORColl k toStart =>
    match get_opt (ms_rgs s) k with
    | Some r => Some (ROk, ms_with s f (ms_changes s) (ms_its s) (upd k (Some (mr_collapse r toStart)) (ms_rgs s)))
    | None => Some (RGuard, s)
    end
  | ORCmp k how k2 =>
    match get_opt (ms_rgs s) k, get_opt (ms_rgs s) k2 with
    | Some r, Some r2 =>
      match how with
      | 0 => Some (RCmp (m_cmp f (mr_sc r) (mr_so r) (mr_sc r2) (mr_so r2)), s)
      | 1 => Some (RCmp (m_cmp f (mr_ec r) (mr_eo r) (mr_sc r2) (mr_so r2)), s)
      | 2 => Some (RCmp (m_cmp f (mr_ec r) (mr_eo r) (mr_ec r2) (mr_eo r2)), s)
      | 3 => Some (RCmp (m_cmp f (mr_sc r) (mr_so r) (mr_ec r2) (mr_eo r2)), s)
      | _ => Some (RErr 11, s)
      end
    | _, _ => Some (RGuard, s)
    end
  | ORDetach k =>
    match get_opt (ms_rgs s) k with
    | Some _ => Some (ROk, ms_with s f (ms_changes s) (ms_its s) (upd k None (ms_rgs s)))
    | None => Some (RGuard, s)
    end
  end.

Definition m_init (fx : fixes) (tab : list N) : m_state :=
  {| ms_f := [Node 0 KDoc [] [Node 1 KElem [97%N] []]]; ms_next := 2; ms_changes := 1; ms_its := []; ms_tws := [];
     ms_dls := []; ms_rgs := []; ms_tab := tab; ms_fx := fx |}.

(** answers so far, and whether the history ended in a crash *)
Fixpoint m_run_from (s : m_state) (h : list op) : list answer * bool :=
  match h with
  | [] => ([], false)
  | o :: r => match m_step s o with
              | None => ([], true)
              | Some (a, s') => let '(l, c) := m_run_from s' r in ((a, judge (ms_f s') (map (option_map to_range) (ms_rgs s'))) :: l, c)
              end
  end.
Definition m_run (fx : fixes) (tab : list N) (h : list op) : list answer * bool := m_run_from (m_init fx tab) h.
