(** Proofs for the element-against-declaration decision (validateElement / sendCharData / checkContent), the
    process-contents walk (scanStartTagNS / laxElementValidation) and the leaf-overlap test of the UPA check. *)
From XV Require Import C08.SpecElem08 C08.ModelElem08 C08.Proofs08d.
From Coq Require Import Lia.

(** * the three classes in which the code deviates from 3.3.4 (known findings) *)
(** C08-nildefault: simple content, xsi:nil="true" on a nillable element whose declaration has a *default* *)
Definition cls_nildefault (d : edecl) (x : eitem) : bool :=
  match e_kind d, e_vc d with
  | KSimple, VDefault _ => nilled x && e_nillable d && no_children x
  | _, _ => false
  end.
(** C08-mixedvc: a value constraint on an element with mixed content is ignored altogether *)
Definition cls_mixedvc (d : edecl) : bool :=
  match e_kind d with KMixed => has_vc (e_vc d) | _ => false end.
(** C08-nilwhitespace: element-only content, nilled, no element children, white space characters only *)
Definition cls_nilws (d : edecl) (x : eitem) : bool :=
  match e_kind d with
  | KElemOnly => nilled x && e_nillable d && negb (has_kids x) && negb (is_nil (i_text x)) && all_ws (i_text x)
  | _ => false
  end.
Definition elem_defect_class (d : edecl) (x : eitem) : bool := cls_nildefault d x || cls_mixedvc d || cls_nilws d x.

Ltac split_ifs :=
  repeat match goal with
         | |- context [if ?b then _ else _] => destruct b eqn:?
         | |- context [negb ?b] => destruct b eqn:?
         end.

Lemma elem_check_correct dtv dteq d x :
  edecl_wf dtv d = true -> elem_defect_class d x = false ->
  m_elem_valid dtv dteq d x = elem_valid dtv dteq d x /\
  (m_elem_valid dtv dteq d x = true -> m_elem_value dtv dteq d x = elem_value d x).
Proof.
  destruct d as [k nl v], x as [na nk cm tx].
  unfold edecl_wf, elem_defect_class, cls_nildefault, cls_mixedvc, cls_nilws, m_elem_valid, m_elem_value, m_elem_check,
    elem_valid, elem_value, clause3, clause5, type_valid, m_nil_check, m_chardata, m_check_content, nilled, no_children,
    has_kids; cbn [e_kind e_nillable e_vc i_nil i_nkids i_cm_ok i_text].
  destruct tx as [|c t]; [|remember (all_ws (c :: t)) as aw eqn:Eaw; clear Eaw];
    destruct nk as [|nk]; destruct k, nl, v, na, cm; cbn;
    try destruct aw; cbn; intros Hwf Hcls; try discriminate;
    split; intros; split_ifs; cbn in *; rewrite ?andb_false_r, ?andb_true_r; try reflexivity; try discriminate; try congruence.
Qed.

(** * process contents *)
Definition sum_walk (v : bool) (ks : list etree) : nat :=
  (fix go (ks : list etree) : nat := match ks with [] => 0 | k :: r => m_walk v k + go r end) ks.

Lemma m_walk_unfold validate h declared ok kids :
  m_walk validate (ENode h declared ok kids) =
  let v1 := match h with ByWild PcSkip => false | _ => validate end in
  let lax := match h with ByWild PcLax => true | _ => false end in
  let v2 := if declared then v1 else if lax then false else v1 in
  let e := if declared then 0 else if lax then 0 else if v1 then 1 else 0 in
  e + (if v2 && declared && negb ok then 1 else 0) + sum_walk v2 kids.
Proof. reflexivity. Qed.

Fixpoint etree_ind2 (P : etree -> Prop)
  (H : forall h d o ks, Forall P ks -> P (ENode h d o ks)) (t : etree) : P t :=
  match t with
  | ENode h d o ks =>
      H h d o ks ((fix go (ks : list etree) : Forall P ks :=
                     match ks with [] => Forall_nil _ | k :: r => Forall_cons _ (etree_ind2 P H k) (go r) end) ks)
  end.

Lemma sum_walk_zero v ks : Forall (fun k => m_walk v k = 0) ks -> sum_walk v ks = 0.
Proof. induction 1 as [|k r Hk _ IH]; [reflexivity|]. change (m_walk v k + sum_walk v r = 0). rewrite Hk, IH. reflexivity. Qed.

Lemma m_walk_off t : m_walk false t = 0.
Proof.
  induction t as [h d o ks IH] using etree_ind2. rewrite m_walk_unfold. cbv zeta.
  assert (E : (if d then match h with ByWild PcSkip => false | _ => false end
               else if match h with ByWild PcLax => true | _ => false end then false
                    else match h with ByWild PcSkip => false | _ => false end) = false)
    by (destruct d, h as [|[]]; reflexivity).
  rewrite E. rewrite (sum_walk_zero false ks IH). destruct d, h as [|[]]; reflexivity.
Qed.

Lemma sum_walk_on ks :
  Forall (fun k => (m_walk true k =? 0) = negb (is_invalid (assess k))) ks ->
  (sum_walk true ks =? 0) = negb (existsb (fun k => is_invalid (assess k)) ks).
Proof.
  induction 1 as [|k r Hk _ IH]; [reflexivity|].
  change ((m_walk true k + sum_walk true r =? 0) = negb (is_invalid (assess k) || existsb (fun k => is_invalid (assess k)) r)).
  rewrite negb_orb, <- Hk, <- IH.
  destruct (m_walk true k), (sum_walk true r); reflexivity.
Qed.

Lemma walk_correct t : m_tree_valid t = tree_valid t.
Proof.
  unfold m_tree_valid, tree_valid.
  induction t as [h d o ks IH] using etree_ind2. rewrite m_walk_unfold. cbv zeta.
  pose proof (sum_walk_on ks IH) as HS.
  assert (H0 : sum_walk false ks = 0).
  { apply sum_walk_zero. apply Forall_forall. intros k _. apply m_walk_off. }
  cbn [assess].
  destruct (existsb (fun k => is_invalid (assess k)) ks); cbn [negb] in HS;
    destruct d, o, h as [|[]]; cbn; rewrite ?H0; cbn; try reflexivity;
    try (apply Nat.eqb_eq in HS; rewrite HS; reflexivity);
    try (destruct (sum_walk true ks); [discriminate HS|]; rewrite ?Nat.add_succ_r; reflexivity).
Qed.

(** * overlap of two element-map entries *)
Local Open Scope N_scope.

Lemma lsym_match_spec s x : lsym_match s x = pleaf_match (spec_leaf s) x.
Proof.
  destruct s as [q|k u]; [reflexivity|]. destruct k; cbn; [reflexivity| |].
  - destruct (fst x =? 1) eqn:E1, (fst x =? u) eqn:E2; cbn; unfold absent; rewrite ?E1; reflexivity.
  - rewrite (N.eqb_sym u), orb_false_r. reflexivity.
Qed.

Definition fresh (a b : uri) : uri := N.max (N.max 1 a) b + 1.
Lemma fresh_spec a b : (fresh a b =? 1) = false /\ (fresh a b =? a) = false /\ (fresh a b =? b) = false.
Proof. unfold fresh. repeat split; apply N.eqb_neq; lia. Qed.

Lemma uri_in_wildcard_spec x k u : m_uri_in_wildcard x k u = any_match k u x.
Proof. destruct k; cbn; try reflexivity. apply N.eqb_sym. Qed.

Lemma conflict_correct a b : m_conflict a b = true <-> leaves_overlap (spec_leaf a) (spec_leaf b).
Proof.
  unfold leaves_overlap. setoid_rewrite <- lsym_match_spec.
  destruct a as [q1|k1 u1], b as [q2|k2 u2]; cbn [m_conflict lsym_match].
  - split.
    + intro H. apply qname_eqb_eq in H. subst. exists q2. rewrite qname_eqb_refl. auto.
    + intros [x [H1 H2]]. apply qname_eqb_eq in H1, H2. subst. apply qname_eqb_refl.
  - split.
    + rewrite uri_in_wildcard_spec. intro H. exists q1. rewrite qname_eqb_refl. split; [reflexivity|]. exact H.
    + rewrite uri_in_wildcard_spec. intros [x [H1 H2]]. apply qname_eqb_eq in H1. subst. exact H2.
  - split.
    + rewrite uri_in_wildcard_spec. intro H. exists q2. rewrite qname_eqb_refl. split; [|reflexivity]. exact H.
    + rewrite uri_in_wildcard_spec. intros [x [H1 H2]]. apply qname_eqb_eq in H2. subst. exact H1.
  - destruct (fresh_spec u1 u2) as [F1 [F2 F3]].
    destruct k1, k2; cbn [m_wildcard_intersect any_match fst]; split;
      try (intros _; solve [ exists (fresh u1 u2, 0); cbn [fst]; rewrite ?F1, ?F2, ?F3; auto
                           | exists (u1, 0); cbn [fst]; rewrite ?N.eqb_refl; auto
                           | exists (u2, 0); cbn [fst]; rewrite ?N.eqb_refl; auto ]);
      try (intros _; reflexivity).
    + intro H. exists (u2, 0). cbn [fst]. rewrite ?andb_true_iff, ?negb_true_iff, ?N.eqb_eq, ?N.eqb_neq in *. lia.
    + intros [[xu xl] H]. cbn [fst] in *. rewrite ?andb_true_iff, ?negb_true_iff, ?N.eqb_eq, ?N.eqb_neq in *. lia.
    + intro H. exists (u1, 0). cbn [fst]. rewrite ?andb_true_iff, ?negb_true_iff, ?N.eqb_eq, ?N.eqb_neq in *. lia.
    + intros [[xu xl] H]. cbn [fst] in *. rewrite ?andb_true_iff, ?negb_true_iff, ?N.eqb_eq, ?N.eqb_neq in *. lia.
    + intro H. exists (u1, 0). cbn [fst]. rewrite ?andb_true_iff, ?negb_true_iff, ?N.eqb_eq, ?N.eqb_neq in *. lia.
    + intros [[xu xl] H]. cbn [fst] in *. rewrite ?andb_true_iff, ?negb_true_iff, ?N.eqb_eq, ?N.eqb_neq in *. lia.
Qed.
