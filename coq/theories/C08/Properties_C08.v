(** Property C08 -- XML Schema structure validation accepts exactly the schema-valid instances.
    This file contains only the property theorems (each closed by a lemma of Proofs08*.v), [Print Assumptions] and
    non-vacuity examples.  Specification: Spec08.v ([Lp], [wildcard_allows], [L_all], [attrs_valid]); model of the
    C++: Model08.v ([expand], [convert], [use_repeating], [any_match], [all_validate]).

    Claim: the decision core (occurrence expansion, conversion of groups and wildcards into the content-spec tree,
    all-groups, wildcard namespace test) is proved.  What schema component a given <xs:complexType> denotes
    (TraverseSchema) and the construction of DFAContentModel from the converted tree (including the counting states
    used for the compact Loop form, whose intended semantics is the clause for [CLoop] in [Lc]) are tied to the code
    by the correspondence run only. *)
From XV Require Import C08.Spec08 C08.Model08 C08.ModelDfa08 C08.Proofs08a C08.Proofs08b C08.Proofs08c C08.Proofs08d C08.Proofs08e C08.Proofs08f C08.Proofs08g C08.Proofs08h C08.Proofs08i C08.SpecElem08 C08.ModelElem08 C08.Proofs08j.

Notation u1 := 1%N. Notation u2 := 2%N. Notation u3 := 3%N. Notation u4 := 4%N.

(** the oracle of the correspondence decides the specification language, for every particle and child sequence *)
Theorem T08_pmatch : forall p w, pmatch p w = true <-> Lp p w.
Proof. exact pmatch_correct. Qed.
Print Assumptions T08_pmatch.

(** ComplexTypeInfo::expandContentModel: the tree built for an occurrence range m..n (n = None: unbounded) of the node
    c -- in the expanded form and in the compact Loop form -- denotes exactly the m..n-fold repetitions of L(c),
    for all c, all 0 <= m <= n and n >= 1 (FULL for max >= 1; see T08_expand_max0_refuted for n = 0) *)
Theorem T08_expand : forall c m n compact, not_loop c -> le_bound m n -> n <> Some 0 ->
  forall w, Lc (expand c m n compact) w <-> l_rep m n (Lc c) w.
Proof. exact expand_correct. Qed.
Print Assumptions T08_expand.

Example T08_expand_nonvacuous :
  let c := CSeq (CLeaf (2, 1)%N) (COpt (CLeaf (2, 2)%N)) in
  not_loop c /\ le_bound 2 (Some 5) /\ Some 5 <> Some 0 /\
  cmatch (Some (expand c 2 (Some 5) false)) [(2,1);(2,2);(2,1);(2,1)]%N = true /\
  cmatch (Some (expand c 2 (Some 5) false)) [(2,1)]%N = false /\
  cmatch (Some (expand (CLeaf (2, 1)%N) 2 (Some 3) true)) [(2,1);(2,1);(2,1)]%N = true /\
  cmatch (Some (expand (CLeaf (2, 1)%N) 2 (Some 3) true)) [(2,1);(2,1);(2,1);(2,1)]%N = false.
Proof. cbv zeta. repeat split; try exact I; try discriminate; cbn; try lia; vm_compute; reflexivity. Qed.

(** known finding C08-max0, on the faithful model: for minOccurs = maxOccurs = 0 the expansion is an optional node *)
Theorem T08_expand_max0_refuted : exists c w, Lc (expand c 0 (Some 0) false) w /\ ~ l_rep 0 (Some 0) (Lc c) w.
Proof.
  exists (CLeaf (2, 1)%N), [(2, 1)%N]. split.
  - cbn [expand Nat.eqb andb seq_left Nat.sub Lc]. right. exists (2, 1)%N. split; reflexivity.
  - intros (k & _ & H2 & H3). cbn in H2. assert (k = 0) by lia. subst. discriminate H3.
Qed.
Print Assumptions T08_expand_max0_refuted.

(** traverseAny / traverseChoiceSequence + convertContentSpecTree: for every well-formed particle (ranges with
    min <= max, max >= 1; no empty namespace list; no empty group directly inside a choice) the tree handed to the
    content model denotes exactly Lp, whichever of the two forms useRepeatingLeafNodes selects *)
Theorem T08_convert : forall compact p, wfb p = true -> forall w, Lco (convert compact p) w <-> Lp p w.
Proof. exact convert_correct. Qed.
Print Assumptions T08_convert.

Theorem T08_content_model : forall p w, wfb p = true -> (model_valid p w = true <-> Lp p w).
Proof.
  intros p w H. unfold model_valid, content_tree. rewrite cmatch_correct. apply convert_correct. exact H.
Qed.
Print Assumptions T08_content_model.

Definition ex_particle : particle :=
  Seq 2 (Some 3) [Choice 1 (Some 1) [Elem 1 None (2, 1)%N; Wild 0 (Some 2) (NsSet [3; 4; 3]%N)];
                  Seq 0 (Some 1) [Elem 2 (Some 2) (1, 2)%N]; Seq 1 (Some 1) []].
Example T08_convert_nonvacuous :
  wfb ex_particle = true /\ use_repeating ex_particle = false /\
  model_valid ex_particle [(2,1);(2,1);(1,2);(1,2);(3,9);(4,9)]%N = true /\
  model_valid ex_particle [(2,1);(1,2)]%N = false /\
  use_repeating (Seq 1 (Some 1) [Elem 2 (Some 4) (2, 1)%N; Wild 1 (Some 3) (NsNot 2%N)]) = true.
Proof. repeat split; vm_compute; reflexivity. Qed.

(** known finding C08-emptychoice: an empty group inside a choice is dropped (faithful model): the empty content is
    in the language of choice(a, sequence()) but the model -- like the library -- rejects it *)
Theorem T08_emptychoice_refuted :
  let p := Choice 1 (Some 1) [Elem 1 (Some 1) (2, 1)%N; Seq 1 (Some 1) []] in
  Lp p [] /\ model_valid p [] = false.
Proof. cbv zeta. split; [apply pmatch_correct|]; vm_compute; reflexivity. Qed.
Print Assumptions T08_emptychoice_refuted.

(** wildcards: the test performed on the leaves produced by traverseAny equals 3.10.4 Wildcard allows Namespace
    Name, for every form of the namespace attribute except the empty list *)
Theorem T08_wildcard : forall tns a x, a <> AttrList [] ->
  wild_decide (constraint_of tns a) x = wildcard_allows (constraint_of tns a) x.
Proof.
  intros tns a x Ha. apply wild_decide_correct. destruct a as [| |l]; cbn [constraint_of]; try discriminate.
  destruct l; [congruence|discriminate].
Qed.
Print Assumptions T08_wildcard.

Example T08_wildcard_nonvacuous :
  wild_decide (constraint_of u2 (AttrList [TokLocal; TokUri u3; TokTarget; TokUri u3])) u1 = true /\
  wild_decide (constraint_of u2 (AttrList [TokLocal; TokUri u3; TokTarget; TokUri u3])) u4 = false /\
  wild_decide (constraint_of u2 AttrOther) u1 = false /\ wild_decide (constraint_of u2 AttrOther) u3 = true.
Proof. repeat split; vm_compute; reflexivity. Qed.

(** known finding C08-emptyns: namespace="" is read as ##any *)
Theorem T08_wildcard_emptylist_refuted :
  wild_decide (constraint_of u2 (AttrList [])) u2 = true /\ wildcard_allows (constraint_of u2 (AttrList [])) u2 = false.
Proof. exact wild_decide_empty_list_refuted. Qed.
Print Assumptions T08_wildcard_emptylist_refuted.

(** all-groups: AllContentModel::validateContent accepts exactly the permutations of sub-multisets of the members
    that contain every required member (or nothing, when the group is optional); equivalently: duplicate-free,
    within the declared names, containing all required ones.  Member names are distinct (Element Declarations
    Consistent / UPA make this a constraint on every valid all-group). *)
Theorem T08_all : forall g w, NoDup (map fst (ag_members g)) -> (all_validate g w = true <-> L_all g w).
Proof. intros g w H. rewrite (all_validate_correct g w H). symmetry. apply L_all_char. exact H. Qed.
Print Assumptions T08_all.

Theorem T08_all_char : forall g w, NoDup (map fst (ag_members g)) ->
  (all_validate g w = true <->
   (w = [] /\ ag_optional g = true) \/
   (NoDup w /\ (forall x, In x w -> In x (map fst (ag_members g))) /\ (forall q, In (q, true) (ag_members g) -> In q w))).
Proof. exact all_validate_correct. Qed.
Print Assumptions T08_all_char.

Definition ex_all : allgroup :=
  {| ag_optional := true; ag_members := [((2, 1), true); ((2, 2), false); ((1, 3), true)]%N |}.
Example T08_all_nonvacuous :
  NoDup (map fst (ag_members ex_all)) /\
  all_validate ex_all [(1,3);(2,1)]%N = true /\ all_validate ex_all [(2,2);(1,3);(2,1)]%N = true /\
  all_validate ex_all [] = true /\ all_validate ex_all [(2,1)]%N = false /\
  all_validate ex_all [(2,1);(1,3);(2,1)]%N = false /\ all_validate ex_all [(2,1);(1,3);(2,5)]%N = false.
Proof.
  split; [|repeat split; vm_compute; reflexivity].
  apply nodupb_NoDup. vm_compute. reflexivity.
Qed.

(** attribute uses: the per-attribute decision and the required / default / fixed loop of buildAttList agree with
    3.4.4 clauses 3-4 and 3.4.5, for every declaration table and attribute set in which no provided attribute names a
    declaration with use = prohibited (that class is the known finding C08-prohibited, refuted below) *)
Theorem T08_attr_uses : forall d declared atts, no_prohibited_hit d atts = true ->
  m_attrs_valid d declared atts = attrs_valid d declared atts.
Proof. exact m_attrs_valid_spec. Qed.
Print Assumptions T08_attr_uses.

Theorem T08_attr_defaults : forall d declared atts, m_attrs_valid d declared atts = true ->
  m_defaulted d atts = defaulted d atts.
Proof. exact m_defaulted_spec. Qed.
Print Assumptions T08_attr_defaults.

Definition ex_decls : attrdecls :=
  {| ad_uses := [ {| au_name := (u1, 1%N); au_use := URequired; au_vc := VFixed [70%N] |};
                  {| au_name := (u1, 2%N); au_use := UOptional; au_vc := VDefault [71%N] |};
                  {| au_name := (u1, 3%N); au_use := UProhibited; au_vc := VNone |} ];
     ad_wild := Some (NsSet [u1; u3], PcStrict) |}.
Example T08_attr_uses_nonvacuous :
  let atts := [((u1, 1%N), [70%N]); ((u3, 9%N), [72%N])] in
  no_prohibited_hit ex_decls atts = true /\
  m_attrs_valid ex_decls (fun q => qname_eqb q (u3, 9%N)) atts = true /\
  m_defaulted ex_decls atts = [((u1, 2%N), [71%N])] /\
  m_attrs_valid ex_decls (fun _ => false) atts = false /\
  m_attrs_valid ex_decls (fun _ => true) [((u1, 1%N), [75%N])] = false /\
  m_attrs_valid ex_decls (fun _ => true) [((u1, 2%N), [75%N])] = false.
Proof. cbv zeta. repeat split; vm_compute; reflexivity. Qed.

(** known finding C08-prohibited: a prohibited declaration is no attribute use, the wildcard decides *)
Theorem T08_attr_prohibited_refuted : exists d declared atts,
  attrs_valid d declared atts = true /\ m_attrs_valid d declared atts = false.
Proof.
  exists ex_decls, (fun _ => true), [((u1, 1%N), [70%N]); ((u1, 3%N), [72%N])]. split; vm_compute; reflexivity.
Qed.
Print Assumptions T08_attr_prohibited_refuted.

(** xsi:type: the two loops of SchemaValidator::validateElement (find the declared type among the ancestors of the
    xsi:type; check the derivation method of EVERY type below it against the element's and the declared type's block
    sets) accept exactly when the type is not abstract and is the declared type or derived from it by a chain with no
    blocked step (3.3.4 clause 4.3 / 3.4.6), for every ancestry list, block sets and declared type *)
Theorem T08_xsitype : forall d eb tb abstract up,
  m_xsitype d eb tb abstract up = true <-> xsitype_ok d eb tb abstract up.
Proof. exact m_xsitype_correct. Qed.
Print Assumptions T08_xsitype.

(** the decider used as oracle for xsi:type decides the specification *)
Theorem T08_xsitype_dec : forall d eb tb abstract up,
  xsitype_okb d eb tb abstract up = true <-> xsitype_ok d eb tb abstract up.
Proof. exact xsitype_okb_correct. Qed.
Print Assumptions T08_xsitype_dec.

Example T08_xsitype_nonvacuous :
  let up := [(3%N, DRestr); (2%N, DExt); (1%N, DRestr)] in        (* Leaf -restriction-> Mid -extension-> Base *)
  let none := {| bk_ext := false; bk_restr := false |} in
  let bext := {| bk_ext := true; bk_restr := false |} in
  let bres := {| bk_ext := false; bk_restr := true |} in
  m_xsitype 1 none none false up = true /\
  m_xsitype 1 bext none false up = false /\
  m_xsitype 1 none bres false up = false /\
  m_xsitype 2 bext none false up = true /\
  m_xsitype 3 bext bres false up = true /\
  m_xsitype 1 none none true up = false /\
  m_xsitype 4 none none false up = false.
Proof. cbv zeta. repeat split; vm_compute; reflexivity. Qed.

(** known finding C08-counting, on the faithful model of DFAContentModel as built without leaf renaming
    (schema-full-checking off): two particles with the same name share one element-map entry and hence one
    Occurence; the well-formed, UPA-conforming particle (a{2,3}, b, a{1,2}) loses the valid word a a b a and gains
    the invalid word a a b a a a.  (The design's T08_counting -- the counting DFA accepts exactly Lp under UPA when
    no two leaves share a map entry -- is NOT proved; ModelDfa08 is tied to the code by the correspondence only.) *)
Definition ex_counting : particle :=
  Seq 1 (Some 1) [Elem 2 (Some 3) (u2, 1%N); Elem 1 (Some 1) (u2, 2%N); Elem 1 (Some 2) (u2, 1%N)].
Theorem T08_counting_refuted :
  wfb ex_counting = true /\
  Lp ex_counting [(u2,1);(u2,1);(u2,2);(u2,1)]%N /\ dfa_valid 500 ex_counting [(u2,1);(u2,1);(u2,2);(u2,1)]%N = 0 /\
  ~ Lp ex_counting [(u2,1);(u2,1);(u2,2);(u2,1);(u2,1);(u2,1)]%N /\
  dfa_valid 500 ex_counting [(u2,1);(u2,1);(u2,2);(u2,1);(u2,1);(u2,1)]%N = 1.
Proof.
  split; [vm_compute; reflexivity|]. split; [apply pmatch_correct; vm_compute; reflexivity|].
  split; [vm_compute; reflexivity|]. split; [|vm_compute; reflexivity].
  intro H. apply pmatch_correct in H. vm_compute in H. discriminate H.
Qed.
Print Assumptions T08_counting_refuted.

(** the DFA model on a counted particle followed by a counted wildcard that matches the same name (overflow search and
    counter of the newly entered counting state in handleRepetitions): agrees with Lp on the boundary words *)
Example T08_dfa_overlap_example :
  let p := Seq 1 (Some 1) [Elem 2 (Some 2) (u2, 1%N); Wild 2 (Some 3) NsAny] in
  let a := (u2, 1%N) in let x := (u3, 6%N) in
  dfa_valid 500 p [a;a;a;x] = 1 /\ pmatch p [a;a;a;x] = true /\
  dfa_valid 500 p [a;a;a;a] = 1 /\ pmatch p [a;a;a;a] = true /\
  dfa_valid 500 p [a;a;a;x;x;x] = 0 /\ pmatch p [a;a;a;x;x;x] = false /\
  dfa_valid 500 p [a;a;x] = 0 /\ pmatch p [a;a;x] = false.
Proof. cbv zeta. repeat split; vm_compute; reflexivity. Qed.

(** substitution groups: SubstitutionGroupComparator::isEquivalentTo (walk over the substitution-group affiliations to
    find the head, block=substitution on the head, walk from the member's type to the head's type accumulating the
    derivation methods and the block sets of head element + every type above the member's type up to the head's type)
    decides exactly 3.3.6 Substitution Group OK (Transitive), for every affiliation chain, type chain and block sets *)
Theorem T08_subst : forall member head affil hb ht up,
  m_subst member head affil hb ht up = true <-> subst_ok member head affil hb ht up.
Proof. exact m_subst_correct. Qed.
Print Assumptions T08_subst.

Theorem T08_subst_dec : forall member head affil hb ht up,
  subst_okb member head affil hb ht up = true <-> subst_ok member head affil hb ht up.
Proof. exact subst_okb_correct. Qed.
Print Assumptions T08_subst_dec.

Example T08_subst_nonvacuous :
  let none := {| bk_ext := false; bk_restr := false |} in
  let bext := {| bk_ext := true; bk_restr := false |} in
  let nb := {| eb_types := none; eb_subst := false |} in
  (* member type 3 -restriction-> 2 -extension-> 1 = head type *)
  let up b3 b2 b1 := [(3%N, DRestr, b3); (2%N, DExt, b2); (1%N, DRestr, b1)] in
  m_subst 9 8 [7%N; 8%N] nb 1 (up none none none) = true /\
  m_subst 9 8 [7%N; 8%N] nb 1 (up bext none none) = true /\       (* the member type's own block does not count *)
  m_subst 9 8 [7%N; 8%N] nb 1 (up none bext none) = false /\      (* an intermediate type's block does *)
  m_subst 9 8 [7%N; 8%N] nb 1 (up none none bext) = false /\      (* and the head type's *)
  m_subst 9 8 [7%N; 8%N] {| eb_types := bext; eb_subst := false |} 1 (up none none none) = false /\
  m_subst 9 8 [7%N; 8%N] {| eb_types := none; eb_subst := true |} 1 (up none none none) = false /\
  m_subst 9 8 [7%N] nb 1 (up none none none) = false /\
  m_subst 8 8 [] {| eb_types := bext; eb_subst := true |} 1 [] = true.
Proof. cbv zeta. repeat split; vm_compute; reflexivity. Qed.

(** attribute wildcards: what attWildCardIntersection / attWildCardUnion compute allows exactly the namespaces allowed
    by both / by either operand (3.10.6), they give up exactly in the cases the Recommendation calls not expressible,
    and so does every combination evaluated the way the complete wildcard of a complex type is built *)
Theorem T08_attwildcard_intersection : forall r c,
  (forall w, m_wc_inter r c = Some w -> is_wc_intersection w r c) /\
  (m_wc_inter r c = None <-> inter_not_expressible r c).
Proof. intros r c. split; [intros w; apply wc_inter_sound|apply wc_inter_none]. Qed.
Print Assumptions T08_attwildcard_intersection.

Theorem T08_attwildcard_union : forall r c,
  (forall w, m_wc_union r c = Some w -> is_wc_union w r c) /\
  (m_wc_union r c = None <-> union_not_expressible r c).
Proof. intros r c. split; [intros w; apply wc_union_sound|apply wc_union_none]. Qed.
Print Assumptions T08_attwildcard_union.

Theorem T08_attwildcard : forall e w, m_wexpr e = Some w -> forall x, wildcard_allows w x = wexpr_allows e x.
Proof. exact m_wexpr_sound. Qed.
Print Assumptions T08_attwildcard.

Example T08_attwildcard_nonvacuous :
  m_wexpr (WInter (WLeaf (NsNot u2)) (WLeaf (NsSet [u1; u2; u3]))) = Some (NsSet [u3]) /\
  m_wexpr (WUnion (WLeaf (NsNot u2)) (WLeaf (NsSet [u2; u3]))) = Some (NsNot u1) /\
  m_wexpr (WUnion (WLeaf (NsNot u2)) (WLeaf (NsSet [u1; u3]))) = None /\
  m_wexpr (WInter (WLeaf (NsNot u2)) (WLeaf (NsNot u3))) = None /\
  m_wexpr (WUnion (WInter (WLeaf NsAny) (WLeaf (NsSet [u1; u4]))) (WLeaf (NsSet [u2]))) = Some (NsSet [u1; u4; u2]).
Proof. repeat split; vm_compute; reflexivity. Qed.

(** known finding C08-attwild-anylist on the faithful model: ##any intersected with a namespace list allows nothing *)
Theorem T08_attwildcard_anylist_refuted :
  let e := WInter (WLeaf NsAny) (WLeaf (NsSet [u1])) in
  wexpr_allows e u1 = true /\ exists w, m_wexpr_faithful e = Some w /\ wildcard_allows w u1 = false.
Proof. cbv zeta. split; [reflexivity|]. exists (NsSet []). split; reflexivity. Qed.
Print Assumptions T08_attwildcard_anylist_refuted.

(** known finding C08-attwild-emptyunion on the faithful model: (##other /\ ##local) \/ ##other is expressible
    (it is ##other) but the unrepaired union gives up *)
Theorem T08_attwildcard_emptyunion_refuted :
  let e := WUnion (WInter (WLeaf (NsNot u2)) (WLeaf (NsSet [u1]))) (WLeaf (NsNot u2)) in
  m_wexpr e = Some (NsNot u2) /\ m_wexpr_faithful e = None.
Proof. cbv zeta. split; reflexivity. Qed.
Print Assumptions T08_attwildcard_emptyunion_refuted.

(** restriction of a complex type, attribute uses and attribute wildcard: the per-attribute loop of
    TraverseSchema::checkAttDerivationOK and isWildCardSubset report no error exactly when clauses 2-4 of 3.4.6
    Derivation Valid (Restriction, Complex) hold, for every base / derived declaration table -- outside two classes:
    a prohibited declaration without a counterpart in the base, and a list containing ##local under a ##other base
    wildcard (see the refutations) *)
Theorem T08_attr_derivation : forall tder base bw decls dw,
  no_stray_prohibited base decls = true -> no_absent_under_not bw dw = true ->
  m_att_derivation tder base bw decls dw = attr_restriction_ok tder base bw decls dw.
Proof. exact m_att_derivation_spec. Qed.
Print Assumptions T08_attr_derivation.

(** the Wildcard Subset table only relates wildcards that are subsets *)
Theorem T08_wc_subset_sound : forall sub super, wc_subset sub super = true ->
  forall x, wildcard_allows sub x = true -> wildcard_allows super x = true.
Proof. exact wc_subset_sound. Qed.
Print Assumptions T08_wc_subset_sound.

Definition ex_base : list adecl :=
  [ {| ad_name := (u1, 1%N); ad_use := URequired; ad_vc := VNone; ad_type := 0%N |};
    {| ad_name := (u1, 2%N); ad_use := UOptional; ad_vc := VFixed [70%N]; ad_type := 0%N |} ].
Example T08_attr_derivation_nonvacuous :
  let tder := fun r b => (r =? b)%N || ((b =? 0)%N && (r =? 1)%N) in
  let d1 u := {| ad_name := (u1, 1%N); ad_use := u; ad_vc := VNone; ad_type := 1%N |} in
  let d2 v := {| ad_name := (u1, 2%N); ad_use := URequired; ad_vc := v; ad_type := 0%N |} in
  no_stray_prohibited ex_base [d1 URequired; d2 (VFixed [70%N])] = true /\
  m_att_derivation tder ex_base (Some (NsNot u2)) [d1 URequired; d2 (VFixed [70%N])] (Some (NsSet [u3])) = true /\
  m_att_derivation tder ex_base None [d1 UOptional] None = false /\         (* required -> optional *)
  m_att_derivation tder ex_base None [d1 UProhibited] None = false /\       (* required -> prohibited *)
  m_att_derivation tder ex_base None [d2 (VFixed [71%N])] None = false /\   (* fixed value changed *)
  m_att_derivation tder ex_base None [d2 VNone] None = false /\
  m_att_derivation tder ex_base (Some (NsSet [u3])) [] (Some (NsSet [u3; u4])) = false /\   (* wildcard widened *)
  m_att_derivation tder ex_base None [] (Some NsAny) = false.
Proof. cbv zeta. repeat split; vm_compute; reflexivity. Qed.

(** known findings on the faithful model of checkAttDerivationOK / isWildCardSubset *)
Theorem T08_attr_derivation_strayprohibited_refuted :
  let tder := fun r b => (r =? b)%N in
  let d := {| ad_name := (u1, 4%N); ad_use := UProhibited; ad_vc := VNone; ad_type := 0%N |} in
  attr_restriction_ok tder ex_base None [d] None = true /\ m_att_derivation tder ex_base None [d] None = false.
Proof. cbv zeta. split; vm_compute; reflexivity. Qed.
Print Assumptions T08_attr_derivation_strayprohibited_refuted.

Theorem T08_wc_subset_absent_refuted :
  m_wc_subset (NsNot u2) (NsSet [u1]) = true /\ wc_subset (NsSet [u1]) (NsNot u2) = false /\
  wildcard_allows (NsSet [u1]) u1 = true /\ wildcard_allows (NsNot u2) u1 = false.
Proof. repeat split; reflexivity. Qed.
Print Assumptions T08_wc_subset_absent_refuted.

(** * One element against its declaration: xsi:nil, value constraints, content type (3.3.4 clauses 3 and 5, 3.4.4 clause 2) *)
(** SchemaValidator::validateElement (NillNotAllowed) + sendCharData (NoCharDataInCM, fDatatypeBuffer) +
    SchemaValidator::checkContent report no error exactly when the item is valid per [elem_valid], and the characters
    reported for a valid item are its [schema normalized value], for every datatype (dtv, dteq), every well-formed
    declaration and every item outside the three refuted classes below.  PARTIAL in that sense only. *)
Theorem T08_elem_content : forall dtv dteq d x,
  edecl_wf dtv d = true -> elem_defect_class d x = false ->
  m_elem_valid dtv dteq d x = elem_valid dtv dteq d x /\
  (m_elem_valid dtv dteq d x = true -> m_elem_value dtv dteq d x = elem_value d x).
Proof. exact elem_check_correct. Qed.
Print Assumptions T08_elem_content.

Definition ex_dtv (t : list N) : bool := true.
Definition ex_item na nk cm tx := {| i_nil := na; i_nkids := nk; i_cm_ok := cm; i_text := tx |}.
Definition ex_decl k nl v := {| e_kind := k; e_nillable := nl; e_vc := v |}.
Example T08_elem_content_nonvacuous :
  let F := VFixed [97; 98]%N in
  edecl_wf ex_dtv (ex_decl KSimple true F) = true /\
  elem_defect_class (ex_decl KSimple true F) (ex_item NilTrue 0 true []) = false /\
  m_elem_valid ex_dtv str_eqb (ex_decl KSimple true F) (ex_item NilTrue 0 true []) = false /\      (* 3.2.2 *)
  m_elem_valid ex_dtv str_eqb (ex_decl KSimple true F) (ex_item NilAbsent 0 true [97; 98]%N) = true /\
  m_elem_valid ex_dtv str_eqb (ex_decl KSimple true F) (ex_item NilAbsent 0 true [97]%N) = false /\ (* 5.2.2.2.2 *)
  m_elem_value ex_dtv str_eqb (ex_decl KSimple true F) (ex_item NilFalse 0 true []) = [97; 98]%N /\  (* 5.1 *)
  m_elem_valid ex_dtv str_eqb (ex_decl KSimple false VNone) (ex_item NilFalse 0 true []) = false /\ (* 3.1 *)
  m_elem_valid ex_dtv str_eqb (ex_decl KElemOnly true VNone) (ex_item NilTrue 1 true []) = false /\  (* 3.2.1 *)
  m_elem_valid ex_dtv str_eqb (ex_decl KElemOnly true VNone) (ex_item NilTrue 0 false []) = true /\  (* content not checked *)
  m_elem_valid ex_dtv str_eqb (ex_decl KElemOnly true VNone) (ex_item NilAbsent 1 true [32; 120]%N) = false /\ (* 2.3 *)
  m_elem_valid ex_dtv str_eqb (ex_decl KEmpty true VNone) (ex_item NilAbsent 0 true [32]%N) = false /\ (* 2.1 *)
  m_elem_valid ex_dtv str_eqb (ex_decl KMixed true VNone) (ex_item NilAbsent 1 true [120]%N) = true.
Proof. cbv zeta. repeat split; vm_compute; reflexivity. Qed.

(** known finding C08-nildefault: xsi:nil="true" on a nillable element declared with a default (not fixed) value is
    rejected with NilAttrNotEmpty; 3.3.4 clause 3.2.2 only excludes a *fixed* value constraint *)
Theorem T08_elem_nildefault_refuted : exists d x,
  edecl_wf ex_dtv d = true /\ elem_valid ex_dtv str_eqb d x = true /\ m_elem_valid ex_dtv str_eqb d x = false.
Proof. exists (ex_decl KSimple true (VDefault [97]%N)), (ex_item NilTrue 0 true []). repeat split; vm_compute; reflexivity. Qed.
Print Assumptions T08_elem_nildefault_refuted.
(** known finding C08-mixedvc: the value constraint of an element with mixed content is ignored: a fixed value is
    not compared (5.2.2.2.1), element children are accepted (5.2.2.1), xsi:nil is accepted (3.2.2), a default is not
    reported for empty content (5.1) *)
Theorem T08_elem_mixedvc_refuted :
  let d := ex_decl KMixed true (VFixed [97]%N) in
  edecl_wf ex_dtv d = true /\
  (elem_valid ex_dtv str_eqb d (ex_item NilAbsent 0 true [98]%N) = false /\ m_elem_valid ex_dtv str_eqb d (ex_item NilAbsent 0 true [98]%N) = true) /\
  (elem_valid ex_dtv str_eqb d (ex_item NilAbsent 1 true []) = false /\ m_elem_valid ex_dtv str_eqb d (ex_item NilAbsent 1 true []) = true) /\
  (elem_valid ex_dtv str_eqb d (ex_item NilTrue 0 true []) = false /\ m_elem_valid ex_dtv str_eqb d (ex_item NilTrue 0 true []) = true) /\
  (elem_value d (ex_item NilAbsent 0 true []) = [97]%N /\ m_elem_value ex_dtv str_eqb d (ex_item NilAbsent 0 true []) = []).
Proof. cbv zeta. repeat split; vm_compute; reflexivity. Qed.
Print Assumptions T08_elem_mixedvc_refuted.
(** known finding C08-nilwhitespace: a nilled element with element-only content and white space characters is accepted
    (3.2.1: no character or element information item children) *)
Theorem T08_elem_nilws_refuted : exists d x,
  edecl_wf ex_dtv d = true /\ elem_valid ex_dtv str_eqb d x = false /\ m_elem_valid ex_dtv str_eqb d x = true.
Proof. exists (ex_decl KElemOnly true VNone), (ex_item NilTrue 0 true [32]%N). repeat split; vm_compute; reflexivity. Qed.
Print Assumptions T08_elem_nilws_refuted.

(** * {process contents}: scanStartTagNS / laxElementValidation over an element tree *)
(** the scanner reports no error in the tree exactly when the root is not invalid per 3.3.5 [validity] with the
    skip / lax / strict rules of 3.10.1 -- for every tree (FULL on the modelled inputs: availability of a declaration and
    local validity of each element are inputs) *)
Theorem T08_process_contents : forall t, m_tree_valid t = tree_valid t.
Proof. exact walk_correct. Qed.
Print Assumptions T08_process_contents.
Theorem T08_process_contents_off : forall t, m_walk false t = 0.
Proof. exact m_walk_off. Qed.
Example T08_process_contents_nonvacuous :
  let bad := ENode (ByWild PcStrict) true false [] in
  let und h := ENode h false true [bad] in
  m_tree_valid (ENode ByDecl true true [und (ByWild PcLax)]) = true /\
  m_tree_valid (ENode ByDecl true true [und (ByWild PcSkip)]) = true /\
  m_tree_valid (ENode ByDecl true true [und (ByWild PcStrict)]) = false /\
  m_tree_valid (ENode ByDecl true true [ENode (ByWild PcLax) true true [bad]]) = false /\
  m_tree_valid (ENode ByDecl true true [ENode (ByWild PcSkip) true false [bad]]) = true /\
  m_walk true (ENode ByDecl true true [und (ByWild PcStrict); bad]) = 3.
Proof. cbv zeta. repeat split; vm_compute; reflexivity. Qed.

(** * UPA check: the overlap test on two element-map entries *)
(** XercesElementWildcard::conflict (elements without substitution groups, Any / Any_Other / Any_NS wildcards) answers
    true exactly when some element name can be attributed to both leaves (sound and complete, all namespaces) *)
Theorem T08_upa_conflict : forall a b, m_conflict a b = true <-> leaves_overlap (spec_leaf a) (spec_leaf b).
Proof. exact conflict_correct. Qed.
Print Assumptions T08_upa_conflict.
Example T08_upa_conflict_nonvacuous :
  m_conflict (LA KOther u2) (LA KOther u3) = true /\ m_conflict (LA KNS u2) (LA KOther u2) = false /\
  m_conflict (LA KNS u1) (LA KOther u2) = false /\ m_conflict (LQ (u3, 6%N)) (LA KOther u2) = true /\
  m_conflict (LQ (u2, 1%N)) (LQ (u2, 2%N)) = false /\ m_conflict (LA KNS u3) (LA KNS u3) = true.
Proof. repeat split; vm_compute; reflexivity. Qed.
