(** Specification side of C08: XML Schema 1.0 Structures, the part that decides element-content and
    attribute validity.  Nothing here mentions the C++ code.

    - particles (3.9): element declarations, wildcards, sequence and choice groups, each with an
      occurrence range (min, max | unbounded); the language [Lp] of child-name sequences a particle
      accepts (3.9.4 Element Sequence Valid): [Lp (p{m,n}) = U_{m<=k<=n} (L p)^k];
    - wildcards (3.10.4 Wildcard allows Namespace Name);
    - all-groups (3.8.4): some permutation of a sub-multiset of the members that contains every
      required member, or nothing at all when the group itself is optional;
    - attribute uses (3.4.4 Element Locally Valid (Complex Type), clauses 3 and 4; 3.5.4). *)
From Coq Require Export List Bool Arith NArith Lia Permutation.
Export ListNotations.

(** * Names *)
(** namespace names and local names are numbered by the generator; [absent] is "no namespace" *)
Definition uri := N.
Definition absent : uri := 1%N.
Definition qname := (uri * N)%type.
Definition qname_eqb (a b : qname) : bool := (fst a =? fst b)%N && (snd a =? snd b)%N.

(** * Wildcards *)
(** {namespace constraint}: any | not (namespace name or absent) | a set of (namespace name or absent) *)
Inductive nsc := NsAny | NsNot (u : uri) | NsSet (l : list uri).

Definition mem_uri (u : uri) (l : list uri) : bool := existsb (N.eqb u) l.

(** 3.10.4 Wildcard allows Namespace Name *)
Definition wildcard_allows (c : nsc) (u : uri) : bool :=
  match c with
  | NsAny => true
  | NsNot v => negb (u =? v)%N && negb (u =? absent)%N
  | NsSet l => mem_uri u l
  end.

(** the [namespace] attribute of <any>/<anyAttribute> and its mapping to a constraint (3.10.2) *)
Inductive nstok := TokUri (u : uri) | TokTarget | TokLocal.
Inductive nsattr := AttrAny | AttrOther | AttrList (l : list nstok).
Definition tok_uri (tns : uri) (t : nstok) : uri :=
  match t with TokUri u => u | TokTarget => tns | TokLocal => absent end.
Definition constraint_of (tns : uri) (a : nsattr) : nsc :=
  match a with
  | AttrAny => NsAny
  | AttrOther => NsNot tns
  | AttrList l => NsSet (map (tok_uri tns) l)
  end.

(** * Particles *)
(** maximum: [None] = unbounded *)
Definition le_bound (k : nat) (n : option nat) : Prop := match n with None => True | Some n => k <= n end.

Inductive particle :=
| Elem (m : nat) (n : option nat) (q : qname)
| Wild (m : nat) (n : option nat) (c : nsc)
| Seq (m : nat) (n : option nat) (ps : list particle)
| Choice (m : nat) (n : option nat) (ps : list particle).

Definition lang := list qname -> Prop.
Definition l_eps : lang := fun w => w = [].
Definition l_void : lang := fun _ => False.
Definition l_cat (A B : lang) : lang := fun w => exists u v, w = u ++ v /\ A u /\ B v.
Definition l_alt (A B : lang) : lang := fun w => A w \/ B w.
Fixpoint l_pow (A : lang) (k : nat) : lang :=
  match k with O => l_eps | S k => l_cat A (l_pow A k) end.
(** [A{m,n}]: between m and n consecutive pieces, each in A *)
Definition l_rep (m : nat) (n : option nat) (A : lang) : lang :=
  fun w => exists k, m <= k /\ le_bound k n /\ l_pow A k w.
Definition l_sym (P : qname -> bool) : lang := fun w => exists q, w = [q] /\ P q = true.

Fixpoint l_seq (ls : list lang) : lang := match ls with [] => l_eps | A :: r => l_cat A (l_seq r) end.
Fixpoint l_choice (ls : list lang) : lang := match ls with [] => l_void | A :: r => l_alt A (l_choice r) end.

(** 3.9.4 Element Sequence Valid / 3.8.4 Element Sequence Valid (groups) *)
Fixpoint Lp (p : particle) : lang :=
  match p with
  | Elem m n q => l_rep m n (l_sym (qname_eqb q))
  | Wild m n c => l_rep m n (l_sym (fun x => wildcard_allows c (fst x)))
  | Seq m n ps => l_rep m n ((fix go (ps : list particle) : lang :=
                                match ps with [] => l_eps | p :: r => l_cat (Lp p) (go r) end) ps)
  | Choice m n ps => l_rep m n ((fix go (ps : list particle) : lang :=
                                   match ps with [] => l_void | p :: r => l_alt (Lp p) (go r) end) ps)
  end.

(** * A decider for [Lp]: derivatives with occurrence counters *)
Inductive sym := SQ (q : qname) | SW (c : nsc).
Definition sym_match (s : sym) (x : qname) : bool :=
  match s with SQ q => qname_eqb q x | SW c => wildcard_allows c (fst x) end.

Inductive re :=
| RVoid | REps | RSym (s : sym) | RCat (a b : re) | RAlt (a b : re)
| ROcc (m : nat) (n : option nat) (a : re).

Fixpoint Lr (r : re) : lang :=
  match r with
  | RVoid => l_void
  | REps => l_eps
  | RSym s => l_sym (sym_match s)
  | RCat a b => l_cat (Lr a) (Lr b)
  | RAlt a b => l_alt (Lr a) (Lr b)
  | ROcc m n a => l_rep m n (Lr a)
  end.

Definition leb_bound (k : nat) (n : option nat) : bool := match n with None => true | Some n => k <=? n end.
Definition pred_bound (n : option nat) : option nat := option_map pred n.

Fixpoint nullable (r : re) : bool :=
  match r with
  | RVoid => false
  | REps => true
  | RSym _ => false
  | RCat a b => nullable a && nullable b
  | RAlt a b => nullable a || nullable b
  | ROcc m n a => (m =? 0) || (nullable a && leb_bound m n)
  end.

Fixpoint deriv (x : qname) (r : re) : re :=
  match r with
  | RVoid => RVoid
  | REps => RVoid
  | RSym s => if sym_match s x then REps else RVoid
  | RCat a b => if nullable a then RAlt (RCat (deriv x a) b) (deriv x b) else RCat (deriv x a) b
  | RAlt a b => RAlt (deriv x a) (deriv x b)
  | ROcc m n a =>
      match n with
      | Some O => RVoid
      | _ => RCat (deriv x a) (ROcc (pred m) (pred_bound n) a)
      end
  end.

Fixpoint rmatch (r : re) (w : list qname) : bool :=
  match w with [] => nullable r | x :: w' => rmatch (deriv x r) w' end.

Fixpoint p2re (p : particle) : re :=
  match p with
  | Elem m n q => ROcc m n (RSym (SQ q))
  | Wild m n c => ROcc m n (RSym (SW c))
  | Seq m n ps => ROcc m n ((fix go (ps : list particle) : re :=
                               match ps with [] => REps | p :: r => RCat (p2re p) (go r) end) ps)
  | Choice m n ps => ROcc m n ((fix go (ps : list particle) : re :=
                                  match ps with [] => RVoid | p :: r => RAlt (p2re p) (go r) end) ps)
  end.

(** the decider used as oracle; proved equal to [Lp] in Proofs08a (pmatch_correct) *)
Definition pmatch (p : particle) (w : list qname) : bool := rmatch (p2re p) w.

(** * All-groups (3.8.4 clause 3 with the restrictions of 3.8.6: members are element particles with
    max = 1 and min in {0,1}; the group itself has max = 1 and min in {0,1}) *)
Record allgroup := { ag_optional : bool; ag_members : list (qname * bool) (* name, required *) }.

(** some sub-list of the members, containing every required one, in some order *)
Inductive sub_required : list (qname * bool) -> list qname -> Prop :=
| SR_nil : sub_required [] []
| SR_take : forall q b ms w, sub_required ms w -> sub_required ((q, b) :: ms) (q :: w)
| SR_skip : forall q ms w, sub_required ms w -> sub_required ((q, false) :: ms) w.

Definition L_all (g : allgroup) : lang :=
  fun w => (w = [] /\ ag_optional g = true) \/ exists s, sub_required (ag_members g) s /\ Permutation s w.

(** * Attribute uses *)
Inductive use := UOptional | URequired | UProhibited.
Inductive vc := VNone | VDefault (v : list N) | VFixed (v : list N).
Record attruse := { au_name : qname; au_use : use; au_vc : vc }.
Inductive pcmode := PcSkip | PcLax | PcStrict.
Record attrdecls := { ad_uses : list attruse; ad_wild : option (nsc * pcmode) (* anyAttribute *) }.

Definition str_eqb (a b : list N) : bool :=
  (length a =? length b) && forallb (fun p => (fst p =? snd p)%N) (combine a b).

Fixpoint find_use (q : qname) (us : list attruse) : option attruse :=
  match us with [] => None | u :: r => if qname_eqb (au_name u) q then Some u else find_use q r end.
Fixpoint find_attr (q : qname) (atts : list (qname * list N)) : option (list N) :=
  match atts with [] => None | (n, v) :: r => if qname_eqb n q then Some v else find_attr q r end.

(** 3.10.4 Item Valid (Wildcard): the namespace is allowed, and under strict processing the attribute has a
    top-level declaration ([declared]); attribute values are xs:string here, so nothing else can fail *)
Definition wild_item_ok (d : attrdecls) (declared : qname -> bool) (q : qname) : bool :=
  match ad_wild d with
  | Some (c, pc) => wildcard_allows c (fst q) && match pc with PcStrict => declared q | _ => true end
  | None => false
  end.

(** 3.4.4 clause 3: every attribute information item is matched by an attribute use and valid with respect to it
    (fixed value), or else by the attribute wildcard.  A declaration with use = prohibited is no attribute use. *)
Definition attr_item_ok (d : attrdecls) (declared : qname -> bool) (a : qname * list N) : bool :=
  match find_use (fst a) (ad_uses d) with
  | Some u =>
      match au_use u with
      | UProhibited => wild_item_ok d declared (fst a)
      | _ => match au_vc u with VFixed v => str_eqb v (snd a) | _ => true end
      end
  | None => wild_item_ok d declared (fst a)
  end.
(** 3.4.4 clause 4: every required attribute use is matched *)
Definition required_present (d : attrdecls) (atts : list (qname * list N)) : bool :=
  forallb (fun u => match au_use u with
                    | URequired => match find_attr (au_name u) atts with Some _ => true | None => false end
                    | _ => true end) (ad_uses d).
Definition attrs_valid (d : attrdecls) (declared : qname -> bool) (atts : list (qname * list N)) : bool :=
  forallb (attr_item_ok d declared) atts && required_present d atts.

(** the attributes of the post-schema-validation infoset: the specified ones followed by the defaulted ones
    (3.4.5: an attribute use with a default or fixed value constraint and no matching item) *)
Definition defaulted (d : attrdecls) (atts : list (qname * list N)) : list (qname * list N) :=
  flat_map (fun u => match au_use u, find_attr (au_name u) atts with
                     | UProhibited, _ => []
                     | _, Some _ => []
                     | _, None => match au_vc u with VDefault v | VFixed v => [(au_name u, v)] | VNone => [] end
                     end) (ad_uses d).

(** * xsi:type (3.3.4 Element Locally Valid (Element) clause 4.3, 3.4.6 Type Derivation OK (Complex)) *)
Inductive dmethod := DExt | DRestr.
(** {disallowed substitutions} of the element declaration / {prohibited substitutions} of its declared type *)
Record blockset := { bk_ext : bool; bk_restr : bool }.
Definition blocked (b : blockset) (m : dmethod) : bool := match m with DExt => bk_ext b | DRestr => bk_restr b end.
(** the ancestry of the type named by xsi:type: that type first, then its base type, and so on; each with the
    {derivation method} by which it is derived from the next one *)
Definition ancestry := list (N * dmethod).
(** the type named by xsi:type may be used for an element with declared type [d] iff it is not abstract and it is [d]
    itself or derived from [d] by a chain of steps none of which uses a method blocked by the element declaration
    ([eb]) or by the declared type ([tb]) *)
Definition xsitype_ok (d : N) (eb tb : blockset) (abstract : bool) (up : ancestry) : Prop :=
  abstract = false /\
  exists pre m post, up = pre ++ (d, m) :: post /\ ~ In d (map fst pre) /\
    forall t s, In (t, s) pre -> blocked eb s = false /\ blocked tb s = false.
(** a decider for [xsitype_ok] (proved in Proofs08f): the derivation steps from the xsi:type up to [d] *)
Fixpoint steps_to (d : N) (up : ancestry) : option (list dmethod) :=
  match up with
  | [] => None
  | (t, m) :: r => if (t =? d)%N then Some [] else option_map (cons m) (steps_to d r)
  end.
Definition xsitype_okb (d : N) (eb tb : blockset) (abstract : bool) (up : ancestry) : bool :=
  negb abstract &&
  match steps_to d up with
  | Some steps => forallb (fun m => negb (blocked eb m || blocked tb m)) steps
  | None => false
  end.

(** * Substitution groups (3.3.6 Substitution Group OK (Transitive)) *)
(** {disallowed substitutions} of an element declaration: extension / restriction / substitution *)
Record eblock := { eb_types : blockset; eb_subst : bool }.
(** the ancestry of the member's type: that type first; each entry = type, its {derivation method}, its
    {prohibited substitutions} *)
Definition typechain := list (N * dmethod * blockset).
Definition tc_id (e : N * dmethod * blockset) : N := fst (fst e).
Definition tc_method (e : N * dmethod * blockset) : dmethod := snd (fst e).
Definition tc_block (e : N * dmethod * blockset) : blockset := snd e.
(** element [member] may substitute for [head] (whose {disallowed substitutions} are [hb] and whose type is [ht]) iff
    they are the same declaration, or: [hb] does not contain substitution; [head] is on the chain [affil] of
    {substitution group affiliation}s of [member]; and no {derivation method} used on the way from the member's type up
    to [ht] is contained in [hb], in the {prohibited substitutions} of [ht] or in those of an intermediate type *)
Definition subst_ok (member head : N) (affil : list N) (hb : eblock) (ht : N) (up : typechain) : Prop :=
  member = head \/
  (eb_subst hb = false /\ In head affil /\
   exists pre e post, up = pre ++ e :: post /\ tc_id e = ht /\ ~ In ht (map tc_id pre) /\
     forall x, In x pre ->
       blocked (eb_types hb) (tc_method x) = false /\
       forall y, In y (tl pre ++ [e]) -> blocked (tc_block y) (tc_method x) = false).

(** * Attribute wildcards: intersection and union (3.10.6), specified by what they must allow *)
Definition is_wc_intersection (w a b : nsc) : Prop :=
  forall x, wildcard_allows w x = wildcard_allows a x && wildcard_allows b x.
Definition is_wc_union (w a b : nsc) : Prop :=
  forall x, wildcard_allows w x = wildcard_allows a x || wildcard_allows b x.
(** 3.10.6 Attribute Wildcard Intersection clause 5 / Union clause 5.3: the cases declared "not expressible" *)
Definition inter_not_expressible (a b : nsc) : Prop :=
  exists u v, a = NsNot u /\ b = NsNot v /\ u <> v /\ u <> absent /\ v <> absent.
Definition union_not_expressible (a b : nsc) : Prop :=
  exists u l, ((a = NsNot u /\ b = NsSet l) \/ (a = NsSet l /\ b = NsNot u)) /\
              u <> absent /\ In absent l /\ ~ In u l.
(** a combination of wildcards: the complete wildcard of attribute groups and a local <anyAttribute> (intersection),
    extension of a base type (union) *)
Inductive wexpr := WLeaf (c : nsc) | WInter (a b : wexpr) | WUnion (a b : wexpr).
Fixpoint wexpr_allows (e : wexpr) (x : uri) : bool :=
  match e with
  | WLeaf c => wildcard_allows c x
  | WInter a b => wexpr_allows a x && wexpr_allows b x
  | WUnion a b => wexpr_allows a x || wexpr_allows b x
  end.
(** a decider for [subst_ok] (proved in Proofs08h) *)
Fixpoint tc_split (ht : N) (up : typechain) : option (typechain * (N * dmethod * blockset)) :=
  match up with
  | [] => None
  | e :: r => if (tc_id e =? ht)%N then Some ([], e)
              else match tc_split ht r with Some (pre, x) => Some (e :: pre, x) | None => None end
  end.
Definition subst_okb (member head : N) (affil : list N) (hb : eblock) (ht : N) (up : typechain) : bool :=
  (member =? head)%N ||
  (negb (eb_subst hb) && mem_uri head affil &&
   match tc_split ht up with
   | None => false
   | Some (pre, e) =>
       forallb (fun x => negb (blocked (eb_types hb) (tc_method x)) &&
                         forallb (fun y => negb (blocked (tc_block y) (tc_method x))) (tl pre ++ [e])) pre
   end).

(** * Derivation Valid (Restriction, Complex) 3.4.6, clauses 2-4: attribute uses and attribute wildcard *)
(** an <attribute> of the restriction / an attribute use of the base type; [ad_type] numbers the simple type *)
Record adecl := { ad_name : qname; ad_use : use; ad_vc : vc; ad_type : N }.
Fixpoint find_adecl (q : qname) (l : list adecl) : option adecl :=
  match l with [] => None | d :: r => if qname_eqb (ad_name d) q then Some d else find_adecl q r end.
Definition is_required (u : use) : bool := match u with URequired => true | _ => false end.
(** clause 2.1.3: the base's value constraint is absent or default, or both are fixed with the same value *)
Definition vc_fixed_ok (b r : vc) : bool :=
  match b with VFixed v => match r with VFixed w => str_eqb v w | _ => false end | _ => true end.
(** 3.10.6 Wildcard Subset (second edition) *)
Definition wc_subset (sub super : nsc) : bool :=
  match super with
  | NsAny => true
  | NsNot v => match sub with
               | NsNot u => (u =? v)%N
               | NsSet l => negb (mem_uri v l) && negb (mem_uri absent l)
               | NsAny => false
               end
  | NsSet ls => match sub with NsSet l => forallb (fun x => mem_uri x ls) l | _ => false end
  end.
(** one <attribute> of the restriction against the base's attribute uses [base] (none prohibited) and wildcard [bw];
    [tder r b] = type r is validly derived from type b.  A prohibited declaration removes the use: not allowed when
    the base requires the attribute (clause 3), otherwise nothing to check *)
Definition adecl_ok (tder : N -> N -> bool) (base : list adecl) (bw : option nsc) (r : adecl) : bool :=
  match ad_use r with
  | UProhibited => match find_adecl (ad_name r) base with Some b => negb (is_required (ad_use b)) | None => true end
  | _ =>
      match find_adecl (ad_name r) base with
      | Some b => (negb (is_required (ad_use b)) || is_required (ad_use r)) &&
                  tder (ad_type r) (ad_type b) && vc_fixed_ok (ad_vc b) (ad_vc r)
      | None => match bw with Some w => wildcard_allows w (fst (ad_name r)) | None => false end
      end
  end.
Definition attr_restriction_ok (tder : N -> N -> bool) (base : list adecl) (bw : option nsc)
                               (decls : list adecl) (dw : option nsc) : bool :=
  forallb (adecl_ok tder base bw) decls &&
  match dw with
  | None => true
  | Some wd => match bw with Some wb => wc_subset wd wb | None => false end
  end.
